package gcase

import "encoding/json"

func cloneGraph(g *Graph) *Graph {
	b, _ := json.Marshal(g)
	var c Graph
	_ = json.Unmarshal(b, &c)
	return &c
}

// ShrinkCandidates lists smaller variants of a graph case, most aggressive first: a node removed
// (with everything that mentions it, its predecessors reconnected to its successors or not), a
// branch removed, a branch end removed, an edge removed, a nested graph replaced by a plain node or
// shrunk itself, decorations dropped. Candidates may be ill-formed; the caller evaluates each and
// keeps only those that still show the disagreement.
func ShrinkCandidates(g *Graph) []*Graph {
	var out []*Graph
	if g == nil || len(g.Stages) > 0 { // chains: the stage list and the edges must stay in step; not shrunk
		return nil
	}
	// remove a node
	for i := range g.Nodes {
		k := g.Nodes[i].Key
		for _, reconnect := range []bool{true, false} {
			c := cloneGraph(g)
			c.Nodes = append(c.Nodes[:i:i], c.Nodes[i+1:]...)
			var preds, succs []string
			var edges [][2]string
			for _, e := range c.Edges {
				switch {
				case e[1] == k && e[0] != k:
					preds = append(preds, e[0])
				case e[0] == k && e[1] != k:
					succs = append(succs, e[1])
				case e[0] != k && e[1] != k:
					edges = append(edges, e)
				}
			}
			if reconnect {
				for _, p := range preds {
					for _, s := range succs {
						dup := false
						for _, e := range edges {
							if e[0] == p && e[1] == s {
								dup = true
							}
						}
						if !dup {
							edges = append(edges, [2]string{p, s})
						}
					}
				}
			}
			c.Edges = edges
			var brs []Branch
			for _, b := range c.Branches {
				if b.From == k {
					continue
				}
				b.Ends = dropStr(b.Ends, k)
				for ti := range b.Table {
					b.Table[ti] = dropStr(b.Table[ti], k)
				}
				if len(b.Ends) == 0 {
					continue
				}
				brs = append(brs, b)
			}
			c.Branches = brs
			out = append(out, c)
		}
	}
	// remove a branch / a branch end
	for i := range g.Branches {
		c := cloneGraph(g)
		c.Branches = append(c.Branches[:i:i], c.Branches[i+1:]...)
		out = append(out, c)
		for _, e := range g.Branches[i].Ends {
			if len(g.Branches[i].Ends) < 2 {
				break
			}
			c := cloneGraph(g)
			c.Branches[i].Ends = dropStr(c.Branches[i].Ends, e)
			for ti := range c.Branches[i].Table {
				c.Branches[i].Table[ti] = dropStr(c.Branches[i].Table[ti], e)
			}
			out = append(out, c)
		}
	}
	// remove an edge
	for i := range g.Edges {
		c := cloneGraph(g)
		c.Edges = append(c.Edges[:i:i], c.Edges[i+1:]...)
		out = append(out, c)
	}
	// nested graphs: plain node instead, or the inner graph shrunk
	for i := range g.Nodes {
		if g.Nodes[i].Body.Op == "graph" && g.Nodes[i].Body.G != nil {
			c := cloneGraph(g)
			c.Nodes[i].Body = Body{Op: "tag", ID: g.Nodes[i].Body.ID}
			out = append(out, c)
			for _, inner := range ShrinkCandidates(g.Nodes[i].Body.G) {
				c := cloneGraph(g)
				c.Nodes[i].Body.G = inner
				out = append(out, c)
			}
		}
	}
	// decorations
	if g.CompileCB {
		c := cloneGraph(g)
		c.CompileCB = false
		out = append(out, c)
	}
	for i := range g.Nodes {
		n := g.Nodes[i]
		if n.Native != "" || len(n.Chunks) > 0 {
			c := cloneGraph(g)
			c.Nodes[i].Native, c.Nodes[i].Chunks = "", nil
			out = append(out, c)
		}
		if n.OutTyped {
			c := cloneGraph(g)
			c.Nodes[i].OutTyped = false
			out = append(out, c)
		}
	}
	return out
}

func dropStr(l []string, k string) []string {
	var o []string
	for _, x := range l {
		if x != k {
			o = append(o, x)
		}
	}
	return o
}
