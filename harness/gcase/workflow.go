//go:build verif

// Workflow case family (property C02): a JSON case is built into a real compose.Workflow
// here and interpreted by the Lean model on the other side
// (lean/EinoV/Oracle/C02Workflow.lean, lean/EinoV/Model/C02Workflow.lean).
//
// Data flows as whole values: every node outputs {key: hash}; a dependency with data is
// declared either as a whole-output input (only possible for a node with a single data
// predecessor: workflow.go rejects a second whole-output mapping) or as the field mapping
// key -> key, which moves exactly that one entry — so the input of a node is the map merge
// of the outputs of its data predecessors in both declarations.
package gcase

import (
	"context"
	"fmt"
	"runtime"
	"sort"
	"sync"
	"time"

	"github.com/cloudwego/eino/compose"
	"github.com/cloudwego/eino/schema"
	"github.com/cloudwego/eino/verifharness/vh"
)

type WDep struct {
	From string `json:"from"`
	To   string `json:"to"`
	Kind string `json:"kind"` // in (AddInput) | dep (AddDependency) | data (WithNoDirectDependency)
}

type WNode struct {
	Key    string `json:"key"`
	Body   Body   `json:"body"`             // tag | fail
	Static string `json:"static,omitempty"` // SetStaticValue(["s_"+key], Static)
	Whole  bool   `json:"whole,omitempty"`  // declare the single data dependency as a whole-output input
	Native string `json:"native,omitempty"` // natively implemented paradigms (stream runs)
	Chunks []int  `json:"chunks,omitempty"`
}

type Workflow struct {
	Nodes    []WNode  `json:"nodes"`
	Deps     []WDep   `json:"deps"`
	Branches []Branch `json:"branches,omitempty"`
	EndWhole bool     `json:"endWhole,omitempty"`
}

func (w *Workflow) node(k string) *WNode {
	for i := range w.Nodes {
		if w.Nodes[i].Key == k {
			return &w.Nodes[i]
		}
	}
	return nil
}

// outKey: the single key of the output map of a node (START hands on the run input).
func outKey(from string) string {
	if from == "start" {
		return "in"
	}
	return from
}

type wfState struct{}

// WRunOpts controls one run of a workflow case.
type WRunOpts struct {
	// Script: the completion order to enforce (node keys). Every listed node's body blocks
	// until the node before it in the list has been collected by the run loop (observed by
	// its state post-handler, which runs on the run-loop goroutine inside waitOne). nil: free run.
	Script []string
	// Yields: free-running perturbation, number of scheduler yields in the body of a node.
	Yields map[string]int
	Stream bool
}

type WOutcome struct {
	Result ResultJ    `json:"result"`
	Execs  []TaskJ    `json:"execs"` // body entries (node, rendered input) up to the return of the run, sorted
	Trace  [][]string `json:"trace"` // node keys submitted by each iteration of the run loop, sorted
	Stuck  []string   `json:"stuck,omitempty"`
}

type wfRun struct {
	mu        sync.Mutex
	execs     []TaskJ
	closed    bool
	collected map[string]chan struct{}
	once      map[string]*sync.Once
	prev      map[string]string
	abort     chan struct{}
	stuck     []string
	yields    map[string]int
}

func (r *wfRun) enter(key string, in M) {
	r.mu.Lock()
	if !r.closed {
		r.execs = append(r.execs, TaskJ{K: key, In: Render(in)})
	}
	r.mu.Unlock()
	if p, ok := r.prev[key]; ok && p != "" {
		select {
		case <-r.collected[p]:
		case <-r.abort:
		case <-time.After(15 * time.Second): // only to classify a script that cannot be followed
			r.mu.Lock()
			r.stuck = append(r.stuck, key)
			r.mu.Unlock()
		}
	}
	for i := 0; i < r.yields[key]; i++ {
		runtime.Gosched()
	}
}

func (r *wfRun) collect(key string) {
	if o, ok := r.once[key]; ok {
		o.Do(func() { close(r.collected[key]) })
	}
}

// BuildWorkflow constructs the compose.Workflow of a case; run != nil wires the recording /
// scripting hooks of one run into the node bodies.
func BuildWorkflow(w *Workflow, run *wfRun, withState bool) (*compose.Workflow[M, M], error) {
	var wf *compose.Workflow[M, M]
	if withState {
		wf = compose.NewWorkflow[M, M](compose.WithGenLocalState(func(ctx context.Context) *wfState { return &wfState{} }))
	} else {
		wf = compose.NewWorkflow[M, M]()
	}
	dataPreds := map[string]int{}
	for _, d := range w.Deps {
		if d.Kind == "in" || d.Kind == "data" {
			dataPreds[d.To]++
		}
	}
	handles := map[string]*compose.WorkflowNode{}
	for i := range w.Nodes {
		n := w.Nodes[i]
		f := func(ctx context.Context, in M) (M, error) {
			if run != nil {
				run.enter(n.Key, in)
			}
			if n.Body.Op == "fail" {
				return nil, &UserErr{ID: n.Body.ID}
			}
			return TagBody(n.Key, in), nil
		}
		var opts []compose.GraphAddNodeOpt
		if withState {
			opts = append(opts, compose.WithStatePostHandler(func(ctx context.Context, out M, s *wfState) (M, error) {
				if run != nil {
					run.collect(n.Key)
				}
				return out, nil
			}))
		}
		h := wf.AddLambdaNode(n.Key, nativeLambda(f, n.Native, n.Chunks, nil), opts...)
		if n.Static != "" {
			h.SetStaticValue(compose.FieldPath{"s_" + n.Key}, n.Static)
		}
		handles[n.Key] = h
	}
	handles["end"] = wf.End()
	for _, d := range w.Deps {
		h, ok := handles[d.To]
		if !ok {
			return nil, fmt.Errorf("dependency to unknown node %s", d.To)
		}
		from := d.From
		if from == "start" {
			from = compose.START
		}
		whole := false
		if d.To == "end" {
			whole = w.EndWhole && dataPreds["end"] == 1
		} else if n := w.node(d.To); n != nil {
			whole = n.Whole && dataPreds[d.To] == 1 && n.Static == ""
		}
		var maps []*compose.FieldMapping
		if !whole {
			maps = []*compose.FieldMapping{compose.MapFields(outKey(d.From), outKey(d.From))}
		}
		switch d.Kind {
		case "in":
			h.AddInput(from, maps...)
		case "dep":
			h.AddDependency(from)
		case "data":
			h.AddInputWithOptions(from, maps, compose.WithNoDirectDependency())
		default:
			return nil, fmt.Errorf("bad dependency kind %s", d.Kind)
		}
	}
	for i := range w.Branches {
		b := w.Branches[i]
		ends := map[string]bool{}
		for _, e := range b.Ends {
			ends[e] = true
		}
		from := b.From
		if from == "start" {
			from = compose.START
		}
		var br *compose.GraphBranch
		if b.Multi {
			br = compose.NewGraphMultiBranch(func(ctx context.Context, in M) (map[string]bool, error) {
				if b.Fail != nil {
					return nil, &BranchErr{ID: *b.Fail}
				}
				out := map[string]bool{}
				for _, t := range Pick(b.Table, in) {
					out[t] = true
				}
				return out, nil
			}, ends)
		} else {
			br = compose.NewGraphBranch(func(ctx context.Context, in M) (string, error) {
				if b.Fail != nil {
					return "", &BranchErr{ID: *b.Fail}
				}
				row := Pick(b.Table, in)
				if len(row) != 1 {
					return "", fmt.Errorf("harness: single branch row must have one target")
				}
				return row[0], nil
			}, ends)
		}
		wf.AddBranch(from, br)
	}
	return wf, nil
}

// RunWorkflow compiles and runs the case once; out == nil with a class when it cannot be
// built / compiled or when the call panics / hangs.
func RunWorkflow(w *Workflow, input string, o *WRunOpts) (out *WOutcome, class string) {
	if o == nil {
		o = &WRunOpts{}
	}
	run := &wfRun{collected: map[string]chan struct{}{}, once: map[string]*sync.Once{}, prev: map[string]string{},
		abort: make(chan struct{}), yields: o.Yields}
	for i, k := range o.Script {
		run.collected[k] = make(chan struct{})
		run.once[k] = &sync.Once{}
		if i > 0 {
			run.prev[k] = o.Script[i-1]
		}
	}
	var wf *compose.Workflow[M, M]
	var err error
	if panicked, pv := vh.Safely(func() { wf, err = BuildWorkflow(w, run, len(o.Script) > 0) }); panicked {
		return nil, fmt.Sprint("build-panic: ", pv)
	}
	if err != nil {
		return nil, "build-error: " + err.Error()
	}
	ctx := context.Background()
	var r compose.Runnable[M, M]
	if panicked, pv := vh.Safely(func() { r, err = wf.Compile(ctx) }); panicked {
		return nil, fmt.Sprint("compile-panic: ", pv)
	}
	if err != nil {
		return nil, "compile-error: " + err.Error()
	}
	steps := &compose.VerifRecorder{}
	rctx := compose.VerifWithRecorder(ctx, steps)
	var res M
	var runErr error
	finished := false
	panicked, pv := vh.Safely(func() {
		finished = vh.WithTimeout(40*time.Second, func() {
			if o.Stream {
				var sr *schema.StreamReader[M]
				sr, runErr = r.Stream(rctx, M{"in": input})
				if runErr == nil {
					var cs []M
					cs, runErr = Drain(sr)
					if runErr == nil {
						res = ConcatChunks(cs)
					}
				}
			} else {
				res, runErr = r.Invoke(rctx, M{"in": input})
			}
		})
	})
	// snapshot what has been observed up to the return of the run, then let stragglers go
	run.mu.Lock()
	run.closed = true
	execs := append([]TaskJ{}, run.execs...)
	stuck := append([]string{}, run.stuck...)
	run.mu.Unlock()
	close(run.abort)
	if panicked {
		return nil, fmt.Sprint("panic-escaped: ", pv)
	}
	if !finished {
		return nil, "hang"
	}
	out = &WOutcome{Stuck: stuck}
	if runErr != nil {
		out.Result = Classify(runErr)
	} else {
		s := Render(res)
		out.Result = ResultJ{Ok: &s}
	}
	sort.Slice(execs, func(i, j int) bool {
		if execs[i].K != execs[j].K {
			return execs[i].K < execs[j].K
		}
		return execs[i].In < execs[j].In
	})
	out.Execs = execs
	out.Trace = [][]string{}
	for _, ev := range steps.Snapshot() {
		if ev.Step < 0 || len(ev.Path) > 0 {
			continue
		}
		ks := append([]string{}, ev.Keys...)
		sort.Strings(ks)
		out.Trace = append(out.Trace, ks)
	}
	return out, "ran"
}

// ---------- generator ----------

type WGenOpts struct {
	MaxNodes  int
	FailPct   int
	BranchPct int
	Natives   bool // assign stream-native paradigms / chunk patterns (stream runs)
}

func hasDep(ds []WDep, from, to string, control bool) bool {
	for _, d := range ds {
		if d.From == from && d.To == to {
			if control && (d.Kind == "in" || d.Kind == "dep") {
				return true
			}
			if !control && (d.Kind == "in" || d.Kind == "data") {
				return true
			}
		}
	}
	return false
}

// GenWorkflow produces a random acyclic workflow: nodes n0..n(k-1) in a topological order,
// every dependency and branch goes forward. Guarantees (so that the case compiles and stays
// clear of the known C03 shape "started node without a path to END"):
//   - every node has at least one control predecessor (dependency or branch) and at least one
//     control successor (dependency, or being the source of a branch);
//   - START has a control dependency edge, END has one.
func GenWorkflow(r *vh.Rand, o WGenOpts) *Workflow {
	w := &Workflow{}
	n := r.Range(1, o.MaxNodes)
	keys := []string{}
	for i := 0; i < n; i++ {
		k := fmt.Sprintf("n%d", i)
		keys = append(keys, k)
		b := Body{Op: "tag"}
		if r.Chance(o.FailPct) {
			b = Body{Op: "fail", ID: r.Range(1, 9)}
		}
		w.Nodes = append(w.Nodes, WNode{Key: k, Body: b})
	}
	all := append([]string{"start"}, keys...) // all[i+1] = keys[i]
	// branches: from all[idx] to later nodes / END
	ctrlIn := map[string]int{}
	ctrlOut := map[string]int{}
	for idx, from := range all {
		nb := 0
		if r.Chance(o.BranchPct) {
			nb = 1
			if r.Chance(20) {
				nb = 2
			}
		}
		for q := 0; q < nb; q++ {
			cands := append([]string{}, keys[idx:]...)
			cands = append(cands, "end")
			if len(cands) < 2 {
				continue
			}
			p := r.Perm(len(cands))
			ne := r.Range(2, min(3, len(cands)))
			ends := []string{}
			for _, i := range p[:ne] {
				ends = append(ends, cands[i])
			}
			b := Branch{From: from, Ends: ends, Multi: r.Chance(40)}
			rows := r.Range(1, 4)
			for i := 0; i < rows; i++ {
				if b.Multi {
					row := []string{}
					for _, e := range ends {
						if r.Chance(55) {
							row = append(row, e)
						}
					}
					b.Table = append(b.Table, row)
				} else {
					b.Table = append(b.Table, []string{ends[r.Intn(len(ends))]})
				}
			}
			if r.Chance(3) {
				id := r.Range(1, 9)
				b.Fail = &id
			}
			w.Branches = append(w.Branches, b)
			ctrlOut[from]++
			for _, e := range ends {
				ctrlIn[e]++
			}
		}
	}
	// edgeAndBranch: `to` is an end of a branch of `from`. A control dependency on top of that
	// is the shape of the known C02 finding (DESIGN.md §5: the skip reported by the branch and
	// the dependency reported by the edge race on the same channel entry); never generated.
	edgeAndBranch := func(from, to string) bool {
		for _, b := range w.Branches {
			if b.From == from {
				for _, e := range b.Ends {
					if e == to {
						return true
					}
				}
			}
		}
		return false
	}
	add := func(from, to, kind string) {
		control := kind != "data"
		data := kind != "dep"
		if control && edgeAndBranch(from, to) {
			if !data || hasDep(w.Deps, from, to, false) {
				return
			}
			kind, control = "data", false
		}
		if control && hasDep(w.Deps, from, to, true) {
			return
		}
		if data && hasDep(w.Deps, from, to, false) {
			if !control {
				return
			}
			kind = "dep"
		}
		if kind == "in" && r.Chance(8) {
			// the same relation declared as two calls: AddDependency + WithNoDirectDependency
			w.Deps = append(w.Deps, WDep{From: from, To: to, Kind: "dep"}, WDep{From: from, To: to, Kind: "data"})
		} else {
			w.Deps = append(w.Deps, WDep{From: from, To: to, Kind: kind})
		}
		if control {
			ctrlIn[to]++
			ctrlOut[from]++
		}
	}
	ctrlKind := func() string {
		if r.Chance(35) {
			return "dep"
		}
		return "in"
	}
	// control predecessors
	for j, k := range keys {
		if ctrlIn[k] > 0 && r.Chance(55) {
			continue // reached through branches only
		}
		np := 1
		if r.Chance(35) {
			np = 2
		}
		for q := 0; q < np; q++ {
			add(all[r.Intn(j+1)], k, ctrlKind())
		}
	}
	// data-only dependencies (from an earlier node, whatever its relation to this one)
	for j, k := range keys {
		if j > 0 && r.Chance(25) {
			add(all[r.Intn(j+1)], k, "data")
		}
	}
	// END: fed by several nodes
	ne := r.Range(1, 3)
	for q := 0; q < ne; q++ {
		add(keys[r.Intn(n)], "end", ctrlKind())
	}
	if r.Chance(15) {
		add(all[r.Intn(len(all))], "end", "data")
	}
	// repair until the guarantees hold (removing a branch may take a node's only predecessor)
	for round := 0; round < 6; round++ {
		ctrlIn, ctrlOut = map[string]int{}, map[string]int{}
		startEdge, endEdge := false, false
		for _, d := range w.Deps {
			if d.Kind != "data" {
				ctrlIn[d.To]++
				ctrlOut[d.From]++
				startEdge = startEdge || d.From == "start"
				endEdge = endEdge || d.To == "end"
			}
		}
		for _, b := range w.Branches {
			ctrlOut[b.From]++
			for _, e := range b.Ends {
				ctrlIn[e]++
			}
		}
		changed := false
		for j, k := range keys {
			if ctrlIn[k] == 0 { // not an end of any branch: any earlier node will do
				add(all[r.Intn(j+1)], k, ctrlKind())
				changed = true
			}
		}
		for j := n - 1; j >= 0; j-- {
			k := keys[j]
			if ctrlOut[k] == 0 { // no branch either: path to END through a dependency
				if j < n-1 && r.Chance(40) {
					add(k, keys[r.Range(j+1, n-1)], ctrlKind())
				} else {
					add(k, "end", ctrlKind())
				}
				changed = true
			}
		}
		if !endEdge {
			src := ""
			for j := n - 1; j >= 0 && src == ""; j-- {
				if !edgeAndBranch(keys[j], "end") {
					src = keys[j]
				}
			}
			if src == "" { // every node has a branch to END: drop those of the last node
				src = keys[n-1]
				var kept []Branch
				for _, b := range w.Branches {
					toEnd := false
					for _, e := range b.Ends {
						toEnd = toEnd || e == "end"
					}
					if b.From != src || !toEnd {
						kept = append(kept, b)
					}
				}
				w.Branches = kept
			}
			add(src, "end", "in")
			changed = true
		}
		if !startEdge { // branches from START do not count as start nodes for compile
			dst := ""
			for _, k := range keys {
				if dst == "" && !edgeAndBranch("start", k) {
					dst = k
				}
			}
			if dst == "" { // every node is an end of a branch of START: drop them
				var kept []Branch
				for _, b := range w.Branches {
					if b.From != "start" {
						kept = append(kept, b)
					}
				}
				w.Branches = kept
				dst = keys[0]
			}
			add("start", dst, ctrlKind())
			changed = true
		}
		if !changed {
			break
		}
	}
	// how data dependencies are declared; static values
	for i := range w.Nodes {
		w.Nodes[i].Whole = r.Chance(50)
		if !w.Nodes[i].Whole && r.Chance(15) {
			w.Nodes[i].Static = fmt.Sprintf("v%d", r.Intn(3))
		}
		if o.Natives {
			set := ""
			for _, p := range []string{"i", "s", "c", "t"} {
				if r.Chance(35) {
					set += p
				}
			}
			if set == "" {
				set = "i"
			}
			w.Nodes[i].Native = set
			for j := r.Intn(3); j > 0; j-- {
				w.Nodes[i].Chunks = append(w.Nodes[i].Chunks, r.Intn(4))
			}
		}
	}
	w.EndWhole = r.Chance(50)
	return w
}

// WShape summarises a workflow case for the distribution / coverage key.
func WShape(w *Workflow) (nodes, ctrlOnly, dataOnly, both, branches int, zeroInput bool) {
	nodes, branches = len(w.Nodes), len(w.Branches)
	dataIn := map[string]int{}
	for _, d := range w.Deps {
		switch d.Kind {
		case "dep":
			ctrlOnly++
		case "data":
			dataOnly++
			dataIn[d.To]++
		default:
			both++
			dataIn[d.To]++
		}
	}
	for _, n := range w.Nodes {
		if dataIn[n.Key] == 0 {
			zeroInput = true
		}
	}
	return
}
