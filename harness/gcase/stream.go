//go:build verif

package gcase

import (
	"context"
	"fmt"
	"io"
	"sort"
	"strings"
	"time"

	"github.com/cloudwego/eino/compose"
	"github.com/cloudwego/eino/schema"
	"github.com/cloudwego/eino/verifharness/vh"
)

type lambdaOpt struct{}

// ChunkStr splits s by the size pattern (sizes are pat[i]+1); the remainder is the last chunk.
func ChunkStr(pat []int, s string) []string {
	rs := []rune(s)
	var out []string
	for _, p := range pat {
		n := p + 1
		if len(rs) <= n {
			break
		}
		out = append(out, string(rs[:n]))
		rs = rs[n:]
	}
	return append(out, string(rs))
}

// ChunkMap: a single-key map {k: s} is split into {k: piece} chunks; other maps: one chunk.
func ChunkMap(pat []int, v M) []M {
	if len(v) == 1 {
		for k, x := range v {
			if s, ok := x.(string); ok {
				var out []M
				for _, p := range ChunkStr(pat, s) {
					out = append(out, M{k: p})
				}
				return out
			}
		}
	}
	return []M{v}
}

// ConcatChunks: per-key string concatenation in chunk order (what eino's concat does for
// map[string]any chunks with string values).
func ConcatChunks(cs []M) M {
	out := M{}
	for _, c := range cs {
		for k, v := range c {
			if old, ok := out[k]; ok {
				out[k] = fmt.Sprint(old) + fmt.Sprint(v)
			} else {
				out[k] = v
			}
		}
	}
	return out
}

func Drain(sr *schema.StreamReader[M]) ([]M, error) {
	defer sr.Close()
	var out []M
	for {
		c, err := sr.Recv()
		if err == io.EOF {
			return out, nil
		}
		if err != nil {
			return out, err
		}
		out = append(out, c)
	}
}

// nativeLambda builds a lambda that natively implements exactly the paradigms in `native`
// for the deterministic function f, splitting streamed output by `pat`.
func nativeLambda(f func(ctx context.Context, in M) (M, error), native string, pat []int, produce func([]M) *schema.StreamReader[M]) *compose.Lambda {
	if native == "" || native == "i" {
		return compose.InvokableLambda(f)
	}
	if produce == nil {
		produce = func(cs []M) *schema.StreamReader[M] { return schema.StreamReaderFromArray(cs) }
	}
	var fi compose.Invoke[M, M, lambdaOpt]
	var fs compose.Stream[M, M, lambdaOpt]
	var fc compose.Collect[M, M, lambdaOpt]
	var ft compose.Transform[M, M, lambdaOpt]
	collectIn := func(in *schema.StreamReader[M]) (M, error) {
		cs, err := Drain(in)
		if err != nil {
			return nil, err
		}
		return ConcatChunks(cs), nil
	}
	if strings.Contains(native, "i") {
		fi = func(ctx context.Context, in M, _ ...lambdaOpt) (M, error) { return f(ctx, in) }
	}
	if strings.Contains(native, "s") {
		fs = func(ctx context.Context, in M, _ ...lambdaOpt) (*schema.StreamReader[M], error) {
			o, err := f(ctx, in)
			if err != nil {
				return nil, err
			}
			return produce(ChunkMap(pat, o)), nil
		}
	}
	if strings.Contains(native, "c") {
		fc = func(ctx context.Context, in *schema.StreamReader[M], _ ...lambdaOpt) (M, error) {
			v, err := collectIn(in)
			if err != nil {
				return nil, err
			}
			return f(ctx, v)
		}
	}
	if strings.Contains(native, "t") {
		ft = func(ctx context.Context, in *schema.StreamReader[M], _ ...lambdaOpt) (*schema.StreamReader[M], error) {
			v, err := collectIn(in)
			if err != nil {
				return nil, err
			}
			o, err := f(ctx, v)
			if err != nil {
				return nil, err
			}
			return produce(ChunkMap(pat, o)), nil
		}
	}
	l, err := compose.AnyLambda(fi, fs, fc, ft)
	if err != nil {
		panic(err)
	}
	return l
}

// ParadigmResult is the outcome of one calling paradigm, canonicalised.
type ParadigmResult struct {
	Res   ResultJ
	Class string // ran | panic-escaped | hang
	NOut  int    // number of output chunks (stream paradigms)
}

// RunParadigms compiles the case once and calls Invoke, Stream, Collect, Transform.
func RunParadigms(g *Graph, input string, inChunks []int, bo *BuildOpts) (map[string]*ParadigmResult, string) {
	cg, err := Build(g, "", bo)
	if err != nil {
		return nil, "build-error: " + err.Error()
	}
	ctx := context.Background()
	r, err := cg.Compile(ctx, CompileOpts(g)...)
	if err != nil {
		return nil, "compile-error: " + err.Error()
	}
	x := M{"in": input}
	out := map[string]*ParadigmResult{}
	call := func(name string, f func() (M, int, error)) {
		pr := &ParadigmResult{Class: "ran"}
		out[name] = pr
		var v M
		var n int
		var e error
		finished := false
		if panicked, pv := vh.Safely(func() {
			finished = vh.WithTimeout(20*time.Second, func() { v, n, e = f() })
		}); panicked {
			pr.Class = fmt.Sprint("panic-escaped: ", pv)
			return
		}
		if !finished {
			pr.Class = "hang"
			return
		}
		pr.NOut = n
		if e != nil {
			pr.Res = Classify(e)
		} else {
			s := Render(v)
			pr.Res = ResultJ{Ok: &s}
		}
	}
	fromStream := func(sr *schema.StreamReader[M], err error) (M, int, error) {
		if err != nil {
			return nil, 0, err
		}
		cs, err := Drain(sr)
		if err != nil {
			return nil, len(cs), err
		}
		if len(cs) == 0 {
			return nil, 0, fmt.Errorf("harness: empty output stream")
		}
		return ConcatChunks(cs), len(cs), nil
	}
	call("invoke", func() (M, int, error) { v, e := r.Invoke(ctx, x); return v, 1, e })
	call("stream", func() (M, int, error) { return fromStream(r.Stream(ctx, x)) })
	call("collect", func() (M, int, error) {
		v, e := r.Collect(ctx, schema.StreamReaderFromArray(ChunkMap(inChunks, x)))
		return v, 1, e
	})
	call("transform", func() (M, int, error) {
		return fromStream(r.Transform(ctx, schema.StreamReaderFromArray(ChunkMap(inChunks, x))))
	})
	return out, "ran"
}

// AssignNatives gives every tag/fail node a random non-empty native subset and chunk pattern.
func AssignNatives(r *vh.Rand, g *Graph) {
	for i := range g.Nodes {
		n := &g.Nodes[i]
		switch n.Body.Op {
		case "tag", "fail":
			set := ""
			for _, p := range []string{"i", "s", "c", "t"} {
				if r.Chance(40) {
					set += p
				}
			}
			if set == "" {
				set = []string{"i", "s", "c", "t"}[r.Intn(4)]
			}
			n.Native = set
			k := r.Intn(3)
			n.Chunks = nil
			for j := 0; j < k; j++ {
				n.Chunks = append(n.Chunks, r.Intn(4))
			}
		case "graph":
			AssignNatives(r, n.Body.G)
		}
	}
}

func SortedKeys(m map[string]*ParadigmResult) []string {
	var ks []string
	for k := range m {
		ks = append(ks, k)
	}
	sort.Strings(ks)
	return ks
}
