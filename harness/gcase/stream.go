//go:build verif

package gcase

import (
	"context"
	"fmt"
	"io"
	"sort"
	"strings"
	"time"

	"github.com/cloudwego/eino/compose"
	"github.com/cloudwego/eino/schema"
	"github.com/cloudwego/eino/verifharness/vh"
)

type lambdaOpt struct{}

// ChunkStr splits s by the size pattern (sizes are pat[i]+1); the remainder is the last chunk.
func ChunkStr(pat []int, s string) []string {
	rs := []rune(s)
	var out []string
	for _, p := range pat {
		n := p + 1
		if len(rs) <= n {
			break
		}
		out = append(out, string(rs[:n]))
		rs = rs[n:]
	}
	return append(out, string(rs))
}

// ChunkMap: a single-key map {k: s} is split into {k: piece} chunks; other maps: one chunk.
func ChunkMap(pat []int, v M) []M {
	if len(v) == 1 {
		for k, x := range v {
			if s, ok := x.(string); ok {
				var out []M
				for _, p := range ChunkStr(pat, s) {
					out = append(out, M{k: p})
				}
				return out
			}
		}
	}
	return []M{v}
}

// ConcatChunks: per-key string concatenation in chunk order (what eino's concat does for
// map[string]any chunks with string values).
func ConcatChunks(cs []M) M {
	out := M{}
	for _, c := range cs {
		for k, v := range c {
			v = UnwrapV(v)
			if old, ok := out[k]; ok {
				out[k] = fmt.Sprint(old) + fmt.Sprint(v)
			} else {
				out[k] = v
			}
		}
	}
	return out
}

func Drain(sr *schema.StreamReader[M]) ([]M, error) {
	defer sr.Close()
	var out []M
	for {
		c, err := sr.Recv()
		if err == io.EOF {
			return out, nil
		}
		if err != nil {
			return out, err
		}
		out = append(out, c)
	}
}

// nativeLambdaG builds a lambda that natively implements exactly the paradigms in `native`
// for the deterministic function f : I → O; streaming forms split their output with chunkO
// and see the concatenation (concatI) of their input chunks.
func nativeLambdaG[I, O any](f func(ctx context.Context, in I) (O, error), native string,
	chunkO func(O) []O, concatI func([]I) I, produce func([]O) *schema.StreamReader[O]) *compose.Lambda {
	return nativeLambdaMid(f, native, chunkO, concatI, produce, nil)
}

// MidFail: the node breaks in the middle of its stream. Its natively streaming forms (Stream,
// Transform) return their reader, which delivers the first After chunks of f's output and then
// the error item Err; its other native forms (Invoke, Collect) return Err at call time.
type MidFail struct {
	After int
	Err   error
}

// brokenStream: the first `after` chunks, then an error item. The pipe holds everything that is
// sent, so no goroutine is needed and nothing blocks when the reader is never drained.
func brokenStream[O any](cs []O, after int, err error) *schema.StreamReader[O] {
	if after > len(cs) {
		after = len(cs)
	}
	sr, sw := schema.Pipe[O](after + 1)
	for _, c := range cs[:after] {
		sw.Send(c, nil)
	}
	var z O
	sw.Send(z, err)
	sw.Close()
	return sr
}

func nativeLambdaMid[I, O any](f func(ctx context.Context, in I) (O, error), native string,
	chunkO func(O) []O, concatI func([]I) I, produce func([]O) *schema.StreamReader[O], mid *MidFail) *compose.Lambda {
	if mid != nil {
		whole := f
		failing := func(ctx context.Context, in I) (O, error) {
			var z O
			if _, err := whole(ctx, in); err != nil {
				return z, err
			}
			return z, mid.Err
		}
		broken := func(ctx context.Context, in I) (*schema.StreamReader[O], error) {
			o, err := whole(ctx, in)
			if err != nil {
				return nil, err
			}
			return brokenStream(chunkO(o), mid.After, mid.Err), nil
		}
		return nativeLambdaForms(failing, native, concatI, broken)
	}
	if native == "" || native == "i" {
		return compose.InvokableLambda(f)
	}
	if produce == nil {
		produce = func(cs []O) *schema.StreamReader[O] { return schema.StreamReaderFromArray(cs) }
	}
	return nativeLambdaForms(f, native, concatI, func(ctx context.Context, in I) (*schema.StreamReader[O], error) {
		o, err := f(ctx, in)
		if err != nil {
			return nil, err
		}
		return produce(chunkO(o)), nil
	})
}

// nativeLambdaForms: f is the function of the non-streaming native forms (Invoke, Collect),
// fstream the one of the streaming forms (Stream, Transform).
func nativeLambdaForms[I, O any](f func(ctx context.Context, in I) (O, error), native string,
	concatI func([]I) I, fstream func(ctx context.Context, in I) (*schema.StreamReader[O], error)) *compose.Lambda {
	if native == "" {
		native = "i"
	}
	var fi compose.Invoke[I, O, lambdaOpt]
	var fs compose.Stream[I, O, lambdaOpt]
	var fc compose.Collect[I, O, lambdaOpt]
	var ft compose.Transform[I, O, lambdaOpt]
	collectIn := func(in *schema.StreamReader[I]) (I, error) {
		defer in.Close()
		var cs []I
		for {
			c, err := in.Recv()
			if err == io.EOF {
				break
			}
			if err != nil {
				var z I
				return z, err
			}
			cs = append(cs, c)
		}
		if len(cs) == 0 {
			var z I
			return z, fmt.Errorf("harness: empty input stream")
		}
		return concatI(cs), nil
	}
	if strings.Contains(native, "i") {
		fi = func(ctx context.Context, in I, _ ...lambdaOpt) (O, error) { return f(ctx, in) }
	}
	if strings.Contains(native, "s") {
		fs = func(ctx context.Context, in I, _ ...lambdaOpt) (*schema.StreamReader[O], error) {
			return fstream(ctx, in)
		}
	}
	if strings.Contains(native, "c") {
		fc = func(ctx context.Context, in *schema.StreamReader[I], _ ...lambdaOpt) (O, error) {
			v, err := collectIn(in)
			if err != nil {
				var z O
				return z, err
			}
			return f(ctx, v)
		}
	}
	if strings.Contains(native, "t") {
		ft = func(ctx context.Context, in *schema.StreamReader[I], _ ...lambdaOpt) (*schema.StreamReader[O], error) {
			v, err := collectIn(in)
			if err != nil {
				return nil, err
			}
			return fstream(ctx, v)
		}
	}
	l, err := compose.AnyLambda(fi, fs, fc, ft)
	if err != nil {
		panic(err)
	}
	return l
}

func concatStrs(cs []string) string { return strings.Join(cs, "") }

// midOf: the mid-stream failure of a fail node with Body.After (nil for every other node).
func midOf(n Node) *MidFail {
	if n.Body.Op == "fail" && n.Body.After != nil {
		return &MidFail{After: *n.Body.After, Err: &UserErr{ID: n.Body.ID}}
	}
	return nil
}

// addKeyedLambda adds the node's lambda with the Go types its input/output keys imply:
// no keys: M → M; OutKey: M → string (+WithOutputKey); InKey: string → M (+WithInputKey); both: string → string;
// SIn: like InKey, but without the option (the predecessor, a pass node with that input key, hands over the string).
func addKeyedLambda(cg *compose.Graph[M, M], n Node, f func(ctx context.Context, in M) (M, error),
	produce func([]M) *schema.StreamReader[M]) error {
	l, opts := keyedLambda(n, f, produce)
	return cg.AddLambdaNode(n.Key, l, opts...)
}

// keyedLambda: the lambda of a tag / fail node and the add-node options its keys need.
func keyedLambda(n Node, f func(ctx context.Context, in M) (M, error),
	produce func([]M) *schema.StreamReader[M]) (*compose.Lambda, []compose.GraphAddNodeOpt) {
	pat := n.Chunks
	mid := midOf(n)
	chunkM := func(o M) []M { return ChunkMap(pat, o) }
	chunkS := func(o string) []string { return ChunkStr(pat, o) }
	// the string a keyed lambda returns: the single value of f's output map
	val := func(m M) string {
		for _, v := range m {
			return fmt.Sprint(v)
		}
		return ""
	}
	var produceS func([]string) *schema.StreamReader[string]
	if produce != nil {
		// route string chunks through the same producer machinery (as single-key maps), then unwrap
		produceS = func(cs []string) *schema.StreamReader[string] {
			ms := make([]M, len(cs))
			for i, c := range cs {
				ms[i] = M{"_": c}
			}
			return schema.StreamReaderWithConvert(produce(ms), func(m M) (string, error) { return fmt.Sprint(m["_"]), nil })
		}
	}
	var opts []compose.GraphAddNodeOpt
	strKey := n.InKey // the key under which the model keeps the lambda's string input
	if n.InKey != "" {
		opts = append(opts, compose.WithInputKey(n.InKey))
	} else if n.SIn != "" {
		strKey = n.SIn
	}
	if n.OutKey != "" {
		opts = append(opts, compose.WithOutputKey(n.OutKey))
	}
	fs := func(ctx context.Context, in string) (M, error) { return f(ctx, M{strKey: in}) }
	switch {
	case strKey == "" && n.OutKey == "":
		return nativeLambdaMid(f, n.Native, chunkM, ConcatChunks, produce, mid), opts
	case n.OutKey != "" && n.OutTyped:
		chunkT := func(o map[string]string) []map[string]string {
			var cs []map[string]string
			for _, piece := range ChunkStr(pat, o["v"]) {
				cs = append(cs, map[string]string{"v": piece})
			}
			return cs
		}
		var produceT func([]map[string]string) *schema.StreamReader[map[string]string]
		if produce != nil {
			produceT = func(cs []map[string]string) *schema.StreamReader[map[string]string] {
				ms := make([]M, len(cs))
				for i, c := range cs {
					ms[i] = M{"_": c["v"]}
				}
				return schema.StreamReaderWithConvert(produce(ms), func(m M) (map[string]string, error) {
					return map[string]string{"v": fmt.Sprint(m["_"])}, nil
				})
			}
		}
		if strKey == "" {
			g := func(ctx context.Context, in M) (map[string]string, error) {
				o, err := f(ctx, in)
				if err != nil {
					return nil, err
				}
				return map[string]string{"v": val(o)}, nil
			}
			return nativeLambdaMid(g, n.Native, chunkT, ConcatChunks, produceT, mid), opts
		}
		g := func(ctx context.Context, in string) (map[string]string, error) {
			o, err := fs(ctx, in)
			if err != nil {
				return nil, err
			}
			return map[string]string{"v": val(o)}, nil
		}
		return nativeLambdaMid(g, n.Native, chunkT, concatStrs, produceT, mid), opts
	case strKey == "" && n.OutKey != "":
		g := func(ctx context.Context, in M) (string, error) {
			o, err := f(ctx, in)
			if err != nil {
				return "", err
			}
			return val(o), nil
		}
		return nativeLambdaMid(g, n.Native, chunkS, ConcatChunks, produceS, mid), opts
	case strKey != "" && n.OutKey == "":
		return nativeLambdaMid(fs, n.Native, chunkM, concatStrs, produce, mid), opts
	default:
		g := func(ctx context.Context, in string) (string, error) {
			o, err := fs(ctx, in)
			if err != nil {
				return "", err
			}
			return val(o), nil
		}
		return nativeLambdaMid(g, n.Native, chunkS, concatStrs, produceS, mid), opts
	}
}

// BuildChain builds a case with Stages through the compose.NewChain API: a stage of one node is
// AppendLambda / AppendPassthrough / AppendGraph (with the node's key options), a stage of several
// nodes is AppendParallel, each member added under its output key. The case's Edges must be the
// edges of that chain (they are what the model runs); anything else is a harness error.
func BuildChain(g *Graph, bo *BuildOpts) (*compose.Chain[M, M], error) {
	byKey := map[string]Node{}
	for _, n := range g.Nodes {
		byKey[n.Key] = n
	}
	want := map[[2]string]bool{}
	prev := []string{"start"}
	seen := 0
	for _, st := range g.Stages {
		for _, k := range st {
			if _, ok := byKey[k]; !ok {
				return nil, fmt.Errorf("harness: stage names unknown node %s", k)
			}
			seen++
			for _, p := range prev {
				want[[2]string{p, k}] = true
			}
		}
		prev = st
	}
	for _, p := range prev {
		want[[2]string{p, "end"}] = true
	}
	if seen != len(g.Nodes) || len(want) != len(g.Edges) || len(g.Branches) != 0 || g.Mode != "pregel" {
		return nil, fmt.Errorf("harness: case is not the chain its stages describe")
	}
	for _, e := range g.Edges {
		if !want[e] {
			return nil, fmt.Errorf("harness: edge %v is not a chain edge", e)
		}
	}
	ch := compose.NewChain[M, M]()
	for _, st := range g.Stages {
		if len(st) == 1 {
			n := byKey[st[0]]
			key := compose.WithNodeKey(n.Key)
			switch n.Body.Op {
			case "pass":
				if n.InKey != "" {
					ch.AppendPassthrough(key, compose.WithInputKey(n.InKey))
				} else {
					ch.AppendPassthrough(key)
				}
			case "graph":
				sub, err := Build(n.Body.G, n.Key, bo)
				if err != nil {
					return nil, err
				}
				ch.AppendGraph(sub, key, compose.WithGraphCompileOptions(CompileOpts(n.Body.G)...))
			default:
				f, produce := nodeFunc(n, n.Key, bo)
				l, opts := keyedLambda(n, f, produce)
				ch.AppendLambda(l, append(opts, key)...)
			}
			continue
		}
		par := compose.NewParallel()
		for _, k := range st {
			n := byKey[k]
			if n.OutKey == "" || (n.Body.Op != "tag" && n.Body.Op != "fail") {
				return nil, fmt.Errorf("harness: parallel member %s needs a lambda body and an output key", k)
			}
			f, produce := nodeFunc(n, n.Key, bo)
			outKey := n.OutKey
			l, opts := keyedLambda(n, f, produce) // opts carry WithOutputKey(outKey) again: same key
			par.AddLambda(outKey, l, append(opts, compose.WithNodeKey(n.Key))...)
		}
		ch.AppendParallel(par)
	}
	return ch, nil
}

// ParadigmResult is the outcome of one calling paradigm, canonicalised.
type ParadigmResult struct {
	Res   ResultJ
	Class string // ran | panic-escaped | hang
	NOut  int    // number of output chunks (stream paradigms)
}

// RunParadigms compiles the case once and calls Invoke, Stream, Collect, Transform.
func RunParadigms(g *Graph, input string, inChunks []int, bo *BuildOpts) (map[string]*ParadigmResult, string) {
	ctx := context.Background()
	var r compose.Runnable[M, M]
	if len(g.Stages) > 0 {
		ch, err := BuildChain(g, bo)
		if err != nil {
			return nil, "build-error: " + err.Error()
		}
		if r, err = ch.Compile(ctx, CompileOpts(g)...); err != nil {
			return nil, "compile-error: " + err.Error()
		}
	} else {
		cg, err := Build(g, "", bo)
		if err != nil {
			return nil, "build-error: " + err.Error()
		}
		if r, err = cg.Compile(ctx, CompileOpts(g)...); err != nil {
			return nil, "compile-error: " + err.Error()
		}
	}
	x := M{"in": input}
	out := map[string]*ParadigmResult{}
	call := func(name string, f func() (M, int, error)) {
		pr := &ParadigmResult{Class: "ran"}
		out[name] = pr
		var v M
		var n int
		var e error
		finished := false
		if panicked, pv := vh.Safely(func() {
			finished = vh.WithTimeout(20*time.Second, func() { v, n, e = f() })
		}); panicked {
			pr.Class = fmt.Sprint("panic-escaped: ", pv)
			return
		}
		if !finished {
			pr.Class = "hang"
			return
		}
		pr.NOut = n
		if e != nil {
			pr.Res = Classify(e)
		} else {
			s := Render(v)
			pr.Res = ResultJ{Ok: &s}
		}
	}
	fromStream := func(sr *schema.StreamReader[M], err error) (M, int, error) {
		if err != nil {
			return nil, 0, err
		}
		cs, err := Drain(sr)
		if err != nil {
			return nil, len(cs), err
		}
		if len(cs) == 0 {
			return nil, 0, fmt.Errorf("harness: empty output stream")
		}
		return ConcatChunks(cs), len(cs), nil
	}
	call("invoke", func() (M, int, error) { v, e := r.Invoke(ctx, x); return v, 1, e })
	call("stream", func() (M, int, error) { return fromStream(r.Stream(ctx, x)) })
	call("collect", func() (M, int, error) {
		v, e := r.Collect(ctx, schema.StreamReaderFromArray(ChunkMap(inChunks, x)))
		return v, 1, e
	})
	call("transform", func() (M, int, error) {
		return fromStream(r.Transform(ctx, schema.StreamReaderFromArray(ChunkMap(inChunks, x))))
	})
	return out, "ran"
}

// AssignNatives gives every tag/fail node a random non-empty native subset and chunk pattern.
func AssignNatives(r *vh.Rand, g *Graph) {
	for i := range g.Nodes {
		n := &g.Nodes[i]
		switch n.Body.Op {
		case "tag", "fail":
			set := ""
			for _, p := range []string{"i", "s", "c", "t"} {
				if r.Chance(40) {
					set += p
				}
			}
			if set == "" {
				set = []string{"i", "s", "c", "t"}[r.Intn(4)]
			}
			n.Native = set
			k := r.Intn(3)
			n.Chunks = nil
			for j := 0; j < k; j++ {
				n.Chunks = append(n.Chunks, r.Intn(4))
			}
		case "graph":
			AssignNatives(r, n.Body.G)
		}
	}
}

// AssignKeys gives some tag nodes an output key and/or an input key. An input key is one
// that a predecessor's output is likely to carry (its node key or output key); rarely a
// missing one.
func AssignKeys(r *vh.Rand, g *Graph) {
	outKeyOf := map[string]string{}
	for i := range g.Nodes {
		n := &g.Nodes[i]
		if n.Keyable() && r.Chance(30) {
			n.OutKey = fmt.Sprintf("k%d", r.Intn(4))
		}
		if n.OutKey != "" {
			outKeyOf[n.Key] = n.OutKey
		} else {
			outKeyOf[n.Key] = n.Key
		}
		if n.Body.Op == "graph" {
			AssignKeys(r, n.Body.G)
		}
	}
	for i := range g.Nodes {
		n := &g.Nodes[i]
		if !n.Keyable() || !r.Chance(25) {
			continue
		}
		var preds []string
		for _, e := range g.Edges {
			if e[1] == n.Key {
				if e[0] == "start" {
					preds = append(preds, "in")
				} else if g.keyable(e[0]) {
					preds = append(preds, outKeyOf[e[0]])
				}
			}
		}
		if len(preds) == 0 || r.Chance(8) {
			n.InKey = "missing"
			continue
		}
		n.InKey = preds[r.Intn(len(preds))]
	}
	// typed nested maps under an output key (only where no node takes that key as its string input)
	for i := range g.Nodes {
		n := &g.Nodes[i]
		if n.OutKey == "" || n.InKey != "" || !r.Chance(40) {
			continue
		}
		taken := false
		for _, m := range g.Nodes {
			if m.InKey == n.OutKey {
				taken = true
			}
		}
		if !taken {
			n.OutTyped = true
		}
	}
}

// Keyable: a lambda whose output is a single-key map {key: string} (a tag body, or a fail body
// that streams such chunks before it breaks): it can carry an output key / an input key.
func (n *Node) Keyable() bool {
	return n.Body.Op == "tag" || (n.Body.Op == "fail" && n.Body.After != nil)
}

func (g *Graph) keyable(key string) bool {
	for i := range g.Nodes {
		if g.Nodes[i].Key == key {
			return g.Nodes[i].Keyable()
		}
	}
	return false
}

func (g *Graph) nodeOp(key string) string {
	for _, n := range g.Nodes {
		if n.Key == key {
			return n.Body.Op
		}
	}
	return ""
}

func SortedKeys(m map[string]*ParadigmResult) []string {
	var ks []string
	for k := range m {
		ks = append(ks, k)
	}
	sort.Strings(ks)
	return ks
}

// nativeLambda: the M → M instance (kept for the other files of this package).
func nativeLambda(f func(ctx context.Context, in M) (M, error), native string, pat []int, produce func([]M) *schema.StreamReader[M]) *compose.Lambda {
	return nativeLambdaG(f, native, func(o M) []M { return ChunkMap(pat, o) }, ConcatChunks, produce)
}
