//go:build verif

// Package gcase is the graph case language shared by the engine properties: a JSON case is
// built into a real compose graph here and interpreted by the Lean model on the other side
// (lean/EinoV/Oracle/GraphCase.lean). Values are map[string]any with string values.
package gcase

import (
	"context"
	"errors"
	"fmt"
	"hash/fnv"
	"sort"
	"strings"
	"sync"
	"time"

	"github.com/cloudwego/eino/compose"
	"github.com/cloudwego/eino/schema"
	"github.com/cloudwego/eino/verifharness/vh"
)

type Body struct {
	Op string `json:"op"` // tag | pass | fail | graph
	ID int    `json:"id,omitempty"`
	G  *Graph `json:"g,omitempty"`
	// fail only: the natively streaming forms (Stream / Transform) return their reader and report
	// the failure as an error item after *After chunks of what a tag body would have produced;
	// the other native forms fail at call time (nil: every form fails at call time)
	After *int `json:"after,omitempty"`
}

type Node struct {
	Key    string `json:"key"`
	Body   Body   `json:"body"`
	Native string `json:"native,omitempty"` // subset of "isct": natively implemented paradigms ("" = "i")
	Chunks []int  `json:"chunks,omitempty"` // how a streaming form splits its output (sizes-1)
	InKey  string `json:"inKey,omitempty"`  // compose.WithInputKey: the lambda takes input[InKey] (a string); on a pass node: it hands on input[InKey]
	// the lambda's Go input type is string and it has NO input key: its only predecessor is a
	// pass node with InKey == SIn, which hands it the string (in the model the value stays under its key)
	SIn    string `json:"sIn,omitempty"`
	OutKey string `json:"outKey,omitempty"` // compose.WithOutputKey: the lambda returns a string, seen as {OutKey: s}
	// with OutKey: the lambda's Go output type is the typed map map[string]string{"v": s} instead of
	// the string s (a nested typed map under the output key; rendered as s, so the model is unchanged)
	OutTyped bool `json:"outTyped,omitempty"`
}

type Branch struct {
	From   string     `json:"from"`
	Ends   []string   `json:"ends"`
	Multi  bool       `json:"multi,omitempty"`
	Stream bool       `json:"stream,omitempty"` // prefix-reading stream condition: decides on the first chunk's key set
	Table  [][]string `json:"table"`
	Fail   *int       `json:"fail,omitempty"`
}

type Graph struct {
	Mode        string      `json:"mode"` // pregel | dag
	MaxSteps    int         `json:"maxSteps,omitempty"`
	NegMaxSteps bool        `json:"negMaxSteps,omitempty"` // compile option WithMaxRunSteps(-1): the run must refuse to start
	CompileCB   bool        `json:"compileCB,omitempty"`   // compiled with a (no-op) graph compile callback: must not change any run
	Nodes       []Node      `json:"nodes"`
	Edges       [][2]string `json:"edges"`
	Branches    []Branch    `json:"branches,omitempty"`
	// built with compose.NewChain instead of compose.NewGraph (BuildChain): the stages in order,
	// one node key = Append<Node>, several = AppendParallel of nodes with output keys. Edges must
	// be the edges such a chain has (the model reads Edges only).
	Stages [][]string `json:"stages,omitempty"`
}

type M = map[string]any

// ---------- values ----------

func Render(m M) string {
	keys := make([]string, 0, len(m))
	for k := range m {
		keys = append(keys, k)
	}
	sort.Strings(keys)
	var sb strings.Builder
	for _, k := range keys {
		sb.WriteString(k)
		sb.WriteString("=")
		sb.WriteString(fmt.Sprint(UnwrapV(m[k])))
		sb.WriteString(";")
	}
	return sb.String()
}

// UnwrapV: the typed map map[string]string{"v": s} an OutTyped node puts under its output key stands for s.
func UnwrapV(v any) any {
	if tm, ok := v.(map[string]string); ok {
		if len(tm) == 0 {
			return ""
		}
		if s, ok := tm["v"]; ok && len(tm) == 1 {
			return s
		}
	}
	return v
}

func Fnv32(s string) uint32 {
	h := fnv.New32a()
	h.Write([]byte(s))
	return h.Sum32()
}

func Hex32(x uint32) string { return fmt.Sprintf("%08x", x) }

func TagBody(key string, in M) M { return M{key: Hex32(Fnv32(Render(in) + "#" + key))} }

func Pick(table [][]string, v M) []string {
	if len(table) == 0 {
		return nil
	}
	return table[int(Fnv32(Render(v))%uint32(len(table)))]
}

func PickKeys(table [][]string, v M) []string {
	if len(table) == 0 {
		return nil
	}
	keys := make([]string, 0, len(v))
	for k := range v {
		keys = append(keys, k)
	}
	sort.Strings(keys)
	s := ""
	for _, k := range keys {
		s += k + ","
	}
	return table[int(Fnv32(s)%uint32(len(table)))]
}

// ---------- errors of user code ----------

type UserErr struct{ ID int }

func (e *UserErr) Error() string { return fmt.Sprintf("user-error-%d", e.ID) }

type BranchErr struct{ ID int }

func (e *BranchErr) Error() string { return fmt.Sprintf("branch-error-%d", e.ID) }

// ---------- recording ----------

type Exec struct {
	Path string // "a/b/c"
	In   string
}

type Recorder struct {
	mu    sync.Mutex
	Execs []Exec
	Steps *compose.VerifRecorder
}

type recKey struct{}

func NewRecorder() *Recorder { return &Recorder{Steps: &compose.VerifRecorder{}} }

func (r *Recorder) Ctx(ctx context.Context) context.Context {
	return compose.VerifWithRecorder(context.WithValue(ctx, recKey{}, r), r.Steps)
}

func record(ctx context.Context, path string, in M) {
	if r, _ := ctx.Value(recKey{}).(*Recorder); r != nil {
		r.mu.Lock()
		r.Execs = append(r.Execs, Exec{Path: path, In: Render(in)})
		r.mu.Unlock()
	}
}

// ---------- building ----------

// BodyHook lets a property customise node bodies (delays, barriers…); may be nil.
type BuildOpts struct {
	Wrap func(path string, f func(ctx context.Context, in M) (M, error)) func(ctx context.Context, in M) (M, error)
	// Produce turns the chunks a streaming form emits into a stream (default: an array
	// reader). C19 uses it to emit through a Pipe from a goroutine with blocking sends.
	Produce func(path string, chunks []M) *schema.StreamReader[M]
}

func joinPath(prefix, key string) string {
	if prefix == "" {
		return key
	}
	return prefix + "/" + key
}

func CompileOpts(g *Graph) []compose.GraphCompileOption {
	var opts []compose.GraphCompileOption
	if g.Mode == "dag" {
		opts = append(opts, compose.WithNodeTriggerMode(compose.AllPredecessor))
	}
	if g.NegMaxSteps && g.Mode != "dag" {
		opts = append(opts, compose.WithMaxRunSteps(-1))
	} else if g.MaxSteps > 0 {
		opts = append(opts, compose.WithMaxRunSteps(g.MaxSteps))
	}
	if g.CompileCB {
		opts = append(opts, compose.WithGraphCompileCallbacks(noopCompileCB{}))
	}
	return opts
}

// a graph compile callback that does nothing (what introspection / visualisation integrations install)
type noopCompileCB struct{}

func (noopCompileCB) OnFinish(ctx context.Context, info *compose.GraphInfo) {}

// nodeFunc: the M → M function of a tag / fail node (a fail node that breaks in the middle of
// its stream computes the tag body: its non-streaming forms fail on their own, see midOf).
func nodeFunc(n Node, path string, bo *BuildOpts) (func(ctx context.Context, in M) (M, error), func(chunks []M) *schema.StreamReader[M]) {
	f := func(ctx context.Context, in M) (M, error) {
		record(ctx, path, in)
		if n.Body.Op == "fail" && n.Body.After == nil {
			return nil, &UserErr{ID: n.Body.ID}
		}
		return TagBody(n.Key, in), nil
	}
	if bo != nil && bo.Wrap != nil {
		f = bo.Wrap(path, f)
	}
	var produce func(chunks []M) *schema.StreamReader[M]
	if bo != nil && bo.Produce != nil {
		produce = func(chunks []M) *schema.StreamReader[M] { return bo.Produce(path, chunks) }
	}
	return f, produce
}

// Build constructs the compose graph of a case. The first error of an Add* call is returned.
func Build(g *Graph, prefix string, bo *BuildOpts) (*compose.Graph[M, M], error) {
	cg := compose.NewGraph[M, M]()
	for i := range g.Nodes {
		n := g.Nodes[i]
		path := joinPath(prefix, n.Key)
		var err error
		switch n.Body.Op {
		case "pass":
			if n.InKey != "" {
				err = cg.AddPassthroughNode(n.Key, compose.WithInputKey(n.InKey))
			} else {
				err = cg.AddPassthroughNode(n.Key)
			}
		case "graph":
			var sub *compose.Graph[M, M]
			sub, err = Build(n.Body.G, path, bo)
			if err == nil {
				err = cg.AddGraphNode(n.Key, sub, compose.WithGraphCompileOptions(CompileOpts(n.Body.G)...))
			}
		default:
			f, produce := nodeFunc(n, path, bo)
			err = addKeyedLambda(cg, n, f, produce)
		}
		if err != nil {
			return nil, fmt.Errorf("add node %s: %w", n.Key, err)
		}
	}
	for _, e := range g.Edges {
		if err := cg.AddEdge(e[0], e[1]); err != nil {
			return nil, fmt.Errorf("add edge %v: %w", e, err)
		}
	}
	for i := range g.Branches {
		b := g.Branches[i]
		ends := map[string]bool{}
		for _, e := range b.Ends {
			ends[e] = true
		}
		var br *compose.GraphBranch
		if b.Stream {
			first := func(in *schema.StreamReader[M]) ([]string, error) {
				defer in.Close()
				if b.Fail != nil {
					return nil, &BranchErr{ID: *b.Fail}
				}
				c, err := in.Recv()
				if err != nil {
					return nil, &BranchErr{ID: 9998}
				}
				return PickKeys(b.Table, c), nil
			}
			if b.Multi {
				br = compose.NewStreamGraphMultiBranch(func(ctx context.Context, in *schema.StreamReader[M]) (map[string]bool, error) {
					row, err := first(in)
					if err != nil {
						return nil, err
					}
					out := map[string]bool{}
					for _, t := range row {
						out[t] = true
					}
					return out, nil
				}, ends)
			} else {
				br = compose.NewStreamGraphBranch(func(ctx context.Context, in *schema.StreamReader[M]) (string, error) {
					row, err := first(in)
					if err != nil {
						return "", err
					}
					if len(row) != 1 {
						return "", fmt.Errorf("harness: single branch row must have one target")
					}
					return row[0], nil
				}, ends)
			}
		} else if b.Multi {
			br = compose.NewGraphMultiBranch(func(ctx context.Context, in M) (map[string]bool, error) {
				if b.Fail != nil {
					return nil, &BranchErr{ID: *b.Fail}
				}
				out := map[string]bool{}
				for _, t := range Pick(b.Table, in) {
					out[t] = true
				}
				return out, nil
			}, ends)
		} else {
			br = compose.NewGraphBranch(func(ctx context.Context, in M) (string, error) {
				if b.Fail != nil {
					return "", &BranchErr{ID: *b.Fail}
				}
				row := Pick(b.Table, in)
				if len(row) != 1 {
					return "", fmt.Errorf("harness: single branch row must have one target")
				}
				return row[0], nil
			}, ends)
		}
		if err := cg.AddBranch(b.From, br); err != nil {
			return nil, fmt.Errorf("add branch from %s: %w", b.From, err)
		}
	}
	return cg, nil
}

// ---------- outcome (same shape as the oracle's) ----------

type ErrJ struct {
	C  string `json:"c"`
	ID *int   `json:"id,omitempty"`
}

type ResultJ struct {
	Ok   *string  `json:"ok,omitempty"`
	Err  *ErrJ    `json:"err,omitempty"`
	Path []string `json:"path,omitempty"`
}

type TaskJ struct {
	K   string    `json:"k"`
	In  string    `json:"in"`
	Sub *OutcomeJ `json:"sub,omitempty"`
}

type OutcomeJ struct {
	Result ResultJ   `json:"result"`
	Trace  [][]TaskJ `json:"trace"`
	Alts   []ResultJ `json:"alts,omitempty"` // model only: every failing task of the failing step
}

// ResultMatches: equal results, or (several tasks of the last step fail and the
// implementation reported another one of them — completion order decides which).
func ResultMatches(model, impl *OutcomeJ) bool {
	if vh.CanonEq(impl.Result, model.Result) {
		return true
	}
	for _, a := range model.Alts {
		if a.Path == nil {
			a.Path = []string{}
		}
		if vh.CanonEq(impl.Result, a) {
			return true
		}
	}
	return false
}

// Classify maps an error of a run to the small enum shared with the model.
func Classify(err error) ResultJ {
	r := ResultJ{Path: []string{}}
	if p, ok := compose.VerifErrNodePath(err); ok && p != nil {
		r.Path = p
	}
	var ue *UserErr
	var be *BranchErr
	switch {
	case errors.As(err, &ue):
		id := ue.ID
		r.Err = &ErrJ{C: "user", ID: &id}
	case errors.As(err, &be):
		id := be.ID
		r.Err = &ErrJ{C: "branch", ID: &id}
	case strings.Contains(err.Error(), "max run steps limit must be at least 1"):
		id := 9996
		r.Err = &ErrJ{C: "user", ID: &id}
	case errors.Is(err, compose.ErrExceedMaxSteps):
		r.Err = &ErrJ{C: "maxSteps"}
	case strings.Contains(err.Error(), "unknown node: end"):
		r.Err = &ErrJ{C: "endSkipped"}
	case strings.Contains(err.Error(), "no tasks to execute"):
		r.Err = &ErrJ{C: "noTasks"}
	case strings.Contains(err.Error(), "(mergeMap)") || strings.Contains(err.Error(), "(mergeValues") || strings.Contains(err.Error(), "(mergeStream)"):
		r.Err = &ErrJ{C: "merge"}
	default:
		r.Err = &ErrJ{C: "other:" + firstLine(err.Error())}
	}
	return r
}

func firstLine(s string) string {
	if i := strings.Index(s, "\n"); i >= 0 {
		rest := s[i+1:]
		if j := strings.Index(rest, "\n"); j >= 0 {
			rest = rest[:j]
		}
		return rest
	}
	return s
}

// Reconstruct rebuilds the nested superstep trace from the recorder.
// invocations of the (sub)graph at `path` are delimited by Step == 0 events.
type traceBuilder struct {
	byPath map[string][][]compose.VerifStepEvent // path -> invocations -> events
	next   map[string]int                        // path -> next unconsumed invocation
	execs  map[string][]string                   // node path -> inputs in order
	cur    map[string]int
}

func newTraceBuilder(rec *Recorder) *traceBuilder {
	tb := &traceBuilder{byPath: map[string][][]compose.VerifStepEvent{}, next: map[string]int{}, execs: map[string][]string{}, cur: map[string]int{}}
	for _, ev := range rec.Steps.Snapshot() {
		p := strings.Join(ev.Path, "/")
		if ev.Step == -1 {
			tb.byPath[p] = append(tb.byPath[p], []compose.VerifStepEvent{})
			continue
		}
		if len(tb.byPath[p]) == 0 {
			tb.byPath[p] = append(tb.byPath[p], nil)
		}
		k := len(tb.byPath[p]) - 1
		tb.byPath[p][k] = append(tb.byPath[p][k], ev)
	}
	rec.mu.Lock()
	for _, e := range rec.Execs {
		tb.execs[e.Path] = append(tb.execs[e.Path], e.In)
	}
	rec.mu.Unlock()
	return tb
}

func (tb *traceBuilder) invocation(g *Graph, path string) [][]TaskJ {
	invs := tb.byPath[path]
	i := tb.next[path]
	if i >= len(invs) {
		return [][]TaskJ{}
	}
	tb.next[path] = i + 1
	out := [][]TaskJ{}
	for _, ev := range invs[i] {
		keys := append([]string{}, ev.Keys...)
		sort.Strings(keys)
		step := []TaskJ{}
		for _, k := range keys {
			np := joinPath(path, k)
			t := TaskJ{K: k, In: "?"}
			var body *Body
			for j := range g.Nodes {
				if g.Nodes[j].Key == k {
					body = &g.Nodes[j].Body
				}
			}
			if body != nil && (body.Op == "tag" || body.Op == "fail") {
				c := tb.cur[np]
				if c < len(tb.execs[np]) {
					t.In = tb.execs[np][c]
					tb.cur[np] = c + 1
				} else {
					t.In = "<not-executed>"
				}
			}
			if body != nil && body.Op == "graph" {
				sub := &OutcomeJ{Trace: tb.invocation(body.G, np)}
				t.Sub = sub
			}
			step = append(step, t)
		}
		out = append(out, step)
	}
	return out
}

// Run compiles and invokes the case; ok=false with a class when it cannot be built/compiled
// or when the call panics / hangs.
func Run(g *Graph, input string, bo *BuildOpts) (out *OutcomeJ, class string) {
	cg, err := Build(g, "", bo)
	if err != nil {
		return nil, "build-error: " + err.Error()
	}
	ctx := context.Background()
	r, err := cg.Compile(ctx, CompileOpts(g)...)
	if err != nil {
		return nil, "compile-error: " + err.Error()
	}
	rec := NewRecorder()
	var res M
	var runErr error
	finished := false
	if panicked, pv := vh.Safely(func() {
		finished = vh.WithTimeout(20*time.Second, func() { res, runErr = r.Invoke(rec.Ctx(ctx), M{"in": input}) })
	}); panicked {
		return nil, fmt.Sprint("panic-escaped: ", pv)
	}
	if !finished {
		return nil, "hang"
	}
	o := &OutcomeJ{}
	if runErr != nil {
		o.Result = Classify(runErr)
	} else {
		s := Render(res)
		o.Result = ResultJ{Ok: &s}
	}
	o.Trace = newTraceBuilder(rec).invocation(g, "")
	return o, "ran"
}

// NormalizeModel blanks the inputs the implementation side cannot observe (pass-through and
// graph nodes) and drops nested results (the implementation reports nested results only
// through the parent's behaviour), so that the two outcomes can be compared structurally.
func NormalizeModel(g *Graph, o *OutcomeJ) {
	for i := range o.Trace {
		for j := range o.Trace[i] {
			t := &o.Trace[i][j]
			for k := range g.Nodes {
				if g.Nodes[k].Key == t.K {
					op := g.Nodes[k].Body.Op
					if op == "pass" || op == "graph" {
						t.In = "?"
					}
					if op == "graph" && t.Sub != nil {
						t.Sub.Result = ResultJ{}
						t.Sub.Alts = nil
						NormalizeModel(g.Nodes[k].Body.G, t.Sub)
					}
				}
			}
		}
	}
	if o.Result.Path == nil && o.Result.Err != nil {
		o.Result.Path = []string{}
	}
}
