//go:build verif

package gcase

import (
	"fmt"

	"github.com/cloudwego/eino/verifharness/vh"
)

type GenOpts struct {
	Mode         string // pregel | dag | mixed
	MaxNodes     int
	Depth        int  // remaining nesting depth for graph nodes
	Cycles       bool // allow back edges (pregel only)
	FailPct      int  // percent of failing node bodies
	BranchPct    int  // chance (percent) that a node gets a branch
	NoNested     bool
	NegLimitPct  int // percent of pregel graphs compiled with an explicit step limit below 1 (refused at run start)
	CompileCBPct int // percent of graphs (any level) compiled with a no-op graph compile callback
}

func has(edges [][2]string, a, b string) bool {
	for _, e := range edges {
		if e[0] == a && e[1] == b {
			return true
		}
	}
	return false
}

// Gen produces a random, mostly valid graph case.
//   - every node has at least one incoming connection from START or an earlier node
//   - END has at least one incoming connection
//   - pregel mode may add back edges and self loops (cycles end through the step limit or a
//     branch that eventually picks END)
func Gen(r *vh.Rand, o GenOpts) *Graph {
	g := &Graph{Mode: o.Mode}
	if o.Mode == "mixed" {
		if r.Chance(40) {
			g.Mode = "dag"
		} else {
			g.Mode = "pregel"
		}
	}
	dag := g.Mode == "dag"
	n := r.Range(1, o.MaxNodes)
	keys := []string{}
	for i := 0; i < n; i++ {
		k := fmt.Sprintf("n%d", i)
		keys = append(keys, k)
		b := Body{Op: "tag"}
		switch {
		case r.Chance(o.FailPct):
			b = Body{Op: "fail", ID: r.Range(1, 9)}
		case r.Chance(8):
			b = Body{Op: "pass"}
		case !o.NoNested && o.Depth > 0 && r.Chance(10):
			so := o
			so.Depth = o.Depth - 1
			so.MaxNodes = 3
			so.Mode = "mixed"
			b = Body{Op: "graph", G: Gen(r, so)}
		}
		g.Nodes = append(g.Nodes, Node{Key: k, Body: b})
	}
	// branch owners: a node with a branch to a set of later nodes / END
	branchFrom := map[string]*Branch{}
	all := append([]string{"start"}, keys...)
	for idx, from := range all {
		if !r.Chance(o.BranchPct) {
			continue
		}
		// candidate ends: later nodes and END (pregel: any node)
		var cands []string
		for j, k := range keys {
			if dag && j < idx { // all[idx] = keys[idx-1]; later nodes have j >= idx
				continue
			}
			if !dag || j >= idx {
				cands = append(cands, k)
			}
		}
		cands = append(cands, "end")
		if len(cands) < 2 {
			continue
		}
		p := r.Perm(len(cands))
		ne := r.Range(2, min(3, len(cands)))
		ends := []string{}
		for _, i := range p[:ne] {
			if cands[i] == from { // self as branch end only in pregel
				if dag {
					continue
				}
			}
			ends = append(ends, cands[i])
		}
		if len(ends) < 2 {
			continue
		}
		b := &Branch{From: from, Ends: ends, Multi: r.Chance(40)}
		rows := r.Range(1, 4)
		for i := 0; i < rows; i++ {
			if b.Multi {
				row := []string{}
				for _, e := range ends {
					if r.Chance(55) {
						row = append(row, e)
					}
				}
				b.Table = append(b.Table, row)
			} else {
				b.Table = append(b.Table, []string{ends[r.Intn(len(ends))]})
			}
		}
		if r.Chance(3) {
			id := r.Range(1, 9)
			b.Fail = &id
		}
		branchFrom[from] = b
	}
	reached := map[string]bool{}
	for _, b := range branchFrom {
		for _, e := range b.Ends {
			reached[e] = true
		}
	}
	// incoming edge for every node not reached by a branch (and some that are)
	for j, k := range keys {
		if reached[k] && r.Chance(60) {
			continue
		}
		from := all[r.Intn(j+1)] // start or an earlier node
		if !has(g.Edges, from, k) {
			g.Edges = append(g.Edges, [2]string{from, k})
		}
	}
	// extra forward edges (fan-out / fan-in)
	extra := r.Intn(n + 1)
	for i := 0; i < extra; i++ {
		a := r.Intn(len(all))
		b := r.Intn(n)
		if a > b { // all[a] = keys[a-1]; forward means a-1 < b i.e. a <= b
			continue
		}
		if !has(g.Edges, all[a], keys[b]) {
			g.Edges = append(g.Edges, [2]string{all[a], keys[b]})
		}
	}
	// edges to END: the last node, plus a few others
	if !reached["end"] || r.Chance(70) {
		g.Edges = append(g.Edges, [2]string{keys[n-1], "end"})
	}
	for _, k := range keys[:n-1] {
		if r.Chance(12) && !has(g.Edges, k, "end") {
			g.Edges = append(g.Edges, [2]string{k, "end"})
		}
	}
	// cycles (pregel)
	if !dag && o.Cycles && r.Chance(45) {
		nb := r.Range(1, 2)
		for i := 0; i < nb; i++ {
			a := r.Intn(n)
			b := r.Intn(a + 1)
			if !has(g.Edges, keys[a], keys[b]) {
				g.Edges = append(g.Edges, [2]string{keys[a], keys[b]})
			}
		}
	}
	for _, k := range all {
		if b, ok := branchFrom[k]; ok {
			g.Branches = append(g.Branches, *b)
		}
	}
	if !dag && r.Chance(30) {
		g.MaxSteps = r.Range(1, 7)
	} else if !dag && r.Chance(o.NegLimitPct) {
		g.NegMaxSteps = true
	}
	if o.CompileCBPct > 0 && r.Chance(o.CompileCBPct) {
		g.CompileCB = true
	}
	return g
}

// Shape summarises a case for the coverage key / distribution.
func Shape(g *Graph) (nodes, edges, branches, nested int, cyclic, fanin bool) {
	nodes, edges, branches = len(g.Nodes), len(g.Edges), len(g.Branches)
	idx := map[string]int{"start": -1}
	for i, n := range g.Nodes {
		idx[n.Key] = i
		if n.Body.Op == "graph" {
			nested++
		}
	}
	indeg := map[string]int{}
	for _, e := range g.Edges {
		indeg[e[1]]++
		if e[1] != "end" && idx[e[1]] <= idx[e[0]] {
			cyclic = true
		}
	}
	for _, b := range g.Branches {
		for _, e := range b.Ends {
			indeg[e]++
			if e != "end" && idx[e] <= idx[b.From] {
				cyclic = true
			}
		}
	}
	for _, d := range indeg {
		if d > 1 {
			fanin = true
		}
	}
	return
}

// GenLayered produces layered graphs: nodes of layer i connect only to layer i+1 (the last
// layer to END), every node has at least one plain outgoing edge, some nodes additionally
// carry a (multi-)branch into the next layer whose rows may select nothing. In either trigger
// mode such a run reaches END with nothing else scheduled and every output has a consumer.
func GenLayered(r *vh.Rand, mode string) *Graph {
	g := &Graph{Mode: mode}
	if mode == "mixed" {
		g.Mode = []string{"pregel", "dag"}[r.Intn(2)]
	}
	nl := r.Range(1, 3)
	var layers [][]string
	id := 0
	for l := 0; l < nl; l++ {
		w := r.Range(1, 3)
		var layer []string
		for i := 0; i < w; i++ {
			k := fmt.Sprintf("n%d", id)
			id++
			layer = append(layer, k)
			op := "tag"
			if l > 0 && r.Chance(45) {
				op = "pass" // lazy: hands its input stream on without draining it
			}
			g.Nodes = append(g.Nodes, Node{Key: k, Body: Body{Op: op}})
		}
		layers = append(layers, layer)
	}
	connect := func(from string, next []string, toEnd bool) {
		if toEnd {
			g.Edges = append(g.Edges, [2]string{from, "end"})
			return
		}
		p := r.Perm(len(next))
		ne := r.Range(1, len(next))
		edgeTo := map[string]bool{}
		for _, i := range p[:ne] {
			g.Edges = append(g.Edges, [2]string{from, next[i]})
			edgeTo[next[i]] = true
		}
		if r.Chance(55) {
			// branch ends: next-layer nodes not already reached by a plain edge from this node
			// (sometimes also nodes this node already feeds by a plain edge: the target is then
			// named twice among the successors of a finished task)
			overlap := r.Chance(35)
			var cands []string
			for _, k := range next {
				if !edgeTo[k] || overlap {
					cands = append(cands, k)
				}
			}
			if len(cands) >= 2 {
				b := Branch{From: from, Ends: cands, Multi: r.Chance(70)}
				fromTag := from == "start"
				for _, n := range g.Nodes {
					if n.Key == from && n.Body.Op == "tag" {
						fromTag = true
					}
				}
				b.Stream = fromTag && r.Chance(60)
				rows := r.Range(1, 3)
				for i := 0; i < rows; i++ {
					if b.Multi {
						row := []string{}
						for _, e := range cands {
							if r.Chance(40) {
								row = append(row, e)
							}
						}
						b.Table = append(b.Table, row)
					} else {
						b.Table = append(b.Table, []string{cands[r.Intn(len(cands))]})
					}
				}
				g.Branches = append(g.Branches, b)
			}
		}
	}
	connect("start", layers[0], false)
	// every first-layer node must be reachable: add missing start edges
	for _, k := range layers[0] {
		if !has(g.Edges, "start", k) {
			inBranch := false
			for _, b := range g.Branches {
				for _, e := range b.Ends {
					if b.From == "start" && e == k {
						inBranch = true
					}
				}
			}
			if !inBranch {
				g.Edges = append(g.Edges, [2]string{"start", k})
			}
		}
	}
	for l, layer := range layers {
		for _, k := range layer {
			if l == len(layers)-1 {
				connect(k, nil, true)
			} else {
				connect(k, layers[l+1], false)
			}
		}
		if l+1 < len(layers) {
			// every next-layer node needs some incoming connection
			for _, k := range layers[l+1] {
				reached := false
				for _, e := range g.Edges {
					if e[1] == k {
						reached = true
					}
				}
				for _, b := range g.Branches {
					for _, e := range b.Ends {
						if e == k {
							reached = true
						}
					}
				}
				if !reached {
					g.Edges = append(g.Edges, [2]string{layer[r.Intn(len(layer))], k})
				}
			}
		}
	}
	return g
}
