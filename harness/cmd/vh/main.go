// vh: correspondence harness. One sub-run per property:
//
//	vh -prop C13 -seed 1 -tier quick -oracle <path> -out <result.json> [-replay case.json]
package main

import (
	"encoding/json"
	"flag"
	"fmt"
	"os"
	"time"

	_ "github.com/cloudwego/eino/verifharness/props"
	"github.com/cloudwego/eino/verifharness/vh"
)

func main() {
	prop := flag.String("prop", "", "property id")
	seed := flag.Uint64("seed", 1, "seed")
	tier := flag.String("tier", "quick", "quick|thorough")
	oracle := flag.String("oracle", "", "path of the compiled Lean oracle")
	out := flag.String("out", "", "result json")
	replay := flag.String("replay", "", "replay file (json with a 'case' field, or a bare case)")
	progress := flag.String("progress", "", "progress side file")
	budget := flag.Duration("budget", 60*time.Second, "soft time budget for generated cases")
	flag.Parse()
	f, ok := vh.Props[*prop]
	if !ok {
		fmt.Fprintf(os.Stderr, "vh: unknown property %s\n", *prop)
		os.Exit(2)
	}
	ctx := &vh.Ctx{Prop: *prop, Seed: *seed, Tier: *tier, Rng: vh.NewRand(*seed),
		Res: vh.NewResult(*prop, *seed, *tier), Progress: vh.NewProgress(*progress),
		Budget: *budget, Start: time.Now()}
	if *oracle != "" {
		o, err := vh.StartOracle(*oracle)
		if err != nil {
			fmt.Fprintln(os.Stderr, "vh: cannot start oracle:", err)
			os.Exit(2)
		}
		ctx.Oracle = o
		defer o.Close()
	}
	if *replay != "" {
		b, err := os.ReadFile(*replay)
		if err != nil {
			fmt.Fprintln(os.Stderr, err)
			os.Exit(2)
		}
		var probe map[string]json.RawMessage
		if json.Unmarshal(b, &probe) == nil && probe["case"] != nil {
			ctx.Replay = probe["case"]
		} else {
			ctx.Replay = b
		}
	}
	err := f(ctx)
	if ctx.Oracle != nil {
		ctx.Res.OracleQueries = ctx.Oracle.N
	}
	ctx.Progress.Clear()
	if *out != "" {
		if werr := ctx.Res.Write(*out); werr != nil {
			fmt.Fprintln(os.Stderr, werr)
			os.Exit(2)
		}
	}
	if err != nil {
		fmt.Fprintln(os.Stderr, "vh: harness error:", err)
		os.Exit(3)
	}
	if len(ctx.Res.Disagreements) > 0 {
		os.Exit(1)
	}
}
