//go:build verif && (vh_all || vh_c14)

package props

import (
	"encoding/json"
	"fmt"
	"sort"

	"github.com/cloudwego/eino/verifharness/vh"
)

// ---------------------------------------------------------------------------------------
// family "heavy": long assistant streams that carry MANY tool calls
//
// The other message families draw 1-6 chunks with 0-3 tool calls each, so a concatenated message
// never holds more than a handful of calls. Here the size of everything is a dimension of its
// own: the number of calls in the result (2 … 130, four size classes that straddle the
// thresholds of the Go runtime the implementation leans on: small-slice paths of package sort,
// one-bucket maps, ninther pivots), the share of complete calls WITHOUT an Index (none, two or
// three, half, nearly all, all), the index set (contiguous / sparse with negatives), the order
// in which the indexed calls are opened (ascending, descending, neighbours swapped, shuffled),
// the number of fragments per indexed call (1-4, interleaved with everything else) and the way
// the events are packed into chunks (one per chunk, a few, bursts of up to 24 in one message).
// The case language is the one of "msgs"/"cmsgs"; the model needs nothing new (it is not
// bounded in any size), the theorems for this family are `toolcalls_by_index`,
// `toolcalls_any_map_order`, `toolcalls_final_sort_stable` (Props/C14.lean).
// ---------------------------------------------------------------------------------------

// c14HeavySize draws the number of tool calls of the concatenated message.
func c14HeavySize(r *vh.Rand) int {
	switch x := r.Intn(100); {
	case x < 15:
		return r.Range(2, 8)
	case x < 45:
		return r.Range(9, 16)
	case x < 85:
		return r.Range(17, 40)
	default:
		return r.Range(41, 130)
	}
}

// c14HeavyOpening: the order in which n indexed calls are opened (a permutation of 0..n-1 = rank
// of the call's index among all indexes)
func c14HeavyOpening(r *vh.Rand, n int) ([]int, string) {
	p := make([]int, n)
	for i := range p {
		p[i] = i
	}
	switch x := r.Intn(100); {
	case x < 35:
		return p, "ascending"
	case x < 45:
		for i := range p {
			p[i] = n - 1 - i
		}
		return p, "descending"
	case x < 60:
		for i := 0; i+1 < n; i += 2 {
			p[i], p[i+1] = p[i+1], p[i]
		}
		return p, "neighbours-swapped"
	default:
		return r.Perm(n), "shuffled"
	}
}

type c14HeavyInfo struct {
	calls, nilIdx, indexed int
	opening                string
	conflict               bool
}

func c14GenHeavy(r *vh.Rand, kind string) (*c14Case, c14HeavyInfo) {
	total := c14HeavySize(r)
	var nNil int
	switch x := r.Intn(100); {
	case x < 12:
		nNil = 0
	case x < 37:
		nNil = r.Range(2, 3)
	case x < 72:
		nNil = total / 2
	case x < 90:
		nNil = total - r.Range(1, 2)
	default:
		nNil = total
	}
	if nNil > total {
		nNil = total
	}
	if nNil < 0 {
		nNil = 0
	}
	nIdx := total - nNil
	info := c14HeavyInfo{calls: total, nilIdx: nNil, indexed: nIdx}

	// the indexes: contiguous from 0, or sparse (negatives and gaps)
	idxs := make([]int, nIdx)
	if r.Chance(65) {
		for i := range idxs {
			idxs[i] = i
		}
	} else {
		seen := map[int]bool{}
		for i := range idxs {
			for {
				v := r.Range(-3, 3*nIdx+3)
				if !seen[v] {
					seen[v] = true
					idxs[i] = v
					break
				}
			}
		}
		sort.Ints(idxs)
	}
	opening, oname := c14HeavyOpening(r, nIdx)
	info.opening = oname

	// tokens: slot s stands for an indexed call (frags[s] fragments), -1 for a complete call without
	// an Index; after the shuffle the slots are bound to the calls in order of first appearance, so
	// that the calls are opened in the chosen order while their later fragments are interleaved
	// with everything else
	var tokens []int
	frags := make([]int, nIdx)
	for s := range frags {
		frags[s] = 1
		if r.Chance(70) {
			frags[s] = r.Range(2, 4)
		}
		for k := 0; k < frags[s]; k++ {
			tokens = append(tokens, s)
		}
	}
	for i := 0; i < nNil; i++ {
		tokens = append(tokens, -1)
	}
	perm := r.Perm(len(tokens))
	shuffled := make([]int, len(tokens))
	for i, p := range perm {
		shuffled[i] = tokens[p]
	}
	bound := map[int]int{} // slot → position in idxs
	seenFrag := map[int]int{}
	conflictAt := -1
	if r.Chance(3) && len(shuffled) > 0 {
		conflictAt = r.Intn(len(shuffled))
	}
	var events []c14TC
	nilNo := 0
	for at, s := range shuffled {
		if s < 0 {
			tc := c14TC{ID: fmt.Sprintf("call_%02d", nilNo), Type: "function", Name: fmt.Sprintf("tool_%02d", nilNo), Args: fmt.Sprintf(`{"n":%d}`, nilNo)}
			switch {
			case r.Chance(6): // a complete call that repeats an earlier one verbatim
				tc.ID, tc.Name, tc.Args = "call_00", "tool_00", `{"n":0}`
			case r.Chance(6):
				tc.ID, tc.Type = "", ""
			}
			if r.Chance(8) {
				tc.Ex = r.Range(1, 3)
			}
			nilNo++
			events = append(events, tc)
			continue
		}
		if _, ok := bound[s]; !ok {
			bound[s] = opening[len(bound)]
		}
		idx := idxs[bound[s]]
		k := seenFrag[s]
		seenFrag[s]++
		tc := c14TC{Idx: &idx, Args: fmt.Sprintf("[%d.%d]", idx, k)}
		if k == 0 && !r.Chance(12) || k > 0 && r.Chance(6) {
			tc.ID, tc.Type, tc.Name = fmt.Sprintf("idx_%d", idx), "function", fmt.Sprintf("itool_%d", idx)
		}
		if k > 0 && r.Chance(10) {
			tc.Args = ""
		}
		if k == 0 && r.Chance(8) {
			tc.Ex = r.Range(1, 3)
		}
		if at == conflictAt && k > 0 {
			tc.ID = "idX"
			info.conflict = true
		}
		events = append(events, tc)
	}

	// packing into chunks
	c := &c14Case{Kind: kind}
	first := true
	for i := 0; i < len(events); {
		n := 1
		switch x := r.Intn(100); {
		case x < 62:
		case x < 82:
			n = 2
		case x < 93:
			n = 3
		default:
			n = r.Range(4, 24)
		}
		if i+n > len(events) {
			n = len(events) - i
		}
		m := &c14Msg{Multi: []int{}, TCs: append([]c14TC{}, events[i:i+n]...)}
		i += n
		if first || r.Chance(25) {
			m.Role = "assistant"
		}
		first = false
		if r.Chance(20) {
			m.Content = c14Frag[r.Intn(len(c14Frag))]
		}
		if r.Chance(6) {
			u := [3]int{r.Range(0, 40), r.Range(0, 40), r.Range(0, 80)}
			m.Meta = &c14Meta{Usage: &u}
		}
		c.Chunks = append(c.Chunks, c14Raw(m))
		if r.Chance(8) { // a chunk without tool calls in between
			c.Chunks = append(c.Chunks, c14Raw(&c14Msg{Multi: []int{}, TCs: []c14TC{}, Content: c14Frag[r.Intn(len(c14Frag))]}))
		}
	}
	if r.Chance(30) {
		c.Chunks = append(c.Chunks, c14Raw(&c14Msg{Multi: []int{}, TCs: []c14TC{}, Meta: &c14Meta{Finish: "tool_calls"}}))
	}
	if c.Chunks == nil {
		c.Chunks = []json.RawMessage{}
	}
	return c, info
}

// c14SplitPoints: the split points k (1 <= k < n) at which the re-chunking law is checked on the
// implementation: all of them for short sequences, otherwise both ends and an evenly spaced
// selection (the law is proved for every split; the cost per case stays linear).
func c14SplitPoints(n int) []int {
	const max = 16
	var out []int
	if n-1 <= max {
		for k := 1; k < n; k++ {
			out = append(out, k)
		}
		return out
	}
	seen := map[int]bool{}
	add := func(k int) {
		if k >= 1 && k < n && !seen[k] {
			seen[k] = true
			out = append(out, k)
		}
	}
	add(1)
	add(2)
	for i := 1; i <= max-4; i++ {
		add(i * n / (max - 3))
	}
	add(n - 2)
	add(n - 1)
	sort.Ints(out)
	return out
}

// c14MergedCalls: number of tool calls a successful concatenation of the case holds (calls
// without an index + distinct indexes) and the number of calls without an index
func c14MergedCalls(c *c14Case) (merged, nilIdx int) {
	if c.Kind != "msgs" && c.Kind != "cmsgs" {
		return 0, 0
	}
	seen := map[int]bool{}
	for _, raw := range c.Chunks {
		var m *c14Msg
		if json.Unmarshal(raw, &m) != nil || m == nil {
			continue
		}
		for _, t := range m.TCs {
			if t.Idx == nil {
				nilIdx++
			} else {
				seen[*t.Idx] = true
			}
		}
	}
	return nilIdx + len(seen), nilIdx
}

// c14TCOrderOnly: two canonical "tcs" arrays hold the same calls (as multisets) in a different order
func c14TCOrderOnly(a, b any) bool {
	xs, ok1 := a.([]any)
	ys, ok2 := b.([]any)
	if !ok1 || !ok2 || len(xs) != len(ys) {
		return false
	}
	ca := make([]string, len(xs))
	cb := make([]string, len(ys))
	for i := range xs {
		ca[i] = vh.Canon(xs[i])
		cb[i] = vh.Canon(ys[i])
	}
	sort.Strings(ca)
	sort.Strings(cb)
	for i := range ca {
		if ca[i] != cb[i] {
			return false
		}
	}
	return true
}
