//go:build verif && (vh_all || vh_c20)

package props

// C20 — ill-formed graphs are rejected deterministically; compiled graphs are immutable.
// Generator of construction sequences (graph / chain / workflow streams), implementation
// runner, comparison with the Lean builder model (oracle_C20).

import (
	"encoding/json"
	"fmt"
	"os"
	"strings"

	"github.com/cloudwego/eino/verifharness/vh"
)

func init() { vh.Register("C20", runC20) }

type c20Model struct {
	Out       []string `json:"out"`
	Kinds     []string `json:"kinds"`
	R1Same    bool     `json:"r1same"`
	Sensitive bool     `json:"sensitive"`
}

// ---- one case ----

func c20Exec(c *c20Case) c20Obs {
	switch c.Stream {
	case "chain":
		return c20ExecChain(c)
	case "workflow":
		return c20ExecWorkflow(c)
	}
	o, _ := c20ExecGraph(c)
	return o
}

// c20Expected: the call classes the implementation must show, derived from the model's
// per-call outcomes (for chain/workflow the deferred errors surface at Compile).
func c20Expected(c *c20Case, m *c20Model) []string {
	if c.Stream == "graph" {
		return m.Out
	}
	return c20ExpectedDeferred(c, m)
}

type c20Diff struct {
	sig, what string
}

func c20Compare(c *c20Case, m *c20Model, obs *c20Obs) *c20Diff {
	exp := c20Expected(c, m)
	if len(exp) != len(obs.Out) {
		return &c20Diff{"C20:harness:length", fmt.Sprintf("expected %d call results, got %d", len(exp), len(obs.Out))}
	}
	for i := range exp {
		if exp[i] == "panic" && obs.Out[i] == "panic" {
			// predicted and observed (only with fact values other than the source's, VERIF_C20_KFACTS):
			// what a graph answers after a panic escaped one of its calls is not specified
			return nil
		}
		if exp[i] != obs.Out[i] {
			opk := c20ObservedOpKind(c, i)
			if obs.Out[i] == "panic" {
				return &c20Diff{"C20:panic:" + opk + c20KeyedSuffix(c, opk), fmt.Sprintf("call %d (%s) panicked instead of returning %s", i, opk, exp[i])}
			}
			return &c20Diff{fmt.Sprintf("C20:call-outcome:%s:model=%s,impl=%s", opk, exp[i], obs.Out[i]),
				fmt.Sprintf("call %d (%s): the model says %s, the implementation returned %s", i, opk, exp[i], obs.Out[i])}
		}
	}
	if len(obs.R1) == 2 {
		same := obs.R1[0] == obs.R1[1]
		if same != m.R1Same {
			return &c20Diff{"C20:first-runnable-changed:" + c.Stream,
				fmt.Sprintf("the first compiled runnable answered %q right after its Compile and %q after the later calls", obs.R1[0], obs.R1[1])}
		}
		if obs.R1[0] == "panic" || obs.R1[1] == "panic" {
			// a panic out of Invoke on a graph the builder accepted is C07's business unless it appears only later
		}
	}
	return nil
}

func c20ObservedOpKind(c *c20Case, i int) string {
	if c.Stream == "graph" {
		return c.Ops[i].Op
	}
	return c20DeferredOpKind(c, i)
}

// VERIF_C20_KFACTS=<helperNilSafe>,<compileChecksOwnTypes> (e.g. "false,false"): run the keyed
// model with these fact values instead of the expected ones – only for validating the model's
// other branches against an older tree by hand; never set by ./check.
func c20KFactsEnv() *c20KFactsOvr {
	v := os.Getenv("VERIF_C20_KFACTS")
	p := strings.Split(v, ",")
	if len(p) != 2 {
		return nil
	}
	return &c20KFactsOvr{HelperNilSafe: p[0] == "true", CompileChecksOwnTypes: p[1] == "true"}
}

func c20AskModel(ctx *vh.Ctx, c *c20Case) (*c20Model, error) {
	if c.KFacts == nil {
		if k := c20KFactsEnv(); k != nil {
			cc := *c
			cc.KFacts = k
			c = &cc
		}
	}
	raw, err := ctx.Oracle.Ask("C20", c)
	if err != nil {
		return nil, err
	}
	var m c20Model
	if err := json.Unmarshal(raw, &m); err != nil {
		return nil, err
	}
	return &m, nil
}

// c20Check runs one case: model, implementation (repeated for determinism), comparison.
func c20Check(ctx *vh.Ctx, c *c20Case, repeats int) (*c20Diff, *c20Model, *c20Obs, error) {
	m, err := c20AskModel(ctx, c)
	if err != nil {
		return nil, nil, nil, err
	}
	obs := c20Exec(c)
	if m.Sensitive {
		// outcome depends on the two addBranch facts owned by C07 (typed pass-through / zero-end
		// branch): compared by the C07 check only; determinism is still checked here
		return c20Determinism(c, &obs, repeats), m, &obs, nil
	}
	if d := c20Compare(c, m, &obs); d != nil {
		return d, m, &obs, nil
	}
	return c20Determinism(c, &obs, repeats), m, &obs, nil
}

func c20Determinism(c *c20Case, first *c20Obs, repeats int) *c20Diff {
	for k := 1; k < repeats; k++ {
		o := c20Exec(c)
		// accept/reject must not vary; which of two simultaneous violations is reported first may
		// follow Go's map order (e.g. two bad end nodes of one branch), so error identity is not compared here
		if c20Coarse(c20UpToPanic(o.Out)) != c20Coarse(c20UpToPanic(first.Out)) {
			i := 0
			for i < len(o.Out) && i < len(first.Out) && c20Coarse(o.Out[i:i+1]) == c20Coarse(first.Out[i:i+1]) {
				i++
			}
			return &c20Diff{"C20:nondeterministic:" + c20ObservedOpKind(c, i),
				fmt.Sprintf("attempt %d of the same construction sequence gave %v, the first attempt %v", k+1, o.Out, first.Out)}
		}
		if !c20HasPanic(first.Out) && !c20HasPanic(o.Out) && strings.Join(o.R1, ",") != strings.Join(first.R1, ",") {
			return &c20Diff{"C20:nondeterministic:run", fmt.Sprintf("attempt %d: first runnable answered %v, on the first attempt %v", k+1, o.R1, first.R1)}
		}
	}
	return nil
}

// c20UpToPanic: the results up to and including the first panic (what a graph answers after a
// panic escaped one of its calls is not specified; the panic itself is reported by c20Compare)
func c20UpToPanic(out []string) []string {
	for i, o := range out {
		if o == "panic" {
			return out[:i+1]
		}
	}
	return out
}

func c20HasPanic(out []string) bool {
	for _, o := range out {
		if o == "panic" {
			return true
		}
	}
	return false
}

// c20Shrink drops calls while the same signature persists.
func c20Shrink(ctx *vh.Ctx, c *c20Case, sig string, repeats int) *c20Case {
	if c.Stream != "graph" {
		return c
	}
	cur := c
	for pass := 0; pass < 3; pass++ {
		changed := false
		for i := len(cur.Ops) - 1; i >= 0; i-- {
			if len(cur.Ops) <= 1 {
				break
			}
			t := *cur
			t.Ops = append(append([]c20Op{}, cur.Ops[:i]...), cur.Ops[i+1:]...)
			d, _, _, err := c20Check(ctx, &t, repeats)
			if err == nil && d != nil && d.sig == sig {
				cur = &t
				changed = true
			}
		}
		if !changed {
			break
		}
	}
	return cur
}

func c20One(ctx *vh.Ctx, c *c20Case, repeats int) error {
	ctx.Progress.Mark(c)
	d, m, obs, err := c20Check(ctx, c, repeats)
	if err != nil {
		return err
	}
	// accounting
	okBefore := 0
	for _, o := range obs.Out {
		if o != "ok" {
			break
		}
		okBefore++
	}
	compiled := len(obs.R1) > 0
	ctx.Res.Count(c20Key(c), okBefore >= 4 || compiled)
	ctx.Res.Dist("stream=" + c.Stream)
	ctx.Res.Dist(fmt.Sprintf("calls=%d", len(c.Ops)))
	if c.Inject != "" {
		ctx.Res.Dist("inject=" + c.Inject)
	}
	c20KeyedDist(ctx, c)
	if m.Sensitive {
		ctx.Res.Dist("left-to-C07(sensitive)")
	}
	firstErr := "none"
	for i, o := range m.Out {
		if o != "ok" {
			firstErr = m.Kinds[i]
			break
		}
	}
	ctx.Res.Dist("firstError=" + firstErr)
	if compiled {
		ctx.Res.Dist("compiled")
		if len(obs.R1) == 2 {
			ctx.Res.Dist("r1=" + strings.SplitN(obs.R1[0], ":", 2)[0])
		}
	}
	ctx.Res.Sample(c)
	if d != nil {
		sc := c
		if ctx.Replay == nil {
			sc = c20Shrink(ctx, c, d.sig, repeats)
		}
		d2, m2, obs2, err := c20Check(ctx, sc, repeats)
		if err != nil || d2 == nil || d2.sig != d.sig {
			sc, d2, m2, obs2 = c, d, m, obs
		}
		ctx.Res.Disagree(vh.Disagreement{Signature: d2.sig, What: d2.what, Case: sc, Model: m2, Impl: obs2})
	}
	return nil
}

func runC20(ctx *vh.Ctx) error {
	ctx.Res.Rule = "construction sequences over <=5 nodes (+ injected ones) from the 9-type menu, random call order, one violation of a random kind at a random position in ~55% of the graph-stream cases, Add*/re-Compile after Compile, 20 fresh re-executions of every sequence; chain and workflow streams with deferred errors and re-Compile; non-trivial = at least 4 successful calls before the first error, or the graph compiled; distinct by (stream, graph types, state, call sequence); stream static: Workflows of 1-3 echo lambdas with static values, SetStaticValue / AddInput through retained handles before and after Compile, 1-6 Compiles, every runnable run (Invoke and Stream) after its Compile and after the later calls; non-trivial = a runnable was run after a SetStaticValue made after its Compile"
	repeats := 20
	if ctx.Replay != nil {
		var probe struct {
			Stream string `json:"stream"`
		}
		if json.Unmarshal(ctx.Replay, &probe) == nil && probe.Stream == "decl" {
			var dc c20DCase
			if err := json.Unmarshal(ctx.Replay, &dc); err != nil {
				return err
			}
			return c20DOne(ctx, &dc, repeats)
		}
		if probe.Stream == "static" {
			var sc c20SCase
			if err := json.Unmarshal(ctx.Replay, &sc); err != nil {
				return err
			}
			return c20SOne(ctx, &sc, repeats)
		}
		var c c20Case
		if err := json.Unmarshal(ctx.Replay, &c); err != nil {
			return err
		}
		return c20One(ctx, &c, repeats)
	}
	// fixed scenarios first (known shapes, incl. the recompile defect)
	for _, c := range append(c20Fixed(), c20KeyedFixed()...) {
		if err := c20One(ctx, c, repeats); err != nil {
			return err
		}
	}
	// declarations above the builder: Workflow API, graphs as nodes (Model/C20Wf.lean)
	for _, c := range c20DFixed() {
		if err := c20DOne(ctx, c, repeats); err != nil {
			return err
		}
	}
	// … and the calls after a Compile on the graphs of such trees (Model/C20Nest.lean)
	for _, c := range c20DNestFixed() {
		if err := c20DOne(ctx, c, repeats); err != nil {
			return err
		}
	}
	// one (predecessor, node) pair of a Workflow declared several times, across the kinds of dependency (c20_dup.go)
	for _, c := range c20DDupFixed() {
		if err := c20DOne(ctx, c, 5); err != nil {
			return err
		}
	}
	for i, ns := 0, ctx.N(500, 4000); i < ns && ctx.TimeLeft(); i++ {
		if err := c20DOne(ctx, c20DGenDup(ctx.Rng), 3); err != nil {
			return err
		}
	}
	// static values of a Workflow and calls through retained node handles after Compile (Model/C20Static.lean)
	for _, c := range c20SFixed() {
		if err := c20SOne(ctx, c, repeats); err != nil {
			return err
		}
	}
	for i, ns := 0, ctx.N(700, 4000); i < ns && ctx.TimeLeft(); i++ {
		if err := c20SOne(ctx, c20SGen(ctx.Rng), 2); err != nil {
			return err
		}
	}
	nd := ctx.N(4000, 30000)
	for i := 0; i < nd && ctx.TimeLeft(); i++ {
		var c *c20DCase
		if ctx.Rng.Chance(25) {
			c = c20DGenNested(ctx.Rng)
		} else {
			c = c20DGen(ctx.Rng)
			if ctx.Rng.Chance(40) {
				c20DGenLater(ctx.Rng, c)
			}
		}
		if err := c20DOne(ctx, c, 5); err != nil {
			return err
		}
	}
	n := ctx.N(12000, 60000)
	for i := 0; i < n && ctx.TimeLeft(); i++ {
		var c *c20Case
		switch x := ctx.Rng.Intn(100); {
		case x < 62:
			c = c20GenGraph(ctx.Rng, false)
		case x < 73:
			c = c20GenKeyed(ctx.Rng) // key options (Model/C20Keys.lean)
		case x < 78:
			c = c20GenKeyedWf(ctx.Rng)
		case x < 89:
			c = c20GenChain(ctx.Rng)
		default:
			c = c20GenWorkflow(ctx.Rng)
		}
		if err := c20One(ctx, c, repeats); err != nil {
			return err
		}
	}
	return nil
}
