//go:build verif && (vh_all || vh_c20)

package props

// C20 — ill-formed graphs are rejected deterministically; compiled graphs are immutable.
// Generator of construction sequences (graph / chain / workflow streams), implementation
// runner, comparison with the Lean builder model (oracle_C20).

import (
	"encoding/json"
	"fmt"
	"strings"

	"github.com/cloudwego/eino/verifharness/vh"
)

func init() { vh.Register("C20", runC20) }

type c20Model struct {
	Out       []string `json:"out"`
	Kinds     []string `json:"kinds"`
	R1Same    bool     `json:"r1same"`
	Sensitive bool     `json:"sensitive"`
}

// ---- generator: graph stream ----

type c20GNode struct {
	key     string
	pt      bool
	in, out string
}

func c20Pick(r *vh.Rand, l []string) string { return l[r.Intn(len(l))] }

// a type a value of (declared) type `from` may flow into without a guaranteed mismatch
func c20CompatibleIn(r *vh.Rand, from string) string {
	if r.Chance(70) {
		return from
	}
	var cands []string
	for _, t := range c20TyNames {
		if t == from {
			continue
		}
		ft, tt := c20RTypes[from], c20RTypes[t]
		if ft.AssignableTo(tt) || (ft.Kind().String() == "interface" && tt.AssignableTo(ft)) {
			cands = append(cands, t)
		}
	}
	if len(cands) == 0 {
		return from
	}
	return c20Pick(r, cands)
}

func c20DynFor(r *vh.Rand, out string) string {
	var cands []string
	for _, c := range c20Concrete {
		if c20Inhabits(c, out) {
			cands = append(cands, c)
		}
	}
	return c20Pick(r, cands)
}

func c20NodeOp(r *vh.Rand, n c20GNode) c20Op {
	if n.pt {
		return c20Op{Op: "node", Key: n.key, PT: true}
	}
	return c20Op{Op: "node", Key: n.key, In: n.in, Out: n.out, Dyn: c20DynFor(r, n.out)}
}

// c20GenGraph builds a mostly well-formed construction sequence and then (usually) breaks it.
func c20GenGraph(r *vh.Rand, forRuns bool) *c20Case {
	c := &c20Case{Stream: "graph", Cmp: "graph", Impl: c20Impl()}
	basic := []string{"c0", "c0", "c1", "c2", "c3", "c4", "c5", "i0", "i1", "any"}
	c.InT = c20Pick(r, basic)
	if r.Chance(35) {
		s := r.Intn(2)
		c.State = &s
	}
	nn := r.Range(1, 5)
	names := []string{"a", "b", "c", "d", "e"}
	var nodes []c20GNode
	// spine START -> n0 -> n1 -> ... -> END with mostly compatible types
	cur := c.InT // declared type flowing along the spine ("" = unknown yet)
	for i := 0; i < nn; i++ {
		n := c20GNode{key: names[i]}
		if r.Chance(30) {
			n.pt = true
		} else {
			if r.Chance(88) {
				n.in = c20CompatibleIn(r, cur)
			} else {
				n.in = c20Pick(r, basic)
			}
			n.out = c20Pick(r, basic)
			cur = n.out
		}
		nodes = append(nodes, n)
	}
	if r.Chance(88) {
		c.OutT = c20CompatibleIn(r, cur)
	} else {
		c.OutT = c20Pick(r, basic)
	}
	var nodeOps, linkOps []c20Op
	for _, n := range nodes {
		op := c20NodeOp(r, n)
		if c.State != nil && r.Chance(25) {
			t := n.in
			if n.pt {
				t = "any"
			}
			op.Pre = &c20Handler{S: *c.State, T: t}
		}
		if c.State != nil && r.Chance(20) {
			t := n.out
			if n.pt {
				t = "any"
			}
			op.Post = &c20Handler{S: *c.State, T: t}
		}
		nodeOps = append(nodeOps, op)
	}
	edge := func(s, e string) { linkOps = append(linkOps, c20Op{Op: "edge", S: s, E: e}) }
	outOf := func(i int) string { // declared out type of spine position i (-1 = START), "" unknown
		for j := i; j >= 0; j-- {
			if !nodes[j].pt {
				return nodes[j].out
			}
		}
		return c.InT
	}
	// spine edges; some replaced by a branch
	prev := "start"
	for i, n := range nodes {
		if i > 0 && r.Chance(22) && i+1 <= nn {
			// branch from prev to {this node, some other later node or END}
			other := "end"
			if i+1 < nn && r.Bool() {
				other = nodes[r.Range(i+1, nn-1)].key
			}
			t := outOf(i - 1)
			if r.Chance(25) {
				t = c20CompatibleIn(r, t)
			}
			linkOps = append(linkOps, c20Op{Op: "branch", S: prev, T: t, Ends: c20SortedCopy([]string{n.key, other}), Pick: n.key})
		} else {
			edge(prev, n.key)
		}
		prev = n.key
	}
	edge(prev, "end")
	// extra edges: forward (fan-in/out), occasionally backward (cycle)
	for k := r.Intn(3); k > 0 && nn >= 2; k-- {
		i, j := r.Intn(nn), r.Intn(nn)
		if i == j {
			continue
		}
		if i > j && !r.Chance(35) {
			i, j = j, i
		}
		edge(nodes[i].key, nodes[j].key)
	}
	if r.Chance(12) { // branch from START
		linkOps = append(linkOps, c20Op{Op: "branch", S: "start", T: c.InT, Ends: c20SortedCopy([]string{nodes[0].key, "end"}), Pick: nodes[0].key})
	}
	if !forRuns && r.Chance(6) { // zero-end branch (accepted by the code; typed pass-through corner)
		linkOps = append(linkOps, c20Op{Op: "branch", S: nodes[r.Intn(nn)].key, T: c20Pick(r, basic), Ends: []string{}, Pick: ""})
	}
	// call order
	shuffle := func(l []c20Op) []c20Op {
		p := r.Perm(len(l))
		o := make([]c20Op, len(l))
		for i, j := range p {
			o[i] = l[j]
		}
		return o
	}
	var ops []c20Op
	switch x := r.Intn(100); {
	case x < 55: // nodes first, links shuffled
		ops = append(shuffle(nodeOps), shuffle(linkOps)...)
	case x < 85: // interleaved, every link after the nodes it names
		ops = shuffle(nodeOps)
		added := map[string]bool{"start": true, "end": true}
		var out []c20Op
		pending := shuffle(linkOps)
		for _, no := range ops {
			out = append(out, no)
			added[no.Key] = true
			var rest []c20Op
			for _, l := range pending {
				ok := added[l.S]
				if l.Op == "edge" {
					ok = ok && added[l.E]
				} else {
					for _, e := range l.Ends {
						ok = ok && added[e]
					}
				}
				if ok && r.Chance(70) {
					out = append(out, l)
				} else {
					rest = append(rest, l)
				}
			}
			pending = rest
		}
		ops = append(out, pending...)
	default: // fully random order (links may precede their nodes: unknown-node errors)
		ops = shuffle(append(append([]c20Op{}, nodeOps...), linkOps...))
	}
	// compile options
	comp := c20Op{Op: "compile"}
	switch x := r.Intn(100); {
	case x < 50:
	case x < 65:
		comp.Mode = "any"
	default:
		comp.Mode = "all"
	}
	if r.Chance(10) {
		comp.MaxSteps = r.Range(1, 30)
	}
	c.Ops = ops
	if !forRuns && r.Chance(55) {
		c20Inject(r, c, nodes, &comp)
	}
	c.Ops = append(c.Ops, comp)
	if forRuns {
		return c
	}
	// after Compile: Add* attempts, re-Compile, more attempts
	post := r.Intn(5)
	for k := 0; k < post; k++ {
		switch r.Intn(5) {
		case 0:
			c.Ops = append(c.Ops, c20Op{Op: "node", Key: "z" + fmt.Sprint(k), In: "c0", Out: "c0", Dyn: "c0"})
		case 1:
			c.Ops = append(c.Ops, c20Op{Op: "node", Key: "y" + fmt.Sprint(k), PT: true})
		case 2:
			c.Ops = append(c.Ops, c20Op{Op: "edge", S: nodes[r.Intn(nn)].key, E: "end"})
		case 3:
			c.Ops = append(c.Ops, c20Op{Op: "branch", S: nodes[r.Intn(nn)].key, T: c20Pick(r, basic), Ends: c20SortedCopy([]string{"end", nodes[0].key}), Pick: "end"})
		case 4:
			cc := comp
			if r.Chance(30) {
				cc.Mode = c20Pick(r, []string{"", "any", "all"})
			}
			c.Ops = append(c.Ops, cc)
		}
	}
	return c
}

var c20InjectKinds = []string{"reserved", "dupNode", "unknownStart", "unknownEnd", "dupEdge", "endAsStart", "startAsEnd",
	"singleBranch", "branchUnknownStart", "branchUnknownEnd", "handlerNoState", "handlerStateTy", "handlerTy",
	"ptHandlerNotAny", "nodeKeyOpt", "typeMismatch", "branchMismatch", "noEntry", "noExit", "uninferable", "cycleDag", "maxStepsDag"}

// c20Inject puts one violation of the chosen kind at a random position of the sequence.
func c20Inject(r *vh.Rand, c *c20Case, nodes []c20GNode, comp *c20Op) {
	kind := c20Pick(r, c20InjectKinds)
	c.Inject = kind
	pos := r.Intn(len(c.Ops) + 1)
	ins := func(op c20Op) {
		c.Ops = append(c.Ops[:pos], append([]c20Op{op}, c.Ops[pos:]...)...)
	}
	anyNode := nodes[r.Intn(len(nodes))]
	lam := func(key string) c20Op { return c20Op{Op: "node", Key: key, In: "c0", Out: "c0", Dyn: "c0"} }
	other := func(ty string) string {
		for {
			t := c20Pick(r, c20Concrete)
			if t != ty {
				return t
			}
		}
	}
	switch kind {
	case "reserved":
		ins(lam(c20Pick(r, []string{"start", "end"})))
	case "dupNode":
		if r.Bool() {
			ins(lam(anyNode.key))
		} else {
			ins(c20Op{Op: "node", Key: anyNode.key, PT: true})
		}
	case "unknownStart":
		ins(c20Op{Op: "edge", S: "ghost", E: anyNode.key})
	case "unknownEnd":
		ins(c20Op{Op: "edge", S: anyNode.key, E: "ghost"})
	case "dupEdge":
		var edges []c20Op
		for _, o := range c.Ops {
			if o.Op == "edge" {
				edges = append(edges, o)
			}
		}
		if len(edges) > 0 {
			ins(edges[r.Intn(len(edges))])
		}
	case "endAsStart":
		if r.Bool() {
			ins(c20Op{Op: "edge", S: "end", E: anyNode.key})
		} else {
			ins(c20Op{Op: "branch", S: "end", T: "c0", Ends: c20SortedCopy([]string{anyNode.key, "end"}), Pick: "end"})
		}
	case "startAsEnd":
		ins(c20Op{Op: "edge", S: anyNode.key, E: "start"})
	case "singleBranch":
		ins(c20Op{Op: "branch", S: anyNode.key, T: c20Pick(r, c20TyNames), Ends: []string{c20Pick(r, []string{"end", nodes[0].key})}, Pick: "end"})
	case "branchUnknownStart":
		ins(c20Op{Op: "branch", S: "ghost", T: "c0", Ends: c20SortedCopy([]string{anyNode.key, "end"}), Pick: "end"})
	case "branchUnknownEnd":
		ins(c20Op{Op: "branch", S: anyNode.key, T: c20Pick(r, c20TyNames), Ends: c20SortedCopy([]string{"ghost", "end"}), Pick: "end"})
	case "handlerNoState", "handlerStateTy", "handlerTy", "ptHandlerNotAny", "nodeKeyOpt":
		// rewrite one node-adding call
		var idx []int
		for i, o := range c.Ops {
			if o.Op == "node" && (kind != "ptHandlerNotAny" || o.PT) && (kind != "handlerTy" || !o.PT) {
				idx = append(idx, i)
			}
		}
		if len(idx) == 0 {
			c.Inject = ""
			return
		}
		o := &c.Ops[idx[r.Intn(len(idx))]]
		st := 0
		if c.State != nil {
			st = *c.State
		}
		ty := o.In
		if o.PT {
			ty = "any"
		}
		switch kind {
		case "handlerNoState":
			c.State = nil
			for i := range c.Ops {
				c.Ops[i].Pre, c.Ops[i].Post = nil, nil
			}
			o.Pre = &c20Handler{S: 0, T: ty}
		case "handlerStateTy":
			if c.State == nil {
				c.State = &st
			}
			o.Pre, o.Post = nil, nil
			if r.Bool() {
				o.Pre = &c20Handler{S: 1 - st, T: ty}
			} else {
				t := o.Out
				if o.PT {
					t = "any"
				}
				o.Post = &c20Handler{S: 1 - st, T: t}
			}
		case "handlerTy":
			if c.State == nil {
				c.State = &st
			}
			if r.Bool() {
				o.Pre = &c20Handler{S: st, T: other(o.In)}
			} else {
				o.Post = &c20Handler{S: st, T: other(o.Out)}
			}
		case "ptHandlerNotAny":
			if c.State == nil {
				c.State = &st
			}
			if r.Bool() {
				o.Pre = &c20Handler{S: st, T: c20Pick(r, c20Concrete)}
			} else {
				o.Post = &c20Handler{S: st, T: c20Pick(r, c20Concrete)}
			}
		case "nodeKeyOpt":
			o.KeyOpt = true
		}
	case "typeMismatch":
		// a lambda whose input can never take what its predecessor produces
		k := "m"
		ins(c20Op{Op: "edge", S: k, E: "end"})
		ins(c20Op{Op: "edge", S: "start", E: k})
		ins(c20Op{Op: "node", Key: k, In: other(c.InT), Out: c.OutT, Dyn: c20DynFor(r, c.OutT)})
		if c.InT == "any" || c.InT == "i0" || c.InT == "i1" {
			c.Inject = "typeMay" // upstream is an interface: not a definite mismatch
		}
	case "branchMismatch":
		if anyNode.pt {
			c.Inject = ""
			return
		}
		ins(c20Op{Op: "branch", S: anyNode.key, T: other(anyNode.out), Ends: c20SortedCopy([]string{nodes[0].key, "end"}), Pick: "end"})
		pos = len(c.Ops) // keep it after the node exists most of the time
	case "noEntry":
		var ops []c20Op
		for _, o := range c.Ops {
			if !(o.S == "start") {
				ops = append(ops, o)
			}
		}
		c.Ops = ops
	case "noExit":
		var ops []c20Op
		for _, o := range c.Ops {
			keep := true
			if o.Op == "edge" && o.E == "end" {
				keep = false
			}
			if o.Op == "branch" {
				for _, e := range o.Ends {
					if e == "end" {
						keep = false
					}
				}
			}
			if keep {
				ops = append(ops, o)
			}
		}
		c.Ops = ops
	case "uninferable":
		ins(c20Op{Op: "edge", S: "p1", E: "p2"})
		ins(c20Op{Op: "node", Key: "p2", PT: true})
		ins(c20Op{Op: "node", Key: "p1", PT: true})
	case "cycleDag":
		comp.Mode = "all"
		a := anyNode.key
		ins(c20Op{Op: "edge", S: "q", E: a})
		ins(c20Op{Op: "edge", S: a, E: "q"})
		t := anyNode.out
		ti := anyNode.in
		if anyNode.pt {
			ins(c20Op{Op: "node", Key: "q", PT: true})
		} else {
			ins(c20Op{Op: "node", Key: "q", In: t, Out: ti, Dyn: c20DynFor(r, ti)})
		}
	case "maxStepsDag":
		comp.Mode = "all"
		comp.MaxSteps = r.Range(1, 20)
	}
}

// ---- one case ----

func c20Key(c *c20Case) string {
	b, _ := json.Marshal(struct {
		A, B, C string
		S       *int
		O       []c20Op
		W       *c20WfExt
	}{c.Stream, c.InT, c.OutT, c.State, c.Ops, c.Extra})
	return string(b)
}

func c20Exec(c *c20Case) c20Obs {
	switch c.Stream {
	case "chain":
		return c20ExecChain(c)
	case "workflow":
		return c20ExecWorkflow(c)
	}
	o, _ := c20ExecGraph(c)
	return o
}

// c20Expected: the call classes the implementation must show, derived from the model's
// per-call outcomes (for chain/workflow the deferred errors surface at Compile).
func c20Expected(c *c20Case, m *c20Model) []string {
	if c.Stream == "graph" {
		return m.Out
	}
	return c20ExpectedDeferred(c, m)
}

type c20Diff struct {
	sig, what string
}

func c20Compare(c *c20Case, m *c20Model, obs *c20Obs) *c20Diff {
	exp := c20Expected(c, m)
	if len(exp) != len(obs.Out) {
		return &c20Diff{"C20:harness:length", fmt.Sprintf("expected %d call results, got %d", len(exp), len(obs.Out))}
	}
	for i := range exp {
		if exp[i] != obs.Out[i] {
			opk := c20ObservedOpKind(c, i)
			if obs.Out[i] == "panic" {
				return &c20Diff{"C20:panic:" + opk, fmt.Sprintf("call %d (%s) panicked instead of returning %s", i, opk, exp[i])}
			}
			return &c20Diff{fmt.Sprintf("C20:call-outcome:%s:model=%s,impl=%s", opk, exp[i], obs.Out[i]),
				fmt.Sprintf("call %d (%s): the model says %s, the implementation returned %s", i, opk, exp[i], obs.Out[i])}
		}
	}
	if len(obs.R1) == 2 {
		same := obs.R1[0] == obs.R1[1]
		if same != m.R1Same {
			return &c20Diff{"C20:first-runnable-changed:" + c.Stream,
				fmt.Sprintf("the first compiled runnable answered %q right after its Compile and %q after the later calls", obs.R1[0], obs.R1[1])}
		}
		if obs.R1[0] == "panic" || obs.R1[1] == "panic" {
			// a panic out of Invoke on a graph the builder accepted is C07's business unless it appears only later
		}
	}
	return nil
}

func c20ObservedOpKind(c *c20Case, i int) string {
	if c.Stream == "graph" {
		return c.Ops[i].Op
	}
	return c20DeferredOpKind(c, i)
}

func c20AskModel(ctx *vh.Ctx, c *c20Case) (*c20Model, error) {
	raw, err := ctx.Oracle.Ask("C20", c)
	if err != nil {
		return nil, err
	}
	var m c20Model
	if err := json.Unmarshal(raw, &m); err != nil {
		return nil, err
	}
	return &m, nil
}

// c20Check runs one case: model, implementation (repeated for determinism), comparison.
func c20Check(ctx *vh.Ctx, c *c20Case, repeats int) (*c20Diff, *c20Model, *c20Obs, error) {
	m, err := c20AskModel(ctx, c)
	if err != nil {
		return nil, nil, nil, err
	}
	obs := c20Exec(c)
	if m.Sensitive {
		// outcome depends on the two addBranch facts owned by C07 (typed pass-through / zero-end
		// branch): compared by the C07 check only; determinism is still checked here
		return c20Determinism(c, &obs, repeats), m, &obs, nil
	}
	if d := c20Compare(c, m, &obs); d != nil {
		return d, m, &obs, nil
	}
	return c20Determinism(c, &obs, repeats), m, &obs, nil
}

func c20Determinism(c *c20Case, first *c20Obs, repeats int) *c20Diff {
	for k := 1; k < repeats; k++ {
		o := c20Exec(c)
		if strings.Join(o.Out, ",") != strings.Join(first.Out, ",") {
			i := 0
			for i < len(o.Out) && i < len(first.Out) && o.Out[i] == first.Out[i] {
				i++
			}
			return &c20Diff{"C20:nondeterministic:" + c20ObservedOpKind(c, i),
				fmt.Sprintf("attempt %d of the same construction sequence gave %v, the first attempt %v", k+1, o.Out, first.Out)}
		}
		if strings.Join(o.R1, ",") != strings.Join(first.R1, ",") {
			return &c20Diff{"C20:nondeterministic:run", fmt.Sprintf("attempt %d: first runnable answered %v, on the first attempt %v", k+1, o.R1, first.R1)}
		}
	}
	return nil
}

// c20Shrink drops calls while the same signature persists.
func c20Shrink(ctx *vh.Ctx, c *c20Case, sig string, repeats int) *c20Case {
	if c.Stream != "graph" {
		return c
	}
	cur := c
	for pass := 0; pass < 3; pass++ {
		changed := false
		for i := len(cur.Ops) - 1; i >= 0; i-- {
			if len(cur.Ops) <= 1 {
				break
			}
			t := *cur
			t.Ops = append(append([]c20Op{}, cur.Ops[:i]...), cur.Ops[i+1:]...)
			d, _, _, err := c20Check(ctx, &t, repeats)
			if err == nil && d != nil && d.sig == sig {
				cur = &t
				changed = true
			}
		}
		if !changed {
			break
		}
	}
	return cur
}

func c20One(ctx *vh.Ctx, c *c20Case, repeats int) error {
	ctx.Progress.Mark(c)
	d, m, obs, err := c20Check(ctx, c, repeats)
	if err != nil {
		return err
	}
	// accounting
	okBefore := 0
	for _, o := range obs.Out {
		if o != "ok" {
			break
		}
		okBefore++
	}
	compiled := len(obs.R1) > 0
	ctx.Res.Count(c20Key(c), okBefore >= 4 || compiled)
	ctx.Res.Dist("stream=" + c.Stream)
	ctx.Res.Dist(fmt.Sprintf("calls=%d", len(c.Ops)))
	if c.Inject != "" {
		ctx.Res.Dist("inject=" + c.Inject)
	}
	if m.Sensitive {
		ctx.Res.Dist("left-to-C07(sensitive)")
	}
	firstErr := "none"
	for i, o := range m.Out {
		if o != "ok" {
			firstErr = m.Kinds[i]
			break
		}
	}
	ctx.Res.Dist("firstError=" + firstErr)
	if compiled {
		ctx.Res.Dist("compiled")
		if len(obs.R1) == 2 {
			ctx.Res.Dist("r1=" + strings.SplitN(obs.R1[0], ":", 2)[0])
		}
	}
	ctx.Res.Sample(c)
	if d != nil {
		sc := c
		if ctx.Replay == nil {
			sc = c20Shrink(ctx, c, d.sig, repeats)
		}
		d2, m2, obs2, err := c20Check(ctx, sc, repeats)
		if err != nil || d2 == nil || d2.sig != d.sig {
			sc, d2, m2, obs2 = c, d, m, obs
		}
		ctx.Res.Disagree(vh.Disagreement{Signature: d2.sig, What: d2.what, Case: sc, Model: m2, Impl: obs2})
	}
	return nil
}

func runC20(ctx *vh.Ctx) error {
	ctx.Res.Rule = "construction sequences over <=5 nodes (+ injected ones) from the 9-type menu, random call order, one violation of a random kind at a random position in ~55% of the graph-stream cases, Add*/re-Compile after Compile, 20 fresh re-executions of every sequence; chain and workflow streams with deferred errors and re-Compile; non-trivial = at least 4 successful calls before the first error, or the graph compiled; distinct by (stream, graph types, state, call sequence)"
	repeats := 20
	if ctx.Replay != nil {
		var c c20Case
		if err := json.Unmarshal(ctx.Replay, &c); err != nil {
			return err
		}
		return c20One(ctx, &c, repeats)
	}
	// fixed scenarios first (known shapes, incl. the recompile defect)
	for _, c := range c20Fixed() {
		if err := c20One(ctx, c, repeats); err != nil {
			return err
		}
	}
	n := ctx.N(2500, 60000)
	for i := 0; i < n && ctx.TimeLeft(); i++ {
		var c *c20Case
		switch x := ctx.Rng.Intn(100); {
		case x < 76:
			c = c20GenGraph(ctx.Rng, false)
		case x < 88:
			c = c20GenChain(ctx.Rng)
		default:
			c = c20GenWorkflow(ctx.Rng)
		}
		if err := c20One(ctx, c, repeats); err != nil {
			return err
		}
	}
	return nil
}
