//go:build verif && (vh_all || vh_c20)

package props

// C20, `decl` stream: declarations above the builder.  A case is a tree of declared graphs –
// Workflow API (AddInput / AddDependency / AddInputWithOptions(WithNoDirectDependency) /
// AddBranch / End().Add…) and Graph API – in which a graph may be a node of another one
// (AddGraphNode, optionally with WithGraphCompileOptions), plus the options of 1-3 consecutive
// Compiles of the outermost graph.  The Lean side (Model/C20Wf.lean) lowers the Workflow
// declarations itself and predicts accept / reject and the error class of every Compile; here
// the public API is driven and the result classified: ok | error/<class> | panic.

import (
	"context"
	"encoding/json"
	"errors"
	"fmt"
	"sort"
	"strings"

	"github.com/cloudwego/eino/compose"
	"github.com/cloudwego/eino/verifharness/vh"
)

type c20Decl struct {
	API   string `json:"api"` // workflow | graph | chain (chain: Nodes without Ins, appended in order)
	InT   string `json:"inT"`
	OutT  string `json:"outT"`
	State *int   `json:"state"`
	// workflow api
	Nodes    []c20DNode `json:"nodes,omitempty"`
	EndIn    []c20WfIn  `json:"endIn,omitempty"`
	Branches []c20Op    `json:"branches,omitempty"`
	// graph api: node | edge | branch | sub, in call order
	Ops []c20DOp `json:"ops,omitempty"`
}

type c20DNode struct {
	Key     string    `json:"key"`
	PT      bool      `json:"pt,omitempty"`
	In      string    `json:"in,omitempty"`
	Out     string    `json:"out,omitempty"`
	Dyn     string    `json:"dyn,omitempty"`
	Sub     *c20Decl  `json:"sub,omitempty"`
	SubOpts *c20Op    `json:"subOpts,omitempty"` // compile options attached to the sub-graph node
	Ins     []c20WfIn `json:"ins"`
}

type c20DOp struct {
	c20Op
	Sub     *c20Decl `json:"sub,omitempty"`
	SubOpts *c20Op   `json:"subOpts,omitempty"`
}

type c20DCase struct {
	Stream   string   `json:"stream"` // "decl"
	Impl     [][2]any `json:"impl"`
	Decl     *c20Decl `json:"decl"`
	Compiles []c20Op  `json:"compiles"`
	Shape    string   `json:"shape,omitempty"` // what the generator aimed at (informational)
	// calls after the Compiles (c20_nest.go): Add* on graphs of the tree, then Compiles of the outermost again
	Mods       []c20DMod `json:"mods,omitempty"`
	Recompiles []c20Op   `json:"recompiles,omitempty"`
}

type c20DModel struct {
	Out   []string   `json:"out"`
	Kinds [][]string `json:"kinds"`
	// accept / reject of some Compile depends on the order in which Workflow.compile replays the
	// recorded inputs (it ranges over a Go map): the model answers for declaration order
	Sensitive bool `json:"sensitive"`
	// later calls: not predicted (no Compile succeeded) | class of every mod, answers of the recompiles
	LaterSkip bool       `json:"laterSkip,omitempty"`
	Mods      []string   `json:"mods,omitempty"`
	ReOut     []string   `json:"reout,omitempty"`
	ReKinds   [][]string `json:"rekinds,omitempty"`
}

const c20DOrderSig = "C20:nondeterministic:workflow-compile:input-replay-order"

type c20DObs struct {
	Out   []string `json:"out"` // ok | error/<class> | panic
	Mods  []string `json:"mods,omitempty"`  // ok | fresh | stored | compiled | panic | silent
	ReOut []string `json:"reout,omitempty"` // like Out, for the recompiles
	R1    []string `json:"r1,omitempty"`    // first runnable: run after the Compiles and again after the later calls
	Notes []string `json:"notes,omitempty"`
}

// ---- building the real thing ----

type c20GraphNodeAdder interface {
	AddGraphNode(key string, node compose.AnyGraph, opts ...compose.GraphAddNodeOpt) error
}

func (w *c20WfW[I, O]) addGraph(key string, g compose.AnyGraph, opts ...compose.GraphAddNodeOpt) *compose.WorkflowNode {
	return w.w.AddGraphNode(key, g, opts...)
}
func (w *c20WfW[I, O]) anyGraph() compose.AnyGraph { return w.w }

type c20WfBX interface {
	c20WfB
	addGraph(key string, g compose.AnyGraph, opts ...compose.GraphAddNodeOpt) *compose.WorkflowNode
	anyGraph() compose.AnyGraph
}

type c20DCompile func(ctx context.Context, opts ...compose.GraphCompileOption) error

func c20SubNodeOpts(o *c20Op) []compose.GraphAddNodeOpt {
	if o == nil {
		return nil
	}
	co := c20CompileOpts(o)
	if len(co) == 0 {
		return nil
	}
	return []compose.GraphAddNodeOpt{compose.WithGraphCompileOptions(co...)}
}

func c20WfAddIns(n *compose.WorkflowNode, ins []c20WfIn) {
	for _, in := range ins {
		var fm []*compose.FieldMapping
		if in.Fid > 0 {
			// key "k" is what every map-typed lambda of the menu returns (c20Val) and what the run input carries
			fm = append(fm, compose.MapFields("k", fmt.Sprintf("k%d", in.Fid)))
		} else if in.Mapped {
			fm = append(fm, compose.MapFields("X", "X"))
		}
		switch in.Kind {
		case "dep":
			n.AddDependency(in.From)
		case "indirect":
			n.AddInputWithOptions(in.From, fm, compose.WithNoDirectDependency())
		default:
			n.AddInput(in.From, fm...)
		}
	}
}

// c20BuildDecl declares the graph (and, first, the graphs it uses as nodes) through the public API.
func c20BuildDecl(d *c20Decl) (compose.AnyGraph, c20DCompile) {
	g, compile := c20BuildDeclR(d, nil, nil)
	return g, func(ctx context.Context, opts ...compose.GraphCompileOption) error {
		_, err := compile(ctx, opts...)
		return err
	}
}

// c20BuildDeclR: the same, every declared graph registered under its path of graph-node keys
// (reg may be nil); the compile function also hands back the runnable.
func c20BuildDeclR(d *c20Decl, path []string, reg c20DReg) (compose.AnyGraph, c20CompileFn) {
	sub := func(key string) []string { return append(append([]string{}, path...), key) }
	switch d.API {
	case "workflow":
		wf := c20Workflows[d.InT+">"+d.OutT](c20StateOpt(d.State)...).(c20WfBX)
		reg.put(path, wf)
		for i := range d.Nodes {
			n := &d.Nodes[i]
			var wn *compose.WorkflowNode
			switch {
			case n.Sub != nil:
				child, _ := c20BuildDeclR(n.Sub, sub(n.Key), reg)
				wn = wf.addGraph(n.Key, child, c20SubNodeOpts(n.SubOpts)...)
			case n.PT:
				wn = wf.addPassthrough(n.Key)
			default:
				wn = wf.addLambda(n.Key, c20Lambdas[n.In+">"+n.Out](n.Dyn))
			}
			c20WfAddIns(wn, n.Ins)
		}
		if len(d.EndIn) > 0 {
			c20WfAddIns(wf.end(), d.EndIn)
		}
		for _, b := range d.Branches {
			ends := map[string]bool{}
			for _, e := range b.Ends {
				ends[e] = true
			}
			wf.addBranch(b.S, c20Branches[b.T](b.Pick, ends))
		}
		return wf.anyGraph(), func(ctx context.Context, opts ...compose.GraphCompileOption) (c20RunFn, error) {
			return wf.compile(ctx, opts...)
		}
	case "chain":
		ch := c20Chains[d.InT+">"+d.OutT](c20StateOpt(d.State)...).(c20ChainBX)
		reg.put(path, ch)
		for i := range d.Nodes {
			n := &d.Nodes[i]
			if n.PT {
				ch.appendPassthrough()
			} else {
				ch.appendLambda(c20Lambdas[n.In+">"+n.Out](n.Dyn))
			}
		}
		return ch.anyGraph(), func(ctx context.Context, opts ...compose.GraphCompileOption) (c20RunFn, error) {
			return ch.compile(ctx, opts...)
		}
	}
	g, compile := c20Graphs[d.InT+">"+d.OutT](c20StateOpt(d.State)...)
	reg.put(path, g)
	for i := range d.Ops {
		op := &d.Ops[i]
		switch op.Op {
		case "sub":
			child, _ := c20BuildDeclR(op.Sub, sub(op.Key), reg)
			_ = g.(c20GraphNodeAdder).AddGraphNode(op.Key, child, c20SubNodeOpts(op.SubOpts)...)
		case "node":
			if op.PT {
				_ = g.AddPassthroughNode(op.Key)
			} else {
				_ = g.AddLambdaNode(op.Key, c20Lambdas[op.In+">"+op.Out](op.Dyn))
			}
		case "edge":
			_ = g.AddEdge(op.S, op.E)
		case "branch":
			ends := map[string]bool{}
			for _, e := range op.Ends {
				ends[e] = true
			}
			_ = g.AddBranch(op.S, c20Branches[op.T](op.Pick, ends))
		}
	}
	return g.(compose.AnyGraph), compile
}

// c20ErrClass: the compile-time checks by name, every other error (those of the Add* calls,
// kept by the builder and returned by Compile) as "build".  Read off the message: the errors
// are plain errors.New / fmt.Errorf values without a type or sentinel.
func c20ErrClass(err error) string {
	if errors.Is(err, compose.ErrGraphCompiled) || errors.Is(err, compose.ErrChainCompiled) {
		return "compiled"
	}
	m := err.Error()
	switch {
	case strings.Contains(m, "start node not set"):
		return "noStart"
	case strings.Contains(m, "end node not set"):
		return "noEnd"
	case strings.Contains(m, "cannot set max run steps in dag mode"):
		return "maxStepsInDag"
	case strings.Contains(m, "doesn't support node trigger mode"):
		return "triggerModeOnChain"
	case strings.Contains(m, "DAG invalid"):
		return "dagLoop"
	case strings.Contains(m, "cannot be inferred"):
		return "uninferred"
	case strings.Contains(m, "duplicate mapping target field"):
		return "dupMapTarget"
	case strings.Contains(m, "WithGetStateEnable"):
		return "getStateOutsideWorkflow"
	}
	return "build"
}

func c20DCompileClass(compile c20CompileFn, op *c20Op, what string, obs *c20DObs) (string, c20RunFn) {
	var err error
	var run c20RunFn
	p, pv := vh.Safely(func() { run, err = compile(context.Background(), c20CompileOpts(op)...) })
	switch {
	case p:
		obs.Notes = append(obs.Notes, fmt.Sprintf("%s panicked: %v", what, pv))
		return "panic", nil
	case err == nil:
		return "ok", run
	}
	obs.Notes = append(obs.Notes, fmt.Sprintf("%s: %v", what, err))
	return "error/" + c20ErrClass(err), nil
}

// c20DExec declares the tree afresh, runs the Compiles and – when later is set – the later
// calls (mods on the graphs of the tree, recompiles of the outermost).
func c20DExec(c *c20DCase) c20DObs { return c20DExecL(c, true) }

func c20DExecL(c *c20DCase, later bool) c20DObs {
	var obs c20DObs
	var compile c20CompileFn
	reg := c20DReg{}
	if p, pv := vh.Safely(func() { _, compile = c20BuildDeclR(c.Decl, nil, reg) }); p {
		obs.Notes = append(obs.Notes, fmt.Sprintf("declaring panicked: %v", pv))
		for range c.Compiles {
			obs.Out = append(obs.Out, "panic")
		}
		return obs
	}
	var first c20RunFn
	for i := range c.Compiles {
		cls, run := c20DCompileClass(compile, &c.Compiles[i], fmt.Sprintf("compile %d", i), &obs)
		obs.Out = append(obs.Out, cls)
		if first == nil {
			first = run
		}
	}
	if !later || (len(c.Mods) == 0 && len(c.Recompiles) == 0) {
		return obs
	}
	c20DLater(c, reg, compile, first, &obs)
	return obs
}

func c20DCoarse(o string) string {
	if strings.HasPrefix(o, "error/") {
		return "error"
	}
	return o
}

func c20DModelStr(m *c20DModel, i int) string {
	switch m.Out[i] {
	case "ok", "panic":
		return m.Out[i]
	}
	return "error/" + strings.Join(c20SortedCopy(m.Kinds[i]), "|")
}

// c20DHasBadBranchEnd: some recorded Workflow branch names an end node no Add…Node call declared
func c20DHasBadBranchEnd(d *c20Decl) bool {
	if d == nil {
		return false
	}
	if d.API == "workflow" {
		keys := map[string]bool{"end": true}
		for _, n := range d.Nodes {
			keys[n.Key] = true
		}
		for _, b := range d.Branches {
			for _, e := range b.Ends {
				if !keys[e] {
					return true
				}
			}
		}
	}
	for _, n := range d.Nodes {
		if c20DHasBadBranchEnd(n.Sub) {
			return true
		}
	}
	for _, o := range d.Ops {
		if c20DHasBadBranchEnd(o.Sub) {
			return true
		}
	}
	return false
}

func c20DShapeOf(d *c20Decl) string {
	s := d.API
	var kids []string
	for _, n := range d.Nodes {
		if n.Sub != nil {
			kids = append(kids, n.Sub.API)
		}
	}
	for _, o := range d.Ops {
		if o.Sub != nil {
			kids = append(kids, o.Sub.API)
		}
	}
	if len(kids) > 0 {
		sort.Strings(kids)
		s += ">" + kids[0]
	}
	return s
}

func c20DCompare(c *c20DCase, m *c20DModel, obs *c20DObs) *c20Diff {
	if len(m.Out) != len(obs.Out) {
		return &c20Diff{"C20:harness:length", fmt.Sprintf("expected %d compile results, got %d", len(m.Out), len(obs.Out))}
	}
	shape := c20DShapeOf(c.Decl)
	for i := range m.Out {
		exp := c20DModelStr(m, i)
		got := obs.Out[i]
		if got == "panic" && exp != "panic" {
			sig := "C20:panic:decl-compile:" + shape
			if c20DHasBadBranchEnd(c.Decl) {
				sig = "C20:panic:workflow-compile:branch-end-undeclared"
			}
			return &c20Diff{sig, fmt.Sprintf("Compile %d panicked; the model says %s", i, exp)}
		}
		if c20DCoarse(got) != c20DCoarse(exp) {
			return &c20Diff{fmt.Sprintf("C20:decl-compile:%s:model=%s,impl=%s", shape, exp, got),
				fmt.Sprintf("Compile %d of the declared %s: the model says %s, the implementation answered %s", i, shape, exp, got)}
		}
		if strings.HasPrefix(got, "error/") {
			k := strings.TrimPrefix(got, "error/")
			ok := false
			for _, a := range m.Kinds[i] {
				if a == k {
					ok = true
				}
			}
			if !ok {
				return &c20Diff{fmt.Sprintf("C20:decl-compile-error-class:%s:model=%s,impl=%s", shape, exp, got),
					fmt.Sprintf("Compile %d of the declared %s fails with %s, the model says %s", i, shape, got, exp)}
			}
		}
	}
	return c20DCompareLater(c, m, obs, shape)
}

func c20DCheck(ctx *vh.Ctx, c *c20DCase, repeats int) (*c20Diff, *c20DModel, *c20DObs, error) {
	raw, err := ctx.Oracle.Ask("C20", c)
	if err != nil {
		return nil, nil, nil, err
	}
	var m c20DModel
	if err := json.Unmarshal(raw, &m); err != nil {
		return nil, nil, nil, err
	}
	obs := c20DExecL(c, !m.LaterSkip)
	if d := c20DCompare(c, &m, &obs); d != nil {
		if m.Sensitive && !strings.HasPrefix(d.sig, "C20:panic:") {
			// the model says the outcome of this declaration depends on the replay order
			return &c20Diff{c20DOrderSig, "accept / reject depends on the order Workflow.compile replays the recorded inputs in (Go map iteration); this attempt: " + d.what}, &m, &obs, nil
		}
		return d, &m, &obs, nil
	}
	// the same declarations, declared and compiled afresh: accept / reject must not vary (which of
	// several failing sub-graphs is reported may follow Go's map order)
	first := make([]string, len(obs.Out))
	for i, o := range obs.Out {
		first[i] = c20DCoarse(o)
	}
	for k := 1; k < repeats; k++ {
		o := c20DExecL(c, !m.LaterSkip)
		if d := c20DLaterStable(&obs, &o, k); d != nil {
			return d, &m, &obs, nil
		}
		for i := range o.Out {
			if i >= len(first) || c20DCoarse(o.Out[i]) != first[i] {
				if c20DHasBadBranchEnd(c.Decl) && (o.Out[i] == "panic" || (i < len(first) && first[i] == "panic")) {
					// the panic of the undeclared branch end, reached or not depending on which failing sub-graph Go's map order visits first
					return &c20Diff{"C20:panic:workflow-compile:branch-end-undeclared",
						fmt.Sprintf("attempt %d: Compile %d panicked (%v; first attempt %v)", k+1, i, o.Out, obs.Out)}, &m, &obs, nil
				}
				if m.Sensitive {
					return &c20Diff{c20DOrderSig,
						fmt.Sprintf("attempt %d of the same declarations gave %v, the first attempt %v (the model: the outcome depends on the order Workflow.compile replays the recorded inputs in)", k+1, o.Out, obs.Out)}, &m, &obs, nil
				}
				return &c20Diff{"C20:nondeterministic:decl-compile",
					fmt.Sprintf("attempt %d of the same declarations gave %v, the first attempt %v", k+1, o.Out, obs.Out)}, &m, &obs, nil
			}
		}
	}
	return nil, &m, &obs, nil
}

func c20DOne(ctx *vh.Ctx, c *c20DCase, repeats int) error {
	ctx.Progress.Mark(c)
	d, m, obs, err := c20DCheck(ctx, c, repeats)
	if err != nil {
		return err
	}
	kb, _ := json.Marshal(struct {
		D *c20Decl
		C []c20Op
		M []c20DMod
		R []c20Op
	}{c.Decl, c.Compiles, c.Mods, c.Recompiles})
	compiled := false
	for _, o := range obs.Out {
		if o == "ok" {
			compiled = true
		}
	}
	ctx.Res.Count("decl:"+string(kb), true)
	ctx.Res.Dist("stream=decl")
	ctx.Res.Dist("decl.shape=" + c20DShapeOf(c.Decl))
	if c.Shape != "" {
		ctx.Res.Dist("decl.aim=" + c.Shape)
	}
	ctx.Res.Dist("decl.first=" + strings.SplitN(c20DModelStr(m, 0), "|", 2)[0])
	if len(m.Kinds[0]) > 1 {
		ctx.Res.Dist("decl.several-failing-subgraphs")
	}
	if m.Sensitive {
		ctx.Res.Dist("decl.replay-order-sensitive")
	}
	ctx.Res.Dist(fmt.Sprintf("decl.compiles=%d", len(c.Compiles)))
	c20DLaterDist(ctx, c, m)
	if compiled {
		ctx.Res.Dist("compiled")
	}
	ctx.Res.Sample(c)
	if strings.HasPrefix(c.Shape, "dupkind") {
		// one (predecessor, node) pair declared several times: an accepted Workflow is also run (c20_dup.go)
		c20DupRunCheck(ctx, c, m, obs)
	}
	if d != nil {
		ctx.Res.Disagree(vh.Disagreement{Signature: d.sig, What: d.what, Case: c, Model: m, Impl: obs})
	}
	return nil
}

// ---- generator ----

var c20DBasic = []string{"c0", "c0", "c0", "c1", "c2", "c3", "i0", "any"}

func c20DCopts(r *vh.Rand, wf bool) *c20Op {
	o := &c20Op{Op: "compile"}
	switch x := r.Intn(100); {
	case x < 68:
	case x < 88:
		o.MaxSteps = r.Range(1, 12)
	case x < 95:
		o.Mode = c20Pick(r, []string{"any", "all"})
	default:
		o.Mode = c20Pick(r, []string{"any", "all"})
		o.MaxSteps = r.Range(1, 12)
	}
	return o
}

func c20DInKind(r *vh.Rand, plan string) string {
	switch plan {
	case "indirect":
		return "indirect"
	case "dep":
		return "dep"
	}
	switch x := r.Intn(100); {
	case x < 62:
		return "input"
	case x < 88:
		return "indirect"
	}
	return "dep"
}

// c20DGenWf: a Workflow declaration.  entry / exit plans decide how START and END are connected:
//
//	normal    at least one AddInput
//	indirect  only WithNoDirectDependency inputs (no entry / exit edge)
//	dep       only AddDependency (a control edge without data)
//	branch    only as the end node of / start of a branch
//	none      not connected at all
func c20DGenWf(r *vh.Rand, depth int, inT, outT string) *c20Decl {
	d := &c20Decl{API: "workflow", InT: inT, OutT: outT}
	plan := func() string {
		if r.Chance(map[int]int{0: 58, 1: 78, 2: 85}[depth]) {
			return "normal"
		}
		return c20Pick(r, []string{"indirect", "indirect", "indirect", "dep", "dep", "branch", "none"})
	}
	entry, exit := plan(), plan()
	n := r.Range(1, 3)
	names := []string{"a", "b", "c"}
	cur, prev := inT, "start"
	outs := map[string]string{"start": inT}
	isPT := map[string]bool{} // a pass-through node's type is whatever inference gives it: no field mappings from it
	for i := 0; i < n; i++ {
		nd := c20DNode{Key: names[i]}
		// the data source: the previous node (or START), sometimes an earlier one
		src := prev
		if i > 0 && r.Chance(20) {
			src = c20Pick(r, append([]string{"start"}, names[:i]...))
		}
		from := outs[src]
		if from == "" {
			from = cur
		}
		in := from
		if !r.Chance(96) {
			in = c20Pick(r, c20DBasic)
		} else if r.Chance(20) {
			in = c20CompatibleIn(r, from)
		}
		out := c20Pick(r, c20DBasic)
		if i == n-1 && outT != "" && r.Chance(92) {
			out = outT
		}
		switch {
		case depth < 2 && r.Chance(22):
			if r.Chance(75) {
				nd.Sub = c20DGenWf(r, depth+1, in, out)
			} else {
				nd.Sub = c20DGenGraph(r, depth+1, in, out)
			}
			if r.Chance(55) {
				nd.SubOpts = c20DCopts(r, nd.Sub.API == "workflow")
			}
		case r.Chance(10):
			nd.PT = true
			out = from
		default:
			nd.In, nd.Out, nd.Dyn = in, out, c20DynFor(r, out)
		}
		if i == 0 && entry == "none" && n > 1 {
			src = "" // first node takes nothing
		}
		kind := c20DInKind(r, "")
		if src == "start" {
			switch entry {
			case "indirect", "branch", "none":
				kind = "indirect"
			case "dep":
				kind = "dep"
			case "normal":
				if i == 0 {
					kind = "input"
				}
			}
		}
		if src != "" {
			in1 := c20WfIn{From: src, Kind: kind}
			if kind != "dep" && from == "c2" && in == "c2" && nd.Sub == nil && !nd.PT && !isPT[src] && r.Chance(50) {
				in1.Mapped = true
			}
			nd.Ins = append(nd.Ins, in1)
		}
		// extra control dependencies
		if r.Chance(25) {
			dfrom := c20Pick(r, append([]string{"start"}, names[:i]...))
			dupCtl := dfrom == src && kind != "indirect" && !r.Chance(10)
			if !dupCtl && (dfrom != "start" || entry == "normal" || entry == "dep") {
				nd.Ins = append(nd.Ins, c20WfIn{From: dfrom, Kind: "dep"})
			}
		}
		if r.Chance(2) {
			nd.Ins = append(nd.Ins, c20WfIn{From: "ghost", Kind: "dep"})
		}
		if r.Chance(3) && i > 0 {
			nd.Key = c20Pick(r, []string{"start", "end", names[0]})
		}
		d.Nodes = append(d.Nodes, nd)
		outs[nd.Key] = out
		isPT[nd.Key] = nd.PT
		cur, prev = out, nd.Key
	}
	if outT == "" {
		if r.Chance(95) {
			d.OutT = c20CompatibleIn(r, cur)
		} else {
			d.OutT = c20Pick(r, c20DBasic)
		}
	}
	// END
	switch exit {
	case "none", "branch":
		if exit == "branch" || r.Bool() {
			if r.Chance(60) {
				d.EndIn = []c20WfIn{{From: prev, Kind: "indirect"}}
			}
		}
	case "indirect":
		d.EndIn = []c20WfIn{{From: prev, Kind: "indirect"}}
	case "dep":
		d.EndIn = []c20WfIn{{From: prev, Kind: "dep"}}
		if r.Chance(50) {
			d.EndIn = append(d.EndIn, c20WfIn{From: c20Pick(r, names[:n]), Kind: "indirect"})
		}
	default:
		d.EndIn = []c20WfIn{{From: prev, Kind: "input", Mapped: cur == "c2" && d.OutT == "c2" && !isPT[prev] && r.Chance(40)}}
		if n > 1 && r.Chance(25) {
			d.EndIn = append(d.EndIn, c20WfIn{From: names[0], Kind: "dep"})
		}
	}
	// branches
	pickEnds := func(must string) []string {
		pool := append([]string{"end"}, names[:n]...)
		ends := map[string]bool{}
		if must != "" {
			ends[must] = true
		}
		for len(ends) < 2 && len(ends) < len(pool) {
			ends[c20Pick(r, pool)] = true
		}
		var out []string
		for e := range ends {
			out = append(out, e)
		}
		sort.Strings(out)
		return out
	}
	addBranch := func(src string, ends []string) {
		t := outs[src]
		if t == "" {
			t = "c0"
		}
		d.Branches = append(d.Branches, c20Op{Op: "branch", S: src, T: t, Ends: ends, Pick: ends[0]})
	}
	if entry == "branch" {
		addBranch("start", pickEnds(names[0]))
	}
	if exit == "branch" {
		addBranch(c20Pick(r, names[:n]), pickEnds("end"))
	}
	if r.Chance(15) {
		src := c20Pick(r, append([]string{"start"}, names[:n]...))
		ends := pickEnds("")
		switch x := r.Intn(100); {
		case x < 18:
			ends = c20SortedCopy(append(ends[:1], "ghost")) // an end node nobody declared
		case x < 30:
			ends = ends[:1] // single target
		}
		addBranch(src, ends)
	}
	return d
}

// c20DGenGraph: a Graph-API declaration: a spine START -> n1 -> … -> END, some nodes being graphs
func c20DGenGraph(r *vh.Rand, depth int, inT, outT string) *c20Decl {
	d := &c20Decl{API: "graph", InT: inT, OutT: outT}
	n := r.Range(1, 3)
	names := []string{"p", "q", "s"}
	cur, prev := inT, "start"
	add := func(o c20DOp) { d.Ops = append(d.Ops, o) }
	for i := 0; i < n; i++ {
		key := names[i]
		in := cur
		if !r.Chance(92) {
			in = c20Pick(r, c20DBasic)
		}
		out := c20Pick(r, c20DBasic)
		if i == n-1 && outT != "" && r.Chance(92) {
			out = outT
		}
		if depth < 2 && r.Chance(map[int]int{0: 60, 1: 20}[depth]) {
			var sub *c20Decl
			if r.Chance(80) {
				sub = c20DGenWf(r, depth+1, in, out)
			} else {
				sub = c20DGenGraph(r, depth+1, in, out)
			}
			o := c20DOp{c20Op: c20Op{Op: "sub", Key: key}, Sub: sub}
			if r.Chance(55) {
				o.SubOpts = c20DCopts(r, sub.API == "workflow")
			}
			add(o)
		} else {
			add(c20DOp{c20Op: c20Op{Op: "node", Key: key, In: in, Out: out, Dyn: c20DynFor(r, out)}})
		}
		if !(i == 0 && r.Chance(6)) { // sometimes no entry edge
			add(c20DOp{c20Op: c20Op{Op: "edge", S: prev, E: key}})
		}
		cur, prev = out, key
	}
	if outT == "" {
		if r.Chance(95) {
			d.OutT = c20CompatibleIn(r, cur)
		} else {
			d.OutT = c20Pick(r, c20DBasic)
		}
	}
	if !r.Chance(6) { // sometimes no exit edge
		add(c20DOp{c20Op: c20Op{Op: "edge", S: prev, E: "end"}})
	}
	if n >= 2 && r.Chance(15) {
		add(c20DOp{c20Op: c20Op{Op: "branch", S: names[0], T: c20DOutOf(d, names[0]), Ends: c20SortedCopy([]string{names[1], "end"}), Pick: "end"}})
	}
	return d
}

func c20DOutOf(d *c20Decl, key string) string {
	for _, o := range d.Ops {
		if o.Key == key {
			if o.Sub != nil {
				return o.Sub.OutT
			}
			return o.Out
		}
	}
	return d.InT
}

func c20DGen(r *vh.Rand) *c20DCase {
	c := &c20DCase{Stream: "decl", Impl: c20Impl()}
	inT := c20Pick(r, c20DBasic)
	if r.Chance(70) {
		c.Decl = c20DGenWf(r, 0, inT, "")
	} else {
		c.Decl = c20DGenGraph(r, 0, inT, "")
	}
	first := *c20DCopts(r, c.Decl.API == "workflow")
	c.Compiles = []c20Op{first}
	for k := r.Intn(3); k > 0; k-- {
		if r.Chance(60) {
			c.Compiles = append(c.Compiles, first)
		} else {
			c.Compiles = append(c.Compiles, *c20DCopts(r, c.Decl.API == "workflow"))
		}
	}
	return c
}

// c20DFixed: hand-written declarations run first on every seed
func c20DFixed() []*c20DCase {
	lam := func(key string, ins ...c20WfIn) c20DNode {
		return c20DNode{Key: key, In: "c0", Out: "c0", Dyn: "c0", Ins: ins}
	}
	wf := func(nodes []c20DNode, endIn []c20WfIn, br ...c20Op) *c20Decl {
		return &c20Decl{API: "workflow", InT: "c0", OutT: "c0", Nodes: nodes, EndIn: endIn, Branches: br}
	}
	in := func(from, kind string) c20WfIn { return c20WfIn{From: from, Kind: kind} }
	three := []c20Op{{Op: "compile"}, {Op: "compile"}, {Op: "compile"}}
	okWf := func() *c20Decl {
		return wf([]c20DNode{lam("a", in("start", "input"))}, []c20WfIn{in("a", "input")})
	}
	noEntry := func() *c20Decl {
		return wf([]c20DNode{lam("a", in("start", "indirect"))}, []c20WfIn{in("a", "input")})
	}
	graphWith := func(sub *c20Decl, so *c20Op) *c20Decl {
		return &c20Decl{API: "graph", InT: "c0", OutT: "c0", Ops: []c20DOp{
			{c20Op: c20Op{Op: "sub", Key: "w"}, Sub: sub, SubOpts: so},
			{c20Op: c20Op{Op: "edge", S: "start", E: "w"}}, {c20Op: c20Op{Op: "edge", S: "w", E: "end"}}}}
	}
	mk := func(shape string, d *c20Decl, comps []c20Op) *c20DCase {
		return &c20DCase{Stream: "decl", Impl: c20Impl(), Decl: d, Compiles: comps, Shape: "fixed:" + shape}
	}
	return []*c20DCase{
		mk("data-only-entry", noEntry(), three),
		mk("data-only-exit", wf([]c20DNode{lam("a", in("start", "input"))}, []c20WfIn{in("a", "indirect")}), three),
		mk("data-only-entry-nested", graphWith(noEntry(), nil), three),
		mk("data-only-entry-beside-entry", wf([]c20DNode{lam("a", in("start", "indirect")), lam("b", in("start", "input"), in("a", "dep"))},
			[]c20WfIn{in("b", "input")}), three),
		mk("dependency-only-entry", wf([]c20DNode{lam("a", in("start", "dep"), in("start", "indirect"))}, []c20WfIn{in("a", "input")}), three),
		mk("wf-max-steps", okWf(), []c20Op{{Op: "compile", MaxSteps: 5}, {Op: "compile", MaxSteps: 5}, {Op: "compile"}}),
		mk("wf-max-steps-nested", graphWith(okWf(), &c20Op{Op: "compile", MaxSteps: 7}), three),
		mk("wf-max-steps-nested-in-wf", wf([]c20DNode{{Key: "w", Sub: okWf(), SubOpts: &c20Op{Op: "compile", MaxSteps: 7}, Ins: []c20WfIn{in("start", "input")}}},
			[]c20WfIn{in("w", "input")}), three),
		mk("wf-trigger-mode-nested", graphWith(okWf(), &c20Op{Op: "compile", Mode: "all"}), three),
		mk("branch-only-entry", wf([]c20DNode{lam("a", in("start", "indirect")), lam("b", in("start", "indirect"))}, []c20WfIn{in("a", "input")},
			c20Op{Op: "branch", S: "start", T: "c0", Ends: []string{"a", "b"}, Pick: "a"}), three),
		mk("pass-through-typed-by-first-edge", &c20Decl{API: "workflow", InT: "c1", OutT: "c2",
			Nodes: []c20DNode{{Key: "a", PT: true, Ins: []c20WfIn{in("start", "input")}},
				{Key: "b", In: "any", Out: "c0", Dyn: "c0", Ins: []c20WfIn{in("a", "input")}}},
			EndIn: []c20WfIn{in("b", "dep"), in("a", "indirect")}}, three),
		mk("branch-end-undeclared", wf([]c20DNode{lam("a", in("start", "input"))}, []c20WfIn{in("a", "input")},
			c20Op{Op: "branch", S: "a", T: "c0", Ends: []string{"end", "ghost"}, Pick: "end"}), three),
	}
}
