//go:build verif && (vh_all || vh_c13)

package props

import (
	"context"
	"encoding/json"
	"errors"
	"fmt"
	"io"
	"strings"
	"sync"
	"time"

	"github.com/cloudwego/eino/components/tool"
	"github.com/cloudwego/eino/compose"
	"github.com/cloudwego/eino/schema"
	"github.com/cloudwego/eino/verifharness/vh"
)

func init() { vh.Register("C13", runC13) }

// ---- case language ----

type c13Err struct {
	K  string  `json:"k"` // leaf | wrapf | panic
	ID int     `json:"id,omitempty"`
	E  *c13Err `json:"e,omitempty"`
}

type c13Level struct {
	Key      string `json:"key"`
	Adaptors []int  `json:"adaptors,omitempty"`
}

type c13Case struct {
	// what the oracle reads
	Levels     []c13Level `json:"levels"` // outermost first
	Err        c13Err     `json:"err"`
	GraphLevel bool       `json:"graphLevel"`
	Target     int        `json:"target"`
	// how the implementation side builds it
	Kind       string   `json:"kind"`             // node | post | maxsteps | cancel | fwdpanic
	LambdaKind string   `json:"lambdaKind"`       // i|s|c|t  (native paradigm of the failing lambda)
	Paradigm   string   `json:"paradigm"`         // invoke|stream|collect|transform
	Mode       []string `json:"mode"`             // per graph level: pregel|dag
	Siblings   int      `json:"siblings"`         // parallel siblings next to the failing node
	CoFail     int      `json:"coFail,omitempty"` // the first CoFail siblings fail too, in the same step, with the same error value
	AsCustom   bool     `json:"asCustom"`         // leaf is a custom error type matched with errors.As
	// the panic families (c13_panic.go); kind = statepanic | streampanic
	Builder    string     `json:"builder,omitempty"`    // statepanic: the innermost graph is a graph | chain (Parallel) | workflow
	Site       string     `json:"site,omitempty"`       // statepanic: where the node fails: ps (inside the ProcessState handler) | ps-after (second ProcessState call) | body-after-ps | body
	PanicVal   string     `json:"panicVal,omitempty"`   // string | error | runtime (nil-map write)
	SibUse     []string   `json:"sibUse,omitempty"`     // statepanic, per sibling: how it uses the state: none | ps | ps2 | post | pre
	StateLevel int        `json:"stateLevel,omitempty"` // statepanic: the level whose graph owns the state
	SrcKind    string     `json:"srcKind,omitempty"`    // streampanic: the node before the failing one: s | t (channel-backed stream) | i (control)
	CloseStyle string     `json:"closeStyle,omitempty"` // streampanic: how a stream-consuming body treats its input: defer | early | drain | none
	PipeInput  bool       `json:"pipeInput,omitempty"`  // collect/transform: the caller's input stream is channel-backed
	PreStream  bool       `json:"preStream,omitempty"`  // enclosing levels: `pre` streams
	Events     []c13Event `json:"events,omitempty"`     // what the oracle's step model reads
	Order      []string   `json:"order,omitempty"`
	// family ctxend (c13_ctxfwd.go): the context of the run ends
	CtxHow  string     `json:"ctxHow,omitempty"`  // implementation side: cancel | cancelcause | deadline-past | timeoutcause | timeout | manual-canceled | manual-deadline | manual-custom
	CtxEnd  *c13CtxEnd `json:"ctxEnd,omitempty"`  // oracle side: what ctx.Err() is once Done() is closed
	EndAt   int        `json:"endAt,omitempty"`   // the graph level (0 = outermost) whose loop is between two steps when the context ends
	EndWhen string     `json:"endWhen,omitempty"` // start (already done when the run is called; EndAt = 0) | node (a node of that level ends it and returns normally)
	CtxWrap string     `json:"ctxWrap,omitempty"` // what the caller hands to the run: none (the context itself) | value | cancel (a child derived from it)
	Targets []int      `json:"targets,omitempty"` // errors.Is is compared for every one of these
	// family fwdtree (c13_ctxfwd.go): a reader expression drained by a consumer
	Tree *c13Tree `json:"tree,omitempty"`
	// family obsnode (c13_obs.go): somebody reads the error on its way out
	Via     []string `json:"via,omitempty"`     // per level i < last: how the graph of level i+1 sits in node keyᵢ: graph | lambda | lambda-read | lambda-rewrap | lambda-cb | tool
	Observe string   `json:"observe,omitempty"` // none | cb (an OnError handler that reads err.Error(), given to the caller's run with WithCallbacks)
	Hops    []c13Hop `json:"hops,omitempty"`    // oracle side: what happens to the error, innermost first
	obs     *c13Observer
	// family drainfail (c13_drain.go): an interrupt and a node failure meet in an eager (Workflow) run
	IntKind string         `json:"intKind,omitempty"` // what puts the loop at an interrupt point when it takes node intr: after | before | rerun | nested
	Sibs    []c13Sib       `json:"sibs,omitempty"`    // the nodes running next to intr
	Drain   []c13DrainTask `json:"drain,omitempty"`   // oracle side: the tasks in (nominal) completion order
	dr      *c13DrainSync
}

type c13Obs struct {
	Is        bool     `json:"is"`
	Path      []string `json:"path"`
	Interrupt bool     `json:"interrupt"`
	Text      string   `json:"text,omitempty"` // start of the error message (panic families)
	TextPath  []string `json:"textPath"`       // the node path the TEXT of the error names (`node path: [a, b]`), what a caller can read
	IsT       []bool   `json:"isT,omitempty"`  // ctxend: errors.Is per target
	// fwdtree: what the consumer received (sorted), how the reader ended
	End      string `json:"end,omitempty"` // eof | caller-panic | endless
	PanicVal *int   `json:"panicVal,omitempty"`
	Items    []int  `json:"items,omitempty"`
	Errs     []int  `json:"errs,omitempty"`
	PErrs    []int  `json:"perrs,omitempty"`
	Other    string `json:"other,omitempty"` // an error item that is neither
}

// ---- error values ----

type c13Custom struct{ id int }

func (c *c13Custom) Error() string { return fmt.Sprintf("custom-%d", c.id) }

var c13Leaves = map[int]error{}
var c13LeavesMu sync.Mutex // co-failing nodes build their errors concurrently

func c13Leaf(id int, custom bool) error {
	c13LeavesMu.Lock()
	defer c13LeavesMu.Unlock()
	if id == 1000 {
		return compose.ErrExceedMaxSteps
	}
	if id == 1001 {
		return context.Canceled
	}
	if id == 1002 {
		return context.DeadlineExceeded
	}
	k := id*2 + map[bool]int{false: 0, true: 1}[custom]
	if e, ok := c13Leaves[k]; ok {
		return e
	}
	var e error
	if custom {
		e = &c13Custom{id: id}
	} else {
		e = errors.New(fmt.Sprintf("leaf-%d", id))
	}
	c13Leaves[k] = e
	return e
}

func c13Build(e c13Err, custom bool) error {
	switch e.K {
	case "leaf":
		return c13Leaf(e.ID, custom)
	case "wrapf":
		return fmt.Errorf("user wrap: %w", c13Build(*e.E, custom))
	}
	return nil
}

// ---- building the graph ----

func c13FailingLambda(c *c13Case) *compose.Lambda {
	fail := func() error {
		if c.Err.K == "panic" {
			panic(fmt.Sprintf("boom-%d", c.Err.ID))
		}
		return c13Build(c.Err, c.AsCustom)
	}
	switch c.LambdaKind {
	case "s":
		return compose.StreamableLambda(func(ctx context.Context, in string) (*schema.StreamReader[string], error) {
			return nil, fail()
		})
	case "c":
		return compose.CollectableLambda(func(ctx context.Context, in *schema.StreamReader[string]) (string, error) {
			in.Close()
			return "", fail()
		})
	case "t":
		return compose.TransformableLambda(func(ctx context.Context, in *schema.StreamReader[string]) (*schema.StreamReader[string], error) {
			in.Close()
			return nil, fail()
		})
	}
	return compose.InvokableLambda(func(ctx context.Context, in string) (string, error) {
		return "", fail()
	})
}

func c13Tag(t string) *compose.Lambda {
	return compose.InvokableLambda(func(ctx context.Context, in string) (string, error) { return in + t, nil })
}

// level i graph: START -> pre -> [keyᵢ (+ siblings)] -> END ; keyᵢ is the next graph, or the
// failing node at the innermost level.
//
// endCtx is what the node that ends the context of the run does (kinds cancel, ctxend); it gets
// the node's own context.
func c13Graph(c *c13Case, lvl int, endCtx func(context.Context)) (*compose.Graph[string, string], []compose.GraphCompileOption, error) {
	dag := lvl < len(c.Mode) && c.Mode[lvl] == "dag" && !(lvl == len(c.Levels) && c.Kind == "maxsteps")
	g := compose.NewGraph[string, string]()
	opts := []compose.GraphCompileOption{}
	if dag {
		opts = append(opts, compose.WithNodeTriggerMode(compose.AllPredecessor))
	}
	ender := compose.InvokableLambda(func(ctx context.Context, in string) (string, error) {
		endCtx(ctx)
		return in, nil
	})
	pre := c13Tag("p")
	if c.Kind == "ctxend" && c.EndWhen == "node" && lvl == c.EndAt && lvl < len(c.Levels) {
		pre = ender // the context ends while this level is between `pre` and its sub-graph node
	}
	if err := g.AddLambdaNode("pre", pre); err != nil {
		return nil, nil, err
	}
	if err := g.AddEdge(compose.START, "pre"); err != nil {
		return nil, nil, err
	}
	last := lvl == len(c.Levels)-1
	switch {
	case lvl == len(c.Levels): // the graph in which a graph-level failure is raised
		switch c.Kind {
		case "maxsteps":
			// pre -> a -> b -> a ... never reaches END within the limit
			g.AddLambdaNode("a", c13Tag("a"))
			g.AddLambdaNode("b", c13Tag("b"))
			g.AddEdge("pre", "a")
			g.AddEdge("a", "b")
			g.AddBranch("b", compose.NewGraphBranch(func(ctx context.Context, in string) (string, error) {
				if len(in) > 100000 {
					return compose.END, nil
				}
				return "a", nil
			}, map[string]bool{"a": true, compose.END: true}))
			opts = append(opts, compose.WithMaxRunSteps(3+c.Siblings))
		case "cancel", "ctxend":
			if c.Kind == "ctxend" && !(c.EndWhen == "node" && c.EndAt == lvl) {
				g.AddLambdaNode("c", c13Tag("c"))
			} else {
				g.AddLambdaNode("c", ender)
			}
			g.AddLambdaNode("after", c13Tag("x"))
			g.AddEdge("pre", "c")
			g.AddEdge("c", "after")
			g.AddEdge("after", compose.END)
		}
		return g, opts, nil
	case last && !c.GraphLevel:
		key := c.Levels[lvl].Key
		if c.Kind == "post" {
			// failing state post-handler of an otherwise healthy node
			g = compose.NewGraph[string, string](compose.WithGenLocalState(func(ctx context.Context) *int { v := 0; return &v }))
			g.AddLambdaNode("pre", c13Tag("p"))
			g.AddEdge(compose.START, "pre")
			g.AddLambdaNode(key, c13Tag("k"), compose.WithStatePostHandler(func(ctx context.Context, out string, s *int) (string, error) {
				if c.Err.K == "panic" {
					panic("post-boom")
				}
				return "", c13Build(c.Err, c.AsCustom)
			}))
		} else {
			g.AddLambdaNode(key, c13FailingLambda(c))
		}
		g.AddEdge("pre", key)
		if dag || c.Siblings == 0 {
			g.AddEdge(key, compose.END)
		} else {
			// pregel fan-in needs a map merge; keep it simple: only the failing node feeds END
			g.AddEdge(key, compose.END)
		}
		for i := 0; i < c.Siblings; i++ {
			sk := fmt.Sprintf("sib%d", i)
			if i < c.CoFail && c.Kind == "node" {
				// several nodes of one step fail: whichever is reported, it must be unwrappable and named
				g.AddLambdaNode(sk, c13FailingLambda(c))
			} else {
				g.AddLambdaNode(sk, c13Tag("s"))
			}
			g.AddEdge("pre", sk)
			// siblings end in a sink that never reaches END (pregel) / join a no-data sink
			if dag {
				g.AddLambdaNode(sk+"sink", compose.InvokableLambda(func(ctx context.Context, in string) (map[string]any, error) {
					return map[string]any{}, nil
				}))
				g.AddEdge(sk, sk+"sink")
			}
		}
		return g, opts, nil
	default:
		key := c.Levels[lvl].Key
		sub, subOpts, err := c13Graph(c, lvl+1, endCtx)
		if err != nil {
			return nil, nil, err
		}
		if err := g.AddGraphNode(key, sub, compose.WithGraphCompileOptions(subOpts...)); err != nil {
			return nil, nil, err
		}
		g.AddEdge("pre", key)
		g.AddEdge(key, compose.END)
		return g, opts, nil
	}
}

func c13RunImpl(c *c13Case) (obs *c13Obs, class string) {
	if c.Kind == "fwdtree" {
		return c13FwdRun(c)
	}
	ctx, cancel := context.WithCancel(context.Background())
	defer cancel()
	runCtx := ctx
	var ender *c13CtxEnder // family ctxend: made after Compile, right before the run
	var r compose.Runnable[string, string]
	if c13IsPanicFamily(c.Kind) {
		var err error
		if r, err = c13PCompile(ctx, c, newC13Sync()); err != nil {
			return nil, "compile-error:" + err.Error()
		}
	} else if c.Kind == "obsnode" {
		var err error
		if r, err = c13ObsCompile(ctx, c); err != nil {
			return nil, "compile-error:" + err.Error()
		}
	} else if c.Kind == "drainfail" {
		var err error
		if r, err = c13DrainCompile(ctx, c); err != nil {
			return nil, "compile-error:" + err.Error()
		}
	} else {
		g, opts, err := c13Graph(c, 0, func(nodeCtx context.Context) {
			if ender != nil {
				ender.endFromNode(nodeCtx)
			} else {
				cancel()
			}
		})
		if err != nil {
			return nil, "build-error:" + err.Error()
		}
		r, err = g.Compile(ctx, opts...)
		if err != nil {
			return nil, "compile-error:" + err.Error()
		}
		if c.Kind == "ctxend" {
			ender = newC13CtxEnder(c)
			defer ender.release()
			runCtx = ender.beforeRun()
		}
	}
	var runErr error
	finished := false
	if panicked, pv := vh.Safely(func() { finished = c13Call(runCtx, c, r, &runErr) }); panicked {
		return nil, fmt.Sprint("panic-escaped:", pv)
	}
	if !finished {
		return nil, "hang"
	}
	if ender != nil && !ender.valid() {
		return nil, "void" // a real timer fired before the run reached the node that waits for it: nothing to compare
	}
	if runErr == nil {
		return nil, "no-error"
	}
	o := &c13Obs{Path: []string{}, TextPath: c13TextPath(runErr.Error())}
	target := c13Leaf(c.Target, c.AsCustom)
	if c.AsCustom && c.Target < 1000 {
		var ce *c13Custom
		o.Is = errors.As(runErr, &ce) && ce == target
	} else {
		o.Is = errors.Is(runErr, target)
	}
	for _, t := range c.Targets {
		o.IsT = append(o.IsT, errors.Is(runErr, c13Leaf(t, false)))
	}
	if p, ok := compose.VerifErrNodePath(runErr); ok {
		o.Path = append(o.Path, p...)
	}
	_, o.Interrupt = compose.ExtractInterruptInfo(runErr)
	if c13IsPanicFamily(c.Kind) || c.Kind == "drainfail" {
		if o.Text = runErr.Error(); len(o.Text) > 240 {
			o.Text = o.Text[:240]
		}
	}
	return o, "error"
}

func c13Call(ctx context.Context, c *c13Case, r compose.Runnable[string, string], out *error) bool {
	var runErr error
	defer func() { *out = runErr }()
	limit := 20 * time.Second
	if c13IsPanicFamily(c.Kind) {
		limit = 10 * time.Second
	}
	input := func() *schema.StreamReader[string] {
		if c.PipeInput {
			return c13PipeOf("x", "y")
		}
		return schema.StreamReaderFromArray([]string{"x", "y"})
	}
	opts := c13CallOpts(c)
	return vh.WithTimeout(limit, func() {
		switch c.Paradigm {
		case "stream":
			var sr *schema.StreamReader[string]
			sr, runErr = r.Stream(ctx, "x", opts...)
			if runErr == nil {
				runErr = c13Drain(sr)
			}
		case "collect":
			_, runErr = r.Collect(ctx, input(), opts...)
		case "transform":
			var sr *schema.StreamReader[string]
			sr, runErr = r.Transform(ctx, input(), opts...)
			if runErr == nil {
				runErr = c13Drain(sr)
			}
		default:
			_, runErr = r.Invoke(ctx, "x", opts...)
		}
	})
}

func c13Drain(sr *schema.StreamReader[string]) error {
	defer sr.Close()
	for {
		_, err := sr.Recv()
		if err == io.EOF {
			return nil
		}
		if err != nil {
			return err
		}
	}
}

// forwarder panic: a converted reader merged with another one is pumped by a framework
// goroutine (schema/stream.go toStream); a panic in the convert function must arrive as an
// error item, then the stream ends.
func c13ForwarderPanic(n int) (class string) {
	defer func() {
		if r := recover(); r != nil {
			class = "panic-escaped"
		}
	}()
	var srs []*schema.StreamReader[string]
	for i := 0; i < n; i++ {
		base := schema.StreamReaderFromArray([]int{1, 2, 3})
		pi := i
		srs = append(srs, schema.StreamReaderWithConvert(base, func(v int) (string, error) {
			if pi == 0 && v == 2 {
				panic("convert-boom")
			}
			return fmt.Sprint(v), nil
		}))
	}
	srs = append(srs, schema.StreamReaderFromArray([]string{"z"}))
	m := schema.MergeStreamReaders(srs)
	defer m.Close()
	sawErr := false
	done := vh.WithTimeout(10*time.Second, func() {
		for {
			_, err := m.Recv()
			if err == io.EOF {
				return
			}
			if err != nil {
				if strings.Contains(err.Error(), "convert-boom") {
					sawErr = true
				}
			}
		}
	})
	if !done {
		return "hang"
	}
	if !sawErr {
		return "swallowed"
	}
	return "error-item"
}

// tool panic: a ToolsNode with several calls, one of which panics; the run must return an
// error in every paradigm (the panicking call may run on a framework goroutine: if it is not
// recovered there the whole process dies, which the check reports as a crash on this case).
type c13Tool struct {
	name  string
	panic bool
}

func (t *c13Tool) Info(ctx context.Context) (*schema.ToolInfo, error) {
	return &schema.ToolInfo{Name: t.name, Desc: "c13 tool"}, nil
}

func (t *c13Tool) InvokableRun(ctx context.Context, args string, opts ...tool.Option) (string, error) {
	if t.panic {
		panic("tool-boom-" + t.name)
	}
	return "ok:" + t.name + ":" + args, nil
}

func c13ToolPanic(c *c13Case) (class string) {
	n := c.Siblings + 2 // number of calls
	bad := c.Target % n // index of the panicking call
	var tools []tool.BaseTool
	var calls []schema.ToolCall
	for i := 0; i < n; i++ {
		name := fmt.Sprintf("t%d", i)
		tools = append(tools, &c13Tool{name: name, panic: i == bad})
		calls = append(calls, schema.ToolCall{ID: fmt.Sprintf("id%d", i), Function: schema.FunctionCall{Name: name, Arguments: "{}"}})
	}
	ctx := context.Background()
	tn, err := compose.NewToolNode(ctx, &compose.ToolsNodeConfig{Tools: tools})
	if err != nil {
		return "build-error:" + err.Error()
	}
	g := compose.NewGraph[string, []*schema.Message]()
	g.AddLambdaNode("ask", compose.InvokableLambda(func(ctx context.Context, in string) (*schema.Message, error) {
		return &schema.Message{Role: schema.Assistant, ToolCalls: calls}, nil
	}))
	g.AddToolsNode("tools", tn)
	g.AddEdge(compose.START, "ask")
	g.AddEdge("ask", "tools")
	g.AddEdge("tools", compose.END)
	r, err := g.Compile(ctx)
	if err != nil {
		return "compile-error:" + err.Error()
	}
	var runErr error
	drain := func(sr *schema.StreamReader[[]*schema.Message], err error) error {
		if err != nil {
			return err
		}
		defer sr.Close()
		for {
			_, e := sr.Recv()
			if e == io.EOF {
				return nil
			}
			if e != nil {
				return e
			}
		}
	}
	finished := false
	if panicked, pv := vh.Safely(func() {
		finished = vh.WithTimeout(20*time.Second, func() {
			switch c.Paradigm {
			case "stream":
				runErr = drain(r.Stream(ctx, "x"))
			case "collect":
				_, runErr = r.Collect(ctx, schema.StreamReaderFromArray([]string{"x", "y"}))
			case "transform":
				runErr = drain(r.Transform(ctx, schema.StreamReaderFromArray([]string{"x", "y"})))
			default:
				_, runErr = r.Invoke(ctx, "x")
			}
		})
	}); panicked {
		return fmt.Sprint("panic-escaped:", pv)
	}
	if !finished {
		return "hang"
	}
	if runErr == nil {
		return "swallowed"
	}
	if p, ok := compose.VerifErrNodePath(runErr); !ok || len(p) != 1 || p[0] != "tools" {
		return fmt.Sprintf("wrong-path:%v", p)
	}
	return "error"
}

// ---- generator ----

func c13Gen(r *vh.Rand) *c13Case {
	c := &c13Case{}
	depth := r.Range(1, 3)
	if r.Chance(10) {
		depth = 4
	}
	kinds := []string{"node", "node", "node", "post", "maxsteps", "cancel"}
	c.Kind = kinds[r.Intn(len(kinds))]
	c.LambdaKind = []string{"i", "s", "c", "t"}[r.Intn(4)]
	c.Paradigm = []string{"invoke", "stream", "collect", "transform"}[r.Intn(4)]
	c.Siblings = r.Intn(3)
	if c.Kind == "node" && c.Siblings > 0 && r.Chance(40) {
		c.CoFail = 1 + r.Intn(c.Siblings)
	}
	c.AsCustom = r.Chance(30)
	names := []string{"n", "sub", "g", "node_1", "x"}
	switch c.Kind {
	case "maxsteps", "cancel":
		c.GraphLevel = true
		nlev := depth - 1
		for i := 0; i < nlev; i++ {
			c.Levels = append(c.Levels, c13Level{Key: c13LevelKey(r, names, i)})
		}
		if c.Kind == "maxsteps" {
			c.Err = c13Err{K: "leaf", ID: 1000}
			c.Target = 1000
		} else {
			c.Err = c13Err{K: "wrapf", E: &c13Err{K: "leaf", ID: 1001}}
			c.Target = 1001
		}
		c.AsCustom = false
	default:
		for i := 0; i < depth; i++ {
			c.Levels = append(c.Levels, c13Level{Key: c13LevelKey(r, names, i)})
		}
		id := r.Range(1, 5)
		e := c13Err{K: "leaf", ID: id}
		for w := r.Intn(3); w > 0; w-- {
			inner := e
			e = c13Err{K: "wrapf", E: &inner}
		}
		if r.Chance(25) && c.Kind != "post" {
			// (a panicking state handler runs on the caller's goroutine and is outside the
			// property's list: node body, tool call, stream-forwarding goroutine)
			e = c13Err{K: "panic", ID: id}
		}
		c.Err = e
		c.Target = id
		if r.Chance(15) {
			c.Target = id + 7 // an error that is not in the chain: must not match
		}
	}
	for i := 0; i <= len(c.Levels); i++ {
		if r.Chance(35) {
			c.Mode = append(c.Mode, "dag")
		} else {
			c.Mode = append(c.Mode, "pregel")
		}
	}
	if c.Levels == nil {
		c.Levels = []c13Level{}
	}
	return c
}

// level keys: often the SAME key at adjacent nesting levels (keys are only unique per graph)
func c13LevelKey(r *vh.Rand, names []string, i int) string {
	if r.Chance(45) {
		return names[r.Intn(2)]
	}
	return fmt.Sprintf("%s%d", names[r.Intn(len(names))], i)
}

func c13Key(c *c13Case) string {
	return fmt.Sprintf("%s/%s/%s/%d/%s/%v/%d/%d", c.Kind, c.LambdaKind, c.Paradigm, len(c.Levels), c.Err.K, c.Mode, c.Siblings, c.CoFail)
}

func c13Sig(c *c13Case, what string) string {
	return fmt.Sprintf("C13:%s:kind=%s:err=%s", what, c.Kind, c.Err.K)
}

func c13One(ctx *vh.Ctx, c *c13Case) error {
	ctx.Progress.Mark(c)
	raw, err := ctx.Oracle.Ask("C13", c)
	if err != nil {
		return err
	}
	var model c13Obs
	if err := json.Unmarshal(raw, &model); err != nil {
		return err
	}
	impl, class := c13RunImpl(c)
	ctx.Res.Dist("kind=" + c.Kind)
	ctx.Res.Dist("paradigm=" + c.Paradigm)
	ctx.Res.Dist("err=" + c.Err.K)
	ctx.Res.Dist(fmt.Sprintf("depth=%d", len(c.Levels)))
	ctx.Res.Dist("class=" + class)
	ctx.Res.Count(c13Key(c), len(c.Levels) >= 1)
	ctx.Res.Sample(c)
	if class != "error" {
		ctx.Res.Disagree(vh.Disagreement{Signature: c13Sig(c, "class-"+strings.SplitN(class, ":", 2)[0]),
			What: "run did not return an error of the run: " + class, Case: c, Model: model})
		return nil
	}
	if model.Path == nil {
		model.Path = []string{}
	}
	if impl.Is != model.Is {
		ctx.Res.Disagree(vh.Disagreement{Signature: c13Sig(c, "errors.Is"),
			What: fmt.Sprintf("errors.Is/As(original) = %v on the implementation, %v in the model", impl.Is, model.Is), Case: c, Model: model, Impl: impl})
	}
	pathMatches := func(got, want []string) bool {
		ok := vh.CanonEq(got, want)
		if !ok && c.CoFail > 0 && len(want) > 0 && len(got) == len(want) {
			// any of the nodes that failed in that step may be the one reported (completion order decides)
			for i := 0; i < c.CoFail && !ok; i++ {
				alt := append(append([]string{}, want[:len(want)-1]...), fmt.Sprintf("sib%d", i))
				ok = vh.CanonEq(got, alt)
			}
		}
		return ok
	}
	pathOK := pathMatches(impl.Path, model.Path)
	if model.TextPath == nil {
		model.TextPath = []string{}
	}
	if !pathMatches(impl.TextPath, model.TextPath) || (pathOK && !vh.CanonEq(impl.TextPath, impl.Path)) {
		ctx.Res.Disagree(vh.Disagreement{Signature: c13Sig(c, "textPath"),
			What: fmt.Sprintf("the text of the returned error names the node path %v (the error's path field: %v), the model %v", impl.TextPath, impl.Path, model.TextPath), Case: c, Model: model, Impl: impl})
	}
	if c.CoFail > 0 {
		ctx.Res.Dist(fmt.Sprintf("co-failing=%d", c.CoFail))
	}
	if !pathOK {
		ctx.Res.Disagree(vh.Disagreement{Signature: c13Sig(c, "nodePath"),
			What: fmt.Sprintf("node path %v on the implementation, %v in the model", impl.Path, model.Path), Case: c, Model: model, Impl: impl})
	}
	if impl.Interrupt != model.Interrupt {
		ctx.Res.Disagree(vh.Disagreement{Signature: c13Sig(c, "interrupt"),
			What: "interrupt classification differs", Case: c, Model: model, Impl: impl})
	}
	return nil
}

func runC13(ctx *vh.Ctx) error {
	ctx.Res.Rule = "random failure scenarios: nesting depth 0-4, failing lambda kind x calling paradigm x trigger mode per level x error shape (leaf / %w chains / panic / post-handler / step limit / cancellation); non-trivial = at least one nesting level; distinct by (kind, lambda kind, paradigm, depth, error shape, modes, siblings); plus the panic families statepanic (graphs/chains/workflows with state: failing inside the ProcessState handler while siblings of the step use the state; non-trivial = at least one sibling) and streampanic (channel-backed stream inputs, close styles, several failing lanes, run in a child process), distinct by all their case fields; ctxend (the context of the run ends between two steps of a graph at any nesting level: cancel / cancel(cause) / expired deadline or timeout / a context type of the caller with Err() = DeadlineExceeded, Canceled or its own value; already done at the start or ended by a node that returns normally; handed to the run directly or as a WithValue / WithCancel child; errors.Is compared against Canceled, DeadlineExceeded, the custom value, the cause, ErrExceedMaxSteps; non-trivial = not a plain top-level cancellation; distinct by how/when/wrap/paradigm/level/modes) and fwdtree (reader expressions: StreamReaderWithConvert with a convert function that panics or fails on chosen values, Copy, MergeStreamReaders over array- and channel-backed sources, drained in a child process; non-trivial = a panic is raised on a forwarding goroutine; distinct by the expression); obsnode (2-4 nested levels, each sub-graph embedded as a graph node, through a lambda that runs the compiled graph and returns / reads / %w-wraps its error or passes a logging OnError handler to it, or through a ToolsNode whose tool runs the graph; optionally a logging OnError handler on the caller's run; the node path is compared as the TEXT of the returned error names it, next to the path field and errors.Is; non-trivial = somebody read the error before the last level; distinct by via/observe/paradigm/lambda kind/error shape/modes); drainfail (an eager Workflow, nested in 0-2 graphs: node intr puts the loop at an interrupt point — interrupt-after, interrupt-before on its successor, InterruptAndRerun, a nested graph that interrupts — while 1-3 siblings, each ok / failing / panicking, finish before intr (early) or only after the loop has taken intr (late: they are drained); the failure must win over the interrupt; non-trivial = a late sibling fails; distinct by interrupt kind/siblings/paradigm/error shape/depth); in every family the path named by the error text is compared too"
	if ctx.Replay != nil {
		var c c13Case
		if err := json.Unmarshal(ctx.Replay, &c); err != nil {
			return err
		}
		if c.Kind == "toolpanic" {
			if cl := c13ToolPanic(&c); cl != "error" {
				ctx.Res.Disagree(vh.Disagreement{Signature: "C13:tool-panic:" + strings.SplitN(cl, ":", 2)[0], What: "panic in a tool call: " + cl, Case: c})
			}
			return nil
		}
		if c.Kind == "fwdpanic" {
			if cl := c13ForwarderPanic(c.Siblings); cl != "error-item" {
				ctx.Res.Disagree(vh.Disagreement{Signature: "C13:forwarder-panic:" + cl, What: "panic in a stream-forwarding goroutine: " + cl, Case: c})
			}
			return nil
		}
		if c.Kind == "statepanic" {
			_, err := c13StateOne(ctx, &c)
			return err
		}
		if c.Kind == "streampanic" {
			_, err := c13StreamBatch(ctx, []*c13Case{&c})
			return err
		}
		if c.Kind == "ctxend" {
			return c13CtxOne(ctx, &c)
		}
		if c.Kind == "fwdtree" {
			_, err := c13FwdBatch(ctx, []*c13Case{&c})
			return err
		}
		if c.Kind == "obsnode" {
			return c13ObsOne(ctx, &c)
		}
		if c.Kind == "drainfail" {
			return c13DrainOne(ctx, &c)
		}
		return c13One(ctx, &c)
	}
	n := ctx.N(3000, 20000)
	for i := 0; i < n && ctx.TimeLeft(); i++ {
		c := c13Gen(ctx.Rng)
		if err := c13One(ctx, c); err != nil {
			return err
		}
	}
	if err := c13RunPanicFamilies(ctx); err != nil {
		return err
	}
	if err := c13RunCtxFwdFamilies(ctx); err != nil {
		return err
	}
	if err := c13RunObserved(ctx); err != nil {
		return err
	}
	if err := c13RunDrain(ctx); err != nil {
		return err
	}
	for _, par := range []string{"invoke", "stream", "collect", "transform"} {
		for calls := 0; calls < 3; calls++ {
			for bad := 0; bad < calls+2; bad++ {
				c := &c13Case{Kind: "toolpanic", Paradigm: par, Siblings: calls, Target: bad, Levels: []c13Level{}}
				ctx.Progress.Mark(c)
				cl := c13ToolPanic(c)
				ctx.Res.Dist("toolpanic=" + strings.SplitN(cl, ":", 2)[0])
				ctx.Res.Count(fmt.Sprintf("toolpanic/%s/%d/%d", par, calls, bad), true)
				if cl != "error" {
					ctx.Res.Disagree(vh.Disagreement{Signature: "C13:tool-panic:" + strings.SplitN(cl, ":", 2)[0], What: "panic in tool call " + fmt.Sprint(bad) + " of " + fmt.Sprint(calls+2) + " (" + par + "): " + cl, Case: c})
				}
			}
		}
	}
	for k := 1; k <= 6; k++ {
		c := &c13Case{Kind: "fwdpanic", Siblings: k, Levels: []c13Level{}}
		ctx.Progress.Mark(c)
		cl := c13ForwarderPanic(k)
		ctx.Res.Dist("fwdpanic=" + cl)
		ctx.Res.Count(fmt.Sprintf("fwdpanic/%d", k), true)
		if cl != "error-item" {
			ctx.Res.Disagree(vh.Disagreement{Signature: "C13:forwarder-panic:" + cl, What: "panic in a stream-forwarding goroutine: " + cl, Case: c})
		}
	}
	return nil
}
