//go:build verif && (vh_all || vh_c20)

package props

// C20, `decl` stream, family `dupkind`: one (predecessor, node) pair of a Workflow declared more
// than once, across the kinds of dependency the Workflow API has – AddInput (control + data),
// AddDependency (control only), AddInputWithOptions(…, WithNoDirectDependency()) (data only), the
// end node of a branch – in every order and at every position of the node's declarations.
// addEdgeWithMappings looks for the new edge among the control edges when it carries control and
// among the data edges when it carries data: two declarations of one pair are a duplicate exactly
// when they share a half (Model/C20Dup.lean `InKind.clash`); only AddDependency +
// WithNoDirectDependency (either order) is one well-formed control + data connection.  A branch
// records neither half.  All nodes are map[string]any lambdas and every input is MapFields("k", "k<n>")
// with its own n, so that the Workflow's own mapped-path check never answers first, and an
// accepted Workflow can be run: that acceptance was sound is only observable there (two data
// edges of one pair chain their field-mapping handlers on the one edge and every run fails).

import (
	"context"
	"fmt"
	"strings"

	"github.com/cloudwego/eino/verifharness/vh"
)

var c20DupKinds = []string{"input", "dep", "indirect"}

func c20DupHasBranch(d *c20Decl) bool { return len(d.Branches) > 0 }

// c20DupRunCheck: the first Compile of a dupkind declaration answered ok – declare it afresh,
// compile, Invoke twice.  A Workflow of this family that Compile accepts runs (every predecessor a
// node reads without control dependency has finished when the node is triggered).
func c20DupRunCheck(ctx *vh.Ctx, c *c20DCase, m *c20DModel, obs *c20DObs) {
	if len(obs.Out) == 0 || obs.Out[0] != "ok" || c.Decl.API != "workflow" || c20DupHasBranch(c.Decl) {
		return
	}
	var compile c20CompileFn
	if p, _ := vh.Safely(func() { _, compile = c20BuildDeclR(c.Decl, nil, nil) }); p {
		return
	}
	var run c20RunFn
	var err error
	if p, _ := vh.Safely(func() { run, err = compile(context.Background(), c20CompileOpts(&c.Compiles[0])...) }); p || err != nil || run == nil {
		return // reported by the comparison of the Compile answers
	}
	var cls [2]string
	var det [2]string
	for i := range cls {
		cls[i], det[i] = c20RunOnce(run, map[string]any{"k": "v"})
	}
	ctx.Res.Dist("dupkind.run=" + strings.SplitN(cls[0], ":", 2)[0])
	if strings.HasPrefix(cls[0], "ok") || strings.HasPrefix(cls[1], "ok") {
		return
	}
	aim := strings.TrimPrefix(c.Shape, "dupkind:")
	modelOK := len(m.Out) > 0 && m.Out[0] == "ok"
	impl := map[string]any{"compile": obs.Out, "runs": cls, "run_error": det[0]}
	if !modelOK {
		ctx.Res.Disagree(vh.Disagreement{
			Signature: "C20:duplicate-edge-accepted:workflow:" + aim + ":run=" + cls[0],
			What: fmt.Sprintf("a (predecessor, node) pair is declared twice (%s); the model says Compile refuses it (%s), Compile accepted it and every run of the runnable fails: %s",
				aim, c20DModelStr(m, 0), det[0]),
			Case: c, Model: m, Impl: impl})
		return
	}
	ctx.Res.Disagree(vh.Disagreement{
		Signature: "C20:accepted-workflow-cannot-run:" + aim + ":run=" + cls[0],
		What:      fmt.Sprintf("Compile accepted the Workflow (so does the model) but every run fails: %s", det[0]),
		Case:      c, Model: m, Impl: impl})
}

func c20DupNode(key string) c20DNode {
	return c20DNode{Key: key, In: "c5", Out: "c5", Dyn: "c5"}
}

// c20DupCase: a chain START -> a -> b … -> END of map-typed lambdas, every link an AddInput (the
// control spine: when a node is triggered every earlier node has finished).
func c20DupChain(n int, fid *int) *c20Decl {
	d := &c20Decl{API: "workflow", InT: "c5", OutT: "c5"}
	names := []string{"a", "b", "c"}
	prev := "start"
	next := func() int { *fid++; return *fid }
	for i := 0; i < n; i++ {
		nd := c20DupNode(names[i])
		nd.Ins = []c20WfIn{{From: prev, Kind: "input", Fid: next()}}
		d.Nodes = append(d.Nodes, nd)
		prev = names[i]
	}
	d.EndIn = []c20WfIn{{From: prev, Kind: "input", Fid: next()}}
	return d
}

// c20DupIns: the declarations of node `to` ("end" = END)
func c20DupIns(d *c20Decl, to string) *[]c20WfIn {
	if to == "end" {
		return &d.EndIn
	}
	for i := range d.Nodes {
		if d.Nodes[i].Key == to {
			return &d.Nodes[i].Ins
		}
	}
	return nil
}

func c20DupInsert(l *[]c20WfIn, at int, in c20WfIn) {
	if at > len(*l) {
		at = len(*l)
	}
	*l = append((*l)[:at], append([]c20WfIn{in}, (*l)[at:]...)...)
}

// c20DGenDup: the chain, plus one pair declared once, twice or three times.
//
//	base pair   the link prev -> to of the spine (an AddInput) and a second declaration of any kind,
//	            before or after it: always a duplicate
//	extra pair  from -> to with `from` upstream of to's spine predecessor (or START): every
//	            combination of kinds, both orders; AddDependency + WithNoDirectDependency is accepted
//	branch      the pair is (also) the end node of a branch of `from`
func c20DGenDup(r *vh.Rand) *c20DCase {
	fid := 0
	n := r.Range(1, 3)
	d := c20DupChain(n, &fid)
	next := func() int { fid++; return fid }
	keys := []string{"start"}
	for _, nd := range d.Nodes {
		keys = append(keys, nd.Key)
	}
	tos := append(append([]string{}, keys[1:]...), "end")
	c := &c20DCase{Stream: "decl", Impl: c20Impl(), Decl: d}
	for k := r.Range(1, 2); k > 0; k-- {
		c.Compiles = append(c.Compiles, c20Op{Op: "compile"})
	}
	ti := r.Intn(len(tos))
	to := tos[ti]
	ins := c20DupIns(d, to)
	mk := func(from, kind string) c20WfIn {
		in := c20WfIn{From: from, Kind: kind}
		if kind != "dep" {
			in.Fid = next()
		}
		return in
	}
	branch := func(from string) {
		// a branch of `from` whose end nodes are `to` and END (or, for to = END, the first node)
		other := "end"
		if to == "end" {
			other = d.Nodes[0].Key
		}
		d.Branches = append(d.Branches, c20Op{Op: "branch", S: from, T: "c5", Ends: c20SortedCopy([]string{to, other}), Pick: to})
	}
	switch x := r.Intn(100); {
	case x < 12: // no duplicate
		if ti > 0 && r.Chance(70) {
			c20DupInsert(ins, r.Intn(len(*ins)+1), mk(keys[r.Intn(ti)], c20Pick(r, c20DupKinds)))
		}
		c.Shape = "dupkind:none"
	case x < 40 || ti == 0: // the spine link again
		k2 := c20Pick(r, c20DupKinds)
		from := (*ins)[0].From
		if r.Chance(12) {
			branch(from)
			c.Shape = "dupkind:base:input+branch"
			break
		}
		if r.Bool() {
			c20DupInsert(ins, 1, mk(from, k2))
			c.Shape = "dupkind:base:input-then-" + k2
		} else {
			c20DupInsert(ins, 0, mk(from, k2))
			c.Shape = "dupkind:base:" + k2 + "-then-input"
		}
	default: // an extra pair from an upstream node, declared twice (sometimes three times)
		from := keys[r.Intn(ti)] // keys[ti] is to's spine predecessor
		k1, k2 := c20Pick(r, c20DupKinds), c20Pick(r, c20DupKinds)
		if r.Chance(12) {
			c20DupInsert(ins, r.Intn(len(*ins)+1), mk(from, k1))
			branch(from)
			c.Shape = "dupkind:extra:" + k1 + "+branch"
			break
		}
		p1 := r.Intn(len(*ins) + 1)
		c20DupInsert(ins, p1, mk(from, k1))
		p2 := p1 + 1 + r.Intn(len(*ins)-p1)
		c20DupInsert(ins, p2, mk(from, k2))
		c.Shape = "dupkind:extra:" + k1 + "-then-" + k2
		if r.Chance(12) {
			k3 := c20Pick(r, c20DupKinds)
			c20DupInsert(ins, len(*ins), mk(from, k3))
			c.Shape += "-then-" + k3
		}
	}
	return c
}

// c20DDupFixed: every combination of kinds on an extra pair START -> END and on the spine link,
// both orders (run first on every seed).
func c20DDupFixed() []*c20DCase {
	var out []*c20DCase
	mkCase := func(shape string, build func(d *c20Decl, next func() int)) {
		fid := 0
		d := c20DupChain(1, &fid)
		build(d, func() int { fid++; return fid })
		out = append(out, &c20DCase{Stream: "decl", Impl: c20Impl(), Decl: d, Shape: shape,
			Compiles: []c20Op{{Op: "compile"}, {Op: "compile"}}})
	}
	in := func(from, kind string, next func() int) c20WfIn {
		x := c20WfIn{From: from, Kind: kind}
		if kind != "dep" {
			x.Fid = next()
		}
		return x
	}
	for _, k1 := range c20DupKinds {
		for _, k2 := range c20DupKinds {
			k1, k2 := k1, k2
			mkCase("dupkind:extra:"+k1+"-then-"+k2, func(d *c20Decl, next func() int) {
				d.EndIn = append(d.EndIn, in("start", k1, next), in("start", k2, next))
			})
		}
	}
	for _, k2 := range c20DupKinds {
		k2 := k2
		mkCase("dupkind:base:input-then-"+k2, func(d *c20Decl, next func() int) {
			d.Nodes[0].Ins = append(d.Nodes[0].Ins, in("start", k2, next))
		})
		mkCase("dupkind:base:"+k2+"-then-input", func(d *c20Decl, next func() int) {
			d.Nodes[0].Ins = append([]c20WfIn{in("start", k2, next)}, d.Nodes[0].Ins...)
		})
	}
	return out
}
