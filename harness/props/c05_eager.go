//go:build verif && (vh_all || vh_c05 || vh_c06)

package props

// C05 / C06, case family "eager" (registered for C05 in c05_eager_reg.go and for C06 in
// c06_eager.go; the same generated cases and runs, judged by the property being checked):
// Workflows (eager scheduling: one completion at a time, the rest
// stays in flight) with interrupts. Random small workflows built with the real
// compose.NewWorkflow API (2-6 nodes, parallel siblings, control / data / combined
// dependencies), interrupt-before / interrupt-after node sets, nested sub-graphs (a pregel
// chain or an inner workflow p,q -> j) that interrupt internally, nodes that return
// compose.InterruptAndRerun on their first attempts, and ENFORCED completion orders of siblings
// that are in flight together (barriers inside the node bodies, no sleeps).
//
// Per case:
//   - the reference: the same workflow without interrupt sets / rerun requests, run once
//     (final output + multiset of node executions with inputs); second reference for that
//     uninterrupted run: the Lean engine model's eager loop (EinoV.Engine.runEager of
//     Model/C02Workflow.lean, kind "eager" of the C05 oracle);
//   - the history: Invoke(WithCheckPointID) on a bytes-only store, resumed after every
//     interrupt until the run completes;
//   - the property itself: same final output, same multiset of node executions with inputs
//     (aborted rerun attempts apart) -- nothing completed is re-executed, nothing is lost --
//     and no call fails ("no tasks to execute").
//
// How a completion order is enforced. Nodes with the same set of predecessors (control and
// data) become ready in the same call of calculateNextTasks, so they are always submitted
// (or checkpointed as pending inputs and restored) together: "true siblings". A node's body
// may wait for the first *yield* of some of its true siblings. A sibling yields when the run
// loop has collected it (its state post-handler runs on the run-loop goroutine inside
// waitOne), when its body is about to return InterruptAndRerun, or -- a nested graph -- when
// the inner node after which the inner run will interrupt is about to return. Yields are
// sticky, so only the first attempt of a node is ordered. Since a wait only ever targets a
// node that is in flight (or restored) together with the waiter, and the wait relation follows
// one linear order per sibling group, the script cannot deadlock on an implementation that
// keeps its pending tasks; a wait that is not released within 12 s is reported (stuck), and
// scripts are then switched off for the rest of the process.

import (
	"context"
	"encoding/json"
	"fmt"
	"sort"
	"strconv"
	"strings"
	"sync"
	"time"

	"github.com/cloudwego/eino/compose"
	"github.com/cloudwego/eino/verifharness/gcase5"
	"github.com/cloudwego/eino/verifharness/vh"
)

// ---------- case language ----------

type c05eSub struct {
	Shape     string   `json:"shape"`         // chain: pregel graph s0 -> s1 -> ... | pq: workflow p,q (parallel) -> j
	Len       int      `json:"len,omitempty"` // chain: number of inner nodes (1..3)
	IntBefore []string `json:"intBefore,omitempty"`
	IntAfter  []string `json:"intAfter,omitempty"`
}

type c05eNode struct {
	Key   string   `json:"key"`
	Kind  string   `json:"kind"`            // tag | rerun | sub
	Rerun int      `json:"rerun,omitempty"` // rerun: number of attempts that return InterruptAndRerun
	Sub   *c05eSub `json:"sub,omitempty"`
	Wait  []string `json:"wait,omitempty"` // true siblings whose first yield the body waits for
}

type c05eDep struct {
	From string `json:"from"`
	To   string `json:"to"`
	Kind string `json:"kind"` // in (AddInput) | dep (AddDependency) | data (WithNoDirectDependency)
}

type c05eWF struct {
	Nodes     []c05eNode `json:"nodes"`
	Deps      []c05eDep  `json:"deps"`
	IntBefore []string   `json:"intBefore,omitempty"`
	IntAfter  []string   `json:"intAfter,omitempty"`
}

type c05eCase struct {
	Kind  string  `json:"kind"` // "eager"
	W     *c05eWF `json:"w"`
	Input string  `json:"input"`
	Free  bool    `json:"free,omitempty"` // ignore the Wait sets (free-running schedule)
}

func (w *c05eWF) node(k string) *c05eNode {
	for i := range w.Nodes {
		if w.Nodes[i].Key == k {
			return &w.Nodes[i]
		}
	}
	return nil
}

// readiness set of a node: every predecessor (control or data) its channel waits for
func (w *c05eWF) ready(k string) []string {
	set := map[string]bool{}
	for _, d := range w.Deps {
		if d.To == k {
			set[d.From] = true
		}
	}
	out := make([]string, 0, len(set))
	for f := range set {
		out = append(out, f)
	}
	sort.Strings(out)
	return out
}

func (w *c05eWF) ctrlPreds(k string) []string {
	set := map[string]bool{}
	for _, d := range w.Deps {
		if d.To == k && d.Kind != "data" {
			set[d.From] = true
		}
	}
	out := make([]string, 0, len(set))
	for f := range set {
		out = append(out, f)
	}
	sort.Strings(out)
	return out
}

func c05eHas(l []string, k string) bool {
	for _, x := range l {
		if x == k {
			return true
		}
	}
	return false
}

// inner node keys of a nested graph, in execution order (p,q are parallel)
func (s *c05eSub) keys() []string {
	if s.Shape == "pq" {
		return []string{"p", "q", "j"}
	}
	out := []string{}
	for i := 0; i < s.Len; i++ {
		out = append(out, fmt.Sprintf("s%d", i))
	}
	return out
}

// the nested run interrupts before any inner body runs: its first interrupt cannot be
// observed from a node body, so it must not be the target of a wait
func (s *c05eSub) unsignalable() bool {
	if s.Shape == "pq" {
		return c05eHas(s.IntBefore, "p") || c05eHas(s.IntBefore, "q")
	}
	return c05eHas(s.IntBefore, "s0")
}

func (s *c05eSub) interrupts() bool {
	ks := s.keys()
	last := ks[len(ks)-1]
	if len(s.IntBefore) > 0 {
		return true
	}
	for _, k := range s.IntAfter {
		if k != last {
			return true
		}
	}
	return false
}

// c05eSanitize keeps only the waits the script can honour without deadlock (see the header):
// target is a true sibling, observable, and the wait relation is acyclic (targets come
// earlier in the node list order of the waits' own linear order: checked by a DFS).
func c05eSanitize(w *c05eWF) {
	sig := func(k string) string { return strings.Join(w.ready(k), ",") }
	for i := range w.Nodes {
		n := &w.Nodes[i]
		var keep []string
		for _, y := range n.Wait {
			t := w.node(y)
			if t == nil || y == n.Key || sig(y) != sig(n.Key) {
				continue
			}
			if t.Kind == "sub" && t.Sub != nil && t.Sub.unsignalable() {
				continue
			}
			keep = append(keep, y)
		}
		n.Wait = keep
	}
	// break cycles
	state := map[string]int{}
	var visit func(k string)
	visit = func(k string) {
		state[k] = 1
		n := w.node(k)
		var keep []string
		for _, y := range n.Wait {
			if state[y] == 1 {
				continue // back edge: drop
			}
			keep = append(keep, y)
			if state[y] == 0 {
				visit(y)
			}
		}
		n.Wait = keep
		state[k] = 2
	}
	for i := range w.Nodes {
		if state[w.Nodes[i].Key] == 0 {
			visit(w.Nodes[i].Key)
		}
	}
}

// ---------- one execution of a case (shared by all calls of a history) ----------

type c05eExec struct {
	Path    string
	In      string
	Aborted bool
	Call    int
}

type c05eSync struct {
	mu      sync.Mutex
	execs   []c05eExec
	yielded map[string]chan struct{}
	once    map[string]*sync.Once
	pqDone  map[string]int
	abort   chan struct{}
	stuck   []string
	order   []string // yields in the order they happened
	script  bool
	call    int // index of the call of the history being made
}

func c05eNewSync(w *c05eWF, script bool) *c05eSync {
	s := &c05eSync{yielded: map[string]chan struct{}{}, once: map[string]*sync.Once{}, pqDone: map[string]int{},
		abort: make(chan struct{}), script: script}
	for _, n := range w.Nodes {
		s.yielded[n.Key] = make(chan struct{})
		s.once[n.Key] = &sync.Once{}
	}
	return s
}

func (s *c05eSync) record(path string, in gcase5.M, aborted bool) {
	s.mu.Lock()
	s.execs = append(s.execs, c05eExec{Path: path, In: gcase5.Render(in), Aborted: aborted, Call: s.call})
	s.mu.Unlock()
}

func (s *c05eSync) yield(key string) {
	if o, ok := s.once[key]; ok {
		o.Do(func() {
			s.mu.Lock()
			s.order = append(s.order, key)
			s.mu.Unlock()
			close(s.yielded[key])
		})
	}
}

const c05eStuckAfter = 12 * time.Second

func (s *c05eSync) wait(n *c05eNode) {
	if !s.script {
		return
	}
	for _, y := range n.Wait {
		ch, ok := s.yielded[y]
		if !ok {
			continue
		}
		select {
		case <-ch:
		case <-s.abort:
			return
		case <-time.After(c05eStuckAfter): // only to classify a script that cannot be followed
			s.mu.Lock()
			s.stuck = append(s.stuck, n.Key+"<-"+y)
			s.mu.Unlock()
			return
		}
	}
}

// ---------- building ----------

func c05eStateGen(ctx context.Context) *gcase5.St { return &gcase5.St{KV: map[string]string{}} }

func c05eDecode(s string) gcase5.M {
	out := gcase5.M{}
	for _, item := range strings.Split(s, ";") {
		kv := strings.Split(item, "=")
		if len(kv) == 2 {
			out[kv[0]] = kv[1]
		}
	}
	return out
}

// nested graph of node n; plain: no inner interrupt sets
func c05eBuildSub(n *c05eNode, sy *c05eSync, plain bool) (compose.AnyGraph, []compose.GraphCompileOption, error) {
	sub := n.Sub
	var opts []compose.GraphCompileOption
	if !plain {
		if len(sub.IntBefore) > 0 {
			opts = append(opts, compose.WithInterruptBeforeNodes(append([]string{}, sub.IntBefore...)))
		}
		if len(sub.IntAfter) > 0 {
			opts = append(opts, compose.WithInterruptAfterNodes(append([]string{}, sub.IntAfter...)))
		}
	}
	intB := func(k string) bool { return !plain && c05eHas(sub.IntBefore, k) }
	intA := func(k string) bool { return !plain && c05eHas(sub.IntAfter, k) }
	if sub.Shape == "pq" {
		wf := compose.NewWorkflow[gcase5.M, gcase5.M]()
		side := func(k string) *compose.Lambda {
			return compose.InvokableLambda(func(ctx context.Context, in gcase5.M) (gcase5.M, error) {
				sy.record(n.Key+"/"+k, in, false)
				sy.wait(n)
				out := gcase5.TagBody(n.Key+k, in)
				sy.mu.Lock()
				sy.pqDone[n.Key]++
				both := sy.pqDone[n.Key] >= 2
				sy.mu.Unlock()
				if intA(k) || (both && intB("j")) {
					sy.yield(n.Key)
				}
				return out, nil
			})
		}
		wf.AddLambdaNode("p", side("p")).AddInput(compose.START)
		wf.AddLambdaNode("q", side("q")).AddInput(compose.START)
		wf.AddLambdaNode("j", compose.InvokableLambda(func(ctx context.Context, in gcase5.M) (gcase5.M, error) {
			sy.record(n.Key+"/j", in, false)
			return gcase5.TagBody(n.Key, in), nil
		})).AddInput("p", compose.MapFields(n.Key+"p", n.Key+"p")).AddInput("q", compose.MapFields(n.Key+"q", n.Key+"q"))
		wf.End().AddInput("j")
		return wf, opts, nil
	}
	if sub.Len < 1 || sub.Len > 4 {
		return nil, nil, fmt.Errorf("bad chain length %d", sub.Len)
	}
	g := compose.NewGraph[gcase5.M, gcase5.M]()
	ks := sub.keys()
	for i, k := range ks {
		i, k := i, k
		f := func(ctx context.Context, in gcase5.M) (gcase5.M, error) {
			sy.record(n.Key+"/"+k, in, false)
			if i == 0 {
				sy.wait(n)
			}
			out := gcase5.TagBody(n.Key, in)
			if (intA(k) && i < len(ks)-1) || (i+1 < len(ks) && intB(ks[i+1])) {
				sy.yield(n.Key)
			}
			return out, nil
		}
		if err := g.AddLambdaNode(k, compose.InvokableLambda(f)); err != nil {
			return nil, nil, err
		}
		from := compose.START
		if i > 0 {
			from = ks[i-1]
		}
		if err := g.AddEdge(from, k); err != nil {
			return nil, nil, err
		}
	}
	if err := g.AddEdge(ks[len(ks)-1], compose.END); err != nil {
		return nil, nil, err
	}
	return g, opts, nil
}

func c05eOutKey(from string) string {
	if from == "start" {
		return "in"
	}
	return from
}

func c05eBuild(w *c05eWF, sy *c05eSync, plain bool, store compose.CheckPointStore) (r compose.Runnable[gcase5.M, gcase5.M], err error) {
	wf := compose.NewWorkflow[gcase5.M, gcase5.M](compose.WithGenLocalState(c05eStateGen))
	handles := map[string]*compose.WorkflowNode{}
	for i := range w.Nodes {
		n := &w.Nodes[i]
		post := compose.WithStatePostHandler(func(ctx context.Context, out gcase5.M, s *gcase5.St) (gcase5.M, error) {
			sy.yield(n.Key) // collected by the run loop
			return out, nil
		})
		switch n.Kind {
		case "sub":
			if n.Sub == nil {
				return nil, fmt.Errorf("sub node %s without graph", n.Key)
			}
			g, sopts, e := c05eBuildSub(n, sy, plain)
			if e != nil {
				return nil, e
			}
			handles[n.Key] = wf.AddGraphNode(n.Key, g, post, compose.WithGraphCompileOptions(sopts...))
		case "rerun":
			rr := n.Rerun
			if plain {
				rr = 0
			}
			// the pre-handler rebuilds the input of a resumed rerun node from the state
			pre := compose.WithStatePreHandler(func(ctx context.Context, in gcase5.M, s *gcase5.St) (gcase5.M, error) {
				if s.KV == nil {
					s.KV = map[string]string{}
				}
				if len(in) == 0 {
					return c05eDecode(s.KV["in:"+n.Key]), nil
				}
				s.KV["in:"+n.Key] = gcase5.Render(in)
				return in, nil
			})
			f := func(ctx context.Context, in gcase5.M) (gcase5.M, error) {
				abort := false
				if rr > 0 {
					e := compose.ProcessState[*gcase5.St](ctx, func(_ context.Context, s *gcase5.St) error {
						if s.KV == nil {
							s.KV = map[string]string{}
						}
						att, _ := strconv.Atoi(s.KV["a:"+n.Key])
						if att < rr {
							s.KV["a:"+n.Key] = strconv.Itoa(att + 1)
							abort = true
						}
						return nil
					})
					if e != nil {
						return nil, fmt.Errorf("harness: rerun node without state: %w", e)
					}
				}
				sy.record(n.Key, in, abort)
				sy.wait(n)
				if abort {
					sy.yield(n.Key)
					return nil, compose.InterruptAndRerun
				}
				return gcase5.TagBody(n.Key, in), nil
			}
			handles[n.Key] = wf.AddLambdaNode(n.Key, compose.InvokableLambda(f), pre, post)
		case "tag":
			f := func(ctx context.Context, in gcase5.M) (gcase5.M, error) {
				sy.record(n.Key, in, false)
				sy.wait(n)
				return gcase5.TagBody(n.Key, in), nil
			}
			handles[n.Key] = wf.AddLambdaNode(n.Key, compose.InvokableLambda(f), post)
		default:
			return nil, fmt.Errorf("bad node kind %q", n.Kind)
		}
	}
	handles["end"] = wf.End()
	for _, d := range w.Deps {
		h, ok := handles[d.To]
		if !ok {
			return nil, fmt.Errorf("dependency to unknown node %s", d.To)
		}
		from := d.From
		if from == "start" {
			from = compose.START
		}
		maps := []*compose.FieldMapping{compose.MapFields(c05eOutKey(d.From), c05eOutKey(d.From))}
		switch d.Kind {
		case "in":
			h.AddInput(from, maps...)
		case "dep":
			h.AddDependency(from)
		case "data":
			h.AddInputWithOptions(from, maps, compose.WithNoDirectDependency())
		default:
			return nil, fmt.Errorf("bad dependency kind %s", d.Kind)
		}
	}
	var opts []compose.GraphCompileOption
	if store != nil {
		opts = append(opts, compose.WithCheckPointStore(store))
	}
	if !plain {
		if len(w.IntBefore) > 0 {
			opts = append(opts, compose.WithInterruptBeforeNodes(append([]string{}, w.IntBefore...)))
		}
		if len(w.IntAfter) > 0 {
			opts = append(opts, compose.WithInterruptAfterNodes(append([]string{}, w.IntAfter...)))
		}
	}
	return wf.Compile(context.Background(), opts...)
}

// ---------- running ----------

type c05eSubInfo struct {
	Before []string `json:"before,omitempty"`
	After  []string `json:"after,omitempty"`
}

type c05eCall struct {
	Res     string                  `json:"res"` // done | interrupted | failed
	Before  []string                `json:"before,omitempty"`
	After   []string                `json:"after,omitempty"`
	Rerun   []string                `json:"rerun,omitempty"`
	Subs    []string                `json:"subs,omitempty"`
	SubInfo map[string]*c05eSubInfo `json:"subInfo,omitempty"` // interrupt info of the nested graphs
	Err     string                  `json:"err,omitempty"`
	Stored  bool                    `json:"stored,omitempty"` // the store was written during this call
	Starts  []string                `json:"starts,omitempty"` // node bodies entered during this call, in order ("!" prefix: aborted attempt)
}

type c05eOutcome struct {
	Class   string     `json:"class"` // ran | compile-error: … | hang | panic-escaped: … | too-many-calls
	Output  *string    `json:"output,omitempty"`
	Failed  string     `json:"failed,omitempty"` // error class of the failing call
	Calls   []c05eCall `json:"calls,omitempty"`
	Execs   []string   `json:"execs"`             // effective executions "path in", sorted
	Aborted []string   `json:"aborted,omitempty"` // aborted rerun attempts
	Yields  []string   `json:"yields,omitempty"`  // first yields, in order
	Stuck   []string   `json:"stuck,omitempty"`
}

const c05eMaxCalls = 24

func c05eErrClass(err error) string {
	r := gcase5.Classify(err)
	if r.Err == nil {
		return "other"
	}
	c := r.Err.C
	if strings.HasPrefix(c, "other:") {
		msg := c[len("other:"):]
		switch {
		case strings.Contains(msg, "failed to convert checkpoint"):
			return "convert-checkpoint"
		case strings.Contains(msg, "restore"):
			return "restore"
		}
		return "other"
	}
	return c
}

// c05eRun executes the case: plain = the uninterrupted reference (one call, no store).
func c05eRun(c *c05eCase, plain bool) *c05eOutcome {
	out := &c05eOutcome{Class: "ran", Execs: []string{}}
	sy := c05eNewSync(c.W, !c.Free && !c05eScriptBroken)
	var store *gcase5.Store
	if !plain {
		store = gcase5.NewStore()
	}
	var mu sync.Mutex // out is written by the runner goroutine, read after a timeout
	panicked, pv := vh.Safely(func() {
		finished := vh.WithTimeout(40*time.Second, func() {
			var r compose.Runnable[gcase5.M, gcase5.M]
			var err error
			if store != nil {
				r, err = c05eBuild(c.W, sy, plain, store)
			} else {
				r, err = c05eBuild(c.W, sy, plain, nil)
			}
			if err != nil {
				mu.Lock()
				out.Class = "compile-error: " + err.Error()
				mu.Unlock()
				return
			}
			for call := 0; ; call++ {
				if call >= c05eMaxCalls {
					mu.Lock()
					out.Class = "too-many-calls"
					mu.Unlock()
					return
				}
				var res gcase5.M
				var runErr error
				sy.mu.Lock()
				sy.call = call
				sy.mu.Unlock()
				sets := 0
				if store != nil {
					sets = store.Sets
				}
				if plain {
					res, runErr = r.Invoke(context.Background(), gcase5.M{"in": c.Input})
				} else {
					res, runErr = r.Invoke(context.Background(), gcase5.M{"in": c.Input}, compose.WithCheckPointID("e"))
				}
				stored := store != nil && store.Sets != sets
				mu.Lock()
				if runErr == nil {
					s := gcase5.Render(res)
					out.Output = &s
					out.Calls = append(out.Calls, c05eCall{Res: "done", Stored: stored})
					mu.Unlock()
					return
				}
				if info, ok := compose.ExtractInterruptInfo(runErr); ok && !plain {
					cj := c05eCall{Res: "interrupted", Before: vh.SortedStrings(info.BeforeNodes), After: vh.SortedStrings(info.AfterNodes), Rerun: vh.SortedStrings(info.RerunNodes), Stored: stored}
					for k, si := range info.SubGraphs {
						cj.Subs = append(cj.Subs, k)
						if si != nil {
							if cj.SubInfo == nil {
								cj.SubInfo = map[string]*c05eSubInfo{}
							}
							cj.SubInfo[k] = &c05eSubInfo{Before: vh.SortedStrings(si.BeforeNodes), After: vh.SortedStrings(si.AfterNodes)}
						}
					}
					sort.Strings(cj.Subs)
					out.Calls = append(out.Calls, cj)
					mu.Unlock()
					continue
				}
				out.Failed = c05eErrClass(runErr)
				out.Calls = append(out.Calls, c05eCall{Res: "failed", Err: out.Failed, Stored: stored})
				mu.Unlock()
				return
			}
		})
		if !finished {
			mu.Lock()
			out.Class = "hang"
			mu.Unlock()
		}
	})
	close(sy.abort) // release whatever is still waiting (abandoned stragglers)
	mu.Lock()
	defer mu.Unlock()
	if panicked {
		out.Class = fmt.Sprint("panic-escaped: ", pv)
	}
	sy.mu.Lock()
	for _, e := range sy.execs {
		if e.Call < len(out.Calls) {
			st := e.Path
			if e.Aborted {
				st = "!" + st
			}
			out.Calls[e.Call].Starts = append(out.Calls[e.Call].Starts, st)
		}
		if e.Aborted {
			out.Aborted = append(out.Aborted, e.Path+" "+e.In)
		} else {
			out.Execs = append(out.Execs, e.Path+" "+e.In)
		}
	}
	out.Stuck = append([]string{}, sy.stuck...)
	out.Yields = append([]string{}, sy.order...)
	sy.mu.Unlock()
	sort.Strings(out.Execs)
	sort.Strings(out.Aborted)
	return out
}

// ---------- the Lean engine model's eager run as a second reference ----------

type c05eModel struct {
	Result gcase5.ResultJ `json:"result"`
	Tasks  []struct {
		K  string `json:"k"`
		In string `json:"in"`
	} `json:"tasks"`
	Results []gcase5.ResultJ `json:"results"` // under the other probed completion schedules
	WF      bool             `json:"wf"`
	// the interrupt/resume model of eager mode (Model/C05Eager.lean) on this case, per completion
	// schedule: is the resumed history equivalent to the uninterrupted eager run for the repaired
	// drain site (pending) / the shipped one (refold)?
	Interrupt []struct {
		Sched   string `json:"sched"`
		Pending bool   `json:"pending"`
		Refold  bool   `json:"refold"`
		Calls   int    `json:"calls"`
	} `json:"interrupt"`
}

// the execution that stands for the (outer) invocation of a top-level node
func c05eOuterPath(n *c05eNode) string {
	if n.Kind != "sub" {
		return n.Key
	}
	if n.Sub.Shape == "pq" {
		return n.Key + "/p"
	}
	return n.Key + "/s0"
}

// ---------- evaluation ----------

// set once a scripted completion order could not be followed (each such run costs the
// classification timeout): the remaining cases of this process run without scripts
var c05eScriptBroken bool

// disagreements shrunk so far, per signature (only the first ones are worth the extra runs)
var c05eShrunk = map[string]int{}

type c05eVerdict struct {
	Sig  string
	What string
}

func c05eTopo(w *c05eWF) []string {
	out := []string{}
	for _, n := range w.Nodes { // nodes are listed in a topological order
		out = append(out, n.Key)
	}
	return out
}

func c05eCount(l []string) map[string]int {
	m := map[string]int{}
	for _, x := range l {
		m[x]++
	}
	return m
}

func c05eNodeOfExec(e string) (top string, path string) {
	path = strings.SplitN(e, " ", 2)[0]
	top = strings.SplitN(path, "/", 2)[0]
	return
}

// c05eJudge compares a resumed history with the uninterrupted reference (the property itself).
func c05eJudge(c *c05eCase, ref, h *c05eOutcome) *c05eVerdict {
	w := c.W
	kind := func(k string) string {
		if n := w.node(k); n != nil {
			return n.Kind
		}
		return "?"
	}
	switch {
	case strings.HasPrefix(h.Class, "panic-escaped"):
		return &c05eVerdict{"C05:eager:panic-escaped", "a panic escaped Invoke while resuming an eager workflow: " + h.Class}
	case h.Class == "hang":
		if len(h.Stuck) > 0 {
			return &c05eVerdict{"C05:eager:script-stuck", "a true sibling the script waits for was never started/collected: " + strings.Join(h.Stuck, ", ")}
		}
		return &c05eVerdict{"C05:eager:hang", "the resumed history did not finish within 40 s"}
	case h.Class == "too-many-calls":
		return &c05eVerdict{"C05:eager:livelock", fmt.Sprintf("the run is still being interrupted after %d resume calls", c05eMaxCalls)}
	case h.Class != "ran":
		return &c05eVerdict{"C05:eager:build", "the interrupt-enabled workflow does not compile although the plain one does: " + h.Class}
	}
	if len(h.Stuck) > 0 {
		return &c05eVerdict{"C05:eager:script-stuck", "a true sibling the script waits for was never started/collected: " + strings.Join(h.Stuck, ", ")}
	}
	// executions: nothing lost, nothing re-executed, same inputs
	want, got := c05eCount(ref.Execs), c05eCount(h.Execs)
	wantPaths, gotPaths := map[string]int{}, map[string]int{}
	for e, n := range want {
		_, p := c05eNodeOfExec(e)
		wantPaths[p] += n
	}
	for e, n := range got {
		_, p := c05eNodeOfExec(e)
		gotPaths[p] += n
	}
	lostTop, dupTop := map[string]bool{}, map[string]bool{}
	for p, n := range wantPaths {
		if gotPaths[p] < n {
			lostTop[strings.SplitN(p, "/", 2)[0]] = true
		}
	}
	for p, n := range gotPaths {
		if wantPaths[p] < n {
			dupTop[strings.SplitN(p, "/", 2)[0]] = true
		}
	}
	if len(dupTop) > 0 {
		for _, k := range c05eTopo(w) {
			if dupTop[k] {
				return &c05eVerdict{"C05:eager:node-reexecuted:" + kind(k), "node " + k + " (or a node inside it) executes more often in the resumed history than in the uninterrupted run"}
			}
		}
	}
	if len(lostTop) > 0 {
		for _, k := range c05eTopo(w) { // the first lost node in topological order: the others follow from it
			if lostTop[k] {
				shape := "single-predecessor"
				if len(w.ready(k)) >= 2 {
					shape = "join"
				}
				if gotPaths[c05eOuterPath(w.node(k))] > 0 {
					shape = "inside-nested"
				}
				res := "done"
				if h.Failed != "" {
					res = h.Failed
				}
				// how many interrupts of the history reported a rerun node / an interrupted nested
				// graph: a successor that is ready for the first time can only be lost by the
				// first one; one that was carried in a checkpoint's channels needs two
				aborts := 0
				for _, cl := range h.Calls {
					if cl.Res == "interrupted" && len(cl.Rerun)+len(cl.Subs) > 0 {
						aborts++
					}
				}
				when := "after-repeated-abort-interrupts"
				if aborts == 1 {
					when = "after-1-abort-interrupt"
				} else if aborts == 0 {
					// no call of the history reported a rerun node / an interrupted nested graph: the node was
					// lost by a plain interrupt (an interrupt-before / interrupt-after point, drained siblings)
					when = "after-plain-interrupts-only"
				}
				return &c05eVerdict{"C05:eager:node-lost:" + shape + ":" + when, "node " + k + " executes in the uninterrupted run but never in the resumed history (which ends: " + res + "): its pending input / the output of a predecessor was not carried over an interrupt"}
			}
		}
	}
	if h.Failed != "" {
		return &c05eVerdict{"C05:eager:failed:" + h.Failed, "a call of the resumed history fails (" + h.Failed + ") although the uninterrupted run succeeds"}
	}
	if !vh.CanonEq(ref.Execs, h.Execs) {
		return &c05eVerdict{"C05:eager:node-input", "a node executes on a different input in the resumed history"}
	}
	if h.Output == nil || ref.Output == nil || *h.Output != *ref.Output {
		return &c05eVerdict{"C05:eager:output", "final output of the resumed history differs from the uninterrupted run"}
	}
	return nil
}

// c05eJudgeFor: the verdict of the property being checked.
func c05eJudgeFor(prop string, c *c05eCase, ref, h *c05eOutcome) *c05eVerdict {
	if prop == "C06" {
		return c06eJudge(c, h)
	}
	return c05eJudge(c, ref, h)
}

// c06eJudge checks the clauses of C06 directly on the history of an eager workflow:
//   - a node configured as interrupt-before (top level, or inside a nested graph) does not begin
//     executing unless an earlier call was interrupted with that node reported;
//   - when a node configured as interrupt-after completes, none of its successors starts in the
//     same call, and the call ends in an interrupt that reports it (unless the run finished);
//   - the store is written exactly by the calls that return an interrupt.
func c06eJudge(c *c05eCase, h *c05eOutcome) *c05eVerdict {
	w := c.W
	switch {
	case strings.HasPrefix(h.Class, "panic-escaped"):
		return &c05eVerdict{"C06:eager:panic-escaped", "a panic escaped Invoke while resuming an eager workflow: " + h.Class}
	case h.Class == "hang" || len(h.Stuck) > 0:
		return &c05eVerdict{"C06:eager:hang", "the resumed history did not finish (stuck: " + strings.Join(h.Stuck, ", ") + ")"}
	case h.Class != "ran":
		return nil // livelock / build: C05's business
	}
	started := map[string]bool{} // paths that have begun executing (any attempt)
	topStarted := map[string]bool{}
	reported := map[string]bool{} // "k" / "k/z": reported as an interrupt-before node by an earlier call
	for i, cl := range h.Calls {
		// nodes whose last body returned in this call (completed), in order
		var seq []string
		for _, st := range cl.Starts {
			seq = append(seq, st)
		}
		completedTop := func(k string) bool { // the top-level node k ran to completion in this call
			n := w.node(k)
			if n == nil {
				return false
			}
			last := k
			if n.Kind == "sub" {
				ks := n.Sub.keys()
				last = k + "/" + ks[len(ks)-1]
			}
			return c05eHas(seq, last)
		}
		for _, st := range cl.Starts {
			path := strings.TrimPrefix(st, "!")
			top := strings.SplitN(path, "/", 2)[0]
			n := w.node(top)
			if n == nil {
				continue
			}
			if !topStarted[top] {
				topStarted[top] = true
				if c05eHas(w.IntBefore, top) && !reported[top] {
					return &c05eVerdict{"C06:eager:before-not-honoured:top", fmt.Sprintf("interrupt-before node %s begins executing in call %d although no earlier call was interrupted with it reported in BeforeNodes", top, i)}
				}
			}
			if !started[path] {
				started[path] = true
				if n.Kind == "sub" && strings.Contains(path, "/") {
					z := strings.SplitN(path, "/", 2)[1]
					if c05eHas(n.Sub.IntBefore, z) && !reported[path] {
						return &c05eVerdict{"C06:eager:before-not-honoured:nested", fmt.Sprintf("interrupt-before node %s of the nested graph begins executing in call %d although no earlier interrupt reported it", path, i)}
					}
				}
			}
		}
		// interrupt-after, top level
		for _, a := range w.IntAfter {
			if !completedTop(a) {
				continue
			}
			for _, d := range w.Deps {
				if d.From == a && d.Kind != "data" && d.To != "end" {
					for _, st := range cl.Starts {
						if strings.SplitN(strings.TrimPrefix(st, "!"), "/", 2)[0] == d.To {
							return &c05eVerdict{"C06:eager:after-not-honoured:successor-started:top", fmt.Sprintf("interrupt-after node %s completes in call %d and its successor %s starts in the same call", a, i, d.To)}
						}
					}
				}
			}
			if cl.Res == "interrupted" && !c05eHas(cl.After, a) {
				return &c05eVerdict{"C06:eager:after-not-reported:top", fmt.Sprintf("interrupt-after node %s completes in call %d, which ends in an interrupt that does not report it in AfterNodes", a, i)}
			}
		}
		// interrupt-after, nested
		for ni := range w.Nodes {
			n := &w.Nodes[ni]
			if n.Kind != "sub" {
				continue
			}
			ks := n.Sub.keys()
			for _, z := range n.Sub.IntAfter {
				if z == ks[len(ks)-1] || !c05eHas(seq, n.Key+"/"+z) {
					continue
				}
				var later []string
				if n.Sub.Shape == "pq" {
					later = []string{"j"}
				} else {
					for q, k := range ks {
						if k == z {
							later = ks[q+1:]
						}
					}
				}
				for _, l := range later {
					if c05eHas(seq, n.Key+"/"+l) {
						return &c05eVerdict{"C06:eager:after-not-honoured:successor-started:nested", fmt.Sprintf("interrupt-after node %s/%s completes in call %d and %s/%s starts in the same call", n.Key, z, i, n.Key, l)}
					}
				}
				if cl.Res == "interrupted" && (cl.SubInfo[n.Key] == nil || !c05eHas(cl.SubInfo[n.Key].After, z)) {
					return &c05eVerdict{"C06:eager:after-not-reported:nested", fmt.Sprintf("interrupt-after node %s/%s completes in call %d, whose interrupt info does not report it", n.Key, z, i)}
				}
			}
		}
		if cl.Stored != (cl.Res == "interrupted") {
			return &c05eVerdict{"C06:eager:store-mismatch", fmt.Sprintf("call %d ends %s and the store was written: %v", i, cl.Res, cl.Stored)}
		}
		for _, b := range cl.Before {
			reported[b] = true
		}
		for k, si := range cl.SubInfo {
			for _, b := range si.Before {
				reported[k+"/"+b] = true
			}
		}
	}
	return nil
}

// c05eShrink: greedy removal of interrupt points, waits, rerun counts and trailing nodes while
// the same verdict signature persists (cheap: a handful of extra runs, only on a disagreement).
func c05eShrink(prop string, c *c05eCase, sig string) *c05eCase {
	clone := func(x *c05eCase) *c05eCase {
		b, _ := json.Marshal(x)
		var y c05eCase
		_ = json.Unmarshal(b, &y)
		return &y
	}
	still := func(x *c05eCase) bool {
		c05eSanitize(x.W)
		ref := c05eRun(x, true)
		if ref.Class != "ran" || ref.Output == nil {
			return false
		}
		h := c05eRun(x, false)
		v := c05eJudgeFor(prop, x, ref, h)
		return v != nil && v.Sig == sig
	}
	if strings.Contains(sig, "stuck") || strings.Contains(sig, "hang") {
		return c
	}
	cur := clone(c)
	budget := 60
	try := func(mod func(x *c05eCase) bool) {
		for budget > 0 {
			x := clone(cur)
			if !mod(x) {
				return
			}
			budget--
			if still(x) {
				cur = x
			} else {
				return
			}
		}
	}
	drop := func(l []string, i int) []string { return append(append([]string{}, l[:i]...), l[i+1:]...) }
	for i := len(cur.W.IntBefore) - 1; i >= 0; i-- {
		i := i
		x := clone(cur)
		x.W.IntBefore = drop(x.W.IntBefore, i)
		if budget > 0 && still(x) {
			cur = x
		}
		budget--
	}
	for i := len(cur.W.IntAfter) - 1; i >= 0; i-- {
		x := clone(cur)
		x.W.IntAfter = drop(x.W.IntAfter, i)
		if budget > 0 && still(x) {
			cur = x
		}
		budget--
	}
	for ni := range cur.W.Nodes {
		n := cur.W.Nodes[ni]
		if n.Kind == "rerun" && n.Rerun > 1 {
			x := clone(cur)
			x.W.Nodes[ni].Rerun = 1
			if budget > 0 && still(x) {
				cur = x
			}
			budget--
		}
		if n.Kind == "sub" {
			for _, which := range []string{"b", "a"} {
				for {
					l := cur.W.Nodes[ni].Sub.IntBefore
					if which == "a" {
						l = cur.W.Nodes[ni].Sub.IntAfter
					}
					if len(l) == 0 || budget <= 0 {
						break
					}
					x := clone(cur)
					if which == "a" {
						x.W.Nodes[ni].Sub.IntAfter = drop(l, len(l)-1)
					} else {
						x.W.Nodes[ni].Sub.IntBefore = drop(l, len(l)-1)
					}
					budget--
					if x.W.Nodes[ni].Sub.interrupts() && still(x) {
						cur = x
					} else {
						break
					}
				}
			}
		}
	}
	// trailing node that nothing but END depends on
	try(func(x *c05eCase) bool {
		if len(x.W.Nodes) <= 2 {
			return false
		}
		last := x.W.Nodes[len(x.W.Nodes)-1].Key
		for _, d := range x.W.Deps {
			if d.From == last && d.To != "end" {
				return false
			}
		}
		var deps []c05eDep
		for _, d := range x.W.Deps {
			if d.From != last && d.To != last {
				deps = append(deps, d)
			}
		}
		x.W.Deps = deps
		x.W.Nodes = x.W.Nodes[:len(x.W.Nodes)-1]
		filter := func(l []string) []string {
			var o []string
			for _, k := range l {
				if k != last {
					o = append(o, k)
				}
			}
			return o
		}
		x.W.IntBefore, x.W.IntAfter = filter(x.W.IntBefore), filter(x.W.IntAfter)
		// every node still needs a control path to END
		for _, n := range x.W.Nodes {
			has := false
			for _, d := range x.W.Deps {
				if d.From == n.Key && d.Kind != "data" {
					has = true
				}
			}
			if !has {
				x.W.Deps = append(x.W.Deps, c05eDep{From: n.Key, To: "end", Kind: "in"})
			}
		}
		return true
	})
	return cur
}

func c05eAskModel(ctx *vh.Ctx, c *c05eCase) (*c05eModel, error) {
	raw, err := ctx.Oracle.Ask(ctx.Prop, c)
	if err != nil {
		return nil, err
	}
	var m c05eModel
	if err := json.Unmarshal(raw, &m); err != nil {
		return nil, err
	}
	return &m, nil
}

func c05eOne(ctx *vh.Ctx, c *c05eCase, shrink bool) error {
	prop := ctx.Prop
	c05eSanitize(c.W)
	w := c.W
	ctx.Progress.Mark(c)
	ref := c05eRun(c, true)
	if ref.Class != "ran" {
		cl := strings.SplitN(ref.Class, ":", 2)[0]
		ctx.Res.Dist("eager-ref-class=" + cl)
		if cl != "compile-error" {
			ctx.Res.Disagree(vh.Disagreement{Signature: prop + ":eager:reference:" + cl, What: "the uninterrupted run of the workflow: " + ref.Class, Case: c, Impl: ref})
		} else {
			ctx.Res.Disagree(vh.Disagreement{Signature: prop + ":eager:generator", What: "generated workflow does not compile: " + ref.Class, Case: c})
		}
		return nil
	}
	if len(ref.Stuck) > 0 {
		c05eScriptBroken = true
		ctx.Res.Disagree(vh.Disagreement{Signature: prop + ":eager:script-stuck:reference", What: "uninterrupted run: a true sibling the script waits for was never collected: " + strings.Join(ref.Stuck, ", "), Case: c, Impl: ref})
		return nil
	}
	if ref.Output == nil {
		ctx.Res.Disagree(vh.Disagreement{Signature: prop + ":eager:reference:failed:" + ref.Failed, What: "the uninterrupted run of the workflow fails (no failing node in this family)", Case: c, Impl: ref})
		return nil
	}
	// second reference: the Lean engine model's eager loop (uninterrupted run)
	model, err := c05eAskModel(ctx, c)
	if err != nil {
		return err
	}
	{
		var implTasks, modelTasks []string
		for i := range w.Nodes {
			p := c05eOuterPath(&w.Nodes[i])
			for _, e := range ref.Execs {
				if strings.HasPrefix(e, p+" ") {
					implTasks = append(implTasks, w.Nodes[i].Key+" "+e[len(p)+1:])
				}
			}
		}
		for _, t := range model.Tasks {
			modelTasks = append(modelTasks, t.K+" "+t.In)
		}
		sort.Strings(implTasks)
		sort.Strings(modelTasks)
		switch {
		case model.Result.Ok == nil || *model.Result.Ok != *ref.Output:
			ctx.Res.Disagree(vh.Disagreement{Signature: prop + ":eager:reference-vs-model:output", What: "uninterrupted run: the final output differs from the Lean engine model's eager run (runEager)", Case: c, Model: model, Impl: ref})
		case !vh.CanonEq(implTasks, modelTasks):
			ctx.Res.Disagree(vh.Disagreement{Signature: prop + ":eager:reference-vs-model:execs", What: "uninterrupted run: top-level node invocations / inputs differ from the Lean engine model's eager run (runEager)", Case: c, Model: model, Impl: ref})
		}
		for _, r := range model.Results {
			if !vh.CanonEq(r, model.Result) {
				ctx.Res.Disagree(vh.Disagreement{Signature: prop + ":eager:model-schedule-dependent", What: "the Lean engine model's eager run gives different results under two completion schedules", Case: c, Model: model})
				break
			}
		}
		if !model.WF {
			ctx.Res.Dist("eager-model-wf-hypothesis=false")
		}
		// the unproved full statement of the eager interrupt model, tested inside the model
		refoldLoses := false
		for _, iv := range model.Interrupt {
			if !iv.Pending {
				ctx.Res.Disagree(vh.Disagreement{Signature: prop + ":eager:model:pending-not-equivalent", What: "Lean model of the eager interrupt/resume loop (Model/C05Eager.lean), repaired drain site: the resumed history is not equivalent to the uninterrupted eager run under completion schedule " + iv.Sched, Case: c, Model: model})
				break
			}
			if !iv.Refold {
				refoldLoses = true
			}
		}
		if refoldLoses {
			ctx.Res.Dist("eager-model-refold-variant-not-equivalent(some schedule)")
		}
	}
	h := c05eRun(c, false)
	if ctx.Replay != nil {
		// the order of tasks the script leaves unordered is one sample of the scheduler: repeat
		for i := 0; i < 30 && c05eJudgeFor(prop, c, ref, h) == nil; i++ {
			h = c05eRun(c, false)
		}
	}
	// distribution
	nSub, nRerun, nSubInt, waits := 0, 0, 0, 0
	for _, n := range w.Nodes {
		switch n.Kind {
		case "sub":
			nSub++
			if n.Sub.interrupts() {
				nSubInt++
			}
			ctx.Res.Dist("eager-sub-shape=" + n.Sub.Shape)
		case "rerun":
			nRerun++
		}
		waits += len(n.Wait)
	}
	ctx.Res.Dist(fmt.Sprintf("eager-nodes=%d", len(w.Nodes)))
	ctx.Res.Dist(fmt.Sprintf("eager-interrupts=%d", min(len(h.Calls)-1, 6)))
	if nSubInt > 0 {
		ctx.Res.Dist("eager-has-interrupting-nested")
	}
	if nRerun > 0 {
		ctx.Res.Dist("eager-has-rerun")
	}
	if waits > 0 && !c.Free {
		ctx.Res.Dist("eager-scripted")
	} else {
		ctx.Res.Dist("eager-free")
	}
	kinds := map[string]bool{}
	for _, d := range w.Deps {
		kinds[d.Kind] = true
	}
	for k := range kinds {
		ctx.Res.Dist("eager-dep-kind=" + k)
	}
	for _, cl := range h.Calls {
		if cl.Res != "interrupted" {
			continue
		}
		ab := len(cl.Rerun)+len(cl.Subs) > 0
		switch {
		case ab && len(cl.After) > 0:
			ctx.Res.Dist("eager-call=abort+after")
		case ab && len(cl.Before) > 0:
			ctx.Res.Dist("eager-call=abort+before")
		case ab:
			ctx.Res.Dist("eager-call=abort")
		case len(cl.Before) > 0 && len(cl.After) > 0:
			ctx.Res.Dist("eager-call=before+after")
		case len(cl.Before) > 0:
			ctx.Res.Dist("eager-call=before")
		default:
			ctx.Res.Dist("eager-call=after")
		}
	}
	// the shape of the second interrupt site: a configured interrupt point was hit by a node that
	// yielded (was collected) before an aborting sibling yielded, in the same call
	if c05eDrainShape(c, h) {
		ctx.Res.Dist("eager-shape=point-hit-then-drained-abort")
	}
	if c05eReadyDuringDrain(c, h) {
		ctx.Res.Dist("eager-shape=before-node-ready-during-drain")
	}
	if c05ePlainReadyDuringDrain(c, h) {
		ctx.Res.Dist("eager-shape=plain-node-ready-during-drain")
	}
	q := *c
	ctx.Res.Count("eager:"+vh.Canon(&q), len(h.Calls) >= 2 && len(w.Nodes) >= 2)
	ctx.Res.Sample(&q)
	v := c05eJudgeFor(prop, c, ref, h)
	if v == nil {
		ctx.Res.Dist("eager-verdict=equivalent")
		return nil
	}
	ctx.Res.Dist("eager-verdict=" + v.Sig)
	if strings.Contains(v.Sig, "stuck") || strings.Contains(v.Sig, "hang") {
		c05eScriptBroken = true
	}
	rc := c
	if shrink && ctx.Replay == nil && c05eShrunk[v.Sig] < 2 {
		c05eShrunk[v.Sig]++
		if sc := c05eShrink(prop, c, v.Sig); sc != c {
			// confirm on the shrunk case (schedules of unordered tasks are not reproducible)
			ref2 := c05eRun(sc, true)
			h2 := c05eRun(sc, false)
			if v2 := c05eJudgeFor(prop, sc, ref2, h2); ref2.Class == "ran" && ref2.Output != nil && v2 != nil && v2.Sig == v.Sig {
				rc, ref, h, v = sc, ref2, h2, v2
			}
		}
	}
	pre := "eager workflow, resumed history vs uninterrupted run: "
	if prop == "C06" {
		pre = "eager workflow, interrupt points along the resumed history: "
	}
	ctx.Res.Disagree(vh.Disagreement{Signature: v.Sig, What: pre + v.What, Case: rc,
		Model: map[string]any{"reference_run": ref, "lean_eager_model": model}, Impl: h})
	return nil
}

// c05eDrainShape: in some interrupted call that reports an aborting node (rerun / nested), a
// node that is an interrupt-after point -- or a predecessor of an interrupt-before point --
// yielded before that aborting node did.
func c05eDrainShape(c *c05eCase, h *c05eOutcome) bool {
	w := c.W
	pos := map[string]int{}
	for i, k := range h.Yields {
		pos[k] = i + 1
	}
	point := func(k string) bool {
		if c05eHas(w.IntAfter, k) {
			return true
		}
		for _, d := range w.Deps {
			if d.From == k && c05eHas(w.IntBefore, d.To) {
				return true
			}
		}
		return false
	}
	for _, cl := range h.Calls {
		if cl.Res != "interrupted" {
			continue
		}
		for _, ab := range append(append([]string{}, cl.Rerun...), cl.Subs...) {
			if pos[ab] == 0 {
				continue
			}
			for _, n := range w.Nodes {
				if n.Key != ab && pos[n.Key] > 0 && pos[n.Key] < pos[ab] && point(n.Key) && vh.CanonEq(w.ready(n.Key), w.ready(ab)) {
					return true
				}
			}
		}
	}
	return false
}

// c05eReadyDuringDrain: some interrupted call reports an interrupt-before node X whose last
// predecessor was collected, in that call, after another node of that call that already was an
// interrupt point (an interrupt-after node, or a predecessor of a reported interrupt-before
// node): X became ready while the run was draining its tasks.
func c05eReadyDuringDrain(c *c05eCase, h *c05eOutcome) bool {
	w := c.W
	pos := map[string]int{}
	for i, k := range h.Yields {
		pos[k] = i + 1
	}
	for _, cl := range h.Calls {
		if cl.Res != "interrupted" || len(cl.Before) == 0 {
			continue
		}
		inCall := map[string]bool{}
		for _, st := range cl.Starts {
			if !strings.HasPrefix(st, "!") {
				inCall[strings.SplitN(st, "/", 2)[0]] = true
			}
		}
		lastPred := func(x string) (string, int) {
			best, bp := "", 0
			for _, p := range w.ready(x) {
				if pos[p] > bp {
					best, bp = p, pos[p]
				}
			}
			return best, bp
		}
		// the first interrupt point collected in this call
		first := 0
		for k := range inCall {
			if pos[k] == 0 {
				continue
			}
			point := c05eHas(w.IntAfter, k)
			for _, x := range cl.Before {
				if lp, _ := lastPred(x); lp == k {
					point = true
				}
			}
			if point && (first == 0 || pos[k] < first) {
				first = pos[k]
			}
		}
		for _, x := range cl.Before {
			if lp, lpos := lastPred(x); lp != "" && inCall[lp] && first > 0 && lpos > first {
				return true
			}
		}
	}
	return false
}

// c05ePlainReadyDuringDrain: in some interrupted call a node Z that is NOT an interrupt-before node
// became ready while the run was draining its tasks: its last predecessor ran in that call and was
// collected after a node of that call that already was an interrupt point (an interrupt-after node,
// or the last predecessor of a reported interrupt-before node). Z is a pending task of that
// checkpoint although none of the interrupt's lists names it.
func c05ePlainReadyDuringDrain(c *c05eCase, h *c05eOutcome) bool {
	w := c.W
	pos := map[string]int{}
	for i, k := range h.Yields {
		pos[k] = i + 1
	}
	lastPred := func(x string) (string, int, bool) {
		best, bp, all := "", 0, true
		for _, p := range w.ready(x) {
			if p == "start" {
				continue
			}
			if pos[p] == 0 {
				all = false
			}
			if pos[p] > bp {
				best, bp = p, pos[p]
			}
		}
		return best, bp, all
	}
	for _, cl := range h.Calls {
		if cl.Res != "interrupted" || len(cl.Rerun)+len(cl.Subs) > 0 {
			continue
		}
		inCall := map[string]bool{}
		for _, st := range cl.Starts {
			if !strings.HasPrefix(st, "!") {
				inCall[strings.SplitN(st, "/", 2)[0]] = true
			}
		}
		first := 0
		for k := range inCall {
			if pos[k] == 0 {
				continue
			}
			point := c05eHas(cl.After, k)
			for _, x := range cl.Before {
				if lp, _, _ := lastPred(x); lp == k {
					point = true
				}
			}
			if point && (first == 0 || pos[k] < first) {
				first = pos[k]
			}
		}
		if first == 0 {
			continue
		}
		for _, nd := range w.Nodes {
			if c05eHas(w.IntBefore, nd.Key) || inCall[nd.Key] {
				continue
			}
			if lp, lpos, all := lastPred(nd.Key); lp != "" && all && inCall[lp] && lpos > first {
				return true
			}
		}
	}
	return false
}

// ---------- generator ----------

func c05eGenSub(r *vh.Rand) *c05eSub {
	s := &c05eSub{Shape: "chain", Len: r.Range(1, 3)}
	if r.Chance(30) {
		s.Shape, s.Len = "pq", 0
	}
	ks := s.keys()
	if r.Chance(85) { // interrupting inside
		for _, k := range ks {
			if r.Chance(30) {
				s.IntAfter = append(s.IntAfter, k)
			}
			if r.Chance(22) {
				s.IntBefore = append(s.IntBefore, k)
			}
		}
		if !s.interrupts() {
			if len(ks) >= 2 && r.Chance(60) {
				s.IntAfter = append(s.IntAfter, ks[0])
			} else {
				s.IntBefore = append(s.IntBefore, ks[len(ks)-1])
			}
		}
	}
	return s
}

func c05eGen(r *vh.Rand) *c05eCase {
	w := &c05eWF{}
	n := r.Range(2, 6)
	all := []string{"start"}
	depsOf := map[string][]c05eDep{}
	for i := 0; i < n; i++ {
		k := fmt.Sprintf("n%d", i)
		node := c05eNode{Key: k, Kind: "tag"}
		switch x := r.Intn(100); {
		case x < 22:
			node.Kind = "rerun"
			node.Rerun = 1
			if r.Chance(25) {
				node.Rerun = 2
			}
		case x < 50:
			node.Kind = "sub"
			node.Sub = c05eGenSub(r)
		}
		var deps []c05eDep
		if i > 0 && r.Chance(50) {
			// a true sibling of an earlier node: the same predecessors (in flight together)
			src := w.Nodes[r.Intn(i)].Key
			for _, d := range depsOf[src] {
				kind := d.Kind
				if r.Chance(20) && kind != "data" {
					kind = []string{"in", "dep"}[r.Intn(2)]
				}
				deps = append(deps, c05eDep{From: d.From, To: k, Kind: kind})
			}
		} else {
			np := 1
			if len(all) >= 2 && r.Chance(40) {
				np = 2
			}
			p := r.Perm(len(all))
			for q := 0; q < np; q++ {
				kind := "in"
				if x := r.Intn(100); x < 25 {
					kind = "dep"
				} else if q > 0 && x < 45 {
					kind = "data"
				}
				deps = append(deps, c05eDep{From: all[p[q]], To: k, Kind: kind})
			}
		}
		depsOf[k] = deps
		w.Deps = append(w.Deps, deps...)
		w.Nodes = append(w.Nodes, node)
		all = append(all, k)
	}
	// every node has a control path to END (no abandoned stragglers: the C03 finding)
	for _, nd := range w.Nodes {
		has := false
		for _, d := range w.Deps {
			if d.From == nd.Key && d.Kind != "data" {
				has = true
			}
		}
		if !has || r.Chance(10) {
			kind := "in"
			if r.Chance(20) {
				kind = "dep"
			}
			w.Deps = append(w.Deps, c05eDep{From: nd.Key, To: "end", Kind: kind})
		}
	}
	// interrupt points
	for _, nd := range w.Nodes {
		if r.Chance(22) {
			w.IntBefore = append(w.IntBefore, nd.Key)
		}
		if r.Chance(22) {
			w.IntAfter = append(w.IntAfter, nd.Key)
		}
	}
	// completion orders of true siblings
	groups := map[string][]int{}
	var sigs []string
	for i, nd := range w.Nodes {
		s := strings.Join(w.ready(nd.Key), ",")
		if _, ok := groups[s]; !ok {
			sigs = append(sigs, s)
		}
		groups[s] = append(groups[s], i)
	}
	for _, s := range sigs {
		g := groups[s]
		if len(g) < 2 || !r.Chance(88) {
			continue
		}
		p := r.Perm(len(g))
		order := make([]int, len(g))
		for i := range p {
			order[i] = g[p[i]]
		}
		if r.Chance(55) { // aborting nodes finish last: a sibling is collected while they are in flight
			sort.SliceStable(order, func(a, b int) bool {
				aa := w.Nodes[order[a]].Kind != "tag"
				bb := w.Nodes[order[b]].Kind != "tag"
				return !aa && bb
			})
		}
		for i := 1; i < len(order); i++ {
			w.Nodes[order[i]].Wait = []string{w.Nodes[order[i-1]].Key}
		}
	}
	c05eSanitize(w)
	shapeDraw := r.Intn(100)
	if shapeDraw >= 25 && shapeDraw < 40 {
		// shape: an interrupt-after node a is collected while its sibling b is still in flight (b waits
		// for a); b's completion, processed while the run drains its tasks, readies a successor x of b
		// that is NOT an interrupt point: x is a pending task of the checkpoint although no list of the
		// interrupt names it
		for _, i := range r.Perm(len(w.Nodes)) {
			b := w.Nodes[i]
			if len(b.Wait) == 0 {
				continue
			}
			x := ""
			for _, d := range w.Deps {
				if d.From == b.Key && d.To != "end" && d.Kind != "data" && (x == "" || len(w.ready(d.To)) == 1) {
					x = d.To
				}
			}
			if x == "" {
				continue
			}
			if !c05eHas(w.IntAfter, b.Wait[0]) {
				w.IntAfter = append(w.IntAfter, b.Wait[0])
			}
			var keep []string
			for _, k := range w.IntBefore {
				if k != x {
					keep = append(keep, k)
				}
			}
			w.IntBefore = keep
			break
		}
	}
	if shapeDraw < 25 {
		// shape: an interrupt point is hit (a is an interrupt-after node) while its sibling b is
		// still in flight (b waits for a), and a successor of b is an interrupt-before node: it
		// becomes ready while the run drains its tasks
		for _, i := range r.Perm(len(w.Nodes)) {
			b := w.Nodes[i]
			if len(b.Wait) == 0 {
				continue
			}
			x := ""
			for _, d := range w.Deps {
				if d.From == b.Key && d.To != "end" && d.Kind != "data" {
					x = d.To
				}
			}
			if x == "" {
				continue
			}
			if !c05eHas(w.IntAfter, b.Wait[0]) {
				w.IntAfter = append(w.IntAfter, b.Wait[0])
			}
			if !c05eHas(w.IntBefore, x) {
				w.IntBefore = append(w.IntBefore, x)
			}
			break
		}
	}
	return &c05eCase{Kind: "eager", W: w, Input: fmt.Sprintf("x%d", r.Intn(5))}
}

func c05eReplay(ctx *vh.Ctx, raw json.RawMessage) error {
	var c c05eCase
	if err := json.Unmarshal(raw, &c); err != nil {
		return err
	}
	if c.W == nil {
		return fmt.Errorf("eager case without workflow")
	}
	return c05eOne(ctx, &c, false)
}

func runEagerFamily(ctx *vh.Ctx) error {
	if !c05FamilyOn("eager") {
		return nil
	}
	ctx.Res.Rule += " | eager workflows (kind=eager): random compose.Workflow, 2-6 nodes (tag / InterruptAndRerun once or twice / nested pregel chain or inner workflow that interrupts inside), control, data and combined dependencies, half of the nodes true siblings of an earlier node, interrupt-before/after subsets, enforced completion orders of siblings in flight together (barriers) plus free-running histories; Invoke(WithCheckPointID) on a bytes-only store until completion, compared with the uninterrupted run of the same workflow (final output, multiset of node executions with inputs) and, for the uninterrupted run, with the Lean engine model's eager loop; non-trivial = at least one interrupt"
	n := ctx.N(4000, 40000)
	limit := time.Duration(ctx.N(9, 90)) * time.Second
	start := time.Now()
	penalised := false
	for i := 0; i < n && time.Since(start) < limit; i++ {
		if c05eScriptBroken && !penalised {
			penalised = true
			limit += c05eStuckAfter + 2*time.Second
		}
		c := c05eGen(ctx.Rng)
		if ctx.Rng.Chance(25) {
			c.Free = true
		}
		if err := c05eOne(ctx, c, true); err != nil {
			return err
		}
	}
	ctx.Res.Extra["eager_family_seconds"] = time.Since(start).Seconds()
	return nil
}
