//go:build verif && (vh_all || vh_c19)

package props

import (
	"context"
	"encoding/json"
	"fmt"
	"runtime"
	"strings"
	"sync"
	"sync/atomic"
	"time"

	"github.com/cloudwego/eino/callbacks"
	"github.com/cloudwego/eino/compose"
	"github.com/cloudwego/eino/schema"
	"github.com/cloudwego/eino/verifharness/gcase"
	"github.com/cloudwego/eino/verifharness/vh"
)

func init() { vh.Register("C19", runC19) }

type c19Case struct {
	G        *gcase.Graph `json:"g"`
	Input    string       `json:"input"`
	InChunks []int        `json:"inChunks"`
	Paradigm string       `json:"paradigm"`           // stream | transform
	Consume  int          `json:"consume"`            // -1: read to the end; k >= 0: read k chunks then close
	Handlers []string     `json:"handlers,omitempty"` // callback handlers of the run (see c19Handlers)
}

// callback handlers attached to the run (compose.WithCallbacks). Every handler that takes a copy of a
// stream closes it (after reading nothing / one chunk / everything), as the property assumes;
// "plain" has no streaming callbacks at all (its TimingChecker answers false for them).
func c19Handler(k string) callbacks.Handler {
	{
		hb := callbacks.NewHandlerBuilder()
		switch k {
		case "raw-close":
			// no TimingChecker: it is handed a copy at every streaming timing, and closes it
			return &c19RawHandler{}
		case "plain":
			hb = hb.OnStartFn(func(ctx context.Context, info *callbacks.RunInfo, in callbacks.CallbackInput) context.Context {
				return ctx
			}).
				OnEndFn(func(ctx context.Context, info *callbacks.RunInfo, out callbacks.CallbackOutput) context.Context {
					return ctx
				})
		case "out-close":
			hb = hb.OnEndWithStreamOutputFn(func(ctx context.Context, info *callbacks.RunInfo, out *schema.StreamReader[callbacks.CallbackOutput]) context.Context {
				out.Close()
				return ctx
			})
		case "out-prefix":
			hb = hb.OnEndWithStreamOutputFn(func(ctx context.Context, info *callbacks.RunInfo, out *schema.StreamReader[callbacks.CallbackOutput]) context.Context {
				go func() {
					out.Recv()
					out.Close()
				}()
				return ctx
			})
		case "out-all":
			hb = hb.OnEndWithStreamOutputFn(func(ctx context.Context, info *callbacks.RunInfo, out *schema.StreamReader[callbacks.CallbackOutput]) context.Context {
				go func() {
					defer out.Close()
					for {
						if _, err := out.Recv(); err != nil {
							return
						}
					}
				}()
				return ctx
			})
		case "in-close":
			hb = hb.OnStartWithStreamInputFn(func(ctx context.Context, info *callbacks.RunInfo, in *schema.StreamReader[callbacks.CallbackInput]) context.Context {
				in.Close()
				return ctx
			})
		}
		return hb.Build()
	}
}

// a handler without a TimingChecker
type c19RawHandler struct{}

func (*c19RawHandler) OnStart(ctx context.Context, info *callbacks.RunInfo, in callbacks.CallbackInput) context.Context {
	return ctx
}
func (*c19RawHandler) OnEnd(ctx context.Context, info *callbacks.RunInfo, out callbacks.CallbackOutput) context.Context {
	return ctx
}
func (*c19RawHandler) OnError(ctx context.Context, info *callbacks.RunInfo, err error) context.Context {
	return ctx
}
func (*c19RawHandler) OnStartWithStreamInput(ctx context.Context, info *callbacks.RunInfo, in *schema.StreamReader[callbacks.CallbackInput]) context.Context {
	in.Close()
	return ctx
}
func (*c19RawHandler) OnEndWithStreamOutput(ctx context.Context, info *callbacks.RunInfo, out *schema.StreamReader[callbacks.CallbackOutput]) context.Context {
	out.Close()
	return ctx
}

// The handler LIST of a case. An entry is
//
//	<kind>    a fresh handler passed for the run (WithCallbacks)
//	=<i>      the same handler VALUE as entry i, passed for the run once more
//	g=<i>     the handler value of entry i, also installed as a global handler for the case
//	g:<kind>  a fresh handler installed as a global handler only
//
// kinds: plain (its TimingChecker declines the streaming timings) | out-close | out-prefix |
// out-all | in-close | raw-close (no TimingChecker).
func c19HandlerSet(entries []string) (perCall, global []callbacks.Handler) {
	vals := make([]callbacks.Handler, len(entries))
	ref := func(s string) callbacks.Handler {
		var i int
		if _, err := fmt.Sscanf(s, "%d", &i); err != nil || i < 0 || i >= len(vals) || vals[i] == nil {
			return c19Handler("plain")
		}
		return vals[i]
	}
	for i, e := range entries {
		switch {
		case strings.HasPrefix(e, "g="):
			vals[i] = ref(e[2:])
			global = append(global, vals[i])
		case strings.HasPrefix(e, "="):
			vals[i] = ref(e[1:])
			perCall = append(perCall, vals[i])
		case strings.HasPrefix(e, "g:"):
			vals[i] = c19Handler(e[2:])
			global = append(global, vals[i])
		default:
			vals[i] = c19Handler(e)
			perCall = append(perCall, vals[i])
		}
	}
	return perCall, global
}

// c19RunOpts installs the handler list of a case: the per-run handlers as one WithCallbacks option
// each, the global ones through callbacks.InitCallbackHandlers until done is called (cases run
// one at a time).
func c19RunOpts(entries []string) (opts []compose.Option, done func()) {
	perCall, global := c19HandlerSet(entries)
	for _, h := range perCall {
		opts = append(opts, compose.WithCallbacks(h))
	}
	if len(global) > 0 {
		callbacks.InitCallbackHandlers(global)
		return opts, func() { callbacks.InitCallbackHandlers(nil) }
	}
	return opts, func() {}
}

// c19ListedTwice: some handler value occurs more than once in the list
func c19ListedTwice(entries []string) bool {
	for _, e := range entries {
		if strings.HasPrefix(e, "=") || strings.HasPrefix(e, "g=") {
			return true
		}
	}
	return false
}

// c19CbSfx is the callback part of a signature
func c19CbSfx(entries []string) string {
	if len(entries) == 0 {
		return ""
	}
	if c19ListedTwice(entries) {
		return ":callbacks:handler-listed-twice"
	}
	return ":callbacks"
}

func c19GenHandlers(r *vh.Rand) []string {
	if !r.Chance(40) {
		return nil
	}
	kinds := []string{"plain", "plain", "out-close", "out-prefix", "out-all", "in-close", "raw-close"}
	n := 1 + r.Intn(2)
	var hs []string
	for i := 0; i < n; i++ {
		k := kinds[r.Intn(len(kinds))]
		if r.Chance(10) {
			k = "g:" + k // installed globally only
		}
		hs = append(hs, k)
	}
	// the list shape: one of the handler values listed once more (for the run / globally too)
	if r.Chance(35) {
		i := r.Intn(len(hs))
		at := 1 + r.Intn(len(hs)) // anywhere after entry i's position 0.. (a decliner may sit in between)
		if at <= i {
			at = i + 1
		}
		e := fmt.Sprintf("=%d", i)
		if r.Chance(40) && !strings.HasPrefix(hs[i], "g:") {
			e = fmt.Sprintf("g=%d", i)
		}
		hs = append(hs[:at], append([]string{e}, hs[at:]...)...)
	}
	return hs
}

type c19Pre struct {
	Ok               bool     `json:"ok"`
	Dropped          []string `json:"dropped"`
	NoConsumer       []string `json:"noConsumer"`
	Surplus          []string `json:"surplus"`
	LeakWithoutClose int      `json:"leakWithoutClose"`
	CbCopiesOut      int      `json:"cbCopiesOut"` // callback-copy ledger of one node, output timing
	CbHandedOut      int      `json:"cbHandedOut"`
	CbCopiesIn       int      `json:"cbCopiesIn"`
	CbHandedIn       int      `json:"cbHandedIn"`
	CbLeaked         int      `json:"cbLeaked"`
}

// producers: every streaming form emits through an unbuffered Pipe from its own goroutine.
type c19Tracker struct {
	started, exited int32
	mu              sync.Mutex
	blocked         map[string]int
	sent            map[string]int  // chunks a receiver took, per producer path
	cut             map[string]bool // a Send reported "closed": the producer was told to stop
}

// sentOf reports how many chunks of the producer at path were taken and whether it was told that
// nobody listens any more (only meaningful once the producer has exited).
func (t *c19Tracker) sentOf(path string) (int, bool) {
	t.mu.Lock()
	defer t.mu.Unlock()
	return t.sent[path], t.cut[path]
}

func (t *c19Tracker) produce(path string, chunks []gcase.M) *schema.StreamReader[gcase.M] {
	sr, sw := schema.Pipe[gcase.M](0)
	atomic.AddInt32(&t.started, 1)
	t.mu.Lock()
	t.blocked[path]++
	t.mu.Unlock()
	go func() {
		defer func() {
			sw.Close()
			t.mu.Lock()
			t.blocked[path]--
			t.mu.Unlock()
			atomic.AddInt32(&t.exited, 1)
		}()
		for _, c := range chunks {
			if closed := sw.Send(c, nil); closed {
				t.mu.Lock()
				if t.cut == nil {
					t.cut = map[string]bool{}
				}
				t.cut[path] = true
				t.mu.Unlock()
				return
			}
			t.mu.Lock()
			if t.sent == nil {
				t.sent = map[string]int{}
			}
			t.sent[path]++
			t.mu.Unlock()
		}
	}()
	return sr
}

func (t *c19Tracker) settled(d time.Duration) bool {
	deadline := time.Now().Add(d)
	for {
		if atomic.LoadInt32(&t.started) == atomic.LoadInt32(&t.exited) {
			return true
		}
		if time.Now().After(deadline) {
			return false
		}
		time.Sleep(2 * time.Millisecond)
	}
}

func c19One(ctx *vh.Ctx, c *c19Case) error {
	ctx.Progress.Mark(c)
	raw, err := ctx.Oracle.Ask("C19", c)
	if err != nil {
		return err
	}
	var pre c19Pre
	if err := json.Unmarshal(raw, &pre); err != nil {
		return err
	}
	tr := &c19Tracker{blocked: map[string]int{}}
	cg, err := gcase.Build(c.G, "", &gcase.BuildOpts{Produce: tr.produce})
	if err != nil {
		ctx.Res.Dist("class=build-error")
		ctx.Res.Count("malformed", false)
		return nil
	}
	bg := context.Background()
	r, err := cg.Compile(bg, gcase.CompileOpts(c.G)...)
	if err != nil {
		ctx.Res.Dist("class=compile-error")
		ctx.Res.Count("malformed", false)
		return nil
	}
	base := runtime.NumGoroutine()
	x := gcase.M{"in": c.Input}
	var runErr error
	got := 0
	finished := false
	if panicked, pv := vh.Safely(func() {
		finished = vh.WithTimeout(20*time.Second, func() {
			var sr *schema.StreamReader[gcase.M]
			var ropts []compose.Option
			if len(c.Handlers) > 0 {
				hopts, hdone := c19RunOpts(c.Handlers)
				defer hdone()
				ropts = append(ropts, hopts...)
			}
			if c.Paradigm == "transform" {
				sr, runErr = r.Transform(bg, schema.StreamReaderFromArray(gcase.ChunkMap(c.InChunks, x)), ropts...)
			} else {
				sr, runErr = r.Stream(bg, x, ropts...)
			}
			if runErr != nil {
				return
			}
			for c.Consume < 0 || got < c.Consume {
				_, e := sr.Recv()
				if e != nil {
					break
				}
				got++
			}
			sr.Close()
		})
	}); panicked {
		ctx.Res.Disagree(vh.Disagreement{Signature: "C19:panic-escaped", What: fmt.Sprint("streaming run panicked: ", pv), Case: c})
		return nil
	}
	if !finished {
		ctx.Res.Disagree(vh.Disagreement{Signature: "C19:hang", What: "streaming run (or reading its output) hangs", Case: c, Model: pre})
		return nil
	}
	clean := pre.Ok && len(pre.Dropped) == 0 && len(pre.NoConsumer) == 0 && runErr == nil
	nodes, _, branches, _, cyclic, fanin := gcase.Shape(c.G)
	ctx.Res.Dist(fmt.Sprintf("nodes=%d", nodes))
	ctx.Res.Dist(fmt.Sprintf("consume=%d", c.Consume))
	ctx.Res.Dist("mode=" + c.G.Mode)
	for _, h := range c.Handlers {
		ctx.Res.Dist("handler=" + h)
	}
	if c19ListedTwice(c.Handlers) {
		ctx.Res.Dist("handler-listed-twice")
	}
	if !clean {
		ctx.Res.Dist("out-of-scope(precondition)")
		ctx.Res.Count("oos", false)
		return nil
	}
	ctx.Res.Dist(fmt.Sprintf("producers=%d", min(int(atomic.LoadInt32(&tr.started)), 6)))
	if len(pre.Surplus) > 0 {
		ctx.Res.Dist("surplus-branch-copies")
	}
	ctx.Res.Count(vh.Canon(c), atomic.LoadInt32(&tr.started) >= 1 && (fanin || branches > 0 || cyclic || nodes >= 3))
	ctx.Res.Sample(c)
	if !tr.settled(4 * time.Second) {
		var stuck []string
		tr.mu.Lock()
		for p, n := range tr.blocked {
			if n > 0 {
				stuck = append(stuck, p)
			}
		}
		tr.mu.Unlock()
		sig := "C19:producer-blocked"
		if len(pre.Surplus) > 0 {
			sig = "C19:producer-blocked:surplus-branch-copy"
		}
		sig += c19CbSfx(c.Handlers)
		ctx.Res.Disagree(vh.Disagreement{Signature: sig,
			What: fmt.Sprintf("after the run completed and its output was %s, %d producer(s) are still blocked on a send: %s", map[bool]string{true: "read to the end", false: "closed early"}[c.Consume < 0], len(stuck), strings.Join(vh.SortedStrings(stuck), ",")),
			Case: c, Model: pre, Impl: map[string]any{"started": tr.started, "exited": tr.exited, "stuck": vh.SortedStrings(stuck)}})
		return nil
	}
	// framework goroutines (stream forwarders) must be gone too
	deadline := time.Now().Add(3 * time.Second)
	for runtime.NumGoroutine() > base && time.Now().Before(deadline) {
		time.Sleep(2 * time.Millisecond)
	}
	if n := runtime.NumGoroutine(); n > base {
		buf := make([]byte, 1<<16)
		buf = buf[:runtime.Stack(buf, true)]
		ctx.Res.Disagree(vh.Disagreement{Signature: "C19:goroutines-left", What: fmt.Sprintf("%d goroutine(s) more than before the run are still alive", n-base), Case: c, Model: pre,
			Impl: map[string]any{"stacks": c19Trim(string(buf))}})
	}
	return nil
}

func c19Trim(s string) string {
	var keep []string
	for _, g := range strings.Split(s, "\n\n") {
		if strings.Contains(g, "cloudwego/eino/schema") || strings.Contains(g, "cloudwego/eino/compose") {
			if len(g) > 1500 {
				g = g[:1500]
			}
			keep = append(keep, g)
		}
	}
	if len(keep) > 4 {
		keep = keep[:4]
	}
	return strings.Join(keep, "\n\n")
}

func runC19(ctx *vh.Ctx) error {
	ctx.Res.Rule = "random graphs (pregel/dag, fan-out copies, fan-in merges, single and multi branches incl. branches selecting nothing) whose streaming nodes emit through unbuffered Pipes from goroutines with blocking sends; Stream/Transform called, output read to the end / a prefix / not at all, then closed; preconditions of the property (run completes, nothing ready besides END at return, every output has a consumer) decided on the Lean model; non-trivial = >=1 goroutine producer and (fan-in | branch | cycle | >=3 nodes); distinct by canonical case"
	ctx.Res.Rule += " || workflow family: a streaming producer (unbuffered pipe, goroutine) whose successors are data+control / data-only / control-only / branch ends, value and prefix-reading stream conditions, single and multi-way; control-only successors (dep nodes, branch ends) take their own data from START / nothing at all / static values / START without control / the producer without control (targets without any data predecessor, skipped ends that are sent data, ends named by the branch and by a data edge); the copy-routing model (oracle) names the fate of every copy, compared: producer released, and not cut off when some reader drains its stream; non-trivial = a branch or >=2 successor kinds"
	ctx.Res.Rule += " || merge family: fan-ins of 2..9 sources of different lengths (schema.MergeStreamReaders driven directly with pipes / converted readers / copies / arrays / merged readers; DAG and Pregel fan-ins into END, a prefix-reading node, a pass node with a prefix-reading stream branch; Workflow inputs; ToolsNode.Stream), the reader closes after the short sources have ended / early / reads to the end; the reader's trace is replayed on the merged-reader model, which names the senders released by the close; non-trivial = >=1 short (<=2 chunks) and >=1 long source and the reader closes after at least 40 chunks more than the short sources have"
	ctx.Res.Rule += " || cross family: a streaming producer A and a branching node B side by side in a Workflow; the ends of B's branch take A's stream without control / with control / not at all and concatenate it or pass it on lazily; the order of 'A's copy reaches the end's channel' and 'the branch skips the end' is forced by structure (B depends on A: value first) or by a barrier (A waits for the branch condition: skip first) or left free; the copy-routing model names the fate of every copy; compared: producer released, not cut off while a reader drains; non-trivial = some copy is sent to an end that is skipped"
	ctx.Res.Rule += " || handler lists (all families): fresh handlers per run, the same handler value listed once more (=i), installed globally too (g=i) or globally only (g:kind), handlers whose TimingChecker declines the streaming timings (plain) or that have none (raw-close); the callback-copy ledger of the model (one copy per kept occurrence + the node's, all handed out) is part of the oracle's answer"
	if ctx.Replay != nil {
		if done, err := c19wReplay(ctx, ctx.Replay); done {
			return err
		}
		if done, err := c19mReplay(ctx, ctx.Replay); done {
			return err
		}
		if done, err := c19xReplay(ctx, ctx.Replay); done {
			return err
		}
		var c c19Case
		if err := json.Unmarshal(ctx.Replay, &c); err != nil {
			return err
		}
		return c19One(ctx, &c)
	}
	if err := c19mRun(ctx); err != nil {
		return err
	}
	if err := c19wRun(ctx); err != nil {
		return err
	}
	if err := c19xRun(ctx); err != nil {
		return err
	}
	n := ctx.N(2500, 20000)
	for i := 0; i < n && ctx.TimeLeft(); i++ {
		var g *gcase.Graph
		if ctx.Rng.Chance(75) {
			g = gcase.GenLayered(ctx.Rng, "mixed")
		} else {
			g = gcase.Gen(ctx.Rng, gcase.GenOpts{Mode: "mixed", MaxNodes: 5, Depth: 0, NoNested: true, Cycles: true, FailPct: 0, BranchPct: 35})
		}
		gcase.AssignNatives(ctx.Rng, g)
		for j := range g.Nodes {
			if g.Nodes[j].Body.Op == "tag" && ctx.Rng.Chance(70) {
				g.Nodes[j].Native = []string{"s", "t", "st", "is", "ct"}[ctx.Rng.Intn(5)]
				g.Nodes[j].Chunks = []int{0, 1, 0}
			}
		}
		c := &c19Case{G: g, Input: fmt.Sprintf("in%d", ctx.Rng.Intn(4)), Paradigm: []string{"stream", "transform"}[ctx.Rng.Intn(2)]}
		c.Handlers = c19GenHandlers(ctx.Rng)
		switch ctx.Rng.Intn(3) {
		case 0:
			c.Consume = -1
		case 1:
			c.Consume = 0
		default:
			c.Consume = 1
		}
		before := len(ctx.Res.Disagreements)
		if err := c19One(ctx, c); err != nil {
			return err
		}
		if len(ctx.Res.Disagreements) > before {
			ctx.ShrinkNew(before, 120, func(cs any) []any {
				cc, ok := cs.(*c19Case)
				if !ok {
					return nil
				}
				var out []any
				for _, g := range gcase.ShrinkCandidates(cc.G) {
					d := *cc
					d.G = g
					out = append(out, &d)
				}
				if len(cc.Handlers) > 0 {
					d := *cc
					d.Handlers = nil
					out = append(out, &d)
				}
				return out
			}, func(sh *vh.Ctx, cand any) { _ = c19One(sh, cand.(*c19Case)) })
		}
	}
	return nil
}
