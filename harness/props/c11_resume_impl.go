//go:build verif && (vh_all || vh_c11)

package props

// C11 resume family, implementation side (child process).
//
//   kind "resume": a sequential nest of graphs (every level a linear chain, levels with and
//     without their own state), interrupted before/after nodes of any level or by
//     InterruptAndRerun, through a bytes-only checkpoint store, resumed with and without a
//     state modifier; plus the uninterrupted reference run of the same graphs.
//   kind "eager": a stateful Workflow whose resume restores >= 2 tasks that run in parallel;
//     barriers force one restored task to sit inside a ProcessState callback while a
//     successor of another restored task (a task created after the resume) touches the state.

import (
	"context"
	"fmt"
	"io"
	"runtime"
	"sort"
	"strings"
	"sync"
	"sync/atomic"
	"time"

	"github.com/cloudwego/eino/compose"
	"github.com/cloudwego/eino/schema"
	"github.com/cloudwego/eino/verifharness/vh"
)

// ---------- observations ----------

type c11IntLevel struct {
	Graph   int          `json:"graph"` // index of the graph level (pre-order), -1 if the path is unknown
	Before  []string     `json:"before,omitempty"`
	After   []string     `json:"after,omitempty"`
	Rerun   []string     `json:"rerun,omitempty"`
	State   *c11StateObs `json:"state,omitempty"`   // InterruptInfo.State of that level
	HasSubs bool         `json:"hasSubs,omitempty"` // paths family: the level reports interrupted nested graphs
}

// c11ModCall: one call of the caller's StateModifier (paths family).
type c11ModCall struct {
	Path string `json:"path"` // the NodePath it was called with, keys joined by "/"
	ID   int    `json:"id"`   // the ID field of the state object it was handed
}

type c11IntObs struct {
	Levels []c11IntLevel `json:"levels"` // outermost first, down to the level that interrupted (paths family: the whole tree, pre-order)
	Mod    int           `json:"mod"`    // the resume that followed: 0 = no modifier
	Forked bool          `json:"forked,omitempty"`
	Calls  []c11ModCall  `json:"calls,omitempty"` // paths family: the modifier calls of the resume that followed
}

// ---------- barrier control of the eager family ----------

const c11HoldIters = 30000

type c11EagerCtl struct {
	resumed   int32 // 1 once the first interrupt has been seen (the forced schedule plays after it)
	inside    int32
	overlaps  int32
	wDone     chan struct{} // the witness has finished its own state operations
	yInside   chan struct{} // the holder is inside its ProcessState callback
	zTouched  chan struct{} // a late task has started a state operation
	yDone     chan struct{} // the holder has left its callback
	wOnce     sync.Once
	yOnce     sync.Once
	zOnce     sync.Once
	sawLate   int32
	timeouts  int32
	holdIters int32
	late      map[int]bool // gids of the late tasks
}

func c11NewEagerCtl() *c11EagerCtl {
	return &c11EagerCtl{wDone: make(chan struct{}), yInside: make(chan struct{}), zTouched: make(chan struct{}), yDone: make(chan struct{})}
}

// enter/leave bracket the user code of every state operation of the eager family.
func (e *c11EagerCtl) enter(late bool) bool {
	ok := atomic.CompareAndSwapInt32(&e.inside, 0, 1)
	if !ok {
		atomic.AddInt32(&e.overlaps, 1)
	}
	if late {
		e.zOnce.Do(func() { close(e.zTouched) })
	}
	return ok
}

func (e *c11EagerCtl) leave(ok bool) {
	if ok {
		atomic.StoreInt32(&e.inside, 0)
	}
}

func (e *c11EagerCtl) wait(ch <-chan struct{}) {
	select {
	case <-ch:
	case <-time.After(20 * time.Second):
		atomic.AddInt32(&e.timeouts, 1)
	}
}

func (e *c11EagerCtl) barrier() string {
	switch {
	case atomic.LoadInt32(&e.timeouts) > 0:
		return "timeout"
	case atomic.LoadInt32(&e.sawLate) > 0:
		return "late-entered-while-held"
	case atomic.LoadInt32(&e.holdIters) > 0:
		return "held"
	}
	return "not-played"
}

// c11EagerBody: the body of a node of the eager family.
func c11EagerBody(ctx context.Context, f c11Flat, in string) (string, error) {
	rr := c11Rec(ctx)
	e := rr.eager
	no := rr.nodes[f.Path]
	no.BodyN++
	no.BodyIn = c11P(in)
	late := f.Node.Role == "late"
	played := atomic.LoadInt32(&e.resumed) == 1
	v := in
	regular := func() error {
		for _, op := range f.Node.Body {
			switch op.O {
			case "tag":
				v += "|" + op.T
			case "inc":
				for i := 0; i < op.Rep; i++ {
					err := compose.ProcessState[*C11State](ctx, func(_ context.Context, s *C11State) error {
						ok := e.enter(late)
						x := s.Ctr[op.C]
						runtime.Gosched()
						s.Ctr[op.C] = x + op.D
						s.Order = append(s.Order, f.Gid)
						if i == 0 {
							c11AddID(no, s.ID)
							rr.see(s)
						}
						e.leave(ok)
						return nil
					})
					if err != nil {
						return err
					}
				}
			case "stamp":
				err := compose.ProcessState[*C11State](ctx, func(_ context.Context, s *C11State) error {
					v = c11Stamp(ctx, no, f.Gid, op.Tag, v, s)
					return nil
				})
				if err != nil {
					return err
				}
			}
		}
		return nil
	}
	switch {
	case f.Node.Role == "witness" && played:
		// own state operations first, then let the holder in, return only when it is inside:
		// the engine then creates the late successor while the holder owns the state
		if err := regular(); err != nil {
			return "", err
		}
		e.wOnce.Do(func() { close(e.wDone) })
		e.wait(e.yInside)
	case f.Node.Role == "holder" && played:
		e.wait(e.wDone)
		err := compose.ProcessState[*C11State](ctx, func(_ context.Context, s *C11State) error {
			ok := e.enter(false)
			e.yOnce.Do(func() { close(e.yInside) })
			c11AddID(no, s.ID)
			rr.see(s)
			i := 0
			for ; i < c11HoldIters; i++ {
				select {
				case <-e.zTouched:
					atomic.StoreInt32(&e.sawLate, 1)
				default:
				}
				if atomic.LoadInt32(&e.sawLate) == 1 {
					break
				}
				x := s.Ctr[0]
				runtime.Gosched()
				s.Ctr[0] = x + 1
			}
			atomic.StoreInt32(&e.holdIters, int32(i)+1)
			for ; i < c11HoldIters; i++ {
				s.Ctr[0]++
			}
			s.Order = append(s.Order, f.Gid)
			e.leave(ok)
			return nil
		})
		close(e.yDone)
		if err != nil {
			return "", err
		}
		if err := regular(); err != nil {
			return "", err
		}
	case f.Node.Role == "side" && played:
		// a side task must not complete while the holder is inside: its post-handler (run on the
		// run-loop goroutine, under the restored tasks' lock) would keep the run loop from creating
		// the late task until the holder has left
		if err := regular(); err != nil {
			return "", err
		}
		e.wait(e.yDone)
	default:
		if err := regular(); err != nil {
			return "", err
		}
	}
	no.BodyOut = c11P(v)
	return v, nil
}

// c11BuildEager: the Workflow of the eager family; every node without successor feeds END
// through a field of the output map.
func c11BuildEager(l *c11Layout, gi int, ctrs int) (*compose.Workflow[string, map[string]any], []compose.GraphCompileOption) {
	spec := l.Graphs[gi]
	wf := compose.NewWorkflow[string, map[string]any](compose.WithGenLocalState(func(ctx context.Context) *C11State {
		s := &C11State{ID: int(atomic.AddInt64(&c11NextID, 1)), Ctr: make([]int, ctrs), Order: []int{}}
		if rr := c11Rec(ctx); rr != nil {
			rr.mu.Lock()
			rr.genPtrs = append(rr.genPtrs, s)
			rr.mu.Unlock()
		}
		return s
	}))
	hasSucc := map[int]bool{}
	for ni := range spec.Nodes {
		for _, p := range spec.Nodes[ni].Preds {
			hasSucc[p] = true
		}
	}
	for ni := range spec.Nodes {
		f := l.Nodes[l.GNodes[gi][ni]]
		wn := wf.AddLambdaNode(f.Node.Key, compose.InvokableLambda(func(ctx context.Context, in string) (string, error) {
			return c11Body(ctx, f, in)
		}), c11HandlerOpts(f, false)...)
		if len(f.Node.Preds) == 0 {
			wn.AddInput(compose.START)
		} else {
			wn.AddInput(spec.Nodes[f.Node.Preds[0]].Key)
		}
	}
	for ni := range spec.Nodes {
		if !hasSucc[ni] {
			wf.End().AddInput(spec.Nodes[ni].Key, compose.ToField(spec.Nodes[ni].Key))
		}
	}
	var opts []compose.GraphCompileOption
	if len(spec.Before) > 0 {
		opts = append(opts, compose.WithInterruptBeforeNodes(spec.Before))
	}
	if len(spec.After) > 0 {
		opts = append(opts, compose.WithInterruptAfterNodes(spec.After))
	}
	return wf, opts
}

func c11RenderAny(m map[string]any) string {
	keys := make([]string, 0, len(m))
	for k := range m {
		keys = append(keys, k)
	}
	sort.Strings(keys)
	var sb strings.Builder
	for _, k := range keys {
		sb.WriteString(fmt.Sprintf("%s=%v;", k, m[k]))
	}
	return sb.String()
}

// ---------- running a case ----------

// c11StripInterrupts: the same graphs without any interrupt (the reference).
func c11StripInterrupts(g *c11Graph) c11Graph {
	out := *g
	out.Before, out.After = nil, nil
	out.Nodes = make([]c11Node, len(g.Nodes))
	for i := range g.Nodes {
		n := g.Nodes[i]
		n.Rerun = false
		if n.Sub != nil {
			s := c11StripInterrupts(n.Sub)
			n.Sub = &s
		}
		out.Nodes[i] = n
	}
	return out
}

type c11AnyRunner struct {
	invoke func(ctx context.Context, opts ...compose.Option) (string, error)
}

func c11CompileResume(c *c11Case, l *c11Layout, withStore bool) (*c11AnyRunner, error) {
	var copts []compose.GraphCompileOption
	if withStore {
		copts = append(copts, compose.WithCheckPointStore(&c11Store{m: map[string][]byte{}}))
	}
	if c.Kind == "eager" {
		wf, wopts := c11BuildEager(l, 0, c.Ctrs)
		var rm compose.Runnable[string, map[string]any]
		var err error
		if c.Wrapped {
			g := compose.NewGraph[string, map[string]any]()
			var gopts []compose.GraphAddNodeOpt
			if len(wopts) > 0 {
				gopts = append(gopts, compose.WithGraphCompileOptions(wopts...))
			}
			if err = g.AddGraphNode("wrap", wf, gopts...); err != nil {
				return nil, err
			}
			if err = g.AddEdge(compose.START, "wrap"); err != nil {
				return nil, err
			}
			if err = g.AddEdge("wrap", compose.END); err != nil {
				return nil, err
			}
			rm, err = g.Compile(context.Background(), copts...)
		} else {
			rm, err = wf.Compile(context.Background(), append(copts, wopts...)...)
		}
		if err != nil {
			return nil, err
		}
		return &c11AnyRunner{invoke: func(ctx context.Context, opts ...compose.Option) (string, error) {
			if c.Paradigm == "stream" {
				sr, err := rm.Stream(ctx, "x", opts...)
				if err != nil {
					return "", err
				}
				m, err := c11ConcatMaps(sr)
				if err != nil {
					return "", err
				}
				return c11RenderAny(m), nil
			}
			m, err := rm.Invoke(ctx, "x", opts...)
			if err != nil {
				return "", err
			}
			return c11RenderAny(m), nil
		}}, nil
	}
	b, err := c11Build(l, 0, c.Ctrs)
	if err != nil {
		return nil, err
	}
	r, err := b.comp(context.Background(), append(copts, b.opts...)...)
	if err != nil {
		return nil, err
	}
	return &c11AnyRunner{invoke: func(ctx context.Context, opts ...compose.Option) (string, error) {
		if c.Paradigm == "stream" {
			sr, err := r.Stream(ctx, "x", opts...)
			if err != nil {
				return "", err
			}
			return c11ReadAll(sr)
		}
		return r.Invoke(ctx, "x", opts...)
	}}, nil
}

func c11ConcatMaps(sr *schema.StreamReader[map[string]any]) (map[string]any, error) {
	defer sr.Close()
	out := map[string]any{}
	for {
		m, err := sr.Recv()
		if err != nil {
			if err == io.EOF {
				return out, nil
			}
			return nil, err
		}
		for k, v := range m {
			if s, ok := v.(string); ok {
				if p, ok := out[k].(string); ok {
					out[k] = p + s
				} else {
					out[k] = s
				}
			} else {
				out[k] = v
			}
		}
	}
}

// c11IntLevels walks the InterruptInfo tree along its (single) chain of nested graphs.
func c11IntLevels(l *c11Layout, rr *c11RunRec, info *compose.InterruptInfo, wrapped bool) (levels []c11IntLevel, forked bool) {
	gi := 0
	if wrapped {
		// the outermost level is the stateless wrapper graph
		if len(info.SubGraphs) != 1 {
			return []c11IntLevel{{Graph: -1}}, len(info.SubGraphs) > 1
		}
		for _, sub := range info.SubGraphs {
			info = sub
		}
	}
	for info != nil {
		lv := c11IntLevel{Graph: gi, Before: vh.SortedStrings(info.BeforeNodes), After: vh.SortedStrings(info.AfterNodes), Rerun: vh.SortedStrings(info.RerunNodes)}
		if s, ok := info.State.(*C11State); ok && s != nil {
			so := c11Snapshot(s, false)
			lv.State = &so
			rr.see(s)
		}
		levels = append(levels, lv)
		if len(info.SubGraphs) == 0 {
			break
		}
		if len(info.SubGraphs) > 1 {
			forked = true
		}
		keys := make([]string, 0, len(info.SubGraphs))
		for k := range info.SubGraphs {
			keys = append(keys, k)
		}
		sort.Strings(keys)
		next := -1
		if gi >= 0 {
			for ni := range l.Graphs[gi].Nodes {
				if l.Graphs[gi].Nodes[ni].Key == keys[0] {
					gid := l.GNodes[gi][ni]
					for sgi := range l.Graphs {
						if l.GOwner[sgi] == gid {
							next = sgi
						}
					}
				}
			}
		}
		gi = next
		info = info.SubGraphs[keys[0]]
	}
	return levels, forked
}

// c11IntTree walks the whole InterruptInfo tree (paths family): every level in pre-order.
func c11IntTree(l *c11Layout, rr *c11RunRec, info *compose.InterruptInfo) (levels []c11IntLevel) {
	var walk func(gi int, info *compose.InterruptInfo)
	walk = func(gi int, info *compose.InterruptInfo) {
		lv := c11IntLevel{Graph: gi, Before: vh.SortedStrings(info.BeforeNodes), After: vh.SortedStrings(info.AfterNodes),
			Rerun: vh.SortedStrings(info.RerunNodes), HasSubs: len(info.SubGraphs) > 0}
		if s, ok := info.State.(*C11State); ok && s != nil {
			so := c11Snapshot(s, false)
			lv.State = &so
			rr.see(s)
		}
		levels = append(levels, lv)
		keys := make([]string, 0, len(info.SubGraphs))
		for k := range info.SubGraphs {
			keys = append(keys, k)
		}
		sort.Strings(keys)
		for _, k := range keys {
			next := -1
			if gi >= 0 {
				for ni := range l.Graphs[gi].Nodes {
					if l.Graphs[gi].Nodes[ni].Key == k {
						gid := l.GNodes[gi][ni]
						for sgi := range l.Graphs {
							if l.GOwner[sgi] == gid {
								next = sgi
							}
						}
					}
				}
			}
			if sub := info.SubGraphs[k]; sub != nil {
				walk(next, sub)
			}
		}
	}
	walk(0, info)
	// pre-order by level index (siblings were visited in key order)
	sort.SliceStable(levels, func(i, j int) bool { return levels[i].Graph < levels[j].Graph })
	return levels
}

func c11ResumeOneRun(c *c11Case, l *c11Layout, r *c11AnyRunner, interrupts bool) (obs c11RunObs) {
	rr := &c11RunRec{nodes: map[string]*c11NodeObs{}, rerun: map[string]bool{}}
	if c.Kind == "eager" {
		// (the reference run has no resume: the forced schedule is not played there)
		rr.eager = c11NewEagerCtl()
		rr.eager.late = map[int]bool{}
		for _, f := range l.Nodes {
			if f.Node.Role == "late" {
				rr.eager.late[f.Gid] = true
			}
		}
	}
	for _, f := range l.Nodes {
		rr.nodes[f.Path] = &c11NodeObs{}
	}
	ctx := context.WithValue(context.Background(), c11RunKey{}, rr)
	obs = c11RunObs{Class: "ok", Nodes: rr.nodes, GenIDs: []int{}, States: []c11StateObs{}}
	var out string
	var err error
	finished := false
	panicked, pv := vh.Safely(func() {
		finished = vh.WithTimeout(90*time.Second, func() {
			var opts []compose.Option
			if interrupts {
				opts = append(opts, compose.WithCheckPointID("cp"))
			}
			out, err = r.invoke(ctx, opts...)
			for tries := 0; err != nil && tries < 14; tries++ {
				info, ok := compose.ExtractInterruptInfo(err)
				if !ok {
					break
				}
				obs.Interrupts++
				io := c11IntObs{}
				if c.Kind == "paths" {
					io.Levels = c11IntTree(l, rr, info)
				} else {
					io.Levels, io.Forked = c11IntLevels(l, rr, info, c.Wrapped)
				}
				ropts := []compose.Option{compose.WithCheckPointID("cp")}
				var calls []c11ModCall
				if c.Kind == "paths" && tries < len(c.Mods) && c.Mods[tries] > 0 {
					// the caller's modifier dispatches on the node path: a different amount per graph level
					d := c.Mods[tries]
					io.Mod = d
					table := map[string]int{}
					for gi := range l.Graphs {
						table[c11LevelPath(l, gi)] = d * (gi + 1)
					}
					ropts = append(ropts, compose.WithStateModifier(func(ctx context.Context, path compose.NodePath, state any) error {
						s, ok := state.(*C11State)
						if !ok {
							return fmt.Errorf("modifier: state is %T", state)
						}
						p := strings.Join(path.GetPath(), "/")
						rr.mu.Lock()
						calls = append(calls, c11ModCall{Path: p, ID: s.ID})
						rr.mu.Unlock()
						if dd, ok := table[p]; ok {
							s.Ctr[0] += dd
						}
						rr.see(s) // the restored object, also when no node touches it afterwards
						return nil
					}))
				} else if tries < len(c.Mods) && c.Mods[tries] > 0 {
					d := c.Mods[tries]
					io.Mod = d
					ropts = append(ropts, compose.WithStateModifier(func(ctx context.Context, path compose.NodePath, state any) error {
						s, ok := state.(*C11State)
						if !ok {
							return fmt.Errorf("modifier: state is %T", state)
						}
						depth := len(path.GetPath())
						if c.Wrapped && depth > 0 {
							depth--
						}
						s.Ctr[0] += d * (depth + 1)
						rr.see(s) // the restored object, also when no node touches it afterwards
						return nil
					}))
				}
				obs.Ints = append(obs.Ints, io)
				if rr.eager != nil {
					atomic.StoreInt32(&rr.eager.resumed, 1)
				}
				out, err = r.invoke(ctx, ropts...)
				rr.mu.Lock()
				obs.Ints[len(obs.Ints)-1].Calls = append([]c11ModCall{}, calls...)
				rr.mu.Unlock()
			}
		})
	})
	switch {
	case panicked:
		obs.Class = "panic"
		obs.ErrText = fmt.Sprint(pv)
		return
	case !finished:
		return c11RunObs{Class: "hang", Nodes: map[string]*c11NodeObs{}, GenIDs: []int{}, States: []c11StateObs{}}
	case err != nil:
		obs.Class = "error"
		obs.ErrText = err.Error()
		if len(obs.ErrText) > 400 {
			obs.ErrText = obs.ErrText[:400]
		}
	}
	obs.Out = out
	if rr.eager != nil {
		obs.Overlaps = int(atomic.LoadInt32(&rr.eager.overlaps))
		obs.Barrier = rr.eager.barrier()
	}
	rr.mu.Lock()
	isGen := map[*C11State]bool{}
	for _, p := range rr.genPtrs {
		isGen[p] = true
		obs.GenIDs = append(obs.GenIDs, p.ID)
		obs.States = append(obs.States, c11Snapshot(p, true))
	}
	for _, p := range rr.ptrs {
		if !isGen[p] {
			obs.States = append(obs.States, c11Snapshot(p, false))
		}
	}
	rr.mu.Unlock()
	return
}

func c11ResumeRunCase(idx int, c *c11Case) *c11CaseObs {
	o := &c11CaseObs{Index: idx}
	l := c11LayoutOf(&c.G)
	var r *c11AnyRunner
	var err error
	if panicked, pv := vh.Safely(func() { r, err = c11CompileResume(c, l, true) }); panicked {
		o.BuildErr = fmt.Sprint("panic: ", pv)
		return o
	}
	if err != nil {
		o.BuildErr = err.Error()
		return o
	}
	o.Runs = []c11RunObs{c11ResumeOneRun(c, l, r, true)}
	// the uninterrupted reference: same graphs, no interrupt options, no rerun
	ref := *c
	ref.G = c11StripInterrupts(&c.G)
	lr := c11LayoutOf(&ref.G)
	var rf *c11AnyRunner
	if panicked, pv := vh.Safely(func() { rf, err = c11CompileResume(&ref, lr, false) }); panicked || err != nil {
		ro := c11RunObs{Class: "error", ErrText: fmt.Sprint("reference build: ", pv, err), Nodes: map[string]*c11NodeObs{}}
		o.Ref = &ro
		return o
	}
	ro := c11ResumeOneRun(&ref, lr, rf, false)
	o.Ref = &ro
	return o
}
