//go:build verif && (vh_all || vh_c07)

package props

// C07 — extension of the shared type menu (c20types.go) with defined (named) types over
// unnamed members of the universe, and with the unnamed literals themselves:
//
//	c5  map[string]any            (menu)      c6  type c07MyMap map[string]any
//	c7  []int                                 c8  type c07Ints  []int
//	c0  string (a named type)     (menu)      c9  type c07MyStr string
//	c10 func(int) int                         c11 type c07Fn    func(int) int
//	c12 chan int                              c13 <-chan int
//
// Go's assignability (reflect.Type.AssignableTo) accepts c5<->c6, c7<->c8, c10<->c11 and
// c12->c13 (identical underlying types, one side not a named type; bidirectional channel to
// directional channel), but a type assertion `v.(T)` – what every node, branch and state
// handler of eino does with its input – succeeds only for the identical type.  eino's own rule
// (compose/utils.go checkAssignable) answers must-not for every pair of distinct concrete
// types, so none of these connections may be accepted.  c0/c9 is the control pair: both named,
// not assignable under either rule.
//
// The model side needs nothing new: a concrete type is `Ty.conc id`, ids are compared for
// equality (EinoV/Model/C20Builder.lean checkAssignable, EinoV/Model/C07.lean dynOk).  What
// Go's rule would answer is EinoV/Model/C07Types.lean goAssignable; its table over this menu
// is compared with reflect in c07CheckUniverse.

import (
	"context"
	"fmt"
	"reflect"

	"github.com/cloudwego/eino/compose"
)

type c07MyMap map[string]any
type c07Ints []int
type c07MyStr string
type c07Fn func(int) int

// the new concrete names, in id order
var c07ExtConcrete = []string{"c6", "c7", "c8", "c9", "c10", "c11", "c12", "c13"}

// every name of the extended universe / every concrete one
var c07AllNames []string
var c07AllConcrete []string

// pairs (a, b) with a != b for which reflect says a.AssignableTo(b) although both are concrete
// (filled in init from reflect, reported in the distribution)
var c07GoOnlyPairs [][2]string

// families: an unnamed literal / predeclared type with the defined types over it
var c07Families = [][]string{{"c5", "c6"}, {"c7", "c8"}, {"c0", "c9"}, {"c10", "c11"}, {"c12", "c13"}}

func c07RegOuts[I any](i string, outs []string) {
	for _, o := range outs {
		switch o {
		case "c0":
			c20RegPair[I, string](i, o)
		case "c1":
			c20RegPair[I, int](i, o)
		case "c2":
			c20RegPair[I, c20S](i, o)
		case "c3":
			c20RegPair[I, c20ImplA](i, o)
		case "c4":
			c20RegPair[I, c20ImplB](i, o)
		case "c5":
			c20RegPair[I, map[string]any](i, o)
		case "i0":
			c20RegPair[I, c20I0](i, o)
		case "i1":
			c20RegPair[I, c20I1](i, o)
		case "any":
			c20RegPair[I, any](i, o)
		case "c6":
			c20RegPair[I, c07MyMap](i, o)
		case "c7":
			c20RegPair[I, []int](i, o)
		case "c8":
			c20RegPair[I, c07Ints](i, o)
		case "c9":
			c20RegPair[I, c07MyStr](i, o)
		case "c10":
			c20RegPair[I, func(int) int](i, o)
		case "c11":
			c20RegPair[I, c07Fn](i, o)
		case "c12":
			c20RegPair[I, chan int](i, o)
		case "c13":
			c20RegPair[I, <-chan int](i, o)
		default:
			panic("c07RegOuts: unknown type name " + o)
		}
	}
}

// a new input type: pairs with every output type, branch condition, state handlers
func c07RegNewIn[I any](i string) {
	c07RegOuts[I](i, c07AllNames)
	c20Branches[i] = func(pick string, ends map[string]bool) *compose.GraphBranch {
		return compose.NewGraphBranch(func(ctx context.Context, in I) (string, error) { return pick, nil }, ends)
	}
	c20RegHandler[I, *c20StA](i, 0)
	c20RegHandler[I, *c20StB](i, 1)
}

func init() {
	c07AllNames = append(append([]string{}, c20TyNames...), c07ExtConcrete...)
	c07AllConcrete = append(append([]string{}, c20Concrete...), c07ExtConcrete...)

	c20RTypes["c6"] = reflect.TypeOf(c07MyMap{})
	c20RTypes["c7"] = reflect.TypeOf([]int{})
	c20RTypes["c8"] = reflect.TypeOf(c07Ints{})
	c20RTypes["c9"] = reflect.TypeOf(c07MyStr(""))
	c20RTypes["c10"] = reflect.TypeOf((func(int) int)(nil))
	c20RTypes["c11"] = reflect.TypeOf(c07Fn(nil))
	c20RTypes["c12"] = reflect.TypeOf((chan int)(nil))
	c20RTypes["c13"] = reflect.TypeOf((<-chan int)(nil))

	ch := make(chan int, 1)
	c20ExtVals["c6"] = func() any { return c07MyMap{"k": "v"} }
	c20ExtVals["c7"] = func() any { return []int{1, 2} }
	c20ExtVals["c8"] = func() any { return c07Ints{3} }
	c20ExtVals["c9"] = func() any { return c07MyStr("m") }
	c20ExtVals["c10"] = func() any { return func(x int) int { return x + 1 } }
	c20ExtVals["c11"] = func() any { return c07Fn(func(x int) int { return x + 2 }) }
	c20ExtVals["c12"] = func() any { return ch }
	c20ExtVals["c13"] = func() any { return (<-chan int)(ch) }
	c20ExtConcrete = c07ExtConcrete

	// the old input types get the new output types; the new input types get everything
	c07RegOuts[string]("c0", c07ExtConcrete)
	c07RegOuts[int]("c1", c07ExtConcrete)
	c07RegOuts[c20S]("c2", c07ExtConcrete)
	c07RegOuts[c20ImplA]("c3", c07ExtConcrete)
	c07RegOuts[c20ImplB]("c4", c07ExtConcrete)
	c07RegOuts[map[string]any]("c5", c07ExtConcrete)
	c07RegOuts[c20I0]("i0", c07ExtConcrete)
	c07RegOuts[c20I1]("i1", c07ExtConcrete)
	c07RegOuts[any]("any", c07ExtConcrete)
	c07RegNewIn[c07MyMap]("c6")
	c07RegNewIn[[]int]("c7")
	c07RegNewIn[c07Ints]("c8")
	c07RegNewIn[c07MyStr]("c9")
	c07RegNewIn[func(int) int]("c10")
	c07RegNewIn[c07Fn]("c11")
	c07RegNewIn[chan int]("c12")
	c07RegNewIn[<-chan int]("c13")

	for _, a := range c07AllConcrete {
		for _, b := range c07AllConcrete {
			if a != b && c20RTypes[a].AssignableTo(c20RTypes[b]) {
				c07GoOnlyPairs = append(c07GoOnlyPairs, [2]string{a, b})
			}
		}
	}
}

// c07Impl: reflect's `implements` relation over the whole extended universe (what c20Impl
// computes for the 9-type menu)
func c07Impl() [][2]any {
	var out [][2]any
	for _, t := range c07AllNames {
		for j, in := range []string{"i0", "i1"} {
			if t != in && c20RTypes[t].Implements(c20RTypes[in]) {
				out = append(out, [2]any{t, j})
			}
		}
	}
	return out
}

// c07Asserts: does `v.(T)` succeed for a (non-nil) value of the concrete type dyn and T = ty –
// Go's own answer, obtained by really asserting
func c07Asserts(dyn, ty string) bool {
	return c07AssertFns[ty](c20Val(dyn))
}

var c07AssertFns = map[string]func(v any) bool{}

func c07RegAssert[T any](t string) {
	c07AssertFns[t] = func(v any) bool { _, ok := v.(T); return ok }
}

func init() {
	c07RegAssert[string]("c0")
	c07RegAssert[int]("c1")
	c07RegAssert[c20S]("c2")
	c07RegAssert[c20ImplA]("c3")
	c07RegAssert[c20ImplB]("c4")
	c07RegAssert[map[string]any]("c5")
	c07RegAssert[c07MyMap]("c6")
	c07RegAssert[[]int]("c7")
	c07RegAssert[c07Ints]("c8")
	c07RegAssert[c07MyStr]("c9")
	c07RegAssert[func(int) int]("c10")
	c07RegAssert[c07Fn]("c11")
	c07RegAssert[chan int]("c12")
	c07RegAssert[<-chan int]("c13")
	c07RegAssert[c20I0]("i0")
	c07RegAssert[c20I1]("i1")
	c07RegAssert[any]("any")
}

// c07TypeDesc: how Go describes a concrete type of the universe, sent to the oracle's
// "universe" query so that the Lean description (EinoV/Model/C07Types.lean menuUniv) is
// checked against reflect, not trusted
type c07TypeDesc struct {
	Name  string `json:"name"`
	Named bool   `json:"named"` // a defined or predeclared type (reflect: Name() != "")
	Kind  string `json:"kind"`
}

func c07Describe(n string) c07TypeDesc {
	t := c20RTypes[n]
	return c07TypeDesc{Name: n, Named: t.Name() != "", Kind: fmt.Sprint(t.Kind())}
}
