//go:build verif && (vh_all || vh_c17)

package props

import (
	"context"
	"fmt"
	"io"
	"sync"

	"github.com/cloudwego/eino/compose"
	"github.com/cloudwego/eino/schema"
	"github.com/cloudwego/eino/verifharness/vh"
)

// Family `readers` (lean/EinoV/Model/C17Readers.lean): more than one consumer of the stream a
// tools node hands out, each concatenating what it received.
//   - standalone / graph with `readers` = k >= 2: the stream is copied (StreamReader.Copy(k)),
//     every copy is read to its end and concatenated — one copy after the other, or
//     (`readConc`) all read concurrently, then all concatenate concurrently;
//   - host graphBranch: tools -> branch with a NON-stream condition -> non-stream node -> END
//     (run with Stream the framework concatenates for the condition, then again for the node);
//   - host graphFan: tools -> two non-stream successors -> END.
// Every consumer's list must be the list Invoke returns, and (copies) the chunks a reader
// received must not be modified afterwards: each chunk is deep-copied on receipt and
// compared with itself when every reader is done.

func c17ConcatHost(c *c17Case) bool {
	return c.Host == "graphConcat" || c.Host == "graphBranch" || c.Host == "graphFan"
}

type c17Reader struct {
	raw     [][]*schema.Message // the chunks as received (shared with the other copies)
	snap    [][]*schema.Message // deep copies made on receipt
	coll    []*c17Msg
	collErr string
	shape   string
	err     error
}

func c17Snap(ch []*schema.Message) []*schema.Message {
	out := make([]*schema.Message, len(ch))
	for i, m := range ch {
		if m != nil {
			cp := *m
			cp.ToolCalls = append([]schema.ToolCall(nil), m.ToolCalls...)
			out[i] = &cp
		}
	}
	return out
}

func c17SameChunk(a, b []*schema.Message) bool {
	if len(a) != len(b) {
		return false
	}
	for i := range a {
		if (a[i] == nil) != (b[i] == nil) {
			return false
		}
		if a[i] != nil && (a[i].Role != b[i].Role || a[i].Content != b[i].Content || a[i].ToolCallID != b[i].ToolCallID ||
			a[i].Name != b[i].Name || len(a[i].ToolCalls) != len(b[i].ToolCalls)) {
			return false
		}
	}
	return true
}

func (rd *c17Reader) concat() {
	coll, cerr := c17Collect(rd.raw)
	rd.collErr = cerr
	if cerr == "" {
		// canonicalised at once: the result shares its messages with the chunks
		rd.coll = make([]*c17Msg, len(coll))
		for i, m := range coll {
			rd.coll[i] = c17Canon(m, &rd.shape)
		}
	}
}

// c17Modified: which chunks of which reader differ from the copy made when they were received.
func c17Modified(rds []*c17Reader) string {
	for j, rd := range rds {
		for i := range rd.raw {
			if !c17SameChunk(rd.raw[i], rd.snap[i]) {
				return fmt.Sprintf("chunk %d of reader %d was modified after it had been received", i, j)
			}
		}
	}
	return ""
}

// c17Rec records what the non-stream consumers inside a graph received.
type c17Rec struct {
	mu   sync.Mutex
	seen map[string][]*c17Msg
	raw  map[string][]*schema.Message
	note string
}

func (r *c17Rec) add(name string, in []*schema.Message) {
	shape := ""
	l := make([]*c17Msg, len(in))
	for i, m := range in {
		l[i] = c17Canon(m, &shape)
	}
	r.mu.Lock()
	if _, dup := r.seen[name]; dup {
		r.note += " consumer " + name + " ran twice;"
	}
	r.seen[name] = l
	r.raw[name] = in
	if shape != "" {
		r.note += " message shape at " + name + ": " + shape + ";"
	}
	r.mu.Unlock()
}

// c17ReaderHost builds the graph of the hosts graphBranch / graphFan around the tools node.
func c17ReaderHost(ctx context.Context, c *c17Case, tn *compose.ToolsNode, rec *c17Rec, gopts []compose.Option,
	input func() *schema.Message) (invoke func() ([]*schema.Message, error), stream func() (*schema.StreamReader[[]*schema.Message], error), err error) {
	if c.Host == "graphBranch" {
		g := compose.NewGraph[*schema.Message, []*schema.Message]()
		if err = g.AddToolsNode("tools", tn); err != nil {
			return
		}
		if err = g.AddLambdaNode("next", compose.InvokableLambda(func(ctx context.Context, in []*schema.Message) ([]*schema.Message, error) {
			rec.add("next", in)
			return in, nil
		})); err != nil {
			return
		}
		// a branch needs two ends; this one is never chosen
		if err = g.AddLambdaNode("other", compose.InvokableLambda(func(ctx context.Context, in []*schema.Message) ([]*schema.Message, error) {
			rec.add("other", in)
			return nil, nil
		})); err != nil {
			return
		}
		g.AddEdge(compose.START, "tools")
		if err = g.AddBranch("tools", compose.NewGraphBranch(func(ctx context.Context, in []*schema.Message) (string, error) {
			rec.add("branch", in)
			return "next", nil
		}, map[string]bool{"next": true, "other": true})); err != nil {
			return
		}
		g.AddEdge("next", compose.END)
		g.AddEdge("other", compose.END)
		r, e := g.Compile(ctx)
		if e != nil {
			return nil, nil, e
		}
		invoke = func() ([]*schema.Message, error) { return r.Invoke(ctx, input(), gopts...) }
		stream = func() (*schema.StreamReader[[]*schema.Message], error) { return r.Stream(ctx, input(), gopts...) }
		return
	}
	// graphFan
	g := compose.NewGraph[*schema.Message, map[string]any]()
	if err = g.AddToolsNode("tools", tn); err != nil {
		return
	}
	for _, name := range []string{"l1", "l2"} {
		name := name
		if err = g.AddLambdaNode(name, compose.InvokableLambda(func(ctx context.Context, in []*schema.Message) (map[string]any, error) {
			rec.add(name, in)
			return map[string]any{name: len(in)}, nil
		})); err != nil {
			return
		}
	}
	g.AddEdge(compose.START, "tools")
	g.AddEdge("tools", "l1")
	g.AddEdge("tools", "l2")
	g.AddEdge("l1", compose.END)
	g.AddEdge("l2", compose.END)
	r, e := g.Compile(ctx)
	if e != nil {
		return nil, nil, e
	}
	// the run's own output is a map; what is compared as "the output" is what l1 received
	first := func() []*schema.Message {
		rec.mu.Lock()
		defer rec.mu.Unlock()
		return rec.raw["l1"]
	}
	invoke = func() ([]*schema.Message, error) {
		if _, err := r.Invoke(ctx, input(), gopts...); err != nil {
			return nil, err
		}
		return first(), nil
	}
	stream = func() (*schema.StreamReader[[]*schema.Message], error) {
		sr, err := r.Stream(ctx, input(), gopts...)
		if err != nil {
			return nil, err
		}
		defer sr.Close()
		for {
			if _, err := sr.Recv(); err != nil {
				if err == io.EOF {
					break
				}
				return nil, err
			}
		}
		return schema.StreamReaderFromArray([][]*schema.Message{first()}), nil
	}
	return
}

func c17ReaderNames(c *c17Case) []string {
	switch c.Host {
	case "graphBranch":
		return []string{"branch", "next"}
	case "graphFan":
		return []string{"l1", "l2"}
	}
	return nil
}

// ---- generators ----

// c17GenReaders: a generated case with several consumers of the stream.
func c17GenReaders(r *vh.Rand) *c17Case {
	c := c17Gen(r)
	for tries := 0; len(c.Calls) < 2 && tries < 4; tries++ {
		c = c17Gen(r)
	}
	switch p := r.Intn(100); {
	case p < 45:
		c.Host = []string{"standalone", "graph"}[r.Intn(2)]
		c.Mode = "stream"
		c.Readers = r.Range(2, 4)
		c.ReadConc = r.Chance(35)
	case p < 75:
		c.Host = "graphBranch"
		if r.Chance(80) {
			c.Mode = "stream"
		}
	default:
		c.Host = "graphFan"
		if r.Chance(80) {
			c.Mode = "stream"
		}
	}
	return c
}

// c17SystematicReaders: 1-3 calls (a streamable-only tool with several chunks per call, an
// invokable-only one, a repeated tool) x {Copy(2) / Copy(3) read in turn, Copy(2) read
// concurrently} on standalone / graph, and the hosts graphBranch / graphFan run with Stream
// and with Invoke x two completion orders.
func c17SystematicReaders() []*c17Case {
	var out []*c17Case
	type shape struct {
		host     string
		mode     string
		readers  int
		readConc bool
	}
	shapes := []shape{
		{"standalone", "stream", 2, false}, {"standalone", "stream", 3, false}, {"standalone", "stream", 2, true},
		{"graph", "stream", 2, false}, {"graph", "stream", 3, true},
		{"graphBranch", "stream", 0, false}, {"graphBranch", "invoke", 0, false},
		{"graphFan", "stream", 0, false}, {"graphFan", "invoke", 0, false},
	}
	for n := 1; n <= 3; n++ {
		for si := 0; si < 2; si++ {
			for ti := 0; ti < 3; ti++ { // which tool the first call names
				for _, sh := range shapes {
					c := &c17Case{Assistant: true, Mode: sh.mode, Host: sh.host, Sched: []int{}, Readers: sh.readers, ReadConc: sh.readConc, Pipe: (n+ti)%2 == 0}
					c.Tools = []c17Tool{{Name: "a", Kind: "str", Tag: "T0"}, {Name: "b", Kind: "inv", Tag: "T1"}, {Name: "c", Kind: "both", Tag: "T2"}}
					for k := 0; k < n; k++ {
						cl := c17Call{ID: fmt.Sprintf("c%d", k), Name: []string{"a", "b", "c"}[(k+ti)%3], Args: fmt.Sprintf("%d|r%d", k, k), Fault: "none", Fid: 100 + k, Cuts: []int{1, 2, 1}}
						if k == 2 {
							cl.Name = c.Calls[0].Name // a repeated tool
						}
						c.Calls = append(c.Calls, cl)
						if si == 0 {
							c.Sigma = append(c.Sigma, k)
						} else {
							c.Sigma = append([]int{k}, c.Sigma...)
						}
					}
					out = append(out, c)
				}
			}
		}
	}
	return out
}

func c17ReadersShape(c *c17Case) string {
	if c.Readers < 2 {
		return ""
	}
	return fmt.Sprintf("r%d%v", c.Readers, c.ReadConc)
}
