//go:build verif && (vh_all || vh_c08)

package props

import (
	"encoding/json"
	"fmt"
	"io"
	"reflect"
	"runtime"
	"strings"
	"sync"
	"time"

	"github.com/cloudwego/eino/schema"
	"github.com/cloudwego/eino/verifharness/vh"
)

func init() { vh.Register("C08", runC08) }

// ---- case language (the same objects go to the Lean oracle) ----

type c08Op struct {
	K      string   `json:"k"` // pipe arr conv copy merge send feed closeSend recv close
	Cap    int      `json:"cap,omitempty"`
	Items  []int    `json:"items,omitempty"`
	R      int      `json:"r,omitempty"`
	N      int      `json:"n,omitempty"`
	Rs     []int    `json:"rs,omitempty"`
	P      int      `json:"p,omitempty"`
	C      int      `json:"c,omitempty"`
	E      int      `json:"e,omitempty"`
	Closed bool     `json:"closed,omitempty"`
	Eof    bool     `json:"eof,omitempty"`
	Add    int      `json:"add,omitempty"`
	Sm     int      `json:"sm,omitempty"`
	Sr     int      `json:"sr,omitempty"`
	Em     int      `json:"em,omitempty"`
	Er     int      `json:"er,omitempty"`
	Its    [][2]int `json:"its,omitempty"`
}

type c08Plan struct { // concurrent mode: what each goroutine does
	Sends map[string][][2]int `json:"sends"` // writer id -> items (chunk, err)
	Reads map[string]int      `json:"reads"` // reader id -> -1 = until EOF, k = close after k items
}

type c08Case struct {
	Mode string   `json:"mode"` // seq | conc | fwd-delay
	Ops  []c08Op  `json:"ops"`
	Plan *c08Plan `json:"plan,omitempty"`
	Tear string   `json:"tear,omitempty"` // seq: close-first | eof-first
}

type c08Reply struct {
	Ok      bool              `json:"ok"`
	Created []int             `json:"created"`
	Readers [][]int           `json:"readers"` // [id, recvEnabled, selectBelow, kind, listed]
	Writers [][]int           `json:"writers"` // [id, sendCode, drainable, drainBound, cap]
	At      int               `json:"at"`
	Why     string            `json:"why"`
	Allowed []json.RawMessage `json:"allowed"`
}

var c08Kinds = map[int]string{0: "pipe", 1: "array", 2: "convert", 3: "copy-child", 4: "merge", 9: "other"}

// ---- error values carried by items ----

//
// The model identifies the error value of an item by a number (Item.err ≠ 0) and treats every
// such item as an ordinary ELEMENT of the stream: only the sentinel io.EOF itself, returned by
// Recv, is the end of the stream.  The number also fixes which Go value carries it (so a case
// is self-contained and replays with the same values):
//
//	id%3 == 0  opaque     *c08Error                                 errors.Is(e, io.EOF) == false
//	id%3 == 1  wraps-eof  fmt.Errorf("c08 read %d: %w", id, io.EOF) e != io.EOF, errors.Is(e, io.EOF)
//	id%3 == 2  is-eof     *c08EOFLike, whose Is(io.EOF) is true      e != io.EOF, errors.Is(e, io.EOF)
//
// A receive path that tests for the end of the stream with errors.Is instead of == takes the
// last two for io.EOF.  What comes back from Recv is decoded by identity of the value (type
// switch / registry of the values made), never by message text or by unwrapping.

type c08Error struct{ id int }

func (e *c08Error) Error() string { return fmt.Sprintf("c08-err-%d", e.id) }

type c08EOFLike struct{ id int }

func (e *c08EOFLike) Error() string        { return fmt.Sprintf("c08-eoflike-%d", e.id) }
func (e *c08EOFLike) Is(target error) bool { return target == io.EOF }

var c08ErrKinds = [3]string{"opaque", "wraps-eof", "is-eof"}

func c08ErrKind(id int) string {
	if id == 0 {
		return "none"
	}
	return c08ErrKinds[id%3]
}

// c08ErrReg: the fmt.Errorf values made for one case, by identity.
type c08ErrReg struct {
	mu sync.Mutex
	m  map[error]int
}

func (g *c08ErrReg) mk(id int) error {
	switch id % 3 {
	case 0:
		return &c08Error{id: id}
	case 2:
		return &c08EOFLike{id: id}
	}
	e := fmt.Errorf("c08 read %d: %w", id, io.EOF)
	g.mu.Lock()
	if g.m == nil {
		g.m = map[error]int{}
	}
	g.m[e] = id
	g.mu.Unlock()
	return e
}

// id of an error value that came out of a Recv (0, false: not a value this case made)
func (g *c08ErrReg) id(err error) (int, bool) {
	switch x := err.(type) {
	case *c08Error:
		return x.id, true
	case *c08EOFLike:
		return x.id, true
	}
	if t := reflect.TypeOf(err); t == nil || !t.Comparable() {
		return 0, false
	}
	g.mu.Lock()
	defer g.mu.Unlock()
	id, ok := g.m[err]
	return id, ok
}

// ---- the implementation side ----

type c08World struct {
	readers map[int]*schema.StreamReader[int]
	writers map[int]*schema.StreamWriter[int]
	wclosed map[int]bool
	convN   int
	errs    c08ErrReg
	// arena: every array source of a case is a window of one backing array with spare capacity behind
	// it (as slices built by append / sub-slicing are in user code).  A correct implementation never
	// writes through a source slice, so this changes nothing for it; an implementation that appends to
	// a source slice writes into the next window / into what sibling copies read.
	arena []int
}

func c08NewWorld() *c08World {
	return &c08World{readers: map[int]*schema.StreamReader[int]{}, writers: map[int]*schema.StreamWriter[int]{}, wclosed: map[int]bool{}}
}

// cleanup releases whatever a case that ended early still holds (so that forwarding goroutines
// end): every open writer and every held reader is closed; nothing is checked.
func (w *c08World) cleanup() {
	for p, sw := range w.writers {
		if !w.wclosed[p] {
			sw := sw
			vh.Safely(func() { vh.WithTimeout(2*time.Second, sw.Close) })
		}
	}
	for _, sr := range w.readers {
		sr := sr
		vh.Safely(func() { vh.WithTimeout(2*time.Second, sr.Close) })
	}
}

func (w *c08World) convFn(op c08Op) func(int) (int, error) {
	add, sm, sr, em, er := op.Add, op.Sm, op.Sr, op.Em, op.Er
	return func(v int) (int, error) {
		if sm != 0 && v%sm == sr {
			if v%2 == 0 {
				return 0, schema.ErrNoValue
			}
			return 0, fmt.Errorf("nothing here: %w", schema.ErrNoValue)
		}
		if em != 0 && v%em == er {
			return v + add, w.errs.mk(v + add)
		}
		return v + add, nil
	}
}

const c08OpTimeout = 10 * time.Second

const c08ConcMaxItems = 200000

// c08Exec runs one operation on the real code. status: "" | "hang" | "panic:<v>" | "foreign-error:<v>".
// For constructors, made = the new readers in the order the oracle numbers them.
func (w *c08World) exec(op *c08Op) (made []*schema.StreamReader[int], status string) {
	var run func()
	switch op.K {
	case "pipe":
		run = func() {
			sr, sw := schema.Pipe[int](op.Cap)
			w.writers[-1] = sw
			made = []*schema.StreamReader[int]{sr}
		}
	case "arr":
		run = func() {
			if w.arena == nil {
				w.arena = make([]int, 0, 256)
			}
			if len(w.arena)+len(op.Items) > cap(w.arena) {
				made = []*schema.StreamReader[int]{schema.StreamReaderFromArray(append(make([]int, 0, len(op.Items)+8), op.Items...))}
			} else {
				start := len(w.arena)
				w.arena = append(w.arena, op.Items...)
				made = []*schema.StreamReader[int]{schema.StreamReaderFromArray(w.arena[start:len(w.arena)])} // cap reaches into the next window
			}
		}
	case "conv":
		run = func() {
			made = []*schema.StreamReader[int]{schema.StreamReaderWithConvert(w.readers[op.R], w.convFn(*op))}
		}
	case "copy":
		run = func() { made = w.readers[op.R].Copy(op.N) }
	case "merge":
		run = func() {
			var srs []*schema.StreamReader[int]
			for _, r := range op.Rs {
				srs = append(srs, w.readers[r])
			}
			made = []*schema.StreamReader[int]{schema.MergeStreamReaders(srs)}
		}
	case "send":
		run = func() {
			var err error
			if op.E != 0 {
				err = w.errs.mk(op.E)
			}
			op.Closed = w.writers[op.P].Send(op.C, err)
		}
	case "closeSend":
		run = func() { w.writers[op.P].Close() }
	case "recv":
		run = func() {
			v, err := w.readers[op.R].Recv()
			op.C, op.E, op.Eof = v, 0, false
			switch {
			case err == nil:
			case err == io.EOF:
				op.Eof, op.C = true, 0
			default:
				id, ok := w.errs.id(err)
				if !ok {
					status = "foreign-error:" + err.Error()
				}
				op.E = id
			}
		}
	case "close":
		run = func() { w.readers[op.R].Close() }
	default:
		return nil, "panic:unknown op " + op.K
	}
	finished := false
	if panicked, pv := vh.Safely(func() { finished = vh.WithTimeout(c08OpTimeout, run) }); panicked {
		return nil, fmt.Sprint("panic:", pv)
	}
	if !finished {
		return nil, "hang"
	}
	return made, status
}

// bind registers the objects a constructor made under the ids the oracle gave them.
func (w *c08World) bind(op *c08Op, made []*schema.StreamReader[int], created []int) error {
	switch op.K {
	case "conv", "copy", "merge":
		if op.K == "copy" && op.N < 2 {
			return nil
		}
		if op.K == "merge" {
			if len(op.Rs) < 2 {
				return nil
			}
			for _, r := range op.Rs {
				delete(w.readers, r)
			}
		} else {
			delete(w.readers, op.R)
		}
	case "pipe", "arr":
	case "close":
		delete(w.readers, op.R)
		return nil
	case "closeSend":
		w.wclosed[op.P] = true
		return nil
	default:
		return nil
	}
	if len(made) != len(created) {
		return fmt.Errorf("C08: constructor %s made %d readers, the model %d", op.K, len(made), len(created))
	}
	for i, id := range created {
		w.readers[id] = made[i]
	}
	if op.K == "pipe" {
		w.writers[created[0]] = w.writers[-1]
		delete(w.writers, -1)
	}
	return nil
}

// ---- oracle ----

var c08AskTime, c08ExecTime time.Duration

func c08Ask(ctx *vh.Ctx, ops []c08Op) (*c08Reply, error) {
	b, err := json.Marshal(ops)
	if err != nil {
		return nil, err
	}
	return c08AskRaw(ctx, b)
}

// c08AskRaw: opsJSON is the JSON array of the ops (kept incrementally by the sequential runner so
// that a trace of n ops is not re-marshalled n times).
func c08AskRaw(ctx *vh.Ctx, opsJSON []byte) (*c08Reply, error) {
	t0 := time.Now()
	defer func() { c08AskTime += time.Since(t0) }()
	req := make([]byte, 0, len(opsJSON)+10)
	req = append(append(append(req, `{"ops":`...), opsJSON...), '}')
	raw, err := ctx.Oracle.Ask("C08", json.RawMessage(req))
	if err != nil {
		return nil, err
	}
	var rep c08Reply
	if err := json.Unmarshal(raw, &rep); err != nil {
		return nil, err
	}
	return &rep, nil
}

func c08KindOf(st *c08Reply, r int) string {
	if st != nil {
		for _, x := range st.Readers {
			if x[0] == r {
				return c08Kinds[x[3]]
			}
		}
	}
	return "?"
}

func c08Obs(op c08Op) any {
	switch op.K {
	case "recv":
		if op.Eof {
			return "eof"
		}
		if op.E != 0 {
			return []any{op.C, op.E, "error item, " + c08ErrKind(op.E)}
		}
		return []int{op.C, op.E}
	case "send":
		return map[string]bool{"closed": op.Closed}
	}
	return nil
}

// ---- one sequential case ----

type c08Seq struct {
	ctx          *vh.Ctx
	w            *c08World
	c            *c08Case
	st           *c08Reply // model state after c.Ops
	nCons        int
	seq          map[int]int // per pipe: items sent so far
	stats        map[string]int
	bad          bool
	enc          []byte                  // JSON of c.Ops without the closing bracket
	sigs         map[int]map[string]bool // per reader: the source paths its values come along
	fwd          map[int]bool            // per reader: a forwarding goroutine (merged convert / copy child) is below it
	inconclusive bool
	width        map[int]int // per reader: number of sources of a merged reader (nested merges flattened), 1 otherwise
}

// step executes op on the implementation, appends it (with the observation) to the trace and
// lets the oracle validate it.  Returns false when the case is over (disagreement recorded).
func (s *c08Seq) step(op c08Op) (bool, error) {
	kind := "pipe-writer"
	if op.K == "recv" || op.K == "close" || op.K == "conv" || op.K == "copy" {
		kind = c08KindOf(s.st, op.R)
	}
	if n := len(s.c.Ops); n < 12 || n%8 == 0 || (op.K != "send" && op.K != "recv") {
		// (a file write per step would dominate the run; the prefix up to the last constructor,
		// close or every 8th op is enough to name a case that kills the process)
		s.ctx.Progress.Mark(map[string]any{"mode": s.c.Mode, "tear": s.c.Tear, "ops": append(append([]c08Op{}, s.c.Ops...), op)})
	}
	t0 := time.Now()
	made, status := s.w.exec(&op)
	c08ExecTime += time.Since(t0)
	s.c.Ops = append(s.c.Ops, op)
	s.stats["op="+op.K]++
	if status != "" {
		head := strings.SplitN(status, ":", 2)[0]
		wide := ""
		if op.K == "recv" && kind == "merge" && s.width[op.R] > 5 {
			wide = ":over-5-sources" // the reflect.Select path of multiStreamReader.recv
		}
		s.ctx.Res.Disagree(vh.Disagreement{Signature: fmt.Sprintf("C08:%s:%s:kind=%s%s", head, op.K, kind, wide),
			What: fmt.Sprintf("op #%d %s on a %s: %s (the model says the call returns)", len(s.c.Ops)-1, op.K, kind, status),
			Case: s.c, Model: s.st, Impl: status})
		s.bad = true
		return false, nil
	}
	ob, err := json.Marshal(op)
	if err != nil {
		return false, err
	}
	if len(s.enc) == 0 {
		s.enc = append(s.enc, '[')
	} else {
		s.enc = append(s.enc, ',')
	}
	s.enc = append(s.enc, ob...)
	rep, err := c08AskRaw(s.ctx, append(append([]byte{}, s.enc...), ']'))
	if err != nil {
		return false, err
	}
	if !rep.Ok {
		if strings.HasPrefix(rep.Why, "inconclusive:") {
			// the same values reach this reader along so many paths that the oracle does not keep
			// every explanation of the trace: stop the case (tear the tree down without the model)
			s.ctx.Res.Dist("inconclusive")
			s.inconclusive = true
			return false, nil
		}
		if strings.HasPrefix(rep.Why, "mismatch:") {
			s.ctx.Res.Disagree(vh.Disagreement{Signature: fmt.Sprintf("C08:%s:kind=%s%s", strings.TrimPrefix(rep.Why, "mismatch:"), kind, c08EOFLikeTag(op, rep)),
				What: fmt.Sprintf("op #%d %s on a %s: implementation returned %v, the model allows %s", rep.At, op.K, kind, c08Obs(op), c08AllowedFor(op, rep)),
				Case: s.c, Model: map[string]any{"why": rep.Why, "allowed": rep.Allowed}, Impl: c08Obs(op)})
			s.bad = true
			return false, nil
		}
		return false, fmt.Errorf("C08 harness/model error at op %d (%s): %s", rep.At, op.K, rep.Why)
	}
	if err := s.w.bind(&op, made, rep.Created); err != nil {
		return false, err
	}
	s.track(&op, rep.Created)
	s.st = rep
	if op.E != 0 {
		switch {
		case op.K == "send" && !op.Closed:
			s.stats["send-err="+c08ErrKind(op.E)]++
		case op.K == "recv":
			if s.fwd[op.R] {
				kind += "+forwarder"
			}
			s.stats["recv-err="+c08ErrKind(op.E)+"@"+kind]++
		}
	}
	return true, nil
}

// c08EOFLikeTag marks a Recv mismatch in which an error item that wraps or claims io.EOF is
// involved: the implementation returned such an item where the model expects something else
// (e.g. the same item again), or the model expects such an item and the implementation
// returned something else (the item was swallowed).
func c08EOFLikeTag(op c08Op, rep *c08Reply) string {
	if op.K != "recv" {
		return ""
	}
	like := !op.Eof && op.E != 0 && op.E%3 != 0
	for _, a := range rep.Allowed {
		var it []int
		if json.Unmarshal(a, &it) == nil && len(it) == 2 && it[1] != 0 && it[1]%3 != 0 {
			like = true
		}
	}
	if like {
		return ":eof-like-error-item"
	}
	return ""
}

func c08AllowedFor(op c08Op, rep *c08Reply) string {
	if op.K == "send" {
		if op.Closed {
			return "closed=false only (a reader derived from this pipe is still open)"
		}
		return "closed=true only (every reader derived from this pipe is closed)"
	}
	return c08Allowed(rep)
}

// track keeps, per reader, the set of source paths its values come along (pipe or array id plus the
// converts passed); two readers with a common path deliver equal values.
func (s *c08Seq) track(op *c08Op, created []int) {
	switch op.K {
	case "pipe", "arr", "conv", "copy":
		for _, id := range created {
			s.width[id] = 1
		}
	case "merge":
		if len(op.Rs) >= 2 && len(created) == 1 {
			n := 0
			for _, r := range op.Rs {
				n += s.width[r]
			}
			s.width[created[0]] = n
		}
	}
	switch op.K {
	case "pipe":
		s.sigs[created[0]] = map[string]bool{fmt.Sprintf("p%d", created[0]): true}
	case "arr":
		s.sigs[created[0]] = map[string]bool{fmt.Sprintf("a%d", created[0]): true}
	case "conv":
		m := map[string]bool{}
		for k := range s.sigs[op.R] {
			m[fmt.Sprintf("%s/v%d", k, op.Add)] = true
		}
		s.sigs[created[0]] = m
		s.fwd[created[0]] = s.fwd[op.R]
	case "copy":
		for _, id := range created {
			if id != op.R {
				m := map[string]bool{}
				for k := range s.sigs[op.R] {
					m[k] = true
				}
				s.sigs[id] = m
				s.fwd[id] = s.fwd[op.R]
			}
		}
	case "merge":
		if len(op.Rs) < 2 {
			return
		}
		m := map[string]bool{}
		for _, r := range op.Rs {
			for k := range s.sigs[r] {
				m[k] = true
			}
			if k := c08KindOf(s.st, r); k == "convert" || k == "copy-child" || s.fwd[r] {
				s.fwd[created[0]] = true
			}
		}
		s.sigs[created[0]] = m
	}
}

func (s *c08Seq) overlaps(a int, chosen []int) bool {
	for _, b := range chosen {
		for k := range s.sigs[a] {
			if s.sigs[b][k] {
				return true
			}
		}
	}
	return false
}

func c08Allowed(rep *c08Reply) string {
	var xs []string
	for _, a := range rep.Allowed {
		xs = append(xs, string(a))
	}
	if len(xs) == 0 {
		return "no result (the call should block)"
	}
	return "[" + strings.Join(xs, " ") + "]"
}

func (s *c08Seq) readers(enabledOnly bool) [][]int {
	var out [][]int
	if s.st == nil {
		return nil
	}
	for _, r := range s.st.Readers {
		if !enabledOnly || r[1] == 1 {
			out = append(out, r)
		}
	}
	return out
}

// nextItem: the next (chunk, error id) for pipe p; chunks are distinct and increasing per pipe.
// 20% are error items; their kind (see c08ErrKind) is drawn here — 30% opaque, 40% wrapping
// io.EOF, 30% claiming io.EOF by an Is method — and the value is advanced (by at most 2) to the
// next one that carries that kind.  Error items are followed by further items like any other.
func (s *c08Seq) nextItem(p int) (int, int) {
	s.seq[p]++
	v := (p+1)*1000 + s.seq[p]
	if !s.ctx.Rng.Chance(20) {
		return v, 0
	}
	kind := 1
	switch c := s.ctx.Rng.Intn(100); {
	case c < 30:
		kind = 0
	case c >= 70:
		kind = 2
	}
	for v%3 != kind {
		s.seq[p]++
		v++
	}
	return v, v
}

func (s *c08Seq) genConstructor() (c08Op, bool) {
	r := s.ctx.Rng
	rs := s.readers(false)
	choice := r.Intn(100)
	switch {
	case choice < 22 || len(rs) == 0:
		if r.Chance(25) {
			n := r.Intn(5)
			items := make([]int, n)
			base := (900 + s.nCons) * 1000
			for i := range items {
				items[i] = base + i + 1
			}
			return c08Op{K: "arr", Items: items}, true
		}
		return c08Op{K: "pipe", Cap: r.Intn(5)}, true
	case choice < 50:
		x := rs[r.Intn(len(rs))]
		s.w.convN++
		op := c08Op{K: "conv", R: x[0], Add: 100000 << uint(s.w.convN%20)}
		if x[2] == 0 && r.Chance(45) { // ErrNoValue only over a deterministic subtree
			op.Sm = r.Range(2, 3)
			op.Sr = r.Intn(op.Sm)
		}
		if r.Chance(30) {
			op.Em = []int{3, 5}[r.Intn(2)]
			op.Er = r.Intn(op.Em)
		}
		return op, true
	case choice < 72:
		x := rs[r.Intn(len(rs))]
		n := r.Range(2, 3)
		if r.Chance(8) {
			n = r.Range(0, 1) // Copy(n<2) returns the reader itself
		}
		return c08Op{K: "copy", R: x[0], N: n}, true
	default:
		if len(rs) < 2 {
			return c08Op{K: "pipe", Cap: r.Intn(5)}, true
		}
		k := r.Range(2, len(rs))
		if k > 8 {
			k = 8
		}
		if r.Chance(4) {
			k = 1 // MergeStreamReaders of one reader returns that reader
		}
		perm := r.Perm(len(rs))
		var ids []int
		// mostly merge readers whose values are distinct; now and then (15%) also readers that
		// deliver the same values (copies of one stream), which the oracle explains by keeping
		// several candidate states
		dupOK := r.Chance(15)
		for _, i := range perm {
			if len(ids) == k {
				break
			}
			if dupOK || !s.overlaps(rs[i][0], ids) {
				ids = append(ids, rs[i][0])
			}
		}
		if len(ids) < 2 && k >= 2 {
			return c08Op{K: "pipe", Cap: r.Intn(5)}, true
		}
		if dupOK {
			s.stats["merge-dup"]++
		}
		return c08Op{K: "merge", Rs: ids}, true
	}
}

func (s *c08Seq) genOp() (c08Op, bool) {
	r := s.ctx.Rng
	for try := 0; try < 8; try++ {
		switch c := r.Intn(100); {
		case c < 40: // send
			var ws [][]int
			for _, w := range s.st.Writers {
				if w[1] != 0 {
					ws = append(ws, w)
				}
			}
			if len(ws) == 0 {
				continue
			}
			w := ws[r.Intn(len(ws))]
			v, e := s.nextItem(w[0])
			return c08Op{K: "send", P: w[0], C: v, E: e}, true
		case c < 80: // recv
			rs := s.readers(true)
			if len(rs) == 0 {
				continue
			}
			return c08Op{K: "recv", R: rs[r.Intn(len(rs))][0]}, true
		case c < 87: // close a writer
			if len(s.st.Writers) == 0 {
				continue
			}
			return c08Op{K: "closeSend", P: s.st.Writers[r.Intn(len(s.st.Writers))][0]}, true
		case c < 93: // close a reader
			rs := s.readers(false)
			if len(rs) == 0 {
				continue
			}
			return c08Op{K: "close", R: rs[r.Intn(len(rs))][0]}, true
		default:
			if s.nCons < 14 {
				s.nCons++
				return s.genConstructor()
			}
		}
	}
	return c08Op{}, false
}

// tearDown: (close-first) close every reader, then every writer must be told within the
// model's bound and is closed; or (eof-first) close every writer, read every reader to EOF,
// then close the readers.
func (s *c08Seq) tearDown() error {
	if s.c.Tear == "eof-first" {
		for _, w := range append([][]int{}, s.st.Writers...) {
			if ok, err := s.step(c08Op{K: "closeSend", P: w[0]}); !ok || err != nil {
				return err
			}
		}
		for guard := 0; guard < 400; guard++ {
			rs := s.readers(true)
			// every reader must now be able to make progress: nothing can block any more
			if len(rs) != len(s.st.Readers) {
				return fmt.Errorf("C08 model: a reader blocks although every writer is closed")
			}
			progressed := false
			for _, r := range rs {
				if s.stats[fmt.Sprint("eof-", r[0])] == 1 {
					continue
				}
				ok, err := s.step(c08Op{K: "recv", R: r[0]})
				if !ok || err != nil {
					return err
				}
				if s.c.Ops[len(s.c.Ops)-1].Eof {
					s.stats[fmt.Sprint("eof-", r[0])] = 1
				}
				progressed = true
				break
			}
			if !progressed {
				break
			}
		}
	}
	for len(s.st.Readers) > 0 {
		rs := s.st.Readers
		if ok, err := s.step(c08Op{K: "close", R: rs[s.ctx.Rng.Intn(len(rs))][0]}); !ok || err != nil {
			return err
		}
	}
	for _, w := range append([][]int{}, s.st.Writers...) {
		p := w[0]
		cur := s.writerState(p)
		if cur == nil {
			continue
		}
		if cur[2] != 1 {
			return fmt.Errorf("C08 model: every reader is closed but pipe %d is not (tree_close_propagates)", p)
		}
		bound := cur[3]
		falses := 0
		for {
			v, _ := s.nextItem(p)
			ok, err := s.step(c08Op{K: "send", P: p, C: v, E: v}) // an error item: no convert drops it
			if !ok || err != nil {
				return err
			}
			if s.c.Ops[len(s.c.Ops)-1].Closed {
				break
			}
			falses++
			if falses > bound {
				s.ctx.Res.Disagree(vh.Disagreement{Signature: "C08:writer-never-told:after-all-readers-closed",
					What: fmt.Sprintf("every reader derived from pipe %d is closed, yet %d sends in a row returned closed=false (bound %d)", p, falses, bound),
					Case: s.c, Model: map[string]any{"bound": bound}, Impl: map[string]any{"accepted": falses}})
				s.bad = true
				return nil
			}
		}
		if falses > 0 {
			s.stats["told-late"]++
			s.ctx.Res.Disagree(vh.Disagreement{Signature: "C08:writer-told-late:forwarder",
				What: fmt.Sprintf("every reader derived from pipe %d is closed, but the next %d send(s) returned closed=false: the close reaches the pipe only when the forwarding goroutine of the merged reader next tries to forward an item", p, falses),
				Case: s.c, Model: map[string]any{"bound": bound}, Impl: map[string]any{"accepted_after_close": falses}})
		}
		if ok, err := s.step(c08Op{K: "closeSend", P: p}); !ok || err != nil {
			return err
		}
	}
	return nil
}

func (s *c08Seq) writerState(p int) []int {
	for _, w := range s.st.Writers {
		if w[0] == p {
			return w
		}
	}
	return nil
}

func c08NewSeq(ctx *vh.Ctx, mode string) *c08Seq {
	return &c08Seq{ctx: ctx, w: c08NewWorld(), c: &c08Case{Mode: mode, Ops: []c08Op{}}, seq: map[int]int{}, stats: map[string]int{},
		st: &c08Reply{Ok: true}, sigs: map[int]map[string]bool{}, fwd: map[int]bool{}, width: map[int]int{}}
}

func c08RunSeq(ctx *vh.Ctx) error {
	s := c08NewSeq(ctx, "seq")
	r := ctx.Rng
	s.c.Tear = []string{"close-first", "eof-first"}[r.Intn(2)]
	// build phase
	nSrc := r.Range(1, 4)
	if r.Chance(35) {
		nSrc = r.Range(5, 9)
	}
	for i := 0; i < nSrc; i++ {
		op := c08Op{K: "pipe", Cap: r.Intn(5)}
		if r.Chance(15) {
			n := r.Intn(5)
			items := make([]int, n)
			for j := range items {
				items[j] = (800+i)*1000 + j + 1
			}
			op = c08Op{K: "arr", Items: items}
		}
		if ok, err := s.step(op); !ok || err != nil {
			return s.finish(err)
		}
	}
	for pre := r.Intn(4); pre > 0; pre-- { // some traffic before the tree is built
		if op, ok := s.genOp(); ok {
			if ok, err := s.step(op); !ok || err != nil {
				return s.finish(err)
			}
		}
	}
	for k := r.Intn(6); k > 0; k-- {
		s.nCons++
		op, _ := s.genConstructor()
		if ok, err := s.step(op); !ok || err != nil {
			return s.finish(err)
		}
	}
	steps := r.Range(8, 40)
	for i := 0; i < steps; i++ {
		op, ok := s.genOp()
		if !ok {
			break
		}
		if ok, err := s.step(op); !ok || err != nil {
			return s.finish(err)
		}
	}
	return s.finish(s.tearDown())
}

func (s *c08Seq) finish(err error) error {
	if s.bad || s.inconclusive || err != nil {
		s.w.cleanup()
	}
	if err != nil {
		return err
	}
	// coverage accounting
	shape := c08Shape(s.c.Ops)
	for k, v := range s.stats {
		if strings.HasPrefix(k, "op=") || strings.HasPrefix(k, "send-err=") || strings.HasPrefix(k, "recv-err=") {
			for i := 0; i < v; i++ {
				s.ctx.Res.Dist(k)
			}
		}
	}
	s.ctx.Res.Dist("mode=" + s.c.Mode)
	s.ctx.Res.Dist("tear=" + s.c.Tear)
	for _, op := range s.c.Ops {
		switch op.K {
		case "merge":
			s.ctx.Res.Dist(fmt.Sprintf("merge-of=%d", len(op.Rs)))
		case "pipe":
			s.ctx.Res.Dist(fmt.Sprintf("cap=%d", op.Cap))
		case "recv":
			if op.Eof {
				s.ctx.Res.Dist("recv=eof")
			} else if op.E != 0 {
				s.ctx.Res.Dist("recv=error-item")
			}
		case "send":
			if op.Closed {
				s.ctx.Res.Dist("send=closed")
			}
		case "conv":
			if op.Sm != 0 {
				s.ctx.Res.Dist("conv=skip")
			}
			if op.Em != 0 {
				s.ctx.Res.Dist("conv=fail")
			}
		}
	}
	if s.stats["told-late"] > 0 {
		s.ctx.Res.Dist("told-late")
	}
	nontrivial := strings.ContainsAny(shape, "MCV") && s.stats["op=recv"] > 0
	s.ctx.Res.Count(shape+fmt.Sprintf("/%d", len(s.c.Ops)), nontrivial)
	s.ctx.Res.Sample(map[string]any{"mode": s.c.Mode, "shape": shape, "ops": len(s.c.Ops)})
	return nil
}

// c08Shape: the constructor skeleton of a case, e.g. "P2 P0 A V C3 M4".
func c08Shape(ops []c08Op) string {
	var b []string
	for _, op := range ops {
		switch op.K {
		case "pipe":
			b = append(b, fmt.Sprintf("P%d", op.Cap))
		case "arr":
			b = append(b, "A")
		case "conv":
			t := "V"
			if op.Sm != 0 {
				t += "s"
			}
			if op.Em != 0 {
				t += "e"
			}
			b = append(b, fmt.Sprintf("%s(%d)", t, op.R))
		case "copy":
			b = append(b, fmt.Sprintf("C%d(%d)", op.N, op.R))
		case "merge":
			b = append(b, fmt.Sprintf("M%v", op.Rs))
		}
	}
	return strings.Join(b, " ")
}

// ---- replay of a sequential trace: same requests, fresh observations ----

func c08ReplaySeq(ctx *vh.Ctx, c *c08Case) error {
	s := c08NewSeq(ctx, c.Mode)
	s.c.Tear = c.Tear
	for _, op := range c.Ops {
		req := op
		req.Closed, req.Eof = false, false
		if req.K == "recv" {
			req.C, req.E = 0, 0
			enabled := false
			for _, r := range s.readers(true) {
				enabled = enabled || r[0] == req.R
			}
			if !enabled {
				ctx.Res.Note(fmt.Sprintf("replay: recv on reader %d is not enabled in this run (select order differs); stopping here", req.R))
				break
			}
		}
		if req.K == "send" {
			w := s.writerState(req.P)
			if w == nil || (w[1] == 0 && w[2] != 1) {
				ctx.Res.Note(fmt.Sprintf("replay: send on pipe %d is not enabled in this run; stopping here", req.P))
				break
			}
		}
		if ok, err := s.step(req); !ok || err != nil {
			return err
		}
	}
	ctx.Res.Count("replay", true)
	return nil
}

// ---- the deterministic witness of the late close report through a forwarder ----

func c08FwdDelay(ctx *vh.Ctx) error {
	s := c08NewSeq(ctx, "fwd-delay")
	s.c.Tear = "close-first"
	for _, op := range []c08Op{{K: "pipe", Cap: 1}, {K: "pipe", Cap: 1}, {K: "conv", R: 0, Add: 100000}} {
		if ok, err := s.step(op); !ok || err != nil {
			return err
		}
	}
	convID := s.st.Readers[len(s.st.Readers)-1][0]
	if ok, err := s.step(c08Op{K: "merge", Rs: []int{convID, 1}}); !ok || err != nil {
		return err
	}
	return s.finish(s.tearDown())
}

// c08ArrMerge: array sources merged with each other — directly, through sibling copies of one array
// reader, and with a partially read first source — then everything is read to the end.  (Array
// readers share their backing slice between copies; a merge must not write through it.)
func c08ArrMerge(ctx *vh.Ctx) error {
	s := c08NewSeq(ctx, "seq")
	r := ctx.Rng
	s.c.Tear = "eof-first"
	mk := func(tag, n int) c08Op {
		items := make([]int, n)
		for j := range items {
			items[j] = (700+tag)*1000 + j + 1
		}
		return c08Op{K: "arr", Items: items}
	}
	last := func() int { return s.st.Readers[len(s.st.Readers)-1][0] }
	do := func(op c08Op) (bool, error) { return s.step(op) }
	if ok, err := do(mk(0, r.Range(1, 4))); !ok || err != nil {
		return s.finish(err)
	}
	a := last()
	if r.Chance(40) { // first source partially read
		if ok, err := do(c08Op{K: "recv", R: a}); !ok || err != nil {
			return s.finish(err)
		}
	}
	var firsts []int
	if r.Chance(70) {
		n := r.Range(2, 3)
		if ok, err := do(c08Op{K: "copy", R: a, N: n}); !ok || err != nil {
			return s.finish(err)
		}
		for _, rd := range s.st.Readers[len(s.st.Readers)-n:] {
			firsts = append(firsts, rd[0])
		}
	} else {
		firsts = []int{a}
		if ok, err := do(mk(9, r.Range(1, 3))); !ok || err != nil { // a neighbouring window that is only read
			return s.finish(err)
		}
	}
	for i, f := range firsts {
		if i > 0 && r.Chance(25) {
			continue // this copy is read on its own
		}
		if ok, err := do(mk(i+1, r.Range(1, 3))); !ok || err != nil {
			return s.finish(err)
		}
		rs := []int{f, last()}
		if r.Chance(30) {
			if ok, err := do(c08Op{K: "pipe", Cap: r.Intn(3)}); !ok || err != nil {
				return s.finish(err)
			}
			rs = append(rs, last())
		}
		if ok, err := do(c08Op{K: "merge", Rs: rs}); !ok || err != nil {
			return s.finish(err)
		}
		if r.Chance(50) { // read a little from this merge before the next one is built
			if ok, err := do(c08Op{K: "recv", R: last()}); !ok || err != nil {
				return s.finish(err)
			}
		}
	}
	return s.finish(s.tearDown())
}

// ---- concurrent stress: one goroutine per writer and per reader ----

func c08RunConc(ctx *vh.Ctx, replay *c08Case) error {
	s := c08NewSeq(ctx, "conc")
	r := ctx.Rng
	plan := &c08Plan{Sends: map[string][][2]int{}, Reads: map[string]int{}}
	if replay != nil {
		for _, op := range replay.Ops {
			switch op.K {
			case "pipe", "arr", "conv", "copy", "merge":
				if ok, err := s.step(op); !ok || err != nil {
					return err
				}
			}
		}
		plan = replay.Plan
	} else {
		nSrc := r.Range(1, 8)
		for i := 0; i < nSrc; i++ {
			op := c08Op{K: "pipe", Cap: r.Intn(5)}
			if r.Chance(12) {
				n := r.Intn(5)
				items := make([]int, n)
				for j := range items {
					items[j] = (800+i)*1000 + j + 1
				}
				op = c08Op{K: "arr", Items: items}
			}
			if ok, err := s.step(op); !ok || err != nil {
				return err
			}
		}
		for k := r.Intn(7); k > 0; k-- {
			s.nCons++
			op, _ := s.genConstructor()
			if ok, err := s.step(op); !ok || err != nil {
				return err
			}
		}
		allEOF := r.Chance(50)
		for _, w := range s.st.Writers {
			n := r.Intn(13)
			var its [][2]int
			for i := 0; i < n; i++ {
				v, e := s.nextItem(w[0])
				its = append(its, [2]int{v, e})
			}
			plan.Sends[fmt.Sprint(w[0])] = its
		}
		for _, rd := range s.st.Readers {
			k := -1
			if !allEOF && r.Chance(40) {
				k = r.Intn(6)
			}
			plan.Reads[fmt.Sprint(rd[0])] = k
		}
	}
	s.c.Plan = plan
	tree := append([]c08Op{}, s.c.Ops...)
	ctx.Progress.Mark(s.c)

	type rres struct {
		got    []c08Op
		status string
	}
	var mu sync.Mutex
	accepted := map[int]int{}
	toldClosed := map[int]bool{}
	results := map[int]*rres{}
	var wg sync.WaitGroup
	start := make(chan struct{})
	for _, w := range s.st.Writers {
		p := w[0]
		sw := s.w.writers[p]
		its := plan.Sends[fmt.Sprint(p)]
		wg.Add(1)
		go func() {
			defer wg.Done()
			<-start
			n, told := 0, false
			panicked, pv := vh.Safely(func() {
				for _, it := range its {
					var err error
					if it[1] != 0 {
						err = s.w.errs.mk(it[1])
					}
					if sw.Send(it[0], err) {
						told = true
						break
					}
					n++
				}
				sw.Close()
			})
			mu.Lock()
			accepted[p], toldClosed[p] = n, told
			if panicked {
				results[-p-1] = &rres{status: fmt.Sprint("panic:", pv)}
			}
			mu.Unlock()
		}()
	}
	for _, rd := range s.st.Readers {
		id := rd[0]
		sr := s.w.readers[id]
		k := plan.Reads[fmt.Sprint(id)]
		wg.Add(1)
		go func() {
			defer wg.Done()
			<-start
			res := &rres{}
			panicked, pv := vh.Safely(func() {
				defer sr.Close()
				for i := 0; k < 0 || i < k; i++ {
					v, err := sr.Recv()
					op := c08Op{K: "recv", R: id, C: v}
					switch {
					case err == nil:
					case err == io.EOF:
						op.Eof, op.C = true, 0
					default:
						eid, ok := s.w.errs.id(err)
						if !ok {
							res.status = "foreign-error:" + err.Error()
							return
						}
						op.E = eid
					}
					res.got = append(res.got, op)
					if op.Eof {
						return
					}
					if len(res.got) > c08ConcMaxItems {
						// far more than any tree of ≤ 14 constructors over ≤ 8 short sources can deliver:
						// the reader does not reach the end of its stream
						res.status = fmt.Sprintf("runaway:reader %d received %d items without reaching end-of-stream, the last one %v", id, len(res.got), c08Obs(op))
						return
					}
				}
			})
			if panicked {
				res.status = fmt.Sprint("panic:", pv)
			}
			mu.Lock()
			results[id] = res
			mu.Unlock()
		}()
	}
	close(start)
	done := make(chan struct{})
	go func() { wg.Wait(); close(done) }()
	select {
	case <-done:
	case <-time.After(30 * time.Second):
		buf := make([]byte, 1<<16)
		buf = buf[:runtime.Stack(buf, true)]
		ctx.Res.Disagree(vh.Disagreement{Signature: "C08:deadlock:concurrent", What: "writers and readers of a stream tree did not all finish within 30 s",
			Case: s.c, Impl: string(buf)})
		return nil
	}
	// validation trace: tree, accepted items, writer closes, then every reader's observations
	ops := tree
	allEOF := true
	for _, w := range s.st.Writers {
		p := w[0]
		its := plan.Sends[fmt.Sprint(p)]
		ops = append(ops, c08Op{K: "feed", P: p, Its: append([][2]int{}, its[:accepted[p]]...)}, c08Op{K: "closeSend", P: p})
	}
	for id, res := range results {
		if res.status != "" {
			ctx.Res.Disagree(vh.Disagreement{Signature: "C08:" + strings.SplitN(res.status, ":", 2)[0] + ":concurrent",
				What: fmt.Sprintf("goroutine of reader/writer %d: %s", id, res.status), Case: s.c, Impl: res.status})
			return nil
		}
	}
	for _, rd := range s.st.Readers {
		id := rd[0]
		if plan.Reads[fmt.Sprint(id)] >= 0 {
			allEOF = false
		}
		ops = append(ops, results[id].got...)
	}
	for _, rd := range s.st.Readers {
		ops = append(ops, c08Op{K: "close", R: rd[0]})
	}
	full := &c08Case{Mode: "conc", Ops: ops, Plan: plan}
	rep, err := c08Ask(ctx, ops)
	if err != nil {
		return err
	}
	if !rep.Ok {
		if strings.HasPrefix(rep.Why, "inconclusive:") {
			ctx.Res.Dist("inconclusive")
			return nil
		}
		if !strings.HasPrefix(rep.Why, "mismatch:") {
			return fmt.Errorf("C08 harness/model error in concurrent validation at op %d: %s", rep.At, rep.Why)
		}
		bad := ops[rep.At]
		ctx.Res.Disagree(vh.Disagreement{Signature: fmt.Sprintf("C08:%s:kind=%s%s:concurrent", strings.TrimPrefix(rep.Why, "mismatch:"), c08KindOf(s.st, bad.R), c08EOFLikeTag(bad, rep)),
			What: fmt.Sprintf("concurrent run: reader %d received %v where the model allows %s", bad.R, c08Obs(bad), c08Allowed(rep)),
			Case: full, Model: map[string]any{"why": rep.Why, "allowed": rep.Allowed, "at": rep.At}, Impl: c08Obs(bad)})
		return nil
	}
	if allEOF {
		for p, told := range toldClosed {
			if told {
				ctx.Res.Disagree(vh.Disagreement{Signature: "C08:send-reported-closed-but-a-reader-is-open:concurrent",
					What: fmt.Sprintf("writer %d was told closed although every reader read to end-of-stream before closing", p), Case: full})
			}
		}
	}
	shape := c08Shape(tree)
	ctx.Res.Dist("mode=conc")
	for _, op := range tree {
		if op.K == "merge" {
			ctx.Res.Dist(fmt.Sprintf("conc-merge-of=%d", len(op.Rs)))
		}
	}
	ctx.Res.Count("conc/"+shape, strings.ContainsAny(shape, "MCV"))
	return nil
}

// ---- entry ----

func runC08(ctx *vh.Ctx) error {
	ctx.Res.Rule = "random op sequences (Pipe/FromArray/WithConvert/Copy/Merge constructors interleaved with Send, writer Close, Recv, reader Close; 20% of the items sent are error items at any position, of three kinds: opaque / wrapping io.EOF with %w / a type whose Is method claims io.EOF, all of them ordinary elements for the model; only ops the model says cannot block are issued) + tear-down that checks close/EOF propagation; plus the family `late` (every third sequential case: a source is copied, the copies read ahead / lag behind / are closed, and only then an open copy is handed to Merge, Convert or a second Copy; also partially read arrays), the family `wide` (every sixth sequential case: a merged reader of 2-12 sources, a subset of which ends one after the other in ascending / descending / random index order with 0-6 marker receives after each end, the others staying open and silent; then every open source is probed with one item that the next Recv must return) and concurrent runs of random trees (goroutine per end). non-trivial = the tree has a copy, merge or convert and at least one Recv; distinct by constructor skeleton and trace length"
	if ctx.Replay != nil {
		var c c08Case
		if err := json.Unmarshal(ctx.Replay, &c); err != nil {
			return err
		}
		switch c.Mode {
		case "conc":
			return c08RunConc(ctx, &c)
		case "fwd-delay":
			return c08FwdDelay(ctx)
		default:
			return c08ReplaySeq(ctx, &c)
		}
	}
	base := runtime.NumGoroutine()
	if err := c08FwdDelay(ctx); err != nil {
		return err
	}
	nSeq, nConc := ctx.N(1500, 60000), ctx.N(200, 8000)
	seqBudget := ctx.Budget * 7 / 10
	for i := 0; i < nSeq && time.Since(ctx.Start) < seqBudget; i++ {
		if i%12 == 5 {
			if err := c08ArrMerge(ctx); err != nil {
				return err
			}
			continue
		}
		if i%6 == 3 { // wide merges whose sources end one after the other, survivors probed (c08_wide.go)
			if err := c08Wide(ctx); err != nil {
				return err
			}
			continue
		}
		if i%3 == 1 { // readers with history handed to a constructor (c08_late.go)
			if err := c08Late(ctx); err != nil {
				return err
			}
			continue
		}
		if err := c08RunSeq(ctx); err != nil {
			return err
		}
	}
	for i := 0; i < nConc && ctx.TimeLeft(); i++ {
		if err := c08RunConc(ctx, nil); err != nil {
			return err
		}
	}
	// forwarding goroutines must all have ended (every tree was torn down)
	left := 0
	for w := 0; w < 50; w++ {
		left = runtime.NumGoroutine() - base
		if left <= 0 {
			break
		}
		time.Sleep(20 * time.Millisecond)
	}
	ctx.Res.Extra["goroutines_left"] = left
	ctx.Res.Extra["oracle_time_s"] = c08AskTime.Seconds()
	ctx.Res.Extra["impl_time_s"] = c08ExecTime.Seconds()
	if left > 0 && len(ctx.Res.Disagreements) == 0 {
		ctx.Res.Note(fmt.Sprintf("%d goroutine(s) still alive 1 s after the last case", left))
	}
	return nil
}
