//go:build verif && (vh_all || vh_c19)

package props

// C19, cross family: a value stored in a channel that is skipped later — and the other order.
//
//	START -> A   (streams its chunks through an unbuffered pipe from its own goroutine)
//	START -> B   --branch (value condition, single or multi-way)--> the ends
//	end_i: takes A's stream without control (adata: AddInputWithOptions("A", WithNoDirectDependency())),
//	       with control (ainput: AddInput("A")), or no data of A at all (start / none / static);
//	       it concatenates its input (mode drain) or passes the stream on to END lazily (mode lazy)
//	end_i -> END (MapFields), optionally A -> END (data only)
//
// An end that only the branch controls is skipped when the branch does not select it. The order
// of "A's copy reaches the end's channel" and "the branch skips the end" is forced without
// sleeps:
//
//	value-first: B depends on A by control (AddDependency), so the branch is resolved only after
//	             A's completion — and with it the distribution of its copies — has been processed;
//	skip-first:  A's lambda waits until B's branch condition has run; the main loop reports the
//	             skip in the same step as the condition, before it can process A's completion;
//	free:        no constraint (whichever task completes first).
//
// The copy-routing model (Model/C19Route.lean, oracle case kind "cross") names the fate of every
// copy of A's stream; cross_copies_all_settled says none is dropped for any case and any of the
// three orders. Compared as in the Workflow family: A's producer must be released after the
// caller has read all / a prefix / nothing and closed; it must not be told to stop while some
// reader drains its stream.

import (
	"context"
	"encoding/json"
	"fmt"
	"io"
	"os"
	"runtime"
	"sync"
	"sync/atomic"
	"time"

	"github.com/cloudwego/eino/compose"
	"github.com/cloudwego/eino/schema"

	"github.com/cloudwego/eino/verifharness/gcase"
	"github.com/cloudwego/eino/verifharness/vh"
)

type c19xEnd struct {
	Key  string `json:"key"`
	Data string `json:"data"` // adata | ainput | start | none | static
	Mode string `json:"mode"` // drain | lazy
}

type c19xCase struct {
	Kind     string    `json:"kind"`   // "cross"
	Chunks   int       `json:"chunks"` // chunks A emits (>= 1)
	Order    string    `json:"order"`  // value-first | skip-first | free
	Ends     []c19xEnd `json:"ends"`
	Cond     string    `json:"cond"`    // value | multi-value
	Select   []string  `json:"select"`  // ends the branch selects
	EndData  bool      `json:"endData"` // END takes A's output (data only)
	Paradigm string    `json:"paradigm"`
	InChunks []int     `json:"inChunks"`
	Consume  int       `json:"consume"`
	Handlers []string  `json:"handlers,omitempty"`
}

type c19xVerdict struct {
	Fates         []string `json:"fates"`
	Copies        int      `json:"copies"`
	Ledger        int      `json:"ledgerCreated"`
	Dropped       int      `json:"dropped"`
	MustRelease   bool     `json:"mustRelease"`
	MustFinish    bool     `json:"mustFinish"`
	InScope       bool     `json:"inScope"`
	SkippedBefore []string `json:"skippedBefore"`
	SkippedAfter  []string `json:"skippedAfter"`
	CbCopiesOut   int      `json:"cbCopiesOut"` // callback-copy ledger of one node, output timing
	CbHandedOut   int      `json:"cbHandedOut"`
	CbCopiesIn    int      `json:"cbCopiesIn"`
	CbHandedIn    int      `json:"cbHandedIn"`
	CbLeaked      int      `json:"cbLeaked"`
}

// c19xBuild builds the workflow; branchRun is closed when B's branch condition has run,
// orderTimedOut is set when A gave up waiting for it.
func c19xBuild(c *c19xCase, tr *c19Tracker, branchRun chan struct{}, orderTimedOut *int32) (*compose.Workflow[gcase.M, gcase.M], error) {
	wf := compose.NewWorkflow[gcase.M, gcase.M]()
	prod := compose.StreamableLambda(func(ctx context.Context, in gcase.M) (*schema.StreamReader[gcase.M], error) {
		if c.Order == "skip-first" {
			select {
			case <-branchRun:
			case <-time.After(10 * time.Second):
				atomic.StoreInt32(orderTimedOut, 1)
			}
		}
		var chunks []gcase.M
		for i := 0; i < c.Chunks; i++ {
			chunks = append(chunks, gcase.M{"a": fmt.Sprintf("c%d;", i)})
		}
		return tr.produce("A", chunks), nil
	})
	wf.AddLambdaNode("A", prod).AddInput(compose.START)
	b := wf.AddLambdaNode("B", compose.InvokableLambda(func(ctx context.Context, in gcase.M) (gcase.M, error) {
		return gcase.M{"b": "v;"}, nil
	})).AddInput(compose.START)
	if c.Order == "value-first" {
		b.AddDependency("A")
	}
	endSet := map[string]bool{}
	for _, e := range c.Ends {
		key := e.Key
		var lam *compose.Lambda
		switch e.Mode {
		case "drain":
			lam = compose.InvokableLambda(func(ctx context.Context, in gcase.M) (gcase.M, error) {
				return gcase.M{key: "v;"}, nil
			})
		case "lazy":
			lam = compose.TransformableLambda(func(ctx context.Context, in *schema.StreamReader[gcase.M]) (*schema.StreamReader[gcase.M], error) {
				return schema.StreamReaderWithConvert(in, func(m gcase.M) (gcase.M, error) {
					return gcase.M{key: "v;"}, nil
				}), nil
			})
		default:
			return nil, fmt.Errorf("end mode %q", e.Mode)
		}
		n := wf.AddLambdaNode(key, lam)
		switch e.Data {
		case "adata":
			n.AddInputWithOptions("A", nil, compose.WithNoDirectDependency())
		case "ainput":
			n.AddInput("A")
		case "start":
			n.AddInput(compose.START)
		case "none":
		case "static":
			n.SetStaticValue(compose.FieldPath{"s"}, "s;")
		default:
			return nil, fmt.Errorf("end data %q", e.Data)
		}
		endSet[key] = true
		wf.End().AddInput(key, compose.MapFields(key, key))
	}
	if c.EndData {
		wf.End().AddInputWithOptions("A", []*compose.FieldMapping{compose.MapFields("a", "a")}, compose.WithNoDirectDependency())
	}
	sel := map[string]bool{}
	for _, s := range c.Select {
		sel[s] = true
	}
	one := ""
	if len(c.Select) > 0 {
		one = c.Select[0]
	}
	var once sync.Once
	ran := func() { once.Do(func() { close(branchRun) }) }
	var br *compose.GraphBranch
	switch c.Cond {
	case "value":
		br = compose.NewGraphBranch(func(ctx context.Context, in gcase.M) (string, error) { ran(); return one, nil }, endSet)
	case "multi-value":
		br = compose.NewGraphMultiBranch(func(ctx context.Context, in gcase.M) (map[string]bool, error) { ran(); return sel, nil }, endSet)
	default:
		return nil, fmt.Errorf("cond %q", c.Cond)
	}
	wf.AddBranch("B", br)
	return wf, nil
}

// the signature names the order and what the model says about the copies sent to skipped ends
// (the class of copy whose release depends on the framework), not the whole shape of the case
func c19xShape(c *c19xCase, model *c19xVerdict) string {
	class := "no-copy-to-a-skipped-end"
	switch {
	case len(model.SkippedBefore) > 0 && len(model.SkippedAfter) > 0:
		class = "copy-skipped-in-either-order"
	case len(model.SkippedAfter) > 0:
		class = "copy-stored-then-skipped"
	case len(model.SkippedBefore) > 0:
		class = "copy-sent-to-skipped"
	}
	return c.Order + ":" + class + c19CbSfx(c.Handlers)
}

func c19xOne(ctx *vh.Ctx, c *c19xCase) error {
	ctx.Progress.Mark(c)
	raw, err := ctx.Oracle.Ask("C19", c)
	if err != nil {
		return err
	}
	var model c19xVerdict
	if err := json.Unmarshal(raw, &model); err != nil {
		return fmt.Errorf("C19 cross oracle answer %s: %w", raw, err)
	}
	tr := &c19Tracker{blocked: map[string]int{}}
	branchRun := make(chan struct{})
	var orderTimedOut int32
	wf, err := c19xBuild(c, tr, branchRun, &orderTimedOut)
	if err != nil {
		ctx.Res.Count("malformed", false)
		return nil
	}
	bg := context.Background()
	var r compose.Runnable[gcase.M, gcase.M]
	var cerr error
	if panicked, pv := vh.Safely(func() { r, cerr = wf.Compile(bg) }); panicked {
		ctx.Res.Disagree(vh.Disagreement{Signature: "C19:cross:compile-panic", What: fmt.Sprint("Compile panicked: ", pv), Case: c})
		return nil
	}
	if cerr != nil {
		ctx.Res.Dist("cross:class=compile-error")
		if os.Getenv("C19W_DEBUG") != "" {
			fmt.Fprintln(os.Stderr, "X-COMPILE-ERR", cerr, vh.Canon(c))
		}
		ctx.Res.Count("malformed", false)
		return nil
	}
	base := runtime.NumGoroutine()
	x := gcase.M{"in": "x"}
	var runErr error
	got := 0
	finished := false
	if panicked, pv := vh.Safely(func() {
		finished = vh.WithTimeout(30*time.Second, func() {
			var sr *schema.StreamReader[gcase.M]
			var ropts []compose.Option
			if len(c.Handlers) > 0 {
				hopts, hdone := c19RunOpts(c.Handlers)
				defer hdone()
				ropts = append(ropts, hopts...)
			}
			if c.Paradigm == "transform" {
				sr, runErr = r.Transform(bg, schema.StreamReaderFromArray(gcase.ChunkMap(c.InChunks, x)), ropts...)
			} else {
				sr, runErr = r.Stream(bg, x, ropts...)
			}
			if runErr != nil {
				return
			}
			for c.Consume < 0 || got < c.Consume {
				_, e := sr.Recv()
				if e != nil {
					if e != io.EOF {
						runErr = e
					}
					break
				}
				got++
			}
			sr.Close()
		})
	}); panicked {
		ctx.Res.Disagree(vh.Disagreement{Signature: "C19:cross:panic-escaped", What: fmt.Sprint("streaming workflow run panicked: ", pv), Case: c})
		return nil
	}
	ctx.Res.Dist("cross:order=" + c.Order)
	ctx.Res.Dist("cross:cond=" + c.Cond)
	ctx.Res.Dist(fmt.Sprintf("cross:consume=%d", min(c.Consume, 2)))
	for _, e := range c.Ends {
		ctx.Res.Dist("cross:end=" + e.Data + "/" + e.Mode)
	}
	if len(model.SkippedAfter) > 0 {
		ctx.Res.Dist("cross:copy-stored-then-skipped")
	}
	if len(model.SkippedBefore) > 0 {
		ctx.Res.Dist("cross:copy-sent-to-skipped")
	}
	if !finished {
		ctx.Res.Disagree(vh.Disagreement{Signature: "C19:cross:hang", What: "streaming workflow run (or reading its output) hangs", Case: c, Model: model})
		return nil
	}
	if atomic.LoadInt32(&orderTimedOut) != 0 {
		// the branch condition never ran (B was not reached): the order could not be forced
		ctx.Res.Dist("cross:out-of-scope(order-not-forced)")
		ctx.Res.Count("oos", false)
		return nil
	}
	if runErr != nil {
		ctx.Res.Dist("cross:out-of-scope(run-error)")
		if os.Getenv("C19W_DEBUG") != "" {
			fmt.Fprintln(os.Stderr, "X-RUN-ERR", runErr, vh.Canon(c))
		}
		ctx.Res.Count("oos", false)
		return nil
	}
	if !model.InScope {
		// nothing that runs waits for A: the run may return while A is still running, its output
		// then has no consumer (the property's precondition, decided on the model)
		ctx.Res.Dist("cross:out-of-scope(precondition)")
		ctx.Res.Count("oos", false)
		return nil
	}
	ctx.Res.Count("cross:"+vh.Canon(c), len(model.SkippedAfter)+len(model.SkippedBefore) > 0)
	ctx.Res.Sample(c)
	if model.Copies != model.Ledger {
		ctx.Res.Disagree(vh.Disagreement{Signature: "C19:cross:model-copy-count", What: "the copy-routing model and the ledger disagree on the number of readers", Case: c, Model: model})
		return nil
	}
	if !tr.settled(4 * time.Second) {
		if !model.MustRelease {
			ctx.Res.Dist("cross:blocked-as-the-model-says")
			return nil
		}
		sent, _ := tr.sentOf("A")
		ctx.Res.Disagree(vh.Disagreement{Signature: "C19:cross:producer-blocked:" + c19xShape(c, &model),
			What: fmt.Sprintf("after the workflow run completed and its output was %s, A's producer is still blocked on a send (a copy of its stream was dropped without being closed); the model has every one of the %d copies drained or closed (copies that reach a channel skipped earlier: %v, stored in a channel skipped later: %v)",
				map[bool]string{true: "read to the end", false: "closed early"}[c.Consume < 0], model.Copies, model.SkippedBefore, model.SkippedAfter),
			Case: c, Model: model, Impl: map[string]any{"started": atomic.LoadInt32(&tr.started), "exited": atomic.LoadInt32(&tr.exited), "sent": sent}})
		return nil
	}
	if model.MustFinish && atomic.LoadInt32(&tr.started) > 0 {
		if sent, cut := tr.sentOf("A"); cut || sent < c.Chunks {
			ctx.Res.Disagree(vh.Disagreement{Signature: "C19:cross:producer-cut-off:" + c19xShape(c, &model),
				What: fmt.Sprintf("a consumer reads A's stream to the end, but the producer was told to stop after %d of %d chunks (its source was closed while a copy was still being read)", sent, c.Chunks),
				Case: c, Model: model, Impl: map[string]any{"sent": sent, "cut": cut}})
			return nil
		}
	}
	deadline := time.Now().Add(3 * time.Second)
	for runtime.NumGoroutine() > base && time.Now().Before(deadline) {
		time.Sleep(2 * time.Millisecond)
	}
	if n := runtime.NumGoroutine(); n > base {
		buf := make([]byte, 1<<16)
		buf = buf[:runtime.Stack(buf, true)]
		ctx.Res.Disagree(vh.Disagreement{Signature: "C19:cross:goroutines-left:" + c19xShape(c, &model), What: fmt.Sprintf("%d goroutine(s) more than before the run are still alive", n-base), Case: c, Model: model,
			Impl: map[string]any{"stacks": c19Trim(string(buf))}})
	}
	return nil
}

func c19xGen(r *vh.Rand) *c19xCase {
	c := &c19xCase{Kind: "cross", Chunks: 1 + r.Intn(5), EndData: r.Chance(25)}
	c.Order = []string{"value-first", "skip-first", "free"}[r.Intn(3)]
	n := 2 + r.Intn(2)
	datas := []string{"adata", "adata", "adata", "ainput", "start", "none", "static"}
	for i := 0; i < n; i++ {
		e := c19xEnd{Key: fmt.Sprintf("e%d", i), Data: datas[r.Intn(len(datas))], Mode: []string{"lazy", "lazy", "drain"}[r.Intn(3)]}
		c.Ends = append(c.Ends, e)
	}
	c.Cond = []string{"value", "multi-value"}[r.Intn(2)]
	if c.Cond == "value" {
		c.Select = []string{c.Ends[r.Intn(n)].Key}
	} else {
		for _, e := range c.Ends {
			if r.Chance(50) {
				c.Select = append(c.Select, e.Key)
			}
		}
		if len(c.Select) == 0 {
			// a run in which every end is skipped does not reach END
			c.Select = []string{c.Ends[r.Intn(n)].Key}
		}
	}
	if r.Chance(85) {
		// mostly in scope: some selected end takes A's stream (then END waits for A)
		takes := false
		for _, e := range c.Ends {
			if (e.Data == "adata" || e.Data == "ainput") && c19xHas(c.Select, e.Key) {
				takes = true
			}
		}
		if !takes && !c.EndData && c.Order != "value-first" {
			i := r.Intn(n)
			c.Ends[i].Data = []string{"adata", "ainput"}[r.Intn(2)]
			if !c19xHas(c.Select, c.Ends[i].Key) {
				if c.Cond == "value" {
					c.Select = []string{c.Ends[i].Key}
				} else {
					c.Select = append(c.Select, c.Ends[i].Key)
				}
			}
		}
	}
	c.Paradigm = []string{"stream", "transform"}[r.Intn(2)]
	if c.Paradigm == "transform" {
		c.InChunks = []int{0}
	}
	c.Consume = []int{-1, 0, 1, 1}[r.Intn(4)]
	c.Handlers = c19GenHandlers(r)
	return c
}

func c19xHas(l []string, k string) bool {
	for _, x := range l {
		if x == k {
			return true
		}
	}
	return false
}

// fixed corpus: the negation witnesses of Props/C19.lean (skipped_later_witness): X takes A's
// stream without control and is not selected, Y passes it on lazily; the caller closes after one
// chunk. Both orders.
func c19xCorpus() []*c19xCase {
	var out []*c19xCase
	for _, order := range []string{"value-first", "skip-first"} {
		out = append(out, &c19xCase{Kind: "cross", Chunks: 5, Order: order,
			Ends: []c19xEnd{{Key: "X", Data: "adata", Mode: "lazy"}, {Key: "Y", Data: "adata", Mode: "lazy"}},
			Cond: "value", Select: []string{"Y"}, Paradigm: "stream", Consume: 1})
	}
	return out
}

func c19xReplay(ctx *vh.Ctx, raw json.RawMessage) (bool, error) {
	var probe struct {
		Kind string `json:"kind"`
	}
	if json.Unmarshal(raw, &probe) != nil || probe.Kind != "cross" {
		return false, nil
	}
	var c c19xCase
	if err := json.Unmarshal(raw, &c); err != nil {
		return true, err
	}
	return true, c19xOne(ctx, &c)
}

func c19xRun(ctx *vh.Ctx) error {
	for _, c := range c19xCorpus() {
		if err := c19xOne(ctx, c); err != nil {
			return err
		}
	}
	n := ctx.N(600, 5000)
	for i := 0; i < n && ctx.TimeLeft(); i++ {
		if err := c19xOne(ctx, c19xGen(ctx.Rng)); err != nil {
			return err
		}
	}
	return nil
}
