//go:build verif && (vh_all || vh_c09)

package props

// C09 — family "cbshare": CALLBACK HANDLERS of concurrent runs of one compiled object
// ("runs do not share … callback context").
//
// A graph (pregel / dag / chain / workflow, with or without a nested graph) of lambda nodes.
// ≥4 concurrent callers (all four paradigms) pass ONE shared `compose.WithCallbacks(common...)`
// Option value – built once from a handler slice that may have SPARE CAPACITY – graph-wide or
// designated to a node / the graph node / a node of the nested graph, plus WithCallbacks options
// of their own, in varying order; the context of the calls carries no callback manager, one
// parent manager shared by all callers (its handler slice built with append), or a manager per
// call.  A gate node at the head of every graph level and every node body are barriers: no run
// of a wave fires a later callback before every run of the wave has built the handler list of
// that unit.  Every handler records (run, unit, timing, own id); the run is identified by a value
// in the call's context, not by the payload.  Observable per run: for every unit (graph, gates,
// nodes, graph node) the handlers that were given its start callback and its end callback, in the
// order they were called – it must be the list in force at that unit for THIS call
// (model: EinoV.C09.Cb.inForce; start callbacks last to first, end callbacks first to last).
//
// Runs in the -race child like the option families (GORACE=halt_on_error=0).

import (
	"context"
	"errors"
	"fmt"
	"sort"
	"strings"
	"sync"

	"github.com/cloudwego/eino/callbacks"
	"github.com/cloudwego/eino/compose"
	"github.com/cloudwego/eino/schema"
	"github.com/cloudwego/eino/verifharness/vh"
)

// ---- case language ----

type c09CBShare struct {
	Mode   string      `json:"mode"`             // pregel|dag|chain|workflow
	Nodes  []c09ONode  `json:"nodes"`            // lambda nodes w<k> (Sub: in the nested graph "sub")
	Shared []c09OGroup `json:"shared"`           // shared WithCallbacks Option VALUES (Opts = handler ids; Target nil = graph-wide)
	Ctx    string      `json:"ctx"`              // none | shared | own : callback manager of the context the calls are made with
	Parent c09OGroup   `json:"parent,omitempty"` // handlers of that manager (Opts = ids; own: ids are shifted per call), slice built with Spare spare capacity
}

// handler ids of the parent manager of call i
func c09CbParentIDs(b *c09CBShare, call int) []int {
	switch b.Ctx {
	case "shared":
		return b.Parent.Opts
	case "own":
		out := make([]int, len(b.Parent.Opts))
		for j := range out {
			out[j] = 50000 + 100*call + j
		}
		return out
	}
	return nil
}

// the units of a run, in the order it goes through them; [] = the called graph
func c09CbSites(b *c09CBShare) [][]string {
	sites := [][]string{{}, {"g0"}}
	sub := false
	for _, n := range b.Nodes {
		if n.Sub && !sub {
			sub = true
			sites = append(sites, []string{"sub"}, []string{"sub", "g1"})
			for _, m := range b.Nodes {
				if m.Sub {
					sites = append(sites, []string{"sub", m.Key})
				}
			}
		}
		if !n.Sub {
			sites = append(sites, []string{n.Key})
		}
	}
	return sites
}

func c09CbNested(b *c09CBShare) bool {
	for _, n := range b.Nodes {
		if n.Sub {
			return true
		}
	}
	return false
}

// ---- generator ----

func c09GenCbShare(r *vh.Rand, k int) c09Case {
	c := c09Case{Kind: "cbshare", Seed: r.U64() % 1000000}
	b := &c09CBShare{Mode: []string{"pregel", "chain", "workflow", "dag"}[k%4]}
	kinds := []string{"i", "i", "s", "c", "t"}
	nk := 0
	add := func(sub bool) {
		b.Nodes = append(b.Nodes, c09ONode{Key: fmt.Sprintf("w%d", nk), Sub: sub, Kind: kinds[r.Intn(len(kinds))]})
		nk++
	}
	nested := r.Chance(50)
	nb := r.Range(1, 2)
	if nested {
		nb = r.Range(0, 1)
	}
	for i := 0; i < nb; i++ {
		add(false)
	}
	if nested {
		for i := r.Range(1, 2); i > 0; i-- {
			add(true)
		}
		if r.Chance(30) {
			add(false)
		}
	}
	var paths [][]string
	for _, n := range b.Nodes {
		paths = append(paths, c09NodePath(n))
	}
	if nested {
		paths = append(paths, []string{"sub"})
	}
	target := func(pNone int) []string {
		if r.Intn(100) < pNone {
			return nil
		}
		return paths[r.Intn(len(paths))]
	}
	// the first case of the family of every run has the shape in which an aliased handler list
	// would be visible: no manager in the context, the shared graph-wide list has spare capacity
	first := k == 0
	b.Ctx = "none"
	if !first {
		switch x := r.Intn(100); {
		case x < 30:
			b.Ctx = "shared"
		case x < 45:
			b.Ctx = "own"
		}
	}
	if b.Ctx != "none" {
		for j := r.Range(1, 3); j > 0; j-- {
			b.Parent.Opts = append(b.Parent.Opts, 1+len(b.Parent.Opts))
		}
		if r.Chance(60) {
			b.Parent.Spare = r.Range(1, 3)
		}
	}
	ns := 1
	if r.Chance(30) {
		ns = 2
	}
	for s := 0; s < ns; s++ {
		g := c09OGroup{Target: target(60)}
		if first && s == 0 {
			g.Target = nil
		}
		for j := r.Range(1, 3); j > 0; j-- {
			g.Opts = append(g.Opts, 100*(s+1)+len(g.Opts))
		}
		if r.Chance(75) || (first && s == 0) {
			g.Spare = r.Range(1, 4)
		}
		b.Shared = append(b.Shared, g)
	}
	c.CBS = b
	ng := []int{4, 4, 6, 8}[r.Intn(4)]
	c.Reps = r.Range(1, 2)
	poff := r.Intn(4)
	for i := 0; i < ng; i++ {
		call := c09Call{In: fmt.Sprintf("c%d", i), Paradigm: c09Paradigms[(i+poff)%4], Chunks: r.Range(1, 2)}
		own := func(n int) c09OGroup {
			g := c09OGroup{Target: b.Shared[0].Target}
			if r.Chance(35) {
				g.Target = target(50)
			}
			for j := r.Range(1, 2); j > 0; j-- {
				g.Opts = append(g.Opts, 1000*(i+1)+10*n+len(g.Opts))
			}
			if r.Chance(25) {
				g.Spare = r.Range(1, 3)
			}
			return g
		}
		x := r.Intn(100)
		if first && i < 2 {
			x = 0
		}
		switch {
		case x < 55:
			call.Groups = []c09OGroup{{Shared: 1}, own(0)}
		case x < 70:
			call.Groups = []c09OGroup{{Shared: 1}, own(0), own(1)}
		case x < 80:
			call.Groups = []c09OGroup{own(0), {Shared: 1}}
		case x < 90:
			call.Groups = []c09OGroup{{Shared: 1}}
		default:
			call.Groups = []c09OGroup{own(0), {Shared: 1}, own(1)}
		}
		if ns == 2 {
			at := r.Intn(len(call.Groups) + 1)
			gs := append([]c09OGroup{}, call.Groups[:at]...)
			gs = append(gs, c09OGroup{Shared: 2})
			call.Groups = append(gs, call.Groups[at:]...)
		}
		c.Calls = append(c.Calls, call)
	}
	// interleaving for the model: one thread per (call, unit); a thread needs one step per
	// collected option, one per level of its path, and one to read
	sites := c09CbSites(b)
	for ci := range c.Calls {
		for si, p := range sites {
			t := ci*len(sites) + si
			for n := len(c.Calls[ci].Groups) + len(p) + 2 + r.Intn(2); n > 0; n-- {
				c.Sched = append(c.Sched, t)
			}
		}
	}
	c.Sched = c09Shuffle(r, c.Sched)
	return c
}

// ---- the model's view ----

func c09CbOracleCase(c *c09Case) any {
	type og struct {
		Shared int      `json:"shared"`
		Desig  bool     `json:"desig"`
		Target []string `json:"target"`
		Opts   []int    `json:"opts"`
		Spare  int      `json:"spare"`
	}
	conv := func(g c09OGroup) og {
		x := og{Shared: g.Shared, Desig: g.Target != nil, Target: g.Target, Opts: g.Opts, Spare: g.Spare}
		if x.Target == nil {
			x.Target = []string{}
		}
		if x.Opts == nil {
			x.Opts = []int{}
		}
		return x
	}
	type oc struct {
		Parent int  `json:"parent"`
		Groups []og `json:"groups"`
	}
	b := c.CBS
	shared := []og{}
	for _, g := range b.Shared {
		shared = append(shared, conv(g))
	}
	parents := []og{}
	if b.Ctx == "shared" {
		parents = append(parents, conv(c09OGroup{Opts: c09CbParentIDs(b, 0), Spare: b.Parent.Spare}))
	}
	calls := []oc{}
	for i, k := range c.Calls {
		x := oc{Groups: []og{}}
		switch b.Ctx {
		case "shared":
			x.Parent = 1
		case "own":
			parents = append(parents, conv(c09OGroup{Opts: c09CbParentIDs(b, i), Spare: b.Parent.Spare}))
			x.Parent = len(parents)
		}
		for _, g := range k.Groups {
			x.Groups = append(x.Groups, conv(g))
		}
		calls = append(calls, x)
	}
	sched := c.Sched
	if sched == nil {
		sched = []int{}
	}
	return map[string]any{"family": "cbshare", "sites": c09CbSites(b), "shared": shared, "parents": parents, "calls": calls, "sched": sched}
}

// what call i returns when nothing interferes, given the model's rendering of its units
func c09CbExpected(c *c09Case, i int, units string) string {
	out := c.Calls[i].In
	sub := false
	for _, n := range c.CBS.Nodes {
		if n.Sub && !sub {
			sub = true
			for _, m := range c.CBS.Nodes {
				if m.Sub {
					out += "|" + m.Key
				}
			}
		}
		if !n.Sub {
			out += "|" + n.Key
		}
	}
	return out + "#" + units
}

// does the observation of call i name a handler that only ANOTHER call passed?
func c09CbForeignHandler(c *c09Case, call int, out string) bool {
	own := map[string]bool{}
	other := map[string]bool{}
	note := func(i int, id int) {
		if i == call {
			own[fmt.Sprintf("h%d", id)] = true
		} else {
			other[fmt.Sprintf("h%d", id)] = true
		}
	}
	for i, k := range c.Calls {
		for _, g := range k.Groups {
			for _, id := range g.Opts {
				note(i, id)
			}
		}
		if c.CBS.Ctx == "own" {
			for _, id := range c09CbParentIDs(c.CBS, i) {
				note(i, id)
			}
		}
	}
	if j := strings.Index(out, "#"); j >= 0 {
		out = out[j+1:]
	}
	for _, f := range strings.FieldsFunc(out, func(r rune) bool { return r == ',' || r == '|' || r == '=' || r == ':' || r == '/' }) {
		if other[f] && !own[f] {
			return true
		}
	}
	return false
}

// ---- the recorder: which handler was given which callback of which run ----

type c09CbRunID struct {
	call, wave int
	phase      string
}

type c09CbRunKey struct{}

type c09CbRec struct {
	mu sync.Mutex
	m  map[c09CbRunID]map[string][]int // unit/timing -> handler ids in call order
}

func (rc *c09CbRec) note(ctx context.Context, info *callbacks.RunInfo, timing string, id int) {
	rid, _ := ctx.Value(c09CbRunKey{}).(c09CbRunID)
	name := "<nil>"
	if info != nil {
		name = info.Name
	}
	rc.mu.Lock()
	defer rc.mu.Unlock()
	m := rc.m[rid]
	if m == nil {
		m = map[string][]int{}
		rc.m[rid] = m
	}
	m[name+"/"+timing] = append(m[name+"/"+timing], id)
}

func (rc *c09CbRec) handler(id int) callbacks.Handler {
	return callbacks.NewHandlerBuilder().
		OnStartFn(func(ctx context.Context, info *callbacks.RunInfo, in callbacks.CallbackInput) context.Context {
			rc.note(ctx, info, "S", id)
			return ctx
		}).
		OnEndFn(func(ctx context.Context, info *callbacks.RunInfo, out callbacks.CallbackOutput) context.Context {
			rc.note(ctx, info, "E", id)
			return ctx
		}).
		OnErrorFn(func(ctx context.Context, info *callbacks.RunInfo, err error) context.Context {
			rc.note(ctx, info, "X", id)
			return ctx
		}).
		OnStartWithStreamInputFn(func(ctx context.Context, info *callbacks.RunInfo, in *schema.StreamReader[callbacks.CallbackInput]) context.Context {
			in.Close()
			rc.note(ctx, info, "S", id)
			return ctx
		}).
		OnEndWithStreamOutputFn(func(ctx context.Context, info *callbacks.RunInfo, out *schema.StreamReader[callbacks.CallbackOutput]) context.Context {
			out.Close()
			rc.note(ctx, info, "E", id)
			return ctx
		}).Build()
}

func c09HTags(ids []int) string {
	p := make([]string, len(ids))
	for i, id := range ids {
		p[i] = fmt.Sprintf("h%d", id)
	}
	return strings.Join(p, ",")
}

// render takes what was recorded under the run's identity (and forgets it)
func (rc *c09CbRec) render(rid c09CbRunID, sites [][]string) string {
	rc.mu.Lock()
	m := rc.m[rid]
	delete(rc.m, rid)
	rc.mu.Unlock()
	used := map[string]bool{}
	var parts []string
	for _, p := range sites {
		name := "top"
		if len(p) > 0 {
			name = p[len(p)-1]
		}
		used[name+"/S"], used[name+"/E"] = true, true
		parts = append(parts, name+"=S:"+c09HTags(m[name+"/S"])+"/E:"+c09HTags(m[name+"/E"]))
	}
	var extra []string
	for k := range m {
		if !used[k] {
			extra = append(extra, "!"+k+"="+c09HTags(m[k]))
		}
	}
	sort.Strings(extra)
	return strings.Join(append(parts, extra...), "|")
}

// ---- the compiled object ----

func c09CbLambda(n c09ONode, gate int) *compose.Lambda {
	body := func(ctx context.Context, in string) string {
		c09TokOf(ctx).arrive(gate) // every run of the wave has built the handler list of this unit
		return in + "|" + n.Key
	}
	switch n.Kind {
	case "s":
		return compose.StreamableLambda(func(ctx context.Context, in string) (*schema.StreamReader[string], error) {
			return schema.StreamReaderFromArray(c09Split(body(ctx, in))), nil
		})
	case "c":
		return compose.CollectableLambda(func(ctx context.Context, in *schema.StreamReader[string]) (string, error) {
			v, err := c09ReadAll(in)
			if err != nil {
				return "", err
			}
			return body(ctx, v), nil
		})
	case "t":
		return compose.TransformableLambda(func(ctx context.Context, in *schema.StreamReader[string]) (*schema.StreamReader[string], error) {
			v, err := c09ReadAll(in)
			if err != nil {
				return nil, err
			}
			return schema.StreamReaderFromArray(c09Split(body(ctx, v))), nil
		})
	}
	return compose.InvokableLambda(func(ctx context.Context, in string) (string, error) { return body(ctx, in), nil })
}

type c09NStep struct {
	key string
	l   *compose.Lambda
	g   compose.AnyGraph
}

// c09NamedLinear builds START -> steps… -> END in the given mode; every node is named after its
// key and the compiled graph "top" (the RunInfo names the handlers see)
func c09NamedLinear(mode string, steps []c09NStep) (compose.AnyGraph, func(ctx context.Context) (compose.Runnable[string, string], error)) {
	switch mode {
	case "chain":
		ch := compose.NewChain[string, string]()
		for _, s := range steps {
			if s.g != nil {
				ch.AppendGraph(s.g, compose.WithNodeKey(s.key), compose.WithNodeName(s.key))
			} else {
				ch.AppendLambda(s.l, compose.WithNodeKey(s.key), compose.WithNodeName(s.key))
			}
		}
		return ch, func(ctx context.Context) (compose.Runnable[string, string], error) {
			return ch.Compile(ctx, compose.WithGraphName("top"))
		}
	case "workflow":
		wf := compose.NewWorkflow[string, string]()
		prev := compose.START
		for _, s := range steps {
			if s.g != nil {
				wf.AddGraphNode(s.key, s.g, compose.WithNodeName(s.key)).AddInput(prev)
			} else {
				wf.AddLambdaNode(s.key, s.l, compose.WithNodeName(s.key)).AddInput(prev)
			}
			prev = s.key
		}
		wf.End().AddInput(prev)
		return wf, func(ctx context.Context) (compose.Runnable[string, string], error) {
			return wf.Compile(ctx, compose.WithGraphName("top"))
		}
	}
	g := compose.NewGraph[string, string]()
	var berr error
	note := func(err error) {
		if err != nil && berr == nil {
			berr = err
		}
	}
	prev := compose.START
	for _, s := range steps {
		if s.g != nil {
			note(g.AddGraphNode(s.key, s.g, compose.WithNodeName(s.key)))
		} else {
			note(g.AddLambdaNode(s.key, s.l, compose.WithNodeName(s.key)))
		}
		note(g.AddEdge(prev, s.key))
		prev = s.key
	}
	note(g.AddEdge(prev, compose.END))
	return g, func(ctx context.Context) (compose.Runnable[string, string], error) {
		if berr != nil {
			return nil, berr
		}
		copts := []compose.GraphCompileOption{compose.WithGraphName("top")}
		if mode == "dag" {
			copts = append(copts, compose.WithNodeTriggerMode(compose.AllPredecessor))
		}
		return g.Compile(ctx, copts...)
	}
}

func c09BuildCbShare(c *c09Case) (compose.Runnable[string, string], error) {
	b := c.CBS
	if b == nil || len(b.Nodes) == 0 {
		return nil, errors.New("cbshare: no nodes")
	}
	var outer, inner []c09NStep
	outer = append(outer, c09NStep{key: "g0", l: c09GateLambda(0)})
	subPlaced := false
	for k, n := range b.Nodes {
		if n.Sub {
			if !subPlaced {
				inner = append(inner, c09NStep{key: "g1", l: c09GateLambda(1)})
				outer = append(outer, c09NStep{key: "sub"}) // graph filled in below
				subPlaced = true
			}
			inner = append(inner, c09NStep{key: n.Key, l: c09CbLambda(n, 2+k)})
			continue
		}
		outer = append(outer, c09NStep{key: n.Key, l: c09CbLambda(n, 2+k)})
	}
	if subPlaced {
		im := "pregel"
		if b.Mode == "chain" {
			im = "chain"
		}
		ig, _ := c09NamedLinear(im, inner)
		for i := range outer {
			if outer[i].key == "sub" {
				outer[i].g = ig
			}
		}
	}
	_, compile := c09NamedLinear(b.Mode, outer)
	return compile(context.Background())
}

// c09MakeCbGroup builds the compose.Option of one group.  The handler slice handed to
// WithCallbacks has capacity len+spare: this is the caller's memory the Option keeps referring to.
func c09MakeCbGroup(rec *c09CbRec, g c09OGroup) compose.Option {
	hs := make([]callbacks.Handler, 0, len(g.Opts)+g.Spare)
	for _, id := range g.Opts {
		hs = append(hs, rec.handler(id))
	}
	opt := compose.WithCallbacks(hs...)
	if g.Target != nil {
		opt = opt.DesignateNodeWithPath(compose.NewNodePath(g.Target...))
	}
	return opt
}

func c09CbParentCtx(rec *c09CbRec, ids []int, spare int) context.Context {
	hs := make([]callbacks.Handler, 0, len(ids)+spare)
	for _, id := range ids {
		hs = append(hs, rec.handler(id))
	}
	return callbacks.InitCallbacks(context.Background(), &callbacks.RunInfo{Name: "parent"}, hs...)
}

func c09CbShareRunner(c *c09Case, r compose.Runnable[string, string]) c09Runner {
	b := c.CBS
	rec := &c09CbRec{m: map[c09CbRunID]map[string][]int{}}
	shared := make([]compose.Option, len(b.Shared))
	for i, g := range b.Shared {
		shared[i] = c09MakeCbGroup(rec, g) // ONE value for all callers and all waves
	}
	var sharedParent context.Context
	if b.Ctx == "shared" {
		sharedParent = c09CbParentCtx(rec, c09CbParentIDs(b, 0), b.Parent.Spare) // ONE parent context for all callers
	}
	sites := c09CbSites(b)
	ws := &c09Waves{n: len(c.Calls), g: 2 + len(b.Nodes), waves: map[int]*c09Wave{}}
	return func(ci, rep int, phase string) (obs c09Obs) {
		call := c.Calls[ci]
		base := context.Background()
		switch b.Ctx {
		case "shared":
			base = sharedParent
		case "own":
			base = c09CbParentCtx(rec, c09CbParentIDs(b, ci), b.Parent.Spare)
		}
		rid := c09CbRunID{ci, rep, phase}
		base = context.WithValue(base, c09CbRunKey{}, rid)
		wctx, tok := ws.ctxFor(phase, rep)
		ctx := base
		if tok != nil {
			ctx = context.WithValue(base, c09TokKey{}, wctx.Value(c09TokKey{}))
		}
		defer func() {
			if p := recover(); p != nil {
				obs = c09Obs{Err: "panic", Msg: fmt.Sprint(p)}
			}
			if tok != nil {
				tok.finish()
				if tok.timedOut && obs.Err == "" {
					obs.Err = "gate-timeout"
				}
			}
		}()
		var opts []compose.Option
		for _, g := range call.Groups {
			if g.Shared > 0 && g.Shared <= len(shared) {
				opts = append(opts, shared[g.Shared-1])
			} else {
				opts = append(opts, c09MakeCbGroup(rec, g))
			}
		}
		out, err := c09RunParadigm(ctx, r, call, opts)
		units := rec.render(rid, sites)
		if err != nil {
			return c09Obs{Err: c09ErrClass(err), Msg: err.Error() + " #" + units}
		}
		return c09Obs{Out: out + "#" + units}
	}
}

// ---- accounting (called by c09EvaluateX) ----

func c09CbAccount(ctx *vh.Ctx, c *c09Case) string {
	b := c.CBS
	nested := c09CbNested(b)
	for _, n := range b.Nodes {
		if n.Sub {
			ctx.Res.Dist("cbshare:node:nested:" + n.Kind)
		} else {
			ctx.Res.Dist("cbshare:node:top:" + n.Kind)
		}
	}
	ctx.Res.Dist("cbshare:mode:" + b.Mode)
	ctx.Res.Dist("cbshare:ctx:" + b.Ctx)
	if b.Ctx != "none" {
		if b.Parent.Spare > 0 {
			ctx.Res.Dist("cbshare:ctx-handlers:spare-capacity")
		} else {
			ctx.Res.Dist("cbshare:ctx-handlers:exact-capacity")
		}
	}
	for _, g := range b.Shared {
		switch {
		case g.Target == nil:
			ctx.Res.Dist("cbshare:shared:graph-wide")
		case len(g.Target) == 1 && g.Target[0] == "sub":
			ctx.Res.Dist("cbshare:shared:to-graph-node")
		case len(g.Target) == 2:
			ctx.Res.Dist("cbshare:shared:to-nested-node")
		default:
			ctx.Res.Dist("cbshare:shared:to-top-node")
		}
		if g.Spare > 0 {
			ctx.Res.Dist("cbshare:shared:spare-capacity")
		} else {
			ctx.Res.Dist("cbshare:shared:exact-capacity")
		}
	}
	// hazard shape: at some unit a call collects a shared list with spare capacity FIRST and another list after it
	hazard, asIs := false, false
	for _, k := range c.Calls {
		ctx.Res.Dist(fmt.Sprintf("cbshare:options-per-call:%d", len(k.Groups)))
		at := map[string][]c09OGroup{}
		for _, g := range k.Groups {
			gg := g
			if g.Shared > 0 && g.Shared <= len(b.Shared) {
				gg = b.Shared[g.Shared-1]
				gg.Shared = g.Shared
			}
			key := strings.Join(gg.Target, "/")
			at[key] = append(at[key], gg)
		}
		for key, gs := range at {
			if len(gs) >= 2 && gs[0].Shared > 0 && gs[0].Spare > 0 {
				hazard = true
				if key == "" && b.Ctx == "none" {
					asIs = true
				}
			}
		}
	}
	if hazard {
		ctx.Res.Dist("cbshare:shared-first-with-spare-then-own")
	}
	if asIs {
		ctx.Res.Dist("cbshare:collected-list-installed-as-is")
	}
	return fmt.Sprintf("%s/n%d/nested=%v/s%d/ctx=%s/haz=%v", b.Mode, len(b.Nodes), nested, len(b.Shared), b.Ctx, hazard)
}
