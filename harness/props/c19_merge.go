//go:build verif && (vh_all || vh_c19)

package props

// C19, merge family: fan-ins whose sources have DIFFERENT lengths. Some sources end early, the
// others go on producing through unbuffered pipes from their own goroutines; the reader of the
// merged stream (the caller, a node that reads a prefix of its input, a prefix-reading branch
// condition followed by a prefix-reading successor) takes k chunks — with k chosen so that the
// merged reader has (almost surely) observed the end of the short sources — and closes, or reads
// to the end. Afterwards every producer must have been released and no goroutine may be left.
//
// Levels: "schema" drives schema.MergeStreamReaders directly (white box: pipes, converted
// readers, copies, arrays, already merged readers; the merge order is known, so the model is
// given positions), "graph" is a DAG / Pregel fan-in into END / a consumer node / a pass node
// with a stream branch, "workflow" the same with Workflow inputs, "tools" is ToolsNode.Stream
// with one streaming tool per call (merge order = call order).
//
// The consumer's trace (which source every received chunk came from) is replayed on the
// merged-reader model (lean/EinoV/Model/C19Merge.lean) by the oracle: the trace must be one the
// reader can deliver, and the model names the senders that are released after the close (with
// the loop shape of multiStreamReader.close the theorems are proved for: all of them).

import (
	"context"
	"encoding/json"
	"fmt"
	"runtime"
	"sort"
	"strconv"
	"strings"
	"sync"
	"time"

	"github.com/cloudwego/eino/components/tool"
	"github.com/cloudwego/eino/compose"
	"github.com/cloudwego/eino/schema"

	"github.com/cloudwego/eino/verifharness/gcase"
	"github.com/cloudwego/eino/verifharness/vh"
)

type c19mSrc struct {
	// schema: pipe | convert | child | array | merged (two pipes merged beforehand: Len, Len2)
	// graph / workflow: key (string stream + output key / ToField) | map (stream of maps) | invoke (no stream of its own)
	// tools: tool
	Kind string `json:"kind"`
	Len  int    `json:"len"`            // chunks the source emits before it ends
	Len2 int    `json:"len2,omitempty"` // merged: the second pipe
	Via  bool   `json:"via,omitempty"`  // graph: a passthrough node between the source and the sink
}

type c19mCase struct {
	Kind     string    `json:"kind"`  // "merge"
	Level    string    `json:"level"` // schema | graph | workflow | tools
	Mode     string    `json:"mode,omitempty"`
	Sink     string    `json:"sink"` // end (the caller reads the merged stream) | node | branch; tools: direct | graph
	Srcs     []c19mSrc `json:"srcs"`
	Consume  int       `json:"consume"`            // chunks the reader of the merged stream takes before it closes; -1: to the end
	Consume2 int       `json:"consume2,omitempty"` // sink=branch: what the selected successor reads of its copy
	Paradigm string    `json:"paradigm,omitempty"`
	Handlers []string  `json:"handlers,omitempty"`
}

// ---- producers ----

type c19mTracker struct {
	mu      sync.Mutex
	state   map[int]string // producer id -> running | finished (all chunks taken) | closed (Send reported closed)
	running int
}

func (t *c19mTracker) start(id int) {
	t.mu.Lock()
	t.state[id] = "running"
	t.running++
	t.mu.Unlock()
}

func (t *c19mTracker) exit(id int, st string) {
	t.mu.Lock()
	t.state[id] = st
	t.running--
	t.mu.Unlock()
}

func (t *c19mTracker) settled(d time.Duration) bool {
	deadline := time.Now().Add(d)
	for {
		t.mu.Lock()
		n := t.running
		t.mu.Unlock()
		if n == 0 {
			return true
		}
		if time.Now().After(deadline) {
			return false
		}
		time.Sleep(time.Millisecond)
	}
}

func (t *c19mTracker) snapshot() (stuck []int, states map[string]string) {
	states = map[string]string{}
	t.mu.Lock()
	for id, s := range t.state {
		states[strconv.Itoa(id)] = s
		if s == "running" {
			stuck = append(stuck, id)
		}
	}
	t.mu.Unlock()
	sort.Ints(stuck)
	return
}

// c19mPipe: n chunks through an unbuffered pipe from a goroutine, blocking sends.
func c19mPipe[T any](tr *c19mTracker, id, n int, mk func(seq int) T) *schema.StreamReader[T] {
	sr, sw := schema.Pipe[T](0)
	tr.start(id)
	go func() {
		st := "finished"
		defer func() {
			sw.Close()
			tr.exit(id, st)
		}()
		for j := 0; j < n; j++ {
			if closed := sw.Send(mk(j), nil); closed {
				st = "closed"
				return
			}
		}
	}()
	return sr
}

// ---- consumers ----

type c19mTrace struct {
	Recv []int `json:"recv"`
	EOF  bool  `json:"eof"`
	Bad  int   `json:"bad,omitempty"` // chunks whose source could not be told
}

func c19mConsume[T any](sr *schema.StreamReader[T], k int, idOf func(T) int) *c19mTrace {
	t := &c19mTrace{Recv: []int{}}
	defer sr.Close()
	for k < 0 || len(t.Recv)+t.Bad < k {
		v, err := sr.Recv()
		if err != nil {
			t.EOF = true
			break
		}
		if id := idOf(v); id >= 0 {
			t.Recv = append(t.Recv, id)
		} else {
			t.Bad++
		}
	}
	return t
}

func c19mIDOfM(m gcase.M) int {
	if len(m) != 1 {
		return -1
	}
	for k := range m {
		if strings.HasPrefix(k, "p") {
			if id, err := strconv.Atoi(k[1:]); err == nil {
				return id
			}
		}
	}
	return -1
}

type c19mRec struct {
	mu     sync.Mutex
	traces map[string]*c19mTrace
}

func (r *c19mRec) put(who string, t *c19mTrace) {
	r.mu.Lock()
	r.traces[who] = t
	r.mu.Unlock()
}

// ---- model side of a case ----

type c19mModelSrc struct {
	Len int  `json:"len"`
	Pre bool `json:"pre,omitempty"`
}

type c19mAsk struct {
	Kind    string         `json:"kind"`
	Srcs    []c19mModelSrc `json:"srcs"`
	Recv    []int          `json:"recv"`
	EOF     bool           `json:"eof"`
	Ordered bool           `json:"ordered"`
}

type c19mVerdict struct {
	Admissible bool  `json:"admissible"`
	Release    []int `json:"release"`
	Ended      []int `json:"ended"`
	StillOpen  []int `json:"stillOpen"`
}

// the model sources of a case; producer ids are the indices of this list. For the schema level
// they are the positions in the merged reader (MergeStreamReaders flattens merged readers and
// puts the elements of all array readers into one finished stream at the end).
func c19mModel(c *c19mCase) (srcs []c19mModelSrc, ordered bool) {
	if c.Level == "schema" {
		arr, hasArr := 0, false
		for _, s := range c.Srcs {
			switch s.Kind {
			case "array":
				arr += s.Len
				hasArr = true
			case "merged":
				srcs = append(srcs, c19mModelSrc{Len: s.Len}, c19mModelSrc{Len: s.Len2})
			default:
				srcs = append(srcs, c19mModelSrc{Len: s.Len})
			}
		}
		if hasArr {
			srcs = append(srcs, c19mModelSrc{Len: arr, Pre: true})
		}
		return srcs, true
	}
	for _, s := range c.Srcs {
		srcs = append(srcs, c19mModelSrc{Len: s.Len, Pre: s.Kind == "invoke"})
	}
	return srcs, c.Level == "tools"
}

// ---- the four levels ----

type c19mItem struct{ Src, Seq int }

// returns the traces of the readers of the merged stream; err: the run failed (out of scope)
func c19mRunSchema(c *c19mCase, tr *c19mTracker, rec *c19mRec) error {
	var srs []*schema.StreamReader[c19mItem]
	pos := 0
	nModel, _ := c19mModel(c)
	arrID := len(nModel) - 1
	pipe := func(n int) *schema.StreamReader[c19mItem] {
		id := pos
		pos++
		return c19mPipe(tr, id, n, func(seq int) c19mItem { return c19mItem{id, seq} })
	}
	for _, s := range c.Srcs {
		switch s.Kind {
		case "pipe":
			srs = append(srs, pipe(s.Len))
		case "convert":
			srs = append(srs, schema.StreamReaderWithConvert(pipe(s.Len), func(x c19mItem) (c19mItem, error) { return x, nil }))
		case "child":
			cp := pipe(s.Len).Copy(2)
			cp[1].Close()
			srs = append(srs, cp[0])
		case "merged":
			a := pipe(s.Len)
			b := pipe(s.Len2)
			srs = append(srs, schema.MergeStreamReaders([]*schema.StreamReader[c19mItem]{a, b}))
		case "array":
			items := make([]c19mItem, s.Len)
			for j := range items {
				items[j] = c19mItem{arrID, j}
			}
			srs = append(srs, schema.StreamReaderFromArray(items))
		default:
			return fmt.Errorf("unknown source kind %q", s.Kind)
		}
	}
	merged := schema.MergeStreamReaders(srs)
	rec.put("caller", c19mConsume(merged, c.Consume, func(x c19mItem) int { return x.Src }))
	return nil
}

func c19mSourceLambda(tr *c19mTracker, i int, s c19mSrc) (*compose.Lambda, bool) {
	key := fmt.Sprintf("p%d", i)
	switch s.Kind {
	case "key":
		return compose.StreamableLambda(func(ctx context.Context, in gcase.M) (*schema.StreamReader[string], error) {
			return c19mPipe(tr, i, s.Len, func(int) string { return "x" }), nil
		}), true
	case "map":
		return compose.StreamableLambda(func(ctx context.Context, in gcase.M) (*schema.StreamReader[gcase.M], error) {
			return c19mPipe(tr, i, s.Len, func(int) gcase.M { return gcase.M{key: "x"} }), nil
		}), false
	default: // invoke: one chunk, no producer of its own
		return compose.InvokableLambda(func(ctx context.Context, in gcase.M) (gcase.M, error) {
			return gcase.M{key: "x"}, nil
		}), false
	}
}

func c19mConsumerLambda(rec *c19mRec, who string, k int) *compose.Lambda {
	return compose.TransformableLambda(func(ctx context.Context, in *schema.StreamReader[gcase.M]) (*schema.StreamReader[gcase.M], error) {
		rec.put(who, c19mConsume(in, k, c19mIDOfM))
		return schema.StreamReaderFromArray([]gcase.M{{who: "done"}}), nil
	})
}

func c19mCompile(c *c19mCase, tr *c19mTracker, rec *c19mRec) (compose.Runnable[gcase.M, gcase.M], error) {
	bg := context.Background()
	if c.Level == "workflow" {
		wf := compose.NewWorkflow[gcase.M, gcase.M]()
		sink := wf.End()
		if c.Sink == "node" {
			sink = wf.AddLambdaNode("c", c19mConsumerLambda(rec, "c", c.Consume))
			wf.End().AddInput("c")
		}
		for i, s := range c.Srcs {
			key := fmt.Sprintf("p%d", i)
			lam, isStr := c19mSourceLambda(tr, i, s)
			wf.AddLambdaNode(key, lam).AddInput(compose.START)
			if isStr {
				sink.AddInput(key, compose.ToField(key))
			} else {
				sink.AddInput(key, compose.MapFields(key, key))
			}
		}
		return wf.Compile(bg)
	}
	g := compose.NewGraph[gcase.M, gcase.M]()
	sink := compose.END
	switch c.Sink {
	case "node":
		sink = "c"
		if err := g.AddLambdaNode("c", c19mConsumerLambda(rec, "c", c.Consume)); err != nil {
			return nil, err
		}
		g.AddEdge("c", compose.END)
	case "branch":
		sink = "m"
		if err := g.AddPassthroughNode("m"); err != nil {
			return nil, err
		}
		g.AddLambdaNode("e1", c19mConsumerLambda(rec, "e1", c.Consume2))
		g.AddLambdaNode("e2", c19mConsumerLambda(rec, "e2", 0))
		g.AddEdge("e1", compose.END)
		g.AddEdge("e2", compose.END)
		k := c.Consume
		if err := g.AddBranch("m", compose.NewStreamGraphBranch(func(ctx context.Context, in *schema.StreamReader[gcase.M]) (string, error) {
			rec.put("cond", c19mConsume(in, k, c19mIDOfM))
			return "e1", nil
		}, map[string]bool{"e1": true, "e2": true})); err != nil {
			return nil, err
		}
	}
	for i, s := range c.Srcs {
		key := fmt.Sprintf("p%d", i)
		lam, isStr := c19mSourceLambda(tr, i, s)
		var opts []compose.GraphAddNodeOpt
		if isStr {
			opts = append(opts, compose.WithOutputKey(key))
		}
		if err := g.AddLambdaNode(key, lam, opts...); err != nil {
			return nil, err
		}
		g.AddEdge(compose.START, key)
		if s.Via {
			g.AddPassthroughNode(key + "v")
			g.AddEdge(key, key+"v")
			g.AddEdge(key+"v", sink)
		} else {
			g.AddEdge(key, sink)
		}
	}
	var copts []compose.GraphCompileOption
	if c.Mode == "dag" {
		copts = append(copts, compose.WithNodeTriggerMode(compose.AllPredecessor))
	}
	return g.Compile(bg, copts...)
}

func c19mRunGraph(c *c19mCase, r compose.Runnable[gcase.M, gcase.M], rec *c19mRec) error {
	bg := context.Background()
	var ropts []compose.Option
	if len(c.Handlers) > 0 {
		hopts, hdone := c19RunOpts(c.Handlers)
		defer hdone()
		ropts = append(ropts, hopts...)
	}
	x := gcase.M{"in": "x"}
	var sr *schema.StreamReader[gcase.M]
	var err error
	if c.Paradigm == "transform" {
		sr, err = r.Transform(bg, schema.StreamReaderFromArray([]gcase.M{{"in": "x"}}), ropts...)
	} else {
		sr, err = r.Stream(bg, x, ropts...)
	}
	if err != nil {
		return err
	}
	k := -1
	if c.Sink == "end" {
		k = c.Consume
	}
	rec.put("caller", c19mConsume(sr, k, c19mIDOfM))
	return nil
}

type c19mTool struct {
	tr  *c19mTracker
	id  int
	len int
}

func (t *c19mTool) Info(ctx context.Context) (*schema.ToolInfo, error) {
	return &schema.ToolInfo{Name: fmt.Sprintf("t%d", t.id), Desc: "c19"}, nil
}

func (t *c19mTool) StreamableRun(ctx context.Context, args string, opts ...tool.Option) (*schema.StreamReader[string], error) {
	return c19mPipe(t.tr, t.id, t.len, func(int) string { return "x" }), nil
}

func c19mToolsSetup(c *c19mCase, tr *c19mTracker) (func(ropts []compose.Option) (*schema.StreamReader[[]*schema.Message], error), error) {
	bg := context.Background()
	var tools []tool.BaseTool
	input := &schema.Message{Role: schema.Assistant}
	for i, s := range c.Srcs {
		tools = append(tools, &c19mTool{tr: tr, id: i, len: s.Len})
		input.ToolCalls = append(input.ToolCalls, schema.ToolCall{ID: fmt.Sprintf("call%d", i), Type: "function",
			Function: schema.FunctionCall{Name: fmt.Sprintf("t%d", i), Arguments: "{}"}})
	}
	tn, err := compose.NewToolNode(bg, &compose.ToolsNodeConfig{Tools: tools})
	if err != nil {
		return nil, err
	}
	if c.Sink == "direct" {
		return func([]compose.Option) (*schema.StreamReader[[]*schema.Message], error) { return tn.Stream(bg, input) }, nil
	}
	g := compose.NewGraph[*schema.Message, []*schema.Message]()
	if err := g.AddToolsNode("tools", tn); err != nil {
		return nil, err
	}
	g.AddEdge(compose.START, "tools")
	g.AddEdge("tools", compose.END)
	var copts []compose.GraphCompileOption
	if c.Mode == "dag" {
		copts = append(copts, compose.WithNodeTriggerMode(compose.AllPredecessor))
	}
	r, err := g.Compile(bg, copts...)
	if err != nil {
		return nil, err
	}
	return func(ropts []compose.Option) (*schema.StreamReader[[]*schema.Message], error) {
		return r.Stream(bg, input, ropts...)
	}, nil
}

func c19mIDOfMsgs(ms []*schema.Message) int {
	id := -1
	for i, m := range ms {
		if m != nil {
			if id >= 0 {
				return -1
			}
			id = i
		}
	}
	return id
}

// ---- one case ----

var c19mNotes int

func c19mNote(ctx *vh.Ctx, s string) {
	if c19mNotes < 5 {
		c19mNotes++
		ctx.Res.Note(s)
	}
}

func c19mOne(ctx *vh.Ctx, c *c19mCase) error {
	ctx.Progress.Mark(c)
	tr := &c19mTracker{state: map[int]string{}}
	rec := &c19mRec{traces: map[string]*c19mTrace{}}
	var run func() error
	var setupErr error
	if panicked, pv := vh.Safely(func() {
		switch c.Level {
		case "schema":
			run = func() error { return c19mRunSchema(c, tr, rec) }
		case "tools":
			var st func([]compose.Option) (*schema.StreamReader[[]*schema.Message], error)
			st, setupErr = c19mToolsSetup(c, tr)
			run = func() error {
				var ropts []compose.Option
				if len(c.Handlers) > 0 && c.Sink != "direct" {
					hopts, hdone := c19RunOpts(c.Handlers)
					defer hdone()
					ropts = append(ropts, hopts...)
				}
				sr, err := st(ropts)
				if err != nil {
					return err
				}
				rec.put("caller", c19mConsume(sr, c.Consume, c19mIDOfMsgs))
				return nil
			}
		default:
			var r compose.Runnable[gcase.M, gcase.M]
			r, setupErr = c19mCompile(c, tr, rec)
			run = func() error { return c19mRunGraph(c, r, rec) }
		}
	}); panicked {
		ctx.Res.Disagree(vh.Disagreement{Signature: "C19:merge:build-panic:" + c.Level, What: fmt.Sprint("building the case panicked: ", pv), Case: c})
		return nil
	}
	if setupErr != nil {
		ctx.Res.Dist("merge:class=build-error")
		c19mNote(ctx, "merge family: build error: "+setupErr.Error())
		ctx.Res.Count("malformed", false)
		return nil
	}
	base := runtime.NumGoroutine()
	var runErr error
	finished := false
	if panicked, pv := vh.Safely(func() {
		finished = vh.WithTimeout(20*time.Second, func() { runErr = run() })
	}); panicked {
		ctx.Res.Disagree(vh.Disagreement{Signature: "C19:merge:panic-escaped:" + c.Level, What: fmt.Sprint("streaming run panicked: ", pv), Case: c})
		return nil
	}
	ctx.Res.Dist("merge:level=" + c.Level)
	ctx.Res.Dist("merge:sink=" + c.Sink)
	if !finished {
		ctx.Res.Disagree(vh.Disagreement{Signature: "C19:merge:hang:" + c.Level, What: "streaming run (or reading its output) hangs", Case: c})
		return nil
	}
	if runErr != nil {
		ctx.Res.Dist("merge:out-of-scope(run-error)")
		c19mNote(ctx, "merge family: run error: "+runErr.Error())
		ctx.Res.Count("oos", false)
		return nil
	}
	// the trace of the reader(s) of the merged stream: copies of one stream deliver the same
	// sequence, the merged reader has delivered the longest of them
	rec.mu.Lock()
	var trace *c19mTrace
	var who []string
	for w := range rec.traces {
		who = append(who, w)
	}
	sort.Strings(who)
	mergedReaders := who
	if c.Sink != "end" && c.Level != "schema" && c.Level != "tools" {
		mergedReaders = nil
		for _, w := range who {
			if w != "caller" {
				mergedReaders = append(mergedReaders, w)
			}
		}
	}
	prefixOK := true
	for _, w := range mergedReaders {
		t := rec.traces[w]
		if trace == nil {
			trace = t
			continue
		}
		short, long := t, trace
		if len(short.Recv) > len(long.Recv) {
			short, long = long, short
		}
		for i := range short.Recv {
			if short.Recv[i] != long.Recv[i] {
				prefixOK = false
			}
		}
		if len(t.Recv) > len(trace.Recv) || (len(t.Recv) == len(trace.Recv) && t.EOF) {
			trace = t
		}
	}
	rec.mu.Unlock()
	if trace == nil {
		trace = &c19mTrace{Recv: []int{}}
	}
	srcs, ordered := c19mModel(c)
	ask := &c19mAsk{Kind: "merge", Srcs: srcs, Recv: trace.Recv, EOF: trace.EOF, Ordered: ordered}
	raw, err := ctx.Oracle.Ask("C19", ask)
	if err != nil {
		return err
	}
	var v c19mVerdict
	if err := json.Unmarshal(raw, &v); err != nil {
		return err
	}
	path := "select"
	if len(srcs) > 5 {
		path = "reflect"
	}
	ctx.Res.Dist("merge:path=" + path)
	ctx.Res.Dist(fmt.Sprintf("merge:sources=%d", len(srcs)))
	early := !trace.EOF
	mixed := early && len(v.Ended) > 0 && len(v.StillOpen) > 0
	switch {
	case !early:
		ctx.Res.Dist("merge:read=to-the-end")
	case mixed:
		ctx.Res.Dist("merge:read=closed-after-some-source-ended")
		// a source that may have ended sits before a source that is still open
		if v.Ended[0] < v.StillOpen[len(v.StillOpen)-1] {
			ctx.Res.Dist("merge:ended-before-open(by id)")
		}
	default:
		ctx.Res.Dist("merge:read=closed-before-any-end")
	}
	for _, h := range c.Handlers {
		ctx.Res.Dist("merge:handler=" + h)
	}
	// (by the case alone, so that the count does not depend on the picks of the merged reader)
	shortSum, nShort, nLong := 0, 0, 0
	for _, m := range srcs {
		if m.Len <= 2 {
			shortSum += m.Len
			nShort++
		} else {
			nLong++
		}
	}
	ctx.Res.Count("merge:"+vh.Canon(c), nShort >= 1 && nLong >= 1 && c.Consume >= shortSum+40)
	ctx.Res.Sample(c)
	model := map[string]any{"ask": ask, "verdict": v}
	if !v.Admissible || trace.Bad > 0 || !prefixOK {
		ctx.Res.Disagree(vh.Disagreement{Signature: "C19:merge:trace-not-deliverable:" + c.Level,
			What: "the chunks the reader of the merged stream received are not a sequence the merged-reader model can deliver (per-source counts, end of stream, or two copies differ)",
			Case: c, Model: model, Impl: map[string]any{"traces": rec.traces}})
		return nil
	}
	sfx := c.Level + ":" + path
	sfx += c19CbSfx(c.Handlers)
	if !tr.settled(4 * time.Second) {
		stuck, states := tr.snapshot()
		must := map[int]bool{}
		for _, i := range v.Release {
			must[i] = true
		}
		var owed []int
		for _, i := range stuck {
			if must[i] {
				owed = append(owed, i)
			}
		}
		ctx.Res.Disagree(vh.Disagreement{Signature: "C19:merge:producer-blocked:" + sfx,
			What: fmt.Sprintf("after the reader of a merged stream of %d sources %s, %d producer(s) are still blocked on a send: sources %v (the model releases %v; sources whose end the merged reader may have observed: %v)",
				len(srcs), map[bool]string{true: "closed it early", false: "read it to the end"}[early], len(stuck), stuck, owed, v.Ended),
			Case: c, Model: model, Impl: map[string]any{"producers": states, "stuck": stuck, "trace": trace}})
		return nil
	}
	deadline := time.Now().Add(3 * time.Second)
	for runtime.NumGoroutine() > base && time.Now().Before(deadline) {
		time.Sleep(time.Millisecond)
	}
	if n := runtime.NumGoroutine(); n > base {
		buf := make([]byte, 1<<16)
		buf = buf[:runtime.Stack(buf, true)]
		ctx.Res.Disagree(vh.Disagreement{Signature: "C19:merge:goroutines-left:" + sfx, What: fmt.Sprintf("%d goroutine(s) more than before the run are still alive", n-base), Case: c, Model: model,
			Impl: map[string]any{"stacks": c19Trim(string(buf))}})
	}
	return nil
}

// ---- generator ----

func c19mGen(r *vh.Rand) *c19mCase {
	c := &c19mCase{Kind: "merge"}
	switch x := r.Intn(100); {
	case x < 35:
		c.Level = "schema"
	case x < 70:
		c.Level = "graph"
	case x < 85:
		c.Level = "workflow"
	default:
		c.Level = "tools"
	}
	n := 2 + r.Intn(4) // 2..5: static select
	if r.Chance(35) {
		n = 6 + r.Intn(4) // 6..9: reflect.Select
	}
	// reading plan: to the end / close at once or after a few chunks / close after the short sources ended
	plan := []string{"end", "early", "after", "after", "after"}[r.Intn(5)]
	var kinds []string
	switch c.Level {
	case "schema":
		kinds = []string{"pipe", "pipe", "pipe", "convert", "child", "array", "merged"}
		c.Sink = "end"
	case "graph":
		kinds = []string{"key", "key", "map", "map", "invoke"}
		c.Mode = []string{"dag", "pregel"}[r.Intn(2)]
		c.Sink = []string{"end", "end", "node", "branch"}[r.Intn(4)]
	case "workflow":
		kinds = []string{"key", "map"}
		c.Sink = []string{"end", "node"}[r.Intn(2)]
	default:
		kinds = []string{"tool"}
		c.Sink = []string{"direct", "graph", "graph"}[r.Intn(3)]
		c.Mode = []string{"dag", "pregel"}[r.Intn(2)]
	}
	long := 4000
	if plan == "end" {
		long = 6 + r.Intn(20)
	}
	length := func() int {
		if r.Chance(45) {
			return r.Intn(3)
		}
		return long
	}
	viaAll := c.Level == "graph" && c.Mode == "pregel" && r.Chance(25)
	for i := 0; i < n; i++ {
		s := c19mSrc{Kind: kinds[r.Intn(len(kinds))], Len: length()}
		switch s.Kind {
		case "merged":
			s.Len2 = length()
		case "array":
			s.Len = r.Intn(3)
		case "invoke":
			s.Len = 1
		}
		if c.Level == "graph" {
			s.Via = viaAll || (c.Mode == "dag" && r.Chance(20))
		}
		c.Srcs = append(c.Srcs, s)
	}
	short, longs := 0, 0
	for _, s := range c.Srcs {
		for _, l := range []int{s.Len, s.Len2} {
			if l >= long && long > 2 {
				longs++
			} else {
				short += l
			}
		}
	}
	switch plan {
	case "end":
		c.Consume = -1
	case "early":
		c.Consume = r.Intn(3)
	default:
		// every further Recv of the merged reader picks a source that has ended with
		// probability >= 1/(longs+1): after 40*(longs+1) more chunks it has seen them all
		c.Consume = short + 40*(longs+1) + r.Intn(8)
	}
	if c.Sink == "branch" {
		c.Consume2 = []int{0, 1, c.Consume + 3, short + 20}[r.Intn(4)]
		if plan == "end" {
			c.Consume2 = []int{-1, 0, 2}[r.Intn(3)]
		}
	}
	if c.Level == "graph" || c.Level == "workflow" {
		c.Paradigm = []string{"stream", "transform"}[r.Intn(2)]
	}
	if c.Level != "schema" && !(c.Level == "tools" && c.Sink == "direct") && r.Chance(60) {
		c.Handlers = c19GenHandlers(r)
	}
	return c
}

func c19mReplay(ctx *vh.Ctx, raw json.RawMessage) (bool, error) {
	var probe struct {
		Kind string `json:"kind"`
	}
	if json.Unmarshal(raw, &probe) != nil || probe.Kind != "merge" {
		return false, nil
	}
	var c c19mCase
	if err := json.Unmarshal(raw, &c); err != nil {
		return true, err
	}
	// merge order of a channel fan-in follows map iteration: repeat
	for i := 0; i < 8; i++ {
		if err := c19mOne(ctx, &c); err != nil {
			return true, err
		}
		if len(ctx.Res.Disagreements) > 0 {
			break
		}
	}
	return true, nil
}

// fixed cases that run first: one source ends at once, a later one keeps producing, the reader
// closes after the end has been observed (static select, reflect.Select, each level)
func c19mCorpus() []*c19mCase {
	p := func(kind string, lens ...int) []c19mSrc {
		var out []c19mSrc
		for _, l := range lens {
			out = append(out, c19mSrc{Kind: kind, Len: l})
		}
		return out
	}
	return []*c19mCase{
		{Kind: "merge", Level: "schema", Sink: "end", Srcs: p("pipe", 0, 4000), Consume: 80},
		{Kind: "merge", Level: "schema", Sink: "end", Srcs: p("pipe", 1, 4000, 0, 4000, 2, 4000, 4000), Consume: 203},
		{Kind: "merge", Level: "schema", Sink: "end", Srcs: p("convert", 4000, 1, 4000), Consume: 121},
		{Kind: "merge", Level: "tools", Sink: "direct", Srcs: p("tool", 1, 4000), Consume: 81},
		{Kind: "merge", Level: "tools", Sink: "graph", Mode: "pregel", Srcs: p("tool", 0, 4000, 1, 4000, 4000, 4000), Consume: 201},
		{Kind: "merge", Level: "graph", Sink: "end", Mode: "dag", Paradigm: "stream", Srcs: p("key", 1, 4000, 0, 4000), Consume: 121},
		{Kind: "merge", Level: "graph", Sink: "node", Mode: "pregel", Paradigm: "stream", Srcs: p("map", 4000, 1, 4000, 0), Consume: 121},
		{Kind: "merge", Level: "workflow", Sink: "end", Paradigm: "stream", Srcs: p("key", 0, 4000, 1, 4000), Consume: 121},
	}
}

func c19mRun(ctx *vh.Ctx) error {
	n := ctx.N(900, 6000)
	limit := ctx.Budget / 3
	start := time.Now()
	for _, c := range c19mCorpus() {
		if err := c19mOne(ctx, c); err != nil {
			return err
		}
	}
	for i := 0; i < n && ctx.TimeLeft() && time.Since(start) < limit; i++ {
		if err := c19mOne(ctx, c19mGen(ctx.Rng)); err != nil {
			return err
		}
	}
	return nil
}
