//go:build verif && (vh_all || vh_c04)

package props

import (
	"encoding/json"
	"fmt"
	"strings"

	"github.com/cloudwego/eino/schema"
	"github.com/cloudwego/eino/verifharness/gcase"
	"github.com/cloudwego/eino/verifharness/vh"
)

func init() { vh.Register("C04", runC04) }

type c04Case struct {
	G        *gcase.Graph `json:"g"`
	Input    string       `json:"input"`
	InChunks []int        `json:"inChunks"`
	// top-level nodes whose natively streaming forms emit through a schema.Pipe (filled and closed
	// before the call returns) instead of an array-backed reader; the model does not see the difference
	Pipe []string `json:"pipe,omitempty"`
}

// c04BuildOpts: the stream producers of the case (nil: array readers everywhere).
func c04BuildOpts(c *c04Case) *gcase.BuildOpts {
	if len(c.Pipe) == 0 {
		return nil
	}
	piped := map[string]bool{}
	for _, k := range c.Pipe {
		piped[k] = true
	}
	return &gcase.BuildOpts{Produce: func(path string, chunks []gcase.M) *schema.StreamReader[gcase.M] {
		if !piped[path] {
			return schema.StreamReaderFromArray(chunks)
		}
		sr, sw := schema.Pipe[gcase.M](len(chunks) + 1)
		for _, ch := range chunks {
			sw.Send(ch, nil)
		}
		sw.Close()
		return sr
	}}
}

// c04FanInWidth: the widest data fan-in of the top-level graph (edges into one node or END).
func c04FanInWidth(g *gcase.Graph) int {
	w, _ := c04WidestFanIn(g)
	return w
}

func c04WidestFanIn(g *gcase.Graph) (w int, at string) {
	indeg := map[string]int{}
	for _, e := range g.Edges {
		indeg[e[1]]++
		if indeg[e[1]] > w {
			w, at = indeg[e[1]], e[1]
		}
	}
	return
}

// c04NonArrayPreds: how many predecessors of the widest fan-in hand over a stream that is not an
// array reader: a converted one (output key) or a pipe filled by a natively streaming form.
func c04NonArrayPreds(c *c04Case) int {
	_, at := c04WidestFanIn(c.G)
	piped := map[string]bool{}
	for _, p := range c.Pipe {
		piped[p] = true
	}
	k := 0
	for _, e := range c.G.Edges {
		if e[1] != at {
			continue
		}
		for _, nd := range c.G.Nodes {
			if nd.Key == e[0] && (nd.OutKey != "" || (piped[nd.Key] && strings.ContainsAny(nd.Native, "st"))) {
				k++
			}
		}
	}
	return k
}

func c04One(ctx *vh.Ctx, c *c04Case) error {
	ctx.Progress.Mark(c)
	impl, class := gcase.RunParadigms(c.G, c.Input, c.InChunks, c04BuildOpts(c))
	nodes, _, branches, nested, cyclic, fanin := gcase.Shape(c.G)
	ctx.Res.Dist(fmt.Sprintf("nodes=%d", nodes))
	if impl == nil {
		ctx.Res.Dist("class=" + strings.SplitN(class, ":", 2)[0])
		ctx.Res.Count("malformed", false)
		return nil
	}
	raw, err := ctx.Oracle.Ask("C04", c)
	if err != nil {
		return err
	}
	var model map[string]gcase.ResultJ
	if err := json.Unmarshal(raw, &model); err != nil {
		return err
	}
	// some fan-in of the stream-mode run merges streams that share a key: the concatenation
	// depends on the arrival order of their chunks (value mode refuses such a merge)
	var od struct {
		OrderDep struct {
			Flag bool `json:"flag"`
		} `json:"orderDep"`
	}
	if err := json.Unmarshal(raw, &od); err != nil {
		return err
	}
	delete(model, "orderDep")
	if od.OrderDep.Flag {
		ctx.Res.Dist("order-dependent-merge")
	}
	broken, lazy := c04HasBreak(c.G)
	if broken {
		ctx.Res.Dist("broken-producer")
	}
	if len(c.G.Stages) > 0 {
		ctx.Res.Dist("chain")
	}
	natives := map[string]bool{}
	for _, n := range c.G.Nodes {
		natives[n.Native] = true
	}
	ctx.Res.Count(vh.Canon(c), len(natives) >= 2 || fanin || branches > 0 || nested > 0 || cyclic)
	ctx.Res.Sample(c)
	ctx.Res.Dist("mode=" + c.G.Mode)
	for _, p := range gcase.SortedKeys(impl) {
		pr := impl[p]
		if pr.Class != "ran" {
			cl := strings.SplitN(pr.Class, ":", 2)[0]
			sig, what := "C04:"+p+":"+cl, p+" "+pr.Class
			if w := c04FanInWidth(c.G); cl == "hang" && w >= 2 {
				// a merged stream reader picks its receive strategy by the number of merged streams
				na := c04NonArrayPreds(c)
				sig += fmt.Sprintf(":fan-in-width=%d:non-array=%d", w, na)
				what += fmt.Sprintf(" (widest fan-in of the graph: %d data predecessors, %d of them with a converted or pipe-backed stream)", w, na)
			}
			ctx.Res.Disagree(vh.Disagreement{Signature: sig, What: what, Case: c, Model: model})
			continue
		}
		if pr.Res.Err != nil {
			ctx.Res.Dist(p + "=" + strings.SplitN(pr.Res.Err.C, ":", 2)[0])
		} else {
			ctx.Res.Dist(p + "=ok")
		}
	}
	// (a) the property itself on the implementation: the four paradigms agree
	inv := impl["invoke"]
	for _, p := range []string{"stream", "collect", "transform"} {
		pr := impl[p]
		if pr.Class != "ran" || inv.Class != "ran" {
			continue
		}
		if !c04Same(inv.Res, pr.Res) {
			if lazy && inv.Res.Err != nil && pr.Res.Ok != nil && model["invoke"].Err != nil && model[p].Ok != nil {
				// a producer broke in the middle of a stream (or a pass-through node found no chunk
				// with its input key) and nobody drains that stream (no path to END, or the run
				// reaches END first): Invoke sees the failure when the node runs, a lazy stream
				// cannot report it. The model predicts exactly this outcome (compared below).
				ctx.Res.Dist("unread-broken-stream:" + p)
				continue
			}
			ctx.Res.Disagree(vh.Disagreement{Signature: "C04:paradigms:" + c04Kind(inv.Res) + "-vs-" + c04Kind(pr.Res),
				What: fmt.Sprintf("Invoke and %s disagree: %s vs %s", p, vh.Canon(inv.Res), vh.Canon(pr.Res)), Case: c, Model: model,
				Impl: map[string]any{"invoke": inv.Res, p: pr.Res}})
		}
	}
	// (b) correspondence with the model, paradigm by paradigm
	for _, p := range gcase.SortedKeys(impl) {
		pr := impl[p]
		if pr.Class != "ran" {
			continue
		}
		m := model[p]
		if p != "invoke" && (od.OrderDep.Flag || (model["invoke"].Err != nil && model["invoke"].Err.C == "merge")) {
			// a fan-in with a duplicated key: value mode fails; in stream mode the chunks of the
			// sources interleave in arrival order, the concatenation is schedule dependent
			continue
		}
		if !c04Same(m, pr.Res) {
			ctx.Res.Disagree(vh.Disagreement{Signature: "C04:model:" + p + ":" + c04Kind(m) + "-vs-" + c04Kind(pr.Res),
				What: fmt.Sprintf("%s: implementation %s, model %s", p, vh.Canon(pr.Res), vh.Canon(m)), Case: c, Model: model, Impl: pr.Res})
		}
	}
	return nil
}

// two results are the same: equal values, or both failures of the same class
// (which failing node is reported depends on completion order; node paths are C13's business)
func c04Same(a, b gcase.ResultJ) bool {
	if a.Ok != nil || b.Ok != nil {
		return a.Ok != nil && b.Ok != nil && *a.Ok == *b.Ok
	}
	if a.Err == nil || b.Err == nil {
		return false
	}
	return true
}

func c04Kind(r gcase.ResultJ) string {
	if r.Ok != nil {
		return "ok"
	}
	if r.Err != nil {
		return "err-" + strings.SplitN(r.Err.C, ":", 2)[0]
	}
	return "none"
}

// ---------- generators of the families the generic generator reaches too rarely ----------

// c04Lambda: a tag node with a random native subset and chunk pattern.
func c04Lambda(r *vh.Rand, key string) gcase.Node {
	n := gcase.Node{Key: key, Body: gcase.Body{Op: "tag"}}
	for _, p := range []string{"i", "s", "c", "t"} {
		if r.Chance(40) {
			n.Native += p
		}
	}
	if n.Native == "" {
		n.Native = []string{"i", "s", "c", "t"}[r.Intn(4)]
	}
	for k := r.Intn(3); k > 0; k-- {
		n.Chunks = append(n.Chunks, r.Intn(4))
	}
	return n
}

// c04Break turns a lambda into a producer that breaks in the middle of its stream: it returns its
// reader and reports its failure as an error item after 0..2 chunks (mostly natively streaming;
// when it implements neither Stream nor Transform it fails at call time in every form).
func c04Break(r *vh.Rand, n *gcase.Node) {
	after := r.Intn(3)
	n.Body = gcase.Body{Op: "fail", ID: r.Range(1, 9), After: &after}
	if !strings.ContainsAny(n.Native, "st") && r.Chance(85) {
		n.Native += []string{"s", "t"}[r.Intn(2)]
	}
	if len(n.Chunks) == 0 && r.Chance(70) {
		n.Chunks = []int{r.Intn(3), r.Intn(3)}
	}
}

// c04BreakOne breaks one lambda of a generated graph (sometimes inside a nested graph).
func c04BreakOne(r *vh.Rand, g *gcase.Graph) {
	var idx []int
	for i, n := range g.Nodes {
		if n.Body.Op == "tag" || n.Body.Op == "fail" || (n.Body.Op == "graph" && r.Chance(50)) {
			idx = append(idx, i)
		}
	}
	if len(idx) == 0 {
		return
	}
	n := &g.Nodes[idx[r.Intn(len(idx))]]
	if n.Body.Op == "graph" {
		c04BreakOne(r, n.Body.G)
		return
	}
	c04Break(r, n)
}

// c04PickKey puts a pass-through node with an input key in front of a lambda: the lambda then
// takes the string under that key as its Go input (no input key of its own), and returns a map,
// a string under an output key or a typed map — the pass-through gets its type from it.
func c04PickKey(r *vh.Rand, g *gcase.Graph) {
	inBranch := map[string]bool{}
	for _, b := range g.Branches {
		for _, e := range b.Ends {
			inBranch[e] = true
		}
	}
	outKey := func(k string) (string, bool) {
		if k == "start" {
			return "in", true
		}
		for i := range g.Nodes {
			n := &g.Nodes[i]
			if n.Key == k && n.Keyable() {
				n.OutTyped = false // the value under the key must be the string itself
				if n.OutKey != "" {
					return n.OutKey, true
				}
				return n.Key, true
			}
		}
		return "", false
	}
	var cands [][2]int // node index, edge index
	for i, n := range g.Nodes {
		if !n.Keyable() || n.InKey != "" || n.SIn != "" || inBranch[n.Key] {
			continue
		}
		in, ei := 0, -1
		for j, e := range g.Edges {
			if e[1] == n.Key {
				in++
				ei = j
			}
		}
		if in == 1 && g.Edges[ei][0] != n.Key {
			cands = append(cands, [2]int{i, ei})
		}
	}
	if len(cands) == 0 {
		return
	}
	c := cands[r.Intn(len(cands))]
	pred := g.Edges[c[1]][0]
	k, ok := outKey(pred)
	if !ok {
		return
	}
	if r.Chance(8) {
		k = "missing"
	}
	pk := fmt.Sprintf("p%d", c[0])
	g.Nodes = append(g.Nodes, gcase.Node{Key: pk, Body: gcase.Body{Op: "pass"}, InKey: k})
	g.Nodes[c[0]].SIn = k
	g.Edges[c[1]] = [2]string{pred, pk}
	g.Edges = append(g.Edges, [2]string{pk, g.Nodes[c[0]].Key})
}

// c04GenFanIn: START (-> head) -> 2..3 producers -> join -> END, the join being a lambda, a
// pass-through node or END itself. Producers mostly carry distinct output keys (their streams
// reach the merge as converted readers), one of them may break in the middle of its stream.
func c04GenFanIn(r *vh.Rand) *gcase.Graph {
	g := &gcase.Graph{Mode: []string{"pregel", "dag"}[r.Intn(2)]}
	src, srcKey := "start", "in"
	if r.Chance(30) {
		h := c04Lambda(r, "h")
		g.Nodes = append(g.Nodes, h)
		g.Edges = append(g.Edges, [2]string{"start", "h"})
		src, srcKey = "h", "h"
	}
	np := r.Range(2, 3)
	var prods []string
	for i := 0; i < np; i++ {
		n := c04Lambda(r, fmt.Sprintf("a%d", i))
		if r.Chance(80) {
			n.OutKey = fmt.Sprintf("k%d", i)
			n.OutTyped = r.Chance(20)
		}
		if r.Chance(25) {
			n.InKey = srcKey
		}
		g.Nodes = append(g.Nodes, n)
		g.Edges = append(g.Edges, [2]string{src, n.Key})
		prods = append(prods, n.Key)
	}
	if r.Chance(50) {
		c04Break(r, &g.Nodes[len(g.Nodes)-1-r.Intn(np)])
	}
	join := "end"
	switch k := r.Intn(100); {
	case k < 45:
		j := c04Lambda(r, "j")
		g.Nodes = append(g.Nodes, j)
		join = "j"
	case k < 65:
		g.Nodes = append(g.Nodes, gcase.Node{Key: "j", Body: gcase.Body{Op: "pass"}})
		join = "j"
	}
	for _, p := range prods {
		g.Edges = append(g.Edges, [2]string{p, join})
	}
	if join != "end" {
		g.Edges = append(g.Edges, [2]string{join, "end"})
	}
	return g
}

// c04GenChain: a case built through compose.NewChain: 1..4 stages, each a lambda (with input /
// output keys), a pass-through node, a pass-through node with an input key followed by a lambda
// taking the picked string, or a Parallel of 2..3 keyed lambdas; lambdas may break mid-stream.
func c04GenChain(r *vh.Rand) *gcase.Graph {
	g := &gcase.Graph{Mode: "pregel"}
	prev := []string{"start"}
	keys := []string{"in"} // keys the previous stage's output carries
	id := 0
	fresh := func(p string) string { id++; return fmt.Sprintf("%s%d", p, id) }
	add := func(stage []gcase.Node) {
		var ks []string
		for _, n := range stage {
			g.Nodes = append(g.Nodes, n)
			for _, p := range prev {
				g.Edges = append(g.Edges, [2]string{p, n.Key})
			}
			ks = append(ks, n.Key)
		}
		g.Stages = append(g.Stages, ks)
		prev = ks
	}
	// a key of the previous stage's output whose value a lambda takes as a string (so the value
	// under it must be the string itself, not a typed map)
	someKey := func() string {
		if r.Chance(8) {
			return "missing"
		}
		k := keys[r.Intn(len(keys))]
		for i := range g.Nodes {
			if g.Nodes[i].OutKey == k {
				g.Nodes[i].OutTyped = false
			}
		}
		return k
	}
	ns := r.Range(1, 4)
	for s := 0; s < ns; s++ {
		k := r.Intn(100)
		if len(prev) > 1 && k >= 65 { // a Parallel cannot follow a Parallel
			k = r.Intn(65)
		}
		switch {
		case k < 35: // lambda
			n := c04Lambda(r, fresh("n"))
			if r.Chance(30) {
				n.InKey = someKey()
			}
			if r.Chance(15) {
				c04Break(r, &n)
			}
			out := n.Key
			if r.Chance(30) {
				n.OutKey = fresh("k")
				n.OutTyped = r.Chance(20)
				out = n.OutKey
			}
			add([]gcase.Node{n})
			keys = []string{out}
		case k < 45: // pass-through (keys unchanged)
			add([]gcase.Node{{Key: fresh("p"), Body: gcase.Body{Op: "pass"}}})
		case k < 65: // pick a key with a pass-through node, then a lambda on the string
			ik := someKey()
			add([]gcase.Node{{Key: fresh("p"), Body: gcase.Body{Op: "pass"}, InKey: ik}})
			n := c04Lambda(r, fresh("n"))
			n.SIn = ik
			out := n.Key
			if r.Chance(35) {
				n.OutKey = fresh("k")
				n.OutTyped = r.Chance(30)
				out = n.OutKey
			}
			if r.Chance(15) {
				c04Break(r, &n)
			}
			add([]gcase.Node{n})
			keys = []string{out}
		default: // parallel
			np := r.Range(2, 3)
			var stage []gcase.Node
			var outs []string
			for i := 0; i < np; i++ {
				n := c04Lambda(r, fresh("n"))
				n.OutKey = fresh("k")
				n.OutTyped = r.Chance(15)
				if r.Chance(25) {
					n.InKey = someKey()
				}
				stage = append(stage, n)
				outs = append(outs, n.OutKey)
			}
			if r.Chance(40) {
				c04Break(r, &stage[r.Intn(np)])
			}
			add(stage)
			keys = outs
		}
	}
	for _, p := range prev {
		g.Edges = append(g.Edges, [2]string{p, "end"})
	}
	return g
}

// c04GenWide: fan-in of every width 2..8. START (-> head) -> w producers -> a lambda / a pass-through
// node / END, or a chain with a Parallel of w members. The producers' streams reach the merge in every
// backing the runtime has: array readers (a natively streaming lambda emitting from an array, or the
// one-chunk stream wrapped around a non-streaming form), converted readers (WithOutputKey) and pipes.
func c04GenWide(r *vh.Rand) (*gcase.Graph, []string) {
	w := r.Range(2, 8)
	chain := r.Chance(35)
	g := &gcase.Graph{Mode: []string{"pregel", "dag"}[r.Intn(2)]}
	if chain {
		g.Mode = "pregel"
	}
	src := "start"
	if r.Chance(25) {
		g.Nodes = append(g.Nodes, c04Lambda(r, "h"))
		g.Edges = append(g.Edges, [2]string{"start", "h"})
		if chain {
			g.Stages = append(g.Stages, []string{"h"})
		}
		src = "h"
	}
	var prods, pipes []string
	// the share of converted / pipe-backed producers varies from case to case, so that every
	// count of non-array streams at the merge comes up for every width
	keyPct, pipePct := []int{0, 30, 60, 100}[r.Intn(4)], []int{0, 30, 60, 100}[r.Intn(4)]
	for i := 0; i < w; i++ {
		n := c04Lambda(r, fmt.Sprintf("a%d", i))
		if !strings.ContainsAny(n.Native, "st") && r.Chance(80) {
			n.Native += []string{"s", "t"}[r.Intn(2)]
		}
		if chain || r.Chance(keyPct) {
			n.OutKey = fmt.Sprintf("k%d", i)
			n.OutTyped = r.Chance(10)
		}
		if r.Chance(pipePct) {
			pipes = append(pipes, n.Key)
		}
		g.Nodes = append(g.Nodes, n)
		g.Edges = append(g.Edges, [2]string{src, n.Key})
		prods = append(prods, n.Key)
	}
	if chain {
		g.Stages = append(g.Stages, prods)
	}
	join := "end"
	switch k := r.Intn(100); {
	case k < 40:
		g.Nodes = append(g.Nodes, c04Lambda(r, "j"))
		join = "j"
	case k < 55:
		g.Nodes = append(g.Nodes, gcase.Node{Key: "j", Body: gcase.Body{Op: "pass"}})
		join = "j"
	}
	for _, p := range prods {
		g.Edges = append(g.Edges, [2]string{p, join})
	}
	if join != "end" {
		g.Edges = append(g.Edges, [2]string{join, "end"})
		if chain {
			g.Stages = append(g.Stages, []string{join})
		}
	}
	return g, pipes
}

// c04WideFamily: the fan-in widths, run before the generic stream of cases.
func c04WideFamily(ctx *vh.Ctx) error {
	n := ctx.N(400, 4000)
	for i := 0; i < n && ctx.TimeLeft(); i++ {
		g, pipes := c04GenWide(ctx.Rng)
		c := &c04Case{G: g, Input: fmt.Sprintf("input%d", ctx.Rng.Intn(5)), Pipe: pipes}
		for k := ctx.Rng.Intn(3); k > 0; k-- {
			c.InChunks = append(c.InChunks, ctx.Rng.Intn(3))
		}
		nonArray := c04NonArrayPreds(c)
		kind := "graph"
		if len(g.Stages) > 0 {
			kind = "parallel"
		}
		ctx.Res.Dist(fmt.Sprintf("wide:%s:width=%d", kind, c04FanInWidth(g)))
		ctx.Res.Dist(fmt.Sprintf("wide:non-array-streams=%d", nonArray))
		if err := c04One(ctx, c); err != nil {
			return err
		}
	}
	return nil
}

// c04Corpus: small hand-written members of the families above, run first on every seed.
func c04Corpus() []*c04Case {
	one, zero := 1, 0
	tag := gcase.Body{Op: "tag"}
	pass := gcase.Body{Op: "pass"}
	brk := func(after *int) gcase.Body { return gcase.Body{Op: "fail", ID: 5, After: after} }
	var out []*c04Case
	// a Parallel / a fan-in one member of which breaks in the middle of its keyed stream
	for _, after := range []*int{&one, &zero} {
		for _, nat := range []string{"s", "t", "ist"} {
			out = append(out, &c04Case{Input: "input0", G: &gcase.Graph{Mode: "pregel",
				Nodes: []gcase.Node{{Key: "good", Body: tag, Native: "i", OutKey: "kg"},
					{Key: "bad", Body: brk(after), Native: nat, Chunks: []int{1, 1}, OutKey: "kb"}},
				Edges:  [][2]string{{"start", "good"}, {"start", "bad"}, {"good", "end"}, {"bad", "end"}},
				Stages: [][]string{{"good", "bad"}}}})
			for _, mode := range []string{"pregel", "dag"} {
				out = append(out, &c04Case{Input: "input1", InChunks: []int{1}, G: &gcase.Graph{Mode: mode,
					Nodes: []gcase.Node{{Key: "good", Body: tag, Native: "i", OutKey: "kg"},
						{Key: "bad", Body: brk(after), Native: nat, Chunks: []int{0, 2}, OutKey: "kb"},
						{Key: "consumer", Body: tag, Native: "i"}},
					Edges: [][2]string{{"start", "good"}, {"start", "bad"}, {"good", "consumer"}, {"bad", "consumer"}, {"consumer", "end"}}}})
			}
		}
	}
	// a pass-through node that picks a key for a lambda whose input and output types differ
	for _, nat := range []string{"i", "s", "c", "t"} {
		for _, typed := range []bool{false, true} {
			n := gcase.Node{Key: "len", Body: tag, Native: nat, Chunks: []int{1}, SIn: "in"}
			if typed {
				n.OutKey, n.OutTyped = "k", true
			}
			out = append(out, &c04Case{Input: "input2", InChunks: []int{1, 0}, G: &gcase.Graph{Mode: "pregel",
				Nodes: []gcase.Node{{Key: "pick", Body: pass, InKey: "in"}, n},
				Edges: [][2]string{{"start", "pick"}, {"pick", "len"}, {"len", "end"}}}})
			m := n
			m.SIn = "k0"
			out = append(out, &c04Case{Input: "input3", InChunks: []int{2}, G: &gcase.Graph{Mode: "pregel",
				Nodes:  []gcase.Node{{Key: "src", Body: tag, Native: "s", Chunks: []int{2, 2}, OutKey: "k0"}, {Key: "pick", Body: pass, InKey: "k0"}, m},
				Edges:  [][2]string{{"start", "src"}, {"src", "pick"}, {"pick", "len"}, {"len", "end"}},
				Stages: [][]string{{"src"}, {"pick"}, {"len"}}}})
		}
	}
	return out
}

// c04HasBreak: some producer breaks in the middle of its stream (second result: or some
// pass-through node filters its input stream by key, which fails lazily too when the key is missing).
func c04HasBreak(g *gcase.Graph) (broken, lazy bool) {
	for _, n := range g.Nodes {
		if n.Body.After != nil {
			broken, lazy = true, true
		}
		if n.Body.Op == "pass" && n.InKey != "" {
			lazy = true
		}
		if n.Body.Op == "graph" {
			b, l := c04HasBreak(n.Body.G)
			broken, lazy = broken || b, lazy || l
		}
	}
	return
}

func runC04(ctx *vh.Ctx) error {
	ctx.Res.Rule = "random graphs (pregel and dag, cycles, fan-in, branches, nested) whose nodes natively implement a random non-empty subset of invoke/stream/collect/transform with random chunk patterns; input chunked randomly; the same compiled object called through Invoke, Stream, Collect, Transform; non-trivial = >=2 distinct native subsets or fan-in/branch/nested/cycle; distinct by canonical case"
	if ctx.Replay != nil {
		var kc c04KeyCase
		if err := json.Unmarshal(ctx.Replay, &kc); err == nil && kc.Kind == "keyval" {
			return c04KeyOne(ctx, &kc)
		}
		var ec c04EiCase
		if err := json.Unmarshal(ctx.Replay, &ec); err == nil && ec.Kind == "erritem" {
			return c04EiOne(ctx, &ec)
		}
		var fc c04FmCase
		if err := json.Unmarshal(ctx.Replay, &fc); err == nil && fc.Kind == "fmap" {
			return c04FmOne(ctx, &fc)
		}
		var c c04Case
		if err := json.Unmarshal(ctx.Replay, &c); err != nil {
			return err
		}
		return c04One(ctx, &c)
	}
	for _, c := range c04Corpus() {
		if err := c04One(ctx, c); err != nil {
			return err
		}
	}
	if err := c04KeyFamily(ctx); err != nil {
		return err
	}
	if err := c04FmFamily(ctx); err != nil {
		return err
	}
	if err := c04EiFamily(ctx); err != nil {
		return err
	}
	if err := c04WideFamily(ctx); err != nil {
		return err
	}
	n := ctx.N(6000, 40000)
	for i := 0; i < n && ctx.TimeLeft(); i++ {
		var g *gcase.Graph
		switch k := ctx.Rng.Intn(100); {
		case k < 60:
			o := gcase.GenOpts{Mode: "mixed", MaxNodes: 6, Depth: 1, Cycles: true, FailPct: 3, BranchPct: 20}
			g = gcase.Gen(ctx.Rng, o)
			gcase.AssignNatives(ctx.Rng, g)
			if ctx.Rng.Chance(20) {
				c04BreakOne(ctx.Rng, g)
			}
			if ctx.Rng.Chance(60) {
				gcase.AssignKeys(ctx.Rng, g)
			}
			if ctx.Rng.Chance(30) {
				c04PickKey(ctx.Rng, g)
			}
		case k < 80:
			g = c04GenFanIn(ctx.Rng)
		default:
			g = c04GenChain(ctx.Rng)
		}
		c := &c04Case{G: g, Input: fmt.Sprintf("input%d", ctx.Rng.Intn(5))}
		for k := ctx.Rng.Intn(3); k > 0; k-- {
			c.InChunks = append(c.InChunks, ctx.Rng.Intn(3))
		}
		before := len(ctx.Res.Disagreements)
		if err := c04One(ctx, c); err != nil {
			return err
		}
		if len(ctx.Res.Disagreements) > before {
			ctx.ShrinkNew(before, 200, func(cs any) []any {
				cc, ok := cs.(*c04Case)
				if !ok {
					return nil
				}
				var out []any
				for _, g := range gcase.ShrinkCandidates(cc.G) {
					out = append(out, &c04Case{G: g, Input: cc.Input, InChunks: cc.InChunks})
				}
				if len(cc.InChunks) > 0 {
					out = append(out, &c04Case{G: cc.G, Input: cc.Input})
				}
				return out
			}, func(sh *vh.Ctx, cand any) { _ = c04One(sh, cand.(*c04Case)) })
		}
	}
	return nil
}
