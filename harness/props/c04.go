//go:build verif && (vh_all || vh_c04)

package props

import (
	"encoding/json"
	"fmt"
	"strings"

	"github.com/cloudwego/eino/verifharness/gcase"
	"github.com/cloudwego/eino/verifharness/vh"
)

func init() { vh.Register("C04", runC04) }

type c04Case struct {
	G        *gcase.Graph `json:"g"`
	Input    string       `json:"input"`
	InChunks []int        `json:"inChunks"`
}

func c04One(ctx *vh.Ctx, c *c04Case) error {
	ctx.Progress.Mark(c)
	impl, class := gcase.RunParadigms(c.G, c.Input, c.InChunks, nil)
	nodes, _, branches, nested, cyclic, fanin := gcase.Shape(c.G)
	ctx.Res.Dist(fmt.Sprintf("nodes=%d", nodes))
	if impl == nil {
		ctx.Res.Dist("class=" + strings.SplitN(class, ":", 2)[0])
		ctx.Res.Count("malformed", false)
		return nil
	}
	raw, err := ctx.Oracle.Ask("C04", c)
	if err != nil {
		return err
	}
	var model map[string]gcase.ResultJ
	if err := json.Unmarshal(raw, &model); err != nil {
		return err
	}
	natives := map[string]bool{}
	for _, n := range c.G.Nodes {
		natives[n.Native] = true
	}
	ctx.Res.Count(vh.Canon(c), len(natives) >= 2 || fanin || branches > 0 || nested > 0 || cyclic)
	ctx.Res.Sample(c)
	ctx.Res.Dist("mode=" + c.G.Mode)
	for _, p := range gcase.SortedKeys(impl) {
		pr := impl[p]
		if pr.Class != "ran" {
			cl := strings.SplitN(pr.Class, ":", 2)[0]
			ctx.Res.Disagree(vh.Disagreement{Signature: "C04:" + p + ":" + cl, What: p + " " + pr.Class, Case: c, Model: model})
			continue
		}
		if pr.Res.Err != nil {
			ctx.Res.Dist(p + "=" + strings.SplitN(pr.Res.Err.C, ":", 2)[0])
		} else {
			ctx.Res.Dist(p + "=ok")
		}
	}
	// (a) the property itself on the implementation: the four paradigms agree
	inv := impl["invoke"]
	for _, p := range []string{"stream", "collect", "transform"} {
		pr := impl[p]
		if pr.Class != "ran" || inv.Class != "ran" {
			continue
		}
		if !c04Same(inv.Res, pr.Res) {
			ctx.Res.Disagree(vh.Disagreement{Signature: "C04:paradigms:" + c04Kind(inv.Res) + "-vs-" + c04Kind(pr.Res),
				What: fmt.Sprintf("Invoke and %s disagree: %s vs %s", p, vh.Canon(inv.Res), vh.Canon(pr.Res)), Case: c, Model: model,
				Impl: map[string]any{"invoke": inv.Res, p: pr.Res}})
		}
	}
	// (b) correspondence with the model, paradigm by paradigm
	for _, p := range gcase.SortedKeys(impl) {
		pr := impl[p]
		if pr.Class != "ran" {
			continue
		}
		m := model[p]
		if p != "invoke" && model["invoke"].Err != nil && model["invoke"].Err.C == "merge" {
			// a fan-in with a duplicated key: value mode fails; in stream mode the chunks of the
			// sources interleave in arrival order, the concatenation is schedule dependent
			continue
		}
		if !c04Same(m, pr.Res) {
			ctx.Res.Disagree(vh.Disagreement{Signature: "C04:model:" + p + ":" + c04Kind(m) + "-vs-" + c04Kind(pr.Res),
				What: fmt.Sprintf("%s: implementation %s, model %s", p, vh.Canon(pr.Res), vh.Canon(m)), Case: c, Model: model, Impl: pr.Res})
		}
	}
	return nil
}

// two results are the same: equal values, or both failures of the same class
// (which failing node is reported depends on completion order; node paths are C13's business)
func c04Same(a, b gcase.ResultJ) bool {
	if a.Ok != nil || b.Ok != nil {
		return a.Ok != nil && b.Ok != nil && *a.Ok == *b.Ok
	}
	if a.Err == nil || b.Err == nil {
		return false
	}
	return true
}

func c04Kind(r gcase.ResultJ) string {
	if r.Ok != nil {
		return "ok"
	}
	if r.Err != nil {
		return "err-" + strings.SplitN(r.Err.C, ":", 2)[0]
	}
	return "none"
}

func runC04(ctx *vh.Ctx) error {
	ctx.Res.Rule = "random graphs (pregel and dag, cycles, fan-in, branches, nested) whose nodes natively implement a random non-empty subset of invoke/stream/collect/transform with random chunk patterns; input chunked randomly; the same compiled object called through Invoke, Stream, Collect, Transform; non-trivial = >=2 distinct native subsets or fan-in/branch/nested/cycle; distinct by canonical case"
	if ctx.Replay != nil {
		var c c04Case
		if err := json.Unmarshal(ctx.Replay, &c); err != nil {
			return err
		}
		return c04One(ctx, &c)
	}
	n := ctx.N(6000, 40000)
	for i := 0; i < n && ctx.TimeLeft(); i++ {
		o := gcase.GenOpts{Mode: "mixed", MaxNodes: 6, Depth: 1, Cycles: true, FailPct: 3, BranchPct: 20}
		g := gcase.Gen(ctx.Rng, o)
		gcase.AssignNatives(ctx.Rng, g)
		if ctx.Rng.Chance(60) {
			gcase.AssignKeys(ctx.Rng, g)
		}
		c := &c04Case{G: g, Input: fmt.Sprintf("input%d", ctx.Rng.Intn(5))}
		for k := ctx.Rng.Intn(3); k > 0; k-- {
			c.InChunks = append(c.InChunks, ctx.Rng.Intn(3))
		}
		if err := c04One(ctx, c); err != nil {
			return err
		}
	}
	return nil
}
