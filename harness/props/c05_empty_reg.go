//go:build verif && (vh_all || vh_c05)

package props

// registers the streams family (c05_empty.go) with the C05 check
func init() { c05Extra = append(c05Extra, runC05Streams) }
