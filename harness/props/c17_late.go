//go:build verif && (vh_all || vh_c17)

package props

import (
	"context"
	"fmt"
	"sync"

	"github.com/cloudwego/eino/schema"
	"github.com/cloudwego/eino/verifharness/vh"
)

// Family `late` (lean/EinoV/Model/C17Late.lean): streamable tools that are still producing
// after StreamableRun — and the node's Stream — returned, and that look at the context they
// were given before every chunk they produce from then on.
//
// A call marked `late` has its streamable form send the first `hold` chunks before
// StreamableRun returns; the remaining ones are sent by a goroutine, one per step.  In the
// streamed form on a standalone / graph host the steps are scripted: the script starts when
// the node's Stream has returned to the harness, `prod` names the producer that takes its
// next step, and a step is released only after the previous one has been taken, so the
// order of productions, the moment the caller cancels (`cancelAfter` steps into the script)
// and what each producer saw of its context are forced, not sampled (the consumer reads
// concurrently; the pipes never block a producer).  Everywhere else
// (Invoke; graphConcat, where the framework is the consumer) the producers run unscripted
// and nobody cancels: their context must simply never be done.

// c17CtxErr is what a producer with onDone=fail sends on finding its context done.
type c17CtxErr struct {
	pos int
	err error
}

func (e *c17CtxErr) Error() string { return fmt.Sprintf("c17 producer %d: %v", e.pos, e.err) }
func (e *c17CtxErr) Unwrap() error { return e.err }

type c17LateProd struct {
	tok   chan struct{} // the script releases one late step
	acted chan struct{} // the producer has taken it
	mu    sync.Mutex
	left  int // late steps not taken yet (0 once the producer has ended)
}

func (lp *c17LateProd) stepsLeft() int {
	lp.mu.Lock()
	defer lp.mu.Unlock()
	return lp.left
}

type c17LateEnv struct {
	free    bool // producers run unscripted
	mu      sync.Mutex
	prods   []*c17LateProd
	cancel  context.CancelFunc
	done    chan struct{}
	started bool
}

func c17NewLateEnv(c *c17Case) *c17LateEnv {
	n := len(c.Calls)
	return &c17LateEnv{free: c.Mode != "stream" || c17ConcatHost(c), prods: make([]*c17LateProd, n), done: make(chan struct{})}
}

func (c *c17Case) hasLate() bool {
	for _, cl := range c.Calls {
		if cl.Late {
			return true
		}
	}
	return false
}

// lateStream is the streamable form of a `late` call: eager chunks at once, the others by a
// goroutine that looks at ctx before each.
func (b *c17Base) lateStream(ctx context.Context, k int, chunks []string) *schema.StreamReader[string] {
	env := b.env
	cl := env.c.Calls[k]
	hold := cl.Hold
	if hold > len(chunks) {
		hold = len(chunks)
	}
	if hold < 0 {
		hold = 0
	}
	sr, sw := schema.Pipe[string](len(chunks) + 2) // never blocks the sender
	for _, ch := range chunks[:hold] {
		sw.Send(ch, nil)
	}
	lp := &c17LateProd{tok: make(chan struct{}), acted: make(chan struct{}, 1), left: len(chunks) - hold}
	env.late.mu.Lock()
	env.late.prods[k] = lp
	env.late.mu.Unlock()
	free := env.late.free
	go func() {
		defer sw.Close()
		for _, ch := range chunks[hold:] {
			if !free {
				select {
				case <-lp.tok:
				case <-env.abort:
					return
				}
			}
			ended := false
			if err := ctx.Err(); err != nil {
				switch cl.OnDone {
				case "stop":
					ended = true
				case "ignore":
					sw.Send(ch, nil)
				default: // fail
					sw.Send("", &c17CtxErr{pos: k, err: err})
					ended = true
				}
			} else {
				sw.Send(ch, nil)
			}
			lp.mu.Lock()
			lp.left--
			if ended {
				lp.left = 0
			}
			lp.mu.Unlock()
			if !free {
				lp.acted <- struct{}{}
			}
			if ended {
				return
			}
		}
	}()
	return sr
}

// lateScript drives the late steps in the order c.Prod, then whatever is left in position
// order; the caller's context is cancelled cancelAfter steps into the script.
func (e *c17Env) lateScript() {
	defer close(e.late.done)
	c := e.c
	step := func(k int) bool {
		if k < 0 || k >= len(e.late.prods) {
			return true
		}
		e.late.mu.Lock()
		lp := e.late.prods[k]
		e.late.mu.Unlock()
		if lp == nil {
			return true
		}
		if lp.stepsLeft() == 0 {
			return true
		}
		select {
		case lp.tok <- struct{}{}:
		case <-e.abort:
			return false
		}
		select {
		case <-lp.acted:
		case <-e.abort:
			return false
		}
		return true
	}
	for t, k := range c.Prod {
		if c.CancelAfter != nil && *c.CancelAfter == t {
			e.late.cancel()
		}
		if !step(k) {
			return
		}
	}
	if c.CancelAfter != nil && *c.CancelAfter == len(c.Prod) {
		e.late.cancel()
	}
	for k := range e.late.prods {
		for {
			e.late.mu.Lock()
			lp := e.late.prods[k]
			e.late.mu.Unlock()
			if lp == nil {
				break
			}
			if lp.stepsLeft() == 0 {
				break
			}
			if !step(k) {
				return
			}
		}
	}
}

// ---- generators ----

// c17Decorate turns a generated case into one of the family: some calls produce late, with
// a production script and (streamed form on a standalone / graph host) a cancellation point.
func c17Decorate(r *vh.Rand, c *c17Case) {
	n := len(c.Calls)
	var mentions []int
	for k := range c.Calls {
		cl := &c.Calls[k]
		if !r.Chance(60) {
			continue
		}
		if len(cl.Cuts) == 0 && r.Chance(70) {
			for q := r.Range(1, 3); q > 0; q-- {
				cl.Cuts = append(cl.Cuts, r.Intn(4))
			}
		}
		nch := len(cl.Cuts) + 1
		cl.Late = true
		cl.Hold = r.Intn(nch + 1)
		cl.OnDone = []string{"fail", "fail", "stop", "ignore"}[r.Intn(4)]
		for q := cl.Hold; q < nch; q++ {
			mentions = append(mentions, k)
		}
	}
	p := r.Perm(len(mentions))
	c.Prod = []int{}
	for _, i := range p {
		c.Prod = append(c.Prod, mentions[i])
	}
	if len(c.Prod) > 0 && r.Chance(25) { // the rest is produced after the script
		c.Prod = c.Prod[:r.Intn(len(c.Prod))]
	}
	if r.Chance(15) { // a step that names nobody / a producer with nothing left
		at := r.Intn(len(c.Prod) + 1)
		c.Prod = append(c.Prod[:at], append([]int{r.Intn(n + 1)}, c.Prod[at:]...)...)
	}
	if c.Mode == "stream" && c.Host != "graphConcat" && r.Chance(40) {
		v := r.Intn(len(c.Prod) + 2)
		c.CancelAfter = &v
	}
}

func c17GenLate(r *vh.Rand) *c17Case {
	c := c17Gen(r)
	for tries := 0; len(c.Calls) == 0 && tries < 4; tries++ {
		c = c17Gen(r)
	}
	if r.Chance(70) {
		c.Mode = "stream"
	}
	if c.Host == "graphConcat" {
		c.Mode = "stream"
	}
	// most of the family wants streamable tools
	for i := range c.Tools {
		if c.Tools[i].Kind == "inv" && r.Chance(50) {
			c.Tools[i].Kind = []string{"str", "both"}[r.Intn(2)]
		}
	}
	c17Decorate(r, c)
	return c
}

// c17SystematicLate: 1-3 calls, each position in turn the late one (a second late call in
// half of the three-call cases) x streamable-only / both x hold 0/1 x what the producer does
// on a done context x cancellation never / after 0, 1, 2 steps x standalone / graph, in the
// streamed form; the never-cancelled ones also as Invoke and under graphConcat.
func c17SystematicLate() []*c17Case {
	var out []*c17Case
	for n := 1; n <= 3; n++ {
		for p := 0; p < n; p++ {
			for ki, kind := range []string{"str", "both"} {
				for hold := 0; hold <= 1; hold++ {
					for oi, od := range []string{"fail", "stop", "ignore"} {
						for ci, cancel := range []int{-1, 0, 1, 2} {
							for hi, host := range []string{"standalone", "graph", "graphConcat"} {
								modes := []string{"stream"}
								if cancel >= 0 && host == "graphConcat" {
									continue
								}
								if cancel < 0 && host != "graphConcat" {
									modes = append(modes, "invoke")
								}
								for _, mode := range modes {
									c := &c17Case{Assistant: true, Mode: mode, Host: host, Sched: []int{}, Handler: (ki+oi)%2 == 0, ToolOpt: (ci+hi)%2 == 0}
									c.Tools = []c17Tool{{Name: "a", Kind: kind, Tag: "T0"}, {Name: "b", Kind: "inv", Tag: "T1"}, {Name: "c", Kind: "str", Tag: "T2"}}
									second := -1
									if n == 3 && (ci+hi+oi)%2 == 0 {
										second = (p + 1) % n
									}
									var mentions [][]int
									for k := 0; k < n; k++ {
										cl := c17Call{ID: fmt.Sprintf("c%d", k), Args: fmt.Sprintf("%d|q%d", k, k), Fault: "none", Fid: 100 + k}
										switch {
										case k == p:
											cl.Name, cl.Cuts = "a", []int{1, 1}
											cl.Late, cl.Hold, cl.OnDone = true, hold, od
											m := []int{}
											for q := hold; q < 3; q++ {
												m = append(m, k)
											}
											mentions = append(mentions, m)
										case k == second:
											cl.Name, cl.Cuts = "c", []int{2}
											cl.Late, cl.Hold, cl.OnDone = true, 0, "fail"
											mentions = append(mentions, []int{k, k})
										default:
											cl.Name, cl.Cuts = []string{"b", "c", "zz"}[(k+hi+ci)%3], []int{1}
											if cl.Name == "zz" && !c.Handler {
												cl.Name = "b"
											}
										}
										c.Calls = append(c.Calls, cl)
									}
									// round-robin interleaving of the producers' steps
									c.Prod = []int{}
									for more := true; more; {
										more = false
										for i := range mentions {
											if len(mentions[i]) > 0 {
												c.Prod = append(c.Prod, mentions[i][0])
												mentions[i] = mentions[i][1:]
												more = true
											}
										}
									}
									for i := 0; i < n; i++ {
										c.Sigma = append(c.Sigma, (i+p+ci)%n)
									}
									if cancel >= 0 {
										v := cancel
										c.CancelAfter = &v
									}
									out = append(out, c)
								}
							}
						}
					}
				}
			}
		}
	}
	return out
}

func c17LateShape(c *c17Case) string {
	s := ""
	for k, cl := range c.Calls {
		if cl.Late {
			od := cl.OnDone
			if od == "" {
				od = "fail"
			}
			s += fmt.Sprintf("%d:%d%s,", k, cl.Hold, od[:1])
		}
	}
	if c.CancelAfter != nil {
		s += fmt.Sprintf("x%d", *c.CancelAfter)
	}
	return s
}
