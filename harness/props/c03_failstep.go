//go:build verif && (vh_all || vh_c03)

package props

// C03, family "failstep": batch runs (Pregel and all-predecessor graphs) in which one node of
// a superstep FAILS while sibling nodes of the same step are still running.  The clause
// "every node execution that was started is collected exactly once … the run does not return
// while started nodes are running" is checked on successful runs by the other families; here
// it is checked on the failing ones.  (Eager Workflows are not part of this family: an eager
// run that returns an error abandons what is in flight, the class of the recorded finding
// about nodes without a path to END.)
//
// One case = a layered acyclic graph of c03Gen in mode pregel | dag, a set of failing nodes
// (bodies that return an error after their gate has been opened) and a completion priority.
// Every body blocks on its own gate; the releaser opens the gates step by step in priority
// order, waiting for the `finish` hook event of a body before it opens the next one.  In the
// failing step, as soon as the first failing node has finished — and the task the step runs
// inline on the run-loop goroutine, which is moved right behind it in the order, so that the
// run loop can reach waitAll — the releaser waits until the run loop has RECEIVED the failing
// execution (`recv` hook event) and then watches the run for a short observation window
// (c03fWindow) before it releases the remaining siblings: on the unchanged tree Invoke cannot
// return before they are released, whatever the timing.
// Observables, against the batch engine with failing nodes of the Lean model (fRun,
// Model/C03Fail.lean, oracle kind "failstep", asked with the completion order that was
// enforced): outcome (error of the reported node / result), supersteps, executions started;
// at the return of Invoke: no body still running, every started execution received (state
// post-handlers of the non-failing ones ran; trace replay ends with num = 0 and
// received = submitted).

import (
	"context"
	"encoding/json"
	"errors"
	"fmt"
	"runtime"
	"sort"
	"sync"
	"time"

	"github.com/cloudwego/eino/compose"
	"github.com/cloudwego/eino/verifharness/vh"
)

func init() {
	c03Extra = append(c03Extra, c03Family{Kind: "failstep", Run: c03fFamily, Replay: c03fReplay})
}

// observation window for "Invoke has not returned while siblings of the failing node are
// still running" (not a synchronisation: the verdict on the unchanged tree does not depend on it)
const c03fWindow = 20 * time.Millisecond
const c03fWindowNoHooks = 150 * time.Millisecond

type c03fCase struct {
	Kind     string    `json:"kind"` // failstep
	Nodes    []c03Node `json:"nodes"`
	EndPreds []string  `json:"endPreds"`
	Input    string    `json:"input"`
	Mode     string    `json:"mode"` // pregel | dag
	Bad      []string  `json:"bad"`
	Priority []string  `json:"priority"`
	Note     string    `json:"note,omitempty"`
}

type c03fRef struct {
	Failed      bool       `json:"failed"`
	Reported    string     `json:"reported"`
	Steps       [][]string `json:"steps"`
	Started     []string   `json:"started"`
	Collected   []string   `json:"collected"`
	Uncollected []string   `json:"uncollected"`
	Result      [][]string `json:"result"`
}

type c03fObs struct {
	Class            string         `json:"class"` // ok | error | hang | panic-escaped | build-error
	Detail           string         `json:"detail,omitempty"`
	Reported         string         `json:"reported,omitempty"` // the node whose error Invoke returned
	Result           [][]string     `json:"result"`
	Enforced         []string       `json:"enforced"` // the completion priority that was enforced (inlined task moved)
	Inlined          []string       `json:"inlined"`  // per step: the task run on the run-loop goroutine
	Started          map[string]int `json:"started"`
	PostHandled      map[string]int `json:"postHandled"`      // at the moment Invoke returned
	RunningAtReturn  []string       `json:"runningAtReturn"`  // bodies entered and not left when Invoke returned
	FinishedAtReturn []string       `json:"finishedAtReturn"` // bodies left when Invoke returned, in order
	Observed         bool           `json:"observed"`         // the observation window of the failing step was reached
	Stage            string         `json:"stage,omitempty"`
	Trace            any            `json:"trace,omitempty"`
}

type c03fErr struct{ Key string }

func (e *c03fErr) Error() string { return "verif-c03: node " + e.Key + " fails" }

type c03fRun struct {
	c        *c03fCase
	bad      map[string]bool
	mu       sync.Mutex
	cond     *sync.Cond
	active   int
	started  map[string]int
	post     map[string]int
	inBody   map[string]bool
	leftList []string
	startCh  map[string]chan struct{}
	leftCh   map[string]chan struct{}
	gate     map[string]chan struct{}
	once     map[string]*sync.Once
	runDone  chan struct{}
	stage    string
	enforced []string
	inlined  []string
	observed bool
}

func c03fNewRun(c *c03fCase) *c03fRun {
	r := &c03fRun{c: c, bad: map[string]bool{}, started: map[string]int{}, post: map[string]int{}, inBody: map[string]bool{},
		startCh: map[string]chan struct{}{}, leftCh: map[string]chan struct{}{}, gate: map[string]chan struct{}{},
		once: map[string]*sync.Once{}, runDone: make(chan struct{})}
	r.cond = sync.NewCond(&r.mu)
	for _, k := range c.Bad {
		r.bad[k] = true
	}
	for _, n := range c.Nodes {
		r.startCh[n.Key] = make(chan struct{})
		r.leftCh[n.Key] = make(chan struct{})
		r.gate[n.Key] = make(chan struct{})
		r.once[n.Key] = &sync.Once{}
	}
	return r
}

func (r *c03fRun) open(k string) { r.once[k].Do(func() { close(r.gate[k]) }) }

func (r *c03fRun) body(key string, in map[string]any) (map[string]any, error) {
	r.mu.Lock()
	r.active++
	r.started[key]++
	first := r.started[key] == 1
	r.inBody[key] = true
	r.mu.Unlock()
	if first {
		close(r.startCh[key])
	}
	<-r.gate[key]
	out := c03Render(key, in)
	r.mu.Lock()
	r.active--
	r.inBody[key] = false
	r.leftList = append(r.leftList, key)
	r.cond.Broadcast()
	r.mu.Unlock()
	if first {
		close(r.leftCh[key])
	}
	if r.bad[key] {
		return nil, &c03fErr{Key: key}
	}
	return map[string]any{key: out}, nil
}

func c03fBuild(c *c03fCase, r *c03fRun) (c03Invoker, error) {
	ctx := context.Background()
	g := compose.NewGraph[map[string]any, map[string]any](compose.WithGenLocalState(func(ctx context.Context) *c03State { return &c03State{} }))
	for _, n := range c.Nodes {
		key := n.Key
		err := g.AddLambdaNode(key, compose.InvokableLambda(func(ctx context.Context, in map[string]any) (map[string]any, error) {
			return r.body(key, in)
		}), compose.WithStatePostHandler(func(ctx context.Context, out map[string]any, st *c03State) (map[string]any, error) {
			r.mu.Lock()
			r.post[key]++
			r.mu.Unlock()
			return out, nil
		}))
		if err != nil {
			return nil, err
		}
	}
	for _, n := range c.Nodes {
		for _, p := range n.Preds {
			if err := g.AddEdge(p, n.Key); err != nil {
				return nil, err
			}
		}
	}
	for _, p := range c.EndPreds {
		if err := g.AddEdge(p, compose.END); err != nil {
			return nil, err
		}
	}
	var opts []compose.GraphCompileOption
	if c.Mode == "dag" {
		opts = append(opts, compose.WithNodeTriggerMode(compose.AllPredecessor))
	}
	run, err := g.Compile(ctx, opts...)
	if err != nil {
		return nil, err
	}
	return func(ctx context.Context) (map[string]any, error) {
		return run.Invoke(ctx, map[string]any{compose.START: c.Input})
	}, nil
}

func (r *c03fRun) setStage(s string) {
	r.mu.Lock()
	r.stage = s
	r.mu.Unlock()
}

func (r *c03fRun) wait(ch <-chan struct{}) bool {
	select {
	case <-ch:
		return true
	case <-r.runDone:
		return false
	}
}

// the run loop has received the execution of node key (its `recv` hook event exists)
func (r *c03fRun) waitRecv(key string) bool {
	for i := 0; ; i++ {
		for _, e := range compose.VerifC03Events() {
			if e.TM == 1 && e.K == "recv" && e.Node == key {
				return true
			}
		}
		select {
		case <-r.runDone:
			return false
		default:
		}
		if i < 200 {
			runtime.Gosched()
		} else {
			time.Sleep(50 * time.Microsecond) // polling an event of the implementation, not a synchronisation by delay
		}
	}
}

// order: l sorted by priority
func c03fPrio(priority, l []string) []string {
	var out []string
	for _, p := range priority {
		if c03Has(l, p) {
			out = append(out, p)
		}
	}
	for _, k := range l {
		if !c03Has(priority, k) {
			out = append(out, k)
		}
	}
	return out
}

func (r *c03fRun) releaser(done chan struct{}) {
	defer close(done)
	c := r.c
	hooks := compose.VerifC03TraceEnabled()
	batches := c03Batches(&c03Case{Nodes: c.Nodes, EndPreds: c.EndPreds})
	for si, b := range batches {
		for _, k := range b {
			r.setStage(fmt.Sprintf("step %d: waiting for %s to be started", si, k))
			if !r.wait(r.startCh[k]) {
				return
			}
		}
		inl := ""
		if hooks {
			inl = c03rSyncTask()
		}
		order := c03fPrio(c.Priority, b)
		firstBad := -1
		for i, k := range order {
			if r.bad[k] && firstBad < 0 {
				firstBad = i
			}
		}
		if firstBad >= 0 && inl != "" {
			// the run loop collects only after the inlined task has finished: it comes right
			// behind the first failing node unless its priority is better anyway
			pos := -1
			for i, k := range order {
				if k == inl {
					pos = i
				}
			}
			if pos > firstBad+1 {
				no := append([]string{}, order[:firstBad+1]...)
				no = append(no, inl)
				for i, k := range order {
					if i > firstBad && k != inl {
						no = append(no, k)
					}
				}
				order = no
			}
		}
		r.mu.Lock()
		r.enforced = append(r.enforced, order...)
		r.inlined = append(r.inlined, inl)
		r.mu.Unlock()
		for i, k := range order {
			r.setStage(fmt.Sprintf("step %d: released %s, waiting for its body to return", si, k))
			r.open(k)
			if !r.wait(r.leftCh[k]) {
				return
			}
			r.setStage(fmt.Sprintf("step %d: waiting for the executor of %s to push the finished task", si, k))
			if !c03WaitPushed(k, r.runDone) {
				return
			}
			if firstBad < 0 || i < firstBad || i == len(order)-1 {
				continue
			}
			// the failing node has finished; is the run loop collecting (inlined task finished)?
			inlDone := inl == "" || c03Has(order[:i+1], inl)
			if !inlDone {
				continue
			}
			if r.observedOnce() {
				continue
			}
			f := order[firstBad]
			window := c03fWindowNoHooks
			if hooks {
				window = c03fWindow
				r.setStage(fmt.Sprintf("step %d: waiting for the run loop to receive the failing execution %s", si, f))
				if !r.waitRecv(f) {
					return
				}
			}
			r.setStage(fmt.Sprintf("step %d: %s failed and has been received; siblings %v still inside their bodies: observing Invoke", si, f, order[i+1:]))
			select {
			case <-r.runDone:
				return
			case <-time.After(window):
			}
		}
		if firstBad >= 0 {
			r.setStage("script finished (failing step released)")
			return
		}
	}
	r.setStage("script finished")
}

func (r *c03fRun) observedOnce() bool {
	r.mu.Lock()
	defer r.mu.Unlock()
	if r.observed {
		return true
	}
	r.observed = true
	return false
}

func c03fImpl(c *c03fCase) (*c03fObs, []compose.VerifC03Event) {
	o := &c03fObs{Result: [][]string{}, Started: map[string]int{}, PostHandled: map[string]int{}, RunningAtReturn: []string{},
		FinishedAtReturn: []string{}, Enforced: []string{}, Inlined: []string{}}
	r := c03fNewRun(c)
	var inv c03Invoker
	var berr error
	if p, pv := vh.Safely(func() { inv, berr = c03fBuild(c, r) }); p {
		o.Class, o.Detail = "build-error", fmt.Sprint("panic: ", pv)
		return o, nil
	}
	if berr != nil {
		o.Class, o.Detail = "build-error", berr.Error()
		return o, nil
	}
	compose.VerifC03Reset(0, false)
	relDone := make(chan struct{})
	go r.releaser(relDone)
	var res map[string]any
	var rerr error
	snapshot := func() {
		r.mu.Lock()
		for k, v := range r.started {
			o.Started[k] = v
		}
		for k, v := range r.post {
			o.PostHandled[k] = v
		}
		for k, in := range r.inBody {
			if in {
				o.RunningAtReturn = append(o.RunningAtReturn, k)
			}
		}
		o.FinishedAtReturn = append(o.FinishedAtReturn, r.leftList...)
		o.Stage = r.stage
		r.mu.Unlock()
		sort.Strings(o.RunningAtReturn)
	}
	finished := false
	panicked, pv := vh.Safely(func() {
		finished = vh.WithTimeout(20*time.Second, func() {
			res, rerr = inv(context.Background())
			snapshot() // the state of the world at the moment Invoke returns
		})
	})
	if !finished && !panicked {
		snapshot()
	}
	close(r.runDone)
	<-relDone // the releaser has finished its bookkeeping
	for _, n := range c.Nodes {
		r.open(n.Key)
	}
	quiet := make(chan struct{})
	go func() {
		r.mu.Lock()
		for r.active > 0 {
			r.cond.Wait()
		}
		r.mu.Unlock()
		close(quiet)
	}()
	select {
	case <-quiet:
	case <-time.After(10 * time.Second):
	}
	// stragglers push their finished tasks: wait for the executors so that their events do
	// not leak into the next case (cleanup only)
	for _, k := range o.RunningAtReturn {
		stop := make(chan struct{})
		go func() { time.Sleep(2 * time.Second); close(stop) }()
		c03WaitPushed(k, stop)
	}
	events := compose.VerifC03Events()
	r.mu.Lock()
	o.Enforced = append(o.Enforced, r.enforced...)
	o.Inlined = append(o.Inlined, r.inlined...)
	o.Observed = r.observed
	r.mu.Unlock()
	switch {
	case panicked:
		o.Class, o.Detail = "panic-escaped", fmt.Sprint(pv)
	case !finished:
		o.Class = "hang"
	case rerr != nil:
		o.Class, o.Detail = "error", rerr.Error()
		var fe *c03fErr
		if errors.As(rerr, &fe) {
			o.Reported = fe.Key
		}
	default:
		o.Class = "ok"
		o.Result = c03Pairs(res)
	}
	return o, events
}

var c03fHangs int

func c03fOne(ctx *vh.Ctx, c *c03fCase) error {
	ctx.Progress.Mark(c)
	obs, events := c03fImpl(c)
	// the model is asked with the completion order that was enforced (which task a step runs
	// inline is decided by Go map order at run time)
	prio := append([]string{}, obs.Enforced...)
	for _, k := range c.Priority {
		if !c03Has(prio, k) {
			prio = append(prio, k)
		}
	}
	if c.Bad == nil {
		c.Bad = []string{}
	}
	raw, err := ctx.Oracle.Ask("C03", map[string]any{"kind": "failstep", "nodes": c.Nodes, "endPreds": c.EndPreds, "input": c.Input, "bad": c.Bad, "priority": prio})
	if err != nil {
		return err
	}
	var ref c03fRef
	if err := json.Unmarshal(raw, &ref); err != nil {
		return fmt.Errorf("oracle failstep answer: %v: %s", err, raw)
	}
	if len(ref.Uncollected) != 0 {
		return fmt.Errorf("oracle failstep answer: the model itself leaves %v uncollected (theorem failing_batch_run_collects_all)", ref.Uncollected)
	}
	dis := func(sig, what string) {
		ctx.Res.Disagree(vh.Disagreement{Signature: sig, What: what, Case: c, Model: ref, Impl: obs})
	}
	// shape: the failing step, how many siblings were still running when the failing
	// execution had been received
	siblings := 0
	if ref.Failed && len(ref.Steps) > 0 {
		last := ref.Steps[len(ref.Steps)-1]
		seen := false
		for _, k := range last {
			if seen {
				siblings++
			}
			if k == ref.Reported {
				seen = true
			}
		}
	}
	ctx.Res.Count(fmt.Sprintf("failstep|%s|%v|%v|%v|%v", c.Mode, c.Nodes, c.EndPreds, c.Bad, prio), ref.Failed && siblings >= 1 && obs.Observed)
	ctx.Res.Dist("family:failstep")
	ctx.Res.Dist("failstep:mode:" + c.Mode)
	ctx.Res.Dist("failstep:class:" + obs.Class)
	ctx.Res.Dist(fmt.Sprintf("failstep:failing-step:%d", len(ref.Steps)))
	ctx.Res.Dist(fmt.Sprintf("failstep:siblings-behind-the-failing-node:%d", siblings))
	if obs.Observed {
		ctx.Res.Dist("failstep:observed-with-siblings-running")
	}
	if ref.Failed && len(obs.Inlined) == len(ref.Steps) && len(obs.Inlined) > 0 {
		if obs.Inlined[len(obs.Inlined)-1] == ref.Reported {
			ctx.Res.Dist("failstep:failing-node-is-the-inlined-task")
		} else {
			ctx.Res.Dist("failstep:failing-node-is-a-goroutine-task")
		}
	}
	ctx.Res.Sample(c)
	switch obs.Class {
	case "build-error":
		dis("C03:failstep:build-error:"+c.Mode, "the generated graph does not compile: "+obs.Detail)
		return nil
	case "hang":
		c03fHangs++
		dis("C03:failstep:hang:"+c.Mode, "Invoke did not return within 20 s; the completion script stood at: "+obs.Stage)
		return nil
	case "panic-escaped":
		dis("C03:failstep:panic-escaped:"+c.Mode, "a panic escaped Invoke: "+obs.Detail)
		return nil
	}
	// no started node may be running, every started execution must have been received
	if len(obs.RunningAtReturn) > 0 {
		dis("C03:failstep:running-after-return:"+c.Mode,
			fmt.Sprintf("Invoke returned (%s) while node(s) %v it started were still running; finished by then: %v", obs.Class, obs.RunningAtReturn, obs.FinishedAtReturn))
	}
	var unpost []string
	for k, n := range obs.Started {
		if !c03Has(c.Bad, k) && obs.PostHandled[k] < n {
			unpost = append(unpost, k)
		}
	}
	sort.Strings(unpost)
	if len(unpost) > 0 {
		dis("C03:failstep:uncollected-at-return:"+c.Mode,
			fmt.Sprintf("Invoke returned (%s) while started node(s) %v had not been collected (their state post-handlers never ran); the model's run has received %v", obs.Class, unpost, ref.Collected))
	}
	for k, n := range obs.PostHandled {
		if n > obs.Started[k] || n > 1 {
			dis("C03:failstep:duplicate-collection:"+c.Mode, fmt.Sprintf("node %s was handed back %d times for %d execution(s)", k, n, obs.Started[k]))
		}
	}
	// outcome
	if ref.Failed != (obs.Class == "error") {
		dis("C03:failstep:outcome-differs:"+c.Mode, fmt.Sprintf("Invoke ended with %s (%s), the model's run failed=%v (reported %q)", obs.Class, obs.Detail, ref.Failed, ref.Reported))
		return nil
	}
	if ref.Failed {
		if obs.Reported != ref.Reported {
			dis("C03:failstep:reported-error-differs:"+c.Mode, fmt.Sprintf("Invoke returned the error of node %q, the model reports %q (the first failing node of the step in completion order)", obs.Reported, ref.Reported))
		}
	} else if !vh.CanonEq(obs.Result, ref.Result) {
		dis("C03:failstep:result-differs:"+c.Mode, "the run result differs from the reference result")
	}
	// executions
	for _, n := range c.Nodes {
		want := 0
		if c03Has(ref.Started, n.Key) {
			want = 1
		}
		if obs.Started[n.Key] != want {
			dis("C03:failstep:executions-differ:"+c.Mode, fmt.Sprintf("node %s was executed %d times, reference %d", n.Key, obs.Started[n.Key], want))
		}
	}
	// trace
	if !compose.VerifC03TraceEnabled() {
		ctx.Res.Dist("failstep:trace:skipped-no-hooks")
		return nil
	}
	var evs []c03rEv
	for _, e := range events {
		if e.TM == 1 {
			evs = append(evs, c03rEv{VerifC03Event: e, Err: e.K == "finish" && c03Has(c.Bad, e.Node)})
		}
	}
	traw, err := ctx.Oracle.Ask("C03", map[string]any{"kind": "tmtrace", "needAll": true, "events": evs})
	if err != nil {
		return err
	}
	var ans struct {
		OK    bool   `json:"ok"`
		At    int    `json:"at"`
		Why   string `json:"why"`
		Final struct {
			Num int   `json:"num"`
			Got []int `json:"got"`
		} `json:"final"`
		Submitted []int `json:"submitted"`
	}
	if err := json.Unmarshal(traw, &ans); err != nil {
		return fmt.Errorf("oracle trace answer: %v: %s", err, traw)
	}
	ctx.Res.Dist("failstep:trace:replayed")
	if !ans.OK {
		kind := "?"
		if ans.At < len(evs) {
			kind = evs[ans.At].K
		}
		// a straggler of an abandoned step finishes after the return: its events are part of
		// the trace; a trace that is not a run of the model is reported as such
		obs.Trace = evs
		dis("C03:failstep:trace-nonconformance:"+kind+":"+c.Mode, fmt.Sprintf("event %d (%s) of the real taskManager trace is not a transition of the model: %s", ans.At, kind, ans.Why))
		return nil
	}
	got := append([]int{}, ans.Final.Got...)
	sub := append([]int{}, ans.Submitted...)
	sort.Ints(got)
	sort.Ints(sub)
	if ans.Final.Num != 0 || !vh.CanonEq(got, sub) {
		obs.Trace = evs
		dis("C03:failstep:trace-uncollected:"+c.Mode,
			fmt.Sprintf("task manager at the end of the run: num=%d, executions submitted %v, received %v (every started execution must be collected exactly once)", ans.Final.Num, sub, got))
	}
	return nil
}

// ---- generator ----

func c03fGen(r *vh.Rand, mode string) *c03fCase {
	g := c03Gen(r, mode)
	c := &c03fCase{Kind: "failstep", Nodes: g.Nodes, EndPreds: g.EndPreds, Input: g.Input, Mode: mode}
	batches := c03Batches(g)
	// the failing node: of a step with at least two nodes when there is one
	var wide [][]string
	for _, b := range batches {
		if len(b) >= 2 {
			wide = append(wide, b)
		}
	}
	pickFrom := batches
	if len(wide) > 0 && r.Chance(90) {
		pickFrom = wide
	}
	var step []string
	if len(pickFrom) > 0 {
		step = pickFrom[r.Intn(len(pickFrom))]
		c.Bad = []string{step[r.Intn(len(step))]}
		if len(step) >= 3 && r.Chance(25) {
			o := step[r.Intn(len(step))]
			if o != c.Bad[0] {
				c.Bad = append(c.Bad, o)
			}
		}
	}
	if r.Chance(8) {
		c.Bad = nil // control: nothing fails
	}
	// priority: the failing node first among its step (55 %), anywhere otherwise
	perm := r.Perm(len(c.Nodes))
	for _, i := range perm {
		c.Priority = append(c.Priority, c.Nodes[i].Key)
	}
	if len(c.Bad) > 0 && r.Chance(55) {
		p := []string{c.Bad[0]}
		for _, k := range c.Priority {
			if k != c.Bad[0] {
				p = append(p, k)
			}
		}
		c.Priority = p
	}
	return c
}

// the shape of seeded regression C03-22, always run first
func c03fDirected() []*c03fCase {
	st := []string{compose.START}
	three := []c03Node{{"n1", st}, {"n2", st}, {"n3", st}}
	var out []*c03fCase
	for _, mode := range []string{"pregel", "dag"} {
		out = append(out,
			&c03fCase{Kind: "failstep", Mode: mode, Input: "x", Nodes: three, EndPreds: []string{"n1", "n2", "n3"}, Bad: []string{"n1"},
				Priority: []string{"n1", "n2", "n3"}, Note: "three parallel nodes, the failing one finishes first"},
			&c03fCase{Kind: "failstep", Mode: mode, Input: "x", Nodes: three, EndPreds: []string{"n1", "n2", "n3"}, Bad: []string{"n2"},
				Priority: []string{"n3", "n2", "n1"}, Note: "the failing one finishes second"},
			&c03fCase{Kind: "failstep", Mode: mode, Input: "x", Nodes: three, EndPreds: []string{"n1", "n2", "n3"}, Bad: []string{"n3"},
				Priority: []string{"n1", "n2", "n3"}, Note: "control: the failing one finishes last"},
			&c03fCase{Kind: "failstep", Mode: mode, Input: "x",
				Nodes:    []c03Node{{"a1", st}, {"a2", st}, {"b1", []string{"a1", "a2"}}, {"b2", []string{"a1"}}, {"b3", []string{"a2"}}},
				EndPreds: []string{"b1", "b2", "b3"}, Bad: []string{"b2"}, Priority: []string{"a2", "a1", "b2", "b3", "b1"}, Note: "the second step fails"})
	}
	return out
}

func c03fReplay(ctx *vh.Ctx, raw json.RawMessage) error {
	var c c03fCase
	if err := json.Unmarshal(raw, &c); err != nil {
		return err
	}
	return c03fOne(ctx, &c)
}

func c03fFamily(ctx *vh.Ctx) error {
	ctx.Res.Rule += " | family failstep (kind=failstep): distinct = (mode, graph, failing nodes, enforced completion order); non-trivial = the run fails and at least one sibling of the reported node was still inside its body when the run loop had received the failing execution"
	deadline := time.Now().Add(ctx.Budget * 12 / 100)
	live := func() bool { return ctx.TimeLeft() && time.Now().Before(deadline) && c03fHangs < 2 }
	for _, c := range c03fDirected() {
		if !live() {
			break
		}
		if err := c03fOne(ctx, c); err != nil {
			return err
		}
	}
	n := ctx.N(120, 1000)
	modes := []string{"pregel", "dag"}
	for i := 0; i < n && live(); i++ {
		if err := c03fOne(ctx, c03fGen(ctx.Rng, modes[i%2])); err != nil {
			return err
		}
	}
	return nil
}
