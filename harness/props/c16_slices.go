//go:build verif && (vh_all || vh_c16)

package props

import (
	"fmt"
	"strings"

	"github.com/cloudwego/eino/verifharness/vh"
)

// ---------------------------------------------------------------------------------------
// option value lists as Go slices (Model/C16Slices.lean)
//
// compose.WithLambdaOption(vals...) keeps the slice it is handed: the value list of an Option can
// have spare capacity, and Options derived from one base (DesignateNode on the value receiver)
// share the base's array.  extractOption must not let the lists of two nodes live in such an
// array, and must never write into it.  The case language carries the spare capacity
// (c16Opt.Spare / c16BuildOp.Spare); the implementation side builds the slice with that capacity,
// keeps the whole backing array and reads it cell by cell after the calls; the model
// (runCallsSW) says what every node receives and what the arrays hold afterwards.
// ---------------------------------------------------------------------------------------

// the lambda option types: the ones WithLambdaOption carries (the caller's slice is kept);
// model.Option / retriever.Option go through withComponentOption, which copies to exact capacity
var c16LambdaTys = []int{c16TyA, c16TyB, c16TyC, c16TyD, c16TyE}

func c16KeepsCallerSlice(ty int) bool { return ty != c16TyM && ty != c16TyR }

func c16GenSpare(r *vh.Rand, ty, pct int) int {
	if !c16KeepsCallerSlice(ty) || !r.Chance(pct) {
		return 0
	}
	return r.Range(1, 3)
}

// c16Cells decodes the backing arrays the caller kept: per Option of the store the ids in the
// cells [0, cap) (0 = the cell is still nil), nil when the caller has no access to the array.
func c16Cells(backing [][]any) [][]int {
	out := make([][]int, len(backing))
	for i, b := range backing {
		if b == nil {
			continue
		}
		cells := make([]int, len(b))
		for j, v := range b {
			if v == nil {
				continue
			}
			if ids := c16AnyIDs([]any{v}); len(ids) == 1 {
				cells[j] = ids[0]
			} else {
				cells[j] = -3
			}
		}
		out[i] = cells
	}
	return out
}

// c16CompareArrays: what the caller finds in its own value arrays after the calls against the
// model (where no call ever writes them).
func c16CompareArrays(ctx *vh.Ctx, c *c16Case, model *c16Out, arrays [][]int) bool {
	ok := true
	seen := map[string]bool{}
	for i, cells := range arrays {
		if cells == nil || i >= len(model.Arrays) || i >= len(c.Store) {
			continue
		}
		if vh.CanonEq(cells, model.Arrays[i]) {
			continue
		}
		where := "spare"
		n := len(c.Store[i].Vals)
		for j := 0; j < n && j < len(cells) && j < len(model.Arrays[i]); j++ {
			if cells[j] != model.Arrays[i][j] {
				where = "elements"
			}
		}
		sig := "C16:caller-values-array-written:" + where
		if seen[sig] {
			continue
		}
		seen[sig] = true
		ctx.Res.Disagree(vh.Disagreement{Signature: sig,
			What: fmt.Sprintf("the slice the caller handed to WithLambdaOption for Option %d (values %v, %d spare cells) holds %v in its backing array after the calls; the model says %v (no call writes a caller's array)", i, c.Store[i].Vals, c.Store[i].Spare, cells, model.Arrays[i]),
			Case: c, Model: model.Arrays, Impl: arrays})
		ok = false
	}
	return ok
}

// c16SliceStats: does the case put two node lists at risk of sharing an array?  An Option with
// spare capacity (or several Options sharing one base's array) is the first contribution to the
// lists of two component nodes – it reaches them undesignated or by a path that names them – and
// both lists go on differently.
func c16SliceStats(ctx *vh.Ctx, c *c16Case, model *c16Out) {
	if model == nil || len(c.Calls) == 0 || len(model.Results) == 0 || model.Results[0].Err != nil {
		return
	}
	root := make([]int, len(c.Store))
	for i := range root {
		root[i] = i
		if i < len(c.Build) && c.Build[i].Op == "designate" && c.Build[i].Src >= 0 && c.Build[i].Src < i {
			root[i] = root[c.Build[i].Src]
		}
	}
	used := map[int]bool{}
	for _, ix := range c.Calls[0].Ixs {
		used[ix] = true
	}
	exposed := false
	for b := range c.Store {
		if root[b] != b || c.Store[b].Spare == 0 || len(c.Store[b].Vals) == 0 || !c16KeepsCallerSlice(c.Store[b].Ty) {
			continue
		}
		base := c.Store[b].Vals
		direct := func(path []string) bool {
			for i := range c.Store {
				if root[i] != b || !used[i] {
					continue
				}
				if len(c.Store[i].Paths) == 0 {
					return true
				}
				for _, p := range c.Store[i].Paths {
					if strings.Join(p, "/") == strings.Join(path, "/") {
						return true
					}
				}
			}
			return false
		}
		tails := map[string]bool{}
		for _, e := range model.Results[0].Entries {
			if e.G || len(e.Vals) <= len(base) || !vh.CanonEq(e.Vals[:len(base)], base) || !direct(e.Path) {
				continue
			}
			tails[fmt.Sprint(e.Vals[len(base):])] = true
		}
		if len(tails) >= 2 {
			exposed = true
		}
	}
	if exposed {
		ctx.Res.Dist("spare.first-list-of->=2-nodes-continued-differently")
	}
}

// c16GenShared: cases built around one lambda option type T: a tree with at least two T-lambdas
// (top level and / or in nested graphs, next to other nodes), one or two "base" Options of type T
// whose value list mostly has spare capacity and that reach several of the T-lambdas
// (undesignated; one Option with several paths; sibling Options derived from one base, one per
// node; or designated to a graph node), and further Options of type T addressing individual
// T-lambdas, all of them, or a graph node; so several Options contribute to one node's list and
// one Option contributes to several lists.
func c16GenShared(r *vh.Rand) *c16Case {
	T := c16LambdaTys[r.Intn(len(c16LambdaTys))]
	lam := func(k string, ty int) c16Node { return c16Node{K: "comp", Key: k, Ty: ty, Impl: "lambda"} }
	other := func(k string) c16Node {
		switch w := r.Intn(100); {
		case w < 30:
			return c16Node{K: "pass", Key: k}
		case w < 55:
			return lam(k, c16TyNone)
		case w < 85:
			ty := c16LambdaTys[r.Intn(len(c16LambdaTys))]
			if ty == T {
				ty = c16TyM
			}
			return lam(k, ty)
		}
		return lam(k, c16TyAny)
	}
	// one level: nT T-lambdas and nOther other nodes in random order; returns an unused key too
	level := func(nT, nOther int) ([]c16Node, string) {
		perm := r.Perm(len(c16Keys))
		n := nT + nOther
		if n > len(c16Keys)-1 {
			n = len(c16Keys) - 1
		}
		kinds := make([]bool, n)
		for i := 0; i < nT && i < n; i++ {
			kinds[i] = true
		}
		sh := r.Perm(n)
		nodes := make([]c16Node, n)
		for i := 0; i < n; i++ {
			if kinds[sh[i]] {
				nodes[i] = lam(c16Keys[perm[i]], T)
			} else {
				nodes[i] = other(c16Keys[perm[i]])
			}
		}
		return nodes, c16Keys[perm[n]]
	}
	insert := func(ns []c16Node, n c16Node) []c16Node {
		pos := r.Intn(len(ns) + 1)
		return append(ns[:pos:pos], append([]c16Node{n}, ns[pos:]...)...)
	}
	g, free := level(r.Range(1, 3), r.Range(0, 2))
	if r.Chance(55) {
		ch, chFree := level(r.Range(1, 2), r.Range(0, 1))
		if r.Chance(30) {
			in, _ := level(r.Range(1, 2), r.Range(0, 1))
			ch = insert(ch, c16Node{K: "graph", Key: chFree, Ch: in})
		}
		g = insert(g, c16Node{K: "graph", Key: free, Dag: r.Chance(25), Ch: ch})
	}
	s := &c16GenState{r: r}
	c16Targets(g, nil, &s.targets)
	var tl, gl []c16Target
	for _, t := range s.targets {
		if t.kind == "comp" && t.ty == T {
			tl = append(tl, t)
		}
		if t.kind == "graph" {
			gl = append(gl, t)
		}
	}
	if len(tl) < 2 { // at least two T-lambdas: put the missing ones at the top
		used := map[string]bool{}
		for i := range g {
			used[g[i].Key] = true
		}
		for _, k := range c16Keys {
			if len(tl) >= 2 {
				break
			}
			if !used[k] {
				g = insert(g, lam(k, T))
				used[k] = true
				tl = append(tl, c16Target{path: []string{k}, kind: "comp", ty: T})
			}
		}
		s.targets = nil
		c16Targets(g, nil, &s.targets)
	}
	if r.Chance(20) {
		c16AddKeys(r, g, 30, 15)
	}
	pickT := func() []string { return c16Cp(tl[r.Intn(len(tl))].path) }
	var logical []c16Opt
	var siblings []bool
	nbase := 1
	if r.Chance(25) {
		nbase = 2
	}
	for b := 0; b < nbase; b++ {
		o := c16Opt{Ty: T, Vals: s.vals(), Handlers: []int{}, Paths: [][]string{}, ViaKey: r.Chance(40)}
		if r.Chance(85) {
			o.Spare = r.Range(1, 3)
		}
		sib := false
		switch w := r.Intn(100); {
		case w < 45: // undesignated: reaches every T-lambda, inside nested graphs too
		case w < 82: // designated to two or three T-lambdas: one Option with several paths, or siblings of one base
			n := r.Range(2, 3)
			if n > len(tl) {
				n = len(tl)
			}
			perm := r.Perm(len(tl))
			for i := 0; i < n; i++ {
				o.Paths = append(o.Paths, c16Cp(tl[perm[i]].path))
			}
			sib = r.Chance(55)
		default: // designated to a graph node (the nested graph gets a deep copy)
			if len(gl) > 0 {
				o.Paths = append(o.Paths, c16Cp(gl[r.Intn(len(gl))].path))
			}
		}
		logical = append(logical, o)
		siblings = append(siblings, sib)
	}
	nextra := r.Range(2, 4)
	for i := 0; i < nextra; i++ {
		o := c16Opt{Ty: T, Vals: s.vals(), Handlers: []int{}, Paths: [][]string{}, ViaKey: r.Chance(40)}
		if r.Chance(30) {
			o.Spare = r.Range(1, 3)
		}
		switch w := r.Intn(100); {
		case w < 70:
			o.Paths = append(o.Paths, pickT())
		case w < 85: // undesignated
		default:
			if len(gl) > 0 {
				o.Paths = append(o.Paths, c16Cp(gl[r.Intn(len(gl))].path))
			} else {
				o.Paths = append(o.Paths, pickT())
			}
		}
		logical = append(logical, o)
		siblings = append(siblings, false)
	}
	if r.Chance(15) {
		cb := c16Opt{Vals: []int{}, Handlers: s.handlers(), Paths: [][]string{}}
		if r.Chance(60) {
			cb.Paths = append(cb.Paths, pickT())
		}
		logical = append(logical, cb)
		siblings = append(siblings, false)
	}
	if !r.Chance(75) { // mostly the bases come first; otherwise any order
		perm := r.Perm(len(logical))
		lo, si := make([]c16Opt, len(logical)), make([]bool, len(logical))
		for i, j := range perm {
			lo[i], si[i] = logical[j], siblings[j]
		}
		logical, siblings = lo, si
	}
	c := &c16Case{Store: []c16Opt{}, Mode: "seq", Kind: "shared"}
	construct := r.Chance(10)
	for _, sb := range siblings {
		construct = construct || sb
	}
	var ixs []int
	if construct {
		c.Kind += "/construction"
		for i, o := range logical {
			bi := len(c.Build)
			c.Build = append(c.Build, c16BuildOp{Op: "base", Ty: o.Ty, Vals: o.Vals, Handlers: o.Handlers, Paths: [][]string{}, Spare: o.Spare})
			switch {
			case len(o.Paths) == 0:
				ixs = append(ixs, bi)
			case siblings[i]: // one derived Option per node, all sharing the base's value array
				for _, p := range o.Paths {
					c.Build = append(c.Build, c16BuildOp{Op: "designate", Src: bi, Vals: []int{}, Handlers: []int{}, Paths: [][]string{p}, ViaKey: o.ViaKey})
					ixs = append(ixs, len(c.Build)-1)
				}
			default:
				c.Build = append(c.Build, c16BuildOp{Op: "designate", Src: bi, Vals: []int{}, Handlers: []int{}, Paths: o.Paths, ViaKey: o.ViaKey})
				ixs = append(ixs, len(c.Build)-1)
			}
		}
		c16SyncStore(c)
	} else {
		c.Store = logical
		for i := range logical {
			ixs = append(ixs, i)
		}
	}
	dag := r.Chance(25)
	switch w := r.Intn(100); {
	case w < 70:
		c.Calls = []c16Call{{G: g, Ixs: ixs, Paradigm: c16Paradigm(r), Dag: dag}}
	case w < 88:
		c.Kind += "/sequence"
		c.Calls = []c16Call{{G: g, Ixs: ixs, Paradigm: c16Paradigm(r), Dag: dag}}
		second := ixs
		if r.Chance(50) {
			second = []int{}
			for _, ix := range ixs {
				if r.Chance(70) {
					second = append(second, ix)
				}
			}
		}
		c.Calls = append(c.Calls, c16Call{G: g, Ixs: second, Paradigm: c16Paradigm(r), Dag: dag})
	default:
		c.Kind += "/concurrent"
		c.Mode = "conc"
		c.Reps = r.Range(1, 2)
		n := r.Range(2, 3)
		for i := 0; i < n; i++ {
			c.Calls = append(c.Calls, c16Call{G: g, Ixs: ixs, Paradigm: c16Paradigm(r), Dag: dag})
		}
	}
	return c
}

// c16SliceCorpus: hand-written cases about value lists with spare capacity and shared arrays.
func c16SliceCorpus() []*c16Case {
	lam := func(k string, ty int) c16Node { return c16Node{K: "comp", Key: k, Ty: ty, Impl: "lambda"} }
	flat := []c16Node{lam("a", c16TyA), lam("b", c16TyA), lam("c", c16TyB)}
	nested := []c16Node{
		{K: "graph", Key: "sub", Ch: []c16Node{lam("a", c16TyA), {K: "graph", Key: "in", Ch: []c16Node{lam("a", c16TyA)}}}},
		lam("t", c16TyA),
	}
	val := func(vals []int, spare int, paths ...[]string) c16Opt {
		if paths == nil {
			paths = [][]string{}
		}
		return c16Opt{Ty: c16TyA, Vals: vals, Handlers: []int{}, Paths: paths, Spare: spare}
	}
	one := func(kind string, g []c16Node, par string, opts ...c16Opt) *c16Case {
		ixs := make([]int, len(opts))
		for i := range ixs {
			ixs[i] = i
		}
		return &c16Case{Store: opts, Calls: []c16Call{{G: g, Ixs: ixs, Paradigm: par}}, Mode: "seq", Kind: "corpus:" + kind}
	}
	cs := []*c16Case{
		// an undesignated Option over a list with a spare cell, then one Option per node
		one("spare-undesignated-then-one-per-node", flat, "invoke", val([]int{1}, 1), val([]int{2}, 0, []string{"a"}), val([]int{3}, 0, []string{"b"})),
		one("spare-undesignated-then-one-per-node/stream", flat, "stream", val([]int{1, 2}, 3), val([]int{3}, 1, []string{"a"}), val([]int{4}, 0, []string{"b"}), val([]int{5}, 0)),
		// one Option with two paths
		one("spare-two-paths-then-one-per-node", flat, "invoke", val([]int{1}, 2, []string{"a"}, []string{"b"}), val([]int{2}, 0, []string{"b"}), val([]int{3}, 0, []string{"a"})),
		// the undesignated Option is forwarded whole into nested graphs: lists at different levels
		one("spare-undesignated-nested", nested, "invoke", val([]int{1}, 1), val([]int{2}, 0, []string{"sub", "a"}), val([]int{3}, 0, []string{"sub", "in", "a"}), val([]int{4}, 0, []string{"t"})),
		one("spare-undesignated-nested/transform", nested, "transform", val([]int{1}, 2), val([]int{2}, 0, []string{"sub", "in", "a"}), val([]int{3}, 0, []string{"t"})),
	}
	// siblings derived from one base (they share its value array), then one more Option per node
	des := func(src int, paths ...[]string) c16BuildOp {
		return c16BuildOp{Op: "designate", Src: src, Vals: []int{}, Handlers: []int{}, Paths: paths}
	}
	base := func(vals []int, spare int) c16BuildOp {
		return c16BuildOp{Op: "base", Ty: c16TyA, Vals: vals, Handlers: []int{}, Paths: [][]string{}, Spare: spare}
	}
	sib := &c16Case{Mode: "seq", Kind: "corpus:spare-siblings-of-one-base",
		Build: []c16BuildOp{base([]int{1}, 2), des(0, []string{"a"}), des(0, []string{"b"}),
			base([]int{2}, 0), des(3, []string{"a"}), base([]int{3}, 0), des(5, []string{"b"}), base([]int{4}, 1), des(7, []string{"a"})},
		Calls: []c16Call{{G: flat, Ixs: []int{1, 2, 4, 6, 8}, Paradigm: "invoke"}}}
	c16SyncStore(sib)
	// the same Options in two calls one after the other
	seq := one("spare-two-calls", flat, "invoke", val([]int{1}, 1), val([]int{2}, 0, []string{"a"}), val([]int{3}, 0, []string{"b"}))
	seq.Calls = append(seq.Calls, c16Call{G: flat, Ixs: []int{0, 2, 1}, Paradigm: "collect"})
	return append(cs, sib, seq)
}
