//go:build verif && (vh_all || vh_c07)

package props

// C07 — a graph that compiles cannot hit a type mismatch between concretely typed nodes.
// Construction sequences over the type menu (c20types.go + c07_types.go: 17 types, among them
// defined types next to their unnamed literals; lambdas for every (in,out) pair, pass-through
// nodes, branches, state handlers) in random call order; observables: class of every call
// (ok / error / panic), and, when the graph compiled, the class of runs with a START value
// of every dynamic type: ok / ordinary error / panic.  Compared with oracle_C07.

import (
	"encoding/json"
	"fmt"
	"strings"

	"github.com/cloudwego/eino/verifharness/vh"
)

func init() { vh.Register("C07", runC07) }

type c07Model struct {
	Out   []string `json:"out"`
	Kinds []string `json:"kinds"`
	Runs  []string `json:"runs"`
}

// ---- generator: pass-through heavy sequences (type inference in every order) ----

func c07GenPT(r *vh.Rand) *c20Case {
	basic := []string{"c0", "c1", "c3", "c4", "i0", "i1", "any", "c5", "c2"}
	return c07GenPTOver(r, basic[:r.Range(2, 5)], "pt-heavy") // few types => many coincidences and near misses
}

// c07GenPTOver: the pass-through heavy generator over a given small set of types
func c07GenPTOver(r *vh.Rand, few []string, tag string) *c20Case {
	c := &c20Case{Stream: "graph", Cmp: "graph", Impl: c07Impl()}
	c.InT = c20Pick(r, few)
	c.OutT = c20Pick(r, few)
	np := r.Range(1, 3) // pass-through nodes
	nl := r.Range(1, 3) // lambdas
	var keys []string
	var nodeOps []c20Op
	typed := map[string][2]string{"start": {c.InT, c.InT}, "end": {c.OutT, c.OutT}}
	for i := 0; i < np; i++ {
		k := fmt.Sprintf("p%d", i)
		keys = append(keys, k)
		nodeOps = append(nodeOps, c20Op{Op: "node", Key: k, PT: true})
	}
	for i := 0; i < nl; i++ {
		k := fmt.Sprintf("l%d", i)
		keys = append(keys, k)
		in, out := c20Pick(r, few), c20Pick(r, few)
		typed[k] = [2]string{in, out}
		nodeOps = append(nodeOps, c20Op{Op: "node", Key: k, In: in, Out: out, Dyn: c07DynFor(r, out)})
	}
	var links []c20Op
	ne := r.Range(2, 6)
	for i := 0; i < ne; i++ {
		s := c20Pick(r, append([]string{"start"}, keys...))
		e := c20Pick(r, append([]string{"end"}, keys...))
		if s == e {
			continue
		}
		links = append(links, c20Op{Op: "edge", S: s, E: e})
	}
	nb := r.Intn(3)
	for i := 0; i < nb; i++ {
		s := c20Pick(r, keys)
		var ends []string
		switch x := r.Intn(100); {
		case x < 12: // no end node at all
		default:
			e1 := c20Pick(r, append([]string{"end"}, keys...))
			e2 := c20Pick(r, append([]string{"end"}, keys...))
			if e1 == e2 {
				e2 = "end"
				if e1 == "end" {
					e2 = keys[0]
				}
			}
			ends = c20SortedCopy([]string{e1, e2})
		}
		pick := ""
		if len(ends) > 0 {
			pick = c20Pick(r, ends)
		}
		if ends == nil {
			ends = []string{}
		}
		links = append(links, c20Op{Op: "branch", S: s, T: c20Pick(r, few), Ends: ends, Pick: pick})
	}
	// make sure there is an entry and an exit most of the time
	if r.Chance(85) {
		links = append(links, c20Op{Op: "edge", S: "start", E: keys[r.Intn(len(keys))]})
		links = append(links, c20Op{Op: "edge", S: keys[r.Intn(len(keys))], E: "end"})
	}
	// dedupe identical edges (a duplicate edge is C20's subject)
	seen := map[string]bool{}
	var ul []c20Op
	for _, l := range links {
		k := l.Op + l.S + ">" + l.E + strings.Join(l.Ends, ",") + l.T
		if l.Op == "edge" && seen[k] {
			continue
		}
		seen[k] = true
		ul = append(ul, l)
	}
	p := r.Perm(len(ul))
	ops := append([]c20Op{}, nodeOps...)
	for _, j := range p {
		ops = append(ops, ul[j])
	}
	// compiled in the default (any-predecessor) mode: with arbitrary edges an all-predecessor run
	// executes nodes that have no predecessor on a nil input, which is not a type question
	comp := c20Op{Op: "compile"}
	c.Ops = append(ops, comp)
	c.Inject = tag
	return c
}

func c07RunInputs(c *c20Case) []string {
	var out []string
	for _, d := range c07AllConcrete {
		if c20Inhabits(d, c.InT) {
			out = append(out, d)
		}
	}
	return out
}

// ---- one case ----

func c07RunClass(cls string) string {
	switch {
	case strings.HasPrefix(cls, "ok:"):
		return "ok"
	case cls == "err":
		return "err"
	case cls == "err-panic", cls == "panic":
		return "panic"
	}
	return cls
}

// the model tells a converter's error from "no task left"; from outside both are ordinary errors
func c07ModelRunClass(m string) string {
	switch m {
	case "typeErr", "stuck", "badPick":
		return "err"
	}
	return m
}

func c07Exec(c *c20Case) c20Obs {
	c20LastStream = nil
	obs, last := c20ExecGraph(c)
	stream := c20LastStream // the Stream side of the last successful Compile
	okAll := len(obs.Out) > 0 && obs.Out[len(obs.Out)-1] == "ok" && c.Ops[len(c.Ops)-1].Op == "compile"
	if okAll && last != nil {
		for _, d := range c.Runs {
			cls, detail := c20RunOnce(last, c20Val(d))
			obs.Runs = append(obs.Runs, c07RunClass(cls))
			if detail != "" {
				obs.Notes = append(obs.Notes, "run("+d+"): "+detail)
			}
			if c.SRuns && stream != nil {
				cls, detail = c20RunOnce(stream, c20Val(d))
				obs.RunsS = append(obs.RunsS, c07RunClass(cls))
				if detail != "" {
					obs.Notes = append(obs.Notes, "stream run("+d+"): "+detail)
				}
			}
		}
	}
	return obs
}

type c07Diff struct{ sig, what string }

func firstErrOrCompiled(m *c07Model) string {
	for i, o := range m.Out {
		if o != "ok" {
			return m.Kinds[i]
		}
	}
	return "compiled"
}

func c07Compare(c *c20Case, m *c07Model, obs *c20Obs) *c07Diff {
	if len(m.Out) != len(obs.Out) {
		return &c07Diff{"C07:harness:length", "result vectors differ in length"}
	}
	for i := range m.Out {
		if m.Out[i] != obs.Out[i] {
			if obs.Out[i] == "panic" {
				return &c07Diff{"C07:build-panic:" + c.Ops[i].Op, fmt.Sprintf("call %d (%s) panicked; the model says %s", i, c.Ops[i].Op, m.Out[i])}
			}
			// the implementation accepted a call the model refuses, went on to compile, and a run
			// of the compiled graph panicked on a type assertion: the property's failure itself
			if obs.Out[i] == "ok" && len(m.Runs) == 0 {
				for k, rc := range append(append([]string{}, obs.Runs...), obs.RunsS...) {
					k = k % len(c.Runs)
					if rc == "panic" {
						return &c07Diff{"C07:run-panic:model=rejected:" + c.Ops[i].Op + c07ConnSuffix(c),
							fmt.Sprintf("call %d (%s): the model refuses it (%s); the implementation accepted every call, compiled the graph, and the run with a START value of dynamic type %s panicked on a type assertion%s",
								i, c.Ops[i].Op, m.Kinds[i], c.Runs[k], c07ConnText(c))}
					}
				}
			}
			return &c07Diff{fmt.Sprintf("C07:build-outcome:%s:model=%s,impl=%s", c.Ops[i].Op, m.Out[i], obs.Out[i]),
				fmt.Sprintf("call %d (%s): the model says %s (%s), the implementation returned %s", i, c.Ops[i].Op, m.Out[i], m.Kinds[i], obs.Out[i])}
		}
	}
	if len(m.Runs) != len(obs.Runs) {
		return &c07Diff{"C07:harness:runs-length", fmt.Sprintf("model ran %d inputs, implementation %d", len(m.Runs), len(obs.Runs))}
	}
	for i := range m.Runs {
		if obs.Runs[i] == "panic" {
			return &c07Diff{"C07:run-panic:model=" + m.Runs[i],
				fmt.Sprintf("a graph that compiled panicked on a type assertion when run with a START value of dynamic type %s (the model says %s)", c.Runs[i], m.Runs[i])}
		}
		if m.Runs[i] == "merge" {
			continue // fan-in in one superstep: value merging is not modelled; only a panic counts
		}
		if c07ModelRunClass(m.Runs[i]) != obs.Runs[i] {
			return &c07Diff{fmt.Sprintf("C07:run:model=%s,impl=%s", m.Runs[i], obs.Runs[i]),
				fmt.Sprintf("run with a START value of dynamic type %s: the model says %s, the implementation %s", c.Runs[i], m.Runs[i], obs.Runs[i])}
		}
	}
	if c.SRuns {
		// linear graphs only: every value is read by the next node or by the caller, so a Stream run
		// ends in the same class as an Invoke run
		if len(obs.RunsS) != len(m.Runs) {
			return &c07Diff{"C07:harness:stream-runs-length", fmt.Sprintf("model ran %d inputs, implementation streamed %d", len(m.Runs), len(obs.RunsS))}
		}
		for i := range m.Runs {
			if obs.RunsS[i] == "panic" {
				return &c07Diff{"C07:run-panic:stream:model=" + m.Runs[i] + c07ConnSuffix(c),
					fmt.Sprintf("a graph that compiled panicked on a type assertion in a Stream run with a START value of dynamic type %s (the model says %s)%s", c.Runs[i], m.Runs[i], c07ConnText(c))}
			}
			if m.Runs[i] == "merge" {
				continue
			}
			if c07ModelRunClass(m.Runs[i]) != obs.RunsS[i] {
				return &c07Diff{fmt.Sprintf("C07:run:stream:model=%s,impl=%s", m.Runs[i], obs.RunsS[i]),
					fmt.Sprintf("Stream run with a START value of dynamic type %s: the model says %s, the implementation %s%s", c.Runs[i], m.Runs[i], obs.RunsS[i], c07ConnText(c))}
			}
		}
	}
	return nil
}

func c07Check(ctx *vh.Ctx, c *c20Case, repeats int) (*c07Diff, *c07Model, *c20Obs, error) {
	raw, err := ctx.Oracle.Ask("C07", c)
	if err != nil {
		return nil, nil, nil, err
	}
	var m c07Model
	if err := json.Unmarshal(raw, &m); err != nil {
		return nil, nil, nil, err
	}
	obs := c07Exec(c)
	if d := c07Compare(c, &m, &obs); d != nil {
		return d, &m, &obs, nil
	}
	// the same sequence again: inference follows Go's map order, the outcome must not
	for k := 1; k < repeats; k++ {
		o := c07Exec(c)
		if c20Coarse(o.Out) != c20Coarse(obs.Out) || strings.Join(o.Runs, ",") != strings.Join(obs.Runs, ",") || strings.Join(o.RunsS, ",") != strings.Join(obs.RunsS, ",") {
			return &c07Diff{"C07:nondeterministic", fmt.Sprintf("attempt %d gave calls %v runs %v, the first attempt calls %v runs %v", k+1, o.Out, o.Runs, obs.Out, obs.Runs)}, &m, &o, nil
		}
	}
	return nil, &m, &obs, nil
}

func c07Shrink(ctx *vh.Ctx, c *c20Case, sig string, repeats int) *c20Case {
	cur := c
	for pass := 0; pass < 3; pass++ {
		changed := false
		for i := len(cur.Ops) - 2; i >= 0; i-- { // keep the final compile
			t := *cur
			t.Ops = append(append([]c20Op{}, cur.Ops[:i]...), cur.Ops[i+1:]...)
			d, _, _, err := c07Check(ctx, &t, repeats)
			if err == nil && d != nil && d.sig == sig {
				cur = &t
				changed = true
			}
		}
		if !changed {
			break
		}
	}
	return cur
}

func c07One(ctx *vh.Ctx, c *c20Case, repeats int) error {
	if c.Runs == nil {
		c.Runs = c07RunInputs(c)
	}
	ctx.Progress.Mark(c)
	d, m, obs, err := c07Check(ctx, c, repeats)
	if err != nil {
		return err
	}
	pts, brs, ptBr := 0, 0, 0
	isPT := map[string]bool{}
	for _, o := range c.Ops {
		if o.Op == "node" && o.PT {
			pts++
			isPT[o.Key] = true
		}
	}
	for _, o := range c.Ops {
		if o.Op == "branch" {
			brs++
			if isPT[o.S] {
				ptBr++
			}
		}
	}
	compiled := len(m.Runs) > 0
	ctx.Res.Count(c20Key(c), compiled || pts > 0)
	ctx.Res.Dist(fmt.Sprintf("passthroughs=%d", pts))
	ctx.Res.Dist(fmt.Sprintf("branches=%d", brs))
	if ptBr > 0 {
		ctx.Res.Dist("branch-on-passthrough")
	}
	if a, b, ok := c07PairOf(c); ok {
		ctx.Res.Dist("gen=pair")
		ctx.Res.Dist("pair=" + c07PairClass(a, b) + "/" + firstErrOrCompiled(m))
	} else if c.Inject != "" {
		ctx.Res.Dist("gen=" + c.Inject)
	} else {
		ctx.Res.Dist("gen=spine")
	}
	firstErr := "none"
	for i, o := range m.Out {
		if o != "ok" {
			firstErr = m.Kinds[i]
			break
		}
	}
	ctx.Res.Dist("firstError=" + firstErr)
	if compiled {
		ctx.Res.Dist("compiled")
		for _, r := range m.Runs {
			ctx.Res.Dist("run=" + r)
		}
	}
	ctx.Res.Sample(c)
	if d != nil {
		sc := c
		if ctx.Replay == nil {
			sc = c07Shrink(ctx, c, d.sig, repeats)
		}
		d2, m2, obs2, err := c07Check(ctx, sc, repeats)
		if err != nil || d2 == nil || d2.sig != d.sig {
			sc, d2, m2, obs2 = c, d, m, obs
		}
		ctx.Res.Disagree(vh.Disagreement{Signature: d2.sig, What: d2.what, Case: sc, Model: m2, Impl: obs2})
	}
	return nil
}

// c07Fixed: the two shapes of DESIGN §5 / the zero-end-branch variant, run first on every seed.
func c07Fixed() []*c20Case {
	lam := func(k, in, out string) c20Op { return c20Op{Op: "node", Key: k, In: in, Out: out, Dyn: out} }
	a := &c20Case{Stream: "graph", Cmp: "graph", Impl: c20Impl(), InT: "c0", OutT: "c0", Inject: "fixed:branch-retypes-passthrough",
		Ops: []c20Op{lam("a", "c0", "c0"), lam("b", "c1", "c0"), lam("c", "c1", "c0"), {Op: "node", Key: "p", PT: true},
			{Op: "edge", S: "start", E: "a"}, {Op: "edge", S: "a", E: "p"},
			{Op: "branch", S: "p", T: "c1", Ends: []string{"b", "c"}, Pick: "b"},
			{Op: "edge", S: "b", E: "end"}, {Op: "edge", S: "c", E: "end"}, {Op: "compile"}}}
	z := &c20Case{Stream: "graph", Cmp: "graph", Impl: c20Impl(), InT: "any", OutT: "any", Inject: "fixed:zero-end-branches",
		Ops: []c20Op{{Op: "node", Key: "p", PT: true}, {Op: "node", Key: "e1", PT: true}, {Op: "node", Key: "e2", PT: true},
			lam("x", "c0", "c0"),
			{Op: "edge", S: "p", E: "e1"}, {Op: "edge", S: "p", E: "e2"},
			{Op: "branch", S: "e1", T: "c0", Ends: []string{}, Pick: ""},
			{Op: "branch", S: "e2", T: "any", Ends: []string{}, Pick: ""},
			{Op: "edge", S: "start", E: "p"}, {Op: "edge", S: "e1", E: "x"}, {Op: "edge", S: "x", E: "end"}, {Op: "edge", S: "e2", E: "end"},
			{Op: "compile"}}}
	return []*c20Case{a, z}
}

func runC07(ctx *vh.Ctx) error {
	ctx.Res.Rule = "construction sequences over the 17-type menu (string, int, struct, two implementers, two interfaces, any, map[string]any + defined types over unnamed members: MyMap/map[string]any, Ints/[]int, MyStr/string, Fn/func(int) int, chan int/<-chan int): (1) the universe table of the model against reflect and real type assertions; (2) for every ordered pair (A,B) of the 17 types seven minimal graphs whose only questionable connection is A->B (edge, START->END, branch, pass-through typed from either side, branch on a pass-through typed from either side) and a graph[A->B] whose entry pass-through, typed A from START, has a second, any-typed predecessor; (3) random spine graphs (<=5 nodes, lambdas for every (in,out) pair, pass-through nodes, branches, state handlers, mostly compatible types), pass-through-heavy graphs (1-3 pass-through + 1-3 lambda nodes over 2-5 types, random edges, branches incl. zero-end ones, links in random order) over the basic menu and over a named/unnamed family; (4) state handlers: for every ordered pair a node A->A with a pre / post handler (value or stream form) declared on B, random graphs with one handler retyped; (5) input / output keys: lambdas and graphs used as nodes with WithInputKey / WithOutputKey behind START(A) / a pass-through / a branch and in front of END(A) for every menu type A, random linear graphs of keyed and plain nodes, every run also through Stream; (6) Workflows: for every ordered pair a branch condition (invoke / stream condition) on a node, on START and on a pass-through node, a whole-output input, a dependency + data-only input, an input of END (one case per dynamic type for an interface upstream), random Workflows (control chain with inputs, dependency + data-only inputs, forks, branches to the next node / a later node / END, field mappings X->X between equal struct types): Compile verdict and an Invoke and a Stream run per START value; every random sequence built 6 times (pair graphs twice, Workflows 2-3 times); compiled graphs run with a START value of every dynamic type inhabiting the input type; non-trivial = the graph compiled or contains a pass-through node, every Workflow; distinct by (graph types, state, call sequence / declarations)"
	repeats := 6
	if ctx.Replay != nil {
		if c07IsUniverseReplay(ctx.Replay) {
			return c07CheckUniverse(ctx)
		}
		if c07IsWfReplay(ctx.Replay) {
			var w c07WfCase
			if err := json.Unmarshal(ctx.Replay, &w); err != nil {
				return err
			}
			return c07WfOne(ctx, &w, 6)
		}
		var c c20Case
		if err := json.Unmarshal(ctx.Replay, &c); err != nil {
			return err
		}
		return c07One(ctx, &c, 20)
	}
	if err := c07CheckUniverse(ctx); err != nil {
		return err
	}
	for _, c := range c07Fixed() {
		if err := c07One(ctx, c, 20); err != nil {
			return err
		}
	}
	for _, c := range c07PairCases() {
		if err := c07One(ctx, c, 2); err != nil {
			return err
		}
	}
	for _, c := range c07HandlerCases() {
		if err := c07One(ctx, c, 2); err != nil {
			return err
		}
	}
	for _, c := range c07KeyedCases() {
		if err := c07One(ctx, c, 2); err != nil {
			return err
		}
	}
	for _, c := range c07WfFixed() {
		if err := c07WfOne(ctx, c, 6); err != nil {
			return err
		}
	}
	for _, c := range c07WfPairCases() {
		if err := c07WfOne(ctx, c, 2); err != nil {
			return err
		}
	}
	n := ctx.N(15000, 80000)
	for i := 0; i < n && ctx.TimeLeft(); i++ {
		var c *c20Case
		switch x := ctx.Rng.Intn(100); {
		case x < 25:
			if err := c07WfOne(ctx, c07GenWf(ctx.Rng), 3); err != nil {
				return err
			}
			continue
		case x < 52:
			c = c20GenGraph(ctx.Rng, true)
			if ctx.Rng.Chance(25) {
				c07TweakHandler(ctx.Rng, c)
			}
		case x < 60:
			c = c07GenKeyed(ctx.Rng)
		case x < 82:
			c = c07GenPT(ctx.Rng)
		default:
			c = c07GenNamed(ctx.Rng)
		}
		if err := c07One(ctx, c, repeats); err != nil {
			return err
		}
	}
	return nil
}
