//go:build verif && (vh_all || vh_c13)

package props

// C13, family drainfail: an interrupt and a node failure meet in one eager run.
//
// In eager mode (Workflow) the run loop takes the tasks one at a time as they complete.  When the
// task it takes puts it at an interrupt point it drains the tasks still in flight (tm.waitAll())
// and classifies them like any other completed task: a drained task that really failed (error or
// panic) must end the run with ITS error, named and unwrappable — not with the interrupt.
//
//	START -> intr -> intr2 -> join -> END          intKind: after  (WithInterruptAfterNodes intr)
//	START -> sib<i> ----------^                             before (WithInterruptBeforeNodes intr2)
//	                                                        rerun  (intr returns InterruptAndRerun)
//	                                                        nested (intr is a graph that interrupts)
//
// Every sibling is ok / fails (the case's error: leaf, %w chain, custom type, panic) and is early
// (its body ends before intr's does) or late (it waits until the run loop has RECEIVED intr's task
// — read off the taskManager trace of the C03 hooks, compose.VerifC03Events — and is therefore a
// drained task).  The workflow sits in 0-2 enclosing graphs.  The oracle (Model/C13.lean
// `eagerRun` over the nominal completion order) says whether the run fails or is interrupted;
// which of several failing siblings is reported is left open (any of them).

import (
	"context"
	"encoding/json"
	"fmt"
	"strings"
	"time"

	"github.com/cloudwego/eino/compose"
	"github.com/cloudwego/eino/verifharness/vh"
)

type c13Sib struct {
	Out  string `json:"out"`  // ok | fail
	When string `json:"when"` // early | late
	Kind string `json:"kind"` // native paradigm of the lambda: i | s | c | t
}

type c13DrainTask struct {
	K     string `json:"k"`
	O     string `json:"o"` // ok | fail | interrupt
	Point bool   `json:"point,omitempty"`
}

type c13DrainSync struct {
	earlyDone   []chan struct{} // per sibling: its body has ended (early siblings)
	intrBodyEnd chan struct{}   // intr's body is about to return
}

func c13WaitCh(ch chan struct{}, d time.Duration) {
	select {
	case <-ch:
	case <-time.After(d):
	}
}

// a late sibling: wait until the run loop has received intr's task (then this task is drained)
func (s *c13DrainSync) waitIntrTaken() {
	c13WaitCh(s.intrBodyEnd, 5*time.Second)
	deadline := time.Now().Add(2 * time.Second)
	for time.Now().Before(deadline) {
		for _, ev := range compose.VerifC03Events() {
			if ev.K == "recv" && ev.Node == "intr" {
				return
			}
		}
		time.Sleep(50 * time.Microsecond)
	}
	// (no trace in this tree: the sibling still ends after intr's body, most probably drained;
	// the verdict does not depend on it — the failure must be reported either way)
}

func c13DrainWorkflow(c *c13Case) (*compose.Workflow[string, string], []compose.GraphCompileOption, error) {
	sy := c.dr
	wf := compose.NewWorkflow[string, string]()
	var opts []compose.GraphCompileOption
	intrBody := func() {
		for i, sb := range c.Sibs {
			if sb.When == "early" {
				c13WaitCh(sy.earlyDone[i], 5*time.Second)
			}
		}
		close(sy.intrBodyEnd)
	}
	switch c.IntKind {
	case "nested":
		inner := compose.NewGraph[string, string]()
		inner.AddLambdaNode("in1", compose.InvokableLambda(func(ctx context.Context, in string) (string, error) {
			intrBody()
			return in + "1", nil
		}))
		inner.AddLambdaNode("in2", c13Tag("2"))
		inner.AddEdge(compose.START, "in1")
		inner.AddEdge("in1", "in2")
		inner.AddEdge("in2", compose.END)
		wf.AddGraphNode("intr", inner, compose.WithGraphCompileOptions(compose.WithInterruptBeforeNodes([]string{"in2"}))).AddInput(compose.START)
	case "rerun":
		wf.AddLambdaNode("intr", compose.InvokableLambda(func(ctx context.Context, in string) (string, error) {
			intrBody()
			return "", compose.InterruptAndRerun
		})).AddInput(compose.START)
	default:
		wf.AddLambdaNode("intr", compose.InvokableLambda(func(ctx context.Context, in string) (string, error) {
			intrBody()
			return in + "i", nil
		})).AddInput(compose.START)
		if c.IntKind == "before" {
			opts = append(opts, compose.WithInterruptBeforeNodes([]string{"intr2"}))
		} else {
			opts = append(opts, compose.WithInterruptAfterNodes([]string{"intr"}))
		}
	}
	wf.AddLambdaNode("intr2", c13Tag("2")).AddInput("intr")
	join := wf.AddLambdaNode("join", c13Join())
	join.AddInput("intr2", compose.ToField("intr2"))
	for i, sb := range c.Sibs {
		i, sb := i, sb
		key := fmt.Sprintf("sib%d", i)
		body := func(ctx context.Context) error {
			if sb.When == "early" {
				defer close(sy.earlyDone[i])
			} else {
				sy.waitIntrTaken()
			}
			if sb.Out == "fail" {
				return c13Fail(c)
			}
			return nil
		}
		wf.AddLambdaNode(key, c13LambdaOf(sb.Kind, "early", body)).AddInput(compose.START)
		join.AddInput(key, compose.ToField(key))
	}
	wf.End().AddInput("join")
	return wf, opts, nil
}

func c13DrainCompile(ctx context.Context, c *c13Case) (compose.Runnable[string, string], error) {
	c.dr = &c13DrainSync{intrBodyEnd: make(chan struct{})}
	for range c.Sibs {
		c.dr.earlyDone = append(c.dr.earlyDone, make(chan struct{}))
	}
	compose.VerifC03Reset(1, false) // start a fresh taskManager trace (read by the late siblings)
	wf, opts, err := c13DrainWorkflow(c)
	if err != nil {
		return nil, err
	}
	if len(c.Levels) == 0 {
		return wf.Compile(ctx, opts...)
	}
	var cur compose.AnyGraph = wf
	curOpts := opts
	for lvl := len(c.Levels) - 1; lvl >= 0; lvl-- {
		g := compose.NewGraph[string, string]()
		var gopts []compose.GraphCompileOption
		if lvl < len(c.Mode) && c.Mode[lvl] == "dag" {
			gopts = append(gopts, compose.WithNodeTriggerMode(compose.AllPredecessor))
		}
		key := c.Levels[lvl].Key
		if err := g.AddLambdaNode("pre", c13Tag("p")); err != nil {
			return nil, err
		}
		if err := g.AddGraphNode(key, cur, compose.WithGraphCompileOptions(curOpts...)); err != nil {
			return nil, err
		}
		for _, e := range [][2]string{{compose.START, "pre"}, {"pre", key}, {key, compose.END}} {
			if err := g.AddEdge(e[0], e[1]); err != nil {
				return nil, err
			}
		}
		if lvl == 0 {
			return g.Compile(ctx, gopts...)
		}
		cur, curOpts = g, gopts
	}
	return nil, fmt.Errorf("c13: unreachable")
}

func c13DrainOrder(c *c13Case) []c13DrainTask {
	var out []c13DrainTask
	for i, sb := range c.Sibs {
		if sb.When == "early" {
			out = append(out, c13DrainTask{K: fmt.Sprintf("sib%d", i), O: sb.Out})
		}
	}
	switch c.IntKind {
	case "rerun", "nested":
		out = append(out, c13DrainTask{K: "intr", O: "interrupt"})
	default:
		out = append(out, c13DrainTask{K: "intr", O: "ok", Point: true})
	}
	for i, sb := range c.Sibs {
		if sb.When != "early" {
			out = append(out, c13DrainTask{K: fmt.Sprintf("sib%d", i), O: sb.Out})
		}
	}
	return out
}

func c13GenDrain(r *vh.Rand) *c13Case {
	c := &c13Case{Kind: "drainfail"}
	c13GenLevels(r, c, r.Intn(3))
	if c.Levels == nil {
		c.Levels = []c13Level{}
	}
	c.IntKind = []string{"after", "before", "rerun", "nested"}[r.Intn(4)]
	c.Paradigm = []string{"invoke", "stream", "collect", "transform"}[r.Intn(4)]
	c.LambdaKind = "i"
	c13GenErr(r, c, 35)
	for n := r.Range(1, 3); n > 0; n-- {
		sb := c13Sib{Out: "ok", When: "late", Kind: []string{"i", "i", "s", "c", "t"}[r.Intn(5)]}
		if r.Chance(55) {
			sb.Out = "fail"
		}
		if r.Chance(30) {
			sb.When = "early"
		}
		c.Sibs = append(c.Sibs, sb)
	}
	c.Drain = c13DrainOrder(c)
	return c
}

func c13DrainCorpus() []*c13Case {
	var out []*c13Case
	for _, ik := range []string{"after", "before", "rerun", "nested"} {
		for _, ek := range []string{"leaf", "panic"} {
			c := &c13Case{Kind: "drainfail", Levels: []c13Level{}, Mode: []string{"pregel"}, IntKind: ik, Paradigm: "invoke", LambdaKind: "i",
				Err: c13Err{K: ek, ID: 1}, Target: 1, PanicVal: "string", Sibs: []c13Sib{{Out: "fail", When: "late", Kind: "i"}}}
			c.Drain = c13DrainOrder(c)
			out = append(out, c)
		}
	}
	return out
}

type c13DrainModel struct {
	c13Obs
	Round string `json:"round"`
}

func c13DrainOne(ctx *vh.Ctx, c *c13Case) error {
	ctx.Progress.Mark(c)
	raw, err := ctx.Oracle.Ask("C13", c)
	if err != nil {
		return err
	}
	var model c13DrainModel
	if err := json.Unmarshal(raw, &model); err != nil {
		return err
	}
	if model.Path == nil {
		model.Path = []string{}
	}
	impl, class := c13RunImpl(c)
	short := strings.SplitN(class, ":", 2)[0]
	lateFail, anyFail := false, false
	var failing []string
	for i, sb := range c.Sibs {
		if sb.Out == "fail" {
			anyFail = true
			failing = append(failing, fmt.Sprintf("sib%d", i))
			if sb.When == "late" {
				lateFail = true
			}
		}
	}
	ctx.Res.Dist("kind=drainfail")
	ctx.Res.Dist("drainfail:int=" + c.IntKind)
	ctx.Res.Dist("drainfail:paradigm=" + c.Paradigm)
	ctx.Res.Dist("drainfail:err=" + c.Err.K)
	ctx.Res.Dist("drainfail:round=" + model.Round)
	ctx.Res.Dist(fmt.Sprintf("drainfail:late-failure=%v", lateFail))
	ctx.Res.Dist("drainfail:class=" + short)
	ctx.Res.Count(fmt.Sprintf("drainfail/%s/%v/%s/%s/%s/%d/%v", c.IntKind, c.Sibs, c.Paradigm, c.Err.K, c.PanicVal, len(c.Levels), c.Mode), lateFail)
	ctx.Res.Sample(c)
	sig := func(what string) string {
		return fmt.Sprintf("C13:%s:kind=drainfail:err=%s:int=%s", what, c.Err.K, c.IntKind)
	}
	dis := func(what, text string) {
		ctx.Res.Disagree(vh.Disagreement{Signature: sig(what), What: text, Case: c, Model: model, Impl: impl})
	}
	if class != "error" {
		what := "class-" + short
		if short == "no-error" && anyFail {
			what = "swallowed"
		}
		dis(what, "an eager run in which an interrupt point is reached must return the failure of a failed node, or else the interrupt: "+class)
		return nil
	}
	if model.Round == "goesOn" {
		dis("model-goes-on", "the model does not reach an interrupt point for this case")
		return nil
	}
	if model.Round == "interrupted" {
		// no node failed: C13 has nothing to say about how the interrupt itself is reported (building the
		// checkpoint is C05/C06 territory; in the streaming paradigms it currently fails with "failed to
		// convert checkpoint" for a Workflow with field mappings); only recorded
		ctx.Res.Dist(fmt.Sprintf("drainfail:no-failure:interrupt-reported=%v", impl.Interrupt))
		return nil
	}
	// the model: a failed node's error is the error of the run
	if impl.Interrupt {
		dis("swallowed", fmt.Sprintf("node(s) %v failed (%s) while the loop was at an interrupt point (%s); the run reports the interrupt and the failure is gone", failing, c.Err.K, c.IntKind))
		return nil
	}
	if impl.Is != model.Is {
		dis("errors.Is", fmt.Sprintf("errors.Is/As(original) = %v on the implementation, %v in the model", impl.Is, model.Is))
	}
	pathOK := false
	for _, k := range failing { // any failing sibling may be the one that is reported
		want := append(append([]string{}, model.Path[:len(model.Path)-1]...), k)
		pathOK = pathOK || vh.CanonEq(impl.Path, want)
	}
	if !pathOK {
		dis("nodePath", fmt.Sprintf("node path %v on the implementation; the model: %v (or another failing sibling of %v)", impl.Path, model.Path, failing))
	} else if !vh.CanonEq(impl.TextPath, impl.Path) {
		dis("textPath", fmt.Sprintf("the text of the returned error names the node path %v, its path field %v", impl.TextPath, impl.Path))
	}
	if c.Err.K == "panic" && !strings.Contains(impl.Text, c13PanicText(c)) {
		dis("panic-text", fmt.Sprintf("the error of the run does not carry the panic value %q: %q", c13PanicText(c), impl.Text))
	}
	return nil
}

func c13RunDrain(ctx *vh.Ctx) error {
	for _, c := range c13DrainCorpus() {
		if err := c13DrainOne(ctx, c); err != nil {
			return err
		}
	}
	r := ctx.Rng.Fork()
	for i, n := 0, ctx.N(400, 2500); i < n; i++ {
		if err := c13DrainOne(ctx, c13GenDrain(r)); err != nil {
			return err
		}
	}
	return nil
}
