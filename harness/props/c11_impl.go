//go:build verif && (vh_all || vh_c11)

package props

// C11, implementation side (runs in the child process): the case language is turned into
// real compose graphs; every handler and node body records what it received and returned.

import (
	"context"
	"encoding/json"
	"errors"
	"fmt"
	"io"
	"os"
	"reflect"
	"runtime"
	"sort"
	"strconv"
	"strings"
	"sync"
	"sync/atomic"
	"time"

	"github.com/cloudwego/eino/compose"
	"github.com/cloudwego/eino/schema"
	"github.com/cloudwego/eino/verifharness/vh"
)

// C11State is the state object of the generated graphs.  Exported fields: it travels through
// the checkpoint serialisation on interrupt/resume.
type C11State struct {
	ID    int
	Ctr   []int
	Seq   int
	Order []int // commit log: global node id of every state operation, appended under the lock
}

// c11StateLike: what the generated handlers and bodies need of a state value, whatever its
// representation.  Besides the pointer state `*C11State` there are three NON-pointer state
// types whose values still share storage when they are handed around by value (a map, a
// map[string]any, a struct value holding a slice): the engine's mutual exclusion has to
// cover them exactly like a pointer state.
type c11StateLike interface {
	sKey() uintptr // identity of the shared storage, computed without touching it
	sID() int
	sCtr(i int) int
	sSetCtr(i, v int)
	sSeq() int
	sSetSeq(v int)
	sLog(gid int)
	sSnap(gen bool) c11StateObs
}

func (s *C11State) sKey() uintptr              { return reflect.ValueOf(s).Pointer() }
func (s *C11State) sID() int                   { return s.ID }
func (s *C11State) sCtr(i int) int             { return s.Ctr[i] }
func (s *C11State) sSetCtr(i, v int)           { s.Ctr[i] = v }
func (s *C11State) sSeq() int                  { return s.Seq }
func (s *C11State) sSetSeq(v int)              { s.Seq = v }
func (s *C11State) sLog(gid int)               { s.Order = append(s.Order, gid) }
func (s *C11State) sSnap(gen bool) c11StateObs { return c11Snapshot(s, gen) }

// C11MapInt: a map state, map[string]int.  Keys: id, ctrs, c<i>, seq, n (length of the log), o<k>.
type C11MapInt map[string]int

func (m C11MapInt) sKey() uintptr    { return reflect.ValueOf(m).Pointer() }
func (m C11MapInt) sID() int         { return m["id"] }
func (m C11MapInt) sCtr(i int) int   { return m["c"+strconv.Itoa(i)] }
func (m C11MapInt) sSetCtr(i, v int) { m["c"+strconv.Itoa(i)] = v }
func (m C11MapInt) sSeq() int        { return m["seq"] }
func (m C11MapInt) sSetSeq(v int)    { m["seq"] = v }
func (m C11MapInt) sLog(gid int) {
	n := m["n"]
	m["o"+strconv.Itoa(n)] = gid
	m["n"] = n + 1
}
func (m C11MapInt) sSnap(gen bool) c11StateObs {
	o := c11StateObs{ID: m["id"], Gen: gen, Seq: m["seq"], Ctr: []int{}, Order: []int{}}
	for i := 0; i < m["ctrs"]; i++ {
		o.Ctr = append(o.Ctr, m["c"+strconv.Itoa(i)])
	}
	for k := 0; k < m["n"]; k++ {
		o.Order = append(o.Order, m["o"+strconv.Itoa(k)])
	}
	return o
}

// C11MapAny: map[string]any with id / seq (int) and ctr / order ([]int).
type C11MapAny map[string]any

func (m C11MapAny) sKey() uintptr    { return reflect.ValueOf(m).Pointer() }
func (m C11MapAny) sID() int         { return m["id"].(int) }
func (m C11MapAny) sCtr(i int) int   { return m["ctr"].([]int)[i] }
func (m C11MapAny) sSetCtr(i, v int) { m["ctr"].([]int)[i] = v }
func (m C11MapAny) sSeq() int        { return m["seq"].(int) }
func (m C11MapAny) sSetSeq(v int)    { m["seq"] = v }
func (m C11MapAny) sLog(gid int)     { m["order"] = append(m["order"].([]int), gid) }
func (m C11MapAny) sSnap(gen bool) c11StateObs {
	return c11StateObs{ID: m.sID(), Gen: gen, Seq: m.sSeq(), Ctr: append([]int{}, m["ctr"].([]int)...), Order: append([]int{}, m["order"].([]int)...)}
}

// C11Box: a struct VALUE holding a slice (of length 1): every copy of the struct shares the cell.
type C11Box struct {
	Cell []C11State
}

func (b C11Box) sKey() uintptr              { return reflect.ValueOf(b.Cell).Pointer() }
func (b C11Box) sID() int                   { return b.Cell[0].ID }
func (b C11Box) sCtr(i int) int             { return b.Cell[0].Ctr[i] }
func (b C11Box) sSetCtr(i, v int)           { b.Cell[0].Ctr[i] = v }
func (b C11Box) sSeq() int                  { return b.Cell[0].Seq }
func (b C11Box) sSetSeq(v int)              { b.Cell[0].Seq = v }
func (b C11Box) sLog(gid int)               { b.Cell[0].Order = append(b.Cell[0].Order, gid) }
func (b C11Box) sSnap(gen bool) c11StateObs { return c11Snapshot(&b.Cell[0], gen) }

func c11NewPtr(id, ctrs int) *C11State {
	return &C11State{ID: id, Ctr: make([]int, ctrs), Order: []int{}}
}
func c11NewMapInt(id, ctrs int) C11MapInt {
	m := C11MapInt{"id": id, "ctrs": ctrs, "seq": 0, "n": 0}
	for i := 0; i < ctrs; i++ {
		m["c"+strconv.Itoa(i)] = 0
	}
	return m
}
func c11NewMapAny(id, ctrs int) C11MapAny {
	return C11MapAny{"id": id, "seq": 0, "ctr": make([]int, ctrs), "order": []int{}}
}
func c11NewBox(id, ctrs int) C11Box {
	return C11Box{Cell: []C11State{{ID: id, Ctr: make([]int, ctrs), Order: []int{}}}}
}

var c11NextID int64
var c11RegOnce sync.Once

type c11RunKey struct{}

type c11RunRec struct {
	mu      sync.Mutex
	genPtrs []*C11State
	ptrs    []*C11State
	nodes   map[string]*c11NodeObs
	rerun   map[string]bool
	loops   map[string]int // resume family: evaluations of the cycle's branch, by the path of its node
	eager   *c11EagerCtl
	late    *c11LateCtl
	// non-pointer state types: the objects the generator made, one "somebody is inside" flag per
	// object (keyed by the identity of its shared storage) and the overlap count
	genVals  []c11StateLike
	flags    sync.Map // uintptr -> *int32
	overlaps int32
}

// generated: the state generator has produced s in this run.
func (r *c11RunRec) generated(s c11StateLike) {
	r.mu.Lock()
	if p, ok := s.(*C11State); ok {
		r.genPtrs = append(r.genPtrs, p)
	} else {
		r.genVals = append(r.genVals, s)
		r.flags.Store(s.sKey(), new(int32))
	}
	r.mu.Unlock()
}

// enter / leave bracket the user code of every state operation.  Pointer states: nothing to do
// (their accesses are unguarded, an overlap shows as a lost update / a race report).  Non-pointer
// states: the operation may touch the state only if nobody else is inside; otherwise the overlap
// is counted and the state is NOT touched (an unsynchronised concurrent map access would kill
// the process with "concurrent map writes" instead of giving an observation).
func (r *c11RunRec) enter(s c11StateLike) bool {
	if _, ok := s.(*C11State); ok {
		return true
	}
	f, ok := r.flags.Load(s.sKey())
	if !ok || !atomic.CompareAndSwapInt32(f.(*int32), 0, 1) {
		atomic.AddInt32(&r.overlaps, 1)
		return false
	}
	return true
}

func (r *c11RunRec) leave(s c11StateLike) {
	if _, ok := s.(*C11State); ok {
		return
	}
	if f, ok := r.flags.Load(s.sKey()); ok {
		atomic.StoreInt32(f.(*int32), 0)
	}
}

func (r *c11RunRec) seeAny(s c11StateLike) {
	if p, ok := s.(*C11State); ok {
		r.see(p)
	}
}

func c11Rec(ctx context.Context) *c11RunRec {
	r, _ := ctx.Value(c11RunKey{}).(*c11RunRec)
	return r
}

func (r *c11RunRec) see(s *C11State) {
	r.mu.Lock()
	for _, p := range r.ptrs {
		if p == s {
			r.mu.Unlock()
			return
		}
	}
	r.ptrs = append(r.ptrs, s)
	r.mu.Unlock()
}

func c11AddID(no *c11NodeObs, id int) {
	for _, x := range no.StateIDs {
		if x == id {
			return
		}
	}
	no.StateIDs = append(no.StateIDs, id)
}

func c11P(s string) *string { return &s }

// stamp: the value is extended with the state's sequence number, which is then bumped
// (read, yield, write: an unprotected interleaving would lose the update).
func c11Stamp(ctx context.Context, no *c11NodeObs, gid int, tag string, in string, s c11StateLike) string {
	rr := c11Rec(ctx)
	if e := rr.eager; e != nil {
		ok := e.enter(e.late[gid])
		defer e.leave(ok)
	}
	if e := rr.late; e != nil {
		ok := e.enter()
		defer e.leave(ok)
	}
	if !rr.enter(s) {
		return in + "|" + tag + "!overlap"
	}
	defer rr.leave(s)
	seq := s.sSeq()
	runtime.Gosched()
	s.sSetSeq(seq + 1)
	s.sLog(gid)
	c11AddID(no, s.sID())
	rr.seeAny(s)
	return in + "|" + tag + strconv.Itoa(seq)
}

func c11ReadAll(sr *schema.StreamReader[string]) (string, error) {
	defer sr.Close()
	var sb strings.Builder
	for {
		c, err := sr.Recv()
		if err == io.EOF {
			return sb.String(), nil
		}
		if err != nil {
			return "", err
		}
		sb.WriteString(c)
	}
}

func c11Split(s string) *schema.StreamReader[string] {
	if len(s) < 2 {
		return schema.StreamReaderFromArray([]string{s})
	}
	k := len(s) / 2
	return schema.StreamReaderFromArray([]string{s[:k], s[k:]})
}

// c11ReadAllMap: concatenates the chunks of a keyed stream (node with an output key).
func c11ReadAllMap(sr *schema.StreamReader[map[string]any], key string) (string, error) {
	defer sr.Close()
	var sb strings.Builder
	for {
		c, err := sr.Recv()
		if err == io.EOF {
			return sb.String(), nil
		}
		if err != nil {
			return "", err
		}
		if v, ok := c[key].(string); ok {
			sb.WriteString(v)
		}
	}
}

// keyed: the node has an output key (it feeds a join of a Graph), so its post-handler sees
// map[string]any{key: out}.
func c11HandlerOpts(f c11Flat, keyed bool) []compose.GraphAddNodeOpt {
	return c11HandlerOptsT[*C11State](f, keyed)
}

func c11HandlerOptsT[S c11StateLike](f c11Flat, keyed bool) []compose.GraphAddNodeOpt {
	var opts []compose.GraphAddNodeOpt
	n, gid, path := f.Node, f.Gid, f.Path
	preTag, postTag := fmt.Sprintf("p%d:", gid), fmt.Sprintf("q%d:", gid)
	pre := func(ctx context.Context, in string, s S) string {
		no := c11Rec(ctx).nodes[path]
		no.PreN++
		no.PreIn = c11P(in)
		out := c11Stamp(ctx, no, gid, preTag, in, s)
		no.PreOut = c11P(out)
		return out
	}
	post := func(ctx context.Context, in string, s S) string {
		no := c11Rec(ctx).nodes[path]
		no.PostN++
		no.PostIn = c11P(in)
		out := c11Stamp(ctx, no, gid, postTag, in, s)
		no.PostOut = c11P(out)
		return out
	}
	switch n.Pre {
	case "plain":
		opts = append(opts, compose.WithStatePreHandler(func(ctx context.Context, in string, s S) (string, error) {
			return pre(ctx, in, s), nil
		}))
	case "stream":
		opts = append(opts, compose.WithStreamStatePreHandler(func(ctx context.Context, in *schema.StreamReader[string], s S) (*schema.StreamReader[string], error) {
			v, err := c11ReadAll(in)
			if err != nil {
				return nil, err
			}
			return c11Split(pre(ctx, v, s)), nil
		}))
	}
	if keyed {
		key := n.Key
		switch n.Post {
		case "plain":
			opts = append(opts, compose.WithStatePostHandler(func(ctx context.Context, in map[string]any, s S) (map[string]any, error) {
				v, ok := in[key].(string)
				if !ok {
					return nil, fmt.Errorf("post %s: no string under the output key", path)
				}
				return map[string]any{key: post(ctx, v, s)}, nil
			}))
		case "stream":
			opts = append(opts, compose.WithStreamStatePostHandler(func(ctx context.Context, in *schema.StreamReader[map[string]any], s S) (*schema.StreamReader[map[string]any], error) {
				v, err := c11ReadAllMap(in, key)
				if err != nil {
					return nil, err
				}
				out := post(ctx, v, s)
				k := len(out) / 2
				return schema.StreamReaderFromArray([]map[string]any{{key: out[:k]}, {key: out[k:]}}), nil
			}))
		}
		return opts
	}
	switch n.Post {
	case "plain":
		opts = append(opts, compose.WithStatePostHandler(func(ctx context.Context, in string, s S) (string, error) {
			return post(ctx, in, s), nil
		}))
	case "stream":
		opts = append(opts, compose.WithStreamStatePostHandler(func(ctx context.Context, in *schema.StreamReader[string], s S) (*schema.StreamReader[string], error) {
			v, err := c11ReadAll(in)
			if err != nil {
				return nil, err
			}
			return c11Split(post(ctx, v, s)), nil
		}))
	}
	return opts
}

func c11Body(ctx context.Context, f c11Flat, in string) (string, error) {
	return c11BodyT[*C11State](ctx, f, in)
}

func c11BodyT[S c11StateLike](ctx context.Context, f c11Flat, in string) (string, error) {
	rr := c11Rec(ctx)
	no := rr.nodes[f.Path]
	if f.Node.Rerun {
		rr.mu.Lock()
		first := !rr.rerun[f.Path]
		if rr.rerun == nil {
			rr.rerun = map[string]bool{}
		}
		rr.rerun[f.Path] = true
		rr.mu.Unlock()
		if first {
			no.RerunN++
			return "", compose.InterruptAndRerun
		}
	}
	if rr.eager != nil {
		return c11EagerBody(ctx, f, in)
	}
	no.BodyN++
	no.BodyIn = c11P(in)
	// probe: which state object do the nodes of this graph see
	probe := -1
	if err := compose.ProcessState[S](ctx, func(_ context.Context, s S) error {
		if rr.enter(s) {
			probe = s.sID()
			rr.leave(s)
		} else {
			probe = -2
		}
		return nil
	}); err != nil {
		probe = -1
	}
	no.Probe = &probe
	v := in
	for _, op := range f.Node.Body {
		switch op.O {
		case "tag":
			v += "|" + op.T
		case "inc":
			for i := 0; i < op.Rep; i++ {
				err := compose.ProcessState[S](ctx, func(_ context.Context, s S) error {
					if !rr.enter(s) {
						return nil
					}
					x := s.sCtr(op.C)
					runtime.Gosched()
					s.sSetCtr(op.C, x+op.D)
					s.sLog(f.Gid)
					if i == 0 {
						c11AddID(no, s.sID())
						rr.seeAny(s)
					}
					rr.leave(s)
					return nil
				})
				if err != nil {
					return "", err
				}
			}
		case "stamp":
			err := compose.ProcessState[S](ctx, func(ctx2 context.Context, s S) error {
				v = c11Stamp(ctx, no, f.Gid, op.Tag, v, s)
				return nil
			})
			if err != nil {
				return "", err
			}
		}
	}
	no.BodyOut = c11P(v)
	return v, nil
}

type c11Built struct {
	g    compose.AnyGraph
	opts []compose.GraphCompileOption
	comp func(ctx context.Context, opts ...compose.GraphCompileOption) (compose.Runnable[string, string], error)
}

func c11Build(l *c11Layout, gi int, ctrs int) (*c11Built, error) {
	return c11BuildT[*C11State](l, gi, ctrs, c11NewPtr)
}

// c11BuildAs: the graphs of a case with the state type the case names.
func c11BuildAs(stateType string, l *c11Layout, ctrs int) (*c11Built, error) {
	switch stateType {
	case "", "ptr":
		return c11BuildT[*C11State](l, 0, ctrs, c11NewPtr)
	case "mapint":
		return c11BuildT[C11MapInt](l, 0, ctrs, c11NewMapInt)
	case "mapany":
		return c11BuildT[C11MapAny](l, 0, ctrs, c11NewMapAny)
	case "box":
		return c11BuildT[C11Box](l, 0, ctrs, c11NewBox)
	}
	return nil, fmt.Errorf("unknown state type %q", stateType)
}

func c11BuildT[S c11StateLike](l *c11Layout, gi int, ctrs int, mk func(id, ctrs int) S) (*c11Built, error) {
	spec := l.Graphs[gi]
	var gopts []compose.NewGraphOption
	if spec.Stateful {
		gopts = append(gopts, compose.WithGenLocalState(func(ctx context.Context) S {
			s := mk(int(atomic.AddInt64(&c11NextID, 1)), ctrs)
			if rr := c11Rec(ctx); rr != nil {
				rr.generated(s)
			}
			return s
		}))
	}
	feedsJoin := map[int]bool{}
	for i := range spec.Nodes {
		if spec.Nodes[i].Join {
			for _, p := range spec.Nodes[i].Preds {
				feedsJoin[p] = true
			}
		}
	}
	lambdaOf := func(f c11Flat) *compose.Lambda {
		if f.Node.Join {
			return compose.InvokableLambda(func(ctx context.Context, in map[string]any) (string, error) {
				m := map[string]string{}
				for k, v := range in {
					s, ok := v.(string)
					if !ok {
						return "", fmt.Errorf("join %s: value of %s is %T", f.Path, k, v)
					}
					m[k] = s
				}
				return c11BodyT[S](ctx, f, c11Render(m))
			})
		}
		return compose.InvokableLambda(func(ctx context.Context, in string) (string, error) {
			return c11BodyT[S](ctx, f, in)
		})
	}
	subOf := func(f c11Flat) (*c11Built, error) {
		for sgi := range l.Graphs {
			if l.GOwner[sgi] == f.Gid {
				return c11BuildT[S](l, sgi, ctrs, mk)
			}
		}
		return nil, errors.New("sub-graph not found")
	}
	b := &c11Built{}
	if len(spec.Before) > 0 {
		b.opts = append(b.opts, compose.WithInterruptBeforeNodes(spec.Before))
	}
	if len(spec.After) > 0 {
		b.opts = append(b.opts, compose.WithInterruptAfterNodes(spec.After))
	}
	last := spec.Nodes[len(spec.Nodes)-1].Key
	if spec.Mode == "workflow" {
		wf := compose.NewWorkflow[string, string](gopts...)
		for ni := range spec.Nodes {
			f := l.Nodes[l.GNodes[gi][ni]]
			opts := c11HandlerOptsT[S](f, false)
			var wn *compose.WorkflowNode
			if f.Node.Sub != nil {
				sb, err := subOf(f)
				if err != nil {
					return nil, err
				}
				if len(sb.opts) > 0 {
					opts = append(opts, compose.WithGraphCompileOptions(sb.opts...))
				}
				wn = wf.AddGraphNode(f.Node.Key, sb.g, opts...)
			} else {
				wn = wf.AddLambdaNode(f.Node.Key, lambdaOf(f), opts...)
			}
			switch {
			case len(f.Node.Preds) == 0:
				wn.AddInput(compose.START)
			case f.Node.Join:
				for _, p := range f.Node.Preds {
					wn.AddInput(spec.Nodes[p].Key, compose.ToField(spec.Nodes[p].Key))
				}
			default:
				wn.AddInput(spec.Nodes[f.Node.Preds[0]].Key)
			}
		}
		wf.End().AddInput(last)
		b.g = wf
		b.comp = wf.Compile
		return b, nil
	}
	g := compose.NewGraph[string, string](gopts...)
	for ni := range spec.Nodes {
		f := l.Nodes[l.GNodes[gi][ni]]
		opts := c11HandlerOptsT[S](f, feedsJoin[ni])
		if feedsJoin[ni] {
			opts = append(opts, compose.WithOutputKey(f.Node.Key))
		}
		var err error
		if f.Node.Sub != nil {
			var sb *c11Built
			sb, err = subOf(f)
			if err != nil {
				return nil, err
			}
			if len(sb.opts) > 0 {
				opts = append(opts, compose.WithGraphCompileOptions(sb.opts...))
			}
			err = g.AddGraphNode(f.Node.Key, sb.g, opts...)
		} else {
			err = g.AddLambdaNode(f.Node.Key, lambdaOf(f), opts...)
		}
		if err != nil {
			return nil, fmt.Errorf("add node %s: %w", f.Path, err)
		}
	}
	loop := spec.LoopN > 0 && spec.LoopFrom < len(spec.Nodes) && spec.LoopTo <= spec.LoopFrom
	for ni := range spec.Nodes {
		n := &spec.Nodes[ni]
		if len(n.Preds) == 0 {
			if err := g.AddEdge(compose.START, n.Key); err != nil {
				return nil, err
			}
		}
		for _, p := range n.Preds {
			if loop && p == spec.LoopFrom {
				continue // the way on is a target of the cycle's branch
			}
			if err := g.AddEdge(spec.Nodes[p].Key, n.Key); err != nil {
				return nil, err
			}
		}
	}
	if loop {
		// a Pregel cycle: the branch counts its own evaluations (one per completion of the node)
		from, to, fwd := spec.Nodes[spec.LoopFrom].Key, spec.Nodes[spec.LoopTo].Key, compose.END
		if spec.LoopFrom+1 < len(spec.Nodes) {
			fwd = spec.Nodes[spec.LoopFrom+1].Key
		}
		lpath, times := l.Nodes[l.GNodes[gi][spec.LoopFrom]].Path, spec.LoopN
		br := compose.NewGraphBranch(func(ctx context.Context, in string) (string, error) {
			rr := c11Rec(ctx)
			rr.mu.Lock()
			if rr.loops == nil {
				rr.loops = map[string]int{}
			}
			k := rr.loops[lpath]
			rr.loops[lpath] = k + 1
			rr.mu.Unlock()
			if k < times {
				return to, nil
			}
			return fwd, nil
		}, map[string]bool{to: true, fwd: true})
		if err := g.AddBranch(from, br); err != nil {
			return nil, err
		}
		// (the default step limit of a Pregel run is its node count + 10)
		b.opts = append(b.opts, compose.WithMaxRunSteps((len(spec.Nodes)+2)*(spec.LoopN+2)+20))
	}
	if !(loop && spec.LoopFrom == len(spec.Nodes)-1) {
		if err := g.AddEdge(last, compose.END); err != nil {
			return nil, err
		}
	}
	if spec.Mode == "dag" {
		b.opts = append(b.opts, compose.WithNodeTriggerMode(compose.AllPredecessor))
	}
	b.g = g
	b.comp = g.Compile
	return b, nil
}

type c11Store struct {
	mu sync.Mutex
	m  map[string][]byte
}

func (s *c11Store) Get(_ context.Context, id string) ([]byte, bool, error) {
	s.mu.Lock()
	defer s.mu.Unlock()
	v, ok := s.m[id]
	return v, ok, nil
}
func (s *c11Store) Set(_ context.Context, id string, b []byte) error {
	s.mu.Lock()
	defer s.mu.Unlock()
	s.m[id] = append([]byte{}, b...)
	return nil
}

func c11Snapshot(s *C11State, gen bool) c11StateObs {
	return c11StateObs{ID: s.ID, Gen: gen, Ctr: append([]int{}, s.Ctr...), Seq: s.Seq, Order: append([]int{}, s.Order...)}
}

func c11OneRun(c *c11Case, l *c11Layout, r compose.Runnable[string, string], ri int, start <-chan struct{}) (obs c11RunObs) {
	rr := &c11RunRec{nodes: map[string]*c11NodeObs{}}
	for _, f := range l.Nodes {
		rr.nodes[f.Path] = &c11NodeObs{}
	}
	ctx := context.WithValue(context.Background(), c11RunKey{}, rr)
	obs = c11RunObs{Class: "ok", Nodes: rr.nodes, GenIDs: []int{}, States: []c11StateObs{}}
	call := func(opts ...compose.Option) (string, error) {
		if c.Paradigm == "stream" {
			sr, err := r.Stream(ctx, "x", opts...)
			if err != nil {
				return "", err
			}
			return c11ReadAll(sr)
		}
		return r.Invoke(ctx, "x", opts...)
	}
	<-start
	var out string
	var err error
	finished := false
	panicked, pv := vh.Safely(func() {
		finished = vh.WithTimeout(60*time.Second, func() {
			var opts []compose.Option
			cpID := fmt.Sprintf("cp-%d", ri)
			if c.Interrupt != nil {
				opts = append(opts, compose.WithCheckPointID(cpID))
			}
			out, err = call(opts...)
			for tries := 0; err != nil && tries < 6; tries++ {
				info, ok := compose.ExtractInterruptInfo(err)
				if !ok {
					break
				}
				obs.Interrupts++
				if obs.Interrupts == 1 {
					obs.IntBefore = append([]string{}, info.BeforeNodes...)
					obs.IntAfter = append([]string{}, info.AfterNodes...)
					sort.Strings(obs.IntBefore)
					sort.Strings(obs.IntAfter)
					if s, ok := info.State.(*C11State); ok && s != nil {
						obs.IntStateID = s.ID
						rr.see(s)
					}
				}
				ropts := []compose.Option{compose.WithCheckPointID(cpID)}
				if obs.Interrupts == 1 && c.Interrupt != nil && c.Interrupt.Mod != nil {
					m := c.Interrupt.Mod
					ropts = append(ropts, compose.WithStateModifier(func(ctx context.Context, path compose.NodePath, state any) error {
						s, ok := state.(*C11State)
						if !ok {
							return fmt.Errorf("modifier: state is %T", state)
						}
						s.Ctr[m.C] += m.D
						return nil
					}))
				}
				out, err = call(ropts...)
			}
		})
	})
	switch {
	case panicked:
		obs.Class = "panic"
		obs.ErrText = fmt.Sprint(pv)
		return
	case !finished:
		// the run is still going on: its records must not be read
		return c11RunObs{Class: "hang", Nodes: map[string]*c11NodeObs{}, GenIDs: []int{}, States: []c11StateObs{}}
	case err != nil:
		obs.Class = "error"
		obs.ErrText = err.Error()
		if len(obs.ErrText) > 300 {
			obs.ErrText = obs.ErrText[:300]
		}
	}
	obs.Out = out
	rr.mu.Lock()
	isGen := map[*C11State]bool{}
	for _, p := range rr.genPtrs {
		isGen[p] = true
		obs.GenIDs = append(obs.GenIDs, p.ID)
		obs.States = append(obs.States, c11Snapshot(p, true))
	}
	for _, p := range rr.ptrs {
		if !isGen[p] {
			obs.States = append(obs.States, c11Snapshot(p, false))
		}
	}
	for _, v := range rr.genVals {
		so := v.sSnap(true)
		obs.GenIDs = append(obs.GenIDs, so.ID)
		obs.States = append(obs.States, so)
	}
	obs.Overlaps = int(atomic.LoadInt32(&rr.overlaps))
	rr.mu.Unlock()
	return
}

func c11RunCase(idx int, c *c11Case) *c11CaseObs {
	o := &c11CaseObs{Index: idx}
	if c.Kind == "misuse" {
		o.Misuse = c11Misuse(c.Misuse)
		return o
	}
	c11RegOnce.Do(func() { compose.RegisterSerializableType[C11State]("verif_c11_state") })
	if c.Kind == "late" {
		return c11LateRunCase(idx, c)
	}
	if c.Kind == "resume" || c.Kind == "eager" || c.Kind == "paths" {
		return c11ResumeRunCase(idx, c)
	}
	l := c11LayoutOf(&c.G)
	var r compose.Runnable[string, string]
	var err error
	if panicked, pv := vh.Safely(func() {
		var b *c11Built
		b, err = c11BuildAs(c.StateType, l, c.Ctrs)
		if err != nil {
			return
		}
		opts := b.opts
		if c.Interrupt != nil {
			opts = append(opts, compose.WithCheckPointStore(&c11Store{m: map[string][]byte{}}))
			if len(c.Interrupt.Before) > 0 {
				opts = append(opts, compose.WithInterruptBeforeNodes(c.Interrupt.Before))
			}
			if len(c.Interrupt.After) > 0 {
				opts = append(opts, compose.WithInterruptAfterNodes(c.Interrupt.After))
			}
		}
		r, err = b.comp(context.Background(), opts...)
	}); panicked {
		o.BuildErr = fmt.Sprint("panic: ", pv)
		return o
	}
	if err != nil {
		o.BuildErr = err.Error()
		return o
	}
	n := c.Runs
	if n < 1 {
		n = 1
	}
	o.Runs = make([]c11RunObs, n)
	start := make(chan struct{})
	var wg sync.WaitGroup
	for i := 0; i < n; i++ {
		wg.Add(1)
		go func(i int) {
			defer wg.Done()
			o.Runs[i] = c11OneRun(c, l, r, i, start)
		}(i)
	}
	close(start)
	wg.Wait()
	return o
}

// misuse of the state API must come back as an error (at AddNode, Compile or from the run),
// never as a panic or as silent acceptance
func c11Misuse(kind string) (class string) {
	defer func() {
		if r := recover(); r != nil {
			class = "panic"
		}
	}()
	ctx := context.Background()
	pass := compose.InvokableLambda(func(ctx context.Context, in string) (string, error) { return in, nil })
	gen := compose.WithGenLocalState(func(ctx context.Context) *C11State { return &C11State{Ctr: []int{0}} })
	finish := func(g *compose.Graph[string, string], addErr error) string {
		if addErr != nil {
			return "error"
		}
		if err := g.AddEdge(compose.START, "a"); err != nil {
			return "error"
		}
		if err := g.AddEdge("a", compose.END); err != nil {
			return "error"
		}
		r, err := g.Compile(ctx)
		if err != nil {
			return "error"
		}
		var rerr error
		if !vh.WithTimeout(20*time.Second, func() { _, rerr = r.Invoke(ctx, "x") }) {
			return "hang"
		}
		if rerr != nil {
			return "error"
		}
		return "accepted"
	}
	switch kind {
	case "handler-on-stateless-graph":
		g := compose.NewGraph[string, string]()
		err := g.AddLambdaNode("a", pass, compose.WithStatePreHandler(func(ctx context.Context, in string, s *C11State) (string, error) { return in, nil }))
		return finish(g, err)
	case "process-state-without-state":
		g := compose.NewGraph[string, string]()
		err := g.AddLambdaNode("a", compose.InvokableLambda(func(ctx context.Context, in string) (string, error) {
			return in, compose.ProcessState[*C11State](ctx, func(context.Context, *C11State) error { return nil })
		}))
		return finish(g, err)
	case "process-state-wrong-type":
		g := compose.NewGraph[string, string](gen)
		err := g.AddLambdaNode("a", compose.InvokableLambda(func(ctx context.Context, in string) (string, error) {
			return in, compose.ProcessState[*int](ctx, func(context.Context, *int) error { return nil })
		}))
		return finish(g, err)
	case "handler-wrong-state-type":
		g := compose.NewGraph[string, string](gen)
		err := g.AddLambdaNode("a", pass, compose.WithStatePostHandler(func(ctx context.Context, out string, s *int) (string, error) { return out, nil }))
		return finish(g, err)
	}
	return "unknown"
}

func c11ChildMain(in, out string) error {
	b, err := os.ReadFile(in)
	if err != nil {
		return err
	}
	var cases []*c11Case
	if err := json.Unmarshal(b, &cases); err != nil {
		return err
	}
	f, err := os.Create(out)
	if err != nil {
		return err
	}
	defer f.Close()
	for i, c := range cases {
		fmt.Fprintf(os.Stderr, "C11CASE %d\n", i)
		o := c11RunCase(i, c)
		line, err := json.Marshal(o)
		if err != nil {
			return err
		}
		f.Write(append(line, '\n'))
		f.Sync()
	}
	fmt.Fprintf(os.Stderr, "C11CASE %d\n", len(cases))
	return nil
}
