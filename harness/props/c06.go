//go:build verif && (vh_all || vh_c06)

package props

import (
	"encoding/json"
	"fmt"

	"github.com/cloudwego/eino/verifharness/gcase5"
	"github.com/cloudwego/eino/verifharness/vh"
)

func init() { vh.Register("C06", runC06) }

// c06Extra: additional case families of this property (other files append to it in their init).
var c06Extra []vh.PropFunc

// c06ReplayExtra: replay dispatch for the extra families, by the "kind" field of the case.
var c06ReplayExtra = map[string]func(ctx *vh.Ctx, raw json.RawMessage) error{}

// c06Gen: the C05 case language with the weight on the positions of interrupt points: direct
// successors of START, branch targets, nodes inside nested graphs; some runs without a
// checkpoint id (nothing may be stored then).
func c06Gen(ctx *vh.Ctx, i int) *gcase5.Case {
	r := ctx.Rng
	o := gcase5.GenOpts{Mode: "mixed", MaxNodes: 6, Depth: 2, Cycles: true, FailPct: 3, BranchPct: 35,
		StatePct: 50, HandlerPct: 20, RerunPct: 10, IntPct: 25, FirstBias: i%2 == 0}
	if ctx.Thorough() {
		o.MaxNodes = 7 // (the shared engine model's skip-propagation fuel covers chains of up to 6 skipped nodes)
	}
	switch i % 4 {
	case 1:
		o.NestedPct = 45
		o.MaxNodes = 4
	case 3:
		o.IntPct = 50
	}
	c := &gcase5.Case{G: gcase5.Gen(r, o), Input: fmt.Sprintf("x%d", r.Intn(5)), MaxCalls: 40}
	if r.Chance(12) {
		c.NoID = true
	}
	return c
}

func runC06(ctx *vh.Ctx) error {
	ctx.Res.Rule = "random graphs (pregel incl. cycles / dag, branches, fan-in, nested graphs depth<=2) x interrupt-before/after subsets at every level with extra weight on direct successors of START and branch targets x rerun nodes x state; with and without a checkpoint id; checked directly on the implementation (no interrupt-before node is submitted except in the first step of a resumed run whose previous interrupt listed it; no step follows a step containing an interrupt-after node; store written iff an interrupt is returned and an id was given; interrupt errors extractable) and against the Lean model per call (outcome, canonical InterruptInfo incl. nested, store, supersteps); non-trivial = at least one interrupt happened and >=2 nodes; distinct by canonical case"
	// the other property of the pair (C05 <-> C06) has its own source fact and repair: run the model with
	// the variant the implementation under test has, so that this check is independent of that repair
	other := gcase5.ProbeFwdStale()
	ctx.Res.Note(fmt.Sprintf("CfgFwdStale=%v (probed on the implementation)", other))
	if ctx.Replay != nil {
		var probe struct {
			Kind string `json:"kind"`
		}
		if json.Unmarshal(ctx.Replay, &probe) == nil && probe.Kind != "" {
			if f, ok := c06ReplayExtra[probe.Kind]; ok {
				return f(ctx, ctx.Replay)
			}
		}
		var c gcase5.Case
		if err := json.Unmarshal(ctx.Replay, &c); err != nil {
			return err
		}
		c.CfgFwdStale = &other
		return gcase5.Evaluate(ctx, "C06", &c, false)
	}
	n := ctx.N(6000, 60000)
	if !c05FamilyOn("main") {
		n = 0
	}
	for i := 0; i < n && ctx.TimeLeft(); i++ {
		c := c06Gen(ctx, i)
		c.CfgFwdStale = &other
		if err := gcase5.Evaluate(ctx, "C06", c, true); err != nil {
			return err
		}
	}
	for _, f := range c06Extra {
		if err := f(ctx); err != nil {
			return err
		}
	}
	return nil
}
