//go:build verif && (vh_all || vh_c04)

package props

// C04, family "erritem": the ERROR VALUE of a failing stream producer.
//
// A producer sends some chunks, then an error item, then possibly more chunks, and closes; the error
// is a plain leaf error, io.ErrUnexpectedEOF (bare / wrapped), a wrapped context.Canceled,
// context.DeadlineExceeded, or an error whose chain reaches io.EOF without being io.EOF (%w,
// *url.Error{Err: io.EOF} as net/http returns for a dropped connection, a double wrap, errors.Join,
// an Is method) — or io.EOF itself, which IS the end of the stream. Whatever drains the stream — the
// framework's concatenation behind the derived paradigms, a successor node, a pass-through node, a
// fan-in at END, the caller — must report every error that is not identical to io.EOF as a failure,
// in all four paradigms (Model/C04ErrItem.lean).

import (
	"context"
	"encoding/json"
	"errors"
	"fmt"
	"io"
	"net/url"
	"sort"
	"strings"

	"github.com/cloudwego/eino/compose"
	"github.com/cloudwego/eino/schema"
	"github.com/cloudwego/eino/verifharness/vh"
)

type c04EiCase struct {
	Kind     string   `json:"kind"`     // "erritem"
	Shape    string   `json:"shape"`    // alone | then | pass | fanin
	Producer string   `json:"producer"` // native paradigms of the producer
	Consumer string   `json:"consumer"` // native paradigms of the successor (shape then)
	Chunks   []string `json:"chunks"`
	At       *int     `json:"at,omitempty"` // the error item is sent in front of chunk At (nil: healthy stream)
	Err      string   `json:"err"`
}

type c04EiLeaf struct{ id int }

func (e *c04EiLeaf) Error() string { return fmt.Sprintf("producer failed (%d)", e.id) }

// an error that answers errors.Is(err, io.EOF) through an Is method
type c04EiIsEOF struct{}

func (c04EiIsEOF) Error() string        { return "peer closed the connection" }
func (c04EiIsEOF) Is(target error) bool { return target == io.EOF }

var c04EiShapes = []string{"leaf", "wrap-eof", "url-eof", "deep-eof", "join-eof", "is-method-eof",
	"unexpected-eof", "wrap-unexpected-eof", "wrap-canceled", "deadline", "is-eof"}

func c04EiError(name string) error {
	switch name {
	case "wrap-eof":
		return fmt.Errorf("recv: %w", io.EOF)
	case "url-eof":
		return &url.Error{Op: "Post", URL: "http://model.example/v1/chat", Err: io.EOF}
	case "deep-eof":
		return fmt.Errorf("chat completion: %w", &url.Error{Op: "Post", URL: "http://model.example/v1/chat", Err: io.EOF})
	case "join-eof":
		return errors.Join(&c04EiLeaf{id: 3}, io.EOF)
	case "is-method-eof":
		return c04EiIsEOF{}
	case "unexpected-eof":
		return io.ErrUnexpectedEOF
	case "wrap-unexpected-eof":
		return &url.Error{Op: "Post", URL: "http://model.example/v1/chat", Err: io.ErrUnexpectedEOF}
	case "wrap-canceled":
		return fmt.Errorf("call: %w", context.Canceled)
	case "deadline":
		return context.DeadlineExceeded
	case "is-eof":
		return io.EOF
	}
	return &c04EiLeaf{id: 7}
}

// c04EiRel: how the shape relates to io.EOF (the harness's own statement, checked against errors.Is below).
func c04EiRel(name string) string {
	err := c04EiError(name)
	switch {
	case err == io.EOF:
		return "identical"
	case errors.Is(err, io.EOF):
		return "reaches-eof"
	}
	return "unrelated"
}

// c04EiProducer: natively streaming forms send the chunks and the error item through a pipe that is
// filled and closed before the call returns; the other forms fail at call time with the same error.
func c04EiProducer(c *c04EiCase) *compose.Lambda {
	whole := func() (string, error) {
		if c.At != nil {
			return "", c04EiError(c.Err)
		}
		return strings.Join(c.Chunks, ""), nil
	}
	stream := func() *schema.StreamReader[string] {
		sr, sw := schema.Pipe[string](len(c.Chunks) + 2)
		for i, ch := range c.Chunks {
			if c.At != nil && *c.At == i {
				sw.Send("", c04EiError(c.Err))
			}
			sw.Send(ch, nil)
		}
		if c.At != nil && *c.At >= len(c.Chunks) {
			sw.Send("", c04EiError(c.Err))
		}
		sw.Close()
		return sr
	}
	native := c.Producer
	if native == "" {
		native = "s"
	}
	var fi compose.Invoke[string, string, c04FmOpt]
	var fs compose.Stream[string, string, c04FmOpt]
	var fc compose.Collect[string, string, c04FmOpt]
	var ft compose.Transform[string, string, c04FmOpt]
	if strings.Contains(native, "i") {
		fi = func(ctx context.Context, in string, _ ...c04FmOpt) (string, error) { return whole() }
	}
	if strings.Contains(native, "s") {
		fs = func(ctx context.Context, in string, _ ...c04FmOpt) (*schema.StreamReader[string], error) {
			return stream(), nil
		}
	}
	if strings.Contains(native, "c") {
		fc = func(ctx context.Context, in *schema.StreamReader[string], _ ...c04FmOpt) (string, error) {
			if _, err := c04FmReadAll(in); err != nil {
				return "", err
			}
			return whole()
		}
	}
	if strings.Contains(native, "t") {
		ft = func(ctx context.Context, in *schema.StreamReader[string], _ ...c04FmOpt) (*schema.StreamReader[string], error) {
			if _, err := c04FmReadAll(in); err != nil {
				return nil, err
			}
			return stream(), nil
		}
	}
	l, err := compose.AnyLambda(fi, fs, fc, ft)
	if err != nil {
		panic(err)
	}
	return l
}

type c04EiOut struct {
	Class string `json:"class"` // ok | err | panic-escaped | hang
	Val   string `json:"val,omitempty"`
	Info  string `json:"info,omitempty"`
}

func c04EiRender(m map[string]any) string {
	ks := make([]string, 0, len(m))
	for k := range m {
		ks = append(ks, k)
	}
	sort.Strings(ks)
	var sb strings.Builder
	for _, k := range ks {
		fmt.Fprintf(&sb, "%s=%v;", k, m[k])
	}
	return sb.String()
}

// c04EiRunG calls the compiled graph through the four paradigms; join concatenates output chunks.
func c04EiRunG[O any](r compose.Runnable[string, O], join func([]O) string) map[string]c04EiOut {
	out := map[string]c04EiOut{}
	ctx := context.Background()
	for _, p := range []string{"invoke", "stream", "collect", "transform"} {
		var val string
		var rerr error
		status, pv := c04KeyGuard(func() {
			var v O
			var sr *schema.StreamReader[O]
			switch p {
			case "invoke":
				v, rerr = r.Invoke(ctx, "x")
			case "collect":
				v, rerr = r.Collect(ctx, schema.StreamReaderFromArray([]string{"x"}))
			case "stream":
				sr, rerr = r.Stream(ctx, "x")
			default:
				sr, rerr = r.Transform(ctx, schema.StreamReaderFromArray([]string{"x"}))
			}
			if rerr != nil {
				return
			}
			if sr != nil {
				var cs []O
				if cs, rerr = c04FmReadAll(sr); rerr == nil {
					val = join(cs)
				}
				return
			}
			val = join([]O{v})
		})
		switch {
		case status == "hang":
			out[p] = c04EiOut{Class: "hang"}
		case status == "panic":
			out[p] = c04EiOut{Class: "panic-escaped", Info: fmt.Sprint(pv)}
		case rerr != nil:
			info := rerr.Error()
			if len(info) > 240 {
				info = info[:240]
			}
			out[p] = c04EiOut{Class: "err", Info: info}
		default:
			out[p] = c04EiOut{Class: "ok", Val: val}
		}
	}
	return out
}

func c04EiRun(c *c04EiCase) (out map[string]c04EiOut, err error) {
	if panicked, pv := vh.Safely(func() {
		ctx := context.Background()
		joinS := func(cs []string) string { return strings.Join(cs, "") }
		if c.Shape == "fanin" {
			g := compose.NewGraph[string, map[string]any]()
			if err = g.AddLambdaNode("p", c04EiProducer(c), compose.WithOutputKey("kp")); err != nil {
				return
			}
			q := c04FmLambda[string, string]("i", func([]string) (string, error) { return "healthy", nil }, func(s string) []string { return []string{s} })
			if err = g.AddLambdaNode("q", q, compose.WithOutputKey("kq")); err != nil {
				return
			}
			for _, e := range [][2]string{{compose.START, "p"}, {compose.START, "q"}, {"p", compose.END}, {"q", compose.END}} {
				if err = g.AddEdge(e[0], e[1]); err != nil {
					return
				}
			}
			var r compose.Runnable[string, map[string]any]
			if r, err = g.Compile(ctx); err != nil {
				return
			}
			out = c04EiRunG(r, func(cs []map[string]any) string {
				acc := map[string]any{}
				for _, m := range cs {
					for k, v := range m {
						if old, ok := acc[k]; ok {
							acc[k] = fmt.Sprint(old) + fmt.Sprint(v)
						} else {
							acc[k] = v
						}
					}
				}
				return c04EiRender(acc)
			})
			return
		}
		g := compose.NewGraph[string, string]()
		if err = g.AddLambdaNode("p", c04EiProducer(c)); err != nil {
			return
		}
		last := "p"
		switch c.Shape {
		case "then":
			cons := c04FmLambda[string, string](c.Consumer, func(cs []string) (string, error) { return strings.Join(cs, "") + "|c", nil },
				func(s string) []string { return []string{s[:len(s)/2], s[len(s)/2:]} })
			if err = g.AddLambdaNode("c", cons); err != nil {
				return
			}
			last = "c"
		case "pass":
			if err = g.AddPassthroughNode("c"); err != nil {
				return
			}
			last = "c"
		}
		edges := [][2]string{{compose.START, "p"}}
		if last != "p" {
			edges = append(edges, [2]string{"p", last})
		}
		edges = append(edges, [2]string{last, compose.END})
		for _, e := range edges {
			if err = g.AddEdge(e[0], e[1]); err != nil {
				return
			}
		}
		var r compose.Runnable[string, string]
		if r, err = g.Compile(ctx); err != nil {
			return
		}
		out = c04EiRunG(r, joinS)
	}); panicked {
		return nil, fmt.Errorf("build panicked: %v", pv)
	}
	return
}

func c04EiOne(ctx *vh.Ctx, c *c04EiCase) error {
	ctx.Progress.Mark(c)
	impl, err := c04EiRun(c)
	if err != nil {
		ctx.Res.Dist("erritem:malformed:" + strings.SplitN(err.Error(), ":", 2)[0])
		ctx.Res.Count("erritem:malformed", false)
		return nil
	}
	raw, err := ctx.Oracle.Ask("C04", c)
	if err != nil {
		return err
	}
	var model map[string]struct {
		Ok  *string `json:"ok"`
		Err *string `json:"err"`
	}
	if err := json.Unmarshal(raw, &model); err != nil {
		return err
	}
	rel := "healthy"
	if c.At != nil {
		rel = c04EiRel(c.Err)
	}
	ctx.Res.Count("erritem:"+vh.Canon(c), c.At != nil)
	ctx.Res.Dist("erritem:shape=" + c.Shape)
	ctx.Res.Dist("erritem:error=" + rel)
	if c.At != nil {
		ctx.Res.Dist("erritem:err=" + c.Err)
		ctx.Res.Dist(fmt.Sprintf("erritem:at=%d/%d", *c.At, len(c.Chunks)))
	}
	if ctx.Rng.Chance(2) {
		ctx.Res.Sample(c)
	}
	tag := ":" + rel + ":" + c.Shape
	for _, p := range []string{"invoke", "stream", "collect", "transform"} {
		o := impl[p]
		ctx.Res.Dist("erritem:" + p + "=" + o.Class)
		if o.Class == "panic-escaped" || o.Class == "hang" {
			ctx.Res.Disagree(vh.Disagreement{Signature: "C04:erritem:" + p + ":" + o.Class + tag,
				What: fmt.Sprintf("%s: %s (%s)", p, o.Class, o.Info), Case: c, Model: model, Impl: impl})
			continue
		}
		m := model[p]
		mc, mv := "err", ""
		if m.Ok != nil {
			mc, mv = "ok", *m.Ok
		}
		switch {
		case mc != o.Class:
			ctx.Res.Disagree(vh.Disagreement{Signature: "C04:erritem:" + p + ":model=" + mc + ",impl=" + o.Class + tag,
				What: fmt.Sprintf("%s: an error item (%s, %s io.EOF) after %v of %d chunks: the model says %s %q, the implementation %s %q %s",
					p, c.Err, rel, c.At, len(c.Chunks), mc, mv, o.Class, o.Val, o.Info), Case: c, Model: model, Impl: impl})
		case mc == "ok" && mv != o.Val:
			ctx.Res.Disagree(vh.Disagreement{Signature: "C04:erritem:" + p + ":value-differs" + tag,
				What: fmt.Sprintf("%s: %q, the model says %q", p, o.Val, mv), Case: c, Model: model, Impl: impl})
		}
	}
	inv := impl["invoke"]
	for _, p := range []string{"stream", "collect", "transform"} {
		o := impl[p]
		if (inv.Class != "ok" && inv.Class != "err") || (o.Class != "ok" && o.Class != "err") {
			continue
		}
		if inv.Class != o.Class || (inv.Class == "ok" && inv.Val != o.Val) {
			ctx.Res.Disagree(vh.Disagreement{Signature: "C04:erritem:paradigms:invoke=" + inv.Class + "," + p + "=" + o.Class + tag,
				What: fmt.Sprintf("Invoke and %s disagree on a stream with an error item (%s): %q %s vs %q %s", p, c.Err, inv.Val, inv.Info, o.Val, o.Info),
				Case: c, Model: model, Impl: impl})
		}
	}
	return nil
}

func c04EiGen(r *vh.Rand) *c04EiCase {
	c := &c04EiCase{Kind: "erritem", Shape: []string{"alone", "then", "then", "pass", "fanin"}[r.Intn(5)]}
	n := r.Range(1, 4)
	for i := 0; i < n; i++ {
		c.Chunks = append(c.Chunks, fmt.Sprintf("%c%d", 'a'+rune(i), r.Intn(9)))
	}
	c.Err = c04EiShapes[r.Intn(len(c04EiShapes))]
	if r.Chance(85) {
		at := r.Intn(n + 1)
		c.At = &at
	}
	c.Producer = c04FmNative(r, 85)
	if c.Shape == "then" {
		c.Consumer = c04FmNative(r, 0)
	}
	if c.Err == "is-eof" {
		// io.EOF itself is the end of the stream for every reader; a non-streaming form returning it at
		// call time, or a merge of several streams, would make the producer inconsistent with itself
		c.Producer = []string{"s", "t", "st"}[r.Intn(3)]
		if c.Shape == "fanin" {
			c.Shape = "alone"
		}
		// ... and in front of the first chunk it makes the empty stream, which natively streaming
		// readers accept and concatenation refuses (not this family's subject)
		if c.At != nil && *c.At == 0 {
			*c.At = 1
		}
	}
	return c
}

func c04EiFixed() []*c04EiCase {
	var out []*c04EiCase
	two, zero := 2, 0
	for _, e := range c04EiShapes {
		out = append(out, &c04EiCase{Kind: "erritem", Shape: "alone", Producer: "s", Chunks: []string{"a1", "b2", "c3"}, At: &two, Err: e})
		if e != "is-eof" {
			out = append(out, &c04EiCase{Kind: "erritem", Shape: "then", Producer: "t", Consumer: "i", Chunks: []string{"a1", "b2"}, At: &zero, Err: e})
		}
	}
	for _, shape := range []string{"alone", "then", "pass", "fanin"} {
		out = append(out, &c04EiCase{Kind: "erritem", Shape: shape, Producer: "s", Consumer: "t", Chunks: []string{"a1", "b2", "c3"}, At: &two, Err: "url-eof"},
			&c04EiCase{Kind: "erritem", Shape: shape, Producer: "st", Consumer: "c", Chunks: []string{"a1", "b2"}, Err: "leaf"})
	}
	return out
}

func c04EiFamily(ctx *vh.Ctx) error {
	for _, c := range c04EiFixed() {
		if err := c04EiOne(ctx, c); err != nil {
			return err
		}
	}
	n := ctx.N(600, 6000)
	for i := 0; i < n && ctx.TimeLeft(); i++ {
		if err := c04EiOne(ctx, c04EiGen(ctx.Rng)); err != nil {
			return err
		}
	}
	return nil
}
