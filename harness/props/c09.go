//go:build verif && (vh_all || vh_c09)

package props

// C09 — a compiled runnable is safe for concurrent use; runs are isolated.
//
// Parent side.  Generates cases (one compiled object + 2..16 concurrent callers mixing the
// four paradigms with per-call inputs, options and callback handlers), asks the Lean model
// for the result of every call under a seeded interleaving (and alone), runs each case in a
// CHILD process (this binary, built with -race, re-executed with VERIF_C09_CHILD=1 and
// GORACE="halt_on_error=1 exitcode=66"), and compares:
//   impl concurrent  ==  impl alone  ==  model alone  ==  model interleaved
// A race report (exit code 66 / "WARNING: DATA RACE") is a disagreement whose Impl holds the
// report and whose signature names the racing functions (first eino frame of both stacks).
// The two call-option families (kinds optshare, toollist: shared Option values with spare
// capacity, per-run tool lists) are in c09_opts.go.

import (
	"bytes"
	"encoding/json"
	"fmt"
	"os"
	"os/exec"
	"regexp"
	"sort"
	"strings"
	"time"

	"github.com/cloudwego/eino/verifharness/vh"
)

func init() { vh.Register("C09", runC09) }

// ---- generator ----

var c09Paradigms = []string{"invoke", "stream", "collect", "transform"}

func c09GenLayers(r *vh.Rand, kind string) []c09Layer {
	n := r.Range(2, 5)
	tags := "abcdefghijklmnopqrstuvwxyz"
	ti := 0
	var layers []c09Layer
	for k := 0; k < n; k++ {
		width := 1
		switch r.Intn(10) {
		case 0, 1, 2, 3:
			width = r.Range(2, 3)
		}
		l := c09Layer{}
		if width > 1 && kind != "workflow" && r.Chance(35) {
			l.Branch = true
		}
		for i := 0; i < width; i++ {
			nd := c09Node{Tag: string(tags[ti%26])}
			ti++
			nd.Inc = r.Chance(45)
			nd.UseOpt = r.Chance(35)
			switch r.Intn(6) {
			case 0:
				nd.Kind = "t"
			case 1:
				nd.Kind = "s"
			}
			if nd.Inc && nd.Kind == "" {
				switch r.Intn(4) {
				case 0:
					nd.Via = "pre"
				case 1:
					nd.Via = "post"
				}
			}
			l.Nodes = append(l.Nodes, nd)
		}
		if l.Branch && kind == "chain" {
			for i := range l.Nodes { // Chain generates the keys of branch nodes itself: nothing to designate an option to
				l.Nodes[i].UseOpt = false
			}
		}
		if len(l.Nodes) > 1 && !l.Branch {
			for i := range l.Nodes { // a node with an output key yields a map: a string post-handler does not type-check there
				if l.Nodes[i].Via == "post" {
					l.Nodes[i].Via = ""
				}
			}
		}
		layers = append(layers, l)
	}
	// the tags inside a fan-out layer are already in increasing order (the join sorts its keys)
	return layers
}

func c09GenCase(r *vh.Rand, kind string, thorough bool) c09Case {
	c := c09Case{Kind: kind, Seed: r.U64() % 1000000}
	ng := []int{2, 3, 4, 6, 8, 12, 16}[r.Intn(7)]
	c.Reps = r.Range(1, 3)
	if kind == "wfstraggler" {
		c.Par = r.Range(2, 3)
		c.Reps = r.Range(3, 6)
		if ng > 8 {
			ng = 8
		}
		for i := 0; i < ng; i++ {
			p := "invoke"
			if r.Chance(30) {
				p = "stream"
			}
			c.Calls = append(c.Calls, c09Call{In: "g", Paradigm: p})
		}
		return c
	}
	switch kind {
	case "react", "host":
		routes := []string{"ret", "norm", "none"}
		if kind == "host" {
			routes = []string{"spec1", "spec2", "none"}
		}
		if kind == "react" {
			c.Reps = r.Range(6, 10)
			if ng < 4 {
				ng = 4
			}
		}
		for i := 0; i < ng; i++ {
			route := routes[r.Intn(len(routes))]
			if kind == "react" && i < 2 {
				route = "ret" // at least two callers go through the return-directly path
			}
			p := "generate"
			if r.Chance(40) {
				p = "stream"
			}
			c.Calls = append(c.Calls, c09Call{In: fmt.Sprintf("c%dq%d:%s", i, r.Intn(100), route), Paradigm: p, CB: r.Chance(40)})
		}
		return c
	}
	c.Layers = c09GenLayers(r, kind)
	if kind == "nested" {
		c.NestFrom = r.Intn(len(c.Layers))
		c.NestTo = r.Range(c.NestFrom+1, len(c.Layers))
		for k := c.NestFrom; k < c.NestTo; k++ {
			for i := range c.Layers[k].Nodes {
				c.Layers[k].Nodes[i].Inc = false // the inner graph has no state of its own
				c.Layers[k].Nodes[i].Via = ""
			}
		}
	}
	if kind == "checkpoint" {
		c.IntLayer = r.Range(1, len(c.Layers)-1) // never the first node after START (that is C06's finding)
		for k := range c.Layers {                // values crossing a checkpoint must be plain strings
			for i := range c.Layers[k].Nodes {
				if c.Layers[k].Nodes[i].Kind != "" {
					c.Layers[k].Nodes[i].Kind = ""
				}
			}
		}
	}
	c.SharedOpt = r.Chance(25)
	c.ParentCB = r.Chance(25)
	if c.ParentCB {
		c.ParentCap = r.Range(1, 3) // 3 handlers appended one by one: len 3, cap 4 (spare capacity in the shared parent slice)
	}
	sharedOptVal := fmt.Sprintf("<o%d>", r.Intn(10))
	for i := 0; i < ng; i++ {
		call := c09Call{In: fmt.Sprintf("c%d:%s", i, strings.Repeat("x", r.Intn(4))), Paradigm: c09Paradigms[r.Intn(4)], Chunks: r.Range(1, 3), CB: r.Chance(50)}
		if c.SharedOpt {
			call.Opt = sharedOptVal
		} else if r.Chance(70) {
			call.Opt = fmt.Sprintf("<o%d>", i)
		}
		if c.ParentCap >= 3 && i < 4 {
			call.CB = true // several callers append their own handler to the inherited list
		}
		if kind == "checkpoint" && (call.Paradigm == "collect" || call.Paradigm == "transform") {
			call.Paradigm = []string{"invoke", "stream"}[r.Intn(2)]
		}
		c.Calls = append(c.Calls, call)
	}
	// a seeded interleaving for the model: every call gets enough steps to finish, plus idle ones
	for i := range c.Calls {
		for k := 0; k < len(c.Layers)+r.Intn(2); k++ {
			c.Sched = append(c.Sched, i)
		}
	}
	p := r.Perm(len(c.Sched))
	s2 := make([]int, len(c.Sched))
	for i, j := range p {
		s2[i] = c.Sched[j]
	}
	c.Sched = s2
	return c
}

func c09HasOracle(kind string) bool {
	return kind != "react" && kind != "host" && kind != "wfstraggler" && kind != "errpath" && !c09IsOptKind(kind) // the option families ask the oracle themselves (c09_opts.go)
}

// ---- the model's view of a case ----

type c09OracleAns struct {
	Interleaved []string `json:"interleaved"`
	Alone       []string `json:"alone"`
	Complete    bool     `json:"complete"`
}

func c09OracleCase(c *c09Case) any {
	type on struct {
		Tag    string `json:"tag"`
		Inc    bool   `json:"inc"`
		UseOpt bool   `json:"useOpt"`
	}
	type ol struct {
		Branch bool `json:"branch"`
		Nodes  []on `json:"nodes"`
	}
	type oc struct {
		In  string `json:"in"`
		Opt string `json:"opt"`
	}
	var ls []ol
	for _, l := range c.Layers {
		x := ol{Branch: l.Branch, Nodes: []on{}}
		for _, n := range l.Nodes {
			x.Nodes = append(x.Nodes, on{n.Tag, n.Inc, n.UseOpt})
		}
		ls = append(ls, x)
	}
	var cs []oc
	for _, k := range c.Calls {
		cs = append(cs, oc{k.In, k.Opt})
	}
	sched := c.Sched
	if sched == nil {
		sched = []int{}
	}
	return map[string]any{"layers": ls, "calls": cs, "sched": sched}
}

// expected results of the agents (closed form of the scripted models; no Lean model)
func c09AgentExpected(kind string, call c09Call) string {
	if kind == "wfstraggler" || kind == "wfstraggler3" {
		aux := ""
		if kind == "wfstraggler3" {
			aux = "aux=aux(good-ID),"
		}
		return "bad:own;good:{" + aux + "check=check(good-ID),work=work(good-ID)}"
	}
	route := call.In[strings.LastIndex(call.In, ":")+1:]
	if kind == "react" {
		switch route {
		case "ret":
			return "tool|ret(" + call.In + ")|call-" + call.In
		case "norm":
			return "assistant|final(norm(" + call.In + "))|"
		}
		return "assistant|react-direct(" + call.In + ")|"
	}
	switch route {
	case "spec1":
		return "assistant|spec1-direct(" + call.In + ")|"
	case "spec2":
		return "assistant|spec2(" + call.In + ")|"
	}
	return "assistant|host-direct(" + call.In + ")|"
}

// ---- child process ----

type c09ChildRes struct {
	Out      *c09ChildOut
	ExitCode int
	Stderr   string
	TimedOut bool
	Err      string
}

func c09RunChild(c *c09Case, timeout time.Duration) c09ChildRes {
	return c09RunChildEnv(c, timeout, "halt_on_error=1 exitcode=66 atexit_sleep_ms=50")
}

func c09RunChildEnv(c *c09Case, timeout time.Duration, gorace string) c09ChildRes {
	exe, err := os.Executable()
	if err != nil {
		return c09ChildRes{Err: err.Error(), ExitCode: -1}
	}
	in, _ := json.Marshal(c)
	cmd := exec.Command(exe)
	cmd.Env = append(os.Environ(), "VERIF_C09_CHILD=1", "GORACE="+gorace)
	cmd.Stdin = bytes.NewReader(in)
	var so, se bytes.Buffer
	cmd.Stdout, cmd.Stderr = &so, &se
	if err := cmd.Start(); err != nil {
		return c09ChildRes{Err: err.Error(), ExitCode: -1}
	}
	done := make(chan error, 1)
	go func() { done <- cmd.Wait() }()
	res := c09ChildRes{}
	select {
	case err = <-done:
	case <-time.After(timeout):
		cmd.Process.Kill()
		<-done
		res.TimedOut = true
	}
	res.Stderr = se.String()
	if len(res.Stderr) > 12000 {
		res.Stderr = res.Stderr[:12000]
	}
	if cmd.ProcessState != nil {
		res.ExitCode = cmd.ProcessState.ExitCode()
	}
	if err != nil && res.ExitCode == 0 {
		res.ExitCode = -1
		res.Err = err.Error()
	}
	var out c09ChildOut
	if json.Unmarshal(bytes.TrimSpace(so.Bytes()), &out) == nil && (out.Alone != nil || out.BuildErr != "") {
		res.Out = &out
	}
	return res
}

// ---- race report → stable signature ----

var c09FrameRe = regexp.MustCompile(`^\s+([^\s(][^\s]*)\(`)

// c09RaceFuncs returns, for each of the two accesses of the first race report, the first
// frame inside eino (outside the harness), or the top frame when there is none; `writers`
// is the de-duplicated subset belonging to the WRITE accesses (at least one access of a race
// is a write).  The signature is built from the writers only: which reader happens to be
// caught against a racy write varies from run to run, the writer identifies the defect.
func c09RaceFuncs(report string) (all []string, writers []string) {
	i := strings.Index(report, "WARNING: DATA RACE")
	if i < 0 {
		return nil, nil
	}
	lines := strings.Split(report[i:], "\n")
	var stacks [][]string
	var isWrite []bool
	var cur []string
	inAccess := false
	for _, ln := range lines[1:] {
		t := strings.TrimSpace(ln)
		if strings.HasPrefix(t, "Goroutine ") || strings.HasPrefix(t, "====") {
			if inAccess {
				stacks = append(stacks, cur)
			}
			break
		}
		if strings.HasPrefix(t, "Read at ") || strings.HasPrefix(t, "Write at ") || strings.HasPrefix(t, "Previous read at ") ||
			strings.HasPrefix(t, "Previous write at ") || strings.HasPrefix(t, "Atomic ") || strings.HasPrefix(t, "Previous atomic ") {
			if inAccess {
				stacks = append(stacks, cur)
			}
			cur, inAccess = nil, true
			isWrite = append(isWrite, strings.Contains(strings.ToLower(t), "write"))
			continue
		}
		if !inAccess {
			continue
		}
		if m := c09FrameRe.FindStringSubmatch(ln); m != nil && !strings.HasPrefix(t, "/") {
			cur = append(cur, m[1])
		}
	}
	seenW := map[string]bool{}
	for si, st := range stacks {
		pick := ""
		for _, f := range st {
			if strings.Contains(f, "github.com/cloudwego/eino/") && !strings.Contains(f, "/verifharness/") {
				pick = f
				break
			}
		}
		if pick == "" && len(st) > 0 {
			pick = st[0]
		}
		pick = strings.TrimPrefix(pick, "github.com/cloudwego/eino/")
		// drop generic instantiation noise  f[...]
		if j := strings.Index(pick, "["); j > 0 {
			if k := strings.LastIndex(pick, "]"); k > j {
				pick = pick[:j] + pick[k+1:]
			}
		}
		all = append(all, pick)
		if si < len(isWrite) && isWrite[si] && !seenW[pick] {
			seenW[pick] = true
			writers = append(writers, pick)
		}
	}
	sort.Strings(all)
	sort.Strings(writers)
	return all, writers
}

// ---- one case: run, compare, account ----

func c09Shape(c *c09Case) string {
	var sb strings.Builder
	sb.WriteString(c.Kind)
	for _, l := range c.Layers {
		if l.Branch {
			sb.WriteString("|b")
		} else {
			sb.WriteString("|p")
		}
		for _, n := range l.Nodes {
			sb.WriteString(n.Kind)
			if n.Inc {
				sb.WriteString("+" + n.Via)
			}
			if n.UseOpt {
				sb.WriteString("o")
			}
			sb.WriteString(",")
		}
	}
	return sb.String()
}

func c09ObsEq(a, b c09Obs) bool {
	return a.Out == b.Out && a.Err == b.Err && strings.Join(a.CB, ";") == strings.Join(b.CB, ";")
}

func c09Evaluate(ctx *vh.Ctx, c *c09Case, ans *c09OracleAns) {
	ctx.Progress.Mark(c)
	res := c09RunChild(c, 120*time.Second)
	pars := map[string]bool{}
	for _, k := range c.Calls {
		pars[k.Paradigm] = true
		ctx.Res.Dist("paradigm:" + k.Paradigm)
	}
	ctx.Res.Dist("kind:" + c.Kind)
	ctx.Res.Dist(fmt.Sprintf("goroutines:%d", len(c.Calls)))
	if c.SharedOpt {
		ctx.Res.Dist("sharedOpt")
	}
	if c.ParentCB {
		ctx.Res.Dist(fmt.Sprintf("parentCB:%d", c.ParentCap))
	}
	for _, l := range c.Layers {
		switch {
		case l.Branch:
			ctx.Res.Dist("layer:branch")
		case len(l.Nodes) > 1:
			ctx.Res.Dist("layer:fanout")
		default:
			ctx.Res.Dist("layer:single")
		}
	}
	key := fmt.Sprintf("%s/g%d/r%d/%v", c09Shape(c), len(c.Calls), c.Reps, len(pars))
	nontrivial := false
	defer func() { ctx.Res.Count(key, nontrivial) }()
	ctx.Res.Sample(map[string]any{"kind": c.Kind, "goroutines": len(c.Calls), "reps": c.Reps, "layers": c.Layers, "calls": c.Calls[:1]})

	stack := c.Kind
	// (1) race report
	if res.ExitCode == 66 || strings.Contains(res.Stderr, "WARNING: DATA RACE") {
		fs, ws := c09RaceFuncs(res.Stderr)
		ctx.Res.Dist("outcome:race")
		sig := "C09:race:write-in:" + strings.Join(ws, "|")
		if c.ParentCap >= 3 && (strings.Contains(res.Stderr, "eino/internal/callbacks.") || strings.Contains(res.Stderr, "eino/callbacks.(*handlerImpl)")) {
			// one shape, many manifestations (append/append, append/On, a foreign handler read
			// through the overwritten slot …): the shape that matters names the finding
			sig = "C09:race:parent-ctx-handlers-spare-capacity"
		}
		ctx.Res.Disagree(vh.Disagreement{
			Signature: sig,
			What:      "data race reported by the Go race detector while " + fmt.Sprint(len(c.Calls)) + " goroutines used one compiled " + stack + " object (racing functions: " + strings.Join(fs, " / ") + ")",
			Case:      c,
			Model:     map[string]any{"expected": "no data race; every concurrent call returns what it returns alone"},
			Impl:      map[string]any{"exit_code": res.ExitCode, "race_report": res.Stderr},
		})
		return
	}
	if res.TimedOut {
		ctx.Res.Dist("outcome:hang")
		ctx.Res.Disagree(vh.Disagreement{Signature: "C09:hang:" + c.Kind, What: "the concurrent invocation did not finish within 40 s", Case: c,
			Impl: map[string]any{"stderr": res.Stderr}})
		return
	}
	if res.Out == nil || res.ExitCode != 0 {
		ctx.Res.Dist("outcome:crash")
		ctx.Res.Disagree(vh.Disagreement{Signature: "C09:crash:" + c.Kind, What: fmt.Sprintf("the child process running the compiled object died (exit %d)", res.ExitCode), Case: c,
			Impl: map[string]any{"stderr": res.Stderr, "err": res.Err}})
		return
	}
	if res.Out.BuildErr != "" {
		// the generator is supposed to produce valid objects only: a harness-side problem, reported loudly
		ctx.Res.Dist("outcome:build-error")
		ctx.Res.Note("case did not build: " + res.Out.BuildErr)
		ctx.Res.Disagree(vh.Disagreement{Signature: "C09:harness:build-error:" + c.Kind, What: "generated object failed to build: " + res.Out.BuildErr, Case: c})
		return
	}
	// (2) alone == expected (model / closed form)
	expected := make([]string, len(c.Calls))
	for i, call := range c.Calls {
		if ans != nil {
			expected[i] = ans.Alone[i]
		} else {
			k := c.Kind
			if k == "wfstraggler" && c.Par >= 3 {
				k = "wfstraggler3"
			}
			expected[i] = c09AgentExpected(k, call)
		}
	}
	if ans != nil {
		if !ans.Complete || !vh.CanonEq(ans.Alone, ans.Interleaved) {
			ctx.Res.Disagree(vh.Disagreement{Signature: "C09:model:interleaved-ne-alone", What: "the model's interleaved result differs from its alone result (contradicts result_as_alone_partial)", Case: c, Model: ans})
			return
		}
	}
	ok := true
	for i := range c.Calls {
		a := res.Out.Alone[i]
		got := strings.TrimPrefix(a.Out, "resumed:")
		if a.Err != "" || got != expected[i] {
			ok = false
			ctx.Res.Disagree(vh.Disagreement{
				Signature: fmt.Sprintf("C09:alone-vs-model:%s:%s", c.Kind, c.Calls[i].Paradigm),
				What:      "a call run ALONE returns something else than the model (correspondence of the single-run semantics, not concurrency)",
				Case:      c, Model: map[string]any{"call": i, "expected": expected[i]}, Impl: a})
			break
		}
		for _, e := range a.CB {
			if strings.HasPrefix(e, "FOREIGN") {
				ok = false
				ctx.Res.Disagree(vh.Disagreement{Signature: "C09:harness:token-check", What: "token check fires on a call run alone (harness problem)", Case: c, Impl: a})
			}
		}
	}
	if !ok {
		ctx.Res.Dist("outcome:alone-mismatch")
		return
	}
	// (3) concurrent == alone
	for i := range c.Calls {
		for r, o := range res.Out.Conc[i] {
			if c09ObsEq(o, res.Out.Alone[i]) {
				continue
			}
			what := "output"
			if o.Err != res.Out.Alone[i].Err {
				what = "error:" + o.Err
			} else if o.Out == res.Out.Alone[i].Out {
				what = "callbacks"
			}
			ctx.Res.Dist("outcome:interference")
			sig := fmt.Sprintf("C09:interference:%s:%s:%s", c.Kind, c.Calls[i].Paradigm, what)
			if what == "callbacks" && c.ParentCap >= 3 {
				sig = "C09:interference:parent-ctx-handlers-spare-capacity:callbacks"
			}
			ctx.Res.Disagree(vh.Disagreement{
				Signature: sig,
				What:      fmt.Sprintf("call %d (rep %d) run concurrently with %d others returns something else than the same call run alone (%s differs)", i, r, len(c.Calls)-1, what),
				Case:      c, Model: map[string]any{"call": i, "expected": res.Out.Alone[i]}, Impl: o})
			return
		}
	}
	ctx.Res.Dist("outcome:agree")
	nontrivial = len(c.Calls) >= 2
}

func runC09(ctx *vh.Ctx) error {
	ctx.Res.Rule = "one case = one compiled object (shape, mode, node kinds, state/option use) × number of concurrent callers × repetitions × number of distinct paradigms; non-trivial when ≥2 goroutines were released together on the same object and every call's result was obtained and compared (alone, concurrent, model)"
	ask := func(c *c09Case) (*c09OracleAns, error) {
		if !c09HasOracle(c.Kind) {
			return nil, nil
		}
		raw, err := ctx.Oracle.Ask("C09", c09OracleCase(c))
		if err != nil {
			return nil, err
		}
		var a c09OracleAns
		if err := json.Unmarshal(raw, &a); err != nil {
			return nil, err
		}
		if len(a.Alone) != len(c.Calls) || len(a.Interleaved) != len(c.Calls) {
			return nil, fmt.Errorf("oracle answer has wrong arity")
		}
		return &a, nil
	}
	if ctx.Replay != nil {
		var c c09Case
		if err := json.Unmarshal(ctx.Replay, &c); err != nil {
			return fmt.Errorf("replay case: %v", err)
		}
		if c09IsOptKind(c.Kind) {
			return c09EvaluateX(ctx, &c)
		}
		if c.Kind == "errpath" {
			return c09EvaluateE(ctx, &c)
		}
		a, err := ask(&c)
		if err != nil {
			return err
		}
		c09Evaluate(ctx, &c, a)
		return nil
	}
	// fixed opening: the agents and one object of every kind, then random kinds
	kinds := []string{"react", "wfstraggler", "errpath", "errpath", "optshare", "toollist", "pregel", "dag", "workflow", "chain", "nested", "checkpoint", "host"}
	// after the opening the two call-option families are drawn twice as often as the others
	pool := append(append([]string{}, kinds...), "optshare", "optshare", "optshare", "toollist", "toollist", "errpath", "errpath")
	nOpt, nTL, nErr, nCb, nFl, nBM := 0, 0, 0, 0, 0, 0
	// The families cbshare and inflight are dealt from a random stream of their OWN (a function of
	// the seed only) and inserted between the cases of the main sequence, which therefore is the
	// same sequence of cases whether or not they exist: first one cbshare case, the two big
	// inflight cases (barrier, nested) and the four hold-at cases, then a cbshare case after every 7th case of the main
	// sequence and a small inflight case after every 35th.
	xr := vh.NewRand(ctx.Seed*0x9E3779B97F4A7C15 + 0xC09CB)
	extra := func(kind string) error {
		r := xr.Fork()
		var c c09Case
		if kind == "inflight" {
			c = c09GenFlight(r, nFl, ctx.Thorough())
			nFl++
		} else if kind == "branchmix" {
			c = c09GenBranchMix(r, nBM)
			nBM++
		} else {
			c = c09GenCbShare(r, nCb)
			nCb++
		}
		return c09EvaluateX(ctx, &c)
	}
	for _, k := range []string{"cbshare", "branchmix", "branchmix", "inflight", "inflight", "inflight", "inflight", "inflight", "inflight"} {
		if !ctx.TimeLeft() {
			break
		}
		if err := extra(k); err != nil {
			return err
		}
	}
	n := ctx.N(130, 2000)
	for i := 0; i < n && ctx.TimeLeft(); i++ {
		if i > 0 && i%7 == 0 {
			if err := extra("cbshare"); err != nil {
				return err
			}
		}
		if i > 0 && i%9 == 4 {
			if err := extra("branchmix"); err != nil {
				return err
			}
		}
		if i > 0 && i%35 == 0 {
			if err := extra("inflight"); err != nil {
				return err
			}
		}
		kind := kinds[i%len(kinds)]
		if i >= len(kinds) {
			kind = pool[ctx.Rng.Intn(len(pool))]
		}
		r := ctx.Rng.Fork()
		if kind == "errpath" {
			c := c09GenErrPath(r, nErr)
			nErr++
			if err := c09EvaluateE(ctx, &c); err != nil {
				return err
			}
			continue
		}
		if c09IsOptKind(kind) {
			var c c09Case
			if kind == "optshare" {
				c = c09GenOptShare(r, nOpt)
				nOpt++
			} else {
				c = c09GenToolList(r, nTL)
				nTL++
			}
			if err := c09EvaluateX(ctx, &c); err != nil {
				return err
			}
			continue
		}
		c := c09GenCase(r, kind, ctx.Thorough())
		a, err := ask(&c)
		if err != nil {
			return err
		}
		c09Evaluate(ctx, &c, a)
	}
	return nil
}
