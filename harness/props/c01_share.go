//go:build verif && (vh_all || vh_c01)

package props

// C01, last clause, "share" family: builder objects of the chain API handed to Append* more than
// once.  A case is a PROGRAM: a pool of builder objects (each made once: one *compose.ChainBranch,
// *compose.Parallel, *compose.Lambda or nested chain value), chains whose stages are written in
// place, name a pool object ({"ref":o}) or use an earlier chain of the program as a node
// ({"sub":j} = AppendGraph(chain j)), and a sequence of operations: issue the Append* calls of a
// chain, Compile it, run it (Invoke / Stream) — interleaved, so that chains are built from a
// builder object after another chain using it was compiled and run, and runs are repeated
// afterwards.  The Lean model (Model/C01Share.lean, oracle Oracle/C01Share.lean) says that every
// run returns the composition of the chain's own stages, whatever else was built from the same
// objects (theorems shared_run_is_composition, shared_run_ignores_history), and that Compile
// accepts exactly the well-formed chains (shared_compile_accepts_wf).

import (
	"context"
	"encoding/json"
	"errors"
	"fmt"
	"time"

	"github.com/cloudwego/eino/compose"
	"github.com/cloudwego/eino/schema"
	"github.com/cloudwego/eino/verifharness/gcase"
	"github.com/cloudwego/eino/verifharness/vh"
)

func init() {
	c01Extra = append(c01Extra, runC01Share)
	c01ReplayExtra["share"] = func(ctx *vh.Ctx, raw json.RawMessage) error {
		var c c01sCase
		if err := json.Unmarshal(raw, &c); err != nil {
			return err
		}
		return c01sCheck(ctx, []*c01sCase{&c})
	}
}

type c01sStage struct {
	Ref   *int      `json:"ref,omitempty"` // pool object
	Sub   *int      `json:"sub,omitempty"` // chain of the program used as a node
	T     string    `json:"t,omitempty"`   // otherwise: a stage written in place
	Body  *c01cBody `json:"body,omitempty"`
	Subs  []c01cSub `json:"subs,omitempty"`
	Table []string  `json:"table,omitempty"`
	Fail  *int      `json:"fail,omitempty"`
}

func (s *c01sStage) plain() *c01cStage {
	return &c01cStage{T: s.T, Body: s.Body, Subs: s.Subs, Table: s.Table, Fail: s.Fail}
}

type c01sChain struct {
	Stages []c01sStage `json:"stages"`
}

type c01sOp struct {
	Op    string `json:"op"` // build | compile | run
	Chain int    `json:"chain"`
	Input string `json:"input,omitempty"`
	Mode  string `json:"mode,omitempty"` // invoke (default) | stream (implementation side only)
}

type c01sCase struct {
	Kind   string      `json:"kind"` // "share"
	Pool   []c01cStage `json:"pool"`
	Chains []c01sChain `json:"chains"`
	Ops    []c01sOp    `json:"ops"`
}

// c01sValid: the operation sequence respects the API's order (a chain is built once, before the
// chains using it as a node; compiled once, after its build; run after its compile) and every
// reference resolves.
func c01sValid(c *c01sCase) bool {
	built, compiled := map[int]bool{}, map[int]bool{}
	for i := range c.Chains {
		for _, st := range c.Chains[i].Stages {
			if st.Ref != nil && (*st.Ref < 0 || *st.Ref >= len(c.Pool)) {
				return false
			}
			if st.Sub != nil && (*st.Sub < 0 || *st.Sub >= i) {
				return false
			}
		}
	}
	for _, op := range c.Ops {
		if op.Chain < 0 || op.Chain >= len(c.Chains) {
			return false
		}
		switch op.Op {
		case "build":
			if built[op.Chain] {
				return false
			}
			for _, st := range c.Chains[op.Chain].Stages {
				if st.Sub != nil && !built[*st.Sub] {
					return false
				}
			}
			built[op.Chain] = true
		case "compile":
			if !built[op.Chain] || compiled[op.Chain] {
				return false
			}
			compiled[op.Chain] = true
		case "run":
			if !compiled[op.Chain] {
				return false
			}
		default:
			return false
		}
	}
	return true
}

// ---------- running the program with the real API ----------

type c01sOpOut struct {
	K      string        `json:"k"` // none | compiled | ran | panic | hang | dup-chunk-key
	Acc    bool          `json:"accepted,omitempty"`
	Detail string        `json:"detail,omitempty"`
	Result gcase.ResultJ `json:"result"`
}

type c01sOut struct {
	Outs []c01sOpOut `json:"outs"`
}

func c01sRun(c *c01sCase) *c01sOut {
	ctx := context.Background()
	out := &c01sOut{}
	objs := make([]*c01cObj, len(c.Pool))
	chains := make([]*compose.Chain[c01cM, c01cM], len(c.Chains))
	runs := make([]compose.Runnable[c01cM, c01cM], len(c.Chains))
	if panicked, pv := vh.Safely(func() {
		for i := range c.Pool {
			objs[i] = c01cMake(&c.Pool[i], fmt.Sprintf("/pool%d", i))
		}
	}); panicked {
		out.Outs = append(out.Outs, c01sOpOut{K: "panic", Detail: fmt.Sprint("pool: ", pv)})
		return out
	}
	for _, op := range c.Ops {
		o := c01sOpOut{K: "none"}
		switch op.Op {
		case "build":
			if panicked, pv := vh.Safely(func() {
				ch := compose.NewChain[c01cM, c01cM]()
				for j := range c.Chains[op.Chain].Stages {
					st := &c.Chains[op.Chain].Stages[j]
					switch {
					case st.Ref != nil:
						c01cAppend(ch, objs[*st.Ref])
					case st.Sub != nil:
						ch.AppendGraph(chains[*st.Sub])
					default:
						c01cAppend(ch, c01cMake(st.plain(), fmt.Sprintf("/c%d/s%d", op.Chain, j)))
					}
				}
				chains[op.Chain] = ch
			}); panicked {
				o = c01sOpOut{K: "panic", Detail: fmt.Sprint("build: ", pv)}
			}
		case "compile":
			var cerr error
			if panicked, pv := vh.Safely(func() {
				runs[op.Chain], cerr = chains[op.Chain].Compile(ctx)
			}); panicked {
				o = c01sOpOut{K: "panic", Detail: fmt.Sprint("compile: ", pv)}
			} else if cerr != nil {
				runs[op.Chain] = nil
				o = c01sOpOut{K: "compiled", Acc: false, Detail: cerr.Error()}
			} else {
				o = c01sOpOut{K: "compiled", Acc: true}
			}
		case "run":
			r := runs[op.Chain]
			if r == nil {
				break
			}
			var res c01cM
			var runErr error
			finished := false
			if panicked, pv := vh.Safely(func() {
				finished = vh.WithTimeout(20*time.Second, func() {
					in := c01cM{"in": op.Input}
					if op.Mode == "stream" {
						var sr *schema.StreamReader[c01cM]
						sr, runErr = r.Stream(ctx, in)
						if runErr == nil {
							res, runErr = c01cDrain(sr)
						}
					} else {
						res, runErr = r.Invoke(ctx, in)
					}
				})
			}); panicked {
				o = c01sOpOut{K: "panic", Detail: fmt.Sprint("run: ", pv)}
				break
			}
			if !finished {
				o = c01sOpOut{K: "hang"}
				break
			}
			o = c01sOpOut{K: "ran"}
			if runErr != nil {
				var de *c01cDupErr
				if errors.As(runErr, &de) {
					o = c01sOpOut{K: "dup-chunk-key", Detail: runErr.Error()}
					break
				}
				o.Result = c01cClassify(runErr)
				o.Detail = runErr.Error()
				if len(o.Detail) > 300 {
					o.Detail = o.Detail[:300]
				}
			} else {
				s := c01cRender(res)
				o.Result = gcase.ResultJ{Ok: &s}
			}
		}
		out.Outs = append(out.Outs, o)
		if o.K == "panic" || o.K == "hang" {
			break
		}
	}
	return out
}

type c01sModelOp struct {
	K      string          `json:"k"`
	Acc    bool            `json:"accepted"`
	Result gcase.ResultJ   `json:"result"`
	Sem    gcase.ResultJ   `json:"sem"`
	Alts   []gcase.ResultJ `json:"alts"`
}

type c01sModel struct {
	Outs []c01sModelOp `json:"outs"`
}

func c01sAsk(ctx *vh.Ctx, cs []*c01sCase) ([]*c01sModel, error) {
	qs := make([]any, len(cs))
	for i, c := range cs {
		qs[i] = c
	}
	raws, err := ctx.Oracle.AskBatch("C01", qs)
	if err != nil {
		return nil, err
	}
	ms := make([]*c01sModel, len(cs))
	for i, raw := range raws {
		var m c01sModel
		if err := json.Unmarshal(raw, &m); err != nil {
			return nil, fmt.Errorf("share oracle answer: %v: %s", err, string(raw))
		}
		ms[i] = &m
	}
	return ms, nil
}

// how the chain of operation `op` shares builder objects with what was built before the operation
func c01sReuse(c *c01sCase, upto int, chain int) (twice, across, viaSub bool) {
	count := map[int]int{}
	var walk func(k int)
	seenSub := map[int]bool{}
	walk = func(k int) {
		for _, st := range c.Chains[k].Stages {
			if st.Ref != nil {
				count[*st.Ref]++
			}
			if st.Sub != nil {
				viaSub = true
				if !seenSub[*st.Sub] {
					seenSub[*st.Sub] = true
					walk(*st.Sub)
				}
			}
		}
	}
	walk(chain)
	for _, n := range count {
		if n >= 2 {
			twice = true
		}
	}
	for i := 0; i < upto && i < len(c.Ops); i++ {
		op := c.Ops[i]
		if op.Op != "build" || op.Chain == chain || seenSub[op.Chain] {
			continue
		}
		for _, st := range c.Chains[op.Chain].Stages {
			if st.Ref != nil && count[*st.Ref] > 0 {
				across = true
			}
		}
	}
	return
}

// c01sJudge compares one program; returns the signature of the first disagreement ("" = agree).
func c01sJudge(c *c01sCase, impl *c01sOut, m *c01sModel) (sig, what string) {
	if len(m.Outs) != len(c.Ops) {
		return "C01:share:oracle-shape", "the oracle answered a different number of operations"
	}
	for i, op := range c.Ops {
		mo := &m.Outs[i]
		if mo.K == "ran" && !vh.CanonEq(c01cNorm(mo.Result), c01cNorm(mo.Sem)) {
			return "C01:share:model-engine-vs-sem", fmt.Sprintf("op %d: engine run of the lowered graph differs from Chain.sem of the resolved chain (oracle glue or theorem hypotheses)", i)
		}
		if i >= len(impl.Outs) {
			break
		}
		io := &impl.Outs[i]
		mode := op.Mode
		if mode == "" {
			mode = "invoke"
		}
		switch io.K {
		case "panic":
			return "C01:share:panic:" + op.Op, fmt.Sprintf("op %d (%s chain %d) panicked: %s", i, op.Op, op.Chain, io.Detail)
		case "hang":
			return "C01:share:hang:" + mode, fmt.Sprintf("op %d (run chain %d) did not return", i, op.Chain)
		case "dup-chunk-key":
			return "C01:share:dup-chunk-key:" + mode, fmt.Sprintf("op %d (run chain %d): %s", i, op.Chain, io.Detail)
		}
		switch op.Op {
		case "compile":
			if mo.K != "compiled" || io.K != "compiled" {
				continue
			}
			if mo.Acc && !io.Acc {
				return "C01:share:rejected-wellformed", fmt.Sprintf("op %d: Compile rejects chain %d, which the model considers well-formed: %s", i, op.Chain, io.Detail)
			}
			if !mo.Acc && io.Acc {
				return "C01:share:accepted-illformed", fmt.Sprintf("op %d: Compile accepts chain %d, which the model considers ill-formed", i, op.Chain)
			}
		case "run":
			if mo.K != "ran" || io.K != "ran" {
				if mo.K != io.K {
					return "C01:share:run-presence", fmt.Sprintf("op %d: model %s, implementation %s", i, mo.K, io.K)
				}
				continue
			}
			cm := &c01cModel{Result: mo.Result, Alts: mo.Alts}
			if !c01cMatches(cm, io.Result) {
				k := "value"
				if io.Result.Err != nil || mo.Result.Err != nil {
					k = "error"
				}
				tw, ac, vs := c01sReuse(c, i, op.Chain)
				return "C01:share:result:" + k + ":" + mode, fmt.Sprintf("op %d: the result of compiled chain %d differs from the composition of its own stages (a builder object appended twice in it: %v; also appended to another chain built before this run: %v; uses a chain as a node: %v): %s", i, op.Chain, tw, ac, vs, io.Detail)
			}
		}
	}
	return "", ""
}

// ---------- shrinking ----------

func c01sClone(x *c01sCase) *c01sCase {
	b, _ := json.Marshal(x)
	var y c01sCase
	json.Unmarshal(b, &y)
	return &y
}

func c01sShrink(ctx *vh.Ctx, c *c01sCase, sig string) *c01sCase {
	still := func(cand *c01sCase) bool {
		if !c01sValid(cand) {
			return false
		}
		ms, err := c01sAsk(ctx, []*c01sCase{cand})
		if err != nil {
			return false
		}
		s, _ := c01sJudge(cand, c01sRun(cand), ms[0])
		return s == sig
	}
	cur := c
	for changed, rounds := true, 0; changed && rounds < 6; rounds++ {
		changed = false
		// drop operations (a run; or every operation of a chain nothing else uses)
		for i := len(cur.Ops) - 1; i >= 0; i-- {
			cand := c01sClone(cur)
			cand.Ops = append(cand.Ops[:i], cand.Ops[i+1:]...)
			if still(cand) {
				cur, changed = cand, true
			}
		}
		for k := range cur.Chains {
			cand := c01sClone(cur)
			ops := cand.Ops[:0]
			for _, op := range cand.Ops {
				if op.Chain != k {
					ops = append(ops, op)
				}
			}
			cand.Ops = ops
			if len(ops) < len(cur.Ops) && still(cand) {
				cur, changed = cand, true
			}
		}
		// drop stages
		for k := range cur.Chains {
			for i := 0; i < len(cur.Chains[k].Stages); i++ {
				cand := c01sClone(cur)
				s := cand.Chains[k].Stages
				cand.Chains[k].Stages = append(s[:i], s[i+1:]...)
				if still(cand) {
					cur, changed = cand, true
					i--
				}
			}
		}
		// drop members of pool objects
		for k := range cur.Pool {
			for j := 0; len(cur.Pool[k].Subs) > 2 && j < len(cur.Pool[k].Subs); j++ {
				cand := c01sClone(cur)
				s := cand.Pool[k].Subs
				cand.Pool[k].Subs = append(s[:j], s[j+1:]...)
				if still(cand) {
					cur, changed = cand, true
					j--
				}
			}
		}
		// simplify the tables of pool branches to one row
		for k := range cur.Pool {
			if len(cur.Pool[k].Table) > 1 {
				for _, key := range cur.Pool[k].Table {
					cand := c01sClone(cur)
					cand.Pool[k].Table = []string{key}
					if still(cand) {
						cur, changed = cand, true
						break
					}
				}
			}
		}
	}
	if cand := c01sCompact(cur); still(cand) {
		cur = cand
	}
	return cur
}

// c01sCompact removes the chains no operation (and no remaining chain) uses and the pool objects no
// remaining chain names, renumbering the references.
func c01sCompact(c *c01sCase) *c01sCase {
	c = c01sClone(c)
	keep := make([]bool, len(c.Chains))
	for _, op := range c.Ops {
		keep[op.Chain] = true
	}
	for i := len(c.Chains) - 1; i >= 0; i-- {
		if !keep[i] {
			continue
		}
		for _, st := range c.Chains[i].Stages {
			if st.Sub != nil && *st.Sub >= 0 && *st.Sub < i {
				keep[*st.Sub] = true
			}
		}
	}
	chainNo, poolNo := map[int]int{}, map[int]int{}
	chains := []c01sChain{}
	for i, ch := range c.Chains {
		if keep[i] {
			chainNo[i] = len(chains)
			chains = append(chains, ch)
		}
	}
	for _, ch := range chains {
		for _, st := range ch.Stages {
			if st.Ref != nil {
				poolNo[*st.Ref] = -1
			}
		}
	}
	pool := []c01cStage{}
	for i, p := range c.Pool {
		if _, used := poolNo[i]; used {
			poolNo[i] = len(pool)
			pool = append(pool, p)
		}
	}
	for _, ch := range chains {
		for j := range ch.Stages {
			st := &ch.Stages[j]
			if st.Ref != nil {
				n := poolNo[*st.Ref]
				st.Ref = &n
			}
			if st.Sub != nil {
				n := chainNo[*st.Sub]
				st.Sub = &n
			}
		}
	}
	for j := range c.Ops {
		c.Ops[j].Chain = chainNo[c.Ops[j].Chain]
	}
	c.Pool, c.Chains = pool, chains
	return c
}

// ---------- checking a batch ----------

func c01sCheck(ctx *vh.Ctx, cs []*c01sCase) error {
	impls := make([]*c01sOut, len(cs))
	for i, c := range cs {
		ctx.Progress.Mark(c)
		if !c01sValid(c) {
			return fmt.Errorf("share case %d: invalid operation sequence", i)
		}
		impls[i] = c01sRun(c)
	}
	ms, err := c01sAsk(ctx, cs)
	if err != nil {
		return err
	}
	for i, c := range cs {
		impl, m := impls[i], ms[i]
		ran, tw, ac, vs := 0, false, false, false
		for k, op := range c.Ops {
			if op.Op != "run" || k >= len(impl.Outs) || impl.Outs[k].K != "ran" {
				continue
			}
			ran++
			a, b, d := c01sReuse(c, k, op.Chain)
			tw, ac, vs = tw || a, ac || b, vs || d
			if op.Mode == "stream" {
				ctx.Res.Dist("share:mode=stream")
			}
			if impl.Outs[k].Result.Err != nil {
				ctx.Res.Dist("share:result=error")
			} else {
				ctx.Res.Dist("share:result=ok")
			}
		}
		for _, o := range impl.Outs {
			if o.K == "compiled" {
				ctx.Res.Dist(fmt.Sprintf("share:compile-accepted=%v", o.Acc))
			}
		}
		for _, f := range []struct {
			on bool
			k  string
		}{{tw, "twice-in-chain"}, {ac, "across-chains"}, {vs, "chain-as-node"}} {
			if f.on {
				ctx.Res.Dist("share:run-with=" + f.k)
			}
		}
		for _, p := range c.Pool {
			ctx.Res.Dist("share:pool=" + p.T)
		}
		ctx.Res.Dist(fmt.Sprintf("share:chains=%d", len(c.Chains)))
		ctx.Res.Dist(fmt.Sprintf("share:runs=%d", min(ran, 6)))
		ctx.Res.Count(vh.Canon(c), ran > 0 && (tw || ac))
		if i < 2 {
			ctx.Res.Sample(c)
		}
		sig, what := c01sJudge(c, impl, m)
		if sig == "" {
			continue
		}
		small := c
		if ctx.Replay == nil {
			small = c01sShrink(ctx, c, sig)
		}
		sms, err := c01sAsk(ctx, []*c01sCase{small})
		if err != nil {
			return err
		}
		simpl := c01sRun(small)
		if s2, w2 := c01sJudge(small, simpl, sms[0]); s2 == sig {
			what = w2
		}
		ctx.Res.Disagree(vh.Disagreement{Signature: sig, What: what, Case: small, Model: sms[0], Impl: simpl})
	}
	return nil
}

// ---------- generator ----------

type c01sGen struct {
	g *c01cGen
	r *vh.Rand
}

func (s *c01sGen) members(n int) []c01cSub {
	return s.g.subs(n, false, 1, true)
}

func (s *c01sGen) branch() c01cStage {
	st := c01cStage{T: "br", Subs: s.members(s.r.Range(2, 3))}
	for i := range st.Subs {
		st.Subs[i].OptKey = ""
	}
	rows := s.r.Range(1, 4)
	for k := 0; k < rows; k++ {
		st.Table = append(st.Table, st.Subs[s.r.Intn(len(st.Subs))].K)
	}
	if s.r.Chance(3) {
		st.Table = append(st.Table, "nokey")
	}
	if s.r.Chance(2) {
		id := s.r.Range(1, 9)
		st.Fail = &id
	}
	return st
}

func (s *c01sGen) parallel() c01cStage {
	return c01cStage{T: "par", Subs: s.members(s.r.Range(2, 3))}
}

func (s *c01sGen) lambda() c01cStage {
	b := s.g.body(false, 1, true)
	return c01cStage{T: "lambda", Body: &b}
}

func c01sMulti(t string) bool { return t == "par" || t == "br" }

func (s *c01sGen) program(thorough bool) *c01sCase {
	c := &c01sCase{Kind: "share", Pool: []c01cStage{}, Chains: []c01sChain{}, Ops: []c01sOp{}}
	for n := s.r.Range(1, 3); len(c.Pool) < n; {
		switch p := s.r.Intn(100); {
		case p < 50:
			c.Pool = append(c.Pool, s.branch())
		case p < 75:
			c.Pool = append(c.Pool, s.parallel())
		default:
			c.Pool = append(c.Pool, s.lambda())
		}
	}
	nch := s.r.Range(1, 3)
	maxSt := 4
	if thorough {
		maxSt = 6
	}
	usedAsNode := map[int]bool{}
	for i := 0; i < nch; i++ {
		ch := c01sChain{Stages: []c01sStage{}}
		prevMulti := false
		sloppy := s.r.Chance(4) // ignores "no parallel/branch directly after a parallel/branch"
		for n := s.r.Range(1, maxSt); len(ch.Stages) < n; {
			p := s.r.Intn(100)
			var st c01sStage
			t := ""
			switch {
			case p < 45:
				o := s.r.Intn(len(c.Pool))
				st, t = c01sStage{Ref: &o}, c.Pool[o].T
			case p < 57 && i > 0:
				j := s.r.Intn(i)
				st, t = c01sStage{Sub: &j}, "lambda"
			case p < 67:
				t = "pass"
				st = c01sStage{T: "pass"}
			case p < 75:
				x := s.branch()
				st, t = c01sStage{T: x.T, Subs: x.Subs, Table: x.Table, Fail: x.Fail}, "br"
			case p < 80:
				x := s.parallel()
				st, t = c01sStage{T: x.T, Subs: x.Subs}, "par"
			default:
				x := s.lambda()
				st, t = c01sStage{T: x.T, Body: x.Body}, "lambda"
			}
			if c01sMulti(t) && prevMulti && !sloppy {
				st, t = c01sStage{T: "pass"}, "pass"
			}
			if st.Sub != nil {
				usedAsNode[*st.Sub] = true
			}
			ch.Stages = append(ch.Stages, st)
			prevMulti = c01sMulti(t)
		}
		c.Chains = append(c.Chains, ch)
	}
	// operation sequences per chain, merged at random; builds stay in index order
	seqs := make([][]c01sOp, nch)
	for i := 0; i < nch; i++ {
		seqs[i] = []c01sOp{{Op: "build", Chain: i}}
		if usedAsNode[i] && s.r.Chance(50) {
			continue // only ever run as a node
		}
		seqs[i] = append(seqs[i], c01sOp{Op: "compile", Chain: i})
		for k, n := 0, s.r.Range(1, 3); k < n; k++ {
			op := c01sOp{Op: "run", Chain: i, Input: fmt.Sprintf("x%d", s.r.Intn(5))}
			if s.r.Chance(25) {
				op.Mode = "stream"
			}
			seqs[i] = append(seqs[i], op)
		}
	}
	pos := make([]int, nch)
	nextBuild := 0
	for {
		var ready []int
		for i := 0; i < nch; i++ {
			if pos[i] >= len(seqs[i]) {
				continue
			}
			if seqs[i][pos[i]].Op == "build" && i != nextBuild {
				continue
			}
			ready = append(ready, i)
		}
		if len(ready) == 0 {
			break
		}
		i := ready[s.r.Intn(len(ready))]
		op := seqs[i][pos[i]]
		pos[i]++
		if op.Op == "build" {
			nextBuild++
		}
		c.Ops = append(c.Ops, op)
	}
	// a run repeated at the very end: what an early chain computes after everything was built
	for k := range c.Ops {
		if c.Ops[k].Op == "run" && s.r.Chance(60) {
			c.Ops = append(c.Ops, c.Ops[k])
			break
		}
	}
	return c
}

func runC01Share(ctx *vh.Ctx) error {
	ctx.Res.Rule += " || share family: programs over a pool of 1-3 builder objects (one *ChainBranch / *Parallel / *Lambda / nested chain value each) and 1-3 chains of 1-4 stages (thorough 1-6) that name pool objects (45% of the stages), use an earlier chain as a node, or write a stage in place; operations build / compile / run (Invoke, 25% Stream) merged at random with builds in index order, one run repeated at the end; non-trivial = some run of a chain in which a pool object occurs twice or that shares one with another chain built before the run; distinct by canonical case"
	g := &c01sGen{g: &c01cGen{r: ctx.Rng, thor: ctx.Thorough(), noGraph: true}, r: ctx.Rng}
	n := ctx.N(1500, 15000)
	start := time.Now()
	limit := 3 * time.Second
	if ctx.Thorough() {
		limit = 30 * time.Second
	}
	const batch = 100
	for done := 0; done < n && time.Since(start) < limit; done += batch {
		cs := make([]*c01sCase, 0, batch)
		for i := 0; i < batch; i++ {
			cs = append(cs, g.program(ctx.Thorough()))
		}
		if err := c01sCheck(ctx, cs); err != nil {
			return err
		}
	}
	return nil
}
