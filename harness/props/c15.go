//go:build verif && (vh_all || vh_c15)

package props

import (
	"context"
	"encoding/json"
	"fmt"
	"io"
	"os"
	"reflect"
	"runtime/debug"
	"sort"
	"strings"
	"time"

	"github.com/cloudwego/eino/compose"
	"github.com/cloudwego/eino/verifharness/vh"
)

func init() { vh.Register("C15", runC15) }

// c15Family: a further case family of the same property, registered from its own file
// (c15_<family>.go: `c15Extra = append(c15Extra, ...)` in an init).  run generates and checks the
// family's cases within its share of the budget; replay reports whether the replayed case
// belongs to the family (and runs it if so).
type c15Family struct {
	name   string
	run    func(ctx *vh.Ctx) error
	replay func(ctx *vh.Ctx, raw json.RawMessage) (bool, error)
}

var c15Extra []c15Family

// ---------------------------------------------------------------------------------------
// case language
// ---------------------------------------------------------------------------------------

type c15Map struct {
	From []string `json:"from"`
	To   []string `json:"to"`
}

// one AddInput call on the successor: predecessor, its output type and value, the mappings
// (none = the whole output is the input)
type c15Decl struct {
	Pred   string   `json:"pred"`
	TyName string   `json:"tyName"`
	Ty     c15J     `json:"ty"`
	Val    c15J     `json:"val"`
	Maps   []c15Map `json:"maps"`
}

type c15Case struct {
	TargetName string    `json:"targetName"`
	Target     c15J      `json:"target"`
	ViaNode    bool      `json:"viaNode"` // successor is a lambda node instead of END
	Decls      []c15Decl `json:"decls"`   // in declaration order
	Stream     string    `json:"stream"`  // how the generator chose the mappings (valid|overlap|malformed)
	// the embedded fields of the struct types of the menu: (struct type name, field name)
	Emb [][]string `json:"emb,omitempty"`
}

type c15Run struct {
	Class string `json:"class"` // ok | err | panic | hang
	Val   c15J   `json:"val,omitempty"`
	Info  string `json:"info,omitempty"` // panic class (never compared)
	Side  string `json:"side,omitempty"` // where a panic was raised: source (extraction) | target (assignment); never compared
}

type c15Model struct {
	Compile      string   `json:"compile"`
	OverlapFree  bool     `json:"overlapFree"`
	Promoted     bool     `json:"promoted"` // some segment of some path is a promoted selector
	Invoke       *c15Run  `json:"invoke,omitempty"`
	Stream       *c15Run  `json:"stream,omitempty"`
	StreamChunks []c15Run `json:"streamChunks,omitempty"`
}

type c15Impl struct {
	Compile     string   `json:"compile"`
	CompileErr  string   `json:"compileErr,omitempty"`
	Invoke      []c15Run `json:"invoke,omitempty"` // distinct outcomes of the repeated runs
	InvokeRuns  int      `json:"invokeRuns,omitempty"`
	Stream      *c15Run  `json:"stream,omitempty"`
	Chunks      []c15J   `json:"chunks,omitempty"`
	SrcMutated  []string `json:"srcMutated,omitempty"`
	BuildFailed string   `json:"buildFailed,omitempty"`
}

const c15Repeats = 10

// ---------------------------------------------------------------------------------------
// implementation side
// ---------------------------------------------------------------------------------------

func c15Mapping(m c15Map) *compose.FieldMapping {
	switch {
	case len(m.From) == 0 && len(m.To) == 1:
		return compose.ToField(m.To[0])
	case len(m.From) == 0:
		return compose.ToFieldPath(compose.FieldPath(m.To))
	case len(m.To) == 0 && len(m.From) == 1:
		return compose.FromField(m.From[0])
	case len(m.To) == 0:
		return compose.FromFieldPath(compose.FieldPath(m.From))
	case len(m.From) == 1 && len(m.To) == 1:
		return compose.MapFields(m.From[0], m.To[0])
	}
	return compose.MapFieldPaths(compose.FieldPath(m.From), compose.FieldPath(m.To))
}

// C15_DEBUG=1: print error / panic texts (never compared) while replaying a case
func c15Debug(format string, args ...any) {
	if os.Getenv("C15_DEBUG") != "" {
		fmt.Fprintf(os.Stderr, "c15: "+format+"\n", args...)
	}
}

func c15PanicClass(p any) string {
	s := fmt.Sprint(p)
	switch {
	case strings.Contains(s, "on zero Value"):
		return "reflect-zero-value"
	case strings.Contains(s, "convertTo failed when must succeed"):
		return "convertTo-must-succeed"
	case strings.Contains(s, "panic error:"):
		return "fieldMap-deliberate-panic"
	case strings.Contains(s, "interface conversion"):
		return "interface-conversion"
	case strings.Contains(s, "nil pointer dereference"):
		return "nil-deref"
	case strings.Contains(s, "nil pointer to embedded struct"):
		return "nil-embedded-pointer"
	case strings.Contains(s, "reflect:"):
		return "reflect-other"
	case s == "impossible":
		return "eino-impossible" // a stream of the wrong chunk type reached a typed reader
	}
	return "other"
}

// c15ErrInfo: an error that is a panic recovered inside a node's goroutine (eino turns it into a
// NodeRunError carrying "panic error: …" and the stack); never compared, used to attribute a
// disagreement to its cause
func c15ErrInfo(err error) string {
	s := err.Error()
	if strings.Contains(s, "panic error:") && strings.Contains(s, "nil pointer dereference") {
		return "recovered-nil-deref"
	}
	return ""
}

// c15PanicSide: which half of the field mapping code a panic was raised in, read off the stack
// at the time of the recover (extraction along the source path / assignment along the target path).
func c15PanicSide(stack string) string {
	switch {
	case strings.Contains(stack, "compose.checkAndExtractFromField") || strings.Contains(stack, "compose.takeOne"):
		return "source"
	case strings.Contains(stack, "compose.assignOne") || strings.Contains(stack, "compose.checkAndExtractToField") || strings.Contains(stack, "compose.convertTo"):
		return "target"
	}
	return "unknown"
}

func c15RunT[I, T any](c *c15Case, vals []reflect.Value) *c15Impl {
	impl := &c15Impl{}
	var z *T
	rt := reflect.TypeOf(z).Elem()
	ctx := context.Background()
	var r compose.Runnable[I, T]
	var cerr error
	// the workflow input: the value of the declaration whose predecessor is START, else a trigger
	var input I
	if s, ok := any("x").(I); ok {
		input = s
	}
	for i, d := range c.Decls {
		if d.Pred == compose.START {
			input = vals[i].Interface().(I)
		}
	}
	if panicked, pv := vh.Safely(func() {
		wf := compose.NewWorkflow[I, T]()
		for i, d := range c.Decls {
			if d.Pred == compose.START {
				continue
			}
			v := vals[i]
			ti := c15Types[d.TyName]
			wf.AddLambdaNode(d.Pred, ti.lambda(func() any { return v.Interface() })).AddInput(compose.START)
		}
		succ := wf.End()
		if c.ViaNode {
			succ = wf.AddLambdaNode("succ", compose.InvokableLambda(func(ctx context.Context, in T) (T, error) { return in, nil }))
			wf.End().AddInput("succ")
		}
		for _, d := range c.Decls {
			var ms []*compose.FieldMapping
			for _, m := range d.Maps {
				ms = append(ms, c15Mapping(m))
			}
			succ.AddInput(d.Pred, ms...)
		}
		r, cerr = wf.Compile(ctx)
	}); panicked {
		impl.Compile = "panic"
		impl.CompileErr = c15PanicClass(pv)
		return impl
	}
	if cerr != nil {
		impl.Compile = "reject"
		impl.CompileErr = cerr.Error()
		if len(impl.CompileErr) > 200 {
			impl.CompileErr = impl.CompileErr[:200]
		}
		return impl
	}
	impl.Compile = "accept"

	// repeated Invoke: Go's map iteration order in convertTo differs between runs
	seen := map[string]bool{}
	for i := 0; i < c15Repeats; i++ {
		var run c15Run
		finished := false
		side := ""
		panicked, pv := vh.Safely(func() {
			finished = vh.WithTimeout(20*time.Second, func() {
				defer func() {
					if p := recover(); p != nil {
						side = c15PanicSide(string(debug.Stack()) + fmt.Sprint(p))
						panic(p)
					}
				}()
				out, err := r.Invoke(ctx, input)
				if err != nil {
					run = c15Run{Class: "err", Info: c15ErrInfo(err)}
					c15Debug("invoke error: %.400v", err)
					return
				}
				run = c15Run{Class: "ok", Val: c15EncAny(out, rt)}
			})
		})
		if panicked {
			run = c15Run{Class: "panic", Info: c15PanicClass(pv), Side: side}
			c15Debug("invoke panic: %.300v", pv)
		} else if !finished {
			run = c15Run{Class: "hang"}
		}
		impl.InvokeRuns++
		k := run.Class + vhCanonC15(run.Val)
		if !seen[k] {
			seen[k] = true
			impl.Invoke = append(impl.Invoke, run)
		}
		if run.Class == "hang" {
			break
		}
	}

	// Stream: one chunk per predecessor edge when the successor is END
	if !c.ViaNode || len(c.Decls) == 1 {
		var run c15Run
		var chunks []c15J
		finished := false
		side := ""
		panicked, pv := vh.Safely(func() {
			finished = vh.WithTimeout(20*time.Second, func() {
				defer func() {
					if p := recover(); p != nil {
						side = c15PanicSide(string(debug.Stack()) + fmt.Sprint(p))
						panic(p)
					}
				}()
				sr, err := r.Stream(ctx, input)
				if err != nil {
					run = c15Run{Class: "err", Info: c15ErrInfo(err)}
					c15Debug("stream error: %.400v", err)
					return
				}
				defer sr.Close()
				for {
					out, err := sr.Recv()
					if err == io.EOF {
						break
					}
					if err != nil {
						run = c15Run{Class: "err", Info: c15ErrInfo(err)}
						c15Debug("stream recv error: %.400v", err)
						return
					}
					chunks = append(chunks, c15EncAny(out, rt))
				}
				run = c15Run{Class: "ok"}
			})
		})
		if panicked {
			run = c15Run{Class: "panic", Info: c15PanicClass(pv), Side: side}
			c15Debug("stream panic: %.300v", pv)
		} else if !finished {
			run = c15Run{Class: "hang"}
		}
		impl.Stream = &run
		if run.Class == "ok" {
			sort.Slice(chunks, func(i, j int) bool { return vhCanonC15(chunks[i]) < vhCanonC15(chunks[j]) })
			impl.Chunks = chunks
		}
	}

	// predecessor outputs re-inspected after the runs
	for i, d := range c.Decls {
		after := c15Enc(vals[i])
		if vhCanonC15(after) != vhCanonC15(d.Val) {
			impl.SrcMutated = append(impl.SrcMutated, d.Pred)
		}
	}
	return impl
}

func c15RunImpl(c *c15Case) *c15Impl {
	ti, ok := c15Types[c.TargetName]
	if !ok {
		return &c15Impl{BuildFailed: "unknown target type " + c.TargetName}
	}
	vals := make([]reflect.Value, len(c.Decls))
	for i, d := range c.Decls {
		st, ok := c15Types[d.TyName]
		if !ok {
			return &c15Impl{BuildFailed: "unknown source type " + d.TyName}
		}
		v, err := c15Dec(d.Val, st.rt)
		if err != nil {
			return &c15Impl{BuildFailed: err.Error()}
		}
		vals[i] = v
	}
	in := "Str"
	for _, d := range c.Decls {
		if d.Pred == compose.START {
			in = d.TyName
		}
	}
	run, ok := ti.run[in]
	if !ok {
		return &c15Impl{BuildFailed: "START cannot have type " + in}
	}
	return run(c, vals)
}

// ---------------------------------------------------------------------------------------
// comparison
// ---------------------------------------------------------------------------------------

func c15IsPrefix(a, b []string) bool {
	if len(a) > len(b) {
		return false
	}
	for i := range a {
		if a[i] != b[i] {
			return false
		}
	}
	return true
}

// c15OverlapShape names the first overlapping pair in declaration order.
func c15OverlapShape(c *c15Case) string {
	type tp struct {
		p     []string
		whole bool
	}
	var ts []tp
	for _, d := range c.Decls {
		if len(d.Maps) == 0 {
			ts = append(ts, tp{nil, true})
		}
		for _, m := range d.Maps {
			ts = append(ts, tp{m.To, false})
		}
	}
	for j := 1; j < len(ts); j++ {
		for i := 0; i < j; i++ {
			a, b := ts[i], ts[j]
			if !c15IsPrefix(a.p, b.p) && !c15IsPrefix(b.p, a.p) {
				continue
			}
			switch {
			case a.whole && b.whole:
				return "whole+whole"
			case a.whole:
				return "fields-after-whole"
			case b.whole:
				return "whole-after-fields"
			case len(a.p) == 0 || len(b.p) == 0:
				return "empty-target-path"
			case len(a.p) == len(b.p):
				return "equal"
			case len(a.p) < len(b.p):
				if len(a.p) == 1 {
					return "extends-earlier:depth=1"
				}
				return "extends-earlier:depth>1"
			default:
				return "prefix-of-earlier"
			}
		}
	}
	return "none"
}

type c15Finding struct {
	sig, what string
}

func c15RunEq(a, b *c15Run) bool {
	if a == nil || b == nil {
		return a == b
	}
	return a.Class == b.Class && vhCanonC15(a.Val) == vhCanonC15(b.Val)
}

// c15Found walks the source path `from` on the value v the way extraction does: via = an interface
// value was crossed before the end, nilTaken = the path resolves and ends at an untyped nil.
func c15Found(v reflect.Value, from []string) (via, nilTaken bool) {
	x := v
	for i := 0; i <= len(from); i++ {
		if x.Kind() == reflect.Interface {
			if i < len(from) {
				via = true
			}
			if x.IsNil() {
				if i == len(from) {
					nilTaken = true
				}
				break
			}
			x = x.Elem()
		}
		if i == len(from) {
			break
		}
		if x.Kind() == reflect.Ptr {
			if x.IsNil() {
				break
			}
			x = x.Elem()
		}
		switch x.Kind() {
		case reflect.Struct:
			if sf, ok := x.Type().FieldByName(from[i]); !ok {
				x = reflect.Value{}
			} else if fv, err := x.FieldByIndexErr(sf.Index); err != nil {
				x = reflect.Value{}
			} else {
				x = fv
			}
		case reflect.Map:
			x = x.MapIndex(reflect.ValueOf(from[i]))
		default:
			x = reflect.Value{}
		}
		if !x.IsValid() {
			break
		}
	}
	return via, nilTaken
}

// c15SlotType: the static type of the slot a path denotes on rt (compose checkAndExtractFieldType:
// below an interface everything is `any`); crosses = an interface-typed slot is crossed before the
// last segment (`intermediateInterface`: the type of what is found is only known at run time).
func c15SlotType(rt reflect.Type, path []string) (slot reflect.Type, crosses, ok bool) {
	for i, seg := range path {
		if rt.Kind() == reflect.Map {
			rt = rt.Elem()
			continue
		}
		for rt.Kind() == reflect.Ptr {
			rt = rt.Elem()
		}
		if rt.Kind() == reflect.Struct {
			f, found := rt.FieldByName(seg)
			if !found {
				return nil, false, false
			}
			rt = f.Type
			continue
		}
		if rt.Kind() != reflect.Interface {
			return nil, false, false
		}
		if i < len(path)-1 {
			return rt, true, true
		}
	}
	return rt, false, true
}

// c15NilBehindIface: some mapping of the case has a source path that crosses an interface-typed
// slot before its last segment and ends, on the value at hand, at an untyped nil.
func c15NilBehindIface(c *c15Case) bool {
	for _, d := range c.Decls {
		st := c15Types[d.TyName]
		if st == nil {
			continue
		}
		v, err := c15Dec(d.Val, st.rt)
		if err != nil {
			continue
		}
		for _, m := range d.Maps {
			if _, crosses, ok := c15SlotType(st.rt, m.From); ok && crosses {
				if _, nilTaken := c15Found(v, m.From); nilTaken {
					return true
				}
			}
		}
	}
	return false
}

// c15Shape: the part of the case that makes a run disagreement specific.
func c15Shape(c *c15Case) string {
	via, nilTaken := false, false
	nilTo := ""
	tt := c15Types[c.TargetName]
	for _, d := range c.Decls {
		st := c15Types[d.TyName]
		if st == nil {
			continue
		}
		v, err := c15Dec(d.Val, st.rt)
		if err != nil {
			continue
		}
		for _, m := range d.Maps {
			vi, nt := c15Found(v, m.From)
			via = via || vi
			nilTaken = nilTaken || nt
			if nt && tt != nil {
				// an untyped nil on its way to a slice / func / chan slot (kinds that have a nil in Go;
				// the field mapping code takes it for the slice only)
				if slot, _, ok := c15SlotType(tt.rt, m.To); ok && c15IsOpq(slot) && (nilTo == "" || c15OpqKind(slot) < nilTo) {
					nilTo = c15OpqKind(slot)
				}
			}
		}
	}
	s := ""
	if via {
		s += ":via-interface"
	}
	if nilTaken {
		s += ":nil-value"
	}
	if nilTo != "" {
		s += ":nil-to-" + nilTo
	}
	return s
}

// c15Through: what a path meets on its way through the static type rt: "ptrmap" (a pointer to a
// map), "nested" (a pointer to a pointer in front of a struct), "iface" (a segment applied to an
// interface other than `any`), "" otherwise
func c15Through(rt reflect.Type, path []string) string {
	for _, seg := range path {
		if rt.Kind() == reflect.Map {
			rt = rt.Elem()
			continue
		}
		if rt.Kind() == reflect.Ptr {
			levels := 0
			for rt.Kind() == reflect.Ptr {
				rt = rt.Elem()
				levels++
			}
			if rt.Kind() == reflect.Map {
				return "ptrmap"
			}
			if levels > 1 && rt.Kind() == reflect.Struct {
				return "nested"
			}
		}
		if rt.Kind() == reflect.Interface && rt != c15AnyType {
			return "iface"
		}
		if rt.Kind() != reflect.Struct {
			return ""
		}
		f, ok := rt.FieldByName(seg)
		if !ok {
			return ""
		}
		rt = f.Type
	}
	return ""
}

// c15StaticTag: what is special about the static types the paths of the case are resolved
// against: a path that goes through a pointer to a map, through a pointer to a pointer, or has a
// segment below a non-empty interface (the first that applies, targets before sources).
func c15StaticTag(c *c15Case) string {
	through := c15Through
	tt := c15Types[c.TargetName]
	hit := map[string]bool{}
	for _, d := range c.Decls {
		st := c15Types[d.TyName]
		for _, m := range d.Maps {
			if tt != nil {
				hit["target:"+through(tt.rt, m.To)] = true
			}
			if st != nil {
				hit["source:"+through(st.rt, m.From)] = true
			}
		}
	}
	switch {
	case hit["target:ptrmap"] || hit["source:ptrmap"]:
		return ":through-pointer-to-map"
	case hit["target:nested"]:
		return ":target-through-nested-pointer"
	case hit["source:nested"]:
		return ":source-through-nested-pointer"
	case hit["target:iface"]:
		return ":target-below-non-empty-interface"
	case hit["source:iface"]:
		return ":source-below-non-empty-interface"
	}
	return ""
}

// c15DeepTag: the static tag when it is one of the tags of the family "deep" (appended to run
// signatures; the older tags never were)
func c15DeepTag(c *c15Case) string {
	if t := c15StaticTag(c); t != ":through-pointer-to-map" {
		return t
	}
	return ""
}

func c15Compare(c *c15Case, model *c15Model, impl *c15Impl) []c15Finding {
	var fs []c15Finding
	if impl.BuildFailed != "" {
		return []c15Finding{{"C15:harness:build", impl.BuildFailed}}
	}
	if impl.Compile != model.Compile {
		reason := "static" + c15StaticTag(c)
		if !model.OverlapFree {
			shape := c15OverlapShape(c)
			if shape == "none" {
				// the declared paths are textually unrelated, the slots they denote are not: a
				// promoted selector next to the explicit path (or a prefix / an extension of it)
				shape = "promoted-alias"
			}
			reason = "overlap:" + shape
		}
		fs = append(fs, c15Finding{fmt.Sprintf("C15:compile:impl=%s:model=%s:%s", impl.Compile, model.Compile, reason),
			fmt.Sprintf("Workflow.Compile: implementation %s (%s), model %s (targets overlap-free: %v)", impl.Compile, impl.CompileErr, model.Compile, model.OverlapFree)})
		if impl.Compile == "accept" {
			// consequences of accepting an overlapping set, reported with the same finding
			if len(impl.Invoke) > 1 {
				fs[0].what += fmt.Sprintf("; %d different Invoke results in %d runs", len(impl.Invoke), impl.InvokeRuns)
			}
			if len(impl.SrcMutated) > 0 {
				fs[0].what += fmt.Sprintf("; predecessor output modified: %v", impl.SrcMutated)
			}
			for _, r := range impl.Invoke {
				if r.Class == "panic" {
					fs[0].what += "; panic out of Invoke (" + r.Info + ")"
					break
				}
			}
		}
		return fs
	}
	if impl.Compile != "accept" {
		return nil
	}
	// one finding per case for a panic on a nil embedded pointer (reflect FieldByName walks through
	// embedded pointers without looking); what else differs in such a case is a consequence of it
	// (another outcome in another run, an error where the panic is recovered)
	embSide := ""
	if impl.Stream != nil && impl.Stream.Class == "panic" && impl.Stream.Info == "nil-embedded-pointer" {
		embSide = impl.Stream.Side
	}
	for i := len(impl.Invoke) - 1; i >= 0; i-- {
		if r := impl.Invoke[i]; r.Class == "panic" && r.Info == "nil-embedded-pointer" {
			embSide = r.Side
		}
	}
	if embSide != "" {
		what := "a promoted target field behind an embedded pointer: the run panics (reflect: indirection through nil pointer to embedded struct) instead of instantiating the pointer like every other pointer on a target path"
		if embSide == "source" {
			what = "a promoted source field behind a nil embedded pointer: the run panics (reflect: indirection through nil pointer to embedded struct) instead of returning an error like for every other nil pointer on a source path"
		}
		return []c15Finding{{"C15:promoted:nil-embedded-pointer:" + embSide, what}}
	}
	// one finding per case for the run-time checker of a source path that crosses an interface
	// (validateFieldMapping, `predecessorIntermediateInterface`) dereferencing the nil reflect.Type of
	// an untyped nil: whichever of Invoke / Stream reaches the checker panics, whatever the target
	// kind; what else differs in such a case is a consequence
	nilDeref := false
	how := ""
	for _, r := range impl.Invoke {
		if r.Class == "panic" && r.Info == "nil-deref" {
			nilDeref = true
			how = "Invoke panics"
		} else if r.Class == "err" && r.Info == "recovered-nil-deref" {
			nilDeref = true
			how = "Invoke returns the panic, recovered in a node's goroutine, as an error"
		}
	}
	if impl.Stream != nil && (impl.Stream.Info == "nil-deref" || impl.Stream.Info == "recovered-nil-deref") {
		nilDeref = true
		if how != "" {
			how += ", "
		}
		if impl.Stream.Class == "panic" {
			how += "Stream panics"
		} else {
			how += "Stream returns the panic, recovered in a node's goroutine, as an error"
		}
	}
	if nilDeref && c15NilBehindIface(c) {
		mi := "-"
		if model.Invoke != nil {
			mi = model.Invoke.Class
		}
		return []c15Finding{{"C15:invoke:impl=panic:nil-behind-interface:source-path-through-interface",
			"a source path that crosses an interface before its last segment ends at an untyped nil: the run-time checker calls reflect.TypeOf(nil).AssignableTo (nil pointer dereference) and the panic leaves the run (" + how + "; the property demands an error, or the nil where nil is a value: model Invoke " + mi + ")"}}
	}
	shape := c15Shape(c)
	if model.Promoted {
		shape += ":promoted"
	}
	shape += c15DeepTag(c)
	// determinism
	if len(impl.Invoke) > 1 {
		fs = append(fs, c15Finding{"C15:invoke:nondeterministic", fmt.Sprintf("%d different Invoke outcomes in %d runs of one compiled workflow", len(impl.Invoke), impl.InvokeRuns)})
	}
	// Out of scope (DESIGN.md §5, "checked and not a defect", belongs to C04): a nil value of an
	// interface-typed successor input.  The graph runner cannot tell a nil `any` arriving at END
	// (or at an interface-typed node) from "nothing arrived" and fails the non-streaming run.
	nilAny := c.TargetName == "Any" && model.Invoke != nil && model.Invoke.Class == "ok" && model.Invoke.Val["k"] == "nil"
	if len(impl.Invoke) > 0 && model.Invoke != nil && !nilAny {
		r := impl.Invoke[0]
		if r.Class != model.Invoke.Class {
			info := ""
			if r.Info != "" {
				info = ":" + r.Info
			}
			fs = append(fs, c15Finding{fmt.Sprintf("C15:invoke:impl=%s%s:model=%s%s", r.Class, info, model.Invoke.Class, shape),
				fmt.Sprintf("Invoke outcome class: implementation %s %s, model %s", r.Class, r.Info, model.Invoke.Class)})
		} else if r.Class == "ok" && !c15RunEq(&r, model.Invoke) {
			fs = append(fs, c15Finding{"C15:invoke:value" + shape, "Invoke result differs from the value the mapping denotes"})
		}
	}
	if impl.Stream != nil && model.Stream != nil {
		if impl.Stream.Class != model.Stream.Class {
			info := ""
			if impl.Stream.Info != "" {
				info = ":" + impl.Stream.Info
			}
			fs = append(fs, c15Finding{fmt.Sprintf("C15:stream:impl=%s%s:model=%s%s", impl.Stream.Class, info, model.Stream.Class, shape),
				fmt.Sprintf("Stream outcome class: implementation %s %s, model %s", impl.Stream.Class, impl.Stream.Info, model.Stream.Class)})
		} else if impl.Stream.Class == "ok" {
			var mc []string
			for _, ch := range model.StreamChunks {
				mc = append(mc, vhCanonC15(ch.Val))
			}
			sort.Strings(mc)
			var ic []string
			for _, ch := range impl.Chunks {
				ic = append(ic, vhCanonC15(ch))
			}
			sort.Strings(ic)
			if strings.Join(mc, "\n") != strings.Join(ic, "\n") {
				fs = append(fs, c15Finding{"C15:stream:value" + shape, fmt.Sprintf("Stream chunks differ from the per-edge values the mapping denotes (%d vs %d chunks)", len(ic), len(mc))})
			}
		}
	}
	if len(impl.SrcMutated) > 0 {
		fs = append(fs, c15Finding{"C15:source-mutated", fmt.Sprintf("predecessor output modified by the run: %v", impl.SrcMutated)})
	}
	return fs
}

func c15Ask(ctx *vh.Ctx, c *c15Case) (*c15Model, error) {
	raw, err := ctx.Oracle.Ask("C15", c)
	if err != nil {
		return nil, err
	}
	var m c15Model
	d := json.NewDecoder(strings.NewReader(string(raw)))
	if err := d.Decode(&m); err != nil {
		return nil, err
	}
	return &m, nil
}

func c15Eval(ctx *vh.Ctx, c *c15Case) (*c15Model, *c15Impl, []c15Finding, error) {
	model, err := c15Ask(ctx, c)
	if err != nil {
		return nil, nil, nil, err
	}
	impl := c15RunImpl(c)
	return model, impl, c15Compare(c, model, impl), nil
}

// c15Shrink drops declarations / mappings while a finding with the same signature persists.
func c15Shrink(ctx *vh.Ctx, c *c15Case, sig string) *c15Case {
	cur := c
	for changed := true; changed; {
		changed = false
		var cands []*c15Case
		for i := range cur.Decls {
			if len(cur.Decls) > 1 {
				n := *cur
				n.Decls = append(append([]c15Decl{}, cur.Decls[:i]...), cur.Decls[i+1:]...)
				cands = append(cands, &n)
			}
			for j := range cur.Decls[i].Maps {
				if len(cur.Decls[i].Maps) > 1 {
					n := *cur
					n.Decls = append([]c15Decl{}, cur.Decls...)
					d := n.Decls[i]
					d.Maps = append(append([]c15Map{}, d.Maps[:j]...), d.Maps[j+1:]...)
					n.Decls[i] = d
					cands = append(cands, &n)
				}
			}
		}
		if cur.ViaNode {
			n := *cur
			n.ViaNode = false
			cands = append(cands, &n)
		}
		for _, n := range cands {
			ctx.Progress.Mark(n)
			_, _, fs, err := c15Eval(ctx, n)
			if err != nil {
				continue
			}
			hit := false
			for _, f := range fs {
				if f.sig == sig {
					hit = true
				}
			}
			if hit {
				cur = n
				changed = true
				break
			}
		}
	}
	return cur
}

var c15Reported = map[string]int{}

func c15One(ctx *vh.Ctx, c *c15Case, count bool) ([]c15Finding, string, error) {
	ctx.Progress.Mark(c)
	model, impl, fs, err := c15Eval(ctx, c)
	if err != nil {
		return nil, "", err
	}
	if count {
		nm := 0
		depth := 0
		for _, d := range c.Decls {
			nm += len(d.Maps)
			for _, m := range d.Maps {
				if len(m.To) > depth {
					depth = len(m.To)
				}
				if len(m.From) > depth {
					depth = len(m.From)
				}
			}
		}
		ctx.Res.Dist("target=" + c.TargetName)
		ctx.Res.Dist(fmt.Sprintf("preds=%d", len(c.Decls)))
		for _, d := range c.Decls {
			if d.Pred == compose.START {
				ctx.Res.Dist("pred=START")
			}
			if len(d.Maps) == 0 {
				ctx.Res.Dist("decl=whole-output")
			}
		}
		ctx.Res.Dist(fmt.Sprintf("mappings=%d", nm))
		ctx.Res.Dist(fmt.Sprintf("maxdepth=%d", depth))
		ctx.Res.Dist("gen=" + c.Stream)
		ctx.Res.Dist("compile=" + impl.Compile)
		ctx.Res.Dist(fmt.Sprintf("overlapFree=%v", model.OverlapFree))
		if model.Promoted {
			ctx.Res.Dist("promoted-selector")
		}
		if tag := c15StaticTag(c); tag != "" {
			ctx.Res.Dist("path" + tag)
		}
		if len(impl.Invoke) > 0 {
			ctx.Res.Dist("invoke=" + impl.Invoke[0].Class)
		}
		if impl.Stream != nil {
			ctx.Res.Dist("stream=" + impl.Stream.Class)
		}
		if c.ViaNode {
			ctx.Res.Dist("successor=node")
		} else {
			ctx.Res.Dist("successor=END")
		}
		ctx.Res.Count(c15Key(c), nm >= 2 || depth >= 2)
		ctx.Res.Sample(c)
	}
	for _, f := range fs {
		if c15Reported[f.sig] >= 3 {
			ctx.Res.Dist("disagreement-suppressed")
			continue
		}
		c15Reported[f.sig]++
		sc := c
		if ctx.Replay == nil && c15Reported[f.sig] == 1 {
			sc = c15Shrink(ctx, c, f.sig)
		}
		sm, si, _, err := c15Eval(ctx, sc)
		if err != nil {
			return nil, "", err
		}
		ctx.Res.Disagree(vh.Disagreement{Signature: f.sig, What: f.what, Case: sc, Model: sm, Impl: si})
	}
	return fs, impl.Compile, nil
}

func c15Key(c *c15Case) string {
	var sb strings.Builder
	sb.WriteString(c.TargetName)
	if c.ViaNode {
		sb.WriteString("|node")
	}
	for _, d := range c.Decls {
		if d.Pred == compose.START {
			sb.WriteString("|START")
		}
		sb.WriteString("|" + d.TyName + ":")
		for _, m := range d.Maps {
			sb.WriteString(strings.Join(m.From, ".") + ">" + strings.Join(m.To, ".") + ",")
		}
	}
	return sb.String()
}

// ---------------------------------------------------------------------------------------
// generator
// ---------------------------------------------------------------------------------------

func c15Pick(r *vh.Rand, names []string, weights []int) string {
	tot := 0
	for _, w := range weights {
		tot += w
	}
	x := r.Intn(tot)
	for i, w := range weights {
		if x < w {
			return names[i]
		}
		x -= w
	}
	return names[0]
}

var (
	c15TargetNames = []string{"Top", "PTop", "Mid", "PMid", "MapAny", "MapStr", "MapLeaf", "MapPMid", "MapMid", "Any", "Leaf", "Str",
		"EmbV", "PEmbV", "EmbP", "PEmbP", "Emb2", "PEmb2P", "Wrap", "PM", "PPM", "MapPMap", "MapEmbV",
		"Opq", "POpq", "MapSS", "MapFunc", "MapChan",
		"Deep", "PDeep", "MapNamer", "PPLeaf", "NV", "PNP"}
	c15TargetWeights = []int{32, 10, 10, 5, 10, 5, 5, 5, 6, 6, 4, 2,
		6, 3, 4, 2, 5, 3, 10, 4, 2, 2, 3,
		8, 2, 2, 2, 2,
		9, 3, 2, 1, 1, 2}
	c15SourceNames = []string{"Top", "PTop", "Mid", "PMid", "Leaf", "PLeaf", "MapAny", "MapStr", "MapLeaf", "MapPMid",
		"EmbV", "PEmbV", "EmbP", "PEmbP", "Emb2", "PEmb2P", "Wrap", "PM", "PPM", "MapPMap", "MapEmbV",
		"Opq", "POpq", "MapSS", "MapFunc", "MapChan",
		"Deep", "PDeep", "MapNamer", "PPLeaf", "NV", "PNP"}
	c15SourceWeights = []int{38, 10, 15, 6, 5, 3, 10, 5, 4, 4,
		7, 3, 5, 2, 6, 4, 12, 4, 2, 2, 3,
		8, 2, 1, 1, 1,
		10, 3, 2, 1, 1, 2}
	c15StartNames = []string{"Top", "Top", "MapAny", "Wrap", "PEmbP"}
	c15DynTypes   = []reflect.Type{reflect.TypeOf(""), reflect.TypeOf(0), reflect.TypeOf(C15Leaf{}), reflect.TypeOf(&C15Leaf{}),
		reflect.TypeOf(map[string]any{}), reflect.TypeOf(map[string]string{}), reflect.TypeOf(C15Mid{}), reflect.TypeOf(&C15Mid{}),
		reflect.TypeOf(C15EmbV{}), reflect.TypeOf(&C15EmbP{}), reflect.TypeOf(&C15Emb2{}), reflect.TypeOf(&map[string]string{}),
		reflect.TypeOf([]string{}), reflect.TypeOf((func() string)(nil)), reflect.TypeOf((chan int)(nil)),
		reflect.TypeOf(C15NV{}), reflect.TypeOf(&C15NV{}), reflect.TypeOf(&C15NP{}), reflect.TypeOf(C15NP{})}
)

func c15GenVal(r *vh.Rand, rt reflect.Type, depth int) reflect.Value {
	v := reflect.New(rt).Elem()
	switch rt.Kind() {
	case reflect.String:
		v.SetString([]string{"", "a", "b", "hello"}[r.Intn(4)])
	case reflect.Int:
		v.SetInt(int64([]int{0, 1, 7, -3}[r.Intn(4)]))
	case reflect.Slice, reflect.Func, reflect.Chan:
		if os := c15OpqVals[rt]; len(os) > 0 && !r.Chance(35) {
			v.Set(os[r.Intn(len(os))].v)
		}
	case reflect.Interface:
		if r.Chance(20) || depth <= 0 {
			return v
		}
		if rt != c15AnyType {
			// a non-empty interface: one of its implementing types
			v.Set(c15GenVal(r, c15NamerImpls[r.Intn(len(c15NamerImpls))], depth-1))
			return v
		}
		dt := c15DynTypes[r.Intn(len(c15DynTypes))]
		if depth <= 1 && dt.Kind() != reflect.String && dt.Kind() != reflect.Int && !c15IsOpq(dt) {
			dt = c15DynTypes[r.Intn(4)]
		}
		v.Set(c15GenVal(r, dt, depth-1))
	case reflect.Ptr:
		if r.Chance(25) {
			return v
		}
		p := reflect.New(rt.Elem())
		p.Elem().Set(c15GenVal(r, rt.Elem(), depth))
		v.Set(p)
	case reflect.Map:
		if r.Chance(15) {
			return v
		}
		m := reflect.MakeMap(rt)
		for i, n := 0, r.Intn(3); i < n; i++ {
			m.SetMapIndex(reflect.ValueOf(c15Keys[r.Intn(len(c15Keys))]), c15GenVal(r, rt.Elem(), depth-1))
		}
		v.Set(m)
	case reflect.Struct:
		for i := 0; i < rt.NumField(); i++ {
			v.Field(i).Set(c15GenVal(r, rt.Field(i).Type, depth-1))
		}
	}
	return v
}

func c15Compatible(src, dst reflect.Type) bool {
	return src == dst || dst.Kind() == reflect.Interface || src.Kind() == reflect.Interface
}

func c15GenCase(r *vh.Rand) *c15Case {
	c := &c15Case{Stream: "valid", Emb: c15EmbTable}
	c.TargetName = c15Pick(r, c15TargetNames, c15TargetWeights)
	tt := c15Types[c.TargetName]
	c.Target = tt.desc
	c.ViaNode = r.Chance(20)
	nPred := []int{1, 1, 2, 2, 2, 3}[r.Intn(6)]
	type pred struct {
		name  string
		val   reflect.Value
		paths []c15PathInfo
	}
	var preds []pred
	startPred := r.Chance(30)
	for i := 0; i < nPred; i++ {
		tn := c15Pick(r, c15SourceNames, c15SourceWeights)
		name := fmt.Sprintf("p%d", i)
		if i == 0 && startPred {
			// START itself is a mapped predecessor: its output is the workflow input
			tn = c15StartNames[r.Intn(len(c15StartNames))]
			name = compose.START
		}
		st := c15Types[tn]
		v := c15GenVal(r, st.rt, 4)
		var ps []c15PathInfo
		c15SourcePaths(v, 4, nil, false, &ps)
		if r.Chance(22) {
			// statically valid paths, whether or not they resolve on this value (nil pointers,
			// nil interfaces, absent map keys on the way)
			c15TargetPaths(st.rt, 3, nil, false, &ps)
		}
		preds = append(preds, pred{name: name, val: v, paths: ps})
		c.Decls = append(c.Decls, c15Decl{Pred: name, TyName: tn, Ty: st.desc, Val: c15Enc(v)})
	}
	var tps []c15PathInfo
	c15TargetPaths(tt.rt, 4, nil, false, &tps)
	nMap := []int{1, 2, 2, 3, 3, 4, 4, 5}[r.Intn(8)]
	overlapStream := r.Chance(22)
	var chosen []c15PathInfo
	for k := 0; k < nMap; k++ {
		pi := r.Intn(nPred)
		var to c15PathInfo
		switch {
		case r.Chance(4):
			to = c15PathInfo{path: nil, ty: tt.rt} // FromField: the whole successor input
			c.Stream = "overlap"
		case r.Chance(3) || len(tps) == 0:
			to = c15PathInfo{path: []string{[]string{"Nope", "S", "L", "k1"}[r.Intn(4)], []string{"S", "zz", "N"}[r.Intn(3)]}[:1+r.Intn(2)], ty: reflect.TypeOf("")}
			c.Stream = "malformed"
		case overlapStream && len(chosen) > 0 && r.Chance(60):
			base := chosen[r.Intn(len(chosen))]
			var rel []c15PathInfo
			for _, t := range tps {
				if c15IsPrefix(t.path, base.path) || c15IsPrefix(base.path, t.path) {
					rel = append(rel, t)
				}
			}
			if len(rel) == 0 {
				to = base
			} else {
				to = rel[r.Intn(len(rel))]
			}
			c.Stream = "overlap"
		default:
			// the valid stream: a target unrelated to the ones chosen so far
			for try := 0; try < 12; try++ {
				to = tps[r.Intn(len(tps))]
				clash := false
				for _, ch := range chosen {
					if c15IsPrefix(ch.path, to.path) || c15IsPrefix(to.path, ch.path) {
						clash = true
					}
				}
				if !clash {
					break
				}
				if try == 11 && c.Stream == "valid" {
					c.Stream = "overlap"
				}
			}
		}
		chosen = append(chosen, to)
		var from c15PathInfo
		var cands []c15PathInfo
		whole := c15PathInfo{path: nil, ty: c15Types[c.Decls[pi].TyName].rt}
		for _, s := range append(preds[pi].paths, whole) {
			if c15Compatible(s.ty, to.ty) {
				cands = append(cands, s)
			}
		}
		switch {
		case len(cands) > 0 && r.Chance(88):
			from = cands[r.Intn(len(cands))]
		case len(preds[pi].paths) > 0 && r.Chance(80):
			from = preds[pi].paths[r.Intn(len(preds[pi].paths))]
		case r.Chance(50):
			from = whole
		default:
			from = c15PathInfo{path: []string{"Missing"}}
			if c.Stream == "valid" {
				c.Stream = "malformed"
			}
		}
		c.Decls[pi].Maps = append(c.Decls[pi].Maps, c15Map{From: append([]string{}, from.path...), To: append([]string{}, to.path...)})
	}
	// a predecessor that got no mapping is dropped, except now and then: a declaration without
	// mappings passes the whole output (an ordinary edge) and conflicts with every field mapping
	var kept []c15Decl
	for i := range c.Decls {
		if len(c.Decls[i].Maps) > 0 {
			kept = append(kept, c.Decls[i])
		} else if r.Chance(12) {
			kept = append(kept, c.Decls[i])
			if nPred > 1 {
				c.Stream = "overlap"
			}
		}
	}
	if len(kept) == 0 {
		kept = c.Decls[:1]
	}
	c.Decls = kept
	return c
}

// c15Orders: every declaration order (order of the AddInput calls x order of the mappings inside
// each call) when the set has at most 4 mappings, a sample otherwise.
func c15Orders(r *vh.Rand, c *c15Case, max int) []*c15Case {
	total := 0
	for _, d := range c.Decls {
		total += len(d.Maps)
	}
	var perms func(n int) [][]int
	perms = func(n int) [][]int {
		if n == 0 {
			return [][]int{{}}
		}
		var out [][]int
		for _, p := range perms(n - 1) {
			for i := 0; i <= len(p); i++ {
				q := append(append(append([]int{}, p[:i]...), n-1), p[i:]...)
				out = append(out, q)
			}
		}
		return out
	}
	apply := func(dp []int, mps [][]int) *c15Case {
		n := *c
		n.Decls = nil
		for _, di := range dp {
			d := c.Decls[di]
			nd := d
			nd.Maps = nil
			for _, mi := range mps[di] {
				nd.Maps = append(nd.Maps, d.Maps[mi])
			}
			n.Decls = append(n.Decls, nd)
		}
		return &n
	}
	if total <= 4 {
		var out []*c15Case
		var rec func(i int, acc [][]int)
		dps := perms(len(c.Decls))
		rec = func(i int, acc [][]int) {
			if i == len(c.Decls) {
				for _, dp := range dps {
					out = append(out, apply(dp, acc))
				}
				return
			}
			for _, p := range perms(len(c.Decls[i].Maps)) {
				rec(i+1, append(append([][]int{}, acc...), p))
			}
		}
		rec(0, nil)
		return out
	}
	var out []*c15Case
	for k := 0; k < max; k++ {
		mps := make([][]int, len(c.Decls))
		for i, d := range c.Decls {
			mps[i] = r.Perm(len(d.Maps))
		}
		out = append(out, apply(r.Perm(len(c.Decls)), mps))
	}
	return out
}

// ---------------------------------------------------------------------------------------
// fixed cases: the witnesses of the Lean negation theorems, replayed on the real code
// ---------------------------------------------------------------------------------------

func c15Fixed() []*c15Case {
	top := c15Types["Top"]
	leaf := C15Leaf{S: "leaf", N: 5}
	v := reflect.ValueOf(C15Top{S: "s", N: 3, L: leaf, PL: &C15Leaf{S: "pl", N: 9}, Mid: C15Mid{S: "mid", L: leaf}, A: C15Leaf{S: "dyn", N: 1}})
	vNil := reflect.ValueOf(C15Top{S: "s", Mid: C15Mid{S: "mid"}})
	vStr := reflect.ValueOf(C15Top{S: "s", A: "hello"})
	mkT := func(target string, val reflect.Value, groups ...[]c15Map) *c15Case {
		c := &c15Case{TargetName: target, Target: c15Types[target].desc, Stream: "fixed", Emb: c15EmbTable}
		for i, g := range groups {
			c.Decls = append(c.Decls, c15Decl{Pred: fmt.Sprintf("p%d", i), TyName: "Top", Ty: top.desc, Val: c15Enc(val), Maps: g})
		}
		return c
	}
	mk := func(val reflect.Value, groups ...[]c15Map) *c15Case { return mkT("Top", val, groups...) }
	// one predecessor of the named type holding val, one AddInput call
	mkS := func(target, src string, val any, maps ...c15Map) *c15Case {
		st := c15Types[src]
		sv := reflect.New(st.rt).Elem()
		sv.Set(reflect.ValueOf(val))
		return &c15Case{TargetName: target, Target: c15Types[target].desc, Stream: "fixed", Emb: c15EmbTable,
			Decls: []c15Decl{{Pred: "p0", TyName: src, Ty: st.desc, Val: c15Enc(sv), Maps: maps}}}
	}
	viaNode := func(c *c15Case) *c15Case { c.ViaNode = true; return c }
	embV := C15EmbV{C15Base: C15Base{ID: "id-1", N: 7, S: "inner", PL: &C15Leaf{S: "pl", N: 2}}, Name: "nm", S: "outer"}
	emb2 := C15Emb2{C15EmbV: embV, X: "x"}
	wrap := C15Wrap{S: "w", E: embV, PE: &embV, E2: emb2}
	km, ki := map[string]string{"k1": "v"}, map[string]int{"k1": 5}
	pki := &ki
	pm := C15PM{S: "s", M: &km, PPM: &pki, MPM: map[string]*map[string]int{"k1": {"k2": 9}}}
	m := func(from, to string) c15Map {
		sp := func(s string) []string {
			if s == "" {
				return []string{}
			}
			return strings.Split(s, ".")
		}
		return c15Map{From: sp(from), To: sp(to)}
	}
	return []*c15Case{
		// overlap_order_dependent_as_found: L.S then L (accepted as found) / L then L.S (rejected)
		mk(v, []c15Map{m("S", "L.S")}, []c15Map{m("L", "L")}),
		mk(v, []c15Map{m("L", "L")}, []c15Map{m("S", "L.S")}),
		// deep overlap: MPL.k1 and MPL.k1.S (accepted as found in both orders; writes through the
		// predecessor's pointer)
		mk(v, []c15Map{m("PL", "MPL.k1")}, []c15Map{m("S", "MPL.k1.S")}),
		mk(v, []c15Map{m("S", "MPL.k1.S")}, []c15Map{m("PL", "MPL.k1")}),
		// whole input after field mappings
		mk(v, []c15Map{m("S", "S")}, []c15Map{}),
		mk(v, []c15Map{}, []c15Map{m("S", "S")}),
		// take_panics_as_found: source path through a nil interface / a nil pointer
		mk(vNil, []c15Map{m("A.S", "S")}),
		mk(vNil, []c15Map{m("PL.S", "S")}),
		mk(v, []c15Map{m("A.Nope", "S")}),
		// non-overlapping, accepted
		mk(v, []c15Map{m("S", "Mid.S"), m("L", "Mid.L")}, []c15Map{m("N", "MA.k1"), m("PL", "PL")}),
		// trailing_segment_accepted_as_found: a last segment on a string field
		mk(v, []c15Map{m("S", "S.x")}),
		// checker_uses_last_mapping_as_found: A holds a struct, not a string
		mk(v, []c15Map{m("A", "S"), m("A", "B")}),
		// two fields of one struct held by value in a map; a field two levels below such an entry
		mk(v, []c15Map{m("S", "ML.k1.S"), m("N", "ML.k1.N")}),
		mkT("MapMid", v, []c15Map{m("S", "k1.L.S")}),
		// interface-typed source field in streaming execution (run-time checker in stream form)
		mk(vStr, []c15Map{m("A", "S")}),
		// a nil interface value into a map[string]*T entry / into the whole (map-typed) input
		mk(vNil, []c15Map{m("A", "MPL.k1")}),
		mkT("MapStr", vNil, []c15Map{m("A", "")}),
		// interface-typed successor input, no key present in the only stream chunk
		mkT("Any", vNil, []c15Map{m("MS.nokey", "k1")}),

		// promoted source fields (embedded by value, one and two levels, behind a struct held by
		// value / by pointer, shadowed name) into interface-typed holes and into typed fields
		mkS("MapAny", "Wrap", wrap, m("E.ID", "k1"), m("PE.N", "k2"), m("E2.ID", "x"), m("E.Name", "k1x")),
		mkS("Leaf", "EmbV", embV, m("ID", "S"), m("N", "N")),
		mkS("MapAny", "Emb2", emb2, m("N", "k1"), m("S", "k2"), m("C15Base.S", "x"), m("PL.S", "k1x")),
		mkS("MapStr", "PEmbV", &embV, m("ID", "k1"), m("C15Base.ID", "k2")),
		// … through a non-nil / a nil embedded pointer
		mkS("MapAny", "EmbP", C15EmbP{C15Base: &C15Base{ID: "p", N: 4}, Name: "n"}, m("ID", "k1"), m("N", "k2")),
		mkS("MapAny", "EmbP", C15EmbP{Name: "n"}, m("ID", "k1")),
		// … below an interface value
		mkS("MapAny", "Wrap", C15Wrap{A: embV}, m("A.ID", "k1"), m("A.C15Base.N", "k2")),
		// promoted target fields: embedded by value, by pointer, two levels by pointer, in a map entry
		mkS("EmbV", "Leaf", leaf, m("S", "ID"), m("N", "N"), m("S", "S")),
		mkS("Emb2", "Leaf", leaf, m("S", "ID"), m("S", "Name"), m("S", "X")),
		mkS("EmbP", "Leaf", leaf, m("S", "ID")),
		mkS("PEmb2P", "Leaf", leaf, m("S", "ID"), m("", "L")),
		mkS("MapEmbV", "Leaf", leaf, m("S", "k1.ID"), m("N", "k1.N"), m("S", "k2.C15Base.S")),
		// a promoted selector next to the embedded struct / next to its own explicit path: an overlap
		mkS("EmbV", "EmbV", embV, m("Name", "ID"), m("C15Base", "C15Base")),
		mkS("EmbV", "EmbV", embV, m("C15Base", "C15Base"), m("Name", "ID")),
		mkS("EmbV", "EmbV", embV, m("Name", "ID"), m("ID", "C15Base.ID")),
		mkS("Emb2", "EmbV", embV, m("", "C15EmbV"), m("Name", "N")),
		// shadowing: `S` and `C15Base.S` are different fields, no overlap
		mkS("EmbV", "EmbV", embV, m("Name", "S"), m("ID", "C15Base.S")),
		// pointers to maps: mapped as a whole; a path through one cannot be walked and is rejected
		mkS("PM", "PM", pm, m("M", "M"), m("PPM", "PPM"), m("MPM", "MPM")),
		mkS("PM", "Leaf", leaf, m("S", "M.k1")),
		mkS("PM", "Leaf", leaf, m("N", "PPM.k1")),
		mkS("Leaf", "PM", pm, m("M.k1", "S")),
		mkS("Leaf", "PM", pm, m("PPM.k1", "N")),
		mkS("MapPMap", "Leaf", leaf, m("N", "k1.k2")),
		mkS("Leaf", "PM", pm, m("MPM.k1.k2", "N")),
		mkS("MapAny", "Wrap", C15Wrap{PPM: &pm}, m("PPM.M.k1", "k1")),
		// a mapping to the whole input (FromField, empty target path) and a field mapping in ONE
		// AddInput call, both with a source field: an overlap in either order, also when the
		// successor is a node
		mkS("MapAny", "Top", v.Interface(), m("MA", ""), m("S", "x")),
		mkS("MapAny", "Top", v.Interface(), m("S", "x"), m("MA", "")),
		mkS("PLeaf", "Top", v.Interface(), m("PL", ""), m("S", "S")),
		mkS("PLeaf", "Top", v.Interface(), m("PL", ""), m("N", "N"), m("S", "S")),
		viaNode(mkS("MapAny", "Top", v.Interface(), m("MA", ""), m("S", "x"))),
		viaNode(mkS("MapAny", "Top", v.Interface(), m("MA", ""), m("S", "k1.k2"))),
		viaNode(mkS("MapAny", "Top", v.Interface(), m("S", "k1.k2"), m("MA", ""))),
	}
}

// ---------------------------------------------------------------------------------------
// driver
// ---------------------------------------------------------------------------------------

func runC15(ctx *vh.Ctx) error {
	ctx.Res.Rule = "random mapping sets over a menu of source/target types (nested structs, pointers, map[string]T, any holes) x every declaration order for sets of at most 4 mappings (sampled above) x source values incl. nil pointers/interfaces; per case: Compile class, 10 Invoke runs, Stream chunks, predecessor outputs re-inspected; non-trivial = at least 2 mappings or a path of depth >= 2; distinct by (target type, successor kind, declaration-ordered (predecessor type, from, to) list)"
	if ctx.Replay != nil {
		for _, f := range c15Extra {
			if handled, err := f.replay(ctx, ctx.Replay); handled {
				return err
			}
		}
		var c c15Case
		if err := json.Unmarshal(ctx.Replay, &c); err != nil {
			return err
		}
		_, _, err := c15One(ctx, &c, true)
		return err
	}
	for _, c := range c15Fixed() {
		if _, _, err := c15One(ctx, c, true); err != nil {
			return err
		}
	}
	for _, f := range c15Extra {
		if err := f.run(ctx); err != nil {
			return err
		}
	}
	n := ctx.N(2500, 60000)
	for i := 0; i < n && ctx.TimeLeft(); i++ {
		base := c15GenCase(ctx.Rng)
		orders := c15Orders(ctx.Rng, base, 6)
		classes := map[string]bool{}
		for _, c := range orders {
			if !ctx.TimeLeft() {
				break
			}
			_, cls, err := c15One(ctx, c, true)
			if err != nil {
				return err
			}
			classes[cls] = true
		}
		ctx.Res.Dist(fmt.Sprintf("orders=%d", len(orders)))
		if len(classes) > 1 {
			ctx.Res.Dist("compile-order-dependent-sets")
		}
	}
	return nil
}
