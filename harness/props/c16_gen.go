//go:build verif && (vh_all || vh_c16)

package props

import (
	"encoding/json"

	"github.com/cloudwego/eino/verifharness/vh"
)

// ---------------------------------------------------------------------------------------
// generator
// ---------------------------------------------------------------------------------------

var c16Keys = []string{"a", "b", "c", "d", "e"}

type c16Target struct {
	path []string
	kind string // comp | pass | graph
	ty   int
}

func c16GenTree(r *vh.Rand, depth, maxDepth int) []c16Node {
	n := r.Range(1, 4)
	if depth > 1 {
		n = r.Range(1, 3)
	}
	perm := r.Perm(len(c16Keys))
	nodes := make([]c16Node, 0, n)
	for i := 0; i < n; i++ {
		key := c16Keys[perm[i]]
		w := r.Intn(100)
		switch {
		case w < 36 && depth < maxDepth:
			nodes = append(nodes, c16Node{K: "graph", Key: key, Dag: r.Chance(25), Ch: c16GenTree(r, depth+1, maxDepth)})
		case w < 48:
			nodes = append(nodes, c16Node{K: "pass", Key: key})
		default:
			prevLambda := i > 0 && nodes[i-1].K == "comp" && nodes[i-1].Impl == "lambda"
			c := c16Node{K: "comp", Key: key, Impl: "lambda"}
			t := r.Intn(100)
			switch {
			case prevLambda && t < 14:
				c.Impl, c.Ty = "model", c16TyM
			case prevLambda && t < 24:
				c.Impl, c.Ty = "retriever", c16TyR
			case t < 30:
				c.Ty = c16TyNone
			case t < 66:
				c.Ty = r.Range(c16TyA, c16TyD)
			case t < 72:
				c.Ty = c16TyE
			case t < 79:
				c.Ty = c16TyAny // declared option type `any`
			case t < 84:
				c.Ty = c16TyI // declared option type: a small interface
			case t < 92:
				c.Ty = c16TyM
			default:
				c.Ty = c16TyR
			}
			nodes = append(nodes, c)
		}
	}
	return nodes
}

// c16OptTyFor: the type of an Option aimed at a node whose option type is nodeTy.  An Option
// cannot have an interface type: for an interface-typed lambda take a concrete type (for the
// small interface mostly the type that implements it).
func c16OptTyFor(r *vh.Rand, nodeTy int) int {
	switch nodeTy {
	case c16TyAny:
		return c16ConcreteTys[r.Intn(len(c16ConcreteTys))]
	case c16TyI:
		if r.Chance(70) {
			return c16TyE
		}
		return c16ConcreteTys[r.Intn(len(c16ConcreteTys))]
	}
	return nodeTy
}

func c16Targets(nodes []c16Node, pre []string, out *[]c16Target) {
	for i := range nodes {
		n := &nodes[i]
		p := append(append([]string{}, pre...), n.Key)
		*out = append(*out, c16Target{path: p, kind: n.K, ty: n.Ty})
		if n.K == "graph" {
			c16Targets(n.Ch, p, out)
		}
	}
}

type c16GenState struct {
	r       *vh.Rand
	nextVal int
	nextH   int
	targets []c16Target
}

func (s *c16GenState) vals() []int {
	n := s.r.Range(1, 3)
	out := make([]int, 0, n)
	for i := 0; i < n; i++ {
		s.nextVal++
		out = append(out, s.nextVal)
	}
	return out
}

func (s *c16GenState) handlers() []int {
	n := 1
	if s.r.Chance(25) {
		n = 2
	}
	out := make([]int, 0, n)
	for i := 0; i < n; i++ {
		if s.nextH > 0 && s.r.Chance(10) {
			out = append(out, 1+s.r.Intn(s.nextH)) // the same handler value in two Options
			continue
		}
		s.nextH++
		out = append(out, s.nextH)
	}
	return out
}

func (s *c16GenState) pickTarget(f func(t *c16Target) bool) *c16Target {
	var cand []*c16Target
	for i := range s.targets {
		if f(&s.targets[i]) {
			cand = append(cand, &s.targets[i])
		}
	}
	if len(cand) == 0 {
		return nil
	}
	return cand[s.r.Intn(len(cand))]
}

func c16Cp(p []string, more ...string) []string {
	return append(append([]string{}, p...), more...)
}

// badPath: a designated path that must be rejected (or, below a passthrough, that the
// property says must be rejected).
func (s *c16GenState) badPath(kind string) []string {
	anyKey := func() string {
		if s.r.Chance(50) {
			return c16Keys[s.r.Intn(len(c16Keys))]
		}
		return "zz"
	}
	switch kind {
	case "unknown":
		g := s.pickTarget(func(t *c16Target) bool { return t.kind == "graph" })
		if g != nil && s.r.Chance(60) {
			return c16Cp(g.path, "zz")
		}
		return []string{"zz"}
	case "belowComp":
		if t := s.pickTarget(func(t *c16Target) bool { return t.kind == "comp" }); t != nil {
			return c16Cp(t.path, anyKey())
		}
	case "belowPass":
		if t := s.pickTarget(func(t *c16Target) bool { return t.kind == "pass" }); t != nil {
			if s.r.Chance(20) {
				return c16Cp(t.path, anyKey(), anyKey())
			}
			return c16Cp(t.path, anyKey())
		}
	case "empty":
		return []string{}
	}
	return []string{"zz"}
}

func (s *c16GenState) option() c16Opt {
	r := s.r
	o := c16Opt{Vals: []int{}, Handlers: []int{}, Paths: [][]string{}, ViaKey: r.Chance(40)}
	w := r.Intn(100)
	npaths := 1
	if r.Chance(30) {
		npaths = r.Range(2, 3)
	}
	malformed := func() (string, bool) {
		m := r.Intn(100)
		switch {
		case m < 4:
			return "unknown", true
		case m < 7:
			return "belowComp", true
		case m < 11:
			return "belowPass", true
		case m < 12:
			return "empty", true
		}
		return "", false
	}
	switch {
	case w < 25: // undesignated values
		o.Ty = c16ConcreteTys[r.Intn(len(c16ConcreteTys))]
		if t := s.pickTarget(func(t *c16Target) bool { return t.kind == "comp" && t.ty != c16TyNone }); t != nil && r.Chance(70) {
			o.Ty = c16OptTyFor(r, t.ty)
		}
		o.Vals = s.vals()
		o.Spare = c16GenSpare(r, o.Ty, 35)
	case w < 62: // designated values
		o.Ty = c16ConcreteTys[r.Intn(len(c16ConcreteTys))]
		if t := s.pickTarget(func(t *c16Target) bool { return t.kind == "comp" && t.ty != c16TyNone }); t != nil && r.Chance(75) {
			o.Ty = c16OptTyFor(r, t.ty)
		}
		o.Vals = s.vals()
		o.Spare = c16GenSpare(r, o.Ty, 25)
		for i := 0; i < npaths; i++ {
			if k, bad := malformed(); bad {
				o.Paths = append(o.Paths, s.badPath(k))
				continue
			}
			if r.Chance(5) { // wrong type
				if t := s.pickTarget(func(t *c16Target) bool { return t.kind == "comp" && t.ty != o.Ty }); t != nil {
					o.Paths = append(o.Paths, c16Cp(t.path))
					continue
				}
			}
			t := s.pickTarget(func(t *c16Target) bool {
				switch t.kind {
				case "comp":
					return t.ty == o.Ty
				case "pass":
					return r.Chance(35)
				}
				return true
			})
			if t != nil {
				o.Paths = append(o.Paths, c16Cp(t.path))
			}
		}
	case w < 72: // undesignated callbacks
		o.Handlers = s.handlers()
	case w < 96: // designated callbacks
		o.Handlers = s.handlers()
		for i := 0; i < npaths; i++ {
			if k, bad := malformed(); bad {
				o.Paths = append(o.Paths, s.badPath(k))
				continue
			}
			if t := s.pickTarget(func(t *c16Target) bool { return t.kind != "pass" || r.Chance(35) }); t != nil {
				o.Paths = append(o.Paths, c16Cp(t.path))
			}
		}
	default: // an Option carrying neither values nor callbacks
		if r.Chance(60) {
			if k, bad := malformed(); bad {
				o.Paths = append(o.Paths, s.badPath(k))
			} else if t := s.pickTarget(func(t *c16Target) bool { return true }); t != nil {
				o.Paths = append(o.Paths, c16Cp(t.path))
			}
		}
	}
	return o
}

func c16Subset(r *vh.Rand, n int) []int {
	out := []int{}
	for i := 0; i < n; i++ {
		if r.Chance(65) {
			out = append(out, i)
		}
	}
	if r.Chance(20) {
		p := r.Perm(len(out))
		sh := make([]int, len(out))
		for i, j := range p {
			sh[i] = out[j]
		}
		out = sh
	}
	return out
}

// construction: bases and chains / fans of Options derived from them one designation at a time
// (so that the paths slices pass through every small capacity), siblings derived from the
// same base, and derivations from an Option that already has siblings.
func (s *c16GenState) construction() []c16BuildOp {
	r := s.r
	var ops []c16BuildOp
	nb := r.Range(1, 2)
	for i := 0; i < nb; i++ {
		b := c16BuildOp{Op: "base", Vals: []int{}, Handlers: []int{}, Paths: [][]string{}}
		if r.Chance(70) {
			b.Ty = c16ConcreteTys[r.Intn(len(c16ConcreteTys))]
			if t := s.pickTarget(func(t *c16Target) bool { return t.kind == "comp" && t.ty != c16TyNone }); t != nil && r.Chance(85) {
				b.Ty = c16OptTyFor(r, t.ty)
			}
			b.Vals = s.vals()
			b.Spare = c16GenSpare(r, b.Ty, 40)
		} else {
			b.Handlers = s.handlers()
		}
		ops = append(ops, b)
	}
	tyOf := func(i int) (int, bool) { // option type and "carries values" of built option i
		for ops[i].Op == "designate" {
			i = ops[i].Src
		}
		return ops[i].Ty, len(ops[i].Vals) > 0
	}
	nd := r.Range(3, 9)
	last := r.Intn(nb)
	for k := 0; k < nd; k++ {
		src := last
		switch w := r.Intn(100); {
		case w < 50: // extend the chain
		case w < 80 && len(ops) > nb: // a sibling: derive again from the source of the last derivation
			src = ops[len(ops)-1].Src
		default:
			src = r.Intn(len(ops))
		}
		ty, hasVals := tyOf(src)
		d := c16BuildOp{Op: "designate", Src: src, Vals: []int{}, Handlers: []int{}, Paths: [][]string{}, ViaKey: r.Chance(50)}
		np := 1
		if r.Chance(20) {
			np = 2
		}
		for j := 0; j < np; j++ {
			if r.Chance(5) {
				d.Paths = append(d.Paths, s.badPath([]string{"unknown", "belowComp", "belowPass"}[r.Intn(3)]))
				continue
			}
			t := s.pickTarget(func(t *c16Target) bool {
				switch t.kind {
				case "comp":
					return !hasVals || t.ty == ty
				case "pass":
					return r.Chance(25)
				}
				return true
			})
			if t != nil {
				d.Paths = append(d.Paths, c16Cp(t.path))
			}
		}
		ops = append(ops, d)
		if src == last || r.Chance(50) {
			last = len(ops) - 1
		}
	}
	return ops
}

// c16Gen: keyed = the stream of cases about nodes added with WithInputKey / WithOutputKey (most
// nodes carry keys); otherwise a third of the cases has a few keyed nodes.
func c16Gen(r *vh.Rand, keyed bool) *c16Case {
	maxDepth := []int{1, 2, 2, 3, 3}[r.Intn(5)]
	if keyed {
		maxDepth = []int{1, 2, 2, 2, 3}[r.Intn(5)]
	}
	pIn, pOut := 0, 0
	switch {
	case keyed:
		pIn, pOut = r.Range(35, 70), r.Range(10, 40)
	case r.Chance(33):
		pIn, pOut = 25, 15
	}
	tree := func() []c16Node {
		t := c16GenTree(r, 1, maxDepth)
		if pIn > 0 {
			c16AddKeys(r, t, pIn, pOut)
		}
		return t
	}
	g := tree()
	s := &c16GenState{r: r}
	c16Targets(g, nil, &s.targets)
	c := &c16Case{Store: []c16Opt{}, Mode: "seq", Kind: "single"}
	nopts := r.Range(1, 5)
	if r.Chance(4) {
		nopts = 0
	}
	construct := r.Chance(15)
	if construct {
		c.Build = s.construction()
		c16SyncStore(c)
		nopts = len(c.Store)
	} else {
		for i := 0; i < nopts; i++ {
			c.Store = append(c.Store, s.option())
		}
	}
	paradigm := func() string { return c16Paradigm(r) }
	dag := r.Chance(25)
	all := make([]int, nopts)
	for i := range all {
		all[i] = i
	}
	if nopts > 0 && r.Chance(5) {
		all = append(all, r.Intn(nopts)) // the same Option value passed twice
	}
	if construct {
		// pass a few of the constructed Options (typically siblings), not all of them
		all = []int{}
		for i := range c.Build {
			if c.Build[i].Op == "designate" && r.Chance(45) {
				all = append(all, i)
			}
		}
		if len(all) == 0 {
			all = []int{len(c.Build) - 1}
		}
	}
	w := r.Intn(100)
	switch {
	case w < 75:
		c.Calls = []c16Call{{G: g, Ixs: all, Paradigm: paradigm(), Dag: dag}}
	case w < 87:
		c.Kind = "sequence"
		n := r.Range(2, 3)
		for i := 0; i < n; i++ {
			cg, cdag := g, dag
			if r.Chance(20) {
				cg, cdag = c16GenTree(r, 1, maxDepth), r.Chance(25)
			}
			ixs := c16Subset(r, nopts)
			if i == 0 || r.Chance(30) {
				ixs = all
			}
			c.Calls = append(c.Calls, c16Call{G: cg, Ixs: ixs, Paradigm: paradigm(), Dag: cdag})
		}
	default:
		c.Kind = "concurrent"
		c.Mode = "conc"
		c.Reps = r.Range(1, 3)
		n := r.Range(2, 4)
		for i := 0; i < n; i++ {
			ixs := c16Subset(r, nopts)
			if r.Chance(40) {
				ixs = all
			}
			c.Calls = append(c.Calls, c16Call{G: g, Ixs: ixs, Paradigm: paradigm(), Dag: dag})
		}
	}
	if construct {
		c.Kind = "construction/" + c.Kind
	}
	if keyed {
		c.Kind = "keyed/" + c.Kind
	}
	return c
}

// c16GenIface: cases built around lambdas whose declared option type is an interface type.  The
// tree always holds such a lambda (top level and / or inside a nested graph) next to nodes with
// concrete option types; the Options are of several concrete types – the chat-model / retriever
// option types, lambda option types, the type that implements the small interface – sent
// undesignated, designated to the interface-typed lambda (an error: wrong type), to the graph
// around it, or to other nodes.
func c16GenIface(r *vh.Rand) *c16Case {
	lam := func(k string, ty int) c16Node { return c16Node{K: "comp", Key: k, Ty: ty, Impl: "lambda"} }
	ifaceTy := func() int {
		if r.Chance(65) {
			return c16TyAny
		}
		return c16TyI
	}
	concrete := func() int {
		return []int{c16TyA, c16TyB, c16TyE, c16TyE, c16TyM, c16TyM, c16TyR, c16TyD}[r.Intn(8)]
	}
	level := func(keys []string, withIface bool) []c16Node {
		n := r.Range(2, 3)
		perm := r.Perm(len(keys))
		var nodes []c16Node
		at := r.Intn(n)
		for i := 0; i < n; i++ {
			k := keys[perm[i]]
			switch {
			case withIface && i == at:
				nodes = append(nodes, lam(k, ifaceTy()))
			case r.Chance(12):
				nodes = append(nodes, lam(k, ifaceTy()))
			case r.Chance(10):
				nodes = append(nodes, lam(k, c16TyNone))
			default:
				nodes = append(nodes, lam(k, concrete()))
			}
		}
		// a real chat model / retriever component after a lambda
		if r.Chance(35) {
			last := keys[perm[n]]
			if r.Bool() {
				nodes = append(nodes, c16Node{K: "comp", Key: last, Ty: c16TyM, Impl: "model"})
			} else {
				nodes = append(nodes, c16Node{K: "comp", Key: last, Ty: c16TyR, Impl: "retriever"})
			}
		}
		return nodes
	}
	where := r.Intn(100) // where the interface-typed lambda sits: top, nested, both
	g := level(c16Keys, where < 40 || where >= 75)
	if where >= 25 {
		sub := c16Node{K: "graph", Key: "sub", Dag: r.Chance(25), Ch: level(c16Keys, where >= 40)}
		if r.Chance(30) {
			sub.Ch = append(sub.Ch, c16Node{K: "graph", Key: "in", Ch: level(c16Keys, true)})
		}
		pos := r.Intn(len(g) + 1)
		if pos < len(g) && g[pos].Impl != "lambda" { // keep component nodes right after a lambda
			pos = len(g)
		}
		g = append(g[:pos], append([]c16Node{sub}, g[pos:]...)...)
		// a model / retriever component must follow a lambda that feeds it
		for i := 1; i < len(g); i++ {
			if g[i].K == "comp" && g[i].Impl != "lambda" && (g[i-1].K != "comp" || g[i-1].Impl != "lambda") {
				g[i] = lam(g[i].Key, g[i].Ty)
			}
		}
	}
	if r.Chance(30) {
		c16AddKeys(r, g, 30, 15)
	}
	s := &c16GenState{r: r}
	c16Targets(g, nil, &s.targets)
	c := &c16Case{Store: []c16Opt{}, Mode: "seq", Kind: "iface"}
	isIface := func(t *c16Target) bool { return t.kind == "comp" && c16IsIfaceTy(t.ty) }
	nopts := r.Range(1, 4)
	for i := 0; i < nopts; i++ {
		o := c16Opt{Vals: s.vals(), Handlers: []int{}, Paths: [][]string{}, ViaKey: r.Chance(40), Ty: concrete()}
		switch w := r.Intn(100); {
		case w < 50: // undesignated
		case w < 68: // designated to an interface-typed lambda: wrong type
			if t := s.pickTarget(isIface); t != nil {
				if t.ty == c16TyI && r.Chance(60) {
					o.Ty = c16TyE
				}
				o.Paths = append(o.Paths, c16Cp(t.path))
			}
		case w < 82: // designated to a graph node that holds one
			if t := s.pickTarget(func(t *c16Target) bool { return t.kind == "graph" }); t != nil {
				o.Paths = append(o.Paths, c16Cp(t.path))
			}
		default: // designated to a node of the option's own type
			if t := s.pickTarget(func(t *c16Target) bool { return t.kind == "comp" && t.ty != c16TyNone && !c16IsIfaceTy(t.ty) }); t != nil {
				o.Ty = t.ty
				o.Paths = append(o.Paths, c16Cp(t.path))
			}
		}
		c.Store = append(c.Store, o)
	}
	if r.Chance(20) {
		cb := c16Opt{Vals: []int{}, Handlers: s.handlers(), Paths: [][]string{}}
		if t := s.pickTarget(isIface); t != nil && r.Chance(60) {
			cb.Paths = append(cb.Paths, c16Cp(t.path)) // callbacks designated to the lambda are fine
		}
		c.Store = append(c.Store, cb)
	}
	ixs := make([]int, len(c.Store))
	for i := range ixs {
		ixs[i] = i
	}
	c.Calls = []c16Call{{G: g, Ixs: ixs, Paradigm: c16Paradigm(r), Dag: r.Chance(25)}}
	if r.Chance(15) { // the same Options again, and a subset of them
		c.Kind = "iface/sequence"
		c.Calls = append(c.Calls, c16Call{G: g, Ixs: c16Subset(r, len(c.Store)), Paradigm: c16Paradigm(r), Dag: c.Calls[0].Dag})
	}
	return c
}

// ---------------------------------------------------------------------------------------
// corpus: hand-written cases run first on every seed
// ---------------------------------------------------------------------------------------

func c16Corpus() []*c16Case {
	lam := func(k string, ty int) c16Node { return c16Node{K: "comp", Key: k, Ty: ty, Impl: "lambda"} }
	tree := []c16Node{
		lam("a", c16TyA), lam("b", c16TyB), {K: "pass", Key: "p"},
		{K: "graph", Key: "sub", Ch: []c16Node{
			lam("a", c16TyA), {K: "pass", Key: "sp"},
			{K: "graph", Key: "in", Ch: []c16Node{lam("a", c16TyA), lam("m", c16TyNone), {K: "comp", Key: "cm", Ty: c16TyM, Impl: "model"}}},
		}},
	}
	one := func(kind string, opts ...c16Opt) *c16Case {
		ixs := make([]int, len(opts))
		for i := range ixs {
			ixs[i] = i
		}
		for i := range opts {
			if opts[i].Vals == nil {
				opts[i].Vals = []int{}
			}
			if opts[i].Handlers == nil {
				opts[i].Handlers = []int{}
			}
			if opts[i].Paths == nil {
				opts[i].Paths = [][]string{}
			}
		}
		return &c16Case{Store: opts, Calls: []c16Call{{G: tree, Ixs: ixs, Paradigm: "invoke"}}, Mode: "seq", Kind: "corpus:" + kind}
	}
	cs := []*c16Case{
		one("undesignated", c16Opt{Ty: c16TyA, Vals: []int{1, 2}}, c16Opt{Ty: c16TyM, Vals: []int{3}}),
		one("designated-graph", c16Opt{Ty: c16TyA, Vals: []int{1}, Paths: [][]string{{"sub"}}}),
		one("designated-deep", c16Opt{Ty: c16TyA, Vals: []int{1}, Paths: [][]string{{"sub", "in", "a"}, {"a"}}}),
		one("designated-inner-graph", c16Opt{Ty: c16TyA, Vals: []int{1}, Paths: [][]string{{"sub", "in"}}}),
		one("wrong-type", c16Opt{Ty: c16TyA, Vals: []int{1}, Paths: [][]string{{"b"}}}),
		one("wrong-type-nested", c16Opt{Ty: c16TyB, Vals: []int{1}, Paths: [][]string{{"sub", "in", "a"}}}),
		one("unknown-nested", c16Opt{Ty: c16TyA, Vals: []int{1}, Paths: [][]string{{"sub", "in", "zz"}}}),
		one("below-component", c16Opt{Ty: c16TyA, Vals: []int{1}, Paths: [][]string{{"a", "x"}}}),
		one("below-passthrough", c16Opt{Ty: c16TyA, Vals: []int{1}, Paths: [][]string{{"p", "x"}}}),
		one("below-passthrough-nested", c16Opt{Ty: c16TyA, Vals: []int{1}, Paths: [][]string{{"sub", "sp", "a"}}}),
		one("callbacks-below-passthrough", c16Opt{Handlers: []int{1}, Paths: [][]string{{"p", "x"}}}),
		one("to-passthrough", c16Opt{Ty: c16TyA, Vals: []int{1}, Paths: [][]string{{"p"}}}),
		one("empty-path", c16Opt{Ty: c16TyA, Vals: []int{1}, Paths: [][]string{{}}}),
		one("callbacks", c16Opt{Handlers: []int{1}}, c16Opt{Handlers: []int{2}, Paths: [][]string{{"a"}}},
			c16Opt{Handlers: []int{3}, Paths: [][]string{{"sub"}}}, c16Opt{Handlers: []int{4}, Paths: [][]string{{"sub", "in", "cm"}}}),
		one("no-option-lambda", c16Opt{Ty: c16TyA, Vals: []int{1}, Paths: [][]string{{"sub", "in", "m"}}}),
	}
	// the same Option values in three concurrent calls and then again in sequence
	shared := []c16Opt{
		{Ty: c16TyA, Vals: []int{1}, Handlers: []int{}, Paths: [][]string{{"sub", "in", "a"}, {"sub"}}},
		{Ty: c16TyA, Vals: []int{2, 3}, Handlers: []int{}, Paths: [][]string{}},
		{Vals: []int{}, Handlers: []int{1}, Paths: [][]string{{"sub", "in"}}},
	}
	mk := func(mode string) *c16Case {
		c := &c16Case{Store: shared, Mode: mode, Reps: 3, Kind: "corpus:shared-" + mode}
		for _, ixs := range [][]int{{0, 1, 2}, {0}, {1, 2}, {0, 1, 2}} {
			c.Calls = append(c.Calls, c16Call{G: tree, Ixs: ixs, Paradigm: "invoke"})
		}
		return c
	}
	// Options derived from one base: base = a,b,c one designation at a time (paths has spare
	// capacity then), o1 = base+d, o2 = base+e; o1 must still designate d.
	flat := []c16Node{lam("a", c16TyA), lam("b", c16TyA), lam("c", c16TyA), lam("d", c16TyA), lam("e", c16TyA)}
	des := func(src int, viaKey bool, paths ...[]string) c16BuildOp {
		return c16BuildOp{Op: "designate", Src: src, Vals: []int{}, Handlers: []int{}, Paths: paths, ViaKey: viaKey}
	}
	derived := &c16Case{Mode: "seq", Kind: "corpus:derived-siblings",
		Build: []c16BuildOp{{Op: "base", Ty: c16TyA, Vals: []int{1}, Handlers: []int{}, Paths: [][]string{}},
			des(0, true, []string{"a"}), des(1, true, []string{"b"}), des(2, true, []string{"c"}),
			des(3, true, []string{"d"}), des(3, false, []string{"e"})},
		Calls: []c16Call{{G: flat, Ixs: []int{4}, Paradigm: "invoke"}, {G: flat, Ixs: []int{5}, Paradigm: "invoke"}}}
	c16SyncStore(derived)
	// lambdas whose declared option type is an interface type, at the top and in a nested graph
	itree := []c16Node{
		lam("la", c16TyAny), {K: "comp", Key: "m", Ty: c16TyM, Impl: "model"}, lam("ts", c16TyNone),
		{K: "graph", Key: "sub", Ch: []c16Node{lam("ia", c16TyAny), lam("ii", c16TyI), lam("it", c16TyE)}},
	}
	ione := func(kind string, opts ...c16Opt) *c16Case {
		c := one(kind, opts...)
		c.Calls[0].G = itree
		return c
	}
	cs = append(cs,
		ione("iface-undesignated", c16Opt{Ty: c16TyM, Vals: []int{1, 2}}, c16Opt{Ty: c16TyE, Vals: []int{3}}, c16Opt{Ty: c16TyA, Vals: []int{4}}),
		ione("iface-model-option-to-any-lambda", c16Opt{Ty: c16TyM, Vals: []int{1}, Paths: [][]string{{"la"}}}),
		ione("iface-model-option-to-nested-any-lambda", c16Opt{Ty: c16TyM, Vals: []int{1}, Paths: [][]string{{"sub", "ia"}}}),
		ione("iface-implementing-option-to-iface-lambda", c16Opt{Ty: c16TyE, Vals: []int{1}, Paths: [][]string{{"sub", "ii"}}}),
		ione("iface-option-to-graph-around", c16Opt{Ty: c16TyE, Vals: []int{1}, Paths: [][]string{{"sub"}}}),
		ione("iface-callbacks-to-any-lambda", c16Opt{Handlers: []int{1}, Paths: [][]string{{"la"}, {"sub", "ii"}}}),
	)
	// nodes added with WithInputKey / WithOutputKey, every case in the four paradigms:
	//   a ⟶ k (input key) ⟶ sub (input key)[ a ⟶ in[ a ⟶ cm (chat model, input key) ] ] ⟶ o (output key) ⟶ z (input key)
	ktree := []c16Node{
		lam("a", c16TyA),
		{K: "comp", Key: "k", Ty: c16TyA, Impl: "lambda", InKey: "k"},
		{K: "graph", Key: "sub", InKey: "q", Ch: []c16Node{
			lam("a", c16TyA),
			{K: "graph", Key: "in", Ch: []c16Node{lam("a", c16TyA), {K: "comp", Key: "cm", Ty: c16TyM, Impl: "model", InKey: "r"}}},
		}},
		{K: "comp", Key: "o", Ty: c16TyA, Impl: "lambda", OutKey: "k"},
		{K: "comp", Key: "z", Ty: c16TyB, Impl: "lambda", InKey: "k"},
	}
	kone := func(kind string, opts ...c16Opt) {
		for _, par := range []string{"invoke", "stream", "collect", "transform"} {
			c := one(kind+"/"+par, append([]c16Opt{}, opts...)...)
			c.Calls[0].G = ktree
			c.Calls[0].Paradigm = par
			cs = append(cs, c)
		}
	}
	kone("keys-undesignated", c16Opt{Ty: c16TyA, Vals: []int{1, 2}}, c16Opt{Ty: c16TyM, Vals: []int{3}}, c16Opt{Ty: c16TyB, Vals: []int{4}})
	kone("keys-designated", c16Opt{Ty: c16TyA, Vals: []int{1}, Paths: [][]string{{"k"}, {"sub", "in", "a"}}}, c16Opt{Ty: c16TyB, Vals: []int{2}, Paths: [][]string{{"z"}}},
		c16Opt{Ty: c16TyM, Vals: []int{3}, Paths: [][]string{{"sub", "in", "cm"}}})
	kone("keys-designated-graph", c16Opt{Ty: c16TyA, Vals: []int{1}, Paths: [][]string{{"sub"}}})
	kone("keys-callbacks", c16Opt{Handlers: []int{1}}, c16Opt{Handlers: []int{2}, Paths: [][]string{{"k"}}},
		c16Opt{Handlers: []int{3}, Paths: [][]string{{"sub", "in"}}}, c16Opt{Handlers: []int{4}, Paths: [][]string{{"sub", "in", "cm"}}})
	kone("keys-unknown-nested", c16Opt{Ty: c16TyA, Vals: []int{1}, Paths: [][]string{{"sub", "zz"}}})
	kone("keys-wrong-type-nested", c16Opt{Ty: c16TyB, Vals: []int{1}, Paths: [][]string{{"sub", "in", "a"}}})
	return append(append(append(cs, mk("conc"), mk("seq"), derived), c16SliceCorpus()...), c16ResumeCorpus()...)
}

// ---------------------------------------------------------------------------------------
// shrinking (greedy; keeps a reduction when the same signature is still reported)
// ---------------------------------------------------------------------------------------

func c16Clone(c *c16Case) *c16Case {
	b, _ := json.Marshal(c)
	var d c16Case
	json.Unmarshal(b, &d)
	if d.Store == nil {
		d.Store = []c16Opt{}
	}
	for i := range d.Build {
		if d.Build[i].Vals == nil {
			d.Build[i].Vals = []int{}
		}
		if d.Build[i].Handlers == nil {
			d.Build[i].Handlers = []int{}
		}
		if d.Build[i].Paths == nil {
			d.Build[i].Paths = [][]string{}
		}
	}
	for i := range d.Store {
		if d.Store[i].Vals == nil {
			d.Store[i].Vals = []int{}
		}
		if d.Store[i].Handlers == nil {
			d.Store[i].Handlers = []int{}
		}
		if d.Store[i].Paths == nil {
			d.Store[i].Paths = [][]string{}
		}
	}
	return &d
}

func c16HasSig(ctx *vh.Ctx, c *c16Case, sig string) bool {
	tmp := *ctx
	tmp.Res = vh.NewResult("C16", ctx.Seed, "shrink")
	if _, _, err := c16Eval(&tmp, c); err != nil {
		return false
	}
	for _, d := range tmp.Res.Disagreements {
		if d.Signature == sig {
			return true
		}
	}
	return false
}

// c16DropNode removes the idx-th node (pre-order) of a tree.
func c16DropNode(nodes []c16Node, idx *int) ([]c16Node, bool) {
	for i := range nodes {
		if *idx == 0 {
			out := append(append([]c16Node{}, nodes[:i]...), nodes[i+1:]...)
			*idx = -1
			return out, true
		}
		*idx--
		if nodes[i].K == "graph" {
			if ch, ok := c16DropNode(nodes[i].Ch, idx); ok {
				out := append([]c16Node{}, nodes...)
				out[i].Ch = ch
				return out, true
			}
		}
	}
	return nodes, false
}

// c16NthNode: the idx-th node (pre-order) of a tree.
func c16NthNode(nodes []c16Node, idx *int) *c16Node {
	for i := range nodes {
		if *idx == 0 {
			return &nodes[i]
		}
		*idx--
		if nodes[i].K == "graph" {
			if n := c16NthNode(nodes[i].Ch, idx); n != nil {
				return n
			}
		}
	}
	return nil
}

func c16TreeOK(nodes []c16Node) bool {
	if len(nodes) == 0 {
		return false
	}
	for i := range nodes {
		if nodes[i].K == "comp" && nodes[i].Impl != "lambda" {
			if i == 0 || nodes[i-1].K != "comp" || nodes[i-1].Impl != "lambda" {
				return false // a real component needs a lambda in front that feeds it
			}
		}
		if nodes[i].K == "graph" && !c16TreeOK(nodes[i].Ch) {
			return false
		}
	}
	return true
}

func c16Shrink(ctx *vh.Ctx, c *c16Case, sig string) *c16Case {
	cur := c16Clone(c)
	budget := 150
	try := func(cand *c16Case) bool {
		if budget <= 0 || !c16AsksOK(cand) {
			return false
		}
		budget--
		if c16HasSig(ctx, cand, sig) {
			cur = cand
			return true
		}
		return false
	}
	for progress := true; progress && budget > 0; {
		progress = false
		// an interrupt / resume pair only
		if len(cur.Calls) > 2 {
			for i := 1; i < len(cur.Calls); i++ {
				if cur.Calls[i].Ask != "resume" {
					continue
				}
				cand := c16Clone(cur)
				cand.Calls = []c16Call{cand.Calls[i-1], cand.Calls[i]}
				cand.Mode, cand.Reps = "seq", 0
				if try(cand) {
					progress = true
					break
				}
			}
		}
		// one call only
		if len(cur.Calls) > 1 {
			for i := range cur.Calls {
				cand := c16Clone(cur)
				cand.Calls = []c16Call{cand.Calls[i]}
				cand.Mode, cand.Reps = "seq", 0
				if try(cand) {
					progress = true
					break
				}
			}
		}
		// drop a construction step nothing else derives from
		for i := len(cur.Build) - 1; i >= 0 && len(cur.Build) > 1; i-- {
			used := false
			for j := range cur.Build {
				if cur.Build[j].Op == "designate" && cur.Build[j].Src == i {
					used = true
				}
			}
			if used {
				continue
			}
			cand := c16Clone(cur)
			cand.Build = append(cand.Build[:i], cand.Build[i+1:]...)
			for j := range cand.Build {
				if cand.Build[j].Op == "designate" && cand.Build[j].Src > i {
					cand.Build[j].Src--
				}
			}
			for k := range cand.Calls {
				ixs := []int{}
				for _, ix := range cand.Calls[k].Ixs {
					switch {
					case ix < i:
						ixs = append(ixs, ix)
					case ix > i:
						ixs = append(ixs, ix-1)
					}
				}
				cand.Calls[k].Ixs = ixs
			}
			c16SyncStore(cand)
			if try(cand) {
				progress = true
			}
		}
		// drop an option
		for i := 0; i < len(cur.Store) && len(cur.Build) == 0; i++ {
			cand := c16Clone(cur)
			cand.Store = append(cand.Store[:i], cand.Store[i+1:]...)
			for k := range cand.Calls {
				ixs := []int{}
				for _, ix := range cand.Calls[k].Ixs {
					switch {
					case ix < i:
						ixs = append(ixs, ix)
					case ix > i:
						ixs = append(ixs, ix-1)
					}
				}
				cand.Calls[k].Ixs = ixs
			}
			if try(cand) {
				progress = true
				i--
			}
		}
		// drop a path / surplus values
		for i := range cur.Store {
			if len(cur.Build) > 0 {
				break
			}
			for j := 0; j < len(cur.Store[i].Paths); j++ {
				cand := c16Clone(cur)
				cand.Store[i].Paths = append(cand.Store[i].Paths[:j], cand.Store[i].Paths[j+1:]...)
				if try(cand) {
					progress = true
					j--
				}
			}
			if len(cur.Store[i].Vals) > 1 {
				cand := c16Clone(cur)
				cand.Store[i].Vals = cand.Store[i].Vals[:1]
				if try(cand) {
					progress = true
				}
			}
		}
		// less spare capacity
		for i := range cur.Store {
			if len(cur.Build) == 0 && cur.Store[i].Spare > 0 {
				cand := c16Clone(cur)
				cand.Store[i].Spare--
				if try(cand) {
					progress = true
				}
			}
		}
		for i := range cur.Build {
			if cur.Build[i].Spare > 0 {
				cand := c16Clone(cur)
				cand.Build[i].Spare--
				c16SyncStore(cand)
				if try(cand) {
					progress = true
				}
			}
		}
		// a simpler paradigm, fewer keys
		for k := range cur.Calls {
			for _, par := range []string{"invoke", "stream"} {
				if p := cur.Calls[k].Paradigm; p == par || p == "invoke" || p == "" {
					continue
				}
				cand := c16Clone(cur)
				cand.Calls[k].Paradigm = par
				if try(cand) {
					progress = true
				}
			}
			for idx := 0; idx < 40; idx++ {
				for _, which := range []string{"out", "in"} {
					cand := c16Clone(cur)
					n := idx
					nd := c16NthNode(cand.Calls[k].G, &n)
					if nd == nil {
						break
					}
					if which == "out" && nd.OutKey != "" {
						nd.OutKey = ""
					} else if which == "in" && nd.InKey != "" {
						nd.InKey = ""
					} else {
						continue
					}
					if !c16FlowOK(cand.Calls[k].G) {
						continue
					}
					if try(cand) {
						progress = true
					}
				}
			}
		}
		// drop a node
		for k := range cur.Calls {
			for idx := 0; idx < 40; idx++ {
				cand := c16Clone(cur)
				n := idx
				g, ok := c16DropNode(cand.Calls[k].G, &n)
				if !ok {
					break
				}
				if !c16TreeOK(g) || !c16FlowOK(g) {
					continue
				}
				// the calls of an interrupt / resume pair run the same graph: drop the node in all of them
				old := vh.Canon(cur.Calls[k].G)
				for j := range cand.Calls {
					if vh.Canon(cur.Calls[j].G) == old {
						cand.Calls[j].G = g
					}
				}
				if try(cand) {
					progress = true
					idx--
				}
			}
		}
	}
	return cur
}
