//go:build verif && (vh_all || vh_c03)

package props

// C03 — run result independent of node completion order; no completion lost.
//
// One case = an acyclic graph of deterministic nodes (2-6 parallel nodes per layer) in one
// of the three execution modes (Pregel batch, DAG batch, Workflow = eager) together with a
// schedule: either seeded yields inside the node bodies and at the taskManager hook points,
// or a barrier script (every node body blocks on its own gate; a releaser goroutine opens the
// gates in a seeded priority order, always waiting until every node that must be running by
// then really is).  Compared per case:
//   * result and multiset of node executions  vs  the order-free reference of the Lean model
//   * every started execution collected exactly once before Invoke returns (post-handlers)
//   * the real taskManager event trace replayed on the Lean transition system (hooks/C03.diff)
//   * hang = timeout = violation class

import (
	"context"
	"encoding/json"
	"fmt"
	"runtime"
	"sort"
	"strings"
	"sync"
	"time"

	"github.com/cloudwego/eino/compose"
	"github.com/cloudwego/eino/verifharness/vh"
)

func init() { vh.Register("C03", runC03) }

// ---- case language ----

type c03Node struct {
	Key   string   `json:"key"`
	Preds []string `json:"preds"` // sorted; "start" for START
}

type c03Case struct {
	// read by the oracle
	Kind     string    `json:"kind"` // "run"
	Nodes    []c03Node `json:"nodes"`
	EndPreds []string  `json:"endPreds"`
	Input    string    `json:"input"`
	// implementation side
	Mode      string         `json:"mode"`  // pregel | dag | workflow
	Sched     string         `json:"sched"` // yield | barrier
	YieldSeed uint64         `json:"yieldSeed,omitempty"`
	Yields    map[string]int `json:"yields,omitempty"`   // yield: Gosched count per node body
	Priority  []string       `json:"priority,omitempty"` // barrier: release priority
	Note      string         `json:"note,omitempty"`
}

type c03Ref struct {
	Result   [][]string `json:"result"`
	Execs    []string   `json:"execs"`
	FeedsEnd []string   `json:"feedsEnd"`
}

type c03Obs struct {
	Class       string         `json:"class"` // ok | error | hang | panic-escaped | build-error
	Detail      string         `json:"detail,omitempty"`
	Result      [][]string     `json:"result"`
	Started     map[string]int `json:"started"`
	Collected   map[string]int `json:"collected"`   // at the moment Invoke returned
	Uncollected []string       `json:"uncollected"` // started, body entered, never handed back
	Trace       any            `json:"trace,omitempty"`
}

// ---- instrumented node bodies ----

type c03Run struct {
	c         *c03Case
	mu        sync.Mutex
	started   map[string]int
	collected map[string]int
	startedCh map[string]chan struct{}
	leftCh    map[string]chan struct{}
	gate      map[string]chan struct{}
	gateOnce  map[string]*sync.Once
	active    int
	cond      *sync.Cond
	runDone   chan struct{}
}

func c03NewRun(c *c03Case) *c03Run {
	r := &c03Run{c: c, started: map[string]int{}, collected: map[string]int{}, startedCh: map[string]chan struct{}{},
		leftCh: map[string]chan struct{}{}, gate: map[string]chan struct{}{}, gateOnce: map[string]*sync.Once{}, runDone: make(chan struct{})}
	r.cond = sync.NewCond(&r.mu)
	for _, n := range c.Nodes {
		r.startedCh[n.Key] = make(chan struct{})
		r.leftCh[n.Key] = make(chan struct{})
		r.gate[n.Key] = make(chan struct{})
		r.gateOnce[n.Key] = &sync.Once{}
	}
	return r
}

func (r *c03Run) open(key string) { r.gateOnce[key].Do(func() { close(r.gate[key]) }) }

func (r *c03Run) body(key string, in map[string]any) string {
	defer func() {
		r.mu.Lock()
		r.active--
		r.cond.Broadcast()
		r.mu.Unlock()
	}()
	r.mu.Lock()
	r.active++
	r.started[key]++
	first := r.started[key] == 1
	r.mu.Unlock()
	if first {
		close(r.startedCh[key])
	}
	if r.c.Sched == "barrier" {
		<-r.gate[key]
	} else {
		for i := 0; i < r.c.Yields[key]; i++ {
			runtime.Gosched()
		}
	}
	out := c03Render(key, in)
	if first {
		close(r.leftCh[key])
	}
	return out
}

func (r *c03Run) collect(key string) {
	r.mu.Lock()
	r.collected[key]++
	r.mu.Unlock()
}

func c03Render(key string, in map[string]any) string {
	ks := make([]string, 0, len(in))
	for k := range in {
		ks = append(ks, k)
	}
	sort.Strings(ks)
	parts := make([]string, 0, len(ks))
	for _, k := range ks {
		parts = append(parts, k+"="+fmt.Sprint(in[k]))
	}
	return key + "(" + strings.Join(parts, ",") + ")"
}

type c03State struct{}

// ---- building the runnable ----

type c03Invoker func(ctx context.Context) (map[string]any, error)

func c03Build(c *c03Case, r *c03Run) (c03Invoker, error) {
	ctx := context.Background()
	gen := compose.WithGenLocalState(func(ctx context.Context) *c03State { return &c03State{} })
	if c.Mode == "workflow" {
		wf := compose.NewWorkflow[string, map[string]any](gen)
		for _, n := range c.Nodes {
			key := n.Key
			wn := wf.AddLambdaNode(key, compose.InvokableLambda(func(ctx context.Context, in map[string]any) (string, error) {
				return r.body(key, in), nil
			}), compose.WithStatePostHandler(func(ctx context.Context, out string, st *c03State) (string, error) {
				r.collect(key)
				return out, nil
			}))
			for _, p := range n.Preds {
				wn.AddInput(p, compose.ToField(p))
			}
		}
		for _, p := range c.EndPreds {
			wf.End().AddInput(p, compose.ToField(p))
		}
		run, err := wf.Compile(ctx)
		if err != nil {
			return nil, err
		}
		return func(ctx context.Context) (map[string]any, error) { return run.Invoke(ctx, c.Input) }, nil
	}
	g := compose.NewGraph[map[string]any, map[string]any](gen)
	for _, n := range c.Nodes {
		key := n.Key
		err := g.AddLambdaNode(key, compose.InvokableLambda(func(ctx context.Context, in map[string]any) (map[string]any, error) {
			return map[string]any{key: r.body(key, in)}, nil
		}), compose.WithStatePostHandler(func(ctx context.Context, out map[string]any, st *c03State) (map[string]any, error) {
			r.collect(key)
			return out, nil
		}))
		if err != nil {
			return nil, err
		}
	}
	for _, n := range c.Nodes {
		for _, p := range n.Preds {
			if err := g.AddEdge(p, n.Key); err != nil {
				return nil, err
			}
		}
	}
	for _, p := range c.EndPreds {
		if err := g.AddEdge(p, compose.END); err != nil {
			return nil, err
		}
	}
	var opts []compose.GraphCompileOption
	if c.Mode == "dag" {
		opts = append(opts, compose.WithNodeTriggerMode(compose.AllPredecessor))
	}
	run, err := g.Compile(ctx, opts...)
	if err != nil {
		return nil, err
	}
	return func(ctx context.Context) (map[string]any, error) {
		return run.Invoke(ctx, map[string]any{compose.START: c.Input})
	}, nil
}

// ---- barrier script ----

// c03Batches: the supersteps of the batch modes (a node runs in the first batch after all
// its predecessors have run; the run stops once every END predecessor has run).
func c03Batches(c *c03Case) [][]string {
	done := map[string]bool{compose.START: true}
	var out [][]string
	for {
		endReady := true
		for _, p := range c.EndPreds {
			if !done[p] {
				endReady = false
			}
		}
		if endReady {
			return out
		}
		var b []string
		for _, n := range c.Nodes {
			if done[n.Key] {
				continue
			}
			ok := true
			for _, p := range n.Preds {
				if !done[p] {
					ok = false
				}
			}
			if ok {
				b = append(b, n.Key)
			}
		}
		if len(b) == 0 {
			return out
		}
		for _, k := range b {
			done[k] = true
		}
		out = append(out, b)
	}
}

// releaser opens the gates in priority order.  Before every release it waits until every
// node that must have been started by then (given the bodies that have returned so far) is
// inside its body, so that the chosen node really overtakes its siblings.
func (r *c03Run) releaser() {
	c := r.c
	left := map[string]bool{compose.START: true}
	released := map[string]bool{}
	batches := c03Batches(c)
	expected := func() []string {
		var out []string
		if c.Mode != "workflow" {
			for _, b := range batches {
				all := true
				for _, k := range b {
					if !left[k] {
						all = false
					}
				}
				if !all {
					return b
				}
			}
			return nil
		}
		for _, n := range c.Nodes {
			ok := true
			for _, p := range n.Preds {
				if !left[p] {
					ok = false
				}
			}
			if ok {
				out = append(out, n.Key)
			}
		}
		return out
	}
	for {
		exp := expected()
		var cand []string
		for _, k := range exp {
			if !released[k] {
				cand = append(cand, k)
			}
		}
		if len(cand) == 0 {
			return
		}
		for _, k := range cand {
			select {
			case <-r.startedCh[k]:
			case <-r.runDone:
				return
			}
		}
		next := ""
		for _, p := range c.Priority {
			for _, k := range cand {
				if k == p && next == "" {
					next = k
				}
			}
		}
		if next == "" {
			next = cand[0]
		}
		released[next] = true
		r.open(next)
		select {
		case <-r.leftCh[next]:
			left[next] = true
		case <-r.runDone:
			return
		}
	}
}

// ---- one run of the implementation ----

func c03Pairs(m map[string]any) [][]string {
	ks := make([]string, 0, len(m))
	for k := range m {
		ks = append(ks, k)
	}
	sort.Strings(ks)
	out := [][]string{}
	for _, k := range ks {
		out = append(out, []string{k, fmt.Sprint(m[k])})
	}
	return out
}

func c03Impl(c *c03Case) (*c03Obs, []compose.VerifC03Event) {
	o := &c03Obs{Result: [][]string{}, Started: map[string]int{}, Collected: map[string]int{}, Uncollected: []string{}}
	r := c03NewRun(c)
	var inv c03Invoker
	var berr error
	if p, pv := vh.Safely(func() { inv, berr = c03Build(c, r) }); p {
		o.Class, o.Detail = "build-error", fmt.Sprint("panic: ", pv)
		return o, nil
	}
	if berr != nil {
		o.Class, o.Detail = "build-error", berr.Error()
		return o, nil
	}
	compose.VerifC03Reset(c.YieldSeed, c.Sched == "yield")
	if c.Sched == "barrier" {
		go r.releaser()
	}
	var res map[string]any
	var rerr error
	snapshot := func() {
		r.mu.Lock()
		for k, v := range r.started {
			o.Started[k] = v
		}
		for k, v := range r.collected {
			o.Collected[k] = v
		}
		r.mu.Unlock()
	}
	finished := false
	panicked, pv := vh.Safely(func() {
		finished = vh.WithTimeout(20*time.Second, func() {
			res, rerr = inv(context.Background())
			snapshot() // what has been handed back at the moment Invoke returns
		})
	})
	close(r.runDone)
	if !finished && !panicked {
		snapshot()
	}
	for _, n := range c.Nodes { // let every straggler leave its body
		r.open(n.Key)
	}
	wgDone := make(chan struct{})
	go func() { // quiesce: every body that was entered has returned (cleanup only, not an observable)
		r.mu.Lock()
		for r.active > 0 {
			r.cond.Wait()
		}
		r.mu.Unlock()
		close(wgDone)
	}()
	select {
	case <-wgDone:
	case <-time.After(10 * time.Second):
	}
	events := compose.VerifC03Events()
	switch {
	case panicked:
		o.Class, o.Detail = "panic-escaped", fmt.Sprint(pv)
	case !finished:
		o.Class = "hang"
	case rerr != nil:
		o.Class, o.Detail = "error", rerr.Error()
	default:
		o.Class = "ok"
		o.Result = c03Pairs(res)
	}
	for k, s := range o.Started {
		if o.Collected[k] < s {
			o.Uncollected = append(o.Uncollected, k)
		}
	}
	sort.Strings(o.Uncollected)
	return o, events
}

// ---- comparison ----

func c03Sorted(s []string) []string { return vh.SortedStrings(s) }

func c03Has(l []string, k string) bool {
	for _, x := range l {
		if x == k {
			return true
		}
	}
	return false
}

func c03Shape(c *c03Case) string {
	deadEnds := 0
	feeds := map[string]bool{}
	// nodes with a path to END (backwards closure)
	changed := true
	for _, p := range c.EndPreds {
		feeds[p] = true
	}
	for changed {
		changed = false
		for _, n := range c.Nodes {
			if feeds[n.Key] {
				for _, p := range n.Preds {
					if p != compose.START && !feeds[p] {
						feeds[p] = true
						changed = true
					}
				}
			}
		}
	}
	for _, n := range c.Nodes {
		if !feeds[n.Key] {
			deadEnds++
		}
	}
	return fmt.Sprintf("n=%d:deadEnds=%d", len(c.Nodes), deadEnds)
}

var c03TraceSeen, c03TraceNoted bool

func c03One(ctx *vh.Ctx, c *c03Case) error {
	ctx.Progress.Mark(c)
	raw, err := ctx.Oracle.Ask("C03", c)
	if err != nil {
		return err
	}
	var ref c03Ref
	if err := json.Unmarshal(raw, &ref); err != nil {
		return fmt.Errorf("oracle answer: %v: %s", err, raw)
	}
	obs, events := c03Impl(c)

	key := fmt.Sprintf("%s|%s|%v|%v|%v", c.Mode, c.Sched, c.Nodes, c.EndPreds, c.Priority)
	parallel := len(c03Batches(c)) > 0 && len(c.Nodes) >= 2
	ctx.Res.Count(key, parallel)
	ctx.Res.Dist("mode:" + c.Mode)
	ctx.Res.Dist("sched:" + c.Sched)
	ctx.Res.Dist(fmt.Sprintf("nodes:%d", len(c.Nodes)))
	ctx.Res.Dist("class:" + obs.Class)
	ctx.Res.Dist("shape:" + c03Shape(c))
	ctx.Res.Sample(c)
	dis := func(sig, what string, model any) {
		ctx.Res.Disagree(vh.Disagreement{Signature: sig, What: what, Case: c, Model: model, Impl: obs})
	}
	ms := c.Mode + ":" + c.Sched
	switch obs.Class {
	case "build-error":
		dis("C03:build-error:"+c.Mode, "the generated graph does not compile: "+obs.Detail, ref)
		return nil
	case "hang":
		dis("C03:hang:"+ms, "Invoke did not return within 20 s (lost wake-up / deadlock class)", ref)
		return nil
	case "panic-escaped":
		dis("C03:panic-escaped:"+ms, "a panic escaped Invoke: "+obs.Detail, ref)
		return nil
	case "error":
		dis("C03:unexpected-error:"+ms, "Invoke failed on a graph of total deterministic nodes: "+obs.Detail, ref)
		return nil
	}
	// result
	if !vh.CanonEq(obs.Result, ref.Result) {
		dis("C03:result-differs:"+ms, "the run result differs from the order-free reference result", ref)
	}
	// executions: nodes feeding END exactly once; batch modes: exactly the reference executions
	for _, n := range c.Nodes {
		k := n.Key
		want := 0
		if c03Has(ref.Execs, k) {
			want = 1
		}
		got := obs.Started[k]
		if c.Mode == "workflow" && !c03Has(ref.FeedsEnd, k) {
			// eager: whether a node without a path to END is started before END fires depends on
			// the schedule and is not a node execution that feeds the result; at most once
			if got > 1 {
				dis("C03:executions-differ:"+ms, fmt.Sprintf("node %s was executed %d times", k, got), ref)
			}
			if got == 1 {
				ctx.Res.Dist("deadEnd:started")
			}
			continue
		}
		if got != want {
			dis("C03:executions-differ:"+ms, fmt.Sprintf("node %s was executed %d times, reference %d", k, got, want), ref)
		}
	}
	// exactly-once collection
	for k, n := range obs.Collected {
		if n > obs.Started[k] || n > 1 {
			dis("C03:duplicate-collection:"+ms, fmt.Sprintf("node %s was handed back %d times for %d execution(s)", k, n, obs.Started[k]), ref)
		}
	}
	if len(obs.Uncollected) > 0 {
		onlyDeadEnds := true
		for _, k := range obs.Uncollected {
			if c03Has(ref.FeedsEnd, k) {
				onlyDeadEnds = false
			}
		}
		if c.Mode == "workflow" && onlyDeadEnds {
			ctx.Res.Dist("finding:eager-dead-end-uncollected")
			dis("C03:uncollected-at-return:eager:node-without-path-to-END",
				fmt.Sprintf("Invoke returned while started node(s) %v (no path to END) had not been collected; their post-handlers never ran", obs.Uncollected), ref)
		} else {
			dis("C03:uncollected-at-return:"+c.Mode+":other",
				fmt.Sprintf("Invoke returned while started node(s) %v had not been collected", obs.Uncollected), ref)
		}
	}
	// trace conformance
	if compose.VerifC03TraceEnabled() {
		c03TraceSeen = true
		return c03Trace(ctx, c, obs, events, dis)
	}
	if !c03TraceNoted {
		c03TraceNoted = true
		ctx.Res.Note("hooks/C03.diff is not applied to this tree: no taskManager events are emitted, trace conformance skipped (black-box checks only)")
	}
	ctx.Res.Dist("trace:skipped-no-hooks")
	return nil
}

func c03Trace(ctx *vh.Ctx, c *c03Case, obs *c03Obs, events []compose.VerifC03Event, dis func(sig, what string, model any)) error {
	byTM := map[int][]compose.VerifC03Event{}
	for _, e := range events {
		byTM[e.TM] = append(byTM[e.TM], e)
	}
	if len(byTM) != 1 {
		dis("C03:trace-shape:"+c.Mode, fmt.Sprintf("expected the events of exactly one task manager, got %d", len(byTM)), nil)
		return nil
	}
	evs := byTM[1]
	needAll := c.Mode != "workflow"
	nodeOf := map[int]string{}
	for _, e := range evs {
		if e.K == "submit" {
			if e.NeedAll != needAll {
				dis("C03:trace-needAll:"+c.Mode, fmt.Sprintf("task manager runs with needAll=%v in mode %s", e.NeedAll, c.Mode), nil)
				return nil
			}
			if e.T >= 0 {
				nodeOf[e.T] = e.Node
			}
			for i, id := range e.Rest {
				nodeOf[id] = e.Nodes[i]
			}
		}
	}
	tc := map[string]any{"kind": "tmtrace", "needAll": needAll, "events": evs}
	raw, err := ctx.Oracle.Ask("C03", tc)
	if err != nil {
		return err
	}
	var ans struct {
		OK    bool   `json:"ok"`
		At    int    `json:"at"`
		Why   string `json:"why"`
		Early int    `json:"early"`
		Final struct {
			Running []int `json:"running"`
			L       []int `json:"l"`
			Ch      []int `json:"ch"`
			Num     int   `json:"num"`
			Got     []int `json:"got"`
		} `json:"final"`
		Submitted []int `json:"submitted"`
	}
	if err := json.Unmarshal(raw, &ans); err != nil {
		return fmt.Errorf("oracle trace answer: %v: %s", err, raw)
	}
	ctx.Res.Dist("trace:replayed")
	ctx.Res.Dist(fmt.Sprintf("trace:events:%d", len(evs)/5*5))
	if ans.Early > 0 {
		ctx.Res.Dist("trace:recv-linearised-early")
	}
	if !ans.OK {
		kind := "?"
		if ans.At < len(evs) {
			kind = evs[ans.At].K
		}
		obs.Trace = evs
		dis("C03:trace-nonconformance:"+kind+":"+c.Mode,
			fmt.Sprintf("event %d (%s) of the real taskManager trace is not a transition of the model: %s", ans.At, kind, ans.Why), json.RawMessage(raw))
		return nil
	}
	// malformed stream: the conformance checker itself must reject corrupted traces (guards
	// against a replay that explains everything)
	if c03TraceN++; c03TraceN%4 == 0 && len(evs) >= 4 {
		if err := c03Corrupt(ctx, c, evs, needAll, dis); err != nil {
			return err
		}
	}
	// what the protocol trace says was never handed back, against the post-handler view
	got := map[int]int{}
	for _, id := range ans.Final.Got {
		got[id]++
	}
	var lost []string
	for _, id := range ans.Submitted {
		if got[id] == 0 {
			lost = append(lost, nodeOf[id])
		} else {
			got[id]--
		}
	}
	sort.Strings(lost)
	// a task submitted but whose body was never entered (goroutine not yet scheduled when the
	// run returned) is invisible to the body counters: compare on the started ones
	var lostStarted []string
	for _, k := range lost {
		if obs.Started[k] > 0 {
			lostStarted = append(lostStarted, k)
		}
	}
	if !vh.CanonEq(append([]string{}, lostStarted...), append([]string{}, obs.Uncollected...)) {
		obs.Trace = evs
		dis("C03:trace-vs-posthandler:"+c.Mode,
			fmt.Sprintf("protocol trace says %v were never received, post-handlers say %v", lostStarted, obs.Uncollected), json.RawMessage(raw))
	}
	// eager mode: the model's eager engine driven by the observed completion order must
	// submit and collect exactly the same executions
	if c.Mode == "workflow" {
		var order []string
		seen := map[string]bool{}
		for _, id := range ans.Final.Got {
			order = append(order, nodeOf[id])
			seen[nodeOf[id]] = true
		}
		for _, n := range c.Nodes {
			if !seen[n.Key] {
				order = append(order, n.Key)
			}
		}
		var submitted []string
		for _, id := range ans.Submitted {
			submitted = append(submitted, nodeOf[id])
		}
		ec := map[string]any{"kind": "eager", "nodes": c.Nodes, "endPreds": c.EndPreds, "input": c.Input, "order": order}
		eraw, err := ctx.Oracle.Ask("C03", ec)
		if err != nil {
			return err
		}
		var ea struct {
			Result      [][]string `json:"result"`
			Returned    bool       `json:"returned"`
			Started     []string   `json:"started"`
			Uncollected []string   `json:"uncollected"`
		}
		if err := json.Unmarshal(eraw, &ea); err != nil {
			return fmt.Errorf("oracle eager answer: %v: %s", err, eraw)
		}
		ctx.Res.Dist("eager-engine:compared")
		if !ea.Returned || !vh.CanonEq(c03Sorted(ea.Started), c03Sorted(submitted)) || !vh.CanonEq(c03Sorted(ea.Uncollected), append([]string{}, lost...)) || !vh.CanonEq(ea.Result, obs.Result) {
			obs.Trace = evs
			dis("C03:eager-engine-differs", fmt.Sprintf("with the observed completion order %v the eager model submits %v and leaves %v uncollected; the implementation submitted %v and left %v", order, ea.Started, ea.Uncollected, submitted, lost), json.RawMessage(eraw))
		}
	}
	if ans.Final.Num != len(lost) {
		obs.Trace = evs
		dis("C03:trace-num:"+c.Mode, fmt.Sprintf("num=%d at return but %d submitted executions were not received", ans.Final.Num, len(lost)), json.RawMessage(raw))
	}
	return nil
}

var c03TraceN int

// c03Corrupt derives invalid traces from a real one (a completion dropped, a completion
// received twice, a counter off by one) and requires the model replay to reject each.
func c03Corrupt(ctx *vh.Ctx, c *c03Case, evs []compose.VerifC03Event, needAll bool, dis func(sig, what string, model any)) error {
	r := vh.NewRand(c.YieldSeed ^ uint64(len(evs))*7919 ^ uint64(c03TraceN))
	var finishes, recvs, refills []int
	for i, e := range evs {
		switch e.K {
		case "finish":
			// a straggler's finish after the last receive is not needed by any later event
			for _, e2 := range evs[i+1:] {
				if e2.K == "recv" && e2.T == e.T {
					finishes = append(finishes, i)
				}
			}
		case "recv":
			recvs = append(recvs, i)
		case "refill":
			refills = append(refills, i)
		}
	}
	type variant struct {
		name string
		evs  []compose.VerifC03Event
	}
	var vs []variant
	cp := func() []compose.VerifC03Event { return append([]compose.VerifC03Event{}, evs...) }
	if len(finishes) > 0 {
		i := finishes[r.Intn(len(finishes))]
		x := cp()
		vs = append(vs, variant{"finish-dropped", append(x[:i], x[i+1:]...)})
	}
	if len(recvs) > 0 {
		i := recvs[r.Intn(len(recvs))]
		x := cp()
		y := append([]compose.VerifC03Event{}, x[:i+1]...)
		y = append(y, x[i])
		vs = append(vs, variant{"recv-duplicated", append(y, x[i+1:]...)})
	}
	if len(refills) > 0 {
		i := refills[r.Intn(len(refills))]
		x := cp()
		x[i].L++
		vs = append(vs, variant{"refill-counter-off", x})
	}
	for _, v := range vs {
		raw, err := ctx.Oracle.Ask("C03", map[string]any{"kind": "tmtrace", "needAll": needAll, "events": v.evs})
		if err != nil {
			return err
		}
		var ans struct {
			OK bool `json:"ok"`
		}
		if err := json.Unmarshal(raw, &ans); err != nil {
			return err
		}
		ctx.Res.Dist("malformed-trace:" + v.name)
		if ans.OK {
			dis("C03:trace-checker-accepts:"+v.name, "the model replay accepted a corrupted trace ("+v.name+"): the conformance check is too permissive", map[string]any{"events": v.evs})
		} else {
			ctx.Res.Dist("malformed-trace:rejected")
		}
	}
	return nil
}

// ---- generator ----

func c03Gen(r *vh.Rand, mode string) *c03Case {
	c := &c03Case{Kind: "run", Input: "x", Mode: mode}
	nl := r.Range(1, 3)
	var layers [][]string
	names := []string{"a", "b", "c"}
	for li := 0; li < nl; li++ {
		k := r.Range(2, 6)
		if li > 0 {
			k = r.Range(1, 3)
		}
		var layer []string
		for i := 0; i < k; i++ {
			layer = append(layer, fmt.Sprintf("%s%d", names[li], i+1))
		}
		layers = append(layers, layer)
	}
	preds := map[string][]string{}
	hasSucc := map[string]bool{}
	for li, layer := range layers {
		for _, n := range layer {
			if li == 0 {
				preds[n] = []string{compose.START}
				continue
			}
			prev := layers[li-1]
			var ps []string
			for _, p := range prev {
				if r.Chance(55) {
					ps = append(ps, p)
				}
			}
			if len(ps) == 0 {
				ps = append(ps, prev[r.Intn(len(prev))])
			}
			if mode != "pregel" {
				// DAG: edges may skip layers / come from START as well
				if li >= 2 && r.Chance(40) {
					ps = append(ps, layers[0][r.Intn(len(layers[0]))])
				}
				if r.Chance(20) {
					ps = append(ps, compose.START)
				}
			}
			for _, p := range ps {
				hasSucc[p] = true
			}
			preds[n] = c03Sorted(c03Uniq(ps))
		}
	}
	if mode == "pregel" {
		// strictly layered: every node of a non-final layer feeds the next layer
		for li := 0; li+1 < len(layers); li++ {
			for _, n := range layers[li] {
				if !hasSucc[n] {
					t := layers[li+1][r.Intn(len(layers[li+1]))]
					preds[t] = c03Sorted(c03Uniq(append(preds[t], n)))
					hasSucc[n] = true
				}
			}
		}
	}
	var sinks []string
	for li, layer := range layers {
		for _, n := range layer {
			c.Nodes = append(c.Nodes, c03Node{Key: n, Preds: preds[n]})
			if mode == "pregel" {
				if li == len(layers)-1 {
					sinks = append(sinks, n)
				}
			} else if !hasSucc[n] {
				sinks = append(sinks, n)
			}
		}
	}
	c.EndPreds = c03Sorted(sinks)
	// nodes without a path to END: drop some sinks from END's inputs
	if mode != "pregel" && len(sinks) >= 2 && r.Chance(map[string]int{"dag": 15, "workflow": 30}[mode]) {
		drop := r.Range(1, len(sinks)-1)
		perm := r.Perm(len(sinks))
		var keep []string
		for i, pi := range perm {
			if i >= drop {
				keep = append(keep, sinks[pi])
			}
		}
		c.EndPreds = c03Sorted(keep)
	}
	return c
}

func c03Uniq(s []string) []string {
	seen := map[string]bool{}
	var out []string
	for _, x := range s {
		if !seen[x] {
			seen[x] = true
			out = append(out, x)
		}
	}
	return out
}

func c03WithSched(r *vh.Rand, g *c03Case, barrier bool) *c03Case {
	c := *g
	if barrier {
		c.Sched = "barrier"
		perm := r.Perm(len(c.Nodes))
		for _, i := range perm {
			c.Priority = append(c.Priority, c.Nodes[i].Key)
		}
	} else {
		c.Sched = "yield"
		c.YieldSeed = r.U64() >> 1
		c.Yields = map[string]int{}
		for _, n := range c.Nodes {
			c.Yields[n.Key] = r.Intn(6)
		}
	}
	return &c
}

// the directed scenarios of the known finding (DESIGN.md §5): eager run, a slow node that
// has no path to END
func c03Directed() []*c03Case {
	st := []string{compose.START}
	return []*c03Case{
		{Kind: "run", Input: "x", Mode: "workflow", Sched: "barrier", Note: "slow dead-end sibling",
			Nodes: []c03Node{{"a1", st}, {"s1", st}}, EndPreds: []string{"a1"}, Priority: []string{"a1", "s1"}},
		{Kind: "run", Input: "x", Mode: "workflow", Sched: "barrier", Note: "dead-end successor started, never collected",
			Nodes: []c03Node{{"a1", st}, {"a2", st}, {"b1", []string{"a2"}}}, EndPreds: []string{"a1"}, Priority: []string{"a2", "a1", "b1"}},
		// controls: the same shapes where the slow node finishes first / the batch modes
		{Kind: "run", Input: "x", Mode: "workflow", Sched: "barrier", Note: "control: dead-end finishes first",
			Nodes: []c03Node{{"a1", st}, {"s1", st}}, EndPreds: []string{"a1"}, Priority: []string{"s1", "a1"}},
		{Kind: "run", Input: "x", Mode: "dag", Sched: "barrier", Note: "control: batch mode collects the dead-end",
			Nodes: []c03Node{{"a1", st}, {"s1", st}}, EndPreds: []string{"a1"}, Priority: []string{"a1", "s1"}},
	}
}

// c03Family is the extension point for further case families of C03 (files c03_*.go append
// to c03Extra from an init function).  Kind is the value of the "kind" field of the family's
// cases: a replay file whose case has that kind is handed to Replay.  Run is called once per
// harness run, after the directed cases and before the random sweep; it must leave part of
// the budget to the sweep (ctx.TimeLeft is shared).
type c03Family struct {
	Kind   string
	Run    func(ctx *vh.Ctx) error
	Replay func(ctx *vh.Ctx, raw json.RawMessage) error
}

var c03Extra []c03Family

func runC03(ctx *vh.Ctx) error {
	ctx.Res.Rule = "distinct = (mode, schedule kind, graph, release priority); non-trivial = at least two nodes and at least one superstep, so that completions can be reordered"
	if ctx.Replay != nil {
		var k struct {
			Kind string `json:"kind"`
		}
		_ = json.Unmarshal(ctx.Replay, &k)
		for _, f := range c03Extra {
			if f.Kind == k.Kind {
				return f.Replay(ctx, ctx.Replay)
			}
		}
		var c c03Case
		if err := json.Unmarshal(ctx.Replay, &c); err != nil {
			return err
		}
		return c03One(ctx, &c)
	}
	for _, c := range c03Directed() {
		if err := c03One(ctx, c); err != nil {
			return err
		}
	}
	for _, f := range c03Extra {
		if err := f.Run(ctx); err != nil {
			return err
		}
	}
	graphs := ctx.N(300, 1500)
	orders := ctx.N(6, 24)
	modes := []string{"pregel", "dag", "workflow", "workflow"}
	for gi := 0; gi < graphs && ctx.TimeLeft(); gi++ {
		g := c03Gen(ctx.Rng, modes[gi%len(modes)])
		for oi := 0; oi < orders && ctx.TimeLeft(); oi++ {
			c := c03WithSched(ctx.Rng, g, oi%5 != 4)
			if err := c03One(ctx, c); err != nil {
				return err
			}
		}
	}
	ctx.Res.Extra["trace_hooks_applied"] = c03TraceSeen
	return nil
}
