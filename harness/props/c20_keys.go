//go:build verif && (vh_all || vh_c20)

package props

// C20: construction sequences with WithInputKey / WithOutputKey (Model/C20Keys.lean).  A node
// with a key option shows map[string]any on that side from the moment it is added; a pass-through
// node's own type (and its generic helper) is still inferred from a data neighbour – or never:
// no data predecessor, no data successor, control-only edges of a Workflow, both sides keyed.
// Every Add* call and Compile must answer with ok or an error, never a panic, and the same on
// every attempt.

import (
	"fmt"

	"github.com/cloudwego/eino/compose"
	"github.com/cloudwego/eino/verifharness/vh"
)

type c20WfBK interface {
	addLambdaO(key string, l *compose.Lambda, opts ...compose.GraphAddNodeOpt) *compose.WorkflowNode
	addPassthroughO(key string, opts ...compose.GraphAddNodeOpt) *compose.WorkflowNode
}

func (w *c20WfW[I, O]) addLambdaO(key string, l *compose.Lambda, opts ...compose.GraphAddNodeOpt) *compose.WorkflowNode {
	return w.w.AddLambdaNode(key, l, opts...)
}
func (w *c20WfW[I, O]) addPassthroughO(key string, opts ...compose.GraphAddNodeOpt) *compose.WorkflowNode {
	return w.w.AddPassthroughNode(key, opts...)
}

func c20WfKeyOpts(n *c20WfNode) []compose.GraphAddNodeOpt {
	var opts []compose.GraphAddNodeOpt
	if n.InKey {
		opts = append(opts, compose.WithInputKey("k"))
	}
	if n.OutKey {
		opts = append(opts, compose.WithOutputKey("k"))
	}
	return opts
}

func c20WfAddKeyed(wf c20WfB, n *c20WfNode) *compose.WorkflowNode {
	k := wf.(c20WfBK)
	if n.PT {
		return k.addPassthroughO(n.Key, c20WfKeyOpts(n)...)
	}
	return k.addLambdaO(n.Key, c20Lambdas[n.In+">"+n.Out](n.Dyn), c20WfKeyOpts(n)...)
}

// c20KeyedSuffix: what a panic signature says about key options in the case
func c20KeyedSuffix(c *c20Case, opk string) string {
	keyedPT, both := false, false
	for _, o := range c.Ops {
		if o.Op == "node" && o.PT && (o.InKey || o.OutKey) {
			keyedPT = true
			both = both || (o.InKey && o.OutKey)
		}
	}
	if !keyedPT {
		return ""
	}
	if opk == "compile" && !both {
		return ":keyed-passthrough:single-key"
	}
	return ":keyed-passthrough"
}

func c20KeyedDist(ctx *vh.Ctx, c *c20Case) {
	n := 0
	for _, o := range c.Ops {
		if o.Op != "node" || !(o.InKey || o.OutKey) {
			continue
		}
		n++
		kind := "lambda"
		if o.PT {
			kind = "passthrough"
		}
		switch {
		case o.InKey && o.OutKey:
			ctx.Res.Dist("keyed." + kind + "=both")
		case o.InKey:
			ctx.Res.Dist("keyed." + kind + "=input")
		default:
			ctx.Res.Dist("keyed." + kind + "=output")
		}
	}
	if n > 0 {
		ctx.Res.Dist("keyed-case")
	}
}

var c20KMenu = []string{"c5", "c5", "c5", "any", "c0", "c1"}

func c20KeyPick(r *vh.Rand) (in, out bool) {
	switch x := r.Intn(100); {
	case x < 20:
		return false, false
	case x < 50:
		return true, false
	case x < 80:
		return false, true
	}
	return true, true
}

func c20KShownIn(o *c20Op) string {
	switch {
	case o.InKey:
		return "c5"
	case o.PT:
		return "any"
	}
	return o.In
}

func c20KShownOut(o *c20Op) string {
	switch {
	case o.OutKey:
		return "c5"
	case o.PT:
		return "any"
	}
	return o.Out
}

// c20GenKeyed: graph stream.  A spine START -> n0 -> … -> END of pass-through nodes and lambdas,
// many of them with key options, plus the shapes in which a keyed pass-through node's own type
// cannot be inferred.
func c20GenKeyed(r *vh.Rand) *c20Case {
	c := &c20Case{Stream: "graph", Cmp: "graph", Impl: c20Impl()}
	c.InT = c20Pick(r, c20KMenu)
	if r.Chance(30) {
		s := r.Intn(2)
		c.State = &s
	}
	nn := r.Range(1, 4)
	names := []string{"a", "b", "c", "d"}
	var nodeOps, linkOps []c20Op
	var spine []string
	cur := c.InT // the type shown along the spine, "" = open (whatever the next node takes)
	for i := 0; i < nn; i++ {
		o := c20Op{Op: "node", Key: names[i]}
		if r.Chance(55) {
			o.PT = true
			o.InKey, o.OutKey = c20KeyPick(r)
			if o.InKey && cur != "c5" && cur != "any" && cur != "" && r.Chance(75) {
				o.InKey = false
			}
			switch {
			case o.OutKey:
				cur = "c5"
			case o.InKey:
				cur = ""
			}
		} else {
			if r.Chance(40) {
				o.InKey, o.OutKey = c20KeyPick(r)
			}
			if o.InKey && cur != "c5" && cur != "any" && cur != "" && r.Chance(75) {
				o.InKey = false
			}
			switch {
			case o.InKey || cur == "":
				o.In = c20Pick(r, c20KMenu)
			case r.Chance(85):
				o.In = cur
			default:
				o.In = c20Pick(r, c20KMenu)
			}
			o.Out = c20Pick(r, c20KMenu)
			o.Dyn = c20DynFor(r, o.Out)
			cur = o.Out
			if o.OutKey {
				cur = "c5"
			}
		}
		if c.State != nil && r.Chance(22) {
			o.Pre = &c20Handler{S: *c.State, T: c20KShownIn(&o)}
		}
		if c.State != nil && r.Chance(18) {
			o.Post = &c20Handler{S: *c.State, T: c20KShownOut(&o)}
		}
		nodeOps = append(nodeOps, o)
		spine = append(spine, o.Key)
	}
	switch {
	case cur == "":
		c.OutT = c20Pick(r, c20KMenu)
	case r.Chance(88):
		c.OutT = cur
	default:
		c.OutT = c20Pick(r, c20KMenu)
	}
	edge := func(s, e string) { linkOps = append(linkOps, c20Op{Op: "edge", S: s, E: e}) }
	prev := "start"
	for _, k := range spine {
		edge(prev, k)
		prev = k
	}
	edge(prev, "end")
	anySpine := func() string { return c20Pick(r, append([]string{"start"}, spine...)) }
	keyedPT := func(key string) c20Op {
		o := c20Op{Op: "node", Key: key, PT: true}
		o.InKey, o.OutKey = c20KeyPick(r)
		return o
	}
	if r.Chance(40) { // a dead end: data predecessor, no successor
		nodeOps = append(nodeOps, keyedPT("x"))
		edge(anySpine(), "x")
	}
	if r.Chance(15) { // a source-less node: data successor, no predecessor
		nodeOps = append(nodeOps, keyedPT("y"))
		edge("y", c20Pick(r, append([]string{"end"}, spine...)))
	}
	if r.Chance(12) { // nothing touches it
		nodeOps = append(nodeOps, keyedPT("u"))
	}
	if r.Chance(30) { // a pair of pass-through nodes, every key combination
		nodeOps = append(nodeOps, keyedPT("p1"), keyedPT("p2"))
		edge("p1", "p2")
		if r.Bool() {
			edge(anySpine(), "p1")
		}
		if r.Bool() {
			edge("p2", "end")
		}
	}
	if r.Chance(20) && nn >= 2 {
		i, j := r.Intn(nn), r.Intn(nn)
		if i != j {
			edge(spine[i], spine[j])
		}
	}
	if r.Chance(18) {
		src := anySpine()
		t := c.InT
		for i := range nodeOps {
			if nodeOps[i].Key == src {
				t = c20KShownOut(&nodeOps[i])
			}
		}
		if r.Chance(30) {
			t = c20Pick(r, c20KMenu)
		}
		other := c20Pick(r, append([]string{"end", "x"}, spine...))
		ends := c20SortedCopy([]string{"end", other})
		if other == "end" {
			ends = c20SortedCopy([]string{"end", spine[0]})
		}
		linkOps = append(linkOps, c20Op{Op: "branch", S: src, T: t, Ends: ends, Pick: "end"})
	}
	shuffle := func(l []c20Op) []c20Op {
		p := r.Perm(len(l))
		o := make([]c20Op, len(l))
		for i, j := range p {
			o[i] = l[j]
		}
		return o
	}
	switch x := r.Intn(100); {
	case x < 45:
		c.Ops = append(shuffle(nodeOps), shuffle(linkOps)...)
	case x < 85: // interleaved: a link as soon as its nodes exist
		added := map[string]bool{"start": true, "end": true}
		pending := shuffle(linkOps)
		for _, no := range shuffle(nodeOps) {
			c.Ops = append(c.Ops, no)
			added[no.Key] = true
			var rest []c20Op
			for _, l := range pending {
				ok := added[l.S]
				if l.Op == "edge" {
					ok = ok && added[l.E]
				}
				for _, e := range l.Ends {
					ok = ok && added[e]
				}
				if ok && r.Chance(75) {
					c.Ops = append(c.Ops, l)
				} else {
					rest = append(rest, l)
				}
			}
			pending = rest
		}
		c.Ops = append(c.Ops, pending...)
	default:
		c.Ops = shuffle(append(append([]c20Op{}, nodeOps...), linkOps...))
	}
	comp := c20Op{Op: "compile"}
	switch x := r.Intn(100); {
	case x < 50:
	case x < 70:
		comp.Mode = "any"
	default:
		comp.Mode = "all"
	}
	c.Ops = append(c.Ops, comp)
	for k := r.Intn(3); k > 0; k-- {
		switch r.Intn(3) {
		case 0:
			c.Ops = append(c.Ops, comp)
		case 1:
			c.Ops = append(c.Ops, c20Op{Op: "node", Key: fmt.Sprintf("z%d", k), PT: true, InKey: r.Bool(), OutKey: r.Bool()})
		default:
			c.Ops = append(c.Ops, c20Op{Op: "edge", S: anySpine(), E: "end"})
		}
	}
	c.Inject = "keyed"
	return c
}

// c20GenKeyedWf: workflow stream.  Inputs are AddInput / AddDependency / WithNoDirectDependency,
// so keyed pass-through nodes get control-only successors, data-only successors or none.
func c20GenKeyedWf(r *vh.Rand) *c20Case {
	c := &c20Case{Stream: "workflow", Cmp: "workflow", Impl: c20Impl(), Extra: &c20WfExt{}, NoRun: true, Inject: "keyed-wf"}
	c.InT = c20Pick(r, []string{"c5", "c5", "c5", "any", "c0"})
	n := r.Range(1, 3)
	names := []string{"a", "b", "c"}
	cur, prev := c.InT, "start"
	kind := func() string {
		switch x := r.Intn(100); {
		case x < 62:
			return "input"
		case x < 85:
			return "dep"
		}
		return "indirect"
	}
	for i := 0; i < n; i++ {
		nd := c20WfNode{Key: names[i]}
		if r.Bool() {
			nd.PT = true
			nd.InKey, nd.OutKey = c20KeyPick(r)
			if nd.OutKey {
				cur = "c5"
			}
		} else {
			if r.Chance(30) {
				nd.InKey, nd.OutKey = c20KeyPick(r)
			}
			if nd.InKey || r.Chance(15) {
				nd.In = c20Pick(r, c20KMenu)
			} else {
				nd.In = cur
			}
			nd.Out = c20Pick(r, c20KMenu)
			nd.Dyn = c20DynFor(r, nd.Out)
			cur = nd.Out
			if nd.OutKey {
				cur = "c5"
			}
		}
		src := prev
		if r.Chance(25) {
			src = "start"
		}
		k := kind()
		if i == 0 && r.Chance(70) {
			k = "input"
		}
		nd.Ins = append(nd.Ins, c20WfIn{From: src, Kind: k})
		if k == "dep" && r.Chance(40) {
			nd.Ins = append(nd.Ins, c20WfIn{From: "start", Kind: "indirect"})
		}
		c.Extra.Nodes = append(c.Extra.Nodes, nd)
		prev = nd.Key
	}
	if r.Chance(88) {
		c.OutT = cur
	} else {
		c.OutT = c20Pick(r, c20KMenu)
	}
	// END takes its data from the last node, or – so that the last node stays a dead end – from an earlier one / START
	from := prev
	if r.Chance(35) {
		from = c20Pick(r, append([]string{"start"}, names[:n]...))
	}
	c.Extra.EndIn = []c20WfIn{{From: from, Kind: "input"}}
	if from != prev && r.Bool() {
		c.Extra.EndIn = append(c.Extra.EndIn, c20WfIn{From: prev, Kind: "dep"})
	}
	c.Ops = []c20Op{{Op: "compile"}}
	for k := r.Intn(3); k > 0; k-- {
		c.Ops = append(c.Ops, c20Op{Op: "compile"})
	}
	c20LowerWorkflow(c)
	return c
}

// c20KeyedFixed: hand-written shapes run first on every seed
func c20KeyedFixed() []*c20Case {
	g := func(name, in, out string, ops ...c20Op) *c20Case {
		return &c20Case{Stream: "graph", Cmp: "graph", Impl: c20Impl(), InT: in, OutT: out, Inject: "fixed:" + name,
			Ops: append(ops, c20Op{Op: "compile"}, c20Op{Op: "compile"})}
	}
	lam := func(key, in, out string) c20Op { return c20Op{Op: "node", Key: key, In: in, Out: out, Dyn: out} }
	pt := func(key string, ik, ok bool) c20Op { return c20Op{Op: "node", Key: key, PT: true, InKey: ik, OutKey: ok} }
	e := func(s, t string) c20Op { return c20Op{Op: "edge", S: s, E: t} }
	wf := func(name string, nodes []c20WfNode, endIn []c20WfIn) *c20Case {
		c := &c20Case{Stream: "workflow", Cmp: "workflow", Impl: c20Impl(), InT: "c5", OutT: "c5", Inject: "fixed:" + name, NoRun: true,
			Extra: &c20WfExt{Nodes: nodes, EndIn: endIn}, Ops: []c20Op{{Op: "compile"}, {Op: "compile"}, {Op: "compile"}}}
		c20LowerWorkflow(c)
		return c
	}
	in := func(from, kind string) c20WfIn { return c20WfIn{From: from, Kind: kind} }
	return []*c20Case{
		g("keyed-dead-end-input-key", "c5", "c5", lam("a", "c5", "c5"), e("start", "a"), e("a", "end"), pt("p", true, false), e("start", "p")),
		g("keyed-dead-end-input-key-all-predecessor", "c5", "c5", lam("a", "c5", "c5"), e("start", "a"), e("a", "end"), pt("p", true, false), e("start", "p"),
			c20Op{Op: "compile", Mode: "all"}),
		g("keyed-dead-end-both-keys", "c5", "c5", lam("a", "c5", "c5"), e("start", "a"), e("a", "end"), pt("p", true, true), e("start", "p")),
		g("keyed-source-less-output-key", "c5", "c5", lam("a", "c5", "c5"), e("start", "a"), e("a", "end"), pt("p", false, true), e("p", "a")),
		g("keyed-both-keys-on-the-spine", "c5", "c5", pt("p", true, true), e("start", "p"), e("p", "end")),
		g("keyed-output-key-before-untyped", "c5", "c5", pt("p1", false, true), pt("p2", false, false), e("p1", "p2"), e("start", "p1"), e("p2", "end")),
		g("keyed-output-key-typed-first", "c5", "c5", pt("p1", false, true), pt("p2", false, false), e("start", "p1"), e("p1", "p2"), e("p2", "end")),
		g("keyed-untyped-before-input-key", "c5", "c5", pt("p1", false, false), pt("p2", true, false), e("p1", "p2"), e("start", "p1"), e("p2", "end")),
		g("keyed-any-before-input-key", "any", "c5", pt("p", true, false), e("start", "p"), e("p", "end")),
		g("keyed-branch-end-input-key", "any", "c5", pt("p", true, false),
			c20Op{Op: "branch", S: "start", T: "any", Ends: []string{"end", "p"}, Pick: "p"}, e("p", "end")),
		g("keyed-input-key-with-successor", "c5", "c5", pt("p", true, false), lam("a", "c0", "c5"), e("start", "p"), e("p", "a"), e("a", "end")),
		g("keyed-both-keys-typed-by-branch", "c5", "c5", pt("p", true, true), lam("a", "c5", "c5"), e("start", "p"),
			c20Op{Op: "branch", S: "p", T: "c5", Ends: []string{"a", "end"}, Pick: "a"}, e("a", "end")),
		wf("keyed-wf-control-only-successor", []c20WfNode{
			{Key: "p", PT: true, InKey: true, Ins: []c20WfIn{in("start", "input")}},
			{Key: "b", In: "c5", Out: "c5", Dyn: "c5", Ins: []c20WfIn{in("start", "input"), in("p", "dep")}}},
			[]c20WfIn{in("b", "input")}),
		wf("keyed-wf-both-keys", []c20WfNode{
			{Key: "p", PT: true, InKey: true, OutKey: true, Ins: []c20WfIn{in("start", "input")}}},
			[]c20WfIn{in("p", "input")}),
		wf("keyed-wf-data-only-successor", []c20WfNode{
			{Key: "p", PT: true, InKey: true, Ins: []c20WfIn{in("start", "input")}},
			{Key: "b", In: "c0", Out: "c5", Dyn: "c5", Ins: []c20WfIn{in("p", "indirect"), in("start", "dep")}}},
			[]c20WfIn{in("b", "input")}),
	}
}
