//go:build verif && (vh_all || vh_c15)

package props

import (
	"encoding/json"
	"fmt"
	"reflect"
	"time"

	"github.com/cloudwego/eino/compose"
	"github.com/cloudwego/eino/verifharness/vh"
)

// ---------------------------------------------------------------------------------------
// family "deep": source and target paths through NON-EMPTY interfaces and through pointers to
// pointers.
//
// Types (c15_types.go): C15Namer (interface{ C15Name() string }, implemented by C15NV, *C15NV and
// *C15NP only), C15Deep{S, N, R C15Namer, R2 C15Namer, PP **C15Leaf, PPP ***C15Leaf, PPN **C15NP,
// MR map[string]C15Namer, MPP map[string]**C15Leaf, NV C15NV, PNP *C15NP, PL *C15Leaf, A any};
// roots Deep, PDeep, MapNamer, PPLeaf, NV, PNP.
//
// What the property demands (Props/C15.lean target_below_interface_rejected,
// source_below_interface_checked, path_through_nested_pointer_rejected): a target path that goes
// on below a C15Namer slot is rejected at compile time (nothing can be instantiated there); a
// source path that does is accepted and checked at request time (the value found arrives, or the
// run is an error, never a panic); a path through a pointer to a pointer is rejected at compile
// time on either side (extraction and assignment follow one pointer level).  The controls: the
// same shapes with `any` holes and one-level pointers, whole-slot mappings of C15Namer / **T
// slots, sources whose static type does / does not implement the interface.
//
// Same case language as the mapping family: the cases go through c15One (Compile, 10 Invoke runs,
// Stream, model comparison, shrinking).
// ---------------------------------------------------------------------------------------

func init() {
	c15Extra = append(c15Extra, c15Family{name: "deep", run: c15dRun, replay: c15dReplay})
}

// the family's cases are ordinary mapping cases: the generic replay runs them
func c15dReplay(ctx *vh.Ctx, raw json.RawMessage) (bool, error) { return false, nil }

var (
	c15dTargetRoots  = []string{"Deep", "PDeep", "MapNamer", "PPLeaf", "Top", "MapAny", "Leaf", "PNP", "NV"}
	c15dTargetWeight = []int{50, 12, 8, 5, 8, 6, 5, 3, 3}
	c15dSourceRoots  = []string{"Deep", "PDeep", "MapNamer", "PPLeaf", "PNP", "NV", "MapAny", "Top"}
	c15dSourceWeight = []int{55, 10, 8, 5, 6, 4, 8, 4}
)

// c15dGenDeep: a C15Deep value whose interesting slots are mostly filled (the generic generator
// leaves 20-25 % of the interfaces and pointers nil at every level)
func c15dGenDeep(r *vh.Rand) C15Deep {
	namer := func() C15Namer {
		switch r.Intn(7) {
		case 0:
			return nil
		case 1, 2:
			return C15NV{S: []string{"nv", "a", ""}[r.Intn(3)], N: r.Intn(4)}
		case 3:
			return &C15NV{S: "pnv", N: 7}
		case 4:
			return (*C15NP)(nil) // a typed nil pointer in the interface
		}
		np := &C15NP{S: []string{"np", "b"}[r.Intn(2)], L: C15Leaf{S: "l", N: r.Intn(3)}}
		switch r.Intn(4) {
		case 0:
			np.A = "dyn"
		case 1:
			np.A = map[string]any{"k1": "deep", "k2": 4}
		case 2:
			np.A = C15Leaf{S: "al", N: 1}
		}
		return np
	}
	leaf := &C15Leaf{S: []string{"pl", "x"}[r.Intn(2)], N: r.Intn(5)}
	d := C15Deep{S: []string{"s", "hello", ""}[r.Intn(3)], N: r.Intn(9), R: namer(), R2: namer(), NV: C15NV{S: "nv0", N: 1}}
	if !r.Chance(20) {
		pl := leaf
		if r.Chance(20) {
			pl = nil
		}
		d.PP = &pl
	}
	if !r.Chance(25) {
		pl := leaf
		ppl := &pl
		d.PPP = &ppl
	}
	if !r.Chance(25) {
		np := &C15NP{S: "ppn", L: C15Leaf{S: "nl", N: 2}}
		d.PPN = &np
	}
	if !r.Chance(20) {
		d.MR = map[string]C15Namer{}
		for i, n := 0, r.Range(1, 2); i < n; i++ {
			d.MR[c15Keys[r.Intn(2)]] = namer()
		}
	}
	if !r.Chance(30) {
		pl := leaf
		d.MPP = map[string]**C15Leaf{c15Keys[r.Intn(2)]: &pl}
	}
	if !r.Chance(20) {
		d.PNP = &C15NP{S: "pnp", L: C15Leaf{S: "q", N: 3}, A: "a"}
	}
	if !r.Chance(30) {
		d.PL = leaf
	}
	switch r.Intn(6) {
	case 0:
		d.A = &C15NP{S: "anp", A: 5}
	case 1:
		d.A = C15NV{S: "anv"}
	case 2:
		d.A = "str"
	case 3:
		d.A = map[string]any{"k1": &C15NP{S: "m"}, "k2": "v"}
	case 4:
		d.A = C15NP{S: "not-a-namer"}
	}
	return d
}

func c15dGenRoot(r *vh.Rand, name string) reflect.Value {
	st := c15Types[name]
	v := reflect.New(st.rt).Elem()
	switch name {
	case "Deep":
		v.Set(reflect.ValueOf(c15dGenDeep(r)))
	case "PDeep":
		d := c15dGenDeep(r)
		v.Set(reflect.ValueOf(&d))
	case "MapNamer":
		d := c15dGenDeep(r)
		m := map[string]C15Namer{"k1": d.R, "k2": d.R2}
		if r.Chance(30) {
			delete(m, "k2")
		}
		v.Set(reflect.ValueOf(m))
	case "PPLeaf":
		if !r.Chance(20) {
			pl := &C15Leaf{S: "ppl", N: 4}
			if r.Chance(20) {
				pl = nil
			}
			v.Set(reflect.ValueOf(&pl))
		}
	default:
		v = c15GenVal(r, st.rt, 3)
	}
	return v
}

// c15dNamerish: a source of this static type can be compared with a C15Namer slot by the static
// check (identical, implementing, or an interface)
func c15dNamerish(rt reflect.Type) bool {
	return rt.Kind() == reflect.Interface || rt.Implements(c15NamerType)
}

// c15dGenCase: one predecessor (START or a lambda node), 1-3 mappings; the tags describe the
// mappings for the distribution
func c15dGenCase(r *vh.Rand) (*c15Case, []string) {
	tn := c15Pick(r, c15dTargetRoots, c15dTargetWeight)
	sn := c15Pick(r, c15dSourceRoots, c15dSourceWeight)
	tt, st := c15Types[tn], c15Types[sn]
	c := &c15Case{TargetName: tn, Target: tt.desc, Stream: "deep", Emb: c15EmbTable, ViaNode: r.Chance(15)}
	sv := c15dGenRoot(r, sn)
	pred := "p0"
	if sn == "Deep" && r.Chance(45) || sn == "MapAny" && r.Chance(50) || sn == "Top" && r.Chance(50) {
		pred = compose.START
	}
	var tps, sps []c15PathInfo
	c15TargetPaths(tt.rt, 3, nil, false, &tps)
	c15SourcePaths(sv, 3, nil, false, &sps)
	c15TargetPaths(st.rt, 3, nil, false, &sps) // statically valid, whether or not they resolve
	sps = append(sps, c15PathInfo{path: nil, ty: st.rt})
	if tt.rt.Kind() != reflect.Struct || r.Chance(5) {
		tps = append(tps, c15PathInfo{path: nil, ty: tt.rt})
	}
	split := func(rt reflect.Type, ps []c15PathInfo) (hot, cold []c15PathInfo) {
		for _, p := range ps {
			if k := c15Through(rt, p.path); k == "nested" || k == "iface" {
				hot = append(hot, p)
			} else if k == "" {
				cold = append(cold, p)
			}
		}
		return
	}
	thot, tcold := split(tt.rt, tps)
	shot, scold := split(st.rt, sps)
	pick := func(ps []c15PathInfo) (c15PathInfo, bool) {
		if len(ps) == 0 {
			return c15PathInfo{}, false
		}
		return ps[r.Intn(len(ps))], true
	}
	var tags []string
	var chosen [][]string
	nMap := []int{1, 1, 1, 2, 2, 3}[r.Intn(6)]
	var maps []c15Map
	for k := 0; k < nMap; k++ {
		// which side is the interesting one for this mapping
		side := []string{"target", "target", "source", "source", "source", "both", "none"}[r.Intn(7)]
		var to, from c15PathInfo
		ok := false
		for try := 0; try < 10 && !ok; try++ {
			if side == "target" || side == "both" {
				to, ok = pick(thot)
			}
			if !ok {
				to, ok = pick(tcold)
			}
			if !ok {
				break
			}
			for _, q := range chosen {
				if c15IsPrefix(q, to.path) || c15IsPrefix(to.path, q) {
					ok = false
				}
			}
		}
		if !ok {
			continue
		}
		// the static check sees a target below a C15Namer slot as that slot: a source it can compare
		// with the interface is what makes it accept the mapping
		wantNamer := false
		if c15Through(tt.rt, to.path) == "iface" || to.ty == c15NamerType {
			wantNamer = r.Chance(75)
		}
		var cands []c15PathInfo
		pool := scold
		if (side == "source" || side == "both") && len(shot) > 0 {
			pool = shot
		}
		for _, s := range pool {
			if wantNamer && !c15dNamerish(s.ty) {
				continue
			}
			if !wantNamer && !r.Chance(25) && !c15Compatible(s.ty, to.ty) && c15Through(st.rt, s.path) == "" {
				continue
			}
			cands = append(cands, s)
		}
		if len(cands) == 0 {
			cands = pool
		}
		from, ok = pick(cands)
		if !ok {
			continue
		}
		chosen = append(chosen, to.path)
		maps = append(maps, c15Map{From: append([]string{}, from.path...), To: append([]string{}, to.path...)})
		tk, sk := c15Through(tt.rt, to.path), c15Through(st.rt, from.path)
		if tk == "" {
			tk = "plain"
		}
		if sk == "" {
			sk = "plain"
		}
		tags = append(tags, "deep:target-path="+tk, "deep:source-path="+sk,
			"deep:target-slot="+c15iKindOf(to.ty), fmt.Sprintf("deep:source-namerish=%v", c15dNamerish(from.ty)))
	}
	if len(maps) == 0 {
		maps = []c15Map{{From: []string{}, To: []string{}}}
	}
	tags = append(tags, "deep:target="+tn, "deep:source="+sn, fmt.Sprintf("deep:mappings=%d", len(maps)))
	c.Decls = []c15Decl{{Pred: pred, TyName: sn, Ty: st.desc, Val: c15Enc(sv), Maps: maps}}
	return c, tags
}

// fixed cases: the reproductions of the two defects found on the unchanged tree (b4b592c) on both
// sides, their controls, and the witnesses of iface_last_segment_as_found /
// nested_pointer_accepted_as_found
func c15dFixed() []*c15Case {
	mk := func(target, pred, src string, val any, maps ...c15Map) *c15Case {
		d := c15iDecl(pred, src, val)
		d.Maps = maps
		return &c15Case{TargetName: target, Target: c15Types[target].desc, Stream: "deep-fixed", Emb: c15EmbTable, Decls: []c15Decl{d}}
	}
	viaNode := func(c *c15Case) *c15Case { c.ViaNode = true; return c }
	m := func(from []string, to ...string) c15Map { return c15Map{From: append([]string{}, from...), To: append([]string{}, to...)} }
	leaf := &C15Leaf{S: "pl", N: 2}
	pleaf := &leaf
	np := &C15NP{S: "np", L: C15Leaf{S: "l", N: 1}, A: map[string]any{"k1": "deep"}}
	deep := C15Deep{S: "s", N: 3, R: np, R2: C15NV{S: "nv", N: 5}, PP: &leaf, PPP: &pleaf, PPN: &np,
		MR: map[string]C15Namer{"k1": np}, MPP: map[string]**C15Leaf{"k1": &leaf}, NV: C15NV{S: "v", N: 1}, PNP: np, PL: leaf, A: np}
	S, R := []string{"S"}, []string{"R"}
	return []*c15Case{
		// (1) a target path whose last segment lies below a non-empty interface: the reported
		// reproduction (ToFieldPath{"R","x"} from a value that implements the interface), from the
		// interface-typed field itself, from an `any`, into a map of interfaces, two segments below
		mk("Deep", compose.START, "PNP", np, m(nil, "R", "x")),
		mk("Deep", compose.START, "Deep", deep, m(R, "R", "x")),
		mk("Deep", "p0", "Deep", deep, m(R, "R", "S")),
		viaNode(mk("Deep", compose.START, "Deep", deep, m(R, "R2", "x"))),
		mk("Deep", compose.START, "Deep", deep, m([]string{"A"}, "R", "x")),
		mk("Deep", compose.START, "Deep", deep, m([]string{"PNP"}, "MR", "k1", "x")),
		mk("MapNamer", "p0", "Deep", deep, m([]string{"NV"}, "k1", "S")),
		mk("PDeep", compose.START, "Deep", deep, m(R, "R", "x")),
		mk("Deep", compose.START, "Deep", deep, m(R, "R", "x", "y")),
		mk("Deep", compose.START, "Deep", deep, m(S, "R", "x")),
		// controls: the whole interface-typed slot from a value that implements it / from the
		// interface / from a type that does not implement it; below an `any` hole
		mk("Deep", compose.START, "Deep", deep, m(R, "R"), m([]string{"PNP"}, "R2"), m([]string{"NV"}, "MR", "k2")),
		mk("Deep", compose.START, "PNP", np, m(nil, "R")),
		mk("Deep", compose.START, "Deep", deep, m(S, "R")),
		mk("Deep", compose.START, "Deep", deep, m([]string{"PL"}, "R")),
		mk("Deep", compose.START, "Deep", deep, m([]string{"A"}, "R"), m([]string{"A"}, "PNP")),
		mk("Deep", compose.START, "Deep", C15Deep{A: "str"}, m([]string{"A"}, "R")),
		mk("Deep", compose.START, "Deep", C15Deep{}, m([]string{"A"}, "R"), m(R, "R2")),
		mk("Deep", compose.START, "Deep", deep, m(R, "A", "x")),
		// (1, source side) a source path whose last segment lies below a non-empty interface: into a
		// slot of the interface's own type (no run-time checker as found: a panic), into a string
		// slot (refused as found), an `any` slot, the implementing pointer type, an int slot; deeper
		mk("Deep", compose.START, "Deep", deep, m([]string{"R", "S"}, "R")),
		mk("Deep", "p0", "Deep", deep, m([]string{"R", "L"}, "R2")),
		mk("MapNamer", compose.START, "Deep", deep, m([]string{"R", "S"}, "k1")),
		mk("Deep", compose.START, "Deep", deep, m([]string{"R", "S"}, "S")),
		mk("Deep", compose.START, "Deep", deep, m([]string{"R2", "N"}, "N"), m([]string{"R", "S"}, "A")),
		mk("Deep", compose.START, "Deep", deep, m([]string{"R", "S"}, "PNP")),
		mk("Deep", compose.START, "Deep", deep, m([]string{"R", "S"}, "N")),
		mk("Leaf", compose.START, "Deep", deep, m([]string{"R", "L", "S"}, "S"), m([]string{"R", "L", "N"}, "N")),
		mk("Leaf", compose.START, "Deep", deep, m([]string{"R", "A", "k1"}, "S")),
		mk("Leaf", compose.START, "Deep", deep, m([]string{"MR", "k1", "S"}, "S")),
		mk("Leaf", "p0", "MapNamer", map[string]C15Namer{"k1": C15NV{S: "v", N: 8}}, m([]string{"k1", "N"}, "N"), m([]string{"k2", "S"}, "S")),
		mk("Leaf", compose.START, "Deep", deep, m([]string{"R", "Nope"}, "S")),
		mk("Leaf", compose.START, "Deep", C15Deep{}, m([]string{"R", "S"}, "S")),
		mk("Leaf", compose.START, "Deep", C15Deep{R: (*C15NP)(nil)}, m([]string{"R", "S"}, "S")),
		mk("Leaf", compose.START, "Deep", deep, m([]string{"R", "S", "x"}, "S")),
		// (2) a target path through a pointer to a pointer: the reported reproduction, deeper, in a
		// map entry, as the successor input itself, next to an ordinary mapping
		mk("Deep", compose.START, "Deep", deep, m(S, "PP", "S")),
		mk("Deep", "p0", "Deep", deep, m(S, "PPP", "S")),
		mk("Deep", compose.START, "Deep", deep, m(S, "PPN", "L", "S")),
		mk("Deep", compose.START, "Deep", deep, m(S, "MPP", "k1", "S")),
		mk("PPLeaf", compose.START, "Deep", deep, m(S, "S")),
		viaNode(mk("Deep", compose.START, "Deep", deep, m(S, "S"), m([]string{"N"}, "PP", "N"))),
		// (2, source side) a source path through a pointer to a pointer: non-nil, nil, as the input
		mk("Leaf", compose.START, "Deep", deep, m([]string{"PP", "S"}, "S")),
		mk("Leaf", compose.START, "Deep", C15Deep{}, m([]string{"PP", "S"}, "S")),
		mk("Leaf", "p0", "Deep", deep, m([]string{"PPP", "N"}, "N")),
		mk("Leaf", compose.START, "Deep", deep, m([]string{"PPN", "L", "S"}, "S")),
		mk("Leaf", "p0", "PPLeaf", &leaf, m([]string{"S"}, "S")),
		mk("Leaf", compose.START, "Deep", deep, m([]string{"MPP", "k1", "N"}, "N")),
		// controls: the pointer-to-pointer slots as a whole, one pointer level
		mk("Deep", compose.START, "Deep", deep, m([]string{"PP"}, "PP"), m([]string{"PPP"}, "PPP"), m([]string{"MPP", "k1"}, "MPP", "k2"), m([]string{"PL", "S"}, "PL", "S")),
		mk("PPLeaf", compose.START, "Deep", deep, m([]string{"PP"})),
		mk("Deep", compose.START, "Deep", deep, m([]string{"PNP", "L", "S"}, "PNP", "S"), m([]string{"PNP", "A", "k1"}, "PNP", "A", "x")),
	}
}

func c15dRun(ctx *vh.Ctx) error {
	ctx.Res.Rule += " || family deep: one predecessor (the workflow input or a lambda node) of type C15Deep / *C15Deep / map[string]C15Namer / **C15Leaf / *C15NP / C15NV (or Top, map[string]any), 1-3 mappings whose target or source path (or both, or neither) goes on below a slot of the non-empty interface C15Namer or through a pointer to a pointer (**C15Leaf, ***C15Leaf, **C15NP, map[string]**C15Leaf), sources whose static type implements / is / does not implement the interface, interface values holding each implementing type, a typed nil pointer, nil; run like a mapping-family case"
	for _, c := range c15dFixed() {
		if _, _, err := c15One(ctx, c, true); err != nil {
			return err
		}
	}
	n := ctx.N(600, 20000)
	rng := ctx.Rng.Fork()
	deadline := time.Now().Add(ctx.Budget * 12 / 100)
	for i := 0; i < n && time.Now().Before(deadline) && ctx.TimeLeft(); i++ {
		c, tags := c15dGenCase(rng)
		cases := []*c15Case{c}
		if len(c.Decls[0].Maps) > 1 && rng.Chance(35) {
			cases = c15Orders(rng, c, 3)
		}
		for _, cc := range cases {
			if _, _, err := c15One(ctx, cc, true); err != nil {
				return err
			}
		}
		for _, t := range tags {
			ctx.Res.Dist(t)
		}
	}
	return nil
}
