//go:build verif && (vh_all || vh_c07 || vh_c20)

package props

// Generator of construction sequences for the graph stream, shared by C20 and C07.

import (
	"encoding/json"
	"fmt"
	"strings"

	"github.com/cloudwego/eino/verifharness/vh"
)

// ---- generator: graph stream ----

type c20GNode struct {
	key     string
	pt      bool
	in, out string
}

func c20Pick(r *vh.Rand, l []string) string { return l[r.Intn(len(l))] }

// a type a value of (declared) type `from` may flow into without a guaranteed mismatch
func c20CompatibleIn(r *vh.Rand, from string) string {
	if r.Chance(70) {
		return from
	}
	var cands []string
	for _, t := range c20TyNames {
		if t == from {
			continue
		}
		ft, tt := c20RTypes[from], c20RTypes[t]
		if ft.AssignableTo(tt) || (ft.Kind().String() == "interface" && tt.AssignableTo(ft)) {
			cands = append(cands, t)
		}
	}
	if len(cands) == 0 {
		return from
	}
	return c20Pick(r, cands)
}

func c20DynFor(r *vh.Rand, out string) string {
	var cands []string
	for _, c := range c20Concrete {
		if c20Inhabits(c, out) {
			cands = append(cands, c)
		}
	}
	return c20Pick(r, cands)
}

func c20NodeOp(r *vh.Rand, n c20GNode) c20Op {
	if n.pt {
		return c20Op{Op: "node", Key: n.key, PT: true}
	}
	return c20Op{Op: "node", Key: n.key, In: n.in, Out: n.out, Dyn: c20DynFor(r, n.out)}
}

// c20GenGraph builds a mostly well-formed construction sequence and then (usually) breaks it.
func c20GenGraph(r *vh.Rand, forRuns bool) *c20Case {
	c := &c20Case{Stream: "graph", Cmp: "graph", Impl: c20Impl()}
	basic := []string{"c0", "c0", "c1", "c2", "c3", "c4", "c5", "i0", "i1", "any"}
	c.InT = c20Pick(r, basic)
	if r.Chance(35) {
		s := r.Intn(2)
		c.State = &s
	}
	nn := r.Range(1, 5)
	names := []string{"a", "b", "c", "d", "e"}
	var nodes []c20GNode
	// spine START -> n0 -> n1 -> ... -> END with mostly compatible types
	cur := c.InT // declared type flowing along the spine ("" = unknown yet)
	for i := 0; i < nn; i++ {
		n := c20GNode{key: names[i]}
		if r.Chance(30) {
			n.pt = true
		} else {
			if r.Chance(88) {
				n.in = c20CompatibleIn(r, cur)
			} else {
				n.in = c20Pick(r, basic)
			}
			n.out = c20Pick(r, basic)
			cur = n.out
		}
		nodes = append(nodes, n)
	}
	if r.Chance(88) {
		c.OutT = c20CompatibleIn(r, cur)
	} else {
		c.OutT = c20Pick(r, basic)
	}
	var nodeOps, linkOps []c20Op
	for _, n := range nodes {
		op := c20NodeOp(r, n)
		if c.State != nil && r.Chance(25) {
			t := n.in
			if n.pt {
				t = "any"
			}
			op.Pre = &c20Handler{S: *c.State, T: t}
		}
		if c.State != nil && r.Chance(20) {
			t := n.out
			if n.pt {
				t = "any"
			}
			op.Post = &c20Handler{S: *c.State, T: t}
		}
		nodeOps = append(nodeOps, op)
	}
	edge := func(s, e string) { linkOps = append(linkOps, c20Op{Op: "edge", S: s, E: e}) }
	outOf := func(i int) string { // declared out type of spine position i (-1 = START), "" unknown
		for j := i; j >= 0; j-- {
			if !nodes[j].pt {
				return nodes[j].out
			}
		}
		return c.InT
	}
	// spine edges; some replaced by a branch
	prev := "start"
	for i, n := range nodes {
		if i > 0 && r.Chance(22) && i+1 <= nn {
			// branch from prev to {this node, some other later node or END}
			other := "end"
			if i+1 < nn && r.Bool() {
				other = nodes[r.Range(i+1, nn-1)].key
			}
			t := outOf(i - 1)
			if r.Chance(25) {
				t = c20CompatibleIn(r, t)
			}
			linkOps = append(linkOps, c20Op{Op: "branch", S: prev, T: t, Ends: c20SortedCopy([]string{n.key, other}), Pick: n.key})
		} else {
			edge(prev, n.key)
		}
		prev = n.key
	}
	edge(prev, "end")
	// extra edges: forward (fan-in/out), occasionally backward (cycle)
	for k := r.Intn(3); k > 0 && nn >= 2 && !forRuns; k-- { // run graphs stay trees: no fan-in merges
		i, j := r.Intn(nn), r.Intn(nn)
		if i == j {
			continue
		}
		if i > j && !r.Chance(35) {
			i, j = j, i
		}
		edge(nodes[i].key, nodes[j].key)
	}
	if !forRuns && r.Chance(12) { // branch from START
		linkOps = append(linkOps, c20Op{Op: "branch", S: "start", T: c.InT, Ends: c20SortedCopy([]string{nodes[0].key, "end"}), Pick: nodes[0].key})
	}
	if !forRuns && r.Chance(6) { // zero-end branch (accepted by the code; typed pass-through corner)
		linkOps = append(linkOps, c20Op{Op: "branch", S: nodes[r.Intn(nn)].key, T: c20Pick(r, basic), Ends: []string{}, Pick: ""})
	}
	// call order
	shuffle := func(l []c20Op) []c20Op {
		p := r.Perm(len(l))
		o := make([]c20Op, len(l))
		for i, j := range p {
			o[i] = l[j]
		}
		return o
	}
	var ops []c20Op
	switch x := r.Intn(100); {
	case x < 55: // nodes first, links shuffled
		ops = append(shuffle(nodeOps), shuffle(linkOps)...)
	case x < 85: // interleaved, every link after the nodes it names
		ops = shuffle(nodeOps)
		added := map[string]bool{"start": true, "end": true}
		var out []c20Op
		pending := shuffle(linkOps)
		for _, no := range ops {
			out = append(out, no)
			added[no.Key] = true
			var rest []c20Op
			for _, l := range pending {
				ok := added[l.S]
				if l.Op == "edge" {
					ok = ok && added[l.E]
				} else {
					for _, e := range l.Ends {
						ok = ok && added[e]
					}
				}
				if ok && r.Chance(70) {
					out = append(out, l)
				} else {
					rest = append(rest, l)
				}
			}
			pending = rest
		}
		ops = append(out, pending...)
	default: // fully random order (links may precede their nodes: unknown-node errors)
		ops = shuffle(append(append([]c20Op{}, nodeOps...), linkOps...))
	}
	// compile options
	comp := c20Op{Op: "compile"}
	switch x := r.Intn(100); {
	case x < 50:
	case x < 65:
		comp.Mode = "any"
	default:
		comp.Mode = "all"
	}
	if r.Chance(10) {
		comp.MaxSteps = r.Range(1, 30)
	}
	c.Ops = ops
	if !forRuns && r.Chance(55) {
		c20Inject(r, c, nodes, &comp)
	}
	c.Ops = append(c.Ops, comp)
	if forRuns {
		return c
	}
	// after Compile: Add* attempts, re-Compile, more attempts
	post := r.Intn(5)
	for k := 0; k < post; k++ {
		switch r.Intn(5) {
		case 0:
			c.Ops = append(c.Ops, c20Op{Op: "node", Key: "z" + fmt.Sprint(k), In: "c0", Out: "c0", Dyn: "c0"})
		case 1:
			c.Ops = append(c.Ops, c20Op{Op: "node", Key: "y" + fmt.Sprint(k), PT: true})
		case 2:
			c.Ops = append(c.Ops, c20Op{Op: "edge", S: nodes[r.Intn(nn)].key, E: "end"})
		case 3:
			c.Ops = append(c.Ops, c20Op{Op: "branch", S: nodes[r.Intn(nn)].key, T: c20Pick(r, basic), Ends: c20SortedCopy([]string{"end", nodes[0].key}), Pick: "end"})
		case 4:
			cc := comp
			if r.Chance(30) {
				cc.Mode = c20Pick(r, []string{"", "any", "all"})
			}
			c.Ops = append(c.Ops, cc)
		}
	}
	return c
}

var c20InjectKinds = []string{"reserved", "dupNode", "unknownStart", "unknownEnd", "dupEdge", "endAsStart", "startAsEnd",
	"singleBranch", "branchUnknownStart", "branchUnknownEnd", "handlerNoState", "handlerStateTy", "handlerTy",
	"ptHandlerNotAny", "nodeKeyOpt", "typeMismatch", "branchMismatch", "noEntry", "noExit", "uninferable", "cycleDag", "maxStepsDag"}

// c20Inject puts one violation of the chosen kind at a random position of the sequence.
func c20Inject(r *vh.Rand, c *c20Case, nodes []c20GNode, comp *c20Op) {
	kind := c20Pick(r, c20InjectKinds)
	c.Inject = kind
	pos := r.Intn(len(c.Ops) + 1)
	ins := func(op c20Op) {
		c.Ops = append(c.Ops[:pos], append([]c20Op{op}, c.Ops[pos:]...)...)
	}
	anyNode := nodes[r.Intn(len(nodes))]
	lam := func(key string) c20Op { return c20Op{Op: "node", Key: key, In: "c0", Out: "c0", Dyn: "c0"} }
	other := func(ty string) string {
		for {
			t := c20Pick(r, c20Concrete)
			if t != ty {
				return t
			}
		}
	}
	switch kind {
	case "reserved":
		ins(lam(c20Pick(r, []string{"start", "end"})))
	case "dupNode":
		if r.Bool() {
			ins(lam(anyNode.key))
		} else {
			ins(c20Op{Op: "node", Key: anyNode.key, PT: true})
		}
	case "unknownStart":
		ins(c20Op{Op: "edge", S: "ghost", E: anyNode.key})
	case "unknownEnd":
		ins(c20Op{Op: "edge", S: anyNode.key, E: "ghost"})
	case "dupEdge":
		var edges []c20Op
		for _, o := range c.Ops {
			if o.Op == "edge" {
				edges = append(edges, o)
			}
		}
		if len(edges) > 0 {
			ins(edges[r.Intn(len(edges))])
		}
	case "endAsStart":
		if r.Bool() {
			ins(c20Op{Op: "edge", S: "end", E: anyNode.key})
		} else {
			ins(c20Op{Op: "branch", S: "end", T: "c0", Ends: c20SortedCopy([]string{anyNode.key, "end"}), Pick: "end"})
		}
	case "startAsEnd":
		ins(c20Op{Op: "edge", S: anyNode.key, E: "start"})
	case "singleBranch":
		ins(c20Op{Op: "branch", S: anyNode.key, T: c20Pick(r, c20TyNames), Ends: []string{c20Pick(r, []string{"end", nodes[0].key})}, Pick: "end"})
	case "branchUnknownStart":
		ins(c20Op{Op: "branch", S: "ghost", T: "c0", Ends: c20SortedCopy([]string{anyNode.key, "end"}), Pick: "end"})
	case "branchUnknownEnd":
		ins(c20Op{Op: "branch", S: anyNode.key, T: c20Pick(r, c20TyNames), Ends: c20SortedCopy([]string{"ghost", "end"}), Pick: "end"})
	case "handlerNoState", "handlerStateTy", "handlerTy", "ptHandlerNotAny", "nodeKeyOpt":
		// rewrite one node-adding call
		var idx []int
		for i, o := range c.Ops {
			if o.Op == "node" && (kind != "ptHandlerNotAny" || o.PT) && (kind != "handlerTy" || !o.PT) {
				idx = append(idx, i)
			}
		}
		if len(idx) == 0 {
			c.Inject = ""
			return
		}
		o := &c.Ops[idx[r.Intn(len(idx))]]
		st := 0
		if c.State != nil {
			st = *c.State
		}
		ty := o.In
		if o.PT {
			ty = "any"
		}
		switch kind {
		case "handlerNoState":
			c.State = nil
			for i := range c.Ops {
				c.Ops[i].Pre, c.Ops[i].Post = nil, nil
			}
			o.Pre = &c20Handler{S: 0, T: ty}
		case "handlerStateTy":
			if c.State == nil {
				c.State = &st
			}
			o.Pre, o.Post = nil, nil
			if r.Bool() {
				o.Pre = &c20Handler{S: 1 - st, T: ty}
			} else {
				t := o.Out
				if o.PT {
					t = "any"
				}
				o.Post = &c20Handler{S: 1 - st, T: t}
			}
		case "handlerTy":
			if c.State == nil {
				c.State = &st
			}
			if r.Bool() {
				o.Pre = &c20Handler{S: st, T: other(o.In)}
			} else {
				o.Post = &c20Handler{S: st, T: other(o.Out)}
			}
		case "ptHandlerNotAny":
			if c.State == nil {
				c.State = &st
			}
			if r.Bool() {
				o.Pre = &c20Handler{S: st, T: c20Pick(r, c20Concrete)}
			} else {
				o.Post = &c20Handler{S: st, T: c20Pick(r, c20Concrete)}
			}
		case "nodeKeyOpt":
			o.KeyOpt = true
		}
	case "typeMismatch":
		// a lambda whose input can never take what its predecessor produces
		k := "m"
		ins(c20Op{Op: "edge", S: k, E: "end"})
		ins(c20Op{Op: "edge", S: "start", E: k})
		ins(c20Op{Op: "node", Key: k, In: other(c.InT), Out: c.OutT, Dyn: c20DynFor(r, c.OutT)})
		if c.InT == "any" || c.InT == "i0" || c.InT == "i1" {
			c.Inject = "typeMay" // upstream is an interface: not a definite mismatch
		}
	case "branchMismatch":
		if anyNode.pt {
			c.Inject = ""
			return
		}
		ins(c20Op{Op: "branch", S: anyNode.key, T: other(anyNode.out), Ends: c20SortedCopy([]string{nodes[0].key, "end"}), Pick: "end"})
		pos = len(c.Ops) // keep it after the node exists most of the time
	case "noEntry":
		var ops []c20Op
		for _, o := range c.Ops {
			if !(o.S == "start") {
				ops = append(ops, o)
			}
		}
		c.Ops = ops
	case "noExit":
		var ops []c20Op
		for _, o := range c.Ops {
			keep := true
			if o.Op == "edge" && o.E == "end" {
				keep = false
			}
			if o.Op == "branch" {
				for _, e := range o.Ends {
					if e == "end" {
						keep = false
					}
				}
			}
			if keep {
				ops = append(ops, o)
			}
		}
		c.Ops = ops
	case "uninferable":
		ins(c20Op{Op: "edge", S: "p1", E: "p2"})
		ins(c20Op{Op: "node", Key: "p2", PT: true})
		ins(c20Op{Op: "node", Key: "p1", PT: true})
	case "cycleDag":
		comp.Mode = "all"
		a := anyNode.key
		ins(c20Op{Op: "edge", S: "q", E: a})
		ins(c20Op{Op: "edge", S: a, E: "q"})
		t := anyNode.out
		ti := anyNode.in
		if anyNode.pt {
			ins(c20Op{Op: "node", Key: "q", PT: true})
		} else {
			ins(c20Op{Op: "node", Key: "q", In: t, Out: ti, Dyn: c20DynFor(r, ti)})
		}
	case "maxStepsDag":
		comp.Mode = "all"
		comp.MaxSteps = r.Range(1, 20)
	}
}

func c20Key(c *c20Case) string {
	b, _ := json.Marshal(struct {
		A, B, C string
		S       *int
		O       []c20Op
		W       *c20WfExt
	}{c.Stream, c.InT, c.OutT, c.State, c.Ops, c.Extra})
	return string(b)
}

func c20Coarse(out []string) string {
	var b strings.Builder
	for _, o := range out {
		switch o {
		case "ok", "compiled", "panic":
			b.WriteString(o)
		default:
			b.WriteString("error")
		}
		b.WriteByte(',')
	}
	return b.String()
}
