//go:build verif && (vh_all || vh_c05)

package props

// registers the eager-workflow family (c05_eager.go) with the C05 check
func init() {
	c05Extra = append(c05Extra, runEagerFamily)
	c05ReplayExtra["eager"] = c05eReplay
}
