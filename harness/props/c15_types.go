//go:build verif && (vh_all || vh_c15)

package props

import (
	"context"
	"encoding/json"
	"fmt"
	"reflect"
	"sort"

	"github.com/cloudwego/eino/compose"
)

// ---------------------------------------------------------------------------------------
// The type universe of the C15 cases: nested structs, pointers, map[string]T, `any` holes.
// Every type is described to the oracle by a descriptor computed by reflection, so the Lean
// model navigates exactly the shape the Go code navigates.
// ---------------------------------------------------------------------------------------

type C15Leaf struct {
	S string
	N int
}

type C15Mid struct {
	S  string
	L  C15Leaf
	PL *C15Leaf
	A  any
	MS map[string]string
}

type C15Top struct {
	S    string
	N    int
	L    C15Leaf
	PL   *C15Leaf
	Mid  C15Mid
	PMid *C15Mid
	MS   map[string]string
	ML   map[string]C15Leaf
	MPL  map[string]*C15Leaf
	MA   map[string]any
	MM   map[string]map[string]string
	A    any
	B    any
}

// embedded (anonymous) struct fields, by value and by pointer, at one and two levels: their fields
// are promoted, a path segment may name them directly (`ID` for `C15Base.ID`).  `S` of C15EmbV
// shadows the promoted `C15Base.S`.
type C15Base struct {
	ID string
	N  int
	S  string
	PL *C15Leaf
}

type C15EmbV struct {
	C15Base
	Name string
	S    string
}

type C15EmbP struct {
	*C15Base
	Name string
	A    any
}

type C15Emb2 struct {
	C15EmbV
	X string
}

type C15Emb2P struct {
	*C15EmbP
	X string
	L C15Leaf
}

// pointers to maps: a slot of such a type can be mapped as a whole, no path can go through it
type C15PM struct {
	S   string
	M   *map[string]string
	PPM **map[string]int
	MPM map[string]*map[string]int
	PL  *C15Leaf
}

type C15Wrap struct {
	S   string
	E   C15EmbV
	PE  *C15EmbV
	EP  C15EmbP
	E2  C15Emb2
	E2P *C15Emb2P
	ME  map[string]C15EmbV
	MEP map[string]*C15EmbP
	PM  C15PM
	PPM *C15PM
	A   any
}

// opaque leaf kinds: slices, funcs, channels are never navigated, only moved as a whole.  All three
// have a nil value; the field mapping code accepts an untyped nil for the slice only (its lists of
// kinds: Map, Slice, Ptr, Interface).
type C15Opq struct {
	S   string
	N   int
	SS  []string
	F   func() string
	C   chan int
	PL  *C15Leaf
	L   C15Leaf
	A   any
	MSS map[string][]string
	MF  map[string]func() string
	MC  map[string]chan int
	MA  map[string]any
}

// non-empty interfaces and multi-level pointers.  C15Namer is implemented by C15NV (value receiver:
// C15NV and *C15NV) and by *C15NP (pointer receiver: C15NP itself does not implement it) and by no
// other type of the universe (checked at start-up).  What lies below a C15Namer-typed slot is known
// only at request time: a source path may go through it (run-time checker), a target path may not
// (nothing can be instantiated there).  No path can go through a pointer to a pointer: extraction
// and assignment follow one pointer level.
type C15Namer interface{ C15Name() string }

type C15NV struct {
	S string
	N int
}

func (v C15NV) C15Name() string { return v.S }

type C15NP struct {
	S string
	L C15Leaf
	A any
}

func (p *C15NP) C15Name() string { return p.S }

type C15Deep struct {
	S   string
	N   int
	R   C15Namer
	R2  C15Namer
	PP  **C15Leaf
	PPP ***C15Leaf
	PPN **C15NP
	MR  map[string]C15Namer
	MPP map[string]**C15Leaf
	NV  C15NV
	PNP *C15NP
	PL  *C15Leaf
	A   any
}

var (
	c15NamerType = reflect.TypeOf((*C15Namer)(nil)).Elem()
	// the concrete types of the universe that implement C15Namer, in the order of the descriptor
	c15NamerImpls = []reflect.Type{reflect.TypeOf(C15NV{}), reflect.TypeOf(&C15NV{}), reflect.TypeOf(&C15NP{})}
)

// c15TyName: the Go spelling of a type of the universe without the package (Model/C15.lean
// `tyName`): the key of an interface descriptor's `impls` list.
func c15TyName(rt reflect.Type) string {
	switch rt.Kind() {
	case reflect.String:
		return "string"
	case reflect.Int:
		return "int"
	case reflect.Interface:
		if rt == c15AnyType {
			return "interface {}"
		}
		return rt.Name()
	case reflect.Ptr:
		return "*" + c15TyName(rt.Elem())
	case reflect.Map:
		return "map[string]" + c15TyName(rt.Elem())
	case reflect.Struct:
		return rt.Name()
	}
	return rt.String()
}

// c15CheckIfaces: the descriptor of a non-empty interface lists exactly the implementing types of
// the universe, and the spelling identifies a type (start-up check of what the model assumes).
func c15CheckIfaces() {
	names := map[string]reflect.Type{}
	listed := map[reflect.Type]bool{}
	for _, rt := range c15NamerImpls {
		listed[rt] = true
	}
	var all []reflect.Type
	for _, rt := range c15ByDesc {
		all = append(all, rt)
	}
	all = append(all, c15DynTypes...)
	for _, rt := range all {
		n := c15TyName(rt)
		if o, ok := names[n]; ok && o != rt {
			panic(fmt.Sprintf("c15: types %v and %v share the spelling %q", o, rt, n))
		}
		names[n] = rt
		if rt.Kind() != reflect.Interface && rt.Implements(c15NamerType) != listed[rt] {
			panic(fmt.Sprintf("c15: %v implements C15Namer: %v, listed: %v", rt, rt.Implements(c15NamerType), listed[rt]))
		}
	}
}

type c15J = map[string]any

// the non-nil values of the opaque types, by token: a value of an opaque type travels to the
// oracle as {"k":"str","s":token} (the model never looks inside), nil as {"k":"nil"}
type c15OpqVal struct {
	tok string
	v   reflect.Value
}

var c15OpqVals = map[reflect.Type][]c15OpqVal{}

func c15OpqReg(tok string, v any) {
	rv := reflect.ValueOf(v)
	c15OpqVals[rv.Type()] = append(c15OpqVals[rv.Type()], c15OpqVal{tok, rv})
}

func c15IsOpq(rt reflect.Type) bool {
	switch rt.Kind() {
	case reflect.Slice, reflect.Func, reflect.Chan:
		return true
	}
	return false
}

func c15OpqKind(rt reflect.Type) string {
	switch rt.Kind() {
	case reflect.Slice:
		return "slice"
	case reflect.Func:
		return "func"
	case reflect.Chan:
		return "chan"
	}
	return ""
}

// c15OpqTok: the token of a non-nil opaque value (identity for funcs and channels, contents for
// slices); a value the harness never made gets a token that matches nothing
func c15OpqTok(v reflect.Value) string {
	for _, o := range c15OpqVals[v.Type()] {
		switch v.Kind() {
		case reflect.Slice:
			if reflect.DeepEqual(o.v.Interface(), v.Interface()) {
				return o.tok
			}
		default:
			if o.v.Pointer() == v.Pointer() {
				return o.tok
			}
		}
	}
	return "?" + v.Type().String()
}

// c15TypeInfo: one root type of the menu (usable as predecessor output and successor input).
type c15TypeInfo struct {
	name   string
	rt     reflect.Type
	desc   c15J
	lambda func(get func() any) *compose.Lambda // any -> T, returning get().(T)
	// run[inputTypeName]: the workflow input type is string (a mere trigger), or C15Top /
	// map[string]any when START itself is one of the mapped predecessors
	run map[string]func(c *c15Case, vals []reflect.Value) *c15Impl
}

var (
	c15Types    = map[string]*c15TypeInfo{}
	c15TypeList []string
	c15ByDesc   = map[string]reflect.Type{} // canonical descriptor -> reflect.Type (for `box`)
	c15AnyType  = reflect.TypeOf((*any)(nil)).Elem()
)

func c15Reg[T any](name string) {
	var z *T
	rt := reflect.TypeOf(z).Elem()
	ti := &c15TypeInfo{name: name, rt: rt, desc: c15TyDesc(rt)}
	ti.lambda = func(get func() any) *compose.Lambda {
		return compose.InvokableLambda(func(ctx context.Context, in any) (T, error) {
			v := get()
			if v == nil {
				var zero T
				return zero, nil
			}
			return v.(T), nil
		})
	}
	ti.run = map[string]func(c *c15Case, vals []reflect.Value) *c15Impl{
		"Str":    func(c *c15Case, vals []reflect.Value) *c15Impl { return c15RunT[string, T](c, vals) },
		"Top":    func(c *c15Case, vals []reflect.Value) *c15Impl { return c15RunT[C15Top, T](c, vals) },
		"MapAny": func(c *c15Case, vals []reflect.Value) *c15Impl { return c15RunT[map[string]any, T](c, vals) },
		"Wrap":   func(c *c15Case, vals []reflect.Value) *c15Impl { return c15RunT[C15Wrap, T](c, vals) },
		"PEmbP":  func(c *c15Case, vals []reflect.Value) *c15Impl { return c15RunT[*C15EmbP, T](c, vals) },
		"Deep":   func(c *c15Case, vals []reflect.Value) *c15Impl { return c15RunT[C15Deep, T](c, vals) },
		"PNP":    func(c *c15Case, vals []reflect.Value) *c15Impl { return c15RunT[*C15NP, T](c, vals) },
	}
	c15Types[name] = ti
	c15TypeList = append(c15TypeList, name)
	c15RegDesc(rt)
}

func c15RegDesc(rt reflect.Type) {
	c15ByDesc[vhCanonC15(c15TyDesc(rt))] = rt
}

func vhCanonC15(v any) string {
	b, _ := json.Marshal(v) // map keys are sorted by encoding/json
	return string(b)
}

func init() {
	c15Reg[C15Top]("Top")
	c15Reg[*C15Top]("PTop")
	c15Reg[C15Mid]("Mid")
	c15Reg[*C15Mid]("PMid")
	c15Reg[C15Leaf]("Leaf")
	c15Reg[*C15Leaf]("PLeaf")
	c15Reg[map[string]any]("MapAny")
	c15Reg[map[string]string]("MapStr")
	c15Reg[map[string]C15Leaf]("MapLeaf")
	c15Reg[map[string]*C15Mid]("MapPMid")
	c15Reg[map[string]C15Mid]("MapMid")
	c15Reg[any]("Any")
	c15Reg[string]("Str")
	c15Reg[int]("Int")
	c15Reg[C15EmbV]("EmbV")
	c15Reg[*C15EmbV]("PEmbV")
	c15Reg[C15EmbP]("EmbP")
	c15Reg[*C15EmbP]("PEmbP")
	c15Reg[C15Emb2]("Emb2")
	c15Reg[*C15Emb2P]("PEmb2P")
	c15Reg[C15Wrap]("Wrap")
	c15Reg[C15PM]("PM")
	c15Reg[*C15PM]("PPM")
	c15Reg[map[string]*map[string]int]("MapPMap")
	c15Reg[map[string]C15EmbV]("MapEmbV")
	c15OpqReg("ss0", []string{})
	c15OpqReg("ss1", []string{"a"})
	c15OpqReg("ss2", []string{"a", "b"})
	c15OpqReg("is1", []int{4})
	c15OpqReg("f1", func() string { return "f1" })
	c15OpqReg("f2", func() string { return "f2" })
	c15OpqReg("g1", func(int) int { return 1 })
	c15OpqReg("c1", make(chan int, 1))
	c15OpqReg("c2", make(chan int, 1))
	c15OpqReg("d1", make(chan string, 1))
	c15Reg[C15Opq]("Opq")
	c15Reg[*C15Opq]("POpq")
	c15Reg[map[string][]string]("MapSS")
	c15Reg[map[string]func() string]("MapFunc")
	c15Reg[map[string]chan int]("MapChan")
	for _, rt := range []reflect.Type{reflect.TypeOf(map[string]map[string]string{}), reflect.TypeOf(map[string]*C15Leaf{}),
		reflect.TypeOf(C15Base{}), reflect.TypeOf(&C15Base{}), reflect.TypeOf(C15Emb2P{}), reflect.TypeOf(&C15Emb2{}),
		reflect.TypeOf(map[string]*C15EmbP{}), reflect.TypeOf(&map[string]string{}), reflect.TypeOf(&map[string]int{}),
		reflect.TypeOf([]string{}), reflect.TypeOf([]int{}), reflect.TypeOf((func() string)(nil)), reflect.TypeOf((func(int) int)(nil)),
		reflect.TypeOf((chan int)(nil)), reflect.TypeOf((chan string)(nil))} {
		c15RegDesc(rt)
	}
	c15Reg[C15Deep]("Deep")
	c15Reg[*C15Deep]("PDeep")
	c15Reg[map[string]C15Namer]("MapNamer")
	c15Reg[**C15Leaf]("PPLeaf")
	c15Reg[C15NV]("NV")
	c15Reg[*C15NP]("PNP")
	for _, rt := range []reflect.Type{reflect.TypeOf(&C15NV{}), reflect.TypeOf(C15NP{}), reflect.TypeOf((***C15Leaf)(nil)),
		reflect.TypeOf((**C15NP)(nil)), reflect.TypeOf(map[string]**C15Leaf{}), c15NamerType} {
		c15RegDesc(rt)
	}
	c15InitEmb()
	c15CheckIfaces()
}

// ---------------------------------------------------------------------------------------
// embedded fields: the table sent with every case, and the Go twin of the model's selector
// resolution (Model/C15Embed.lean `selT`: a declared field first, then the embedded fields in
// declaration order, depth-first), checked against reflect for every struct type of the menu
// ---------------------------------------------------------------------------------------

var c15EmbTable [][]string

func c15StructOf(rt reflect.Type) (reflect.Type, bool) {
	if rt.Kind() == reflect.Ptr {
		rt = rt.Elem()
	}
	return rt, rt.Kind() == reflect.Struct
}

// c15ModelSel: the explicit path (field names) the selector s stands for on the struct type st.
func c15ModelSel(st reflect.Type, s string) []string {
	for i := 0; i < st.NumField(); i++ {
		if st.Field(i).Name == s {
			return []string{s}
		}
	}
	for i := 0; i < st.NumField(); i++ {
		f := st.Field(i)
		if !f.Anonymous {
			continue
		}
		if et, ok := c15StructOf(f.Type); ok {
			if p := c15ModelSel(et, s); p != nil {
				return append([]string{f.Name}, p...)
			}
		}
	}
	return nil
}

func c15InitEmb() {
	seen := map[reflect.Type]bool{}
	var walk func(rt reflect.Type)
	walk = func(rt reflect.Type) {
		switch rt.Kind() {
		case reflect.Ptr, reflect.Map:
			walk(rt.Elem())
		case reflect.Struct:
			if seen[rt] {
				return
			}
			seen[rt] = true
			names := map[string]bool{}
			var all func(t reflect.Type)
			all = func(t reflect.Type) {
				for i := 0; i < t.NumField(); i++ {
					f := t.Field(i)
					names[f.Name] = true
					if f.Anonymous {
						c15EmbTable = append(c15EmbTable, []string{t.Name(), f.Name})
						if et, ok := c15StructOf(f.Type); ok {
							all(et)
						}
					}
				}
			}
			all(rt)
			// the model's depth-first resolution must be Go's (breadth-first, no ambiguity) on this type
			for n := range names {
				want := []string(nil)
				if f, ok := rt.FieldByName(n); ok {
					t := rt
					for _, ix := range f.Index {
						t, _ = c15StructOf(t)
						want = append(want, t.Field(ix).Name)
						t = t.Field(ix).Type
					}
				}
				got := c15ModelSel(rt, n)
				if fmt.Sprint(got) != fmt.Sprint(want) {
					panic(fmt.Sprintf("c15: selector %s on %v: model resolves %v, reflect %v", n, rt, got, want))
				}
			}
			for i := 0; i < rt.NumField(); i++ {
				walk(rt.Field(i).Type)
			}
		}
	}
	for _, n := range c15TypeList {
		walk(c15Types[n].rt)
	}
	for _, rt := range c15ByDesc {
		walk(rt)
	}
	// dedupe, sorted
	uniq := map[string][]string{}
	for _, e := range c15EmbTable {
		uniq[e[0]+"."+e[1]] = e
	}
	keys := make([]string, 0, len(uniq))
	for k := range uniq {
		keys = append(keys, k)
	}
	sort.Strings(keys)
	c15EmbTable = nil
	for _, k := range keys {
		c15EmbTable = append(c15EmbTable, uniq[k])
	}
}

// c15TyDesc: {"k":"str"|"int"|"any"} | {"k":"ptr"|"map","e":T} | {"k":"struct","name":..,"fields":[{"n","t"}]}
// | {"k":"opq","kind":"slice"|"func"|"chan","name":Go spelling}
// | {"k":"iface","name":..,"impls":[spellings of the implementing types]}
func c15TyDesc(rt reflect.Type) c15J {
	switch rt.Kind() {
	case reflect.Slice, reflect.Func, reflect.Chan:
		return c15J{"k": "opq", "kind": c15OpqKind(rt), "name": rt.String()}
	case reflect.String:
		return c15J{"k": "str"}
	case reflect.Int:
		return c15J{"k": "int"}
	case reflect.Interface:
		if rt == c15NamerType {
			impls := []any{}
			for _, it := range c15NamerImpls {
				impls = append(impls, c15TyName(it))
			}
			return c15J{"k": "iface", "name": rt.Name(), "impls": impls}
		}
		if rt != c15AnyType {
			panic("c15: interface type outside the universe: " + rt.String())
		}
		return c15J{"k": "any"}
	case reflect.Ptr:
		return c15J{"k": "ptr", "e": c15TyDesc(rt.Elem())}
	case reflect.Map:
		return c15J{"k": "map", "e": c15TyDesc(rt.Elem())}
	case reflect.Struct:
		var fs []any
		for i := 0; i < rt.NumField(); i++ {
			f := rt.Field(i)
			fs = append(fs, c15J{"n": f.Name, "t": c15TyDesc(f.Type)})
		}
		return c15J{"k": "struct", "name": rt.Name(), "fields": fs}
	}
	panic("c15: type outside the universe: " + rt.String())
}

// c15Enc renders a Go value (seen at static type v.Type()) as a value descriptor:
// {"k":"str","s"} {"k":"int","i"} {"k":"nil"} {"k":"ptr","v"} {"k":"obj","fs":[{"n","v"}]}
// {"k":"map","kvs":[{"n","v"}] sorted} {"k":"box","t":T,"v":V}
func c15Enc(v reflect.Value) c15J { return c15EncD(v, 0) }

// (an accepted overlapping mapping set can make the implementation build a cyclic value by
// writing through a predecessor's map; the depth bound keeps the harness alive)
func c15EncD(v reflect.Value, depth int) c15J {
	if depth > 64 {
		return c15J{"k": "too-deep"}
	}
	switch v.Kind() {
	case reflect.String:
		return c15J{"k": "str", "s": v.String()}
	case reflect.Int:
		return c15J{"k": "int", "i": v.Int()}
	case reflect.Slice, reflect.Func, reflect.Chan:
		if v.IsNil() {
			return c15J{"k": "nil"}
		}
		return c15J{"k": "str", "s": c15OpqTok(v)}
	case reflect.Interface:
		if v.IsNil() {
			return c15J{"k": "nil"}
		}
		e := v.Elem()
		return c15J{"k": "box", "t": c15TyDesc(e.Type()), "v": c15EncD(e, depth+1)}
	case reflect.Ptr:
		if v.IsNil() {
			return c15J{"k": "nil"}
		}
		return c15J{"k": "ptr", "v": c15EncD(v.Elem(), depth+1)}
	case reflect.Map:
		if v.IsNil() {
			return c15J{"k": "nil"}
		}
		keys := []string{}
		for _, k := range v.MapKeys() {
			keys = append(keys, k.String())
		}
		sort.Strings(keys)
		kvs := []any{}
		for _, k := range keys {
			kvs = append(kvs, c15J{"n": k, "v": c15EncD(v.MapIndex(reflect.ValueOf(k)), depth+1)})
		}
		return c15J{"k": "map", "kvs": kvs}
	case reflect.Struct:
		fs := []any{}
		for i := 0; i < v.NumField(); i++ {
			fs = append(fs, c15J{"n": v.Type().Field(i).Name, "v": c15EncD(v.Field(i), depth+1)})
		}
		return c15J{"k": "obj", "fs": fs}
	}
	panic("c15: value outside the universe: " + v.Type().String())
}

// c15EncAny renders an `any` (e.g. a run result) at static type rt.
func c15EncAny(x any, rt reflect.Type) c15J {
	v := reflect.New(rt).Elem()
	if x != nil {
		v.Set(reflect.ValueOf(x))
	}
	return c15Enc(v)
}

func c15Arr(j c15J, k string) []any {
	a, _ := j[k].([]any)
	return a
}

// c15Dec builds the Go value a descriptor denotes, at static type rt.
func c15Dec(d c15J, rt reflect.Type) (reflect.Value, error) {
	out := reflect.New(rt).Elem()
	k, _ := d["k"].(string)
	switch rt.Kind() {
	case reflect.Slice, reflect.Func, reflect.Chan:
		if k == "nil" {
			return out, nil
		}
		tok, _ := d["s"].(string)
		for _, o := range c15OpqVals[rt] {
			if o.tok == tok {
				out.Set(o.v)
				return out, nil
			}
		}
		return out, fmt.Errorf("c15Dec: no value %q of type %v", tok, rt)
	case reflect.String:
		if k != "str" {
			return out, fmt.Errorf("c15Dec: %s at string", k)
		}
		s, _ := d["s"].(string)
		out.SetString(s)
	case reflect.Int:
		if k != "int" {
			return out, fmt.Errorf("c15Dec: %s at int", k)
		}
		switch n := d["i"].(type) {
		case float64:
			out.SetInt(int64(n))
		case int64:
			out.SetInt(n)
		case int:
			out.SetInt(int64(n))
		case json.Number:
			i, _ := n.Int64()
			out.SetInt(i)
		}
	case reflect.Interface:
		if k == "nil" {
			return out, nil
		}
		if k != "box" {
			return out, fmt.Errorf("c15Dec: %s at any", k)
		}
		t, _ := d["t"].(map[string]any)
		drt, ok := c15ByDesc[vhCanonC15(t)]
		if !ok {
			return out, fmt.Errorf("c15Dec: unknown dynamic type %v", t)
		}
		inner, _ := d["v"].(map[string]any)
		iv, err := c15Dec(inner, drt)
		if err != nil {
			return out, err
		}
		if !drt.AssignableTo(rt) {
			return out, fmt.Errorf("c15Dec: dynamic type %v at %v", drt, rt)
		}
		out.Set(iv)
	case reflect.Ptr:
		if k == "nil" {
			return out, nil
		}
		inner, _ := d["v"].(map[string]any)
		iv, err := c15Dec(inner, rt.Elem())
		if err != nil {
			return out, err
		}
		p := reflect.New(rt.Elem())
		p.Elem().Set(iv)
		out.Set(p)
	case reflect.Map:
		if k == "nil" {
			return out, nil
		}
		m := reflect.MakeMap(rt)
		for _, e := range c15Arr(d, "kvs") {
			ej := e.(map[string]any)
			iv, err := c15Dec(ej["v"].(map[string]any), rt.Elem())
			if err != nil {
				return out, err
			}
			m.SetMapIndex(reflect.ValueOf(ej["n"].(string)), iv)
		}
		out.Set(m)
	case reflect.Struct:
		fs := c15Arr(d, "fs")
		for i := 0; i < rt.NumField() && i < len(fs); i++ {
			ej := fs[i].(map[string]any)
			iv, err := c15Dec(ej["v"].(map[string]any), rt.Field(i).Type)
			if err != nil {
				return out, err
			}
			out.Field(i).Set(iv)
		}
	}
	return out, nil
}

// ---------------------------------------------------------------------------------------
// path enumeration
// ---------------------------------------------------------------------------------------

type c15PathInfo struct {
	path []string
	ty   reflect.Type // static type of the slot
	via  bool         // passes through an interface-typed intermediate
}

var c15Keys = []string{"k1", "k2", "x"}

// c15TargetPaths: every target path of rt up to the given depth (map keys and keys below `any`
// holes from a small pool).  Struct segments are all legal selectors: declared fields, embedded
// fields and promoted fields.  Paths THROUGH a pointer to a map are enumerated too (no such path
// can be walked at run time: compilation has to reject them).
func c15TargetPaths(rt reflect.Type, depth int, pre []string, via bool, out *[]c15PathInfo) {
	if len(pre) > 0 {
		*out = append(*out, c15PathInfo{path: append([]string{}, pre...), ty: rt, via: via})
	}
	if depth == 0 {
		return
	}
	t := rt
	switch t.Kind() {
	case reflect.Map:
		for _, k := range c15Keys[:2] {
			c15TargetPaths(t.Elem(), depth-1, append(pre, k), via, out)
		}
		return
	case reflect.Interface:
		if t != c15AnyType {
			// below a non-empty interface nothing can be instantiated: compilation has to reject these
			// (as a statically valid SOURCE path: a field of the dynamic type, a key, a second level)
			for _, k := range []string{"S", c15Keys[0]} {
				*out = append(*out, c15PathInfo{path: append(append([]string{}, pre...), k), ty: c15AnyType, via: true})
			}
			if depth > 1 {
				*out = append(*out, c15PathInfo{path: append(append([]string{}, pre...), "L", "S"), ty: c15AnyType, via: true})
			}
			return
		}
		for _, k := range c15Keys[:2] {
			c15TargetPaths(c15AnyType, depth-1, append(pre, k), true, out)
		}
		return
	case reflect.Ptr:
		for t.Kind() == reflect.Ptr {
			t = t.Elem()
		}
		if t.Kind() == reflect.Map {
			c15TargetPaths(t.Elem(), depth-1, append(pre, c15Keys[0]), via, out)
			return
		}
	}
	if t.Kind() == reflect.Struct {
		for _, f := range reflect.VisibleFields(t) {
			c15TargetPaths(f.Type, depth-1, append(pre, f.Name), via, out)
		}
	}
}

// c15SourcePaths: every source path that resolves on the value v (static type v.Type()),
// following the dynamic content of interface values; plus the static type of the slot reached.
// A promoted selector whose embedded pointer is nil is listed (it does not resolve: an error).
func c15SourcePaths(v reflect.Value, depth int, pre []string, via bool, out *[]c15PathInfo) {
	if len(pre) > 0 {
		*out = append(*out, c15PathInfo{path: append([]string{}, pre...), ty: v.Type(), via: via})
	}
	if depth == 0 {
		return
	}
	x := v
	if x.Kind() == reflect.Interface {
		if x.IsNil() {
			return
		}
		x = x.Elem()
		via = true
	}
	switch x.Kind() {
	case reflect.Map:
		for _, k := range x.MapKeys() {
			c15SourcePaths(x.MapIndex(k), depth-1, append(pre, k.String()), via, out)
		}
		return
	case reflect.Ptr:
		for x.Kind() == reflect.Ptr {
			if x.IsNil() {
				return
			}
			x = x.Elem()
		}
		if x.Kind() == reflect.Map {
			// through a pointer to a map: cannot be walked, compilation has to reject it
			for _, k := range x.MapKeys() {
				*out = append(*out, c15PathInfo{path: append(append([]string{}, pre...), k.String()), ty: x.Type().Elem(), via: via})
			}
			return
		}
	}
	if x.Kind() == reflect.Struct {
		for _, f := range reflect.VisibleFields(x.Type()) {
			fv, err := x.FieldByIndexErr(f.Index)
			if err != nil {
				*out = append(*out, c15PathInfo{path: append(append([]string{}, pre...), f.Name), ty: f.Type, via: via})
				continue
			}
			c15SourcePaths(fv, depth-1, append(pre, f.Name), via, out)
		}
	}
}
