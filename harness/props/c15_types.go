//go:build verif && (vh_all || vh_c15)

package props

import (
	"context"
	"encoding/json"
	"fmt"
	"reflect"
	"sort"

	"github.com/cloudwego/eino/compose"
)

// ---------------------------------------------------------------------------------------
// The type universe of the C15 cases: nested structs, pointers, map[string]T, `any` holes.
// Every type is described to the oracle by a descriptor computed by reflection, so the Lean
// model navigates exactly the shape the Go code navigates.
// ---------------------------------------------------------------------------------------

type C15Leaf struct {
	S string
	N int
}

type C15Mid struct {
	S  string
	L  C15Leaf
	PL *C15Leaf
	A  any
	MS map[string]string
}

type C15Top struct {
	S    string
	N    int
	L    C15Leaf
	PL   *C15Leaf
	Mid  C15Mid
	PMid *C15Mid
	MS   map[string]string
	ML   map[string]C15Leaf
	MPL  map[string]*C15Leaf
	MA   map[string]any
	MM   map[string]map[string]string
	A    any
	B    any
}

type c15J = map[string]any

// c15TypeInfo: one root type of the menu (usable as predecessor output and successor input).
type c15TypeInfo struct {
	name   string
	rt     reflect.Type
	desc   c15J
	lambda func(get func() any) *compose.Lambda // any -> T, returning get().(T)
	// run[inputTypeName]: the workflow input type is string (a mere trigger), or C15Top /
	// map[string]any when START itself is one of the mapped predecessors
	run map[string]func(c *c15Case, vals []reflect.Value) *c15Impl
}

var (
	c15Types    = map[string]*c15TypeInfo{}
	c15TypeList []string
	c15ByDesc   = map[string]reflect.Type{} // canonical descriptor -> reflect.Type (for `box`)
	c15AnyType  = reflect.TypeOf((*any)(nil)).Elem()
)

func c15Reg[T any](name string) {
	var z *T
	rt := reflect.TypeOf(z).Elem()
	ti := &c15TypeInfo{name: name, rt: rt, desc: c15TyDesc(rt)}
	ti.lambda = func(get func() any) *compose.Lambda {
		return compose.InvokableLambda(func(ctx context.Context, in any) (T, error) {
			v := get()
			if v == nil {
				var zero T
				return zero, nil
			}
			return v.(T), nil
		})
	}
	ti.run = map[string]func(c *c15Case, vals []reflect.Value) *c15Impl{
		"Str":    func(c *c15Case, vals []reflect.Value) *c15Impl { return c15RunT[string, T](c, vals) },
		"Top":    func(c *c15Case, vals []reflect.Value) *c15Impl { return c15RunT[C15Top, T](c, vals) },
		"MapAny": func(c *c15Case, vals []reflect.Value) *c15Impl { return c15RunT[map[string]any, T](c, vals) },
	}
	c15Types[name] = ti
	c15TypeList = append(c15TypeList, name)
	c15RegDesc(rt)
}

func c15RegDesc(rt reflect.Type) {
	c15ByDesc[vhCanonC15(c15TyDesc(rt))] = rt
}

func vhCanonC15(v any) string {
	b, _ := json.Marshal(v) // map keys are sorted by encoding/json
	return string(b)
}

func init() {
	c15Reg[C15Top]("Top")
	c15Reg[*C15Top]("PTop")
	c15Reg[C15Mid]("Mid")
	c15Reg[*C15Mid]("PMid")
	c15Reg[C15Leaf]("Leaf")
	c15Reg[*C15Leaf]("PLeaf")
	c15Reg[map[string]any]("MapAny")
	c15Reg[map[string]string]("MapStr")
	c15Reg[map[string]C15Leaf]("MapLeaf")
	c15Reg[map[string]*C15Mid]("MapPMid")
	c15Reg[map[string]C15Mid]("MapMid")
	c15Reg[any]("Any")
	c15Reg[string]("Str")
	c15Reg[int]("Int")
	for _, rt := range []reflect.Type{reflect.TypeOf(map[string]map[string]string{}), reflect.TypeOf(map[string]*C15Leaf{})} {
		c15RegDesc(rt)
	}
}

// c15TyDesc: {"k":"str"|"int"|"any"} | {"k":"ptr"|"map","e":T} | {"k":"struct","name":..,"fields":[{"n","t"}]}
func c15TyDesc(rt reflect.Type) c15J {
	switch rt.Kind() {
	case reflect.String:
		return c15J{"k": "str"}
	case reflect.Int:
		return c15J{"k": "int"}
	case reflect.Interface:
		return c15J{"k": "any"}
	case reflect.Ptr:
		return c15J{"k": "ptr", "e": c15TyDesc(rt.Elem())}
	case reflect.Map:
		return c15J{"k": "map", "e": c15TyDesc(rt.Elem())}
	case reflect.Struct:
		var fs []any
		for i := 0; i < rt.NumField(); i++ {
			f := rt.Field(i)
			fs = append(fs, c15J{"n": f.Name, "t": c15TyDesc(f.Type)})
		}
		return c15J{"k": "struct", "name": rt.Name(), "fields": fs}
	}
	panic("c15: type outside the universe: " + rt.String())
}

// c15Enc renders a Go value (seen at static type v.Type()) as a value descriptor:
// {"k":"str","s"} {"k":"int","i"} {"k":"nil"} {"k":"ptr","v"} {"k":"obj","fs":[{"n","v"}]}
// {"k":"map","kvs":[{"n","v"}] sorted} {"k":"box","t":T,"v":V}
func c15Enc(v reflect.Value) c15J { return c15EncD(v, 0) }

// (an accepted overlapping mapping set can make the implementation build a cyclic value by
// writing through a predecessor's map; the depth bound keeps the harness alive)
func c15EncD(v reflect.Value, depth int) c15J {
	if depth > 64 {
		return c15J{"k": "too-deep"}
	}
	switch v.Kind() {
	case reflect.String:
		return c15J{"k": "str", "s": v.String()}
	case reflect.Int:
		return c15J{"k": "int", "i": v.Int()}
	case reflect.Interface:
		if v.IsNil() {
			return c15J{"k": "nil"}
		}
		e := v.Elem()
		return c15J{"k": "box", "t": c15TyDesc(e.Type()), "v": c15EncD(e, depth+1)}
	case reflect.Ptr:
		if v.IsNil() {
			return c15J{"k": "nil"}
		}
		return c15J{"k": "ptr", "v": c15EncD(v.Elem(), depth+1)}
	case reflect.Map:
		if v.IsNil() {
			return c15J{"k": "nil"}
		}
		keys := []string{}
		for _, k := range v.MapKeys() {
			keys = append(keys, k.String())
		}
		sort.Strings(keys)
		kvs := []any{}
		for _, k := range keys {
			kvs = append(kvs, c15J{"n": k, "v": c15EncD(v.MapIndex(reflect.ValueOf(k)), depth+1)})
		}
		return c15J{"k": "map", "kvs": kvs}
	case reflect.Struct:
		fs := []any{}
		for i := 0; i < v.NumField(); i++ {
			fs = append(fs, c15J{"n": v.Type().Field(i).Name, "v": c15EncD(v.Field(i), depth+1)})
		}
		return c15J{"k": "obj", "fs": fs}
	}
	panic("c15: value outside the universe: " + v.Type().String())
}

// c15EncAny renders an `any` (e.g. a run result) at static type rt.
func c15EncAny(x any, rt reflect.Type) c15J {
	v := reflect.New(rt).Elem()
	if x != nil {
		v.Set(reflect.ValueOf(x))
	}
	return c15Enc(v)
}

func c15Arr(j c15J, k string) []any {
	a, _ := j[k].([]any)
	return a
}

// c15Dec builds the Go value a descriptor denotes, at static type rt.
func c15Dec(d c15J, rt reflect.Type) (reflect.Value, error) {
	out := reflect.New(rt).Elem()
	k, _ := d["k"].(string)
	switch rt.Kind() {
	case reflect.String:
		if k != "str" {
			return out, fmt.Errorf("c15Dec: %s at string", k)
		}
		s, _ := d["s"].(string)
		out.SetString(s)
	case reflect.Int:
		if k != "int" {
			return out, fmt.Errorf("c15Dec: %s at int", k)
		}
		switch n := d["i"].(type) {
		case float64:
			out.SetInt(int64(n))
		case int64:
			out.SetInt(n)
		case int:
			out.SetInt(int64(n))
		case json.Number:
			i, _ := n.Int64()
			out.SetInt(i)
		}
	case reflect.Interface:
		if k == "nil" {
			return out, nil
		}
		if k != "box" {
			return out, fmt.Errorf("c15Dec: %s at any", k)
		}
		t, _ := d["t"].(map[string]any)
		drt, ok := c15ByDesc[vhCanonC15(t)]
		if !ok {
			return out, fmt.Errorf("c15Dec: unknown dynamic type %v", t)
		}
		inner, _ := d["v"].(map[string]any)
		iv, err := c15Dec(inner, drt)
		if err != nil {
			return out, err
		}
		out.Set(iv)
	case reflect.Ptr:
		if k == "nil" {
			return out, nil
		}
		inner, _ := d["v"].(map[string]any)
		iv, err := c15Dec(inner, rt.Elem())
		if err != nil {
			return out, err
		}
		p := reflect.New(rt.Elem())
		p.Elem().Set(iv)
		out.Set(p)
	case reflect.Map:
		if k == "nil" {
			return out, nil
		}
		m := reflect.MakeMap(rt)
		for _, e := range c15Arr(d, "kvs") {
			ej := e.(map[string]any)
			iv, err := c15Dec(ej["v"].(map[string]any), rt.Elem())
			if err != nil {
				return out, err
			}
			m.SetMapIndex(reflect.ValueOf(ej["n"].(string)), iv)
		}
		out.Set(m)
	case reflect.Struct:
		fs := c15Arr(d, "fs")
		for i := 0; i < rt.NumField() && i < len(fs); i++ {
			ej := fs[i].(map[string]any)
			iv, err := c15Dec(ej["v"].(map[string]any), rt.Field(i).Type)
			if err != nil {
				return out, err
			}
			out.Field(i).Set(iv)
		}
	}
	return out, nil
}

// ---------------------------------------------------------------------------------------
// path enumeration
// ---------------------------------------------------------------------------------------

type c15PathInfo struct {
	path []string
	ty   reflect.Type // static type of the slot
	via  bool         // passes through an interface-typed intermediate
}

var c15Keys = []string{"k1", "k2", "x"}

// c15TargetPaths: every target path of rt up to the given depth (map keys and keys below `any`
// holes from a small pool).
func c15TargetPaths(rt reflect.Type, depth int, pre []string, via bool, out *[]c15PathInfo) {
	if len(pre) > 0 {
		*out = append(*out, c15PathInfo{path: append([]string{}, pre...), ty: rt, via: via})
	}
	if depth == 0 {
		return
	}
	t := rt
	switch t.Kind() {
	case reflect.Map:
		for _, k := range c15Keys[:2] {
			c15TargetPaths(t.Elem(), depth-1, append(pre, k), via, out)
		}
		return
	case reflect.Interface:
		for _, k := range c15Keys[:2] {
			c15TargetPaths(c15AnyType, depth-1, append(pre, k), true, out)
		}
		return
	case reflect.Ptr:
		t = t.Elem()
	}
	if t.Kind() == reflect.Struct {
		for i := 0; i < t.NumField(); i++ {
			c15TargetPaths(t.Field(i).Type, depth-1, append(pre, t.Field(i).Name), via, out)
		}
	}
}

// c15SourcePaths: every source path that resolves on the value v (static type v.Type()),
// following the dynamic content of interface values; plus the static type of the slot reached.
func c15SourcePaths(v reflect.Value, depth int, pre []string, via bool, out *[]c15PathInfo) {
	if len(pre) > 0 {
		*out = append(*out, c15PathInfo{path: append([]string{}, pre...), ty: v.Type(), via: via})
	}
	if depth == 0 {
		return
	}
	x := v
	if x.Kind() == reflect.Interface {
		if x.IsNil() {
			return
		}
		x = x.Elem()
		via = true
	}
	switch x.Kind() {
	case reflect.Map:
		for _, k := range x.MapKeys() {
			c15SourcePaths(x.MapIndex(k), depth-1, append(pre, k.String()), via, out)
		}
		return
	case reflect.Ptr:
		if x.IsNil() {
			return
		}
		x = x.Elem()
	}
	if x.Kind() == reflect.Struct {
		for i := 0; i < x.NumField(); i++ {
			c15SourcePaths(x.Field(i), depth-1, append(pre, x.Type().Field(i).Name), via, out)
		}
	}
}
