//go:build verif && (vh_all || vh_c15)

package props

import (
	"encoding/json"
	"fmt"
	"reflect"
	"time"

	"github.com/cloudwego/eino/compose"
	"github.com/cloudwego/eino/verifharness/vh"
)

// ---------------------------------------------------------------------------------------
// family "iface": source paths that go THROUGH interface-typed intermediates.
//
// The predecessor output is a tree of depth 2-4 whose inner nodes sit behind `any`: nested
// map[string]any, structs / pointers to structs with an `any` field, held in a map[string]any
// (also as the workflow input itself) or in an `any` field of a struct.  The static check cannot
// know what such a path finds: a path with one segment below the interface-typed slot gets the
// `assignableTypeMay` run-time checker, a path with two or more the checker of
// `predecessorIntermediateInterface`.  At a chosen depth the tree holds one of: a value of the
// target's type, an untyped nil, a typed nil, a value of another type, no such key, no such
// field, a non-container, a nil interface / nil pointer / nil map on the way.  Targets of every
// kind: string, int, pointer, map, slice, interface, struct, func, chan, as struct fields, as
// map keys and as the whole successor input.  Same case language as the mapping family: the
// cases go through c15One (Compile, 10 Invoke runs, Stream, model comparison).
// ---------------------------------------------------------------------------------------

func init() {
	c15Extra = append(c15Extra, c15Family{name: "iface", run: c15iRun, replay: c15iReplay})
}

// the family's cases are ordinary mapping cases: the generic replay runs them
func c15iReplay(ctx *vh.Ctx, raw json.RawMessage) (bool, error) { return false, nil }

type c15iTargetMenu struct {
	root  string
	paths [][]string
}

// target roots and slots; c15SlotType gives the static type of each
var c15iTargets = []c15iTargetMenu{
	{"Top", [][]string{{"S"}, {"N"}, {"PL"}, {"MS"}, {"MA"}, {"A"}, {"L"}, {"Mid", "S"}, {"MPL", "k1"}, {"ML", "k1"}, {"MA", "k1"}, {"MS", "k1"}, {"B", "k1", "k2"}, {"L", "N"}}},
	{"Opq", [][]string{{"S"}, {"N"}, {"SS"}, {"F"}, {"C"}, {"PL"}, {"L"}, {"A"}, {"MSS"}, {"MF"}, {"MC"}, {"MSS", "k1"}, {"MF", "k1"}, {"MC", "k1"}, {"MA", "k1"}, {"MF", "k2"}, {"MC", "k2"}}},
	{"POpq", [][]string{{"S"}, {"SS"}, {"F"}, {"C"}, {"MF", "k1"}, {"MC", "k1"}, {"A"}}},
	{"MapAny", [][]string{{"k1"}, {"k2"}, {"x"}, {"k1", "k2"}}},
	{"MapStr", [][]string{{"k1"}, {"k2"}, {"x"}, {}}},
	{"MapSS", [][]string{{"k1"}, {"k2"}, {"x"}, {}}},
	{"MapFunc", [][]string{{"k1"}, {"k2"}, {"x"}, {}}},
	{"MapChan", [][]string{{"k1"}, {"k2"}, {"x"}, {}}},
	{"MapLeaf", [][]string{{"k1"}, {"k2"}, {"k1", "S"}}},
	{"Leaf", [][]string{{"S"}, {"N"}}},
	{"PLeaf", [][]string{{}, {"S"}}},
	{"Str", [][]string{{}}},
	{"PTop", [][]string{{"S"}, {"PL"}, {"A"}, {"MA", "k1"}}},
}

var c15iTargetWeights = []int{24, 26, 5, 8, 5, 5, 7, 7, 3, 4, 3, 1, 2}

// events: what the tree holds at the place `at` (number of segments walked)
const (
	c15iValue     = "value"        // a value of the target slot's type at the end
	c15iNil       = "nil"          // an untyped nil at the end
	c15iTypedNil  = "typed-nil"    // a typed nil (pointer / map / slice / func / chan) at the end
	c15iWrong     = "wrong-type"   // a value of another type at the end
	c15iMissing   = "missing-key"  // the map reached after `at` segments lacks the next key
	c15iNoField   = "no-field"     // the struct reached after `at` segments lacks the next field
	c15iNonCont   = "non-container"  // a string / int / slice found after `at` segments, more to go
	c15iNilMid    = "nil-interface"  // an untyped nil found after `at` segments, more to go
	c15iNilPtrMid = "nil-pointer"    // a nil *struct found after `at` segments, more to go
	c15iNilMapMid = "nil-map"        // a nil map[string]any found after `at` segments, more to go
)

type c15iEvent struct {
	kind string
	at   int
}

type c15iGen struct {
	r *vh.Rand
}

var c15iKeyPool = []string{"k1", "k2", "x", "b", "c", "d"}

func (g *c15iGen) key() string { return c15iKeyPool[g.r.Intn(len(c15iKeyPool))] }

// leaf: the value put into the last (interface-typed) slot
func (g *c15iGen) leaf(ev c15iEvent, slot reflect.Type) any {
	others := []any{"x", 7, C15Leaf{S: "l", N: 1}, &C15Leaf{S: "pl"}, map[string]string{"k1": "v"}, map[string]any{"k1": 1},
		[]string{"a"}, c15OpqVals[reflect.TypeOf((func() string)(nil))][0].v.Interface(), c15OpqVals[reflect.TypeOf((chan int)(nil))][0].v.Interface(),
		[]int{4}, c15OpqVals[reflect.TypeOf((func(int) int)(nil))][0].v.Interface(), c15OpqVals[reflect.TypeOf((chan string)(nil))][0].v.Interface(), C15Mid{S: "m"}}
	switch ev.kind {
	case c15iNil:
		return nil
	case c15iTypedNil:
		switch slot.Kind() {
		case reflect.Ptr, reflect.Map, reflect.Slice, reflect.Func, reflect.Chan:
			return reflect.Zero(slot).Interface()
		}
		// the slot has no typed nil of its own: a typed nil of some other type
		return []any{(*C15Leaf)(nil), map[string]string(nil), []string(nil), (func() string)(nil), (chan int)(nil)}[g.r.Intn(5)]
	case c15iWrong:
		for try := 0; try < 20; try++ {
			o := others[g.r.Intn(len(others))]
			if reflect.TypeOf(o) != slot {
				return o
			}
		}
		return 7
	}
	// a value of the slot's type (for an interface-typed slot: anything)
	if slot.Kind() == reflect.Interface {
		return others[g.r.Intn(len(others))]
	}
	for try := 0; try < 8; try++ {
		v := c15GenVal(g.r, slot, 2)
		switch v.Kind() {
		case reflect.Ptr, reflect.Map, reflect.Slice, reflect.Func, reflect.Chan:
			if v.IsNil() {
				continue
			}
		}
		return v.Interface()
	}
	return c15GenVal(g.r, slot, 2).Interface()
}

// build: what an interface-typed slot holds after `level` segments have been walked, and the
// segments level..n-1 that lead from there to the leaf slot
func (g *c15iGen) build(level, n int, ev c15iEvent, slot reflect.Type) (any, []string) {
	if level == n {
		return g.leaf(ev, slot), nil
	}
	rest := func() []string {
		var segs []string
		for i := level; i < n; i++ {
			segs = append(segs, []string{"k1", "A", "S", "x"}[g.r.Intn(4)])
		}
		return segs
	}
	if ev.at == level {
		switch ev.kind {
		case c15iNonCont:
			return []any{"str", 7, []string{"a"}, c15OpqVals[reflect.TypeOf((func() string)(nil))][0].v.Interface()}[g.r.Intn(4)], rest()
		case c15iNilMid:
			return nil, rest()
		case c15iNilPtrMid:
			return []any{(*C15Mid)(nil), (*C15Opq)(nil), (*C15EmbP)(nil)}[g.r.Intn(3)], rest()
		case c15iNilMapMid:
			return map[string]any(nil), rest()
		}
	}
	kinds := []string{"map", "map", "map", "mid", "pmid", "opq", "embp"}
	kind := kinds[g.r.Intn(len(kinds))]
	if ev.at == level && ev.kind == c15iMissing {
		kind = "map"
	}
	if ev.at == level && ev.kind == c15iNoField && kind == "map" {
		kind = "mid"
	}
	child, segs := g.build(level+1, n, ev, slot)
	switch kind {
	case "map":
		k := g.key()
		m := map[string]any{}
		if g.r.Chance(40) {
			m[g.key()] = []any{"noise", 3, nil}[g.r.Intn(3)]
		}
		if ev.at == level && ev.kind == c15iMissing {
			delete(m, k)
		} else {
			m[k] = child
		}
		return m, append([]string{k}, segs...)
	default:
		seg := "A"
		if ev.at == level && ev.kind == c15iNoField {
			seg = "Nope"
		}
		switch kind {
		case "mid":
			return C15Mid{S: "m", A: child}, append([]string{seg}, segs...)
		case "pmid":
			return &C15Mid{S: "pm", A: child, PL: &C15Leaf{S: "x"}}, append([]string{seg}, segs...)
		case "opq":
			return C15Opq{S: "o", A: child, SS: []string{"a"}}, append([]string{seg}, segs...)
		}
		return &C15EmbP{C15Base: &C15Base{ID: "id"}, Name: "n", A: child}, append([]string{seg}, segs...)
	}
}

func (g *c15iGen) event(n int, rootIsMap bool) c15iEvent {
	kinds := []string{c15iValue, c15iValue, c15iValue, c15iNil, c15iNil, c15iNil, c15iNil, c15iTypedNil, c15iWrong, c15iWrong,
		c15iMissing, c15iMissing, c15iNoField, c15iNonCont, c15iNilMid, c15iNilPtrMid, c15iNilMapMid}
	k := kinds[g.r.Intn(len(kinds))]
	ev := c15iEvent{kind: k, at: n}
	switch k {
	case c15iMissing:
		lo := 1
		if rootIsMap {
			lo = 0
		}
		ev.at = g.r.Range(lo, n-1)
	case c15iNoField:
		if n < 2 {
			return c15iEvent{kind: c15iNil, at: n}
		}
		ev.at = g.r.Range(1, n-1)
	case c15iNonCont, c15iNilMid, c15iNilPtrMid, c15iNilMapMid:
		if n < 2 {
			return c15iEvent{kind: c15iNil, at: n}
		}
		ev.at = g.r.Range(1, n-1)
	}
	return ev
}

func c15iKindOf(rt reflect.Type) string {
	switch rt.Kind() {
	case reflect.String:
		return "string"
	case reflect.Int:
		return "int"
	case reflect.Ptr:
		return "pointer"
	case reflect.Map:
		return "map"
	case reflect.Slice:
		return "slice"
	case reflect.Interface:
		return "interface"
	case reflect.Struct:
		return "struct"
	case reflect.Func:
		return "func"
	case reflect.Chan:
		return "chan"
	}
	return rt.Kind().String()
}

func c15iDecl(pred, tyName string, val any) c15Decl {
	st := c15Types[tyName]
	sv := reflect.New(st.rt).Elem()
	sv.Set(reflect.ValueOf(val))
	return c15Decl{Pred: pred, TyName: tyName, Ty: st.desc, Val: c15Enc(sv)}
}

// c15iGenCase: one predecessor (START or a lambda node), 1-3 mappings on its edge, each with its
// own tree and event; the tags describe the mappings for the distribution
func c15iGenCase(r *vh.Rand) (*c15Case, []string) {
	g := &c15iGen{r: r}
	tm := c15iTargets[0]
	{
		tot := 0
		for _, w := range c15iTargetWeights {
			tot += w
		}
		x := r.Intn(tot)
		for i, w := range c15iTargetWeights {
			if x < w {
				tm = c15iTargets[i]
				break
			}
			x -= w
		}
	}
	tt := c15Types[tm.root]
	c := &c15Case{TargetName: tm.root, Target: tt.desc, Stream: "iface", Emb: c15EmbTable, ViaNode: r.Chance(15)}

	// source root: map[string]any (mostly the workflow input itself) or a struct with `any` fields
	srcKind := c15Pick(r, []string{"MapAny", "Top", "Wrap", "Opq", "Mid"}, []int{66, 14, 6, 8, 6})
	firstSegs := []string{"a", "b", "c"}
	switch srcKind {
	case "Top":
		firstSegs = []string{"A", "B"}
	case "Wrap", "Opq", "Mid":
		firstSegs = []string{"A"}
	}
	nMap := []int{1, 1, 1, 2, 2, 3}[r.Intn(6)]
	if nMap > len(firstSegs) {
		nMap = len(firstSegs)
	}
	// pairwise unrelated targets of the root
	var tos [][]string
	for k := 0; k < nMap; k++ {
		for try := 0; try < 12; try++ {
			p := tm.paths[r.Intn(len(tm.paths))]
			clash := false
			for _, q := range tos {
				if c15IsPrefix(p, q) || c15IsPrefix(q, p) {
					clash = true
				}
			}
			if !clash {
				tos = append(tos, p)
				break
			}
		}
	}
	if len(tos) == 0 {
		tos = [][]string{tm.paths[0]}
	}
	holes := map[string]any{}
	var maps []c15Map
	var tags []string
	for i, to := range tos {
		slot, _, ok := c15SlotType(tt.rt, to)
		if !ok {
			continue
		}
		n := r.Range(2, 4) // length of the source path
		ev := g.event(n, srcKind == "MapAny")
		var from []string
		if ev.kind == c15iMissing && ev.at == 0 {
			// the root map lacks the first key
			_, segs := g.build(1, n, c15iEvent{kind: c15iValue, at: n}, slot)
			from = append([]string{firstSegs[i]}, segs...)
		} else {
			child, segs := g.build(1, n, ev, slot)
			holes[firstSegs[i]] = child
			from = append([]string{firstSegs[i]}, segs...)
		}
		maps = append(maps, c15Map{From: from, To: append([]string{}, to...)})
		_, crosses, _ := c15SlotType(c15Types[srcKind].rt, from)
		tags = append(tags, fmt.Sprintf("iface:event=%s", ev.kind), fmt.Sprintf("iface:event-depth=%d/%d", ev.at, n),
			"iface:target-kind="+c15iKindOf(slot), fmt.Sprintf("iface:path-checker=%v", crosses),
			fmt.Sprintf("iface:target-whole=%v", len(to) == 0))
	}
	pred := "p0"
	var val any
	switch srcKind {
	case "MapAny":
		m := map[string]any{}
		for k, v := range holes {
			m[k] = v
		}
		if r.Chance(25) {
			m["zz"] = "noise"
		}
		val = m
		if r.Chance(75) {
			pred = compose.START
		}
	case "Top":
		val = C15Top{S: "s", N: 3, A: holes["A"], B: holes["B"]}
		if r.Chance(50) {
			pred = compose.START
		}
	case "Wrap":
		val = C15Wrap{S: "w", A: holes["A"]}
		if r.Chance(50) {
			pred = compose.START
		}
	case "Opq":
		val = C15Opq{S: "o", A: holes["A"]}
	case "Mid":
		val = C15Mid{S: "m", A: holes["A"]}
	}
	tags = append(tags, "iface:source="+srcKind, fmt.Sprintf("iface:mappings=%d", len(maps)))
	d := c15iDecl(pred, srcKind, val)
	d.Maps = maps
	c.Decls = []c15Decl{d}
	return c, tags
}

// fixed cases: the reproduction of the nil-behind-interface defect for every target kind, its
// siblings (typed value, wrong type, missing key, nil / non-container on the way), the
// `assignableTypeMay` checker on the same values, nil towards func / chan slots, and a stream
// chunk that lacks one of two run-time-checked keys
func c15iFixed() []*c15Case {
	tree := func(leaf any) map[string]any { return map[string]any{"a": map[string]any{"b": map[string]any{"c": leaf}}} }
	mk := func(target, pred, src string, val any, maps ...c15Map) *c15Case {
		d := c15iDecl(pred, src, val)
		d.Maps = maps
		return &c15Case{TargetName: target, Target: c15Types[target].desc, Stream: "iface-fixed", Emb: c15EmbTable, Decls: []c15Decl{d}}
	}
	m := func(from []string, to ...string) c15Map { return c15Map{From: from, To: append([]string{}, to...)} }
	abc := []string{"a", "b", "c"}
	var out []*c15Case
	// an untyped nil at a.b.c, every target kind: struct field, map key, whole input
	for _, t := range []struct {
		root string
		to   []string
	}{{"Leaf", []string{"S"}}, {"Top", []string{"N"}}, {"Top", []string{"PL"}}, {"Top", []string{"MS"}}, {"Opq", []string{"SS"}},
		{"Top", []string{"A"}}, {"Top", []string{"L"}}, {"Opq", []string{"F"}}, {"Opq", []string{"C"}},
		{"MapStr", []string{"k1"}}, {"MapSS", []string{"k1"}}, {"MapFunc", []string{"k1"}}, {"MapChan", []string{"k1"}}, {"MapAny", []string{"k1"}},
		{"Top", []string{"MPL", "k1"}}, {"Opq", []string{"MF", "k1"}}, {"Opq", []string{"MC", "k1"}},
		{"MapStr", nil}, {"PLeaf", nil}, {"MapFunc", nil}, {"Str", nil}} {
		out = append(out, mk(t.root, compose.START, "MapAny", tree(nil), m(abc, t.to...)))
	}
	out = append(out,
		// the siblings of the reproduction
		mk("Leaf", compose.START, "MapAny", tree("x"), m(abc, "S")),
		mk("Leaf", compose.START, "MapAny", tree(7), m(abc, "S")),
		mk("Leaf", compose.START, "MapAny", map[string]any{"a": map[string]any{"b": map[string]any{}}}, m(abc, "S")),
		mk("Leaf", compose.START, "MapAny", map[string]any{"a": map[string]any{"b": nil}}, m(abc, "S")),
		mk("Leaf", compose.START, "MapAny", map[string]any{"a": map[string]any{"b": "str"}}, m(abc, "S")),
		mk("Leaf", compose.START, "MapAny", map[string]any{}, m(abc, "S")),
		mk("Top", compose.START, "MapAny", tree((*C15Leaf)(nil)), m(abc, "PL")),
		mk("Opq", compose.START, "MapAny", tree((func() string)(nil)), m(abc, "F")),
		mk("Opq", compose.START, "MapAny", tree([]string(nil)), m(abc, "SS")),
		// from a lambda node; below an `any` struct field; through structs and pointers behind `any`
		mk("Leaf", "p0", "MapAny", tree(nil), m(abc, "S")),
		mk("Top", "p0", "Top", C15Top{A: map[string]any{"b": map[string]any{"c": nil}}}, m([]string{"A", "b", "c"}, "PL")),
		mk("Leaf", "p0", "Top", C15Top{A: C15Mid{A: map[string]any{"k": nil}}}, m([]string{"A", "A", "k"}, "S")),
		mk("Leaf", compose.START, "MapAny", map[string]any{"a": &C15Mid{A: &C15EmbP{Name: "n"}}}, m([]string{"a", "A", "A"}, "N")),
		mk("Top", compose.START, "MapAny", map[string]any{"a": C15Opq{A: map[string]any{"k1": nil}}}, m([]string{"a", "A", "k1"}, "MS")),
		// the sibling checker (one segment below the interface-typed slot) on an untyped nil
		mk("Leaf", compose.START, "MapAny", map[string]any{"a": nil}, m([]string{"a"}, "S")),
		mk("Top", compose.START, "MapAny", map[string]any{"a": nil}, m([]string{"a"}, "PL")),
		mk("Opq", compose.START, "MapAny", map[string]any{"a": nil}, m([]string{"a"}, "SS")),
		mk("Opq", compose.START, "MapAny", map[string]any{"a": nil}, m([]string{"a"}, "F")),
		mk("Opq", compose.START, "MapAny", map[string]any{"a": nil}, m([]string{"a"}, "C")),
		mk("MapFunc", compose.START, "MapAny", map[string]any{"a": nil}, m([]string{"a"}, "k1")),
		mk("MapChan", compose.START, "MapAny", map[string]any{"a": nil}, m([]string{"a"}, "k1")),
		mk("Opq", compose.START, "MapAny", map[string]any{"a": nil}, m([]string{"a"}, "MF", "k1")),
		mk("Opq", compose.START, "MapAny", map[string]any{"a": nil}, m([]string{"a"}, "MC", "k1")),
		mk("MapFunc", compose.START, "MapAny", map[string]any{"a": nil}, m([]string{"a"})),
		mk("MapChan", "p0", "Top", C15Top{}, m([]string{"A"}, "k1")),
		mk("Opq", "p0", "Top", C15Top{}, m([]string{"A"}, "F"), m([]string{"B"}, "MC", "k2")),
		// well-typed func / chan / slice values move like any other value
		mk("Opq", compose.START, "MapAny", map[string]any{"a": c15OpqVals[reflect.TypeOf((func() string)(nil))][0].v.Interface(),
			"b": c15OpqVals[reflect.TypeOf((chan int)(nil))][1].v.Interface(), "c": []string{"a", "b"}},
			m([]string{"a"}, "MF", "k1"), m([]string{"b"}, "C"), m([]string{"c"}, "MSS", "x")),
		// two run-time-checked mappings on one edge, the value carries only one of the keys: an
		// error for Invoke, a chunk with the one field for Stream
		mk("Top", compose.START, "MapAny", map[string]any{"a": "x"}, m([]string{"a"}, "S"), m([]string{"b"}, "N")),
		mk("Top", "p0", "MapAny", map[string]any{"b": 4}, m([]string{"a"}, "S"), m([]string{"b"}, "N"), m([]string{"c"}, "L")),
		mk("Leaf", compose.START, "MapAny", map[string]any{"a": map[string]any{"b": map[string]any{"c": "x"}}},
			m(abc, "S"), m([]string{"a", "b", "d"}, "N")),
	)
	return out
}

func c15iRun(ctx *vh.Ctx) error {
	ctx.Res.Rule += " || family iface: one predecessor (the workflow input or a lambda node) whose output is a tree of depth 2-4 behind interface values (nested map[string]any, structs and pointers to structs with an `any` field, held in a map[string]any or in an `any` struct field), 1-3 mappings whose source paths go through it, each with one event at a chosen depth (value of the target's type, untyped nil, typed nil, wrong type, missing key, missing field, non-container, nil interface / nil pointer / nil map on the way) x targets of kind string, int, pointer, map, slice, interface, struct, func, chan as struct field, map key and whole input; run like a mapping-family case"
	for _, c := range c15iFixed() {
		if _, _, err := c15One(ctx, c, true); err != nil {
			return err
		}
	}
	n := ctx.N(700, 20000)
	rng := ctx.Rng.Fork()
	deadline := time.Now().Add(ctx.Budget * 12 / 100)
	for i := 0; i < n && time.Now().Before(deadline) && ctx.TimeLeft(); i++ {
		c, tags := c15iGenCase(rng)
		cases := []*c15Case{c}
		if len(c.Decls[0].Maps) > 1 && rng.Chance(35) {
			cases = c15Orders(rng, c, 3)
		}
		for _, cc := range cases {
			if _, _, err := c15One(ctx, cc, true); err != nil {
				return err
			}
		}
		for _, t := range tags {
			ctx.Res.Dist(t)
		}
	}
	return nil
}
