//go:build verif && (vh_all || vh_c06)

package props

// registers the keyed family (c05_keyed.go: WithInputKey / WithOutputKey nodes as pending tasks of a
// checkpoint, a calling paradigm per call; the same generated cases and runs, judged by directC06
// and the per-call comparison with the model) with the C06 check
func init() { c06Extra = append(c06Extra, runC05Keyed) }
