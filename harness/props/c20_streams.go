//go:build verif && (vh_all || vh_c20)

package props

// C20: chain and workflow streams.  Both APIs defer their errors to Compile; the case keeps
// the *lowered* builder call sequence in Ops (what Chain / Workflow do on the underlying
// graph, which is what the Lean model interprets) and the implementation side drives the
// public Chain / Workflow API.  Only Compile calls are observable.

import (
	"context"
	"fmt"

	"github.com/cloudwego/eino/compose"
	"github.com/cloudwego/eino/verifharness/vh"
)

type c20ChainB interface {
	appendLambda(l *compose.Lambda, opts ...compose.GraphAddNodeOpt)
	appendPassthrough(opts ...compose.GraphAddNodeOpt)
	compile(ctx context.Context, opts ...compose.GraphCompileOption) (c20RunFn, error)
}

type c20ChainW[I, O any] struct{ c *compose.Chain[I, O] }

func (w *c20ChainW[I, O]) appendLambda(l *compose.Lambda, opts ...compose.GraphAddNodeOpt) {
	w.c.AppendLambda(l, opts...)
}
func (w *c20ChainW[I, O]) appendPassthrough(opts ...compose.GraphAddNodeOpt) {
	w.c.AppendPassthrough(opts...)
}
func (w *c20ChainW[I, O]) compile(ctx context.Context, opts ...compose.GraphCompileOption) (c20RunFn, error) {
	r, err := w.c.Compile(ctx, opts...)
	if err != nil {
		return nil, err
	}
	return func(ctx context.Context, in any) (any, error) { return r.Invoke(ctx, in.(I)) }, nil
}

type c20WfB interface {
	addLambda(key string, l *compose.Lambda) *compose.WorkflowNode
	addPassthrough(key string) *compose.WorkflowNode
	end() *compose.WorkflowNode
	addBranch(from string, b *compose.GraphBranch)
	compile(ctx context.Context, opts ...compose.GraphCompileOption) (c20RunFn, error)
}

type c20WfW[I, O any] struct{ w *compose.Workflow[I, O] }

func (w *c20WfW[I, O]) addLambda(key string, l *compose.Lambda) *compose.WorkflowNode {
	return w.w.AddLambdaNode(key, l)
}
func (w *c20WfW[I, O]) addPassthrough(key string) *compose.WorkflowNode {
	return w.w.AddPassthroughNode(key)
}
func (w *c20WfW[I, O]) end() *compose.WorkflowNode                    { return w.w.End() }
func (w *c20WfW[I, O]) addBranch(from string, b *compose.GraphBranch) { w.w.AddBranch(from, b) }
func (w *c20WfW[I, O]) compile(ctx context.Context, opts ...compose.GraphCompileOption) (c20RunFn, error) {
	r, err := w.w.Compile(ctx, opts...)
	if err != nil {
		return nil, err
	}
	return func(ctx context.Context, in any) (any, error) { return r.Invoke(ctx, in.(I)) }, nil
}

var c20Chains = map[string]func(opts ...compose.NewGraphOption) c20ChainB{}
var c20Workflows = map[string]func(opts ...compose.NewGraphOption) c20WfB{}

func c20RegCW[I, O any](i, o string) {
	c20Chains[i+">"+o] = func(opts ...compose.NewGraphOption) c20ChainB {
		return &c20ChainW[I, O]{c: compose.NewChain[I, O](opts...)}
	}
	c20Workflows[i+">"+o] = func(opts ...compose.NewGraphOption) c20WfB {
		return &c20WfW[I, O]{w: compose.NewWorkflow[I, O](opts...)}
	}
}

func c20RegCWIn[I any](i string) {
	c20RegCW[I, string](i, "c0")
	c20RegCW[I, int](i, "c1")
	c20RegCW[I, c20S](i, "c2")
	c20RegCW[I, c20ImplA](i, "c3")
	c20RegCW[I, c20ImplB](i, "c4")
	c20RegCW[I, map[string]any](i, "c5")
	c20RegCW[I, c20I0](i, "i0")
	c20RegCW[I, c20I1](i, "i1")
	c20RegCW[I, any](i, "any")
}

func init() {
	c20RegCWIn[string]("c0")
	c20RegCWIn[int]("c1")
	c20RegCWIn[c20S]("c2")
	c20RegCWIn[c20ImplA]("c3")
	c20RegCWIn[c20ImplB]("c4")
	c20RegCWIn[map[string]any]("c5")
	c20RegCWIn[c20I0]("i0")
	c20RegCWIn[c20I1]("i1")
	c20RegCWIn[any]("any")
}

// ---- executors: only Compile calls are observed ----

// the first error any Compile returns is remembered; an identical value later is "stored"
func c20ObserveCompiles(in any, n int, compile func(k int) (c20RunFn, error)) c20Obs {
	return c20ObserveCompilesR(in, n, true, compile)
}

func c20ObserveCompilesR(in any, n int, run bool, compile func(k int) (c20RunFn, error)) c20Obs {
	var obs c20Obs
	cl := &c20Classifier{}
	var first c20RunFn
	for k := 0; k < n; k++ {
		var r c20RunFn
		var err error
		panicked, pv := vh.Safely(func() { r, err = compile(k) })
		obs.Out = append(obs.Out, cl.class(err, panicked))
		if panicked {
			obs.Notes = append(obs.Notes, fmt.Sprintf("compile %d panicked: %v", k, pv))
		}
		cl.remember(err)
		if err == nil && !panicked && first == nil && run {
			first = r
			cls, d := c20RunOnce(first, in)
			obs.R1 = append(obs.R1, cls)
			if d != "" {
				obs.Notes = append(obs.Notes, "r1 first run: "+d)
			}
		}
	}
	if first != nil {
		cls, d := c20RunOnce(first, in)
		obs.R1 = append(obs.R1, cls)
		if d != "" {
			obs.Notes = append(obs.Notes, "r1 last run: "+d)
		}
	}
	return obs
}

func c20CompileOps(c *c20Case) []*c20Op {
	var out []*c20Op
	for i := range c.Ops {
		if c.Ops[i].Op == "compile" {
			out = append(out, &c.Ops[i])
		}
	}
	return out
}

func c20ExecChain(c *c20Case) c20Obs {
	ch := c20Chains[c.InT+">"+c.OutT](c20StateOpt(c.State)...)
	comps := c20CompileOps(c)
	// node calls before the k-th compile
	idx := 0
	appendUntilCompile := func() {
		for idx < len(c.Ops) && c.Ops[idx].Op != "compile" {
			op := &c.Ops[idx]
			idx++
			if op.Op != "node" {
				continue // edges are what the chain adds itself
			}
			var opts []compose.GraphAddNodeOpt
			if op.Pre != nil {
				opts = append(opts, c20Pres[fmt.Sprintf("%s/%d", op.Pre.T, op.Pre.S)]())
			}
			if op.Post != nil {
				opts = append(opts, c20Posts[fmt.Sprintf("%s/%d", op.Post.T, op.Post.S)]())
			}
			if op.KeyOpt {
				opts = append(opts, compose.WithNodeKey(op.Key))
			}
			if op.PT {
				ch.appendPassthrough(opts...)
			} else {
				ch.appendLambda(c20Lambdas[op.In+">"+op.Out](op.Dyn), opts...)
			}
		}
		idx++ // the compile op
	}
	return c20ObserveCompiles(c20Val(c20FirstInhabitant(c.InT)), len(comps), func(k int) (c20RunFn, error) {
		var r c20RunFn
		var err error
		// appends run outside Safely's concern: they never return errors; a panic there is caught by the caller
		appendUntilCompile()
		r, err = ch.compile(context.Background(), c20CompileOpts(comps[k])...)
		return r, err
	})
}

func c20ExecWorkflow(c *c20Case) c20Obs {
	wf := c20Workflows[c.InT+">"+c.OutT](c20StateOpt(c.State)...)
	x := c.Extra
	addIns := func(n *compose.WorkflowNode, ins []c20WfIn) {
		for _, in := range ins {
			var fm []*compose.FieldMapping
			if in.Mapped {
				fm = append(fm, compose.MapFields("X", "X"))
			}
			switch in.Kind {
			case "dep":
				n.AddDependency(in.From)
			case "indirect":
				n.AddInputWithOptions(in.From, fm, compose.WithNoDirectDependency())
			default:
				n.AddInput(in.From, fm...)
			}
		}
	}
	built := false
	build := func() {
		for _, n := range x.Nodes {
			var wn *compose.WorkflowNode
			switch {
			case n.InKey || n.OutKey:
				wn = c20WfAddKeyed(wf, &n)
			case n.PT:
				wn = wf.addPassthrough(n.Key)
			default:
				wn = wf.addLambda(n.Key, c20Lambdas[n.In+">"+n.Out](n.Dyn))
			}
			addIns(wn, n.Ins)
			if x.Static == n.Key {
				wn.SetStaticValue(compose.FieldPath{"Y", "Z"}, 5)
			}
		}
		addIns(wf.end(), x.EndIn)
		for _, b := range x.Branch {
			ends := map[string]bool{}
			for _, e := range b.Ends {
				ends[e] = true
			}
			wf.addBranch(b.S, c20Branches[b.T](b.Pick, ends))
		}
	}
	comps := c20CompileOps(c)
	return c20ObserveCompilesR(c20Val(c20FirstInhabitant(c.InT)), len(comps), !c.NoRun, func(k int) (c20RunFn, error) {
		if !built {
			built = true
			build()
		}
		return wf.compile(context.Background(), c20CompileOpts(comps[k])...)
	})
}

// ---- expected classes for deferred-error APIs ----

func c20ExpectedDeferred(c *c20Case, m *c20Model) []string {
	var out []string
	deferredFailed := false // a lowered Add* call failed: its error is stored and surfaces at every Compile
	surfaced := false
	deferredPanic := false // a lowered call panics (keyed model with other fact values): the Compile that replays it does
	for i, op := range c.Ops {
		if op.Op != "compile" {
			if m.Out[i] == "panic" && !deferredFailed {
				deferredPanic = true
			}
			if m.Out[i] != "ok" && m.Out[i] != "compiled" {
				deferredFailed = true
			}
			continue
		}
		switch {
		case deferredPanic:
			out = append(out, "panic")
		case deferredFailed && !surfaced:
			out = append(out, "fresh")
			surfaced = true
		case deferredFailed:
			out = append(out, "stored")
		default:
			out = append(out, m.Out[i])
		}
	}
	return out
}

func c20DeferredOpKind(c *c20Case, i int) string {
	return c.Stream + "-compile"
}

// ---- generators ----

func c20GenChain(r *vh.Rand) *c20Case {
	c := &c20Case{Stream: "chain", Cmp: "chain", Impl: c20Impl()}
	basic := []string{"c0", "c0", "c1", "c2", "c3", "c4", "c5", "i0", "i1", "any"}
	c.InT = c20Pick(r, basic)
	if r.Chance(25) {
		s := r.Intn(2)
		c.State = &s
	}
	n := r.Range(0, 4)
	if n == 0 && r.Chance(70) {
		n = 2
	}
	cur := c.InT
	prev := "start"
	var ops []c20Op
	idx := 0
	nodes, hasEnd := 0, false
	add := func(op c20Op) {
		ops = append(ops, op)
		ops = append(ops, c20Op{Op: "edge", S: prev, E: op.Key})
		prev = op.Key
		nodes++
	}
	// Chain.Compile: addEndIfNeeded adds the END edge once, the first time the chain is not empty
	compileOp := func(comp c20Op) {
		if !hasEnd && nodes > 0 {
			ops = append(ops, c20Op{Op: "edge", S: prev, E: "end"})
			hasEnd = true
		}
		ops = append(ops, comp)
	}
	for i := 0; i < n; i++ {
		key := fmt.Sprintf("node_%d", idx)
		idx++
		op := c20Op{Op: "node", Key: key}
		if r.Chance(15) {
			op.KeyOpt = true
			op.Key = c20Pick(r, []string{"k1", "k2", "node_1", "start"}) // may collide / be reserved
		}
		if r.Chance(20) {
			op.PT = true
		} else {
			if r.Chance(85) {
				op.In = c20CompatibleIn(r, cur)
			} else {
				op.In = c20Pick(r, basic)
			}
			op.Out = c20Pick(r, basic)
			op.Dyn = c20DynFor(r, op.Out)
			cur = op.Out
		}
		if c.State != nil && r.Chance(25) {
			t, s := op.In, *c.State
			if op.PT {
				t = "any"
			}
			if r.Chance(15) {
				s = 1 - s
			}
			op.Pre = &c20Handler{S: s, T: t}
		}
		if c.State == nil && r.Chance(6) {
			op.Pre = &c20Handler{S: 0, T: "any"}
		}
		add(op)
	}
	if r.Chance(88) {
		c.OutT = c20CompatibleIn(r, cur)
	} else {
		c.OutT = c20Pick(r, basic)
	}
	comp := c20Op{Op: "compile"}
	if r.Chance(15) {
		comp.Mode = c20Pick(r, []string{"any", "all"})
	}
	if r.Chance(10) {
		comp.MaxSteps = r.Range(1, 20)
	}
	compileOp(comp)
	for k := r.Intn(3); k > 0; k-- {
		if r.Chance(40) { // an append after Compile (refused silently if it succeeded), then Compile again
			add(c20Op{Op: "node", Key: fmt.Sprintf("node_%d", idx), In: c20CompatibleIn(r, cur), Out: "c0", Dyn: "c0"})
			idx++
		}
		cc := comp
		if r.Chance(25) {
			cc.Mode = c20Pick(r, []string{"", "all"})
		}
		compileOp(cc)
	}
	c.Ops = ops
	return c
}

// c20LowerWorkflow: what Workflow.compile does on the underlying graph, in a fixed order
// (the real order follows Go map iteration; the outcome does not depend on it).
func c20LowerWorkflow(c *c20Case) {
	x := c.Extra
	var ops []c20Op
	for _, n := range x.Nodes {
		ops = append(ops, c20Op{Op: "node", Key: n.Key, PT: n.PT, In: n.In, Out: n.Out, Dyn: n.Dyn, InKey: n.InKey, OutKey: n.OutKey})
	}
	for _, b := range x.Branch {
		bb := b
		bb.Skip = true
		ops = append(ops, bb)
	}
	lowerIns := func(key string, ins []c20WfIn) {
		for _, in := range ins {
			op := c20Op{Op: "edge", S: in.From, E: key}
			switch in.Kind {
			case "dep":
				op.ND = true
			case "indirect":
				op.NC = true
			}
			if in.Mapped {
				z := 0
				op.Mapped = &z
			}
			ops = append(ops, op)
		}
	}
	for _, n := range x.Nodes {
		lowerIns(n.Key, n.Ins)
	}
	lowerIns("end", x.EndIn)
	var comps []c20Op
	for _, o := range c.Ops {
		if o.Op == "compile" {
			comps = append(comps, o)
		}
	}
	c.Ops = append(ops, comps...)
}

func c20GenWorkflow(r *vh.Rand) *c20Case {
	c := &c20Case{Stream: "workflow", Cmp: "workflow", Impl: c20Impl(), Extra: &c20WfExt{}}
	basic := []string{"c0", "c1", "c2", "c2", "c3", "c5", "i0", "any"}
	c.InT = c20Pick(r, basic)
	n := r.Range(1, 4)
	names := []string{"a", "b", "c", "d"}
	cur, prev := c.InT, "start"
	for i := 0; i < n; i++ {
		nd := c20WfNode{Key: names[i]}
		if r.Chance(88) {
			nd.In = c20CompatibleIn(r, cur)
		} else {
			nd.In = c20Pick(r, basic)
		}
		nd.Out = c20Pick(r, basic)
		nd.Dyn = c20DynFor(r, nd.Out)
		in := c20WfIn{From: prev, Kind: "input"}
		if cur == "c2" && nd.In == "c2" && r.Chance(70) {
			in.Mapped = true // field X -> field X of the same struct type
		}
		nd.Ins = append(nd.Ins, in)
		if i >= 2 && r.Chance(30) {
			nd.Ins = append(nd.Ins, c20WfIn{From: names[r.Intn(i-1)], Kind: "dep"})
		}
		if r.Chance(5) { // unknown predecessor (a node takes at most one whole-output input: C15's rule)
			if r.Bool() {
				nd.Ins[0].From = "ghost"
			} else {
				nd.Ins = append(nd.Ins, c20WfIn{From: "ghost", Kind: "dep"})
			}
		}
		if r.Chance(6) && i+1 < n { // dependency on a later node: a cycle
			nd.Ins = append(nd.Ins, c20WfIn{From: names[i+1], Kind: "dep"})
		}
		if r.Chance(5) {
			nd.Key = c20Pick(r, []string{"start", names[0]}) // reserved / duplicate key
		}
		c.Extra.Nodes = append(c.Extra.Nodes, nd)
		cur, prev = nd.Out, nd.Key
	}
	if r.Chance(88) {
		c.OutT = c20CompatibleIn(r, cur)
	} else {
		c.OutT = c20Pick(r, basic)
	}
	c.Extra.EndIn = []c20WfIn{{From: prev, Kind: "input", Mapped: cur == "c2" && c.OutT == "c2" && r.Chance(50)}}
	if n >= 2 && r.Chance(20) {
		first := c.Extra.Nodes[0]
		c.Extra.Branch = append(c.Extra.Branch, c20Op{Op: "branch", S: first.Key, T: first.Out,
			Ends: c20SortedCopy([]string{c.Extra.Nodes[1].Key, "end"}), Pick: c.Extra.Nodes[1].Key})
	}
	comp := c20Op{Op: "compile"}
	if r.Chance(10) {
		comp.Mode = c20Pick(r, []string{"any", "all"})
	}
	if r.Chance(8) {
		comp.MaxSteps = r.Range(1, 20)
	}
	c.Ops = []c20Op{comp}
	for k := r.Intn(3); k > 0; k-- {
		c.Ops = append(c.Ops, comp)
	}
	c20LowerWorkflow(c)
	return c
}

// c20Fixed: hand-written scenarios run first on every seed.
func c20Fixed() []*c20Case {
	var out []*c20Case
	// workflow with a field mapping, compiled three times (the recompile defect of DESIGN §5)
	wf := &c20Case{Stream: "workflow", Cmp: "workflow", Impl: c20Impl(), InT: "c2", OutT: "c0", Inject: "fixed:wf-recompile",
		Extra: &c20WfExt{
			Nodes: []c20WfNode{{Key: "l", In: "c2", Out: "c0", Dyn: "c0", Ins: []c20WfIn{{From: "start", Kind: "input", Mapped: true}}}},
			EndIn: []c20WfIn{{From: "l", Kind: "input"}}},
		Ops: []c20Op{{Op: "compile"}, {Op: "compile"}, {Op: "compile"}}}
	c20LowerWorkflow(wf)
	out = append(out, wf)
	// graph: compile, refuse every kind of Add*, compile again
	g := &c20Case{Stream: "graph", Cmp: "graph", Impl: c20Impl(), InT: "c0", OutT: "c0", Inject: "fixed:graph-immutable",
		Ops: []c20Op{
			{Op: "node", Key: "a", In: "c0", Out: "c0", Dyn: "c0"}, {Op: "node", Key: "p", PT: true},
			{Op: "edge", S: "start", E: "a"}, {Op: "edge", S: "a", E: "p"}, {Op: "edge", S: "p", E: "end"},
			{Op: "compile"},
			{Op: "node", Key: "z", In: "c0", Out: "c0", Dyn: "c0"}, {Op: "node", Key: "a", PT: true},
			{Op: "edge", S: "a", E: "end"}, {Op: "branch", S: "a", T: "c0", Ends: []string{"end", "p"}, Pick: "end"},
			{Op: "compile"}, {Op: "compile", Mode: "all"}}}
	out = append(out, g)
	return out
}
