//go:build verif && (vh_all || vh_c10)

package props

// C10, case kind "runs" — two families over one case language:
//
//	intr   – some node execution (lambda i/s/c/t, self-firing lambda) or tool call returns
//	         compose.InterruptAndRerun (plain, or wrapped in another error) on its first
//	         execution; the graph has a checkpoint store; the run is interrupted and then
//	         resumed.  Observed per run (first / resumed), per execution unit (RunInfo) and per
//	         handler: the sequence of callbacks (OnStart / OnEnd / OnError / stream variants).
//	         Every unit that started must be finished exactly once — also the unit that
//	         interrupted, the ToolsNode / nested graph around it, and everything after resume.
//	cbtool – ToolsNodes with tools that implement IsCallbacksEnabled() and fire
//	         callbacks.OnStart / OnEnd / OnEndWithStreamOutput / OnError themselves (invokable,
//	         streamable, both; alone or next to ordinary tools; sometimes interrupting).
//	         Observed: the RunInfo (Name|Type|Component) every handler sees for every event.
//
// Shape: START → n1 ∥ … ∥ nk → join → END, a node being a lambda, a ToolsNode (1–3 tools, one
// call each) or a nested graph of the same form.  Which units run in which run and how each
// ends is computed by the Lean model (EinoV/Model/C10Runs.lean), the handler lists and the
// dispatch by the unit machine (EinoV/Model/C10.lean).

import (
	"context"
	"encoding/json"
	"errors"
	"fmt"
	"io"
	"sort"
	"strings"
	"sync"
	"sync/atomic"
	"time"

	"github.com/cloudwego/eino/callbacks"
	"github.com/cloudwego/eino/components/tool"
	"github.com/cloudwego/eino/compose"
	icb "github.com/cloudwego/eino/internal/callbacks"
	"github.com/cloudwego/eino/schema"
	"github.com/cloudwego/eino/verifharness/vh"
)

func init() {
	parse := func(raw []byte) (any, error) {
		var c c10xCase
		if err := json.Unmarshal(raw, &c); err != nil {
			return nil, err
		}
		return &c, nil
	}
	one := func(ctx *vh.Ctx, c any) error { return c10xOne(ctx, c.(*c10xCase)) }
	c10Extra = append(c10Extra,
		c10Family{Kind: "runs", Parse: parse, One: one,
			Rule:  "runs/intr: START→1-3 parallel units (lambda i/s/c/t/self, ToolsNode with 1-3 tools, nested graph)→join with a checkpoint store, ≥1 node execution or tool call returning InterruptAndRerun (plain or wrapped) on its first execution, first run + resumed run, invoke|stream, pregel|dag, handlers global / caller context / undesignated / designated; non-trivial = ≥1 handler source; distinct by shape+interrupt pattern+handler-supply signature",
			Fixed: c10xFixed,
			Gen:   func(r *vh.Rand) any { return c10xGen(r, "intr") }},
		c10Family{Kind: "runs", Parse: parse, One: one,
			Rule: "runs/cbtool: the same shapes with ≥1 tool implementing IsCallbacksEnabled (invokable / streamable / both) firing its own callbacks, alone or next to ordinary tools, 25% with an interrupt",
			Gen:  func(r *vh.Rand) any { return c10xGen(r, "cbtool") }})
	// the state every graph of the family carries (a re-run ToolsNode gets its input from the pre-handler)
	_ = compose.RegisterSerializableType[c10xState]("c10x_state")
}

// ---------------------------------------------------------------- case language

type c10xTool struct {
	Key  string `json:"key"`
	TK   string `json:"tk"`             // inv | str | both
	CB   bool   `json:"cb,omitempty"`   // IsCallbacksEnabled() = true, fires its own callbacks
	Intr int    `json:"intr,omitempty"` // first execution returns: 1 InterruptAndRerun, 2 an error wrapping it
}

type c10xNode struct {
	Key   string     `json:"key"`
	LK    string     `json:"lk"` // i|s|c|t|self | tools | graph
	Intr  int        `json:"intr,omitempty"`
	Tools []c10xTool `json:"tools,omitempty"`
	Inner []c10xNode `json:"inner,omitempty"`
}

type c10xCase struct {
	Kind     string       `json:"kind"`   // "runs"
	Family   string       `json:"family"` // intr | cbtool
	Mode     string       `json:"mode"`
	Paradigm string       `json:"paradigm"`
	Globals  []c10Hd      `json:"globals"`
	UserInit *c10UserInit `json:"userInit,omitempty"`
	Opts     []c10Opt     `json:"opts"`
	Nodes    []c10xNode   `json:"nodes"`
	// the resumed call passes a WithStateModifier that returns an error for the called graph
	// ("top") or for the nested graph with this key: the restore of the checkpoint is refused
	ResumeFail string `json:"resumeFail,omitempty"`
}

type c10xState struct{ N int }

// ---------------------------------------------------------------- components

type c10xCounters struct {
	mu sync.Mutex
	m  map[string]*int32
}

func (c *c10xCounters) get(k string) *int32 {
	c.mu.Lock()
	defer c.mu.Unlock()
	if c.m == nil {
		c.m = map[string]*int32{}
	}
	if c.m[k] == nil {
		c.m[k] = new(int32)
	}
	return c.m[k]
}

// the error an interrupting unit returns on its first execution
func c10xIntrErr(kind int, cnt *int32) error {
	if kind == 0 || atomic.AddInt32(cnt, 1) != 1 {
		return nil
	}
	if kind == 2 {
		return fmt.Errorf("c10 unit wants a human: %w", compose.InterruptAndRerun)
	}
	return compose.InterruptAndRerun
}

type c10xToolCore struct {
	d   c10xTool
	cnt *int32
}

func (t *c10xToolCore) Info(ctx context.Context) (*schema.ToolInfo, error) {
	return &schema.ToolInfo{Name: t.d.Key, Desc: "c10 tool"}, nil
}
func (t *c10xToolCore) GetType() string { return "T" + t.d.Key }

func (t *c10xToolCore) body(args string) (string, error) {
	if err := c10xIntrErr(t.d.Intr, t.cnt); err != nil {
		return "", err
	}
	return t.d.Key + "(" + args + ")", nil
}

func (t *c10xToolCore) inv(ctx context.Context, args string) (string, error) {
	if t.d.CB {
		ctx = callbacks.OnStart(ctx, args)
	}
	out, err := t.body(args)
	if err != nil {
		if t.d.CB {
			callbacks.OnError(ctx, err)
		}
		return "", err
	}
	if t.d.CB {
		callbacks.OnEnd(ctx, out)
	}
	return out, nil
}

func (t *c10xToolCore) str(ctx context.Context, args string) (*schema.StreamReader[string], error) {
	if t.d.CB {
		ctx = callbacks.OnStart(ctx, args)
	}
	out, err := t.body(args)
	if err != nil {
		if t.d.CB {
			callbacks.OnError(ctx, err)
		}
		return nil, err
	}
	sr := schema.StreamReaderFromArray(c10Chunks(out))
	if t.d.CB {
		_, sr = callbacks.OnEndWithStreamOutput(ctx, sr)
	}
	return sr, nil
}

type c10xInv struct{ *c10xToolCore }

func (t c10xInv) InvokableRun(ctx context.Context, args string, opts ...tool.Option) (string, error) {
	return t.inv(ctx, args)
}

type c10xStr struct{ *c10xToolCore }

func (t c10xStr) StreamableRun(ctx context.Context, args string, opts ...tool.Option) (*schema.StreamReader[string], error) {
	return t.str(ctx, args)
}

type c10xBoth struct{ *c10xToolCore }

func (t c10xBoth) InvokableRun(ctx context.Context, args string, opts ...tool.Option) (string, error) {
	return t.inv(ctx, args)
}
func (t c10xBoth) StreamableRun(ctx context.Context, args string, opts ...tool.Option) (*schema.StreamReader[string], error) {
	return t.str(ctx, args)
}

// the same three with the Checker interface: the framework must not inject callbacks
type c10xInvCB struct{ c10xInv }

func (c10xInvCB) IsCallbacksEnabled() bool { return true }

type c10xStrCB struct{ c10xStr }

func (c10xStrCB) IsCallbacksEnabled() bool { return true }

type c10xBothCB struct{ c10xBoth }

func (c10xBothCB) IsCallbacksEnabled() bool { return true }

func c10xMkTool(d c10xTool, cnt *int32) tool.BaseTool {
	core := &c10xToolCore{d: d, cnt: cnt}
	switch {
	case d.TK == "str" && d.CB:
		return c10xStrCB{c10xStr{core}}
	case d.TK == "str":
		return c10xStr{core}
	case d.TK == "both" && d.CB:
		return c10xBothCB{c10xBoth{core}}
	case d.TK == "both":
		return c10xBoth{core}
	case d.CB:
		return c10xInvCB{c10xInv{core}}
	}
	return c10xInv{core}
}

func c10xMsgContent(m *schema.Message) string {
	if m == nil {
		return "" // a re-run node gets the zero value as its input
	}
	return m.Content
}

func c10xReadMsgs(sr *schema.StreamReader[*schema.Message]) (string, error) {
	defer sr.Close()
	var sb strings.Builder
	for {
		v, err := sr.Recv()
		if err == io.EOF {
			return sb.String(), nil
		}
		if err != nil {
			return "", err
		}
		sb.WriteString(c10xMsgContent(v))
	}
}

func c10xLambda(n c10xNode, cnt *int32) *compose.Lambda {
	body := func(in string) (string, error) {
		if err := c10xIntrErr(n.Intr, cnt); err != nil {
			return "", err
		}
		return in + ">" + n.Key, nil
	}
	typ := compose.WithLambdaType("L" + n.LK)
	switch n.LK {
	case "s":
		return compose.StreamableLambda(func(ctx context.Context, in *schema.Message) (*schema.StreamReader[string], error) {
			out, err := body(c10xMsgContent(in))
			if err != nil {
				return nil, err
			}
			return schema.StreamReaderFromArray(c10Chunks(out)), nil
		}, typ)
	case "c":
		return compose.CollectableLambda(func(ctx context.Context, in *schema.StreamReader[*schema.Message]) (string, error) {
			s, err := c10xReadMsgs(in)
			if err != nil {
				return "", err
			}
			return body(s)
		}, typ)
	case "t":
		return compose.TransformableLambda(func(ctx context.Context, in *schema.StreamReader[*schema.Message]) (*schema.StreamReader[string], error) {
			s, err := c10xReadMsgs(in)
			if err != nil {
				return nil, err
			}
			out, err := body(s)
			if err != nil {
				return nil, err
			}
			return schema.StreamReaderFromArray(c10Chunks(out)), nil
		}, typ)
	case "self":
		return compose.InvokableLambda(func(ctx context.Context, in *schema.Message) (string, error) {
			ctx = callbacks.OnStart(ctx, in)
			out, err := body(c10xMsgContent(in))
			if err != nil {
				callbacks.OnError(ctx, err)
				return "", err
			}
			callbacks.OnEnd(ctx, out)
			return out, nil
		}, typ, compose.WithLambdaCallbackEnable(true))
	}
	return compose.InvokableLambda(func(ctx context.Context, in *schema.Message) (string, error) {
		return body(c10xMsgContent(in))
	}, typ)
}

func c10xJoin() *compose.Lambda {
	return compose.InvokableLambda(func(ctx context.Context, in map[string]any) (string, error) {
		keys := make([]string, 0, len(in))
		for k := range in {
			keys = append(keys, k)
		}
		sort.Strings(keys)
		var sb strings.Builder
		for _, k := range keys {
			parts := c10Render(in[k])
			sort.Strings(parts)
			sb.WriteString("[" + k + "=" + strings.Join(parts, ",") + "]")
		}
		return sb.String(), nil
	}, compose.WithLambdaType("Li"))
}

// START → nodes (parallel) → join → END below `prefix`
func c10xLevel(prefix []string, nodes []c10xNode, mode string, cnts *c10xCounters) (*compose.Graph[*schema.Message, string], error) {
	g := compose.NewGraph[*schema.Message, string](compose.WithGenLocalState(func(ctx context.Context) *c10xState { return &c10xState{} }))
	jpath := append(append([]string{}, prefix...), "join")
	if err := g.AddLambdaNode("join", c10xJoin(), compose.WithNodeName(c10NodeName(jpath))); err != nil {
		return nil, err
	}
	for _, n := range nodes {
		path := append(append([]string{}, prefix...), n.Key)
		pk := strings.Join(path, "/")
		opts := []compose.GraphAddNodeOpt{compose.WithNodeName(c10NodeName(path)), compose.WithOutputKey(n.Key)}
		var err error
		switch n.LK {
		case "graph":
			sub, e := c10xLevel(path, n.Inner, mode, cnts)
			if e != nil {
				return nil, e
			}
			if mode == "dag" {
				opts = append(opts, compose.WithGraphCompileOptions(compose.WithNodeTriggerMode(compose.AllPredecessor)))
			}
			err = g.AddGraphNode(n.Key, sub, opts...)
		case "tools":
			var ts []tool.BaseTool
			msg := &schema.Message{Role: schema.Assistant, Content: "x"}
			for _, tl := range n.Tools {
				ts = append(ts, c10xMkTool(tl, cnts.get(pk+"/"+tl.Key)))
				msg.ToolCalls = append(msg.ToolCalls, schema.ToolCall{ID: "c" + tl.Key,
					Function: schema.FunctionCall{Name: tl.Key, Arguments: "a" + tl.Key}})
			}
			tn, e := compose.NewToolNode(context.Background(), &compose.ToolsNodeConfig{Tools: ts})
			if e != nil {
				return nil, e
			}
			// the ToolsNode's input is the message that calls each of its tools once — also when the
			// node is re-run after an interrupt (a re-run node gets the zero value from the runtime)
			opts = append(opts, compose.WithStatePreHandler(func(ctx context.Context, in *schema.Message, st *c10xState) (*schema.Message, error) {
				return msg, nil
			}))
			err = g.AddToolsNode(n.Key, tn, opts...)
		default:
			err = g.AddLambdaNode(n.Key, c10xLambda(n, cnts.get(pk)), opts...)
		}
		if err != nil {
			return nil, err
		}
		if err = g.AddEdge(compose.START, n.Key); err != nil {
			return nil, err
		}
		if err = g.AddEdge(n.Key, "join"); err != nil {
			return nil, err
		}
	}
	if err := g.AddEdge("join", compose.END); err != nil {
		return nil, err
	}
	return g, nil
}

type c10xStore struct {
	mu sync.Mutex
	m  map[string][]byte
}

func (s *c10xStore) Get(_ context.Context, id string) ([]byte, bool, error) {
	s.mu.Lock()
	defer s.mu.Unlock()
	v, ok := s.m[id]
	return v, ok, nil
}
func (s *c10xStore) Set(_ context.Context, id string, v []byte) error {
	s.mu.Lock()
	defer s.mu.Unlock()
	s.m[id] = append([]byte{}, v...)
	return nil
}

// ---------------------------------------------------------------- running a case

type c10xRunObs struct {
	Class    string              `json:"class"` // ok | interrupt | error | panic:… | hang
	Out      string              `json:"out"`
	Units    map[string][][2]int `json:"units"` // RunInfo → sequence of (handler id, timing)
	Payloads map[string][]string `json:"payloads,omitempty"`
}

func c10xAnyIntr(ns []c10xNode) bool {
	for _, n := range ns {
		if n.Intr > 0 || c10xAnyIntr(n.Inner) {
			return true
		}
		for _, t := range n.Tools {
			if t.Intr > 0 {
				return true
			}
		}
	}
	return false
}

// executes the scenario: first run, and the resumed run if the first one was interrupted
func c10xExec(c *c10xCase, withHandlers bool) (runs []c10xRunObs, build string) {
	saved := icb.GlobalHandlers
	defer func() { icb.GlobalHandlers = saved }()
	callbacks.InitCallbackHandlers(nil)

	cnts := &c10xCounters{}
	var r compose.Runnable[*schema.Message, string]
	panicked, pv := vh.Safely(func() {
		g, err := c10xLevel(nil, c.Nodes, c.Mode, cnts)
		if err != nil {
			build = "build:" + err.Error()
			return
		}
		copts := []compose.GraphCompileOption{compose.WithGraphName("G"), compose.WithCheckPointStore(&c10xStore{m: map[string][]byte{}})}
		if c.Mode == "dag" {
			copts = append(copts, compose.WithNodeTriggerMode(compose.AllPredecessor))
		}
		r, err = g.Compile(context.Background(), copts...)
		if err != nil {
			build = "build:" + err.Error()
		}
	})
	if panicked {
		build = fmt.Sprint("build:panic:", pv)
	}
	if build != "" {
		return nil, build
	}
	nRuns := 1
	if c10xAnyIntr(c.Nodes) {
		nRuns = 2
	}
	for run := 0; run < nRuns; run++ {
		rec := &c10Rec{}
		ctx := context.Background()
		opts := []compose.Option{compose.WithCheckPointID("cp")}
		callbacks.InitCallbackHandlers(nil)
		if withHandlers {
			if len(c.Globals) > 0 {
				callbacks.AppendGlobalHandlers(c10MkAll(c.Globals, rec)...)
			}
			if c.UserInit != nil {
				backing := make([]callbacks.Handler, len(c.UserInit.Hs)+c.UserInit.Spare)
				copy(backing, c10MkAll(c.UserInit.Hs, rec))
				for i := len(c.UserInit.Hs); i < len(backing); i++ {
					backing[i] = c10Mk(c10Hd{ID: 0}, rec)
				}
				ctx = callbacks.InitCallbacks(ctx, &callbacks.RunInfo{Name: "caller"}, backing[:len(c.UserInit.Hs)]...)
			}
			opts = append(opts, c10CallOpts(&c10Compose{Opts: c.Opts}, rec)...)
		}
		if run == 1 && c.ResumeFail != "" {
			refuse := c.ResumeFail
			opts = append(opts, compose.WithStateModifier(func(_ context.Context, path compose.NodePath, _ any) error {
				p := path.GetPath()
				if (refuse == "top" && len(p) == 0) || (len(p) == 1 && p[0] == refuse) {
					return errors.New("c10: the saved state is refused")
				}
				return nil
			}))
		}
		o := c10xRunObs{Units: map[string][][2]int{}, Payloads: map[string][]string{}}
		var runErr error
		finished := false
		panicked, pv := vh.Safely(func() {
			finished = vh.WithTimeout(40*time.Second, func() {
				msg := &schema.Message{Role: schema.Assistant, Content: "x"}
				if c.Paradigm == "stream" {
					var sr *schema.StreamReader[string]
					sr, runErr = r.Stream(ctx, msg, opts...)
					if runErr == nil {
						o.Out, runErr = c10ReadAll(sr)
					}
				} else {
					o.Out, runErr = r.Invoke(ctx, msg, opts...)
				}
			})
		})
		switch {
		case panicked:
			o.Class = fmt.Sprint("panic:", pv)
		case !finished:
			o.Class = "hang"
		case runErr == nil:
			o.Class = "ok"
		default:
			if _, ok := compose.ExtractInterruptInfo(runErr); ok {
				o.Class = "interrupt"
			} else if errors.Is(runErr, compose.InterruptAndRerun) {
				o.Class = "error:raw-interrupt" // the interrupt escaped the run unconverted
			} else {
				o.Class = "error"
			}
		}
		vh.WithTimeout(20*time.Second, func() { rec.wg.Wait() })
		rec.mu.Lock()
		addP := func(k, p string) {
			for _, q := range o.Payloads[k] {
				if q == p {
					return
				}
			}
			o.Payloads[k] = append(o.Payloads[k], p)
		}
		for _, e := range rec.evs {
			o.Units[e.Info] = append(o.Units[e.Info], [2]int{e.H, e.T})
			if e.T == 0 || e.T == 1 {
				addP(fmt.Sprintf("%s#%d", e.Info, e.T), e.Payload)
			}
		}
		for k, ps := range rec.streams {
			for _, p := range ps {
				addP(k, p)
			}
		}
		for k := range o.Payloads {
			sort.Strings(o.Payloads[k])
		}
		rec.mu.Unlock()
		runs = append(runs, o)
		if o.Class != "interrupt" {
			break
		}
	}
	return runs, ""
}

type c10xModelUnit struct {
	Info       string   `json:"info"`
	Ev         [][2]int `json:"ev"`
	Handlers   []int    `json:"handlers"`
	ParentInfo *string  `json:"parentInfo"`
	Tool       bool     `json:"tool"`
	CB         bool     `json:"cb"`
	Intr       bool     `json:"intr"`
}

type c10xModelRun struct {
	First   bool            `json:"first"`
	Outcome string          `json:"outcome"`
	Units   []c10xModelUnit `json:"units"`
}

type c10xModel struct {
	Runs   []c10xModelRun `json:"runs"`
	CbsLen int            `json:"cbsLen"`
	CbsCap int            `json:"cbsCap"`
}

func c10xShapeKey(ns []c10xNode) string {
	var ks []string
	for _, n := range ns {
		k := n.LK
		if n.Intr > 0 {
			k += fmt.Sprintf("!%d", n.Intr)
		}
		if n.LK == "tools" {
			var ts []string
			for _, t := range n.Tools {
				s := t.TK
				if t.CB {
					s += "+cb"
				}
				if t.Intr > 0 {
					s += fmt.Sprintf("!%d", t.Intr)
				}
				ts = append(ts, s)
			}
			k += "(" + strings.Join(ts, ",") + ")"
		}
		if n.LK == "graph" {
			k += "(" + c10xShapeKey(n.Inner) + ")"
		}
		ks = append(ks, k)
	}
	return strings.Join(ks, ",")
}

func c10xSub(a, b map[[2]int]int) map[[2]int]int { // a − b, positive part
	out := map[[2]int]int{}
	for k, v := range a {
		if v > b[k] {
			out[k] = v - b[k]
		}
	}
	return out
}

// the implementation delivered a subset of the model's events and everything missing is an OnError
func c10xOnlyErrorsMissing(model, impl [][2]int) bool {
	if len(c10xSub(c10Multiset(impl), c10Multiset(model))) > 0 {
		return false
	}
	for k := range c10xSub(c10Multiset(model), c10Multiset(impl)) {
		if k[1] != 2 {
			return false
		}
	}
	return true
}

func c10xOne(ctx *vh.Ctx, c *c10xCase) error {
	ctx.Progress.Mark(c)
	raw, err := ctx.Oracle.Ask("C10", c)
	if err != nil {
		return err
	}
	var model c10xModel
	if err := json.Unmarshal(raw, &model); err != nil {
		return err
	}
	ref, refBuild := c10xExec(c, false)
	impl, build := c10xExec(c, true)

	nDesig, nUndes := 0, 0
	masked := map[int]bool{}
	for _, o := range c.Opts {
		if len(o.Paths) > 0 {
			nDesig++
		} else {
			nUndes++
		}
		for _, h := range o.Hs {
			masked[h.ID] = masked[h.ID] || h.Mask != nil
		}
	}
	for _, h := range c.Globals {
		masked[h.ID] = masked[h.ID] || h.Mask != nil
	}
	if c.UserInit != nil {
		for _, h := range c.UserInit.Hs {
			masked[h.ID] = masked[h.ID] || h.Mask != nil
		}
	}
	nIntr, nCB, nTools := 0, 0, 0
	var walk func(ns []c10xNode)
	walk = func(ns []c10xNode) {
		for _, n := range ns {
			if n.Intr > 0 {
				nIntr++
				ctx.Res.Dist("runs.interrupter=lambda-" + n.LK + fmt.Sprintf("/%d", n.Intr))
			}
			for _, t := range n.Tools {
				nTools++
				kind := "tool-" + t.TK
				if t.CB {
					nCB++
					kind += "+cb"
					ctx.Res.Dist("runs.cbtool=" + t.TK)
				}
				if t.Intr > 0 {
					nIntr++
					ctx.Res.Dist("runs.interrupter=" + kind + fmt.Sprintf("/%d", t.Intr))
				}
			}
			if n.LK == "graph" {
				ctx.Res.Dist("runs.nested=true")
			}
			walk(n.Inner)
		}
	}
	walk(c.Nodes)
	tag := fmt.Sprintf("%s/%s/%s", c.Family, c.Mode, c.Paradigm)
	ctx.Res.Dist("kind=runs")
	if c.ResumeFail != "" {
		which := "nested"
		if c.ResumeFail == "top" {
			which = "top"
		}
		ctx.Res.Dist("runs.refusedResume=" + which)
		tag += "/refuse-" + which
	}
	ctx.Res.Dist("family=runs:" + tag)
	ctx.Res.Dist(fmt.Sprintf("runs.interrupters=%d", nIntr))
	capN := func(n int) string {
		if n >= 4 {
			return "4+"
		}
		return fmt.Sprint(n)
	}
	ctx.Res.Dist("runs.tools=" + capN(nTools))
	ctx.Res.Dist("runs.cbtools=" + capN(nCB))
	ctx.Res.Dist(fmt.Sprintf("runs.count=%d", len(model.Runs)))
	for _, r := range impl {
		ctx.Res.Dist("runs.class=" + strings.SplitN(r.Class, ":", 2)[0])
	}
	ui := "-"
	if c.UserInit != nil {
		ui = fmt.Sprintf("%d+%d", len(c.UserInit.Hs), c.UserInit.Spare)
	}
	ctx.Res.Count(fmt.Sprintf("runs|%s|%s|g%d|u%s|o%d|d%d", tag, c10xShapeKey(c.Nodes), len(c.Globals), ui, nUndes, nDesig),
		nDesig+nUndes+len(c.Globals) > 0 || c.UserInit != nil)
	ctx.Res.Sample(c)

	sig := func(what, phase string) string { return "C10:runs:" + what + ":" + phase + ":" + c.Family }
	dis := func(what, phase, msg string) {
		ctx.Res.Disagree(vh.Disagreement{Signature: sig(what, phase), What: msg, Case: c, Model: model, Impl: impl})
	}
	if build != "" || refBuild != "" {
		dis("run-build", "first", "the graph of the case could not be built / compiled: "+build+refBuild)
		return nil
	}
	for ri, mr := range model.Runs {
		phase := "first"
		if !mr.First {
			phase = "resumed"
			if c.ResumeFail != "" {
				phase = "refused-resume"
			}
		}
		if ri >= len(impl) {
			dis("outcome", phase, fmt.Sprintf("the %s run did not take place: the previous run ended with %q", phase, impl[len(impl)-1].Class))
			break
		}
		im := impl[ri]
		if strings.HasPrefix(im.Class, "panic") || im.Class == "hang" {
			dis("run-"+strings.SplitN(im.Class, ":", 2)[0], phase, "the "+phase+" run did not complete normally: "+im.Class)
			break
		}
		if im.Class != mr.Outcome {
			dis("outcome", phase, fmt.Sprintf("%s run: outcome %q, expected %q", phase, im.Class, mr.Outcome))
		}
		if ri < len(ref) && (ref[ri].Out != im.Out || ref[ri].Class != im.Class) {
			dis("flow-output", phase, fmt.Sprintf("%s run: result with handlers %s %q differs from the handler-free run %s %q", phase, im.Class, im.Out, ref[ri].Class, ref[ri].Out))
		}
		handled := map[string]bool{}
		modelOf := map[string]c10xModelUnit{}
		for _, mu := range mr.Units {
			modelOf[mu.Info] = mu
		}
		// (1) direct predicate, independent of the oracle: per unit, every unfiltered handler got as
		// many finishing callbacks (end / stream end / error) as start callbacks
		infos := make([]string, 0, len(im.Units))
		for info := range im.Units {
			infos = append(infos, info)
		}
		sort.Strings(infos)
		for _, info := range infos {
			starts, ends := map[int]int{}, map[int]int{}
			for _, e := range im.Units[info] {
				if e[1] == 0 || e[1] == 3 {
					starts[e[0]]++
				} else {
					ends[e[0]]++
				}
			}
			hs := map[int]bool{}
			for h := range starts {
				hs[h] = true
			}
			for h := range ends {
				hs[h] = true
			}
			ids := make([]int, 0, len(hs))
			for h := range hs {
				ids = append(ids, h)
			}
			sort.Ints(ids)
			for _, h := range ids {
				if masked[h] || starts[h] == ends[h] {
					continue
				}
				what := "unpaired"
				if mu, ok := modelOf[info]; ok && mu.Intr && phase != "refused-resume" {
					what = "unpaired-on-interrupt"
				}
				dis(what, phase, fmt.Sprintf("%s run, unit %q: handler %d got %d start and %d end/error callbacks (every started unit must be finished exactly once): %v",
					phase, info, h, starts[h], ends[h], im.Units[info]))
				handled[info] = true
				break
			}
		}
		// (2) a tool firing its own callbacks must be reported under its own run info: its events
		// missing there and surplus under the ToolsNode's run info
		for _, mu := range mr.Units {
			if !mu.Tool || !mu.CB || mu.ParentInfo == nil || handled[mu.Info] {
				continue
			}
			missing := c10xSub(c10Multiset(mu.Ev), c10Multiset(im.Units[mu.Info]))
			if len(missing) == 0 {
				continue
			}
			pm := modelOf[*mu.ParentInfo]
			surplus := c10xSub(c10Multiset(im.Units[*mu.ParentInfo]), c10Multiset(pm.Ev))
			explained := true
			for k, v := range missing {
				if surplus[k] < v {
					explained = false
				}
			}
			if explained {
				dis("tool-run-info", phase, fmt.Sprintf("%s run: the callbacks fired by the callback-enabled tool %q were delivered with the ToolsNode's run info %q (there: %v) instead of the tool's own (there: %v)",
					phase, mu.Info, *mu.ParentInfo, im.Units[*mu.ParentInfo], im.Units[mu.Info]))
				handled[mu.Info], handled[*mu.ParentInfo] = true, true
			}
		}
		// (3) per unit against the model
		for _, mu := range mr.Units {
			if handled[mu.Info] {
				continue
			}
			if cl := c10DiffClass(c10ModelUnit{Info: mu.Info, Ev: mu.Ev, Handlers: mu.Handlers}, c.Globals, im.Units[mu.Info]); cl != "" {
				if cl == "missing-callback" && mu.Intr && phase != "refused-resume" && c10xOnlyErrorsMissing(mu.Ev, im.Units[mu.Info]) {
					// the same observable as (1), seen through handlers with a timing filter
					cl = "unpaired-on-interrupt"
				}
				dis(cl, phase, fmt.Sprintf("%s run, unit %q: callbacks (handler,timing) %v on the implementation, %v in the model", phase, mu.Info, im.Units[mu.Info], mu.Ev))
			}
		}
		for _, info := range infos {
			if _, ok := modelOf[info]; !ok && len(im.Units[info]) > 0 && !handled[info] {
				dis("unknown-unit", phase, fmt.Sprintf("%s run: callbacks delivered with run info %q, which no unit of this run has: %v", phase, info, im.Units[info]))
			}
		}
		for k, ps := range im.Payloads {
			if handled[k[:strings.LastIndex(k, "#")]] {
				continue // already reported: the unit's callbacks are mixed with another unit's
			}
			if len(ps) > 1 {
				dis("payload-differs", phase, fmt.Sprintf("%s run: handlers of %s saw different payloads: %q", phase, k, ps))
			}
		}
	}
	return nil
}

// ---------------------------------------------------------------- generators

func c10xGen(r *vh.Rand, family string) *c10xCase {
	c := &c10xCase{Kind: "runs", Family: family, Mode: "pregel", Paradigm: "invoke", Opts: []c10Opt{}, Globals: []c10Hd{}}
	ids := &c10IDs{}
	if r.Chance(40) {
		c.Mode = "dag"
	}
	if r.Chance(50) {
		c.Paradigm = "stream"
	}
	lks := []string{"i", "i", "s", "c", "t", "self"}
	tks := []string{"inv", "inv", "str", "both"}
	nTool := 0
	mkTools := func(cbPct int) c10xNode {
		n := c10xNode{Key: "T", LK: "tools"}
		for i, k := 0, r.Range(1, 3); i < k; i++ {
			nTool++
			n.Tools = append(n.Tools, c10xTool{Key: fmt.Sprintf("t%d", nTool), TK: tks[r.Intn(len(tks))], CB: r.Chance(cbPct)})
		}
		return n
	}
	cbPct := 25
	if family == "cbtool" {
		cbPct = 60
	}
	mkInner := func(key string, allowTools bool) c10xNode {
		if allowTools && r.Chance(30) {
			n := mkTools(cbPct)
			n.Key = key
			return n
		}
		return c10xNode{Key: key, LK: lks[r.Intn(len(lks))]}
	}
	k := r.Range(1, 3)
	hasGraph := false
	for i := 0; i < k; i++ {
		key := string(rune('A' + i))
		if !hasGraph && r.Chance(25) {
			hasGraph = true
			sub := c10xNode{Key: key, LK: "graph"}
			for j, m := 0, r.Range(1, 2); j < m; j++ {
				sub.Inner = append(sub.Inner, mkInner(string(rune('X'+j)), true))
			}
			c.Nodes = append(c.Nodes, sub)
			continue
		}
		c.Nodes = append(c.Nodes, mkInner(key, true))
	}
	// leaves: pointers to every lambda and tool
	type leaf struct {
		n *c10xNode
		t *c10xTool
	}
	var leaves []leaf
	var cbTools []*c10xTool
	var collect func(ns []c10xNode)
	collect = func(ns []c10xNode) {
		for i := range ns {
			switch ns[i].LK {
			case "graph":
				collect(ns[i].Inner)
			case "tools":
				for j := range ns[i].Tools {
					leaves = append(leaves, leaf{t: &ns[i].Tools[j]})
					if ns[i].Tools[j].CB {
						cbTools = append(cbTools, &ns[i].Tools[j])
					}
				}
			default:
				leaves = append(leaves, leaf{n: &ns[i]})
			}
		}
	}
	collect(c.Nodes)
	if family == "cbtool" && len(cbTools) == 0 {
		// make sure there is a callback-enabled tool: turn the first node into a ToolsNode if there is none
		hasTool := false
		for _, l := range leaves {
			if l.t != nil {
				l.t.CB = true
				hasTool = true
				break
			}
		}
		if !hasTool {
			key := c.Nodes[0].Key
			c.Nodes[0] = mkTools(100)
			c.Nodes[0].Key = key
			leaves = leaves[:0]
			collect(c.Nodes)
		}
	}
	intrKind := func() int {
		if r.Chance(30) {
			return 2
		}
		return 1
	}
	setIntr := func(l leaf) {
		if l.t != nil {
			l.t.Intr = intrKind()
		} else {
			l.n.Intr = intrKind()
		}
	}
	if family == "intr" || r.Chance(25) {
		any := false
		for _, l := range leaves {
			if r.Chance(35) {
				setIntr(l)
				any = true
			}
		}
		if !any {
			setIntr(leaves[r.Intn(len(leaves))])
		}
	}
	// node paths a handler can be designated to
	var paths [][]string
	for _, n := range c.Nodes {
		paths = append(paths, []string{n.Key})
		for _, in := range n.Inner {
			paths = append(paths, []string{n.Key, in.Key})
		}
	}
	if r.Chance(30) {
		paths = append(paths, []string{"join"})
	}
	if r.Chance(35) {
		c.Globals = ids.hds(r, r.Range(1, 2))
	}
	if r.Chance(20) {
		c.UserInit = &c10UserInit{Hs: ids.hds(r, r.Range(0, 3)), Spare: r.Intn(3)}
	}
	nU := r.Intn(4)
	if nU == 0 && len(c.Globals) == 0 && c.UserInit == nil {
		nU = 1
	}
	for i := 0; i < nU; i++ {
		c.Opts = append(c.Opts, c10Opt{Hs: ids.hds(r, r.Range(1, 2))})
	}
	for _, p := range paths {
		if r.Chance(55) {
			c.Opts = append(c.Opts, c10Opt{Hs: ids.hds(r, r.Range(1, 2)), Paths: [][]string{p}})
		}
	}
	perm := r.Perm(len(c.Opts))
	sh := make([]c10Opt, len(c.Opts))
	for i, j := range perm {
		sh[i] = c.Opts[j]
	}
	c.Opts = sh
	// the resume is refused while the checkpoint is being restored: for the called graph, or for
	// a nested graph that interrupted
	if c10xAnyIntr(c.Nodes) && r.Chance(18) {
		c.ResumeFail = "top"
		for _, n := range c.Nodes {
			if n.LK == "graph" && c10xAnyIntr(n.Inner) && r.Chance(60) {
				c.ResumeFail = n.Key
			}
		}
	}
	return c
}

// hand-written cases run first on every seed: the smallest scenario of each kind
func c10xFixed() []any {
	one := []c10Opt{{Hs: []c10Hd{{ID: 1}}}}
	mk := func(family, mode, paradigm string, nodes ...c10xNode) any {
		return &c10xCase{Kind: "runs", Family: family, Mode: mode, Paradigm: paradigm, Globals: []c10Hd{}, Opts: one, Nodes: nodes}
	}
	var out []any
	for _, p := range []string{"invoke", "stream"} {
		// a lambda that interrupts next to one that does not
		out = append(out, mk("intr", "pregel", p, c10xNode{Key: "A", LK: "i", Intr: 1}, c10xNode{Key: "B", LK: "i"}))
		// a tool call that interrupts (error wrapping the interrupt) next to an ordinary one
		out = append(out, mk("intr", "dag", p, c10xNode{Key: "T", LK: "tools", Tools: []c10xTool{{Key: "t1", TK: "inv", Intr: 2}, {Key: "t2", TK: "inv"}}}))
		// a node of a nested graph interrupts
		out = append(out, mk("intr", "pregel", p, c10xNode{Key: "S", LK: "graph", Inner: []c10xNode{{Key: "X", LK: "t", Intr: 1}}}, c10xNode{Key: "B", LK: "s"}))
		// callback-enabled tools: invokable alone, streamable next to an ordinary tool
		out = append(out, mk("cbtool", "pregel", p, c10xNode{Key: "T", LK: "tools", Tools: []c10xTool{{Key: "t1", TK: "inv", CB: true}}}))
		out = append(out, mk("cbtool", "dag", p, c10xNode{Key: "T", LK: "tools", Tools: []c10xTool{{Key: "t1", TK: "str", CB: true}, {Key: "t2", TK: "both"}}}, c10xNode{Key: "B", LK: "i"}))
		// the resume is refused by the caller's state modifier: for the called graph, for the nested graph
		top := mk("intr", "pregel", p, c10xNode{Key: "A", LK: "i", Intr: 1}, c10xNode{Key: "B", LK: "i"}).(*c10xCase)
		top.ResumeFail = "top"
		sub := mk("intr", "dag", p, c10xNode{Key: "S", LK: "graph", Inner: []c10xNode{{Key: "X", LK: "i", Intr: 1}}}, c10xNode{Key: "B", LK: "i", Intr: 1}).(*c10xCase)
		sub.ResumeFail = "S"
		out = append(out, top, sub)
	}
	return out
}
