//go:build verif && (vh_all || vh_c12)

package props

// C12 — checkpoint serialisation round trip. This file: the menu of registered Go types,
// the type-directed value generator, and the conversion Go value -> case language
// (type-tagged tree the Lean model interprets). c12_run.go: running and comparing.

import (
	"encoding/json"
	"fmt"
	"math"
	"reflect"
	"sort"
	"strings"
	"unicode/utf8"

	"github.com/bytedance/sonic"

	"github.com/cloudwego/eino/internal/serialization"
	"github.com/cloudwego/eino/schema"
	"github.com/cloudwego/eino/verifharness/vh"
)

// ---- menu types ----

type c12MyInt int
type c12MyStr string
type c12MyF float64
type c12MyBool bool
type c12MyU8 uint8
type c12MyI64 int64

type c12Leaf struct {
	I   int
	S   string
	B   bool
	F   float64
	U   uint64
	I8  int8
	N   c12MyInt
	NS  c12MyStr
	F32 float32
}
type c12Nums struct {
	I16 int16
	I32 int32
	I64 int64
	U   uint
	U8  uint8
	U16 uint16
	U32 uint32
	UP  uintptr
	NF  c12MyF
	NB  c12MyBool
	NU  c12MyU8
	NI  c12MyI64
}
type c12P1 struct {
	PI *int
	PS *string
	PN *c12MyInt
	PL *c12Leaf
	PF *float64
}
type c12P2 struct {
	PPI **int
	PPS **string
	PPL **c12Leaf
	PPN **c12MyStr
}
type c12P3 struct {
	PPPI ***int
	PPPL ***c12Leaf
	PPPN ***c12MyStr
	PPPB ***bool
}
type c12Sl struct {
	A []int
	B []string
	C []*int
	D []**int
	E []c12Leaf
	F []*c12Leaf
	G []any
	H []c12MyInt
	I []uint8
	J []***string
}
type c12Mp struct {
	SI  map[string]int
	IS  map[int]string
	BS  map[bool]string
	U8  map[uint8]int
	I64 map[int64]*int
	FS  map[float64]string
	NM  map[c12MyStr]c12Leaf
	SA  map[string]any
	SP  map[string]*c12Leaf
	NI  map[c12MyInt]**int
	U64 map[uint64]bool
	I8  map[int8]c12MyStr
	I16 map[int16]any
	I32 map[int32]*string
	U   map[uint]string
	U16 map[uint16]string
	U32 map[uint32]string
	UP  map[uintptr]string
	F32 map[float32]int
	I   map[c12MyInt]string
	NB  map[c12MyBool]int
}
type c12PC struct { // pointers to containers
	PM   *map[string]int
	PS   *[]int
	PPM  **map[string]any
	PPS  **[]*int
	PSL  *[]c12Leaf
	PMP  *map[int]*c12Leaf
	PPPS ***[]string
}
type c12Any struct {
	X any
	Y any
	L []any
	M map[string]any
	P *c12Any
}
type c12Node struct {
	V    int
	Next *c12Node
	Kids []*c12Node
	Tag  any
}
type c12Unexp struct {
	A int
	b int // unexported: skipped by the encoder, zero after decoding; the generator leaves it zero
	C string
}
type c12Empty struct{}
type c12Nest struct {
	L  c12Leaf
	P  c12P1
	Q  *c12P2
	R  **c12P3
	S  c12Sl
	M  *c12Mp
	A  c12Any
	N  *c12Node
	U  c12Unexp
	E  c12Empty
	PE *c12Empty
	PC c12PC
	NU c12Nums
}

// not registered on purpose (a value the serialiser cannot represent: must fail loudly)
type c12Unreg struct{ A int }
type c12HasUnreg struct {
	A int
	U *c12Unreg
	L []c12Unreg
}

var c12RegNames = map[reflect.Type]string{}
var c12RegErr error

func c12Register[T any](name string) {
	if err := serialization.GenericRegister[T](name); err != nil && c12RegErr == nil {
		c12RegErr = err
	}
	c12RegNames[reflect.TypeOf((*T)(nil)).Elem()] = name
}

func init() {
	c12Register[c12MyInt]("c12_myint")
	c12Register[c12MyStr]("c12_mystr")
	c12Register[c12MyF]("c12_myf")
	c12Register[c12MyBool]("c12_mybool")
	c12Register[c12MyU8]("c12_myu8")
	c12Register[c12MyI64]("c12_myi64")
	c12Register[c12Leaf]("c12_leaf")
	c12Register[c12Nums]("c12_nums")
	c12Register[c12P1]("c12_p1")
	c12Register[c12P2]("c12_p2")
	c12Register[c12P3]("c12_p3")
	c12Register[c12Sl]("c12_sl")
	c12Register[c12Mp]("c12_mp")
	c12Register[c12PC]("c12_pc")
	c12Register[c12Any]("c12_any")
	c12Register[c12Node]("c12_node")
	c12Register[c12Unexp]("c12_unexp")
	c12Register[c12Empty]("c12_empty")
	c12Register[c12Nest]("c12_nest")
	c12Register[c12HasUnreg]("c12_hasunreg")
}

func c12T[T any]() reflect.Type { return reflect.TypeOf((*T)(nil)).Elem() }

// top-level types a case may be drawn from
var c12Menu = []reflect.Type{
	c12T[c12Leaf](), c12T[*c12Leaf](), c12T[**c12Leaf](), c12T[***c12Leaf](),
	c12T[c12Nums](), c12T[*c12Nums](),
	c12T[c12P1](), c12T[*c12P1](), c12T[c12P2](), c12T[*c12P2](), c12T[c12P3](), c12T[**c12P3](),
	c12T[c12Sl](), c12T[*c12Sl](), c12T[c12Mp](), c12T[*c12Mp](), c12T[c12PC](), c12T[*c12PC](),
	c12T[c12Any](), c12T[*c12Any](), c12T[c12Node](), c12T[*c12Node](),
	c12T[c12Unexp](), c12T[c12Empty](), c12T[*c12Empty](), c12T[c12Nest](), c12T[*c12Nest](),
	c12T[int](), c12T[*int](), c12T[**int](), c12T[***int](), c12T[string](), c12T[*string](),
	c12T[float64](), c12T[bool](), c12T[uint64](), c12T[c12MyInt](), c12T[**c12MyStr](), c12T[*c12MyF](),
	c12T[[]int](), c12T[*[]int](), c12T[**[]int](), c12T[[]*c12Leaf](), c12T[[]any](), c12T[*[]any](),
	c12T[[]**string](), c12T[[]c12MyInt](), c12T[[]byte](),
	c12T[map[string]int](), c12T[*map[string]int](), c12T[**map[string]any](), c12T[map[string]any](),
	c12T[map[int]*c12Leaf](), c12T[map[c12MyStr][]byte](), c12T[map[float64]**int](), c12T[map[bool]c12Any](),
	c12T[map[uint8]any](), c12T[map[int64]string](),
	c12T[schema.Message](), c12T[*schema.Message](), c12T[[]*schema.Message](), c12T[schema.Document](),
	c12T[map[string]*schema.Message](),
	c12T[c12HasUnreg](), c12T[complex128](), c12T[*c12Unreg](),
}

// dynamic types an `any` position may hold
var c12AnyTypes = []reflect.Type{
	c12T[int](), c12T[string](), c12T[float64](), c12T[bool](), c12T[uint64](), c12T[int8](), c12T[float32](),
	c12T[c12MyInt](), c12T[c12MyStr](), c12T[c12Leaf](), c12T[*c12Leaf](), c12T[**c12Leaf](),
	c12T[*int](), c12T[**string](), c12T[***int](),
	c12T[[]int](), c12T[[]any](), c12T[map[string]any](), c12T[map[int]string](), c12T[*[]int](), c12T[*map[string]int](),
	c12T[c12Any](), c12T[*c12Any](), c12T[c12Empty](), c12T[*c12Node](), c12T[[]*c12Leaf](),
	c12T[schema.Message](), c12T[*schema.Message](), c12T[[]*schema.Message](), c12T[schema.RoleType](),
}

// ---- generator: a random value of a given type ----

type c12Gen struct {
	r *vh.Rand
	// knobs (percent)
	nilPtr  int
	nilCont int // nil probability of a pointer whose base type is a slice/map (the encoder rejects those: known finding)
	budget  int // remaining node budget
	special bool
	// share: percent of non-nil pointer positions that reuse a pointer generated earlier in the
	// same value (same pointer type): shared, acyclic pointers. 0 = every pointer is fresh.
	share int
	// unregAny: percent of non-nil `any` positions that hold a value of an UNREGISTERED defined
	// type over a basic kind (c12UnregAnyTypes): the serialiser must refuse the whole value.
	unregAny int
	pool     map[reflect.Type][]c12Pooled
}

// a pointer the generator has finished building (so reusing it cannot close a cycle) and the
// number of nodes of its unfolding
type c12Pooled struct {
	p    reflect.Value
	size int
}

var c12Strings = []string{"", "a", "hello world", "null", "\"quoted\"", "back\\slash", "line\nbreak\ttab", "<html>&amp;</html>",
	"unicode: żółć 日本語 😀", "  ", "\x00\x01\x1f", "{\"json\":[1,2]}", "  spaces  ", "'", "é́", strings.Repeat("x", 300)}

func (g *c12Gen) str() string {
	if g.r.Chance(70) {
		return c12Strings[g.r.Intn(len(c12Strings))]
	}
	n := g.r.Intn(8)
	rs := make([]rune, n)
	for i := range rs {
		switch g.r.Intn(4) {
		case 0:
			rs[i] = rune(32 + g.r.Intn(95))
		case 1:
			rs[i] = rune(0x80 + g.r.Intn(0x700))
		case 2:
			rs[i] = rune(0x4e00 + g.r.Intn(0x1000))
		default:
			rs[i] = rune(0x1F600 + g.r.Intn(0x40))
		}
	}
	return string(rs)
}

func (g *c12Gen) i64(bits int) int64 {
	lo, hi := int64(-1)<<(bits-1), int64(1)<<(bits-1)-1
	switch g.r.Intn(8) {
	case 0:
		return 0
	case 1:
		return lo
	case 2:
		return hi
	case 3:
		return -1
	case 4:
		if bits == 64 {
			return (1 << 53) + 1 + int64(g.r.Intn(1000))
		}
		return hi - 1
	case 5:
		if bits == 64 {
			return -(1 << 53) - 1 - int64(g.r.Intn(1000))
		}
		return lo + 1
	}
	v := int64(g.r.U64())
	if bits < 64 {
		v = v % (hi + 1)
	}
	return v
}

func (g *c12Gen) u64(bits int) uint64 {
	max := ^uint64(0)
	if bits < 64 {
		max = uint64(1)<<bits - 1
	}
	switch g.r.Intn(6) {
	case 0:
		return 0
	case 1:
		return max
	case 2:
		if bits == 64 {
			return (1 << 53) + 1
		}
		return max - 1
	case 3:
		return 1
	}
	return g.r.U64() & max
}

func (g *c12Gen) f64(bits int) float64 {
	var v float64
	switch g.r.Intn(14) {
	case 0:
		v = 0
	case 1:
		v = math.Copysign(0, -1)
	case 2:
		v = math.MaxFloat64
	case 3:
		v = math.SmallestNonzeroFloat64
	case 4:
		v = 1e21
	case 5:
		v = 1e-7
	case 6:
		v = -123456789.125
	case 7:
		v = float64(1<<53) + 2
	case 8:
		v = 0.1
	case 9:
		if g.special {
			return []float64{math.NaN(), math.Inf(1), math.Inf(-1)}[g.r.Intn(3)]
		}
		v = 3.5
	default:
		v = math.Float64frombits(g.r.U64())
		if math.IsNaN(v) || math.IsInf(v, 0) {
			v = 2.25
		}
	}
	if bits == 32 {
		f := float32(v)
		if math.IsInf(float64(f), 0) && !math.IsInf(v, 0) {
			f = math.MaxFloat32
		}
		return float64(f)
	}
	return v
}

func (g *c12Gen) size() int {
	if g.budget <= 0 {
		return 0
	}
	switch g.r.Intn(10) {
	case 0, 1, 2:
		return 0
	case 3, 4, 5:
		return 1
	case 6, 7:
		return 2
	case 8:
		return 3
	}
	return 4 + g.r.Intn(3)
}

// gen builds a random value of type t (settable, addressable result not needed).
func (g *c12Gen) gen(t reflect.Type, depth int) reflect.Value {
	g.budget--
	v := reflect.New(t).Elem()
	switch t.Kind() {
	case reflect.Bool:
		v.SetBool(g.r.Bool())
	case reflect.Int, reflect.Int8, reflect.Int16, reflect.Int32, reflect.Int64:
		v.SetInt(g.i64(t.Bits()))
	case reflect.Uint, reflect.Uint8, reflect.Uint16, reflect.Uint32, reflect.Uint64, reflect.Uintptr:
		v.SetUint(g.u64(t.Bits()))
	case reflect.Float32, reflect.Float64:
		v.SetFloat(g.f64(t.Bits()))
	case reflect.Complex64, reflect.Complex128:
		v.SetComplex(complex(1, 2))
	case reflect.String:
		v.SetString(g.str())
	case reflect.Ptr:
		pn := g.nilPtr
		base := t.Elem()
		for base.Kind() == reflect.Ptr {
			base = base.Elem()
		}
		if base.Kind() == reflect.Slice || base.Kind() == reflect.Map {
			pn = g.nilCont
		} else if depth > 7 || g.budget <= 0 {
			pn = 100
		}
		if g.r.Chance(pn) {
			return v // nil
		}
		if g.share > 0 && g.r.Chance(g.share) {
			if cands := g.pool[t]; len(cands) > 0 {
				c := cands[g.r.Intn(len(cands))]
				if c.size <= g.budget || c.size <= 4 {
					g.budget -= c.size
					v.Set(c.p)
					return v
				}
			}
		}
		before := g.budget
		p := reflect.New(t.Elem())
		p.Elem().Set(g.gen(t.Elem(), depth+1))
		v.Set(p)
		if g.share > 0 {
			if g.pool == nil {
				g.pool = map[reflect.Type][]c12Pooled{}
			}
			g.pool[t] = append(g.pool[t], c12Pooled{p, before - g.budget + 1})
		}
	case reflect.Slice:
		if g.r.Chance(15) {
			return v // nil slice
		}
		n := g.size()
		s := reflect.MakeSlice(t, 0, n)
		for i := 0; i < n; i++ {
			s = reflect.Append(s, g.gen(t.Elem(), depth+1))
		}
		v.Set(s)
	case reflect.Map:
		if g.r.Chance(15) {
			return v // nil map
		}
		n := g.size()
		m := reflect.MakeMap(t)
		if kk := t.Key().Kind(); kk == reflect.Struct || kk == reflect.Ptr {
			g.composite(m, t, n, depth)
			v.Set(m)
			return v
		}
		for i := 0; i < n; i++ {
			k := g.gen(t.Key(), depth+1)
			if k.Kind() == reflect.Float32 || k.Kind() == reflect.Float64 {
				if f := k.Float(); math.IsNaN(f) || math.IsInf(f, 0) {
					continue
				}
			}
			m.SetMapIndex(k, g.gen(t.Elem(), depth+1))
		}
		v.Set(m)
	case reflect.Struct:
		for i := 0; i < t.NumField(); i++ {
			if t.Field(i).PkgPath != "" {
				continue
			}
			v.Field(i).Set(g.gen(t.Field(i).Type, depth+1))
		}
	case reflect.Interface:
		if g.r.Chance(20) || depth > 6 || g.budget <= 0 {
			return v // nil interface
		}
		if g.unregAny > 0 && g.r.Chance(g.unregAny) {
			v.Set(g.gen(c12UnregAnyTypes[g.r.Intn(len(c12UnregAnyTypes))], depth+1))
			return v
		}
		dt := c12AnyTypes[g.r.Intn(len(c12AnyTypes))]
		v.Set(g.gen(dt, depth+1))
	}
	return v
}

// ---- Go type / value -> case language ----

type c12Ctx struct {
	reg     map[string]any // key -> type json
	kinds   map[string]string
	structs map[string]any
	unreg   map[string]bool // type names met that are not registered
	addr    map[c12PtrID]int // identity of a pointer (address, pointee type) -> label sent to the model
}

type c12PtrID struct {
	addr uintptr
	elem reflect.Type
}

// label numbers the pointer identities of one value 1, 2, … in the order they are met
func (c *c12Ctx) label(v reflect.Value) int {
	if c.addr == nil {
		c.addr = map[c12PtrID]int{}
	}
	id := c12PtrID{v.Pointer(), v.Type().Elem()}
	if n, ok := c.addr[id]; ok {
		return n
	}
	c.addr[id] = len(c.addr) + 1
	return len(c.addr)
}

func c12NewCtx() *c12Ctx {
	return &c12Ctx{reg: map[string]any{}, kinds: map[string]string{}, structs: map[string]any{}, unreg: map[string]bool{}}
}

var c12RegProbe = map[reflect.Type]bool{}

// c12IsRegistered asks the real registry: marshalling a nil *T only looks T up.
func c12IsRegistered(t reflect.Type) bool {
	if r, ok := c12RegProbe[t]; ok {
		return r
	}
	_, err := serialization.Marshal(reflect.Zero(reflect.PtrTo(t)).Interface())
	c12RegProbe[t] = err == nil
	return err == nil
}

func c12IsBasicKind(k reflect.Kind) bool {
	return k == reflect.Bool || (k >= reflect.Int && k <= reflect.Complex128) || k == reflect.String
}

// ty renders a type and records what the model's context needs to know about it.
func (c *c12Ctx) ty(t reflect.Type) any {
	switch {
	case t.Kind() == reflect.Ptr:
		return map[string]any{"k": "ptr", "t": c.ty(t.Elem())}
	case t.Kind() == reflect.Slice:
		return map[string]any{"k": "slice", "t": c.ty(t.Elem())}
	case t.Kind() == reflect.Map:
		return map[string]any{"k": "map", "key": c.ty(t.Key()), "val": c.ty(t.Elem())}
	case t.Kind() == reflect.Interface:
		return map[string]any{"k": "iface"}
	case t.Kind() == reflect.Struct:
		name := t.String()
		out := map[string]any{"k": "struct", "n": name}
		if _, done := c.structs[name]; !done {
			c.structs[name] = []any{} // cut recursion
			var fs []any
			for i := 0; i < t.NumField(); i++ {
				if f := t.Field(i); f.PkgPath == "" {
					fs = append(fs, []any{f.Name, c.ty(f.Type)})
				}
			}
			if fs == nil {
				fs = []any{}
			}
			c.structs[name] = fs
			c.noteNamed(t, out, "struct")
		}
		return out
	case c12IsBasicKind(t.Kind()):
		if t.PkgPath() == "" {
			return map[string]any{"k": "basic", "n": t.Kind().String()}
		}
		out := map[string]any{"k": "named", "n": t.String(), "u": t.Kind().String()}
		c.noteNamed(t, out, t.Kind().String())
		return out
	}
	return map[string]any{"k": "basic", "n": "unsupported-" + t.Kind().String()}
}

func (c *c12Ctx) noteNamed(t reflect.Type, tj map[string]any, kind string) {
	if key, ok := c12RegNames[t]; ok {
		c.reg[key] = tj
	} else if c12IsRegistered(t) { // one of eino's own registrations (Expected tables): tell the model its kind
		c.kinds[t.String()] = kind
	} else {
		c.unreg[t.String()] = true
		c12UnregSeen[t.String()] = true
	}
}

// defined types met (statically, through field/element types) that are not in the registry
var c12UnregSeen = map[string]bool{}

// leaf payload: the JSON text encoding/json produces (what the encoder stores in JSONValue)
func c12Payload(v reflect.Value) string {
	b, err := json.Marshal(v.Interface())
	if err != nil {
		return "!unenc"
	}
	return c12CanonNum(string(b))
}

// c12CanonNum: the sign of a floating-point zero is not part of "deeply equal" (reflect.DeepEqual
// compares floats with ==); -0 is generated and exercised but compared as 0.
func c12CanonNum(s string) string {
	if s == "-0" {
		return "0"
	}
	return s
}

// map key payload: sonic.MarshalString, as the encoder does
func c12KeyPayload(v reflect.Value) string {
	s, err := sonic.MarshalString(v.Interface())
	if err != nil {
		return "!unenc"
	}
	return c12CanonNum(s)
}

type c12Stats struct {
	nodes, maxPtr, nilPtrs, nilInChain, ptrToContainer, nilPtrToContainer, ifaceVals, ifaceNil, maxDepth int
	bigInt, negZero, unenc, escapes, mapEntries, sliceElems, structs, unregTypes, nestedContainer        int
	badUTF8                                                                                              bool
	sharedOcc                                                                                            int // pointer occurrences whose pointer was met before in the same value
	structKeys, ptrKeys, unregNamed                                                                      int // map entries with a struct / pointer key; leaves of an unregistered defined basic type
}

// noteElem: the encoder has to name the base type of a container element / nil pointer target.
func (st *c12Stats) noteElem(t reflect.Type) {
	for t.Kind() == reflect.Ptr {
		t = t.Elem()
	}
	switch {
	case t.Kind() == reflect.Slice || t.Kind() == reflect.Map:
		if !c12IsRegistered(t) {
			st.nestedContainer++
		}
	case t.Kind() == reflect.Interface:
	case t.PkgPath() != "" || t.Kind() == reflect.Struct:
		if !c12IsRegistered(t) {
			st.unregTypes++
		}
	}
}

// val renders a value as the model's GoVal. chain = number of pointer levels directly above.
func (c *c12Ctx) val(v reflect.Value, st *c12Stats, depth, chain int) any {
	st.nodes++
	if depth > st.maxDepth {
		st.maxDepth = depth
	}
	t := v.Type()
	switch t.Kind() {
	case reflect.Interface:
		if v.IsNil() {
			st.ifaceNil++
			return map[string]any{"k": "inil"}
		}
		st.ifaceVals++
		return c.val(v.Elem(), st, depth, 0)
	case reflect.Ptr:
		if chain+1 > st.maxPtr {
			st.maxPtr = chain + 1
		}
		if v.IsNil() {
			st.nilPtrs++
			base := t.Elem()
			lv := 0
			for base.Kind() == reflect.Ptr {
				base = base.Elem()
				lv++
			}
			if chain > 0 || lv > 0 {
				st.nilInChain++
			}
			if base.Kind() == reflect.Slice || base.Kind() == reflect.Map {
				st.nilPtrToContainer++
			} else {
				st.noteElem(base)
			}
			return map[string]any{"k": "nilptr", "t": c.ty(t.Elem())}
		}
		if k := t.Elem().Kind(); k == reflect.Slice || k == reflect.Map {
			st.ptrToContainer++
		}
		seen := len(c.addr)
		a := c.label(v)
		if a <= seen && v.Type().Elem().Size() > 0 { // met before (zero-size pointees have no identity: &struct{}{})
			st.sharedOcc++
		}
		return map[string]any{"k": "ptr", "a": a, "v": c.val(v.Elem(), st, depth+1, chain+1)}
	case reflect.Slice:
		st.noteElem(t.Elem())
		vs := []any{}
		for i := 0; i < v.Len(); i++ {
			st.sliceElems++
			vs = append(vs, c.val(v.Index(i), st, depth+1, 0))
		}
		return map[string]any{"k": "slice", "t": c.ty(t.Elem()), "nil": v.IsNil(), "vs": vs}
	case reflect.Map:
		type kv struct {
			k string
			v any
		}
		var kvs []kv
		st.noteElem(t.Key())
		st.noteElem(t.Elem())
		it := v.MapRange()
		for it.Next() {
			st.mapEntries++
			switch t.Key().Kind() {
			case reflect.Struct:
				st.structKeys++
			case reflect.Ptr:
				st.ptrKeys++
			}
			kvs = append(kvs, kv{c12KeyPayload(it.Key()), c.val(it.Value(), st, depth+1, 0)})
		}
		sort.Slice(kvs, func(i, j int) bool { return kvs[i].k < kvs[j].k })
		out := []any{}
		for _, e := range kvs {
			out = append(out, []any{e.k, e.v})
		}
		return map[string]any{"k": "map", "kt": c.ty(t.Key()), "vt": c.ty(t.Elem()), "nil": v.IsNil(), "kvs": out}
	case reflect.Struct:
		st.structs++
		st.noteElem(t)
		c.ty(t) // records the declaration and the registration
		fs := []any{}
		for i := 0; i < t.NumField(); i++ {
			if f := t.Field(i); f.PkgPath == "" {
				fs = append(fs, []any{f.Name, c.val(v.Field(i), st, depth+1, 0)})
			}
		}
		return map[string]any{"k": "struct", "n": t.String(), "fs": fs}
	}
	p := c12Payload(v)
	st.noteElem(t)
	if t.PkgPath() != "" && !c12IsRegistered(t) {
		st.unregNamed++
	}
	switch t.Kind() {
	case reflect.Int, reflect.Int64:
		if i := v.Int(); i > 1<<53 || i < -(1<<53) {
			st.bigInt++
		}
	case reflect.Uint, reflect.Uint64, reflect.Uintptr:
		if v.Uint() > 1<<53 {
			st.bigInt++
		}
	case reflect.Float32, reflect.Float64:
		if f := v.Float(); f == 0 && math.Signbit(f) {
			st.negZero++
		}
	case reflect.String:
		if strings.ContainsAny(v.String(), "\"\\\n\t<>&\x00 ") {
			st.escapes++
		}
		if !utf8.ValidString(v.String()) {
			st.badUTF8 = true
		}
	}
	if strings.HasPrefix(p, "!") {
		st.unenc++
	}
	return map[string]any{"k": "basic", "t": c.ty(t), "p": p}
}

func (c *c12Ctx) fill(m map[string]any) {
	var reg, kinds, structs []any
	for _, k := range c12SortedKeys(c.reg) {
		reg = append(reg, []any{k, c.reg[k]})
	}
	ks := make([]string, 0, len(c.kinds))
	for k := range c.kinds {
		ks = append(ks, k)
	}
	sort.Strings(ks)
	for _, k := range ks {
		kinds = append(kinds, []any{k, c.kinds[k]})
	}
	for _, k := range c12SortedKeys(c.structs) {
		structs = append(structs, []any{k, c.structs[k]})
	}
	m["reg"], m["kinds"], m["structs"] = c12OrEmpty(reg), c12OrEmpty(kinds), c12OrEmpty(structs)
}

func c12OrEmpty(a []any) []any {
	if a == nil {
		return []any{}
	}
	return a
}

func c12SortedKeys(m map[string]any) []string {
	ks := make([]string, 0, len(m))
	for k := range m {
		ks = append(ks, k)
	}
	sort.Strings(ks)
	return ks
}

// ---- canonical rendering of a (decoded) Go value: same shape as the model's renderVal ----

func c12TyStr(t reflect.Type) string { return t.String() }

func c12Render(v reflect.Value) any {
	t := v.Type()
	switch t.Kind() {
	case reflect.Interface:
		if v.IsNil() {
			return []any{"inil"}
		}
		return c12Render(v.Elem())
	case reflect.Ptr:
		if v.IsNil() {
			return []any{"nilptr", c12TyStr(t.Elem())}
		}
		return []any{"ptr", c12Render(v.Elem())}
	case reflect.Slice:
		vs := []any{}
		for i := 0; i < v.Len(); i++ {
			vs = append(vs, c12Render(v.Index(i)))
		}
		return []any{"slice", c12TyStr(t.Elem()), vs}
	case reflect.Map:
		type kv struct {
			k string
			v any
		}
		var kvs []kv
		it := v.MapRange()
		for it.Next() {
			kvs = append(kvs, kv{c12KeyPayload(it.Key()), c12Render(it.Value())})
		}
		sort.Slice(kvs, func(i, j int) bool { return kvs[i].k < kvs[j].k })
		out := []any{}
		for _, e := range kvs {
			out = append(out, []any{e.k, e.v})
		}
		return []any{"map", c12TyStr(t.Key()), c12TyStr(t.Elem()), out}
	case reflect.Struct:
		fs := []any{}
		for i := 0; i < t.NumField(); i++ {
			if f := t.Field(i); f.PkgPath == "" {
				fs = append(fs, []any{f.Name, c12Render(v.Field(i))})
			}
		}
		return []any{"struct", t.String(), fs}
	}
	return []any{"b", c12TyStr(t), c12Payload(v)}
}

// ---- the direct property check: deep equality modulo nil/empty, identical dynamic types ----

func c12DeepEq(a, b reflect.Value) (bool, string) {
	if a.IsValid() != b.IsValid() {
		return false, "one side invalid"
	}
	if !a.IsValid() {
		return true, ""
	}
	if a.Type() != b.Type() {
		return false, fmt.Sprintf("type %s vs %s", a.Type(), b.Type())
	}
	switch a.Kind() {
	case reflect.Interface:
		if a.IsNil() || b.IsNil() {
			if a.IsNil() != b.IsNil() {
				return false, "nil interface vs value"
			}
			return true, ""
		}
		return c12DeepEq(a.Elem(), b.Elem())
	case reflect.Ptr:
		if a.IsNil() || b.IsNil() {
			if a.IsNil() != b.IsNil() {
				return false, fmt.Sprintf("nil %s vs non-nil", a.Type())
			}
			return true, ""
		}
		return c12DeepEq(a.Elem(), b.Elem())
	case reflect.Slice:
		if a.Len() != b.Len() {
			return false, fmt.Sprintf("%s length %d vs %d", a.Type(), a.Len(), b.Len())
		}
		for i := 0; i < a.Len(); i++ {
			if ok, why := c12DeepEq(a.Index(i), b.Index(i)); !ok {
				return false, why
			}
		}
		return true, ""
	case reflect.Map:
		if a.Len() != b.Len() {
			return false, fmt.Sprintf("%s size %d vs %d", a.Type(), a.Len(), b.Len())
		}
		if a.Type().Key().Kind() == reflect.Ptr {
			return c12PtrKeyedEq(a, b)
		}
		it := a.MapRange()
		for it.Next() {
			bv := b.MapIndex(it.Key())
			if !bv.IsValid() {
				return false, fmt.Sprintf("%s key %v missing", a.Type(), it.Key())
			}
			if ok, why := c12DeepEq(it.Value(), bv); !ok {
				return false, why
			}
		}
		return true, ""
	case reflect.Struct:
		for i := 0; i < a.NumField(); i++ {
			if ok, why := c12DeepEq(a.Field(i), b.Field(i)); !ok {
				return false, a.Type().Field(i).Name + ": " + why
			}
		}
		return true, ""
	case reflect.Float32, reflect.Float64:
		if a.Float() != b.Float() {
			return false, fmt.Sprintf("%s %v vs %v", a.Type(), a.Float(), b.Float())
		}
		return true, ""
	case reflect.Bool:
		return a.Bool() == b.Bool(), "bool differs"
	case reflect.Int, reflect.Int8, reflect.Int16, reflect.Int32, reflect.Int64:
		return a.Int() == b.Int(), fmt.Sprintf("%s %d vs %d", a.Type(), a.Int(), b.Int())
	case reflect.Uint, reflect.Uint8, reflect.Uint16, reflect.Uint32, reflect.Uint64, reflect.Uintptr:
		return a.Uint() == b.Uint(), fmt.Sprintf("%s %d vs %d", a.Type(), a.Uint(), b.Uint())
	case reflect.String:
		return a.String() == b.String(), fmt.Sprintf("%s %q vs %q", a.Type(), a.String(), b.String())
	case reflect.Complex64, reflect.Complex128:
		return a.Complex() == b.Complex(), "complex differs"
	}
	return false, "unsupported kind " + a.Kind().String()
}
