//go:build verif && (vh_all || vh_c01)

package props

// C01, last clause: "A chain is sequential function composition of its stages, with parallel
// stages merged by key". Random chain programs are built with the real compose.NewChain API
// (AppendLambda with the four lambda kinds, AppendPassthrough, AppendParallel, AppendBranch,
// AppendGraph with a nested gcase graph or a nested chain), invoked (thorough: also streamed),
// and the result / error class / error node path compared with the Lean model: the engine run
// of the lowered graph (lean/EinoV/Model/C01Chain.lean `lower`) and `Chain.sem`.

import (
	"context"
	"encoding/json"
	"errors"
	"fmt"
	"io"
	"sort"
	"strings"
	"time"

	"github.com/cloudwego/eino/compose"
	"github.com/cloudwego/eino/schema"
	"github.com/cloudwego/eino/verifharness/gcase"
	"github.com/cloudwego/eino/verifharness/vh"
)

func init() {
	c01Extra = append(c01Extra, runC01Chain)
	c01ReplayExtra["chain"] = func(ctx *vh.Ctx, raw json.RawMessage) error {
		var c c01cCase
		if err := json.Unmarshal(raw, &c); err != nil {
			return err
		}
		return c01cCheck(ctx, []*c01cCase{&c})
	}
}

type c01cM = map[string]any

type c01cBody struct {
	Op   string       `json:"op"` // tag | pass | fail | graph | chain
	Name string       `json:"name,omitempty"`
	ID   int          `json:"id,omitempty"`
	G    *gcase.Graph `json:"g,omitempty"`
	C    *c01cChain   `json:"c,omitempty"`
	Kind string       `json:"kind,omitempty"` // lambda kind i|s|c|t (implementation side only)
}

type c01cSub struct {
	K    string   `json:"k"`
	Body c01cBody `json:"body"`
	// OptKey: a WithOutputKey option among the options the caller passes for this member (a reused
	// option list); the member's output is still merged under the parallel key K (implementation side
	// only — the model knows no such option)
	OptKey string `json:"optKey,omitempty"`
}

type c01cStage struct {
	T     string    `json:"t"` // lambda | pass | par | br
	Body  *c01cBody `json:"body,omitempty"`
	Subs  []c01cSub `json:"subs,omitempty"`
	Table []string  `json:"table,omitempty"`
	Fail  *int      `json:"fail,omitempty"`
}

type c01cChain struct {
	Stages []c01cStage `json:"stages"`
}

type c01cCase struct {
	Kind  string     `json:"kind"` // "chain"
	Input string     `json:"input"`
	Mode  string     `json:"mode,omitempty"` // invoke (default) | stream (implementation side only)
	C     *c01cChain `json:"c"`
}

// ---------- values ----------

func c01cRender(v any) string {
	switch x := v.(type) {
	case string:
		return x
	case map[string]any:
		keys := make([]string, 0, len(x))
		for k := range x {
			keys = append(keys, k)
		}
		sort.Strings(keys)
		var sb strings.Builder
		sb.WriteString("{")
		for _, k := range keys {
			sb.WriteString(k)
			sb.WriteString("=")
			sb.WriteString(c01cRender(x[k]))
			sb.WriteString(";")
		}
		sb.WriteString("}")
		return sb.String()
	default:
		return fmt.Sprintf("<%T:%v>", v, v)
	}
}

func c01cTag(name string, in c01cM) c01cM {
	return c01cM{name: gcase.Hex32(gcase.Fnv32(c01cRender(in) + "#" + name))}
}

type c01cDupErr struct{ key string }

func (e *c01cDupErr) Error() string { return "harness: chunk union saw key twice: " + e.key }

// union of the chunks of a stream of maps (what concatenating them means when every key is
// produced by one parallel member; nested maps under the same key are united recursively)
func c01cUnion(dst, src c01cM) error {
	for k, v := range src {
		old, ok := dst[k]
		if !ok {
			dst[k] = v
			continue
		}
		om, ok1 := old.(map[string]any)
		nm, ok2 := v.(map[string]any)
		if !ok1 || !ok2 {
			return &c01cDupErr{key: k}
		}
		cp := c01cM{}
		for a, b := range om {
			cp[a] = b
		}
		if err := c01cUnion(cp, nm); err != nil {
			return err
		}
		dst[k] = cp
	}
	return nil
}

func c01cDrain(sr *schema.StreamReader[c01cM]) (c01cM, error) {
	defer sr.Close()
	out := c01cM{}
	n := 0
	for {
		c, err := sr.Recv()
		if errors.Is(err, io.EOF) {
			break
		}
		if err != nil {
			return nil, err
		}
		n++
		if err := c01cUnion(out, c); err != nil {
			return nil, err
		}
	}
	if n == 0 {
		return nil, fmt.Errorf("harness: empty stream")
	}
	return out, nil
}

// ---------- building with the real API ----------

func c01cLambda(b *c01cBody) *compose.Lambda {
	f := func(ctx context.Context, in c01cM) (c01cM, error) {
		switch b.Op {
		case "fail":
			return nil, &gcase.UserErr{ID: b.ID}
		case "pass":
			return in, nil
		default:
			return c01cTag(b.Name, in), nil
		}
	}
	switch b.Kind {
	case "s":
		return compose.StreamableLambda(func(ctx context.Context, in c01cM) (*schema.StreamReader[c01cM], error) {
			out, err := f(ctx, in)
			if err != nil {
				return nil, err
			}
			return schema.StreamReaderFromArray([]c01cM{out}), nil
		})
	case "c":
		return compose.CollectableLambda(func(ctx context.Context, sr *schema.StreamReader[c01cM]) (c01cM, error) {
			in, err := c01cDrain(sr)
			if err != nil {
				return nil, err
			}
			return f(ctx, in)
		})
	case "t":
		return compose.TransformableLambda(func(ctx context.Context, sr *schema.StreamReader[c01cM]) (*schema.StreamReader[c01cM], error) {
			in, err := c01cDrain(sr)
			if err != nil {
				return nil, err
			}
			out, err := f(ctx, in)
			if err != nil {
				return nil, err
			}
			return schema.StreamReaderFromArray([]c01cM{out}), nil
		})
	}
	return compose.InvokableLambda(f)
}

// nested graph body: flat values in, flat values out (the gcase value universe)
func c01cNested(b *c01cBody, path string) (compose.AnyGraph, []compose.GraphAddNodeOpt, error) {
	switch b.Op {
	case "graph":
		g, err := gcase.Build(b.G, path, nil)
		if err != nil {
			return nil, nil, err
		}
		return g, []compose.GraphAddNodeOpt{compose.WithGraphCompileOptions(gcase.CompileOpts(b.G)...)}, nil
	case "chain":
		ch := c01cBuild(b.C, path)
		return ch, nil, nil
	}
	return nil, nil, fmt.Errorf("harness: not a nested body")
}

// c01cObj is one builder object of the compose API made from a stage description: what an
// Append* call is handed (a *compose.Lambda, an AnyGraph, a *compose.Parallel, a *compose.ChainBranch).
// The chain family makes one per Append* call; the share family (c01_share.go) hands the same
// object to several Append* calls.
type c01cObj struct {
	t      string // lambda | graph | bad | pass | par | br
	lambda *compose.Lambda
	g      compose.AnyGraph
	gopts  []compose.GraphAddNodeOpt
	par    *compose.Parallel
	br     *compose.ChainBranch
}

func c01cMake(st *c01cStage, sp string) *c01cObj {
	switch st.T {
	case "lambda":
		b := st.Body
		if b.Op == "graph" || b.Op == "chain" {
			g, opts, err := c01cNested(b, sp)
			if err != nil {
				// cannot happen for generated cases (nested graphs are pre-checked); make Compile fail
				return &c01cObj{t: "bad"}
			}
			return &c01cObj{t: "graph", g: g, gopts: opts}
		}
		return &c01cObj{t: "lambda", lambda: c01cLambda(b)}
	case "pass":
		return &c01cObj{t: "pass"}
	case "par":
		p := compose.NewParallel()
		for j := range st.Subs {
			s := &st.Subs[j]
			switch s.Body.Op {
			case "graph", "chain":
				g, opts, err := c01cNested(&s.Body, sp+"/"+s.K)
				if err != nil {
					p.AddGraph(s.K, nil)
					continue
				}
				p.AddGraph(s.K, g, opts...)
			case "pass":
				if s.Body.Kind == "" {
					p.AddPassthrough(s.K)
				} else {
					p.AddLambda(s.K, c01cLambda(&s.Body))
				}
			default:
				if s.OptKey != "" {
					p.AddLambda(s.K, c01cLambda(&s.Body), compose.WithOutputKey(s.OptKey))
				} else {
					p.AddLambda(s.K, c01cLambda(&s.Body))
				}
			}
		}
		return &c01cObj{t: "par", par: p}
	case "br":
		table, fail := st.Table, st.Fail
		cb := compose.NewChainBranch(func(ctx context.Context, in c01cM) (string, error) {
			if fail != nil {
				return "", &gcase.BranchErr{ID: *fail}
			}
			if len(table) == 0 {
				return "", nil
			}
			return table[int(gcase.Fnv32(c01cRender(in))%uint32(len(table)))], nil
		})
		for j := range st.Subs {
			s := &st.Subs[j]
			switch s.Body.Op {
			case "graph", "chain":
				g, opts, err := c01cNested(&s.Body, sp+"/"+s.K)
				if err != nil {
					cb.AddGraph(s.K, nil)
					continue
				}
				cb.AddGraph(s.K, g, opts...)
			case "pass":
				if s.Body.Kind == "" {
					cb.AddPassthrough(s.K)
				} else {
					cb.AddLambda(s.K, c01cLambda(&s.Body))
				}
			default:
				cb.AddLambda(s.K, c01cLambda(&s.Body))
			}
		}
		return &c01cObj{t: "br", br: cb}
	}
	return &c01cObj{t: "bad"}
}

func c01cAppend(ch *compose.Chain[c01cM, c01cM], o *c01cObj) {
	switch o.t {
	case "lambda":
		ch.AppendLambda(o.lambda)
	case "graph":
		ch.AppendGraph(o.g, o.gopts...)
	case "pass":
		ch.AppendPassthrough()
	case "par":
		ch.AppendParallel(o.par)
	case "br":
		ch.AppendBranch(o.br)
	default:
		ch.AppendParallel(nil)
	}
}

// c01cBuild issues the Append* calls; chain.go keeps the first error until Compile.
func c01cBuild(c *c01cChain, path string) *compose.Chain[c01cM, c01cM] {
	ch := compose.NewChain[c01cM, c01cM]()
	for i := range c.Stages {
		c01cAppend(ch, c01cMake(&c.Stages[i], fmt.Sprintf("%s/s%d", path, i)))
	}
	return ch
}

// ---------- running ----------

type c01cOut struct {
	Class  string        `json:"class"` // ran | compile-error | panic | hang
	Detail string        `json:"detail,omitempty"`
	Result gcase.ResultJ `json:"result"`
}

func c01cClassify(err error) gcase.ResultJ {
	r := gcase.Classify(err)
	if r.Err != nil && strings.HasPrefix(r.Err.C, "other:") && strings.Contains(err.Error(), "returns unintended end node") {
		r.Err = &gcase.ErrJ{C: "badBranchEnd"}
	}
	return r
}

func c01cRun(c *c01cCase) *c01cOut {
	ctx := context.Background()
	out := &c01cOut{}
	var r compose.Runnable[c01cM, c01cM]
	var cerr error
	if panicked, pv := vh.Safely(func() {
		ch := c01cBuild(c.C, "")
		r, cerr = ch.Compile(ctx)
	}); panicked {
		out.Class, out.Detail = "panic", fmt.Sprint("build/compile: ", pv)
		return out
	}
	if cerr != nil {
		out.Class, out.Detail = "compile-error", cerr.Error()
		return out
	}
	var res c01cM
	var runErr error
	finished := false
	if panicked, pv := vh.Safely(func() {
		finished = vh.WithTimeout(20*time.Second, func() {
			in := c01cM{"in": c.Input}
			if c.Mode == "stream" {
				var sr *schema.StreamReader[c01cM]
				sr, runErr = r.Stream(ctx, in)
				if runErr == nil {
					res, runErr = c01cDrain(sr)
				}
			} else {
				res, runErr = r.Invoke(ctx, in)
			}
		})
	}); panicked {
		out.Class, out.Detail = "panic", fmt.Sprint(pv)
		return out
	}
	if !finished {
		out.Class = "hang"
		return out
	}
	out.Class = "ran"
	if runErr != nil {
		var de *c01cDupErr
		if errors.As(runErr, &de) {
			out.Class, out.Detail = "dup-chunk-key", runErr.Error()
			return out
		}
		out.Result = c01cClassify(runErr)
	} else {
		s := c01cRender(res)
		out.Result = gcase.ResultJ{Ok: &s}
	}
	return out
}

type c01cModel struct {
	WF     bool            `json:"wf"`
	Keys   []string        `json:"keys"`
	Steps  int             `json:"steps"`
	Result gcase.ResultJ   `json:"result"`
	Sem    gcase.ResultJ   `json:"sem"`
	Alts   []gcase.ResultJ `json:"alts"`
}

func c01cNorm(r gcase.ResultJ) gcase.ResultJ {
	if r.Err != nil && r.Path == nil {
		r.Path = []string{}
	}
	return r
}

func c01cMatches(m *c01cModel, impl gcase.ResultJ) bool {
	impl = c01cNorm(impl)
	if vh.CanonEq(impl, c01cNorm(m.Result)) {
		return true
	}
	for _, a := range m.Alts {
		if vh.CanonEq(impl, c01cNorm(a)) {
			return true
		}
	}
	return false
}

// every nested gcase graph of the case compiles on its own (otherwise a compile error of the
// chain says nothing about the chain)
func c01cNestedCompile(c *c01cChain) bool {
	ok := true
	var body func(b *c01cBody)
	body = func(b *c01cBody) {
		switch b.Op {
		case "graph":
			g, err := gcase.Build(b.G, "", nil)
			if err != nil {
				ok = false
				return
			}
			if _, err := g.Compile(context.Background(), gcase.CompileOpts(b.G)...); err != nil {
				ok = false
			}
		case "chain":
			if !c01cNestedCompile(b.C) {
				ok = false
			}
		}
	}
	for i := range c.Stages {
		if c.Stages[i].Body != nil {
			body(c.Stages[i].Body)
		}
		for j := range c.Stages[i].Subs {
			body(&c.Stages[i].Subs[j].Body)
		}
	}
	return ok
}

func c01cShape(c *c01cChain, depth int, f func(kind string)) {
	for i := range c.Stages {
		st := &c.Stages[i]
		f("stage=" + st.T)
		bodies := []*c01cBody{}
		if st.Body != nil {
			bodies = append(bodies, st.Body)
		}
		for j := range st.Subs {
			bodies = append(bodies, &st.Subs[j].Body)
		}
		for _, b := range bodies {
			f("body=" + b.Op)
			if b.Kind != "" {
				f("lambda-kind=" + b.Kind)
			}
			if b.Op == "chain" {
				f("nested-chain")
				c01cShape(b.C, depth+1, f)
			}
		}
	}
}

// c01cJudge compares one case; returns the signature of the disagreement ("" = agree).
func c01cJudge(c *c01cCase, impl *c01cOut, m *c01cModel) (sig, what string) {
	mode := c.Mode
	if mode == "" {
		mode = "invoke"
	}
	// the two model answers: the theorem chain_is_composition, checked on the glue as well
	if m.WF && !vh.CanonEq(c01cNorm(m.Result), c01cNorm(m.Sem)) {
		return "C01:chain:model-engine-vs-sem", "engine run of the lowered graph differs from Chain.sem (oracle glue or theorem hypotheses)"
	}
	if m.WF && m.Result.Err != nil {
		in := false
		for _, a := range m.Alts {
			in = in || vh.CanonEq(c01cNorm(a), c01cNorm(m.Result))
		}
		if !in {
			return "C01:chain:model-alts", "the model's set of possible errors does not contain the error of its own in-order run (oracle glue)"
		}
	}
	switch impl.Class {
	case "panic", "hang", "dup-chunk-key":
		return "C01:chain:" + impl.Class + ":" + mode, "chain run " + impl.Class + ": " + impl.Detail
	case "compile-error":
		if m.WF && c01cNestedCompile(c.C) {
			return "C01:chain:rejected-wellformed", "Compile rejects a chain the model considers well-formed: " + impl.Detail
		}
		return "", ""
	}
	if !m.WF {
		return "C01:chain:accepted-illformed", "Compile accepts a chain the model considers ill-formed"
	}
	if !c01cMatches(m, impl.Result) {
		k := "value"
		if impl.Result.Err != nil || m.Result.Err != nil {
			k = "error"
		}
		return "C01:chain:result:" + k + ":" + mode, "result of the compiled chain differs from the composition of its stages"
	}
	return "", ""
}

func c01cAsk(ctx *vh.Ctx, cs []*c01cCase) ([]*c01cModel, error) {
	qs := make([]any, len(cs))
	for i, c := range cs {
		qs[i] = c
	}
	raws, err := ctx.Oracle.AskBatch("C01", qs)
	if err != nil {
		return nil, err
	}
	ms := make([]*c01cModel, len(cs))
	for i, raw := range raws {
		var m c01cModel
		if err := json.Unmarshal(raw, &m); err != nil {
			return nil, err
		}
		ms[i] = &m
	}
	return ms, nil
}

// cheap shrink: drop stages / members while the same signature persists
func c01cShrink(ctx *vh.Ctx, c *c01cCase, sig string) *c01cCase {
	still := func(cand *c01cCase) bool {
		ms, err := c01cAsk(ctx, []*c01cCase{cand})
		if err != nil {
			return false
		}
		s, _ := c01cJudge(cand, c01cRun(cand), ms[0])
		return s == sig
	}
	clone := func(x *c01cCase) *c01cCase {
		b, _ := json.Marshal(x)
		var y c01cCase
		json.Unmarshal(b, &y)
		return &y
	}
	cur := c
	for changed, rounds := true, 0; changed && rounds < 6; rounds++ {
		changed = false
		for i := 0; i < len(cur.C.Stages); i++ {
			cand := clone(cur)
			cand.C.Stages = append(cand.C.Stages[:i], cand.C.Stages[i+1:]...)
			if len(cand.C.Stages) > 0 && still(cand) {
				cur, changed = cand, true
				i--
			}
		}
		for i := range cur.C.Stages {
			for j := 0; len(cur.C.Stages[i].Subs) > 2 && j < len(cur.C.Stages[i].Subs); j++ {
				cand := clone(cur)
				s := cand.C.Stages[i].Subs
				cand.C.Stages[i].Subs = append(s[:j], s[j+1:]...)
				if still(cand) {
					cur, changed = cand, true
					j--
				}
			}
		}
	}
	return cur
}

func c01cCheck(ctx *vh.Ctx, cs []*c01cCase) error {
	impls := make([]*c01cOut, len(cs))
	for i, c := range cs {
		ctx.Progress.Mark(c)
		impls[i] = c01cRun(c)
	}
	ms, err := c01cAsk(ctx, cs)
	if err != nil {
		return err
	}
	for i, c := range cs {
		impl, m := impls[i], ms[i]
		feats := map[string]bool{}
		c01cShape(c.C, 0, func(k string) { feats[k] = true })
		for k := range feats {
			ctx.Res.Dist("chain:" + k)
		}
		ctx.Res.Dist(fmt.Sprintf("chain:stages=%d", min(len(c.C.Stages), 8)))
		if c.Mode == "stream" {
			ctx.Res.Dist("chain:mode=stream")
		}
		ctx.Res.Dist("chain:class=" + impl.Class)
		if impl.Class == "ran" {
			if impl.Result.Err != nil {
				cl := impl.Result.Err.C
				if len(cl) > 14 {
					cl = cl[:14]
				}
				ctx.Res.Dist("chain:result=" + cl)
			} else {
				ctx.Res.Dist("chain:result=ok")
			}
		}
		nontrivial := impl.Class == "ran" && len(c.C.Stages) >= 2 &&
			(feats["stage=par"] || feats["stage=br"] || feats["body=graph"] || feats["body=chain"])
		if impl.Class == "compile-error" {
			ctx.Res.Count("chain-not-compiled", false)
		} else {
			ctx.Res.Count(vh.Canon(c), nontrivial)
		}
		if i < 2 {
			ctx.Res.Sample(c)
		}
		sig, what := c01cJudge(c, impl, m)
		if sig == "" {
			continue
		}
		small := c
		if ctx.Replay == nil {
			small = c01cShrink(ctx, c, sig)
		}
		sms, err := c01cAsk(ctx, []*c01cCase{small})
		if err != nil {
			return err
		}
		ctx.Res.Disagree(vh.Disagreement{Signature: sig, What: what, Case: small, Model: sms[0], Impl: c01cRun(small)})
	}
	return nil
}

// ---------- generator ----------

type c01cGen struct {
	r       *vh.Rand
	name    int
	thor    bool
	noGraph bool // stream mode: no nested gcase graphs (their value-mode merge errors have no stream counterpart: C04's business)
}

func (g *c01cGen) kind() string {
	if g.r.Chance(55) {
		return ""
	}
	return []string{"i", "s", "c", "t"}[g.r.Intn(4)]
}

// body for a position whose input is flat (string values only) iff flat
func (g *c01cGen) body(flat bool, depth int, allowFail bool) c01cBody {
	g.name++
	switch {
	case allowFail && g.r.Chance(4):
		return c01cBody{Op: "fail", ID: g.r.Range(1, 9), Kind: g.kind()}
	case g.r.Chance(8):
		return c01cBody{Op: "pass", Kind: g.kind()}
	case flat && depth > 0 && !g.noGraph && g.r.Chance(10):
		for try := 0; try < 4; try++ {
			gg := gcase.Gen(g.r, gcase.GenOpts{Mode: "mixed", MaxNodes: 3, Depth: 1, Cycles: true, FailPct: 0, BranchPct: 20})
			if cg, err := gcase.Build(gg, "", nil); err == nil {
				if _, err := cg.Compile(context.Background(), gcase.CompileOpts(gg)...); err == nil {
					return c01cBody{Op: "graph", G: gg}
				}
			}
		}
	case depth > 0 && g.r.Chance(10):
		return c01cBody{Op: "chain", C: g.chain(depth-1, 3, false, flat)}
	}
	return c01cBody{Op: "tag", Name: fmt.Sprintf("t%d", g.name), Kind: g.kind()}
}

// outFlat: is the output of a body flat, given a flat/non-flat input
func c01cBodyFlat(b *c01cBody, inFlat bool) bool {
	switch b.Op {
	case "tag":
		return true
	case "pass":
		return inFlat
	case "graph":
		return true
	case "chain":
		return c01cChainFlat(b.C, inFlat)
	}
	return true
}

func c01cChainFlat(c *c01cChain, flat bool) bool {
	for i := range c.Stages {
		st := &c.Stages[i]
		switch st.T {
		case "lambda":
			flat = c01cBodyFlat(st.Body, flat)
		case "par":
			flat = false
		case "br":
			f := true
			for j := range st.Subs {
				f = f && c01cBodyFlat(&st.Subs[j].Body, flat)
			}
			flat = f
		}
	}
	return flat
}

func (g *c01cGen) subs(n int, flat bool, depth int, failAtMostOne bool) []c01cSub {
	subs := []c01cSub{}
	failed := false
	for j := 0; j < n; j++ {
		b := g.body(flat, depth, !(failAtMostOne && failed))
		if b.Op == "fail" {
			failed = true
		}
		sub := c01cSub{K: fmt.Sprintf("k%d", j), Body: b}
		if b.Op != "graph" && b.Op != "chain" && b.Op != "pass" && g.r.Chance(15) {
			sub.OptKey = []string{"k0", "k1", "shared", "o" + fmt.Sprint(j)}[g.r.Intn(4)]
		}
		subs = append(subs, sub)
	}
	return subs
}

// chain generates a mostly legal chain; malformed=true breaks one chain.go rule on purpose.
func (g *c01cGen) chain(depth, maxStages int, malformed bool, flat bool) *c01cChain {
	c := &c01cChain{Stages: []c01cStage{}}
	n := g.r.Range(1, maxStages)
	prevMulti := false
	breakAt := -1
	if malformed {
		breakAt = g.r.Intn(n)
	}
	for i := 0; i < n; i++ {
		p := g.r.Intn(100)
		switch {
		case p < 22 && (!prevMulti || i == breakAt):
			st := c01cStage{T: "par", Subs: g.subs(g.r.Range(2, 4), flat, depth, depth < 2)}
			if i == breakAt {
				switch g.r.Intn(3) {
				case 0:
					st.Subs = st.Subs[:1]
				case 1:
					st.Subs[1].K = st.Subs[0].K
				}
			}
			c.Stages = append(c.Stages, st)
			flat, prevMulti = false, true
		case p < 42 && (!prevMulti || i == breakAt):
			st := c01cStage{T: "br", Subs: g.subs(g.r.Range(2, 3), flat, depth, false)}
			rows := g.r.Range(1, 4)
			for k := 0; k < rows; k++ {
				st.Table = append(st.Table, st.Subs[g.r.Intn(len(st.Subs))].K)
			}
			if g.r.Chance(4) {
				st.Table = append(st.Table, "nokey")
			}
			if g.r.Chance(3) {
				id := g.r.Range(1, 9)
				st.Fail = &id
			}
			if i == breakAt && g.r.Chance(50) {
				st.Subs = st.Subs[:1]
			}
			f := true
			for j := range st.Subs {
				f = f && c01cBodyFlat(&st.Subs[j].Body, flat)
			}
			c.Stages = append(c.Stages, st)
			flat, prevMulti = f, true
		case p < 52:
			c.Stages = append(c.Stages, c01cStage{T: "pass"})
			prevMulti = false
		default:
			b := g.body(flat, depth, true)
			c.Stages = append(c.Stages, c01cStage{T: "lambda", Body: &b})
			flat, prevMulti = c01cBodyFlat(&b, flat), false
		}
	}
	if malformed && g.r.Chance(15) {
		c.Stages = []c01cStage{}
	}
	return c
}

func runC01Chain(ctx *vh.Ctx) error {
	ctx.Res.Rule += " || chain family: random chain programs built with compose.NewChain (1-7 stages: lambda of the four kinds / passthrough / parallel with 2-4 keyed members / branch with 2-3 keyed members scripted by a table on hash(input), incl. failing conditions and unknown keys / nested gcase graph / nested chain; failing bodies; ~6% malformed on purpose: counted when Compile rejects them); Invoke (thorough: also Stream); non-trivial = ran, >=2 stages and (parallel | branch | nested); distinct by canonical case"
	g := &c01cGen{r: ctx.Rng, thor: ctx.Thorough()}
	n := ctx.N(6000, 40000)
	start := time.Now()
	limit := 9 * time.Second
	if ctx.Thorough() {
		limit = 150 * time.Second
	}
	const batch = 250
	for done := 0; done < n && time.Since(start) < limit; done += batch {
		cs := make([]*c01cCase, 0, batch)
		for i := 0; i < batch; i++ {
			maxSt := 6
			if ctx.Thorough() {
				maxSt = 8
			}
			c := &c01cCase{Kind: "chain", Input: fmt.Sprintf("x%d", g.r.Intn(5))}
			if ctx.Thorough() && g.r.Chance(35) {
				c.Mode = "stream"
			}
			g.noGraph = c.Mode == "stream"
			c.C = g.chain(2, maxSt, g.r.Chance(6), true)
			cs = append(cs, c)
		}
		if err := c01cCheck(ctx, cs); err != nil {
			return err
		}
	}
	return nil
}
