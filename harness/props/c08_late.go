//go:build verif && (vh_all || vh_c08)

package props

import (
	"fmt"

	"github.com/cloudwego/eino/verifharness/vh"
)

// Family `late`: a reader WITH HISTORY is handed to a constructor.
//
// The random sequential generator builds most of its tree before there is traffic; this family
// does the opposite.  A source is copied, the copies then live different lives — some read ahead
// (pulling items out of the source into the shared list of the Copy cell), some are closed (after
// reading or unread), some lag behind — and only THEN a copy that is still open is handed to a
// constructor: MergeStreamReaders together with other readers, StreamReaderWithConvert, a second
// Copy, or it is simply read on.  What the new consumer has to deliver is what that copy was still
// owed at that moment: the items waiting for it in the shared list, then what the source still
// delivers (Model/C08Late.lean, theorem late_handover_delivers_whole_source; for the network model
// that the oracle runs it is the `childOpen` clause of `Den`).  Array readers, whose history is
// their index, take part as sources too.
//
// Every step goes through c08Seq.step, i.e. is validated by the oracle; the tear-down then reads
// every reader to the end (eof-first, mostly) or closes everything and checks the writers.
//
// Dimensions drawn (all reported in the distribution):
//   late-src       what is copied: pipe (open or closed writer) | conv(pipe) | merge(pipe,pipe) | array | copy (a copy of a copy)
//   late-n         number of copies 2..4
//   late-closed    siblings of the survivor closed before the hand-over: all | some | none
//   late-listed    items waiting for the survivor in the shared list at the hand-over: 0 | 1-2 | 3+   (oracle: readers[..][4])
//   late-hand      merge | conv | conv+merge | copy | copy+merge | read
//   late-partner   what it is merged with: pipe | array | pipe+array | sibling (another open copy of the same cell)

type c08LateGen struct {
	s   *c08Seq
	src []int // writers feeding the copied source
}

func (g *c08LateGen) last() int { return g.s.st.Readers[len(g.s.st.Readers)-1][0] }

func (g *c08LateGen) do(op c08Op) bool {
	ok, err := g.s.step(op)
	if err != nil {
		panic(c08LateErr{err})
	}
	return ok
}

type c08LateErr struct{ err error }

// sendSome: up to n sends on pipe p, as long as the model says the call returns
func (g *c08LateGen) sendSome(p, n int) bool {
	for i := 0; i < n; i++ {
		w := g.s.writerState(p)
		if w == nil || w[1] != 1 {
			return true
		}
		v, e := g.s.nextItem(p)
		if !g.do(c08Op{K: "send", P: p, C: v, E: e}) {
			return false
		}
	}
	return true
}

func (g *c08LateGen) enabled(rd int) bool {
	for _, r := range g.s.readers(true) {
		if r[0] == rd {
			return true
		}
	}
	return false
}

func (g *c08LateGen) listed(rd int) int {
	for _, r := range g.s.st.Readers {
		if r[0] == rd && len(r) > 4 {
			return r[4]
		}
	}
	return 0
}

// recvSome: up to n receives on reader rd (stops at end-of-stream or when the call could block);
// returns the number of items received
func (g *c08LateGen) recvSome(rd, n int) (int, bool) {
	got := 0
	for i := 0; i < n && g.enabled(rd); i++ {
		if !g.do(c08Op{K: "recv", R: rd}) {
			return got, false
		}
		if g.s.c.Ops[len(g.s.c.Ops)-1].Eof {
			g.s.stats[fmt.Sprint("eof-", rd)] = 1
			break
		}
		got++
	}
	return got, true
}

func c08Late(ctx *vh.Ctx) (err error) {
	s := c08NewSeq(ctx, "late")
	g := &c08LateGen{s: s}
	r := ctx.Rng
	s.c.Tear = "eof-first"
	if r.Chance(20) {
		s.c.Tear = "close-first"
	}
	defer func() {
		if pv := recover(); pv != nil {
			le, isLate := pv.(c08LateErr)
			if !isLate {
				panic(pv)
			}
			err = s.finish(le.err)
		}
	}()
	dist := map[string]string{}
	fin := func() error {
		for k, v := range dist {
			ctx.Res.Dist("late-" + k + "=" + v)
		}
		return s.finish(nil)
	}
	fill := func() bool { // some traffic on the writers of the copied source
		for _, p := range g.src {
			k := r.Intn(6)
			if k == 0 && r.Chance(70) {
				k = 1
			}
			if !g.sendSome(p, k) {
				return false
			}
		}
		return true
	}

	// ---- 1. the source that is copied ----
	var a int
	switch c := r.Intn(100); {
	case c < 50:
		dist["src"] = "pipe"
		if !g.do(c08Op{K: "pipe", Cap: r.Range(1, 5)}) {
			return fin()
		}
		a = g.last()
		g.src = []int{a}
	case c < 65:
		dist["src"] = "conv(pipe)"
		if !g.do(c08Op{K: "pipe", Cap: r.Range(1, 5)}) {
			return fin()
		}
		g.src = []int{g.last()}
		s.w.convN++
		op := c08Op{K: "conv", R: g.last(), Add: 100000 << uint(s.w.convN%20)}
		if r.Chance(30) {
			op.Sm, op.Sr = 3, r.Intn(3)
		}
		if !g.do(op) {
			return fin()
		}
		a = g.last()
	case c < 80:
		dist["src"] = "merge(pipe,pipe)"
		if !g.do(c08Op{K: "pipe", Cap: r.Range(1, 4)}) {
			return fin()
		}
		p0 := g.last()
		if !g.do(c08Op{K: "pipe", Cap: r.Range(1, 4)}) {
			return fin()
		}
		p1 := g.last()
		g.src = []int{p0, p1}
		if !g.do(c08Op{K: "merge", Rs: []int{p0, p1}}) {
			return fin()
		}
		a = g.last()
	default:
		dist["src"] = "array"
		n := r.Range(1, 6)
		items := make([]int, n)
		for j := range items {
			items[j] = 600*1000 + j + 1
		}
		if !g.do(c08Op{K: "arr", Items: items}) {
			return fin()
		}
		a = g.last()
		if r.Chance(40) { // an array whose index has moved before it is copied
			if _, ok := g.recvSome(a, r.Range(1, 2)); !ok {
				return fin()
			}
		}
	}
	if r.Chance(60) && !fill() { // items sent before the copies exist
		return fin()
	}

	// ---- 2. copies ----
	n := r.Range(2, 4)
	dist["n"] = fmt.Sprint(n)
	if !g.do(c08Op{K: "copy", R: a, N: n}) {
		return fin()
	}
	var copies []int
	for _, rd := range s.st.Readers[len(s.st.Readers)-n:] {
		copies = append(copies, rd[0])
	}
	if r.Chance(12) { // a copy of a copy: the survivor's cell is itself a reader of another cell
		dist["src"] += "+copy"
		c0 := copies[0]
		if !g.do(c08Op{K: "copy", R: c0, N: 2}) {
			return fin()
		}
		k := len(s.st.Readers)
		copies = append(copies[1:], s.st.Readers[k-2][0], s.st.Readers[k-1][0])
	}

	// ---- 3. the copies live different lives ----
	perm := r.Perm(len(copies))
	nSurv := 1
	if len(copies) > 3 && r.Chance(30) {
		nSurv = 2
	}
	var surv, sibs []int
	for i, pi := range perm {
		if i < nSurv {
			surv = append(surv, copies[pi])
		} else {
			sibs = append(sibs, copies[pi])
		}
	}
	closeMode := "all"
	switch c := r.Intn(100); {
	case c < 60:
	case c < 80:
		closeMode = "some"
	default:
		closeMode = "none"
	}
	closedSibs := 0
	rounds := r.Range(1, 3)
	for round := 0; round < rounds; round++ {
		if !fill() {
			return fin()
		}
		if round == rounds-1 && r.Chance(35) { // the writers of the source are done before the hand-over
			for _, p := range g.src {
				if w := g.s.writerState(p); w != nil && r.Chance(70) {
					if !g.do(c08Op{K: "closeSend", P: p}) {
						return fin()
					}
				}
			}
		}
		for _, sb := range sibs {
			if _, held := s.w.readers[sb]; !held {
				continue
			}
			k := r.Intn(5) // read ahead (now and then nothing: a sibling that is closed unread)
			if k == 0 && r.Chance(60) {
				k = r.Range(1, 3)
			}
			if _, ok := g.recvSome(sb, k); !ok {
				return fin()
			}
		}
		if r.Chance(40) { // the survivors lag behind, but may have read something
			for _, sv := range surv {
				if _, ok := g.recvSome(sv, r.Intn(2)); !ok {
					return fin()
				}
			}
		}
	}
	for i, sb := range sibs {
		// "some": the first sibling is closed, the last one stays open, the ones in between by chance
		cl := closeMode == "all" || (closeMode == "some" && (i == 0 || (i < len(sibs)-1 && r.Chance(50))))
		if cl {
			if !g.do(c08Op{K: "close", R: sb}) {
				return fin()
			}
			closedSibs++
		}
	}
	switch {
	case closedSibs == len(sibs):
		dist["closed"] = "all"
	case closedSibs == 0:
		dist["closed"] = "none"
	default:
		dist["closed"] = "some"
	}

	// ---- 4. the hand-over ----
	mk := func(tag, k int) c08Op {
		items := make([]int, k)
		for j := range items {
			items[j] = (610+tag)*1000 + j + 1
		}
		return c08Op{K: "arr", Items: items}
	}
	// partner: readers to merge the survivor with
	partner := func(tag int) ([]int, string, bool) {
		var ids []int
		what := ""
		c := r.Intn(100)
		if c < 70 {
			if !g.do(c08Op{K: "pipe", Cap: r.Range(1, 3)}) {
				return nil, "", false
			}
			p := g.last()
			ids = append(ids, p)
			if !g.sendSome(p, r.Intn(3)) {
				return nil, "", false
			}
			if r.Chance(30) {
				if !g.do(c08Op{K: "closeSend", P: p}) {
					return nil, "", false
				}
			}
			what = "pipe"
		}
		if c >= 50 {
			if !g.do(mk(tag, r.Range(1, 3))) {
				return nil, "", false
			}
			ids = append(ids, g.last())
			if what != "" {
				what += "+"
			}
			what += "array"
		}
		return ids, what, true
	}
	for i, sv := range surv {
		lst := g.listed(sv)
		switch {
		case lst == 0:
			dist["listed"] = "0"
		case lst <= 2:
			dist["listed"] = "1-2"
		default:
			dist["listed"] = "3+"
		}
		hand := ""
		target := sv
		switch c := r.Intn(100); {
		case c < 55:
			hand = "merge"
		case c < 70:
			hand = "conv"
			s.w.convN++
			if !g.do(c08Op{K: "conv", R: sv, Add: 100000 << uint(s.w.convN%20)}) {
				return fin()
			}
			target = g.last()
			if r.Chance(50) {
				hand = "conv+merge"
			}
		case c < 85:
			hand = "copy"
			if !g.do(c08Op{K: "copy", R: sv, N: 2}) {
				return fin()
			}
			k := len(s.st.Readers)
			target = s.st.Readers[k-1][0]
			other := s.st.Readers[k-2][0]
			if r.Chance(50) {
				if _, ok := g.recvSome(other, r.Intn(4)); !ok {
					return fin()
				}
				if r.Chance(60) {
					if !g.do(c08Op{K: "close", R: other}) {
						return fin()
					}
				}
			}
			if r.Chance(60) {
				hand = "copy+merge"
			}
		default:
			hand = "read"
		}
		if hand == "merge" || hand == "conv+merge" || hand == "copy+merge" {
			var ids []int
			what := ""
			if i == 0 && len(surv) == 2 && hand == "merge" && r.Chance(50) {
				// two open copies of one cell merged with each other (equal values along two paths:
				// the oracle keeps every explanation)
				ids, what = []int{surv[1]}, "sibling"
				surv = surv[:1]
			} else {
				var ok bool
				if ids, what, ok = partner(i); !ok {
					return fin()
				}
			}
			dist["partner"] = what
			rs := append([]int{target}, ids...)
			if r.Bool() {
				rs = append(append([]int{}, ids...), target)
			}
			if !g.do(c08Op{K: "merge", Rs: rs}) {
				return fin()
			}
			target = g.last()
		}
		dist["hand"] = hand
		if r.Chance(50) { // read a little right after the hand-over
			if _, ok := g.recvSome(target, r.Range(1, 3)); !ok {
				return fin()
			}
		}
		if i+1 >= len(surv) {
			break
		}
	}

	// ---- 5. more traffic, then everything is read to the end / closed ----
	if !fill() {
		return fin()
	}
	for k := r.Intn(8); k > 0; k-- {
		op, ok := s.genOp()
		if !ok {
			break
		}
		if op.K == "conv" || op.K == "copy" || op.K == "merge" || op.K == "pipe" || op.K == "arr" {
			continue
		}
		if !g.do(op) {
			return fin()
		}
	}
	for k, v := range dist {
		ctx.Res.Dist("late-" + k + "=" + v)
	}
	return s.finish(s.tearDown())
}
