//go:build verif && (vh_all || vh_c11)

package props

// C11 late family, implementation side (child process).
//
//   kind "late": a stateful eager Workflow (top-level or a graph node of a stateless parent)
//
//       START -> [head ->] a -> c -> END        a = source, c = consumer
//       START -> b -----------------> END        b = holder
//       START -> s0, s1 … ----------> END        side nodes
//
//   A user function of the source node a — a plain or stream pre-/post-handler, or a ProcessState
//   callback of its body — creates a closure that KEEPS THE CONTEXT IT WAS GIVEN and calls
//   ProcessState with it after the user function has returned:
//     defer "conv": the per-chunk converter of the stream a stream handler returns
//                   (schema.StreamReaderWithConvert); it runs where the stream is consumed — a's own
//                   goroutine, c's goroutine, or the run-loop goroutine when the engine concatenates;
//     defer "go":   a goroutine started inside the user function.
//   Barriers force the closure's first ProcessState call to happen while the sibling b is inside
//   a state operation of its own (a ProcessState callback of its body, or its post-handler on the
//   run-loop goroutine); every state operation passes an overlap detector.

import (
	"context"
	"fmt"
	"runtime"
	"sync"
	"sync/atomic"
	"time"

	"github.com/cloudwego/eino/compose"
	"github.com/cloudwego/eino/schema"
	"github.com/cloudwego/eino/verifharness/vh"
)

// c11LateGidBase: the closure's operations are logged in the state under this id + the source's gid.
const c11LateGidBase = 1000

// c11LateHoldIters: how long (in yields) the holder stays inside its state operation.  A closure that
// gets past the lock is runnable from the moment the holder is inside and is seen within a few yields.
const c11LateHoldIters = 12000

type c11LateCtl struct {
	inside      int32
	overlaps    int32
	lateStarted chan struct{} // the closure is about to make its first ProcessState call
	holderIn    chan struct{} // the holder is inside its state operation
	lsOnce      sync.Once
	hiOnce      sync.Once
	timeouts    int32
	holdIters   int32
	calls       int32 // closure calls that ran to their end
	wg          sync.WaitGroup
}

func c11NewLateCtl() *c11LateCtl {
	return &c11LateCtl{lateStarted: make(chan struct{}), holderIn: make(chan struct{})}
}

// enter / leave bracket the user code of every state operation of the late family.
func (e *c11LateCtl) enter() bool {
	ok := atomic.CompareAndSwapInt32(&e.inside, 0, 1)
	if !ok {
		atomic.AddInt32(&e.overlaps, 1)
	}
	return ok
}

func (e *c11LateCtl) leave(ok bool) {
	if ok {
		atomic.StoreInt32(&e.inside, 0)
	}
}

func (e *c11LateCtl) wait(ch <-chan struct{}) {
	select {
	case <-ch:
	case <-time.After(20 * time.Second):
		atomic.AddInt32(&e.timeouts, 1)
	}
}

func (e *c11LateCtl) barrier() string {
	switch {
	case atomic.LoadInt32(&e.timeouts) > 0:
		return "timeout"
	case atomic.LoadInt32(&e.holdIters) > 0:
		if atomic.LoadInt32(&e.overlaps) > 0 {
			return "entered-while-held"
		}
		return "held"
	}
	return "not-played"
}

// hold: the holder's state operation.  It stays inside (incrementing ctr[0], c11LateHoldIters
// increments in all) for at most c11LateHoldIters yields, leaving early once any other state
// operation has started while it is inside.
func (e *c11LateCtl) hold(rr *c11RunRec, no *c11NodeObs, gid int, s *C11State) {
	ok := e.enter()
	e.hiOnce.Do(func() { close(e.holderIn) })
	c11AddID(no, s.ID)
	rr.see(s)
	i := 0
	for ; i < c11LateHoldIters; i++ {
		if atomic.LoadInt32(&e.overlaps) > 0 {
			break
		}
		x := s.Ctr[0]
		runtime.Gosched()
		s.Ctr[0] = x + 1
	}
	atomic.StoreInt32(&e.holdIters, int32(i)+1)
	for ; i < c11LateHoldIters; i++ {
		s.Ctr[0]++
	}
	s.Order = append(s.Order, gid)
	e.leave(ok)
}

// closure: what the deferred closure does with the context it kept.  The first call announces
// itself and waits until the holder is inside.
func (e *c11LateCtl) closure(ctx context.Context, rr *c11RunRec, spec *c11Late, lateGid int) error {
	e.lsOnce.Do(func() { close(e.lateStarted) })
	e.wait(e.holderIn)
	for _, op := range spec.Ops {
		for i := 0; i < op.Rep; i++ {
			err := compose.ProcessState[*C11State](ctx, func(_ context.Context, s *C11State) error {
				ok := e.enter()
				x := s.Ctr[op.C]
				runtime.Gosched()
				s.Ctr[op.C] = x + op.D
				s.Order = append(s.Order, lateGid)
				rr.see(s)
				e.leave(ok)
				return nil
			})
			if err != nil {
				return err
			}
		}
	}
	atomic.AddInt32(&e.calls, 1)
	return nil
}

// c11SplitN: exactly n chunks (some possibly empty) whose concatenation is s.
func c11SplitN(s string, n int) *schema.StreamReader[string] {
	if n < 1 {
		n = 1
	}
	out := make([]string, n)
	for i := 0; i < n; i++ {
		out[i] = s[i*len(s)/n : (i+1)*len(s)/n]
	}
	return schema.StreamReaderFromArray(out)
}

// c11LateHandlers: the state handlers of a node of the late family.
func c11LateHandlers(spec *c11Late, f c11Flat) []compose.GraphAddNodeOpt {
	var opts []compose.GraphAddNodeOpt
	n, gid, path := f.Node, f.Gid, f.Path
	lateGid := c11LateGidBase + gid
	preTag, postTag := fmt.Sprintf("p%d:", gid), fmt.Sprintf("q%d:", gid)
	source := n.Role == "source"
	pre := func(ctx context.Context, in string, s *C11State) string {
		no := c11Rec(ctx).nodes[path]
		no.PreN++
		no.PreIn = c11P(in)
		out := c11Stamp(ctx, no, gid, preTag, in, s)
		no.PreOut = c11P(out)
		return out
	}
	post := func(ctx context.Context, in string, s *C11State) string {
		rr := c11Rec(ctx)
		no := rr.nodes[path]
		no.PostN++
		no.PostIn = c11P(in)
		out := c11Stamp(ctx, no, gid, postTag, in, s)
		no.PostOut = c11P(out)
		if n.Role == "holder" && spec.Holder == "post" {
			rr.late.hold(rr, no, gid, s)
		}
		return out
	}
	// the closure keeps the context the user function `kind` of the source was given
	spawn := func(ctx context.Context, kind string) {
		if source && spec.Origin == kind && spec.Defer == "go" {
			rr := c11Rec(ctx)
			rr.late.wg.Add(1)
			go func() {
				defer rr.late.wg.Done()
				if err := rr.late.closure(ctx, rr, spec, lateGid); err != nil {
					rr.mu.Lock()
					rr.nodes[path].Err = "closure: " + err.Error()
					rr.mu.Unlock()
				}
			}()
		}
	}
	conv := func(ctx context.Context, kind string, out string) *schema.StreamReader[string] {
		if source && spec.Origin == kind && spec.Defer == "conv" {
			rr := c11Rec(ctx)
			return schema.StreamReaderWithConvert(c11SplitN(out, spec.Chunks), func(chunk string) (string, error) {
				if err := rr.late.closure(ctx, rr, spec, lateGid); err != nil {
					return "", err
				}
				return chunk, nil
			})
		}
		return c11Split(out)
	}
	switch n.Pre {
	case "plain":
		opts = append(opts, compose.WithStatePreHandler(func(ctx context.Context, in string, s *C11State) (string, error) {
			out := pre(ctx, in, s)
			spawn(ctx, "pre")
			return out, nil
		}))
	case "stream":
		opts = append(opts, compose.WithStreamStatePreHandler(func(ctx context.Context, in *schema.StreamReader[string], s *C11State) (*schema.StreamReader[string], error) {
			v, err := c11ReadAll(in)
			if err != nil {
				return nil, err
			}
			out := pre(ctx, v, s)
			spawn(ctx, "spre")
			return conv(ctx, "spre", out), nil
		}))
	}
	switch n.Post {
	case "plain":
		opts = append(opts, compose.WithStatePostHandler(func(ctx context.Context, in string, s *C11State) (string, error) {
			out := post(ctx, in, s)
			spawn(ctx, "post")
			return out, nil
		}))
	case "stream":
		opts = append(opts, compose.WithStreamStatePostHandler(func(ctx context.Context, in *schema.StreamReader[string], s *C11State) (*schema.StreamReader[string], error) {
			v, err := c11ReadAll(in)
			if err != nil {
				return nil, err
			}
			out := post(ctx, v, s)
			spawn(ctx, "spost")
			return conv(ctx, "spost", out), nil
		}))
	}
	return opts
}

// c11LateBody: the body of a node of the late family.
func c11LateBody(ctx context.Context, spec *c11Late, f c11Flat, in string) (string, error) {
	rr := c11Rec(ctx)
	e := rr.late
	no := rr.nodes[f.Path]
	no.BodyN++
	no.BodyIn = c11P(in)
	v := in
	lateGid := c11LateGidBase + f.Gid
	capture := f.Node.Role == "source" && spec.Origin == "proc"
	regular := func() error {
		for _, op := range f.Node.Body {
			switch op.O {
			case "tag":
				v += "|" + op.T
			case "inc":
				for i := 0; i < op.Rep; i++ {
					err := compose.ProcessState[*C11State](ctx, func(ctx2 context.Context, s *C11State) error {
						ok := e.enter()
						x := s.Ctr[op.C]
						runtime.Gosched()
						s.Ctr[op.C] = x + op.D
						s.Order = append(s.Order, f.Gid)
						if i == 0 {
							c11AddID(no, s.ID)
							rr.see(s)
						}
						e.leave(ok)
						if capture {
							// the closure keeps the context this callback was given
							capture = false
							e.wg.Add(1)
							go func() {
								defer e.wg.Done()
								if err := e.closure(ctx2, rr, spec, lateGid); err != nil {
									rr.mu.Lock()
									no.Err = "closure: " + err.Error()
									rr.mu.Unlock()
								}
							}()
						}
						return nil
					})
					if err != nil {
						return err
					}
				}
			case "stamp":
				err := compose.ProcessState[*C11State](ctx, func(_ context.Context, s *C11State) error {
					v = c11Stamp(ctx, no, f.Gid, op.Tag, v, s)
					return nil
				})
				if err != nil {
					return err
				}
			}
		}
		return nil
	}
	if f.Node.Role == "holder" {
		// not before the closure exists and is about to call ProcessState
		e.wait(e.lateStarted)
		if spec.Holder == "proc" {
			err := compose.ProcessState[*C11State](ctx, func(_ context.Context, s *C11State) error {
				e.hold(rr, no, f.Gid, s)
				return nil
			})
			if err != nil {
				return "", err
			}
		}
	}
	if err := regular(); err != nil {
		return "", err
	}
	no.BodyOut = c11P(v)
	return v, nil
}

// c11BuildLate: the Workflow of the late family; every node without successor feeds END through
// a field of the output map.
func c11BuildLate(c *c11Case, l *c11Layout) *compose.Workflow[string, map[string]any] {
	spec := l.Graphs[0]
	ctrs := c.Ctrs
	wf := compose.NewWorkflow[string, map[string]any](compose.WithGenLocalState(func(ctx context.Context) *C11State {
		s := &C11State{ID: int(atomic.AddInt64(&c11NextID, 1)), Ctr: make([]int, ctrs), Order: []int{}}
		if rr := c11Rec(ctx); rr != nil {
			rr.mu.Lock()
			rr.genPtrs = append(rr.genPtrs, s)
			rr.mu.Unlock()
		}
		return s
	}))
	hasSucc := map[int]bool{}
	for ni := range spec.Nodes {
		for _, p := range spec.Nodes[ni].Preds {
			hasSucc[p] = true
		}
	}
	for ni := range spec.Nodes {
		f := l.Nodes[l.GNodes[0][ni]]
		wn := wf.AddLambdaNode(f.Node.Key, compose.InvokableLambda(func(ctx context.Context, in string) (string, error) {
			return c11LateBody(ctx, c.Late, f, in)
		}), c11LateHandlers(c.Late, f)...)
		if len(f.Node.Preds) == 0 {
			wn.AddInput(compose.START)
		} else {
			wn.AddInput(spec.Nodes[f.Node.Preds[0]].Key)
		}
	}
	for ni := range spec.Nodes {
		if !hasSucc[ni] {
			wf.End().AddInput(spec.Nodes[ni].Key, compose.ToField(spec.Nodes[ni].Key))
		}
	}
	return wf
}

func c11CompileLate(c *c11Case, l *c11Layout) (*c11AnyRunner, error) {
	wf := c11BuildLate(c, l)
	var rm compose.Runnable[string, map[string]any]
	var err error
	if c.Wrapped {
		g := compose.NewGraph[string, map[string]any]()
		if err = g.AddGraphNode("wrap", wf); err != nil {
			return nil, err
		}
		if err = g.AddEdge(compose.START, "wrap"); err != nil {
			return nil, err
		}
		if err = g.AddEdge("wrap", compose.END); err != nil {
			return nil, err
		}
		rm, err = g.Compile(context.Background())
	} else {
		rm, err = wf.Compile(context.Background())
	}
	if err != nil {
		return nil, err
	}
	return &c11AnyRunner{invoke: func(ctx context.Context, opts ...compose.Option) (string, error) {
		if c.Paradigm == "stream" {
			sr, err := rm.Stream(ctx, "x", opts...)
			if err != nil {
				return "", err
			}
			m, err := c11ConcatMaps(sr)
			if err != nil {
				return "", err
			}
			return c11RenderAny(m), nil
		}
		m, err := rm.Invoke(ctx, "x", opts...)
		if err != nil {
			return "", err
		}
		return c11RenderAny(m), nil
	}}, nil
}

func c11LateRunCase(idx int, c *c11Case) *c11CaseObs {
	o := &c11CaseObs{Index: idx}
	if c.Late == nil {
		o.BuildErr = "late case without a late spec"
		return o
	}
	l := c11LayoutOf(&c.G)
	var r *c11AnyRunner
	var err error
	if panicked, pv := vh.Safely(func() { r, err = c11CompileLate(c, l) }); panicked {
		o.BuildErr = fmt.Sprint("panic: ", pv)
		return o
	}
	if err != nil {
		o.BuildErr = err.Error()
		return o
	}
	rr := &c11RunRec{nodes: map[string]*c11NodeObs{}, late: c11NewLateCtl()}
	for _, f := range l.Nodes {
		rr.nodes[f.Path] = &c11NodeObs{}
	}
	ctx := context.WithValue(context.Background(), c11RunKey{}, rr)
	obs := c11RunObs{Class: "ok", Nodes: rr.nodes, GenIDs: []int{}, States: []c11StateObs{}}
	var out string
	finished := false
	panicked, pv := vh.Safely(func() {
		finished = vh.WithTimeout(90*time.Second, func() {
			out, err = r.invoke(ctx)
			// the goroutine closures are part of the run
			done := make(chan struct{})
			go func() { rr.late.wg.Wait(); close(done) }()
			rr.late.wait(done)
		})
	})
	switch {
	case panicked:
		obs.Class = "panic"
		obs.ErrText = fmt.Sprint(pv)
		o.Runs = []c11RunObs{obs}
		return o
	case !finished:
		o.Runs = []c11RunObs{{Class: "hang", Nodes: map[string]*c11NodeObs{}, GenIDs: []int{}, States: []c11StateObs{}}}
		return o
	case err != nil:
		obs.Class = "error"
		obs.ErrText = err.Error()
		if len(obs.ErrText) > 400 {
			obs.ErrText = obs.ErrText[:400]
		}
	}
	obs.Out = out
	obs.Overlaps = int(atomic.LoadInt32(&rr.late.overlaps))
	obs.Barrier = rr.late.barrier()
	obs.LateCalls = int(atomic.LoadInt32(&rr.late.calls))
	if obs.Barrier == "timeout" {
		// a closure may still be running: the state objects must not be read
		o.Runs = []c11RunObs{{Class: obs.Class, ErrText: obs.ErrText, Barrier: "timeout", Nodes: map[string]*c11NodeObs{}, GenIDs: []int{}, States: []c11StateObs{}}}
		return o
	}
	rr.mu.Lock()
	isGen := map[*C11State]bool{}
	for _, p := range rr.genPtrs {
		isGen[p] = true
		obs.GenIDs = append(obs.GenIDs, p.ID)
		obs.States = append(obs.States, c11Snapshot(p, true))
	}
	for _, p := range rr.ptrs {
		if !isGen[p] {
			obs.States = append(obs.States, c11Snapshot(p, false))
		}
	}
	rr.mu.Unlock()
	o.Runs = []c11RunObs{obs}
	return o
}
