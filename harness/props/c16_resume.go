//go:build verif && (vh_all || vh_c16)

package props

import (
	"context"
	"fmt"
	"strings"
	"sync"

	"github.com/cloudwego/eino/verifharness/vh"
)

// ---------------------------------------------------------------------------------------
// calls that are interrupted and calls that resume from a checkpoint (Model/C16Resume.lean)
//
// A lambda somewhere in the tree (c16Node.Intr) returns compose.InterruptAndRerun when the call
// asks it to (c16Call.Ask = "interrupt", At = its path): the call ends with an interrupt error and
// the graph – compiled with a checkpoint store – saves a checkpoint under the call's checkpoint
// id.  The next call with Ask = "resume" carries the same id and ITS OWN options: the nodes that
// had completed do not run again, the interrupted lambda, the nested graphs around it (restored
// tasks) and everything after them do.  The model says for both calls which nodes execute and
// what each of them receives (values and handlers of the options of that call only).
// ---------------------------------------------------------------------------------------

type c16CPStore struct {
	mu sync.Mutex
	m  map[string][]byte
}

func c16NewCPStore() *c16CPStore { return &c16CPStore{m: map[string][]byte{}} }

func (s *c16CPStore) Get(_ context.Context, id string) ([]byte, bool, error) {
	s.mu.Lock()
	defer s.mu.Unlock()
	v, ok := s.m[id]
	return v, ok, nil
}

func (s *c16CPStore) Set(_ context.Context, id string, cp []byte) error {
	s.mu.Lock()
	defer s.mu.Unlock()
	s.m[id] = append([]byte{}, cp...)
	return nil
}

// c16CPID: every "interrupt" call uses a new checkpoint id, a "resume" call the id of the last
// "interrupt" call before it.
func c16CPID(c *c16Case, i int) string {
	for j := i; j >= 0; j-- {
		if c.Calls[j].Ask == "interrupt" {
			return fmt.Sprintf("cp-%d", j)
		}
	}
	return fmt.Sprintf("cp-none-%d", i)
}

// c16Want: the nodes the model says execute in call i of an interrupt / resume sequence (nil for
// an ordinary call, or when the model rejects the call: then every node of the tree is looked at).
func c16Want(c *c16Case, model *c16Out, i int) []c16Entry {
	if c.Calls[i].Ask == "" || model == nil || i >= len(model.Results) || model.Results[i].Err != nil {
		return nil
	}
	want := []c16Entry{}
	for _, e := range model.Results[i].Entries {
		if len(e.Path) > 0 {
			want = append(want, c16Entry{Path: e.Path, G: e.G})
		}
	}
	return want
}

func c16NodeAt(nodes []c16Node, path []string) *c16Node {
	for d, k := range path {
		var hit *c16Node
		for i := range nodes {
			if nodes[i].Key == k {
				hit = &nodes[i]
			}
		}
		if hit == nil {
			return nil
		}
		if d == len(path)-1 {
			return hit
		}
		if hit.K != "graph" {
			return nil
		}
		nodes = hit.Ch
	}
	return nil
}

// c16AsksOK: the interrupt / resume calls of a case are well formed: an "interrupt" call names a
// lambda that can interrupt, a "resume" call follows an "interrupt" call on the same graph, and
// such cases run their calls one after the other.
func c16AsksOK(c *c16Case) bool {
	last := -1
	for i := range c.Calls {
		switch c.Calls[i].Ask {
		case "":
		case "interrupt":
			n := c16NodeAt(c.Calls[i].G, c.Calls[i].At)
			if n == nil || n.K != "comp" || n.Impl != "lambda" || !n.Intr || n.InKey != "" || n.OutKey != "" || c.Mode == "conc" {
				return false
			}
			last = i
		case "resume":
			if last < 0 || c.Mode == "conc" || vh.Canon(c.Calls[last].G) != vh.Canon(c.Calls[i].G) || c.Calls[last].Dag != c.Calls[i].Dag {
				return false
			}
		default:
			return false
		}
	}
	return true
}

func c16ResumeStats(ctx *vh.Ctx, c *c16Case, model *c16Out) {
	last := -1
	for i := range c.Calls {
		call := &c.Calls[i]
		if call.Ask == "" {
			continue
		}
		ctx.Res.Dist("ask=" + call.Ask)
		if call.Ask == "interrupt" {
			last = i
			ctx.Res.Dist(fmt.Sprintf("interrupt.depth=%d", len(call.At)))
			continue
		}
		if last < 0 || model == nil || i >= len(model.Results) {
			continue
		}
		if model.Results[last].Err != nil {
			ctx.Res.Dist("resume.after-rejected-interrupt-call")
			continue
		}
		if model.Results[i].Err != nil {
			ctx.Res.Dist("resume.rejected")
			continue
		}
		at := c.Calls[last].At
		// what the resuming call designates: the restored graph nodes (proper prefixes of the
		// interrupt path), the node that runs again, nodes after / before the interrupt point
		for _, ix := range call.Ixs {
			if ix < 0 || ix >= len(c.Store) {
				continue
			}
			o := &c.Store[ix]
			kind := "values"
			if len(o.Vals) == 0 {
				kind = "callbacks"
				if len(o.Handlers) == 0 {
					continue
				}
			}
			if len(o.Paths) == 0 {
				ctx.Res.Dist("resume.opt=" + kind + "/undesignated")
			}
			for _, p := range o.Paths {
				ps, as := strings.Join(p, "/"), strings.Join(at, "/")
				switch {
				case ps == as:
					ctx.Res.Dist("resume.opt=" + kind + "/to-the-rerun-node")
				case len(p) < len(at) && strings.HasPrefix(as, ps+"/"):
					ctx.Res.Dist("resume.opt=" + kind + "/to-a-restored-graph")
				default:
					ctx.Res.Dist("resume.opt=" + kind + "/elsewhere")
				}
			}
		}
	}
}

// c16GenResume: an interrupt / resume pair inside a sequence of calls.  The tree is a random one
// (lambdas of every option type, passthroughs, nested graphs to depth 3; chat-model / retriever
// option types on lambdas only, so that every lambda is fed a string by its predecessor); one
// lambda, at any depth, is the node that interrupts.  The store holds Options of every kind
// (c16GenState.option: values / callbacks / empty, undesignated / designated, bad paths) plus
// Options aimed at the interrupt path – callbacks and values designated to the nested-graph nodes
// around the interrupt point, to the node itself, to nodes after it; each call passes its own
// selection.
func c16GenResume(r *vh.Rand) *c16Case {
	var g []c16Node
	var lams []c16Target
	for try := 0; ; try++ {
		maxDepth := []int{1, 2, 2, 3, 3}[r.Intn(5)]
		g = c16GenTree(r, 1, maxDepth)
		c16LambdasOnly(g)
		var ts []c16Target
		c16Targets(g, nil, &ts)
		lams = lams[:0]
		for _, t := range ts {
			if t.kind == "comp" && (len(t.path) > 1 || try > 3 || r.Chance(35)) { // mostly a nested interrupt point
				lams = append(lams, t)
			}
		}
		if len(lams) > 0 {
			break
		}
		if try > 8 {
			g = []c16Node{{K: "comp", Key: "a", Ty: c16TyA, Impl: "lambda"}}
			lams = []c16Target{{path: []string{"a"}, kind: "comp", ty: c16TyA}}
			break
		}
	}
	at := c16Cp(lams[r.Intn(len(lams))].path)
	c16NodeAt(g, at).Intr = true
	if r.Chance(25) {
		c16AddKeys(r, g, 30, 15)
		c16ClearKeysOnPath(g, at)
		if !c16FlowOK(g) {
			c16ClearAllKeys(g)
		}
	}
	s := &c16GenState{r: r}
	c16Targets(g, nil, &s.targets)
	c := &c16Case{Store: []c16Opt{}, Mode: "seq", Kind: "resume"}
	nopts := r.Range(2, 6)
	for i := 0; i < nopts; i++ {
		if r.Chance(45) {
			c.Store = append(c.Store, s.option())
			continue
		}
		// aimed at the interrupt path: a prefix of it (a nested graph that is restored), the node
		// itself, or – undesignated – everything
		o := c16Opt{Vals: []int{}, Handlers: []int{}, Paths: [][]string{}, ViaKey: r.Chance(40)}
		n := r.Range(1, len(at))
		if len(at) > 1 && r.Chance(60) {
			n = r.Range(1, len(at)-1) // a graph node around the interrupt point
		}
		if r.Chance(60) {
			o.Handlers = s.handlers()
		} else {
			o.Ty = c16NodeAt(g, at).Ty
			if o.Ty == c16TyNone || c16IsIfaceTy(o.Ty) {
				o.Ty = c16ConcreteTys[r.Intn(len(c16ConcreteTys))]
			}
			if t := s.pickTarget(func(t *c16Target) bool { return t.kind == "comp" && t.ty != c16TyNone && !c16IsIfaceTy(t.ty) }); t != nil && r.Chance(40) {
				o.Ty = t.ty
			}
			o.Vals = s.vals()
			o.Spare = c16GenSpare(r, o.Ty, 20)
		}
		if !r.Chance(20) {
			o.Paths = append(o.Paths, c16Cp(at[:n]))
		}
		c.Store = append(c.Store, o)
	}
	sel := func() []int {
		ixs := c16Subset(r, len(c.Store))
		if r.Chance(25) {
			ixs = make([]int, len(c.Store))
			for i := range ixs {
				ixs[i] = i
			}
		}
		return ixs
	}
	dag := r.Chance(25)
	call := func(ask string) c16Call {
		cl := c16Call{G: g, Ixs: sel(), Paradigm: c16Paradigm(r), Dag: dag, Ask: ask}
		if ask == "interrupt" {
			cl.At = c16Cp(at)
		}
		return cl
	}
	if r.Chance(15) {
		c.Calls = append(c.Calls, call(""))
	}
	c.Calls = append(c.Calls, call("interrupt"), call("resume"))
	switch w := r.Intn(100); {
	case w < 15: // the same checkpoint is resumed once more
		c.Kind += "/twice"
		c.Calls = append(c.Calls, call("resume"))
	case w < 27: // a second pair
		c.Kind += "/two-pairs"
		c.Calls = append(c.Calls, call("interrupt"), call("resume"))
	case w < 40:
		c.Kind += "/then-plain"
		c.Calls = append(c.Calls, call(""))
	}
	return c
}

// c16LambdasOnly turns chat-model / retriever components into lambdas of the same option type.
func c16LambdasOnly(ns []c16Node) {
	for i := range ns {
		if ns[i].K == "comp" {
			ns[i].Impl = "lambda"
		}
		if ns[i].K == "graph" {
			c16LambdasOnly(ns[i].Ch)
		}
	}
}

func c16ClearAllKeys(ns []c16Node) {
	for i := range ns {
		ns[i].InKey, ns[i].OutKey = "", ""
		if ns[i].K == "graph" {
			c16ClearAllKeys(ns[i].Ch)
		}
	}
}

// c16ClearKeysOnPath: the nodes on the interrupt path carry no keys, and neither does anything
// that runs before them in their chains (whole sub-trees): the lambda that interrupts must be
// handed a plain string by whatever feeds it.  Keys stay on what runs after the interrupt point.
func c16ClearKeysOnPath(ns []c16Node, path []string) {
	if len(path) == 0 {
		return
	}
	for i := range ns {
		if ns[i].Key != path[0] {
			continue
		}
		ns[i].InKey, ns[i].OutKey = "", ""
		c16ClearAllKeys(ns[:i])
		if ns[i].K == "graph" {
			c16ClearKeysOnPath(ns[i].Ch, path[1:])
		}
	}
}

// c16ResumeCorpus: hand-written interrupt / resume sequences.
func c16ResumeCorpus() []*c16Case {
	lam := func(k string, ty int) c16Node { return c16Node{K: "comp", Key: k, Ty: ty, Impl: "lambda"} }
	w := lam("w", c16TyA)
	w.Intr = true
	// a ⟶ sub[ b ⟶ in[ w (interrupts) ⟶ y ] ⟶ c ] ⟶ d
	tree := []c16Node{lam("a", c16TyA),
		{K: "graph", Key: "sub", Ch: []c16Node{lam("b", c16TyA), {K: "graph", Key: "in", Ch: []c16Node{w, lam("y", c16TyA)}}, lam("c", c16TyB)}},
		lam("d", c16TyA)}
	at := []string{"sub", "in", "w"}
	store := []c16Opt{
		{Ty: c16TyA, Vals: []int{1}, Handlers: []int{}, Paths: [][]string{}},                      // 0
		{Vals: []int{}, Handlers: []int{1}, Paths: [][]string{{"sub"}}},                           // 1
		{Ty: c16TyA, Vals: []int{2}, Handlers: []int{}, Paths: [][]string{{"sub", "in", "w"}}},    // 2
		{Ty: c16TyA, Vals: []int{3}, Handlers: []int{}, Paths: [][]string{}, Spare: 1},            // 3
		{Vals: []int{}, Handlers: []int{2}, Paths: [][]string{{"sub"}}},                           // 4
		{Vals: []int{}, Handlers: []int{3}, Paths: [][]string{{"sub", "in"}}},                     // 5
		{Vals: []int{}, Handlers: []int{4}, Paths: [][]string{{"a"}}},                             // 6
		{Vals: []int{}, Handlers: []int{5}, Paths: [][]string{}},                                  // 7
		{Vals: []int{}, Handlers: []int{6}, Paths: [][]string{{"sub", "in", "w"}, {"d"}}},         // 8
		{Ty: c16TyA, Vals: []int{4}, Handlers: []int{}, Paths: [][]string{{"sub", "zz"}}},         // 9
		{Ty: c16TyB, Vals: []int{5}, Handlers: []int{}, Paths: [][]string{{"sub", "c"}, {"sub"}}}, // 10
	}
	mk := func(kind string, p1, p2 string, dag bool, ixs1, ixs2 []int, more ...c16Call) *c16Case {
		c := &c16Case{Store: store, Mode: "seq", Kind: "corpus:" + kind,
			Calls: []c16Call{{G: tree, Ixs: ixs1, Paradigm: p1, Dag: dag, Ask: "interrupt", At: at}, {G: tree, Ixs: ixs2, Paradigm: p2, Dag: dag, Ask: "resume"}}}
		c.Calls = append(c.Calls, more...)
		return c
	}
	return []*c16Case{
		mk("resume-own-options", "invoke", "invoke", false, []int{0, 1}, []int{2, 3, 4, 5, 6, 7, 8, 10}),
		mk("resume-own-options/stream-after-transform", "transform", "stream", false, []int{0, 1}, []int{2, 3, 4, 5, 6, 7, 8, 10}),
		mk("resume-own-options/dag", "invoke", "collect", true, []int{0, 1, 7}, []int{4, 5, 3}),
		mk("resume-callbacks-to-restored-graphs-only", "invoke", "invoke", false, []int{}, []int{4, 5}),
		mk("resume-without-options", "invoke", "invoke", false, []int{0, 1, 2, 7}, []int{}),
		mk("resume-unknown-node-in-restored-graph", "invoke", "invoke", false, []int{0}, []int{3, 9}),
		mk("interrupt-rejected-then-fresh-run", "invoke", "invoke", false, []int{0, 9}, []int{3, 4}),
		mk("resume-then-plain", "invoke", "stream", false, []int{0, 1}, []int{4, 2}, c16Call{G: tree, Ixs: []int{3, 5}, Paradigm: "invoke"}),
	}
}
