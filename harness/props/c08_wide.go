//go:build verif && (vh_all || vh_c08)

package props

import (
	"fmt"

	"github.com/cloudwego/eino/verifharness/vh"
)

// Family `wide`: merged readers of 2..12 sources whose sources END ONE AFTER THE OTHER while the rest
// stay open and silent, and every survivor is then probed.
//
// A merged reader keeps, next to the list of sources that are still live (`chosenList`), a second
// structure for more than `maxSelectNum` live sources: one reflect.SelectCase per SOURCE INDEX, switched
// off when that source has ended.  Which sources a `Recv` polls is therefore hidden state that depends
// on the order in which the ends were noticed (Model/C08Wide.lean: `WideSt`, theorem
// wide_polls_exactly_live: after any sequence of ends the polled sources are exactly the live ones).
// Observable consequence, which this family checks on the real code: a source that has not ended is
// always polled — an item sent on it while every other source is silent is what the next Recv returns
// (a Recv that does not return is a hang, 10 s).
//
// One case: w sources (pipes; now and then a converted pipe, i.e. a forwarding goroutine, or a nested
// merge that is flattened), optionally items sent before the merge, MergeStreamReaders (source order =
// argument order, sometimes permuted).  Then a subset of the sources ends, in ascending / descending /
// random order of their index; each end = [0-2 last items,] writer Close, then a NOTICE phase: k marker
// rounds (an item on some other open source + Recv of the merged reader).  A Recv with one ended and
// one ready source picks either at random, so after k rounds the reader has consumed the end with
// probability 1 - 2^-k; nothing of this is observable, the model allows both.  The reader is then read
// until the model says it would block (every source silent), and survivors are PROBED: one item on one
// open source, Recv must return exactly it.  After the last end every survivor is probed.  Finally the
// usual tear-down (everything read to end-of-stream: EOF only after every source ended; or closed).
//
// Distribution keys: wide-w (width), wide-ends (number of sources ended before the final probes),
// wide-order (asc | desc | random), wide-live (sources still open at the final probes: <=5 | 6+),
// wide-notice (marker rounds per end: 0 | 1-2 | 3+), wide-slot (kinds of source), wide-probes.

func c08Wide(ctx *vh.Ctx) (err error) {
	s := c08NewSeq(ctx, "wide")
	g := &c08LateGen{s: s}
	r := ctx.Rng
	s.c.Tear = "eof-first"
	if r.Chance(30) {
		s.c.Tear = "close-first"
	}
	defer func() {
		if pv := recover(); pv != nil {
			le, isLate := pv.(c08LateErr)
			if !isLate {
				panic(pv)
			}
			err = s.finish(le.err)
		}
	}()
	dist := map[string]string{}
	probes := 0
	fin := func() error {
		for k, v := range dist {
			ctx.Res.Dist("wide-" + k + "=" + v)
		}
		return s.finish(nil)
	}

	// ---- sources ----
	w := r.Range(6, 12)
	if r.Chance(25) {
		w = r.Range(2, 5)
	}
	var args []int  // arguments of the merge
	var slots []int // per source index of the merged reader: the pipe whose writer feeds it
	kinds := map[string]bool{}
	for len(slots) < w {
		c := r.Intn(100)
		switch {
		case c < 8 && len(slots)+2 <= w: // a nested merge of two pipes: flattened into two sources
			if !g.do(c08Op{K: "pipe", Cap: r.Range(1, 3)}) {
				return fin()
			}
			p0 := g.last()
			if !g.do(c08Op{K: "pipe", Cap: r.Range(1, 3)}) {
				return fin()
			}
			p1 := g.last()
			if !g.do(c08Op{K: "merge", Rs: []int{p0, p1}}) {
				return fin()
			}
			args = append(args, g.last())
			slots = append(slots, p0, p1)
			kinds["nested"] = true
		case c < 16: // a converted pipe: read through a forwarding goroutine
			if !g.do(c08Op{K: "pipe", Cap: r.Range(1, 3)}) {
				return fin()
			}
			p := g.last()
			s.w.convN++
			if !g.do(c08Op{K: "conv", R: p, Add: 100000 << uint(s.w.convN%20)}) {
				return fin()
			}
			args = append(args, g.last())
			slots = append(slots, p)
			kinds["conv"] = true
		default:
			if !g.do(c08Op{K: "pipe", Cap: r.Range(1, 3)}) {
				return fin()
			}
			args = append(args, g.last())
			slots = append(slots, g.last())
			kinds["pipe"] = true
		}
	}
	dist["w"] = fmt.Sprint(w)
	ks := ""
	for _, k := range []string{"pipe", "conv", "nested"} {
		if kinds[k] {
			if ks != "" {
				ks += "+"
			}
			ks += k
		}
	}
	dist["slot"] = ks
	if r.Chance(25) { // items that wait in some sources when the merge is built
		for _, p := range slots {
			if r.Chance(30) && !g.sendSome(p, 1) {
				return fin()
			}
		}
	}
	if r.Chance(25) && len(args) == len(slots) { // source order differs from creation order
		perm := r.Perm(len(args))
		a2, s2 := make([]int, len(args)), make([]int, len(args))
		for i, pi := range perm {
			a2[i], s2[i] = args[pi], slots[pi]
		}
		args, slots = a2, s2
	}
	if !g.do(c08Op{K: "merge", Rs: args}) {
		return fin()
	}
	m := g.last()

	open := func() []int { // source indices whose writer is still open
		var out []int
		for i, p := range slots {
			if !s.w.wclosed[p] {
				out = append(out, i)
			}
		}
		return out
	}
	drain := func() bool { // read until every source is silent (or end-of-stream)
		for n := 0; n < 60 && g.enabled(m) && s.stats[fmt.Sprint("eof-", m)] == 0; n++ {
			if _, ok := g.recvSome(m, 1); !ok {
				return false
			}
		}
		return true
	}
	probe := func(i int) bool { // one item on source i while all the others are silent
		p := slots[i]
		if ws := s.writerState(p); ws == nil || ws[1] != 1 || g.enabled(m) {
			return true
		}
		if !g.sendSome(p, 1) {
			return false
		}
		if !g.enabled(m) {
			return true // (a convert that drops the item; not generated here)
		}
		probes++
		_, ok := g.recvSome(m, 1)
		return ok
	}

	// ---- which sources end, in which order ----
	nEnd := r.Range(1, 4) // mostly a few, so that many sources stay open
	if r.Chance(15) {
		nEnd = r.Range(1, w) // now and then most or all of them (w: the reader reaches end-of-stream)
	}
	if w >= 8 && r.Chance(60) { // at least two ends and still more than maxSelectNum sources open afterwards
		hi := w - 6
		if hi > 4 {
			hi = 4
		}
		nEnd = r.Range(2, hi)
	}
	if nEnd > w-1 && !r.Chance(30) {
		nEnd = w - 1
	}
	if nEnd > w {
		nEnd = w
	}
	sub := r.Perm(w)[:nEnd]
	order := "random"
	switch c := r.Intn(100); {
	case c < 40:
		order = "asc"
		for i := range sub {
			for j := i + 1; j < len(sub); j++ {
				if sub[j] < sub[i] {
					sub[i], sub[j] = sub[j], sub[i]
				}
			}
		}
	case c < 60:
		order = "desc"
		for i := range sub {
			for j := i + 1; j < len(sub); j++ {
				if sub[j] > sub[i] {
					sub[i], sub[j] = sub[j], sub[i]
				}
			}
		}
	}
	dist["order"] = order
	dist["ends"] = fmt.Sprint(nEnd)
	kN := r.Range(2, 6)
	if r.Chance(15) {
		kN = r.Range(0, 1)
	}
	switch {
	case kN == 0:
		dist["notice"] = "0"
	case kN <= 2:
		dist["notice"] = "1-2"
	default:
		dist["notice"] = "3+"
	}

	for ei, e := range sub {
		p := slots[e]
		if r.Chance(30) && !g.sendSome(p, r.Range(1, 2)) { // its last items
			return fin()
		}
		if !g.do(c08Op{K: "closeSend", P: p}) {
			return fin()
		}
		// notice phase
		for k := 0; k < kN; k++ {
			op := open()
			if len(op) == 0 {
				break
			}
			if !g.sendSome(slots[op[r.Intn(len(op))]], 1) {
				return fin()
			}
			if g.enabled(m) {
				if _, ok := g.recvSome(m, 1); !ok {
					return fin()
				}
			}
		}
		if !drain() {
			return fin()
		}
		last := ei == len(sub)-1
		op := open()
		if len(op) == 0 {
			break
		}
		if last {
			if len(op) <= 5 {
				dist["live"] = "<=5"
			} else {
				dist["live"] = "6+"
			}
			for _, pi := range r.Perm(len(op)) { // every survivor
				if !probe(op[pi]) {
					return fin()
				}
			}
			if r.Chance(30) { // and once more, in another order
				for _, pi := range r.Perm(len(op)) {
					if !probe(op[pi]) {
						return fin()
					}
				}
			}
		} else if r.Chance(50) {
			for n := r.Range(1, 2); n > 0; n-- {
				if !probe(op[r.Intn(len(op))]) {
					return fin()
				}
			}
		}
	}
	switch {
	case probes == 0:
		dist["probes"] = "0"
	case probes <= 4:
		dist["probes"] = "1-4"
	default:
		dist["probes"] = "5+"
	}
	for k, v := range dist {
		ctx.Res.Dist("wide-" + k + "=" + v)
	}
	return s.finish(s.tearDown())
}
