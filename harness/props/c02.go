//go:build verif && (vh_all || vh_c02)

package props

import (
	"encoding/json"
	"fmt"
	"strings"

	"github.com/cloudwego/eino/verifharness/gcase"
	"github.com/cloudwego/eino/verifharness/vh"
)

func init() { vh.Register("C02", runC02) }

// c02Extra: additional case families of this property (other files of the c02 group append
// to it in their init); each gets the same Ctx and reports into the same result.
var c02Extra []vh.PropFunc

// c02ReplayExtra: replay dispatch for the extra families, by the "kind" field of the case.
var c02ReplayExtra = map[string]func(ctx *vh.Ctx, raw json.RawMessage) error{}

type c02Case struct {
	G     *gcase.Graph `json:"g"`
	Input string       `json:"input"`
}

func c02One(ctx *vh.Ctx, c *c02Case) error {
	ctx.Progress.Mark(c)
	impl, class := gcase.Run(c.G, c.Input, nil)
	nodes, _, branches, nested, _, fanin := gcase.Shape(c.G)
	ctx.Res.Dist(fmt.Sprintf("nodes=%d", nodes))
	ctx.Res.Dist(fmt.Sprintf("branches=%d", branches))
	if impl == nil {
		cl := strings.SplitN(class, ":", 2)[0]
		ctx.Res.Dist("class=" + class)
		if cl == "hang" || cl == "panic-escaped" {
			ctx.Res.Disagree(vh.Disagreement{Signature: "C02:" + cl, What: "run " + class, Case: c})
		}
		ctx.Res.Count("malformed", false)
		return nil
	}
	raw, err := ctx.Oracle.Ask("C02", c)
	if err != nil {
		return err
	}
	var model gcase.OutcomeJ
	if err := json.Unmarshal(raw, &model); err != nil {
		return err
	}
	gcase.NormalizeModel(c.G, &model)
	// the hypothesis of the run-level theorems (dag_at_most_once) must hold for every graph
	// eino compiles in this mode; otherwise the theorem does not speak about this run
	var hyp struct {
		WF  *bool `json:"wf"`
		WF2 *bool `json:"wf2"`
		WF3 *bool `json:"wf3"`
		GWF *bool `json:"gwf"`
	}
	_ = json.Unmarshal(raw, &hyp)
	if hyp.WF == nil || !*hyp.WF {
		ctx.Res.Dist("wf-hypothesis=false")
		ctx.Res.Disagree(vh.Disagreement{Signature: "C02:wf-hypothesis", What: "eino compiled and ran this all-predecessor graph, but the model's compiled runner does not satisfy DagWF (distinct keys, declared predecessors, acyclic) — the hypothesis of dag_at_most_once", Case: c, Model: model, Impl: impl})
		return nil
	}
	ctx.Res.Dist("wf-hypothesis=true")
	// second hypothesis (dag_enabled_nodes_start): counted, and reported if it fails for a graph eino runs
	if hyp.WF2 == nil || !*hyp.WF2 {
		ctx.Res.Dist("wf2-hypothesis=false")
		ctx.Res.Disagree(vh.Disagreement{Signature: "C02:wf2-hypothesis", What: "eino compiled and ran this all-predecessor graph, but the model's compiled runner does not satisfy DagWF2 (every declared predecessor lists the node as a control / data successor) — the hypothesis of dag_enabled_nodes_start", Case: c, Model: model, Impl: impl})
		return nil
	}
	ctx.Res.Dist("wf2-hypothesis=true")
	// the definition-level hypothesis (well_formed_graph_compiles_to_well_formed_runner): every
	// all-predecessor graph eino's Compile accepts must satisfy GraphDefWF
	if hyp.GWF == nil || !*hyp.GWF {
		ctx.Res.Dist("graphdef-wf=false")
		ctx.Res.Disagree(vh.Disagreement{Signature: "C02:graphdef-wf", What: "eino compiled and ran this all-predecessor graph, but the definition does not satisfy GraphDefWF (distinct keys other than START/END, edge targets and branch ends exist, acyclic) — the hypothesis of the compiled_graph_* theorems", Case: c, Model: model, Impl: impl})
		return nil
	}
	ctx.Res.Dist("graphdef-wf=true")
	// third hypothesis (dag_result_schedule_independent, Props/C03.lean): counted only
	ctx.Res.Dist(fmt.Sprintf("wf3-hypothesis=%v", hyp.WF3 != nil && *hyp.WF3))
	if impl.Result.Err != nil {
		ctx.Res.Dist("result=" + impl.Result.Err.C)
	} else {
		ctx.Res.Dist("result=ok")
	}
	ran := 0
	for _, st := range impl.Trace {
		ran += len(st)
	}
	if ran < nodes {
		ctx.Res.Dist("some-skipped")
	}
	ctx.Res.Count(vh.Canon(c), len(impl.Trace) >= 2 && (fanin || branches > 0 || nested > 0))
	ctx.Res.Sample(c)
	resEq := gcase.ResultMatches(&model, impl)
	model.Alts = nil
	if !resEq {
		ctx.Res.Disagree(vh.Disagreement{Signature: "C02:result", What: "run result differs from the model", Case: c, Model: model, Impl: impl})
		return nil
	}
	if !vh.CanonEq(impl.Trace, model.Trace) {
		ctx.Res.Disagree(vh.Disagreement{Signature: "C02:trace", What: "which nodes run in which step on which merged input differs from the model", Case: c, Model: model, Impl: impl})
	}
	// direct property predicate: at most once
	seen := map[string]int{}
	for _, st := range impl.Trace {
		for _, t := range st {
			seen[t.K]++
			if seen[t.K] == 2 {
				ctx.Res.Disagree(vh.Disagreement{Signature: "C02:ran-twice", What: "node " + t.K + " executed twice in an all-predecessor run", Case: c, Impl: impl})
			}
		}
	}
	return nil
}

func runC02(ctx *vh.Ctx) error {
	ctx.Res.Rule = "random acyclic all-predecessor (DAG) graphs: 1-8 nodes, forward edges, 0-3 single/multi branches (converging, nested skips), fan-in by map merge, pass-through/failing nodes, nested graphs; non-trivial = >=2 steps and (fan-in | branch | nested); distinct by canonical case"
	if ctx.Replay != nil {
		var probe struct {
			Kind string `json:"kind"`
		}
		if json.Unmarshal(ctx.Replay, &probe) == nil && probe.Kind != "" {
			if f, ok := c02ReplayExtra[probe.Kind]; ok {
				return f(ctx, ctx.Replay)
			}
		}
		var c c02Case
		if err := json.Unmarshal(ctx.Replay, &c); err != nil {
			return err
		}
		return c02One(ctx, &c)
	}
	n := ctx.N(2500, 60000)
	for i := 0; i < n && ctx.TimeLeft(); i++ {
		o := gcase.GenOpts{Mode: "dag", MaxNodes: 7, Depth: 1, FailPct: 3, BranchPct: 30}
		if ctx.Thorough() {
			o.MaxNodes = 12
		}
		c := &c02Case{G: gcase.Gen(ctx.Rng, o), Input: fmt.Sprintf("x%d", ctx.Rng.Intn(5))}
		before := len(ctx.Res.Disagreements)
		if err := c02One(ctx, c); err != nil {
			return err
		}
		if len(ctx.Res.Disagreements) > before {
			ctx.ShrinkNew(before, 300, func(cs any) []any {
				cc, ok := cs.(*c02Case)
				if !ok {
					return nil
				}
				var out []any
				for _, g := range gcase.ShrinkCandidates(cc.G) {
					out = append(out, &c02Case{G: g, Input: cc.Input})
				}
				return out
			}, func(sh *vh.Ctx, cand any) { _ = c02One(sh, cand.(*c02Case)) })
		}
	}
	for _, f := range c02Extra {
		if err := f(ctx); err != nil {
			return err
		}
	}
	return nil
}
