//go:build verif && (vh_all || vh_c05 || vh_c06)

package props

import (
	"fmt"
	"os"
	"strings"
	"time"

	"github.com/cloudwego/eino/verifharness/gcase5"
	"github.com/cloudwego/eino/verifharness/vh"
)

// Case family "keyed" of C05 / C06 (registered for C05 in c05_keyed_reg.go and for C06 in
// c06_keyed.go; the same generated cases and runs, judged by the property being checked): the graph case language with compose.WithInputKey / WithOutputKey
// nodes. The pending input of an input-keyed node is the whole map of its predecessors (the
// wrapper's input type), converted stream <-> value by the wrapper's own converter when a
// checkpoint is written / restored in a stream paradigm; so the interrupt points are placed so that
// keyed nodes are the pending tasks (interrupt-before on the node, interrupt-after on a
// predecessor, the node itself asks for a rerun) and the resume histories mix the four calling
// paradigms. Same oracle and comparison as the main family (gcase5.Evaluate): per call against the
// model, across calls against the uninterrupted run.

var c05kParadigms = []string{"invoke", "stream", "collect", "transform"}

func c05kDraw(r *vh.Rand) string {
	switch x := r.Intn(100); {
	case x < 30:
		return "invoke"
	case x < 65:
		return "stream"
	case x < 80:
		return "collect"
	default:
		return "transform"
	}
}

// c05KeyedGen draws one case of the family (from the family's own generator state).
func c05KeyedGen(ctx *vh.Ctx, r *vh.Rand, i int) *gcase5.Case {
	o := gcase5.GenOpts{Mode: "mixed", MaxNodes: 5, Depth: 1, Cycles: true, FailPct: 1, BranchPct: 15,
		StatePct: 50, HandlerPct: 25, RerunPct: 8, IntPct: 12, KeyPct: 45, KeyBias: true, NestedPct: 12}
	switch i % 4 {
	case 1: // all-predecessor graphs: fan-in, channels that hold a keyed producer's output across an interrupt
		o.Mode = "dag"
		o.MaxNodes = 6
	case 2: // small graphs, every node keyed
		o.MaxNodes = 3
		o.KeyPct = 80
		o.BranchPct = 8
	case 3: // keyed nodes inside nested graphs
		o.NestedPct = 40
		o.MaxNodes = 4
		o.Depth = 2
	}
	c := &gcase5.Case{G: gcase5.Gen(r, o), Input: fmt.Sprintf("x%d", r.Intn(5)), MaxCalls: 40}
	if r.Chance(85) {
		// a paradigm per call (cycling); at least one call of the history runs on streams
		n := r.Range(2, 4)
		stream := false
		for j := 0; j < n; j++ {
			p := c05kDraw(r)
			stream = stream || p != "invoke"
			c.Paradigms = append(c.Paradigms, p)
		}
		if !stream {
			c.Paradigms[r.Intn(n)] = c05kParadigms[1+r.Intn(3)]
		}
	}
	return c
}

// c05FamilyOn: VERIF_FAMILY=<name>[,<name>…] (main | eager | keyed | streams) restricts a C05 / C06 run
// to some of its case families (a development aid: e.g. many seeds of one family); unset = all.
func c05FamilyOn(name string) bool {
	f := os.Getenv("VERIF_FAMILY")
	if f == "" {
		return true
	}
	for _, x := range strings.Split(f, ",") {
		if strings.TrimSpace(x) == name {
			return true
		}
	}
	return false
}

// c05PinOther: the other property of the pair (C05 <-> C06) has its own source fact and repair; the
// model runs with the variant the implementation under test has (probed), so that the check of one
// property does not depend on the other's repair.
func c05PinOther(ctx *vh.Ctx) func(c *gcase5.Case) {
	if ctx.Prop == "C06" {
		other := gcase5.ProbeFwdStale()
		return func(c *gcase5.Case) { c.CfgFwdStale = &other }
	}
	other := gcase5.ProbeInitialChecked()
	return func(c *gcase5.Case) { c.CfgInitialChecked = &other }
}

func runC05Keyed(ctx *vh.Ctx) error {
	if !c05FamilyOn("keyed") {
		return nil
	}
	ctx.Res.Rule += " | keyed family: the same case language with WithInputKey / WithOutputKey tag nodes (45-80 % of the tag nodes; an input key is one the node's input carries, rarely a missing one), interrupt points biased so that input-keyed nodes are pending tasks of a checkpoint (interrupt-before on the node, interrupt-after on a predecessor, the node asks for a rerun), 85 % of the histories with a random paradigm per call (invoke / stream / collect / transform, at least one on streams); compared like the main family"
	pin := c05PinOther(ctx)
	r := vh.NewRand(ctx.Seed*0x9E3779B97F4A7C15 + 0xC05)
	n := ctx.N(2500, 25000)
	limit := time.Duration(ctx.N(9, 60)) * time.Second
	start := time.Now()
	done := 0
	for i := 0; i < n && time.Since(start) < limit; i++ {
		done++
		c := c05KeyedGen(ctx, r, i)
		if ctx.Prop == "C06" && r.Chance(8) {
			c.NoID = true // no checkpoint id: a single call, nothing may be stored
		}
		pin(c)
		if err := gcase5.Evaluate(ctx, ctx.Prop, c, true); err != nil {
			return err
		}
	}
	ctx.Res.Extra["keyed_family_seconds"] = time.Since(start).Seconds()
	ctx.Res.Extra["keyed_family_cases"] = done
	return nil
}
