//go:build verif && (vh_all || vh_c10)

package props

// C10, case kind "detach" — work that user code inside a node DETACHES from (or re-attaches to)
// the run's callback context with the public API of package callbacks.
//
// A case is a graph START → n₁ ∥ … ∥ n_k → join → END of lambdas (meeting at a barrier).  Inside
// its body a node performs 0-2 work items; each derives a context from the one the node was
// called with by a chain of 0-2 of
//
//	callbacks.InitCallbacks(ctx, info)           no handlers: detach completely
//	callbacks.InitCallbacks(ctx, info, hs...)    detach and attach handlers of its own
//	callbacks.ReuseHandlers(ctx, info)           keep the handlers, change the run info
//
// and under the derived context fires callbacks.OnStart / OnEnd / OnError itself, runs a
// component that fires its own callbacks (a DefaultChatTemplate), or invokes a compiled inner
// graph (optionally with call-option handlers of its own).  Handlers of the outer run: global
// (mostly none — a process without global handlers is where InitCallbacks has nothing to
// install), caller context, undesignated options, designated to the nodes.
//
// The Lean side (EinoV/Model/C10Detach.lean, detProg) adds every derived context, inner graph and
// inner node as a unit of the unit machine (an `init` unit below the node, a `reuse` unit,
// `append` units) and the machine says who hears what.  Compared per unit: the callbacks of each
// handler, the payloads the node's own unit is reported with, the outcome, the flow's result
// against a handler-free run, the pairing predicate.

import (
	"context"
	"encoding/json"
	"fmt"
	"sort"
	"strconv"
	"strings"
	"time"

	"github.com/cloudwego/eino/callbacks"
	"github.com/cloudwego/eino/components/prompt"
	"github.com/cloudwego/eino/compose"
	icb "github.com/cloudwego/eino/internal/callbacks"
	"github.com/cloudwego/eino/schema"
	"github.com/cloudwego/eino/verifharness/vh"
)

func init() {
	c10Extra = append(c10Extra, c10Family{
		Kind: "detach",
		Rule: "detach: START→1-3 parallel lambdas (barrier)→join; each node body performs 0-2 work items = a chain of 0-2 context derivations (callbacks.InitCallbacks without handlers / with 1-2 own handlers, callbacks.ReuseHandlers) followed by firing OnStart+OnEnd|OnError by hand, a DefaultChatTemplate.Format, or the Invoke of a compiled inner graph (0-2 call-option handlers, inner node ok/err); outer handlers: global (25%) / caller context / undesignated / designated to nodes; invoke|stream, pregel|dag; units from the Lean model detProg; non-trivial = ≥1 work item and ≥1 outer handler source; distinct by work shapes+handler-supply signature",
		Fixed: c10dFixed,
		Gen:   func(r *vh.Rand) any { return c10dGen(r) },
		Parse: func(raw []byte) (any, error) {
			var c c10dCase
			if err := json.Unmarshal(raw, &c); err != nil {
				return nil, err
			}
			return &c, nil
		},
		One: func(ctx *vh.Ctx, c any) error { return c10dOne(ctx, c.(*c10dCase)) },
	})
}

// ---------------------------------------------------------------- case language

type c10dOp struct {
	Op string  `json:"op"` // init0 | initH | reuse
	Hs []c10Hd `json:"hs,omitempty"`
}

type c10dWork struct {
	Ops        []c10dOp `json:"ops"`
	Inner      string   `json:"inner"` // fire | tpl | graph
	InnerFails bool     `json:"innerFails,omitempty"`
	InnerOpts  []c10Hd  `json:"innerOpts,omitempty"` // graph: handlers passed to the inner Invoke
}

type c10dNode struct {
	Key  string     `json:"key"`
	Fail bool       `json:"fail,omitempty"`
	Work []c10dWork `json:"work"`
}

type c10dCase struct {
	Kind     string       `json:"kind"` // "detach"
	Mode     string       `json:"mode"`
	Paradigm string       `json:"paradigm"`
	Globals  []c10Hd      `json:"globals"`
	UserInit *c10UserInit `json:"userInit,omitempty"`
	Opts     []c10Opt     `json:"opts"`
	Nodes    []c10dNode   `json:"nodes"`
}

// ---------------------------------------------------------------- the graph

func c10dInnerGraph(name, step string, fails bool) (compose.Runnable[string, string], error) {
	g := compose.NewGraph[string, string]()
	if err := g.AddLambdaNode("step", compose.InvokableLambda(func(_ context.Context, in string) (string, error) {
		if fails {
			return "", errC10Node
		}
		return in + "+inner", nil
	}, compose.WithLambdaType("Li")), compose.WithNodeName(step)); err != nil {
		return nil, err
	}
	if err := g.AddEdge(compose.START, "step"); err != nil {
		return nil, err
	}
	if err := g.AddEdge("step", compose.END); err != nil {
		return nil, err
	}
	return g.Compile(context.Background(), compose.WithGraphName(name))
}

// the body of node n: the work items one after the other, then the node's own result
func c10dBody(n c10dNode, b *c10Barrier, rec *c10Rec) func(ctx context.Context, in string) (string, error) {
	return func(ctx context.Context, in string) (string, error) {
		b.wait()
		for j, w := range n.Work {
			c := ctx
			for k, op := range w.Ops {
				info := &callbacks.RunInfo{Name: fmt.Sprintf("d:%s.%d.%d", n.Key, j, k)}
				switch op.Op {
				case "init0":
					c = callbacks.InitCallbacks(c, info)
				case "initH":
					c = callbacks.InitCallbacks(c, info, c10MkAll(op.Hs, rec)...)
				case "reuse":
					c = callbacks.ReuseHandlers(c, info)
				}
			}
			switch w.Inner {
			case "graph":
				r, err := c10dInnerGraph(fmt.Sprintf("ig:%s.%d", n.Key, j), fmt.Sprintf("is:%s.%d", n.Key, j), w.InnerFails)
				if err != nil {
					return "", fmt.Errorf("inner graph does not compile: %w", err)
				}
				var opts []compose.Option
				if len(w.InnerOpts) > 0 {
					opts = append(opts, compose.WithCallbacks(c10MkAll(w.InnerOpts, rec)...))
				}
				_, _ = r.Invoke(c, "private-in:"+in, opts...) // the node goes on whatever the inner run returns
			case "tpl":
				ref := "{a}"
				if w.InnerFails {
					ref = "{nosuchvar}"
				}
				_, _ = prompt.FromMessages(schema.FString, schema.UserMessage("private "+ref)).Format(c, map[string]any{"a": in})
			default:
				c2 := callbacks.OnStart(c, "private-in:"+in)
				if w.InnerFails {
					callbacks.OnError(c2, errC10Node)
				} else {
					callbacks.OnEnd(c2, "private-out:"+in)
				}
			}
		}
		if n.Fail {
			return "", errC10Node
		}
		return in + ">" + n.Key, nil
	}
}

func c10dGraph(c *c10dCase, b *c10Barrier, rec *c10Rec) (*compose.Graph[string, string], error) {
	g := compose.NewGraph[string, string]()
	if err := g.AddLambdaNode("join", c10Join(), compose.WithNodeName(c10NodeName([]string{"join"}))); err != nil {
		return nil, err
	}
	for _, n := range c.Nodes {
		if err := g.AddLambdaNode(n.Key, compose.InvokableLambda(c10dBody(n, b, rec), compose.WithLambdaType("Li")),
			compose.WithNodeName(c10NodeName([]string{n.Key})), compose.WithOutputKey(n.Key)); err != nil {
			return nil, err
		}
		if err := g.AddEdge(compose.START, n.Key); err != nil {
			return nil, err
		}
		if err := g.AddEdge(n.Key, "join"); err != nil {
			return nil, err
		}
	}
	if err := g.AddEdge("join", compose.END); err != nil {
		return nil, err
	}
	return g, nil
}

// ---------------------------------------------------------------- running

type c10dObs struct {
	Class    string              `json:"class"`
	Out      string              `json:"out"`
	RefClass string              `json:"refClass"`
	RefOut   string              `json:"refOut"`
	Barrier  bool                `json:"barrierTimedOut,omitempty"`
	Units    map[string][][2]int `json:"units"`
	// "info#timing" → the distinct payloads the handlers saw (timings 0 and 1)
	Payloads map[string][]string `json:"payloads,omitempty"`
}

func c10dExec(c *c10dCase, withHandlers bool) (out, class string, rec *c10Rec, late bool) {
	rec = &c10Rec{}
	saved := icb.GlobalHandlers
	defer func() { icb.GlobalHandlers = saved }()
	callbacks.InitCallbackHandlers(nil)
	b := c10NewBarrier(len(c.Nodes))
	ctx := context.Background()
	copts := []compose.GraphCompileOption{compose.WithGraphName("G")}
	if c.Mode == "dag" {
		copts = append(copts, compose.WithNodeTriggerMode(compose.AllPredecessor))
	}
	var opts []compose.Option
	// the handlers user code creates inside the nodes exist in both runs; in the reference run
	// they record into a recorder nobody reads
	bodyRec := rec
	if withHandlers {
		if len(c.Globals) > 0 {
			callbacks.AppendGlobalHandlers(c10MkAll(c.Globals, rec)...)
		}
		if c.UserInit != nil {
			backing := make([]callbacks.Handler, len(c.UserInit.Hs)+c.UserInit.Spare)
			copy(backing, c10MkAll(c.UserInit.Hs, rec))
			for i := len(c.UserInit.Hs); i < len(backing); i++ {
				backing[i] = c10Mk(c10Hd{ID: 0}, rec)
			}
			ctx = callbacks.InitCallbacks(ctx, &callbacks.RunInfo{Name: "caller"}, backing[:len(c.UserInit.Hs)]...)
		}
		opts = append(opts, c10CallOpts(&c10Compose{Opts: c.Opts}, rec)...)
	}
	var runErr error
	finished := false
	panicked, pv := vh.Safely(func() {
		finished = vh.WithTimeout(40*time.Second, func() {
			g, err := c10dGraph(c, b, bodyRec)
			if err != nil {
				class = "build:" + err.Error()
				return
			}
			r, err := g.Compile(ctx, copts...)
			if err != nil {
				class = "build:" + err.Error()
				return
			}
			if c.Paradigm == "stream" {
				var sr *schema.StreamReader[string]
				sr, runErr = r.Stream(ctx, "x", opts...)
				if runErr == nil {
					out, runErr = c10ReadAll(sr)
				}
			} else {
				out, runErr = r.Invoke(ctx, "x", opts...)
			}
		})
	})
	switch {
	case panicked:
		class = fmt.Sprint("panic:", pv)
	case !finished:
		class = "hang"
	case class != "":
	case runErr != nil:
		class = "error"
	default:
		class = "ok"
	}
	vh.WithTimeout(20*time.Second, func() { rec.wg.Wait() })
	b.mu.Lock()
	late = b.late
	b.mu.Unlock()
	return
}

func c10dRun(c *c10dCase) *c10dObs {
	o := &c10dObs{Units: map[string][][2]int{}, Payloads: map[string][]string{}}
	o.RefOut, o.RefClass, _, _ = c10dExec(c, false)
	var rec *c10Rec
	o.Out, o.Class, rec, o.Barrier = c10dExec(c, true)
	rec.mu.Lock()
	defer rec.mu.Unlock()
	for _, e := range rec.evs {
		o.Units[e.Info] = append(o.Units[e.Info], [2]int{e.H, e.T})
		if (e.T == 0 || e.T == 1) && strings.HasPrefix(e.Info, "n:") {
			k := fmt.Sprintf("%s#%d", e.Info, e.T)
			seen := false
			for _, q := range o.Payloads[k] {
				seen = seen || q == e.Payload
			}
			if !seen {
				o.Payloads[k] = append(o.Payloads[k], e.Payload)
			}
		}
	}
	for k := range o.Payloads {
		sort.Strings(o.Payloads[k])
	}
	return o
}

type c10dModel struct {
	Outcome string         `json:"outcome"`
	Units   []c10ModelUnit `json:"units"`
	CbsLen  int            `json:"cbsLen"`
	CbsCap  int            `json:"cbsCap"`
}

func c10dChain(w c10dWork) string {
	var ops []string
	for _, op := range w.Ops {
		ops = append(ops, op.Op)
	}
	return strings.Join(ops, "+")
}

// the role of a unit, from its run info: root | node | join | ctx[chain] | inner-graph[chain] | inner-step[chain]
func c10dRole(c *c10dCase, info string) string {
	name := strings.SplitN(info, "|", 2)[0]
	chain := func(id string) string {
		ps := strings.Split(id, ".")
		if len(ps) < 2 {
			return "?"
		}
		j, _ := strconv.Atoi(ps[1])
		for _, n := range c.Nodes {
			if n.Key == ps[0] && j < len(n.Work) {
				return c10dChain(n.Work[j])
			}
		}
		return "?"
	}
	switch {
	case name == "G":
		return "root"
	case name == "n:join":
		return "join"
	case strings.HasPrefix(name, "n:"):
		return "node"
	case strings.HasPrefix(name, "d:"):
		return "ctx[" + chain(name[2:]) + "]"
	case strings.HasPrefix(name, "ig:"):
		return "inner-graph[" + chain(name[3:]) + "]"
	case strings.HasPrefix(name, "is:"):
		return "inner-step[" + chain(name[3:]) + "]"
	}
	return "?"
}

func c10dOne(ctx *vh.Ctx, c *c10dCase) error {
	ctx.Progress.Mark(c)
	raw, err := ctx.Oracle.Ask("C10", c)
	if err != nil {
		return err
	}
	var mdl c10dModel
	if err := json.Unmarshal(raw, &mdl); err != nil {
		return err
	}
	impl := c10dRun(c)

	nDesig, nUndes := 0, 0
	masked := map[int]bool{}
	note := func(hs []c10Hd) {
		for _, h := range hs {
			masked[h.ID] = masked[h.ID] || h.Mask != nil
		}
	}
	for _, o := range c.Opts {
		if len(o.Paths) > 0 {
			nDesig++
		} else {
			nUndes++
		}
		note(o.Hs)
	}
	note(c.Globals)
	if c.UserInit != nil {
		note(c.UserInit.Hs)
	}
	var keys []string
	nWork := 0
	for _, n := range c.Nodes {
		var ws []string
		for _, w := range n.Work {
			nWork++
			for _, op := range w.Ops {
				note(op.Hs)
			}
			note(w.InnerOpts)
			s := "[" + c10dChain(w) + "]" + w.Inner
			if w.InnerFails {
				s += "!"
			}
			if len(w.InnerOpts) > 0 {
				s += fmt.Sprintf("+o%d", len(w.InnerOpts))
			}
			ws = append(ws, s)
			ctx.Res.Dist("detach.chain=" + c10dChain(w))
			ctx.Res.Dist("detach.inner=" + w.Inner)
		}
		k := strings.Join(ws, ";")
		if n.Fail {
			k += "!"
		}
		keys = append(keys, k)
	}
	tag := c.Mode + "/" + c.Paradigm
	ctx.Res.Dist("kind=detach")
	ctx.Res.Dist("family=detach:" + tag)
	ctx.Res.Dist(fmt.Sprintf("detach.globals=%d", len(c.Globals)))
	ctx.Res.Dist(fmt.Sprintf("detach.work=%d", nWork))
	ctx.Res.Dist("detach.class=" + strings.SplitN(impl.Class, ":", 2)[0])
	ui := "-"
	if c.UserInit != nil {
		ui = fmt.Sprintf("%d+%d", len(c.UserInit.Hs), c.UserInit.Spare)
	}
	ctx.Res.Count(fmt.Sprintf("detach|%s|%s|g%d|u%s|o%d|d%d", tag, strings.Join(keys, "∥"), len(c.Globals), ui, nUndes, nDesig),
		nWork > 0 && (nDesig+nUndes+len(c.Globals) > 0 || c.UserInit != nil))
	ctx.Res.Sample(c)

	dis := func(what, role, msg string) {
		ctx.Res.Disagree(vh.Disagreement{Signature: "C10:detach:" + what + ":" + role, What: msg, Case: c, Model: mdl, Impl: impl})
	}
	if strings.HasPrefix(impl.Class, "panic") || impl.Class == "hang" || strings.HasPrefix(impl.Class, "build") ||
		strings.HasPrefix(impl.RefClass, "build") {
		dis("run-"+strings.SplitN(impl.Class, ":", 2)[0], "root", "the run did not complete normally: "+impl.Class+" (handler-free run: "+impl.RefClass+")")
		return nil
	}
	if impl.Barrier {
		dis("barrier", "root", "the parallel nodes did not all reach their bodies (harness shape assumption broken)")
		return nil
	}
	if impl.Class != mdl.Outcome {
		dis("outcome", "root", fmt.Sprintf("run outcome %q, expected %q", impl.Class, mdl.Outcome))
	}
	if impl.Out != impl.RefOut || impl.Class != impl.RefClass {
		dis("flow-output", "root", fmt.Sprintf("result with handlers %s %q differs from the handler-free run %s %q", impl.Class, impl.Out, impl.RefClass, impl.RefOut))
	}
	// per unit against the unit machine
	seen := map[string]bool{}
	for _, mu := range mdl.Units {
		seen[mu.Info] = true
		if cl := c10DiffClass(mu, c.Globals, impl.Units[mu.Info]); cl != "" {
			dis(cl, c10dRole(c, mu.Info), fmt.Sprintf("unit %q: callbacks (handler,timing) %v on the implementation, %v in the model (the unit's handler list in the model: %v)",
				mu.Info, impl.Units[mu.Info], mu.Ev, mu.Handlers))
		}
	}
	infos := make([]string, 0, len(impl.Units))
	for info := range impl.Units {
		infos = append(infos, info)
	}
	sort.Strings(infos)
	for _, info := range infos {
		if !seen[info] && len(impl.Units[info]) > 0 {
			dis("unknown-unit", "root", fmt.Sprintf("callbacks delivered with run info %q, which no unit of this run has: %v", info, impl.Units[info]))
		}
	}
	// the node's own unit is reported with what the node consumed / produced, not with what a
	// piece of detached work did
	for _, n := range c.Nodes {
		info := c10NodeName([]string{n.Key}) + "|Li|Lambda"
		for t, want := range map[int]string{0: "x", 1: "x>" + n.Key} {
			if ps, ok := impl.Payloads[fmt.Sprintf("%s#%d", info, t)]; ok && (len(ps) != 1 || ps[0] != want) {
				dis("payload", "node", fmt.Sprintf("unit %q timing %d: handlers were given the payload(s) %q, the node consumed/produced %q", info, t, ps, want))
			}
		}
	}
	// oracle-independent: per unit, every unfiltered handler got as many finishing callbacks as starts
	for _, info := range infos {
		starts, ends := map[int]int{}, map[int]int{}
		hs := map[int]bool{}
		for _, e := range impl.Units[info] {
			hs[e[0]] = true
			if e[1] == 0 || e[1] == 3 {
				starts[e[0]]++
			} else {
				ends[e[0]]++
			}
		}
		ids := make([]int, 0, len(hs))
		for h := range hs {
			ids = append(ids, h)
		}
		sort.Ints(ids)
		for _, h := range ids {
			if !masked[h] && starts[h] != ends[h] {
				dis("unpaired", c10dRole(c, info), fmt.Sprintf("unit %q: handler %d got %d start and %d end/error callbacks: %v", info, h, starts[h], ends[h], impl.Units[info]))
				break
			}
		}
	}
	return nil
}

// ---------------------------------------------------------------- generator

func c10dGenWork(r *vh.Rand, ids *c10IDs) c10dWork {
	w := c10dWork{Ops: []c10dOp{}}
	own := func() c10dOp { return c10dOp{Op: "initH", Hs: ids.hds(r, r.Range(1, 2))} }
	switch x := r.Intn(100); {
	case x < 36:
		w.Ops = []c10dOp{{Op: "init0"}}
	case x < 54:
		w.Ops = []c10dOp{own()}
	case x < 64:
		w.Ops = []c10dOp{{Op: "reuse"}}
	case x < 72:
		w.Ops = []c10dOp{{Op: "init0"}, {Op: "reuse"}}
	case x < 80:
		w.Ops = []c10dOp{own(), {Op: "reuse"}}
	case x < 86:
		w.Ops = []c10dOp{{Op: "reuse"}, {Op: "init0"}}
	case x < 91:
		w.Ops = []c10dOp{own(), {Op: "init0"}}
	}
	switch x := r.Intn(100); {
	case len(w.Ops) == 0 || x < 38:
		w.Inner = "graph"
		if r.Chance(45) {
			w.InnerOpts = ids.hds(r, r.Range(1, 2))
		}
	case x < 80:
		w.Inner = "fire"
	default:
		w.Inner = "tpl"
	}
	w.InnerFails = r.Chance(15)
	return w
}

func c10dGen(r *vh.Rand) *c10dCase {
	c := &c10dCase{Kind: "detach", Mode: "pregel", Paradigm: "invoke", Opts: []c10Opt{}, Globals: []c10Hd{}}
	ids := &c10IDs{}
	if r.Chance(40) {
		c.Mode = "dag"
	}
	if r.Chance(40) {
		c.Paradigm = "stream"
	}
	var paths [][]string
	total := 0
	k := r.Range(1, 3)
	for i := 0; i < k; i++ {
		n := c10dNode{Key: string(rune('A' + i)), Fail: r.Chance(8), Work: []c10dWork{}}
		nw := r.Intn(3)
		if i == k-1 && total == 0 && nw == 0 {
			nw = 1
		}
		for j := 0; j < nw; j++ {
			n.Work = append(n.Work, c10dGenWork(r, ids))
		}
		total += nw
		c.Nodes = append(c.Nodes, n)
		paths = append(paths, []string{n.Key})
	}
	if r.Chance(25) {
		paths = append(paths, []string{"join"})
	}
	if r.Chance(25) {
		c.Globals = ids.hds(r, r.Range(1, 2))
	}
	if r.Chance(20) {
		c.UserInit = &c10UserInit{Hs: ids.hds(r, r.Range(0, 3)), Spare: r.Intn(3)}
	}
	nU := r.Intn(4)
	if r.Chance(25) {
		nU = 3
	}
	for i := 0; i < nU; i++ {
		n := 1
		if r.Chance(25) {
			n = r.Range(1, 3)
		}
		c.Opts = append(c.Opts, c10Opt{Hs: ids.hds(r, n)})
	}
	for _, p := range paths {
		if r.Chance(65) {
			c.Opts = append(c.Opts, c10Opt{Hs: ids.hds(r, r.Range(1, 2)), Paths: [][]string{p}})
		}
	}
	perm := r.Perm(len(c.Opts))
	sh := make([]c10Opt, len(c.Opts))
	for i, j := range perm {
		sh[i] = c.Opts[j]
	}
	c.Opts = sh
	return c
}

// hand-written cases run first on every seed: one node, one work item of each chain × inner kind,
// a handler passed to the call and one designated to the node, with and without a global handler
func c10dFixed() []any {
	var out []any
	mk := func(paradigm string, globals []c10Hd, ws ...c10dWork) {
		for i := range ws {
			if ws[i].Ops == nil {
				ws[i].Ops = []c10dOp{}
			}
		}
		out = append(out, &c10dCase{Kind: "detach", Mode: "pregel", Paradigm: paradigm, Globals: globals,
			Opts:  []c10Opt{{Hs: []c10Hd{{ID: 1}}}, {Hs: []c10Hd{{ID: 2}}, Paths: [][]string{{"A"}}}},
			Nodes: []c10dNode{{Key: "A", Work: ws}, {Key: "B", Work: []c10dWork{}}}})
	}
	none := []c10Hd{}
	i0, re := c10dOp{Op: "init0"}, c10dOp{Op: "reuse"}
	ih := c10dOp{Op: "initH", Hs: []c10Hd{{ID: 7}}}
	mk("invoke", none, c10dWork{Ops: []c10dOp{i0}, Inner: "fire"})
	mk("stream", none, c10dWork{Ops: []c10dOp{i0}, Inner: "fire", InnerFails: true})
	mk("invoke", none, c10dWork{Ops: []c10dOp{i0}, Inner: "tpl"})
	mk("invoke", none, c10dWork{Ops: []c10dOp{i0}, Inner: "graph"})
	mk("invoke", none, c10dWork{Ops: []c10dOp{i0}, Inner: "graph", InnerOpts: []c10Hd{{ID: 8}}})
	mk("invoke", none, c10dWork{Ops: []c10dOp{ih}, Inner: "fire"})
	mk("invoke", none, c10dWork{Ops: []c10dOp{ih}, Inner: "graph", InnerFails: true})
	mk("invoke", none, c10dWork{Ops: []c10dOp{re}, Inner: "fire"})
	mk("invoke", none, c10dWork{Ops: []c10dOp{i0, re}, Inner: "fire"})
	mk("invoke", none, c10dWork{Ops: []c10dOp{ih, re}, Inner: "tpl", InnerFails: true})
	mk("invoke", none, c10dWork{Ops: []c10dOp{re, i0}, Inner: "graph"})
	mk("invoke", none, c10dWork{Inner: "graph"})
	mk("invoke", none, c10dWork{Ops: []c10dOp{i0}, Inner: "fire"}, c10dWork{Ops: []c10dOp{i0}, Inner: "graph"})
	mk("invoke", []c10Hd{{ID: 9}}, c10dWork{Ops: []c10dOp{i0}, Inner: "fire"})
	mk("stream", []c10Hd{{ID: 9}}, c10dWork{Ops: []c10dOp{i0}, Inner: "graph"})
	return out
}
