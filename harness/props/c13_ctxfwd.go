//go:build verif && (vh_all || vh_c13)

package props

// C13, two more families.
//
//   ctxend  — the context of the run ends while a graph (at any nesting level) is between two
//             steps: by cancel(), by cancel(cause), by an expired deadline / timeout (already over
//             when the run starts, or firing while a node that ignores the context is running),
//             or it is a context type of the caller whose Err() is DeadlineExceeded / Canceled /
//             a value of its own.  The caller may hand the run a child of that context
//             (WithValue / WithCancel).  The error of the run must match, with errors.Is, exactly
//             what ctx.Err() returned — the oracle answers for a whole list of targets
//             (Canceled, DeadlineExceeded, the custom value, the cancel cause, ErrExceedMaxSteps) —
//             and name the nested graph whose loop noticed it (Model/C13.lean `ctxEndThrough`).
//   fwdtree — reader expressions over array- and channel-backed sources built with
//             StreamReaderWithConvert (the convert function panics / fails on chosen values),
//             Copy (one copy read, the others closed) and MergeStreamReaders, drained by a
//             consumer.  A panic below a merge is raised on a forwarding goroutine of the
//             framework and must arrive as an error item; the oracle (Model/C13Fwd.lean `build`)
//             says what the consumer receives.  Executed in a child process.

import (
	"context"
	"encoding/json"
	"fmt"
	"io"
	"regexp"
	"runtime"
	"sort"
	"strconv"
	"strings"
	"sync"
	"time"

	"github.com/cloudwego/eino/schema"
	"github.com/cloudwego/eino/verifharness/vh"
)

// ---------------------------------------------------------------- ctxend

type c13CtxEnd struct {
	K  string `json:"k"` // canceled | deadline | custom
	ID int    `json:"id,omitempty"`
}

const (
	c13CustomCtxErrID = 7 // Err() of the caller's own context type (manual-custom)
	c13CauseID        = 9 // the cause given to cancel(cause) / WithTimeoutCause: NOT what Err() returns
)

// a context type of the caller's own: Done() is closed by end(err), Err() then returns err
type c13ManualCtx struct {
	context.Context // Background: values, no deadline
	done            chan struct{}
	mu              sync.Mutex
	err             error
}

func newC13ManualCtx() *c13ManualCtx {
	return &c13ManualCtx{Context: context.Background(), done: make(chan struct{})}
}
func (m *c13ManualCtx) Done() <-chan struct{} { return m.done }
func (m *c13ManualCtx) Err() error {
	m.mu.Lock()
	defer m.mu.Unlock()
	return m.err
}
func (m *c13ManualCtx) end(err error) {
	m.mu.Lock()
	defer m.mu.Unlock()
	if m.err == nil {
		m.err = err
		close(m.done)
	}
}

type c13CtxWrapKey struct{}

// c13CtxEnder owns the context of one ctxend run.
type c13CtxEnder struct {
	c        *c13Case
	base     context.Context // the context that ends
	run      context.Context // what the run is given (base or a child of it)
	endBase  func()          // ends base now (nil: a timer does)
	releases []func()
	mu       sync.Mutex
	reached  bool // the ending node started while the context was still alive
}

func newC13CtxEnder(c *c13Case) *c13CtxEnder {
	e := &c13CtxEnder{c: c}
	bg := context.Background()
	switch c.CtxHow {
	case "cancel":
		ctx, cancel := context.WithCancel(bg)
		e.base, e.endBase = ctx, cancel
	case "cancelcause":
		ctx, cancel := context.WithCancelCause(bg)
		e.base, e.endBase = ctx, func() { cancel(c13Leaf(c13CauseID, false)) }
	case "deadline-past":
		ctx, cancel := context.WithDeadline(bg, time.Now().Add(-time.Hour))
		e.base, e.endBase = ctx, func() {}
		e.releases = append(e.releases, cancel)
	case "timeoutcause":
		ctx, cancel := context.WithTimeoutCause(bg, 0, c13Leaf(c13CauseID, false))
		e.base, e.endBase = ctx, func() {}
		e.releases = append(e.releases, cancel)
	case "timeout": // a real timer; the ending node waits for it
		ctx, cancel := context.WithTimeout(bg, 4*time.Millisecond)
		e.base = ctx
		e.releases = append(e.releases, cancel)
	case "manual-deadline":
		m := newC13ManualCtx()
		e.base, e.endBase = m, func() { m.end(context.DeadlineExceeded) }
	case "manual-custom":
		m := newC13ManualCtx()
		e.base, e.endBase = m, func() { m.end(c13Leaf(c13CustomCtxErrID, false)) }
	default: // manual-canceled
		m := newC13ManualCtx()
		e.base, e.endBase = m, func() { m.end(context.Canceled) }
	}
	switch c.CtxWrap {
	case "value":
		e.run = context.WithValue(e.base, c13CtxWrapKey{}, 1)
	case "cancel":
		ctx, cancel := context.WithCancel(e.base)
		e.run = ctx
		e.releases = append(e.releases, cancel)
	default:
		e.run = e.base
	}
	return e
}

func (e *c13CtxEnder) release() {
	for _, f := range e.releases {
		f()
	}
	if e.endBase != nil {
		e.endBase()
	}
}

// beforeRun: with EndWhen = start the context is already done when the run is called
func (e *c13CtxEnder) beforeRun() context.Context {
	if e.c.EndWhen == "start" {
		if e.endBase != nil {
			e.endBase()
		}
		<-e.run.Done() // (a child of a foreign context type learns of its parent's end from a goroutine)
		e.mu.Lock()
		e.reached = true
		e.mu.Unlock()
	}
	return e.run
}

// endFromNode is the body of the node that ends the context: it ends it (or waits for the timer),
// waits until its OWN context shows it, and returns normally — so it is the graph's loop, not the
// node, that reports the end.
func (e *c13CtxEnder) endFromNode(nodeCtx context.Context) {
	alive := nodeCtx.Err() == nil
	e.mu.Lock()
	e.reached = alive
	e.mu.Unlock()
	if e.endBase != nil {
		e.endBase()
	}
	select {
	case <-nodeCtx.Done():
	case <-time.After(15 * time.Second): // (the run then succeeds or fails differently: reported as a disagreement)
	}
}

func (e *c13CtxEnder) valid() bool {
	e.mu.Lock()
	defer e.mu.Unlock()
	return e.reached
}

func c13CtxEndOf(how string) *c13CtxEnd {
	switch how {
	case "cancel", "cancelcause", "manual-canceled":
		return &c13CtxEnd{K: "canceled"}
	case "deadline-past", "timeoutcause", "timeout", "manual-deadline":
		return &c13CtxEnd{K: "deadline"}
	}
	return &c13CtxEnd{K: "custom", ID: c13CustomCtxErrID}
}

func c13GenCtxEnd(r *vh.Rand) *c13Case {
	c := &c13Case{Kind: "ctxend", GraphLevel: true, Levels: []c13Level{}}
	names := []string{"n", "sub", "g", "node_1", "x"}
	nlev := r.Intn(4) // nested graphs around the innermost one
	for i := 0; i < nlev; i++ {
		c.Levels = append(c.Levels, c13Level{Key: c13LevelKey(r, names, i)})
	}
	for i := 0; i <= nlev; i++ {
		if r.Chance(35) {
			c.Mode = append(c.Mode, "dag")
		} else {
			c.Mode = append(c.Mode, "pregel")
		}
	}
	c.Paradigm = []string{"invoke", "stream", "collect", "transform"}[r.Intn(4)]
	c.LambdaKind = "i"
	if r.Chance(30) {
		c.EndWhen, c.EndAt = "start", 0
		c.CtxHow = []string{"cancel", "cancelcause", "deadline-past", "deadline-past", "timeoutcause", "manual-canceled", "manual-deadline", "manual-custom"}[r.Intn(8)]
	} else {
		c.EndWhen = "node"
		c.EndAt = nlev // the innermost graph
		if nlev > 0 && r.Chance(40) {
			c.EndAt = r.Intn(nlev) // an enclosing graph, between `pre` and its sub-graph node
		}
		c.CtxHow = []string{"cancel", "cancelcause", "manual-canceled", "manual-deadline", "manual-deadline", "manual-deadline", "manual-custom", "manual-custom", "timeout"}[r.Intn(9)]
	}
	c.CtxWrap = []string{"none", "none", "value", "cancel"}[r.Intn(4)]
	c.CtxEnd = c13CtxEndOf(c.CtxHow)
	c.Targets = []int{1001, 1002, c13CustomCtxErrID, c13CauseID, 1000}
	return c
}

func c13CtxCorpus() []*c13Case {
	var out []*c13Case
	for _, how := range []string{"deadline-past", "manual-deadline", "cancel", "manual-custom"} {
		for _, nested := range []bool{false, true} {
			c := &c13Case{Kind: "ctxend", GraphLevel: true, Levels: []c13Level{}, Mode: []string{"pregel"}, Paradigm: "invoke", LambdaKind: "i",
				CtxHow: how, CtxWrap: "none", EndWhen: "node", Targets: []int{1001, 1002, c13CustomCtxErrID, c13CauseID, 1000}}
			if how == "deadline-past" {
				c.EndWhen = "start"
			}
			if nested {
				c.Levels = []c13Level{{Key: "sub"}}
				c.Mode = []string{"pregel", "dag"}
				c.Paradigm = "stream"
				if c.EndWhen == "node" {
					c.EndAt = 1
				}
			}
			c.CtxEnd = c13CtxEndOf(how)
			out = append(out, c)
		}
	}
	return out
}

func c13TargetName(c *c13Case, id int) string {
	switch id {
	case 1000:
		return "maxsteps"
	case 1001:
		return "canceled"
	case 1002:
		return "deadline"
	case c13CustomCtxErrID:
		return "custom"
	case c13CauseID:
		return "cause"
	}
	return "other"
}

type c13CtxModel struct {
	IsT       []bool   `json:"isT"`
	Path      []string `json:"path"`
	TextPath  []string `json:"textPath"`
	Interrupt bool     `json:"interrupt"`
}

func c13CtxOne(ctx *vh.Ctx, c *c13Case) error {
	ctx.Progress.Mark(c)
	raw, err := ctx.Oracle.Ask("C13", c)
	if err != nil {
		return err
	}
	var model c13CtxModel
	if err := json.Unmarshal(raw, &model); err != nil {
		return err
	}
	if model.Path == nil {
		model.Path = []string{}
	}
	impl, class := c13RunImpl(c)
	short := strings.SplitN(class, ":", 2)[0]
	ctx.Res.Dist("kind=ctxend")
	ctx.Res.Dist("ctxend:how=" + c.CtxHow)
	ctx.Res.Dist("ctxend:when=" + c.EndWhen)
	ctx.Res.Dist("ctxend:wrap=" + c.CtxWrap)
	ctx.Res.Dist("ctxend:paradigm=" + c.Paradigm)
	ctx.Res.Dist(fmt.Sprintf("ctxend:endAt=%d/%d", c.EndAt, len(c.Levels)))
	ctx.Res.Dist("ctxend:class=" + short)
	ctx.Res.Count(fmt.Sprintf("ctxend/%s/%s/%s/%s/%d/%d/%v", c.CtxHow, c.EndWhen, c.CtxWrap, c.Paradigm, c.EndAt, len(c.Levels), c.Mode), c.CtxEnd.K != "canceled" || len(c.Levels) > 0)
	ctx.Res.Sample(c)
	if class == "void" {
		return nil
	}
	sig := func(what string) string {
		return fmt.Sprintf("C13:%s:kind=ctxend:end=%s", what, c.CtxEnd.K)
	}
	if class != "error" {
		ctx.Res.Disagree(vh.Disagreement{Signature: sig("class-" + short),
			What: "a run whose context ended between two steps must return an error of the run: " + class, Case: c, Model: model})
		return nil
	}
	for i, t := range c.Targets {
		if i < len(model.IsT) && i < len(impl.IsT) && model.IsT[i] != impl.IsT[i] {
			ctx.Res.Disagree(vh.Disagreement{Signature: sig("errors.Is") + ":target=" + c13TargetName(c, t),
				What: fmt.Sprintf("the context ended with Err() = %s; errors.Is(runErr, %s) = %v on the implementation, %v in the model",
					c.CtxEnd.K, c13TargetName(c, t), impl.IsT[i], model.IsT[i]), Case: c, Model: model, Impl: impl})
		}
	}
	if !vh.CanonEq(impl.Path, model.Path) {
		ctx.Res.Disagree(vh.Disagreement{Signature: sig("nodePath"),
			What: fmt.Sprintf("node path %v on the implementation, %v in the model", impl.Path, model.Path), Case: c, Model: model, Impl: impl})
	}
	if model.TextPath == nil {
		model.TextPath = []string{}
	}
	if !vh.CanonEq(impl.TextPath, model.TextPath) {
		ctx.Res.Disagree(vh.Disagreement{Signature: sig("textPath"),
			What: fmt.Sprintf("the text of the returned error names the node path %v, the model %v", impl.TextPath, model.TextPath), Case: c, Model: model, Impl: impl})
	}
	if impl.Interrupt != model.Interrupt {
		ctx.Res.Disagree(vh.Disagreement{Signature: sig("interrupt"), What: "interrupt classification differs", Case: c, Model: model, Impl: impl})
	}
	return nil
}

// ---------------------------------------------------------------- fwdtree

type c13Tree struct {
	K       string   `json:"k"` // arr | pipe | conv | copy | merge
	Items   []int    `json:"items,omitempty"`
	S       *c13Tree `json:"s,omitempty"`
	A       *c13Tree `json:"a,omitempty"`
	B       *c13Tree `json:"b,omitempty"`
	PanicOn *int     `json:"panicOn,omitempty"`
	ErrOn   *int     `json:"errOn,omitempty"`
	N       int      `json:"n,omitempty"`   // copy: how many copies are made (2-3); the oracle does not care
	Idx     int      `json:"idx,omitempty"` // copy: which one is read; the others are closed unread
}

func (t *c13Tree) values() []int {
	if t == nil {
		return nil
	}
	out := append([]int{}, t.Items...)
	out = append(out, t.S.values()...)
	out = append(out, t.A.values()...)
	return append(out, t.B.values()...)
}

func (t *c13Tree) convs() []*c13Tree {
	if t == nil {
		return nil
	}
	var out []*c13Tree
	if t.K == "conv" {
		out = append(out, t)
	}
	out = append(out, t.S.convs()...)
	out = append(out, t.A.convs()...)
	return append(out, t.B.convs()...)
}

func (t *c13Tree) String() string {
	if t == nil {
		return "-"
	}
	switch t.K {
	case "conv":
		return "conv(" + t.S.String() + ")"
	case "copy":
		return "copy(" + t.S.String() + ")"
	case "merge":
		return "merge(" + t.A.String() + "," + t.B.String() + ")"
	}
	return t.K
}

func c13BuildReader(t *c13Tree) *schema.StreamReader[int] {
	switch t.K {
	case "arr":
		return schema.StreamReaderFromArray(append([]int{}, t.Items...))
	case "pipe":
		sr, sw := schema.Pipe[int](len(t.Items) + 1)
		for _, v := range t.Items {
			sw.Send(v, nil)
		}
		sw.Close()
		return sr
	case "conv":
		po, eo := -1, -1
		if t.PanicOn != nil {
			po = *t.PanicOn
		}
		if t.ErrOn != nil {
			eo = *t.ErrOn
		}
		return schema.StreamReaderWithConvert(c13BuildReader(t.S), func(v int) (int, error) {
			if v == po {
				panic(fmt.Sprintf("fwd-boom-%d!", v))
			}
			if v == eo {
				return 0, fmt.Errorf("fwd-err-%d!", v)
			}
			return v, nil
		})
	case "copy":
		n := t.N
		if n < 2 {
			n = 2
		}
		cs := c13BuildReader(t.S).Copy(n)
		idx := t.Idx % n
		for i, c := range cs {
			if i != idx {
				c.Close()
			}
		}
		return cs[idx]
	}
	return schema.MergeStreamReaders([]*schema.StreamReader[int]{c13BuildReader(t.A), c13BuildReader(t.B)})
}

var c13BoomRe = regexp.MustCompile(`fwd-boom-(\d+)!`)
var c13ErrRe = regexp.MustCompile(`fwd-err-(\d+)!`)

// c13FwdRun drains the reader of the case (in the child process).
func c13FwdRun(c *c13Case) (*c13Obs, string) {
	if c.Tree == nil {
		return nil, "build-error:no tree"
	}
	base := runtime.NumGoroutine()
	o := &c13Obs{Path: []string{}, Items: []int{}, Errs: []int{}, PErrs: []int{}}
	limit := 4*len(c.Tree.values()) + 16
	var sr *schema.StreamReader[int]
	done := false
	panicked, pv := vh.Safely(func() {
		done = vh.WithTimeout(10*time.Second, func() {
			// (a panic of the convert function on THIS goroutine is the consumer's own: caught below)
			defer func() {
				if r := recover(); r != nil {
					o.End = "caller-panic"
					if m := c13BoomRe.FindStringSubmatch(fmt.Sprint(r)); m != nil {
						v, _ := strconv.Atoi(m[1])
						o.PanicVal = &v
					} else {
						o.Other = "panic: " + fmt.Sprint(r)
					}
				}
				if sr != nil {
					sr.Close()
				}
			}()
			sr = c13BuildReader(c.Tree)
			for n := 0; ; n++ {
				if n > limit {
					o.End = "endless"
					return
				}
				v, err := sr.Recv()
				if err == io.EOF {
					o.End = "eof"
					return
				}
				if err != nil {
					msg := err.Error()
					if m := c13BoomRe.FindStringSubmatch(msg); m != nil {
						x, _ := strconv.Atoi(m[1])
						o.PErrs = append(o.PErrs, x)
					} else if m := c13ErrRe.FindStringSubmatch(msg); m != nil {
						x, _ := strconv.Atoi(m[1])
						o.Errs = append(o.Errs, x)
					} else if o.Other == "" {
						if len(msg) > 120 {
							msg = msg[:120]
						}
						o.Other = msg
					}
					continue
				}
				o.Items = append(o.Items, v)
			}
		})
	})
	if panicked {
		return nil, fmt.Sprint("panic-escaped:", pv)
	}
	if !done {
		return nil, "hang"
	}
	sort.Ints(o.Items)
	sort.Ints(o.Errs)
	sort.Ints(o.PErrs)
	// let the forwarding goroutines of this case end before the answer is written: one that dies
	// un-recovered takes the process with it while THIS case is the one marked as running
	for i := 0; i < 400 && runtime.NumGoroutine() > base; i++ {
		time.Sleep(100 * time.Microsecond)
	}
	return o, "done"
}

// ---- generator ----

func c13GenTreeNode(r *vh.Rand, depth int, next *int) *c13Tree {
	leaf := func() *c13Tree {
		t := &c13Tree{K: []string{"arr", "pipe", "pipe"}[r.Intn(3)], Items: []int{}}
		for n := r.Intn(4); n > 0; n-- {
			t.Items = append(t.Items, *next)
			*next++
		}
		return t
	}
	if depth <= 0 || r.Chance(15) {
		return leaf()
	}
	switch x := r.Intn(100); {
	case x < 38:
		return &c13Tree{K: "conv", S: c13GenTreeNode(r, depth-1, next)}
	case x < 62:
		sub := c13GenTreeNode(r, depth-1, next)
		if sub.K != "conv" && r.Chance(50) { // a copy of a converted reader: its convert function runs on whoever pulls the copy
			sub = &c13Tree{K: "conv", S: sub}
		}
		return &c13Tree{K: "copy", S: sub, N: r.Range(2, 3), Idx: r.Intn(3)}
	}
	return &c13Tree{K: "merge", A: c13GenTreeNode(r, depth-1, next), B: c13GenTreeNode(r, depth-1, next)}
}

func c13GenFwdTree(r *vh.Rand) *c13Case {
	next := 1
	var t *c13Tree
	if r.Chance(80) { // mostly a merge at the root: everything below it is pulled by the framework
		t = &c13Tree{K: "merge", A: c13GenTreeNode(r, r.Range(1, 3), &next), B: c13GenTreeNode(r, r.Range(0, 2), &next)}
		if r.Bool() {
			t.A, t.B = t.B, t.A
		}
	} else {
		t = c13GenTreeNode(r, r.Range(1, 4), &next)
	}
	convs := t.convs()
	pick := func(vals []int) *int {
		v := 999 // a value that never arrives
		if len(vals) > 0 && r.Chance(90) {
			v = vals[r.Intn(len(vals))]
		}
		return &v
	}
	if len(convs) > 0 {
		npanic := []int{0, 1, 1, 1, 1, 1, 1, 2, 2, 3}[r.Intn(10)]
		for _, i := range r.Perm(len(convs)) {
			cv := convs[i]
			if npanic > 0 {
				cv.PanicOn = pick(cv.S.values())
				npanic--
			}
			if r.Chance(25) {
				cv.ErrOn = pick(cv.S.values())
				if cv.PanicOn != nil && *cv.ErrOn == *cv.PanicOn {
					cv.ErrOn = nil
				}
			}
		}
	}
	return &c13Case{Kind: "fwdtree", Levels: []c13Level{}, Tree: t}
}

func c13FwdCorpus() []*c13Case {
	two := 2
	arr := func(vs ...int) *c13Tree { return &c13Tree{K: "arr", Items: vs} }
	pipe := func(vs ...int) *c13Tree { return &c13Tree{K: "pipe", Items: vs} }
	conv := func(s *c13Tree, p *int) *c13Tree { return &c13Tree{K: "conv", S: s, PanicOn: p} }
	cp := func(s *c13Tree) *c13Tree { return &c13Tree{K: "copy", S: s, N: 2} }
	merge := func(a, b *c13Tree) *c13Tree { return &c13Tree{K: "merge", A: a, B: b} }
	trees := []*c13Tree{
		merge(conv(arr(1, 2, 3), &two), pipe(100)),
		merge(cp(conv(arr(1, 2, 3), &two)), pipe(100)),
		merge(cp(conv(pipe(1, 2, 3), &two)), arr(100)),
		merge(conv(cp(pipe(1, 2, 3)), &two), pipe(100)),
		merge(cp(cp(conv(pipe(1, 2, 3), &two))), pipe(100)),
		merge(cp(merge(conv(arr(1, 2, 3), &two), pipe(100))), pipe(200)),
		conv(merge(cp(conv(pipe(1, 2, 3), &two)), pipe(100)), nil),
		cp(conv(pipe(1, 2), &two)),
	}
	var out []*c13Case
	for _, t := range trees {
		out = append(out, &c13Case{Kind: "fwdtree", Levels: []c13Level{}, Tree: t})
	}
	return out
}

// ---- judging ----

type c13FwdModel struct {
	End      string `json:"end"`
	PanicVal *int   `json:"panicVal"`
	Ty       string `json:"ty"`
	Items    []int  `json:"items"`
	Errs     []int  `json:"errs"`
	PErrs    []int  `json:"perrs"`
	Det      bool   `json:"det"`
	Via      string `json:"via"`
}

func c13IntsEq(a, b []int) bool {
	if len(a) != len(b) {
		return false
	}
	for i := range a {
		if a[i] != b[i] {
			return false
		}
	}
	return true
}

// every element of a (sorted) occurs in b (sorted), with multiplicity
func c13IntsSub(a, b []int) bool {
	j := 0
	for _, x := range a {
		for j < len(b) && b[j] < x {
			j++
		}
		if j >= len(b) || b[j] != x {
			return false
		}
		j++
	}
	return true
}

func c13FwdJudge(ctx *vh.Ctx, c *c13Case, model *c13FwdModel, impl *c13Obs, class string) (bad bool) {
	short := strings.SplitN(class, ":", 2)[0]
	ctx.Res.Dist("kind=fwdtree")
	ctx.Res.Dist("fwdtree:root=" + model.Ty)
	ctx.Res.Dist("fwdtree:via=" + model.Via)
	ctx.Res.Dist("fwdtree:end=" + model.End)
	ctx.Res.Dist(fmt.Sprintf("fwdtree:det=%v", model.Det))
	ctx.Res.Dist("fwdtree:class=" + short)
	b, _ := json.Marshal(c.Tree)
	ctx.Res.Count("fwdtree/"+string(b), model.Via != "none")
	sig := func(what string) string {
		return fmt.Sprintf("C13:%s:kind=fwdtree:via=%s", what, model.Via)
	}
	if model.End == "crash" {
		ctx.Res.Disagree(vh.Disagreement{Signature: sig("model-crash"), What: "the forwarding model with the expected facts says the process dies", Case: c, Model: model})
		return false
	}
	if class != "done" {
		what := map[string]string{"hang": "hang", "panic-escaped": "panic-escaped", "process-died": "process-died"}[short]
		if what == "" {
			what = "class-" + short
		}
		ctx.Res.Disagree(vh.Disagreement{Signature: sig(what),
			What: "draining " + c.Tree.String() + ": a panic below a merge is raised on a forwarding goroutine and must arrive as an error item; instead: " + class, Case: c, Model: model})
		return short == "hang" || short == "process-died"
	}
	dis := func(what, text string) {
		ctx.Res.Disagree(vh.Disagreement{Signature: sig(what), What: "draining " + c.Tree.String() + ": " + text, Case: c, Model: model, Impl: impl})
	}
	if impl.End == "endless" {
		dis("fwd-endless", "the reader never reports EOF")
		return false
	}
	if impl.Other != "" {
		dis("fwd-unexpected-error", "an error item / panic that nothing in the expression produces: "+impl.Other)
	}
	if !model.Det {
		return false // the interleaving decides what is delivered before a truncation: only survival is compared
	}
	if impl.End != model.End || (model.PanicVal != nil && (impl.PanicVal == nil || *impl.PanicVal != *model.PanicVal)) {
		dis("fwd-end", fmt.Sprintf("the reader ends with %s on the implementation, %s in the model", impl.End, model.End))
		return false
	}
	if !c13IntsSub(model.PErrs, impl.PErrs) {
		dis("swallowed", fmt.Sprintf("panics that must arrive as error items: %v, arrived: %v", model.PErrs, impl.PErrs))
	} else if !c13IntsEq(model.PErrs, impl.PErrs) {
		dis("fwd-perrs", fmt.Sprintf("panic error items %v on the implementation, %v in the model", impl.PErrs, model.PErrs))
	}
	if !c13IntsEq(model.Errs, impl.Errs) {
		dis("fwd-errs", fmt.Sprintf("ordinary error items %v on the implementation, %v in the model", impl.Errs, model.Errs))
	}
	if !c13IntsEq(model.Items, impl.Items) {
		dis("fwd-items", fmt.Sprintf("items %v on the implementation, %v in the model", impl.Items, model.Items))
	}
	return false
}

func c13FwdBatch(ctx *vh.Ctx, cs []*c13Case) (int, error) {
	if len(cs) == 0 {
		return 0, nil
	}
	ctx.Progress.Mark(cs[0])
	res := c13RunInChild(cs)
	bad := 0
	for i, c := range cs {
		raw, err := ctx.Oracle.Ask("C13", c)
		if err != nil {
			return bad, err
		}
		var m c13FwdModel
		if err := json.Unmarshal(raw, &m); err != nil {
			return bad, err
		}
		ctx.Res.Sample(c)
		if c13FwdJudge(ctx, c, &m, res[i].Obs, res[i].Class) {
			bad++
		}
	}
	return bad, nil
}

func c13RunCtxFwdFamilies(ctx *vh.Ctx) error {
	for _, c := range c13CtxCorpus() {
		if err := c13CtxOne(ctx, c); err != nil {
			return err
		}
	}
	rc := ctx.Rng.Fork()
	for i, n := 0, ctx.N(500, 3000); i < n; i++ {
		if err := c13CtxOne(ctx, c13GenCtxEnd(rc)); err != nil {
			return err
		}
	}
	runFwd := func(cs []*c13Case, what string) error {
		bad := 0
		for len(cs) > 0 {
			k := 100
			if k > len(cs) {
				k = len(cs)
			}
			b, err := c13FwdBatch(ctx, cs[:k])
			if err != nil {
				return err
			}
			cs = cs[k:]
			if bad += b; bad >= 4 {
				ctx.Res.Note("fwdtree " + what + " stopped after several process deaths / hangs")
				break
			}
		}
		return nil
	}
	if err := runFwd(c13FwdCorpus(), "corpus"); err != nil {
		return err
	}
	var trees []*c13Case
	rt := ctx.Rng.Fork()
	for i, n := 0, ctx.N(600, 5000); i < n; i++ {
		trees = append(trees, c13GenFwdTree(rt))
	}
	return runFwd(trees, "generated cases")
}
