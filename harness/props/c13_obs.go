//go:build verif && (vh_all || vh_c13)

package props

// C13, family obsnode: somebody READS the error while it is still on its way out.
//
// compose keeps ONE *internalError per failure and prepends the key of every enclosing graph to
// it in place; what a caller of the public API can see of the node path is the text Error()
// prints (`node path: [a, b, c]`).  The family nests 2-4 levels and embeds each sub-graph in its
// parent's node keyᵢ in one of several ways:
//
//   graph          AddGraphNode
//   lambda         a lambda that runs the compiled sub-graph and returns its error untouched
//   lambda-read    … and logs err.Error() first
//   lambda-rewrap  … and returns fmt.Errorf("…: %w", err)
//   lambda-cb      … and gives the inner run a logging OnError handler (WithCallbacks)
//   tool           a ToolsNode whose tool runs the compiled sub-graph (ToolsNode itself wraps the
//                  tool's error with fmt.Errorf("failed to invoke tool call …: %w"))
//
// and optionally gives the caller's run a logging OnError handler (observe = cb: run by every
// nested graph).  The oracle (Model/C13.lean `travel` over the hops the case lists) says which
// path the text names; it is compared with the text of the returned error, next to the path
// field (accessor) and errors.Is / errors.As.

import (
	"context"
	"encoding/json"
	"fmt"
	"strings"
	"sync/atomic"

	"github.com/cloudwego/eino/callbacks"
	"github.com/cloudwego/eino/components/tool"
	"github.com/cloudwego/eino/compose"
	"github.com/cloudwego/eino/schema"
	"github.com/cloudwego/eino/verifharness/vh"
)

type c13Hop struct {
	H   string `json:"h"` // wrap | observe | rewrap
	Key string `json:"key,omitempty"`
}

// c13TextPath: the node path the text of an error of the run names: the last
// `node path: [a, b, c]` line ([] when there is none).
func c13TextPath(text string) []string {
	const mark = "node path: ["
	i := strings.LastIndex(text, mark)
	if i < 0 {
		return []string{}
	}
	rest := text[i+len(mark):]
	j := strings.Index(rest, "]")
	if j < 0 {
		return []string{"<unterminated>"}
	}
	if rest[:j] == "" {
		return []string{}
	}
	return strings.Split(rest[:j], ", ")
}

// a handler of the kind every deployment has: it reads the error's text
type c13Observer struct {
	reads atomic.Int64
}

func (o *c13Observer) handler() callbacks.Handler {
	return callbacks.NewHandlerBuilder().OnErrorFn(func(ctx context.Context, info *callbacks.RunInfo, err error) context.Context {
		if err != nil {
			_ = err.Error()
			o.reads.Add(1)
		}
		return ctx
	}).Build()
}

func c13CallOpts(c *c13Case) []compose.Option {
	if c.Kind == "obsnode" && c.Observe == "cb" && c.obs != nil {
		return []compose.Option{compose.WithCallbacks(c.obs.handler())}
	}
	return nil
}

// a tool that runs a compiled graph
type c13GraphTool struct {
	r compose.Runnable[string, string]
}

func (t *c13GraphTool) Info(ctx context.Context) (*schema.ToolInfo, error) {
	return &schema.ToolInfo{Name: "runsub", Desc: "runs a graph"}, nil
}

func (t *c13GraphTool) InvokableRun(ctx context.Context, args string, opts ...tool.Option) (string, error) {
	return t.r.Invoke(ctx, "x")
}

// level lvl: START -> pre -> keyᵢ -> END (via tool: pre -> ask -> keyᵢ -> fmt)
func c13ObsGraph(ctx context.Context, c *c13Case, lvl int) (*compose.Graph[string, string], []compose.GraphCompileOption, error) {
	dag := lvl < len(c.Mode) && c.Mode[lvl] == "dag"
	var opts []compose.GraphCompileOption
	if dag {
		opts = append(opts, compose.WithNodeTriggerMode(compose.AllPredecessor))
	}
	g := compose.NewGraph[string, string]()
	key := c.Levels[lvl].Key
	if err := g.AddLambdaNode("pre", c13Tag("p")); err != nil {
		return nil, nil, err
	}
	edges := [][2]string{{compose.START, "pre"}, {"pre", key}, {key, compose.END}}
	if lvl == len(c.Levels)-1 {
		if err := g.AddLambdaNode(key, c13FailingLambda(c)); err != nil {
			return nil, nil, err
		}
	} else {
		sub, subOpts, err := c13ObsGraph(ctx, c, lvl+1)
		if err != nil {
			return nil, nil, err
		}
		via := "graph"
		if lvl < len(c.Via) {
			via = c.Via[lvl]
		}
		if via == "graph" {
			if err := g.AddGraphNode(key, sub, compose.WithGraphCompileOptions(subOpts...)); err != nil {
				return nil, nil, err
			}
		} else {
			r, err := sub.Compile(ctx, subOpts...)
			if err != nil {
				return nil, nil, err
			}
			if via == "tool" {
				tn, err := compose.NewToolNode(ctx, &compose.ToolsNodeConfig{Tools: []tool.BaseTool{&c13GraphTool{r: r}}})
				if err != nil {
					return nil, nil, err
				}
				g.AddLambdaNode("ask", compose.InvokableLambda(func(ctx context.Context, in string) (*schema.Message, error) {
					return &schema.Message{Role: schema.Assistant, ToolCalls: []schema.ToolCall{{ID: "call1", Function: schema.FunctionCall{Name: "runsub", Arguments: "{}"}}}}, nil
				}))
				if err := g.AddToolsNode(key, tn); err != nil {
					return nil, nil, err
				}
				g.AddLambdaNode("fmt", compose.InvokableLambda(func(ctx context.Context, in []*schema.Message) (string, error) {
					return fmt.Sprint(len(in)), nil
				}))
				edges = [][2]string{{compose.START, "pre"}, {"pre", "ask"}, {"ask", key}, {key, "fmt"}, {"fmt", compose.END}}
			} else {
				inner := lvl%2 == 1 // how the lambda runs the graph: Invoke / Stream + drain
				if err := g.AddLambdaNode(key, compose.InvokableLambda(func(ctx context.Context, in string) (string, error) {
					var ropts []compose.Option
					if via == "lambda-cb" && c.obs != nil {
						ropts = append(ropts, compose.WithCallbacks(c.obs.handler()))
					}
					var out string
					var err error
					if inner {
						var sr *schema.StreamReader[string]
						if sr, err = r.Stream(ctx, in, ropts...); err == nil {
							err = c13Drain(sr)
						}
					} else {
						out, err = r.Invoke(ctx, in, ropts...)
					}
					if err == nil {
						return out, nil
					}
					switch via {
					case "lambda-read":
						_ = err.Error() // "log" it
						if c.obs != nil {
							c.obs.reads.Add(1)
						}
					case "lambda-rewrap":
						if c.obs != nil {
							c.obs.reads.Add(1)
						}
						return "", fmt.Errorf("inner run of %s: %w", key, err)
					}
					return "", err
				})); err != nil {
					return nil, nil, err
				}
			}
		}
	}
	for _, e := range edges {
		if err := g.AddEdge(e[0], e[1]); err != nil {
			return nil, nil, err
		}
	}
	return g, opts, nil
}

func c13ObsCompile(ctx context.Context, c *c13Case) (compose.Runnable[string, string], error) {
	c.obs = &c13Observer{}
	g, opts, err := c13ObsGraph(ctx, c, 0)
	if err != nil {
		return nil, err
	}
	return g.Compile(ctx, opts...)
}

// what happens to the error between the failing body and the caller, innermost first
func c13ObsHops(c *c13Case) []c13Hop {
	var hops []c13Hop
	n := len(c.Levels)
	for i := n - 1; i >= 0; i-- {
		hops = append(hops, c13Hop{H: "wrap", Key: c.Levels[i].Key})
		// graph i returns; its OnError handlers run
		handlerHere := c.Observe == "cb"
		for j := 0; j < i && !handlerHere; j++ {
			if j < len(c.Via) && c.Via[j] == "lambda-cb" {
				handlerHere = true // an enclosing lambda gave the run a handler, inherited by everything inside it
			}
		}
		if handlerHere {
			hops = append(hops, c13Hop{H: "observe"})
		}
		if i > 0 && i-1 < len(c.Via) {
			switch c.Via[i-1] {
			case "lambda-read":
				hops = append(hops, c13Hop{H: "observe"})
			case "lambda-rewrap", "tool":
				hops = append(hops, c13Hop{H: "rewrap"})
			}
		}
	}
	return hops
}

// the innermost mechanism that reads the error ("none": nobody does before the caller)
func c13ObsKind(c *c13Case) string {
	if c.Observe == "cb" {
		return "cb"
	}
	for i := len(c.Via) - 1; i >= 0; i-- {
		if c.Via[i] != "graph" && c.Via[i] != "lambda" {
			return c.Via[i]
		}
	}
	return "none"
}

func c13GenObserved(r *vh.Rand) *c13Case {
	c := &c13Case{Kind: "obsnode"}
	c13GenLevels(r, c, r.Range(2, 4))
	c.LambdaKind = []string{"i", "s", "c", "t"}[r.Intn(4)]
	c.Paradigm = []string{"invoke", "stream", "collect", "transform"}[r.Intn(4)]
	vias := []string{"graph", "graph", "graph", "lambda", "lambda-read", "lambda-rewrap", "lambda-cb", "tool"}
	for i := 0; i < len(c.Levels)-1; i++ {
		c.Via = append(c.Via, vias[r.Intn(len(vias))])
	}
	c.Observe = "none"
	if r.Chance(45) {
		c.Observe = "cb"
	}
	id := r.Range(1, 5)
	e := c13Err{K: "leaf", ID: id}
	for w := r.Intn(3); w > 0; w-- {
		inner := e
		e = c13Err{K: "wrapf", E: &inner}
	}
	if r.Chance(25) {
		e = c13Err{K: "panic", ID: id}
	} else {
		c.AsCustom = r.Chance(30)
	}
	c.Err = e
	c.Target = id
	if r.Chance(15) {
		c.Target = id + 7
	}
	c.Hops = c13ObsHops(c)
	return c
}

func c13ObsCorpus() []*c13Case {
	var out []*c13Case
	mk := func(keys []string, via []string, observe, paradigm string, e c13Err) {
		c := &c13Case{Kind: "obsnode", LambdaKind: "i", Paradigm: paradigm, Via: via, Observe: observe, Err: e, Target: e.ID}
		for range keys {
			c.Mode = append(c.Mode, "pregel")
		}
		c.Mode = append(c.Mode, "pregel")
		for _, k := range keys {
			c.Levels = append(c.Levels, c13Level{Key: k})
		}
		c.Hops = c13ObsHops(c)
		out = append(out, c)
	}
	leaf := c13Err{K: "leaf", ID: 1}
	mk([]string{"outer", "mid", "leaf"}, []string{"graph", "graph"}, "cb", "invoke", leaf)
	mk([]string{"outer", "mid", "leaf"}, []string{"graph", "graph"}, "cb", "stream", c13Err{K: "panic", ID: 1})
	mk([]string{"tools", "step"}, []string{"tool"}, "none", "invoke", leaf)
	mk([]string{"outer", "run", "leaf"}, []string{"graph", "lambda-read"}, "none", "invoke", leaf)
	mk([]string{"outer", "run", "leaf"}, []string{"graph", "lambda-rewrap"}, "none", "transform", leaf)
	mk([]string{"outer", "run", "leaf"}, []string{"graph", "lambda-cb"}, "none", "collect", leaf)
	mk([]string{"outer", "mid", "leaf"}, []string{"graph", "graph"}, "none", "invoke", leaf) // control: nobody reads
	return out
}

func c13ObsOne(ctx *vh.Ctx, c *c13Case) error {
	ctx.Progress.Mark(c)
	raw, err := ctx.Oracle.Ask("C13", c)
	if err != nil {
		return err
	}
	var model c13Obs
	if err := json.Unmarshal(raw, &model); err != nil {
		return err
	}
	if model.Path == nil {
		model.Path = []string{}
	}
	if model.TextPath == nil {
		model.TextPath = []string{}
	}
	impl, class := c13RunImpl(c)
	short := strings.SplitN(class, ":", 2)[0]
	kind := c13ObsKind(c)
	reads := int64(0)
	if c.obs != nil {
		reads = c.obs.reads.Load()
	}
	ctx.Res.Dist("kind=obsnode")
	ctx.Res.Dist("obsnode:obs=" + kind)
	ctx.Res.Dist("obsnode:paradigm=" + c.Paradigm)
	ctx.Res.Dist("obsnode:err=" + c.Err.K)
	ctx.Res.Dist(fmt.Sprintf("obsnode:depth=%d", len(c.Levels)))
	ctx.Res.Dist("obsnode:class=" + short)
	if reads > 0 {
		ctx.Res.Dist("obsnode:error-read-on-the-way=yes")
	} else {
		ctx.Res.Dist("obsnode:error-read-on-the-way=no")
	}
	ctx.Res.Count(fmt.Sprintf("obsnode/%v/%s/%s/%s/%s/%v/%d", c.Via, c.Observe, c.Paradigm, c.LambdaKind, c.Err.K, c.Mode, len(c.Levels)), kind != "none")
	ctx.Res.Sample(c)
	sig := func(what string) string {
		return fmt.Sprintf("C13:%s:kind=obsnode:err=%s:obs=%s", what, c.Err.K, kind)
	}
	if class != "error" {
		ctx.Res.Disagree(vh.Disagreement{Signature: sig("class-" + short), What: "run did not return an error of the run: " + class, Case: c, Model: model})
		return nil
	}
	if impl.Is != model.Is {
		ctx.Res.Disagree(vh.Disagreement{Signature: sig("errors.Is"),
			What: fmt.Sprintf("errors.Is/As(original) = %v on the implementation, %v in the model", impl.Is, model.Is), Case: c, Model: model, Impl: impl})
	}
	if !vh.CanonEq(impl.Path, model.Path) {
		ctx.Res.Disagree(vh.Disagreement{Signature: sig("nodePath"),
			What: fmt.Sprintf("node path %v on the implementation, %v in the model", impl.Path, model.Path), Case: c, Model: model, Impl: impl})
	}
	if !vh.CanonEq(impl.TextPath, model.TextPath) {
		ctx.Res.Disagree(vh.Disagreement{Signature: sig("textPath"),
			What: fmt.Sprintf("the text of the returned error names the node path %v; the failing path is %v (the error's path field says %v); the error was read %d time(s) on its way out", impl.TextPath, model.TextPath, impl.Path, reads), Case: c, Model: model, Impl: impl})
	}
	if impl.Interrupt != model.Interrupt {
		ctx.Res.Disagree(vh.Disagreement{Signature: sig("interrupt"), What: "interrupt classification differs", Case: c, Model: model, Impl: impl})
	}
	return nil
}

func c13RunObserved(ctx *vh.Ctx) error {
	for _, c := range c13ObsCorpus() {
		if err := c13ObsOne(ctx, c); err != nil {
			return err
		}
	}
	r := ctx.Rng.Fork()
	for i, n := 0, ctx.N(500, 3000); i < n; i++ {
		if err := c13ObsOne(ctx, c13GenObserved(r)); err != nil {
			return err
		}
	}
	return nil
}
