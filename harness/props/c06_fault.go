//go:build verif && (vh_all || vh_c06)

package props

import (
	"context"
	"encoding/json"
	"errors"
	"fmt"
	"sort"
	"strings"
	"sync"

	"github.com/cloudwego/eino/compose"
	"github.com/cloudwego/eino/verifharness/gcase5"
	"github.com/cloudwego/eino/verifharness/vh"
)

// Family `fault`: the graph cases of the main family driven under a CheckPointStore that fails.
// The store's k-th Get / k-th Set (0-based, per kind, over the whole history) return an error
// according to a fault plan; the caller repeats the call with the same id (resume after an
// interrupt, retry after an error of the store) until the run completes or fails on its own.
// Model: lean/EinoV/Model/C06Fault.lean (`histF` over `runI`), theorems store_iff_under_faults /
// store_tracks_returned_interrupts in Props/C06.lean.

func init() {
	c06Extra = append(c06Extra, runC06Fault)
	c06ReplayExtra["fault"] = c06fReplay
}

type c06fCase struct {
	Kind     string        `json:"kind"` // "fault"
	G        *gcase5.Graph `json:"g"`
	Input    string        `json:"input"`
	MaxCalls int           `json:"maxCalls"`
	GetFail  []int         `json:"getFail"`
	SetFail  []int         `json:"setFail"`

	CfgInitialChecked *bool `json:"cfgInitialChecked,omitempty"`
	CfgFwdStale       *bool `json:"cfgFwdStale,omitempty"`
}

var errC06fStore = errors.New("c06f: checkpoint store unavailable")

// c06fStore wraps the bytes-only store of the case package; a faulted call never reaches it.
type c06fStore struct {
	inner            *gcase5.Store
	mu               sync.Mutex
	gets, sets       int
	getFail, setFail map[int]bool
	getHit, setHit   bool // a fault fired since the last reset
	getN, setN       int  // calls since the last reset
}

func (s *c06fStore) reset() {
	s.mu.Lock()
	s.getHit, s.setHit, s.getN, s.setN = false, false, 0, 0
	s.mu.Unlock()
}

func (s *c06fStore) Get(ctx context.Context, id string) ([]byte, bool, error) {
	s.mu.Lock()
	k := s.gets
	s.gets++
	s.getN++
	fail := s.getFail[k]
	if fail {
		s.getHit = true
	}
	s.mu.Unlock()
	if fail {
		return nil, false, errC06fStore
	}
	return s.inner.Get(ctx, id)
}

func (s *c06fStore) Set(ctx context.Context, id string, b []byte) error {
	s.mu.Lock()
	k := s.sets
	s.sets++
	s.setN++
	fail := s.setFail[k]
	if fail {
		s.setHit = true
	}
	s.mu.Unlock()
	if fail {
		return errC06fStore
	}
	return s.inner.Set(ctx, id, b)
}

type c06fCall struct {
	Fres string       `json:"fres"` // ran | readFailed | writeFailed
	Call gcase5.CallJ `json:"call"`
}

type c06fHist struct {
	Calls []c06fCall `json:"calls"`
}

func c06fSet(l []int) map[int]bool {
	m := map[int]bool{}
	for _, k := range l {
		m[k] = true
	}
	return m
}

// c06fRun drives the history on the real code. class != "ran": the case cannot be built / a call
// panicked or hung.
func c06fRun(c *c06fCase) (*c06fHist, []gcase5.Finding, string) {
	fs := &c06fStore{inner: gcase5.NewStore(), getFail: c06fSet(c.GetFail), setFail: c06fSet(c.SetFail)}
	var r compose.Runnable[gcase5.M, gcase5.M]
	class := ""
	if panicked, pv := vh.Safely(func() {
		cg, err := gcase5.Build(c.G, "", false)
		if err != nil {
			class = "build-error: " + err.Error()
			return
		}
		opts := append(gcase5.CompileOpts(c.G, false), compose.WithCheckPointStore(fs))
		r, err = cg.Compile(context.Background(), opts...)
		if err != nil {
			class = "compile-error: " + err.Error()
		}
	}); panicked {
		return nil, nil, fmt.Sprint("compile-panic: ", pv)
	}
	if class != "" {
		return nil, nil, class
	}
	rn := &gcase5.Runnable{G: c.G, R: r, Store: fs.inner}
	h := &c06fHist{}
	var direct []gcase5.Finding
	id := "cp"
	for i := 0; i < c.MaxCalls; i++ {
		fs.reset()
		call, cl := rn.Call(c.Input, &id, "invoke")
		if call == nil {
			return h, direct, cl
		}
		fc := c06fCall{Fres: "ran", Call: *call}
		fs.mu.Lock()
		getHit, setHit, getN, setN := fs.getHit, fs.setHit, fs.getN, fs.setN
		fs.mu.Unlock()
		// the clause, directly on the implementation: an interrupt is returned iff the checkpoint was written
		if call.Res == "interrupted" && !call.Stored {
			direct = append(direct, gcase5.Finding{Sig: "C06:fault:interrupt-returned-without-checkpoint:" + c06fIntKind(call.Info),
				What: fmt.Sprintf("call %d: the write of the checkpoint failed (CheckPointStore.Set returned an error), yet the call returned an error from which ExtractInterruptInfo extracts an interrupt; nothing is stored under the id, a resume would silently restart", i),
				Impl: call})
		}
		if call.Res != "interrupted" && call.Stored {
			direct = append(direct, gcase5.Finding{Sig: "C06:fault:checkpoint-written-without-interrupt:" + call.Res,
				What: fmt.Sprintf("call %d: a checkpoint was written under the id although no interrupt was returned", i), Impl: call})
		}
		if getN != 1 || setN > 1 {
			direct = append(direct, gcase5.Finding{Sig: "C06:fault:store-access-count",
				What: fmt.Sprintf("call %d: %d Get / %d Set calls on the store (a call with an id reads once and writes at most once)", i, getN, setN), Impl: call})
		}
		switch {
		case call.Res == "failed" && getHit:
			fc.Fres = "readFailed"
		case call.Res == "failed" && setHit:
			fc.Fres = "writeFailed"
		}
		h.Calls = append(h.Calls, fc)
		if fc.Fres == "ran" && call.Res != "interrupted" {
			break
		}
	}
	return h, direct, "ran"
}

// c06fIntKind: which kinds of interrupt the info reports (before / after / rerun / nested)
func c06fIntKind(i *gcase5.InfoJ) string {
	if i == nil {
		return "none"
	}
	var k []string
	if len(i.Before) > 0 {
		k = append(k, "before")
	}
	if len(i.After) > 0 {
		k = append(k, "after")
	}
	if len(i.Rerun) > 0 {
		k = append(k, "rerun")
	}
	if len(i.Subs) > 0 {
		k = append(k, "nested")
	}
	if len(k) == 0 {
		return "empty"
	}
	return strings.Join(k, "+")
}

func c06fCompare(h, m *c06fHist) []gcase5.Finding {
	n := len(h.Calls)
	if len(m.Calls) < n {
		n = len(m.Calls)
	}
	for i := 0; i < n; i++ {
		a, b := &h.Calls[i], &m.Calls[i]
		gcase5.NormalizeModelCall(&b.Call)
		if a.Fres != b.Fres {
			ar, br := a.Fres, b.Fres
			if ar == "ran" {
				ar = a.Call.Res
			}
			if br == "ran" {
				br = b.Call.Res
			}
			return []gcase5.Finding{{Sig: fmt.Sprintf("C06:fault:call-outcome:%s-vs-model-%s", ar, br),
				What: fmt.Sprintf("call %d under the fault plan: implementation %s, model %s", i, ar, br), Model: b, Impl: a}}
		}
		if a.Fres == "ran" {
			if a.Call.Res != b.Call.Res {
				return []gcase5.Finding{{Sig: fmt.Sprintf("C06:fault:call-outcome:%s-vs-model-%s", a.Call.Res, b.Call.Res),
					What: fmt.Sprintf("call %d under the fault plan: implementation %s, model %s", i, a.Call.Res, b.Call.Res), Model: b, Impl: a}}
			}
			if a.Call.Res == "failed" {
				// which failure is reported depends on the completion order (the main family's subject)
				return nil
			}
			if a.Call.Res == "done" && !vh.CanonEq(a.Call.Result, b.Call.Result) {
				return []gcase5.Finding{{Sig: "C06:fault:result", What: fmt.Sprintf("call %d: final result differs from the model", i), Model: b, Impl: a}}
			}
			if !vh.CanonEq(a.Call.Info, b.Call.Info) {
				return []gcase5.Finding{{Sig: "C06:fault:info", What: fmt.Sprintf("call %d: canonical InterruptInfo differs from the model", i), Model: b.Call.Info, Impl: a.Call.Info}}
			}
		}
		if a.Call.Stored != b.Call.Stored {
			return []gcase5.Finding{{Sig: "C06:fault:stored", What: fmt.Sprintf("call %d (%s): store written=%v, model %v", i, a.Fres, a.Call.Stored, b.Call.Stored), Model: b, Impl: a}}
		}
		if !vh.CanonEq(a.Call.Steps, b.Call.Steps) {
			return []gcase5.Finding{{Sig: "C06:fault:steps:" + a.Fres, What: fmt.Sprintf("call %d (%s): supersteps differ from the model (after a failed write / read the next call must start from what is really stored)", i, a.Fres), Model: b, Impl: a}}
		}
		if !vh.CanonEq(a.Call.Execs, b.Call.Execs) {
			return []gcase5.Finding{{Sig: "C06:fault:execs:" + a.Fres, What: fmt.Sprintf("call %d (%s): node executions differ from the model", i, a.Fres), Model: b, Impl: a}}
		}
	}
	if len(h.Calls) != len(m.Calls) {
		return []gcase5.Finding{{Sig: "C06:fault:calls", What: fmt.Sprintf("number of calls of the history: implementation %d, model %d", len(h.Calls), len(m.Calls))}}
	}
	return nil
}

func c06fEvaluate(ctx *vh.Ctx, c *c06fCase) ([]gcase5.Finding, *c06fHist, error) {
	raw, err := ctx.Oracle.Ask("C06", c)
	if err != nil {
		return nil, nil, err
	}
	var model c06fHist
	if err := json.Unmarshal(raw, &model); err != nil {
		return nil, nil, err
	}
	impl, direct, class := c06fRun(c)
	if class != "ran" {
		if class == "hang" || strings.HasPrefix(class, "panic") {
			return []gcase5.Finding{{Sig: "C06:fault:" + strings.SplitN(class, ":", 2)[0], What: "a call under the fault plan: " + class, Impl: impl}}, impl, nil
		}
		return nil, nil, nil // malformed
	}
	return append(direct, c06fCompare(impl, &model)...), impl, nil
}

func c06fGen(ctx *vh.Ctx, i int) *c06fCase {
	r := ctx.Rng
	o := gcase5.GenOpts{Mode: "mixed", MaxNodes: 5, Depth: 2, Cycles: true, FailPct: 0, BranchPct: 30,
		StatePct: 60, HandlerPct: 20, RerunPct: 20, IntPct: 40, FirstBias: i%2 == 0}
	if i%3 == 1 {
		o.NestedPct = 45
		o.MaxNodes = 4
	}
	c := &c06fCase{Kind: "fault", G: gcase5.Gen(r, o), Input: fmt.Sprintf("x%d", r.Intn(5)), MaxCalls: 14,
		GetFail: []int{}, SetFail: []int{}}
	// fault plan: mostly one failing Set at a small position (the k-th interrupt of the history), sometimes
	// several, sometimes a failing Get, sometimes a healthy store
	switch p := r.Intn(100); {
	case p < 45:
		c.SetFail = []int{r.Intn(3)}
	case p < 65:
		a := r.Intn(3)
		c.SetFail = []int{a, a + 1 + r.Intn(2)}
	case p < 80:
		c.GetFail = []int{r.Intn(4)}
	case p < 92:
		c.SetFail = []int{r.Intn(3)}
		c.GetFail = []int{r.Intn(4)}
	}
	return c
}

func c06fReport(ctx *vh.Ctx, c *c06fCase, fs []gcase5.Finding) {
	seen := map[string]bool{}
	for _, fd := range fs {
		if seen[fd.Sig] {
			continue
		}
		seen[fd.Sig] = true
		ctx.Res.Disagree(vh.Disagreement{Signature: fd.Sig, What: fd.What, Case: c, Model: fd.Model, Impl: fd.Impl})
	}
}

// c06fShrink: drop nodes' interrupt points / faults while the signature stays (cheap, bounded)
func c06fShrink(ctx *vh.Ctx, c *c06fCase, sig string) (*c06fCase, []gcase5.Finding) {
	best := c
	var bestF []gcase5.Finding
	try := func(cand *c06fCase) bool {
		fs, _, err := c06fEvaluate(ctx, cand)
		if err != nil {
			return false
		}
		for _, f := range fs {
			if f.Sig == sig {
				best, bestF = cand, fs
				return true
			}
		}
		return false
	}
	clone := func(x *c06fCase) *c06fCase {
		b, _ := json.Marshal(x)
		var y c06fCase
		_ = json.Unmarshal(b, &y)
		return &y
	}
	for round := 0; round < 3; round++ {
		progress := false
		for k := range best.GetFail {
			cand := clone(best)
			cand.GetFail = append(append([]int{}, best.GetFail[:k]...), best.GetFail[k+1:]...)
			if try(cand) {
				progress = true
				break
			}
		}
		if len(best.SetFail) > 1 {
			for k := range best.SetFail {
				cand := clone(best)
				cand.SetFail = append(append([]int{}, best.SetFail[:k]...), best.SetFail[k+1:]...)
				if try(cand) {
					progress = true
					break
				}
			}
		}
		for _, which := range []string{"before", "after"} {
			l := best.G.IntBefore
			if which == "after" {
				l = best.G.IntAfter
			}
			for k := range l {
				cand := clone(best)
				nl := append(append([]string{}, l[:k]...), l[k+1:]...)
				if which == "after" {
					cand.G.IntAfter = nl
				} else {
					cand.G.IntBefore = nl
				}
				if try(cand) {
					progress = true
					break
				}
			}
		}
		if !progress {
			break
		}
	}
	if bestF == nil {
		return c, nil
	}
	return best, bestF
}

var c06fShrunk = map[string]bool{}

func c06fOne(ctx *vh.Ctx, c *c06fCase, doShrink bool) error {
	ctx.Progress.Mark(c)
	fs, impl, err := c06fEvaluate(ctx, c)
	if err != nil {
		return err
	}
	if impl == nil && len(fs) == 0 {
		ctx.Res.Count("fault:malformed", false)
		return nil
	}
	ctx.Res.Dist("family=fault")
	ctx.Res.Dist(fmt.Sprintf("fault:plan=set%d,get%d", len(c.SetFail), len(c.GetFail)))
	wf, rf, ints := 0, 0, 0
	if impl != nil {
		for i := range impl.Calls {
			switch impl.Calls[i].Fres {
			case "writeFailed":
				wf++
			case "readFailed":
				rf++
			}
			if impl.Calls[i].Call.Res == "interrupted" {
				ints++
			}
			if i > 0 && impl.Calls[i-1].Fres == "writeFailed" {
				if len(impl.Calls[i].Call.Steps) > 0 {
					ctx.Res.Dist("fault:retry-after-failed-write-runs-nodes")
				}
			}
		}
		ctx.Res.Dist(fmt.Sprintf("fault:calls=%d", min(len(impl.Calls), 14)))
		if n := len(impl.Calls); n > 0 {
			ctx.Res.Dist("fault:final=" + impl.Calls[n-1].Fres + "/" + impl.Calls[n-1].Call.Res)
		}
	}
	if wf > 0 {
		ctx.Res.Dist("fault:history-with-failed-write")
	}
	if rf > 0 {
		ctx.Res.Dist("fault:history-with-failed-read")
	}
	ctx.Res.Count("fault:"+vh.Canon(c), wf+rf >= 1 && ints+wf >= 1)
	ctx.Res.Sample(c)
	if len(fs) > 0 && doShrink {
		sort.SliceStable(fs, func(i, j int) bool { return fs[i].Sig < fs[j].Sig })
		sig := fs[0].Sig
		if !c06fShrunk[sig] {
			c06fShrunk[sig] = true
			if sc, sf := c06fShrink(ctx, c, sig); sf != nil {
				c, fs = sc, sf
			}
		}
	}
	c06fReport(ctx, c, fs)
	return nil
}

func runC06Fault(ctx *vh.Ctx) error {
	if !c05FamilyOn("fault") {
		return nil
	}
	other := gcase5.ProbeFwdStale()
	n := ctx.N(700, 8000)
	for i := 0; i < n && (i < 200 || ctx.TimeLeft()); i++ {
		c := c06fGen(ctx, i)
		c.CfgFwdStale = &other
		if err := c06fOne(ctx, c, true); err != nil {
			return err
		}
	}
	return nil
}

func c06fReplay(ctx *vh.Ctx, raw json.RawMessage) error {
	var c c06fCase
	if err := json.Unmarshal(raw, &c); err != nil {
		return err
	}
	if c.CfgFwdStale == nil {
		other := gcase5.ProbeFwdStale()
		c.CfgFwdStale = &other
	}
	return c06fOne(ctx, &c, false)
}
